package main

// C01 "transfer" group: the tie between the message-level model of a whole transfer
// (coq/theories/Model/Transfer.v) and REAL transfers.
//
// Every case is one fault-free transfer between the real client (trzsz.NewTrzszFilter, in
// this process) and the real trz / tsz binary (child process), recorded on the wire in both
// directions.  The two recorded byte streams are parsed into typed messages and printed in a
// canonical form; the model is given the configuration announced in the CFG line, the source
// entries in the order the sender named them, the prior destination, and - as the schedule -
// exactly the quantities the model leaves open (frame sizes, the COMP decision, the saved
// steps the acks carry, the zstd output); it has to reproduce the typed transcript of both
// directions, the names both ends report and the destination tree.
//
// Direct oracles on the implementation (c.violate): success, names reported = names replied
// = names created, MD5 on the wire = md5 of the source, ack lengths = frame lengths, ack steps
// monotone and bounded, compressed stream decompresses to the content, destination = source,
// both directions merged in the order of recording follow the protocol grammar.
//
// All modes are evaluated by the model, the two composed sub-protocols included:
//   - the ARCHIVE stream (protocol >= 4, overwrite off, a directory with children): the harness undoes
//     the codecs of the recorded frames, cuts the stream at its header lines, decodes every header
//     (base64, zlib, JSON) into an entry record and hands the records - with the header lines as the
//     header oracle - to the model as the SubFiles of the item, in the order of the stream;
//   - the RESUME exchange (protocol >= 3 onto a non-empty existing file, overwrite on): HASH records,
//     their answers and Over are typed messages like all others; the prefix digests (the hash strings
//     on the wire for the source, crypto/md5 of the prior content for the destination) are the oracle.
//
// Case line:  transfer_transcript <cfg> <table> <dest> <fs> <dflt> <entries> <tabs> <tags> => <canonical>
//   cfg      proto:binary:directory:overwrite:compress:upload   (as announced in the CFG line)
//   table    hex of the (byte, code) pairs of escape_chars in announcement order, - = none
//   dest     64 (the path /d)            fs   d:64,f:64/<hex name>:<hex content>,d:64/<hex name>,...
//   dflt     65536 (sc_dflt)
//   entries  id;isdir;rel;content;md5;z;sizes;profit;steps;prefinal;hstops;hdr;wsizes  joined by ","  (see m_transfer.ml)
//   tabs     h:<content>:<md5> / z:<content>:<zstd> / x:<prefix>:<digest string>  joined by ","
//   tags     one letter per message, both directions merged in recording order
//   canonical  S=|R=|SN=|RN=|NEW=|SHAPE=|TREE=|C2S=<typed messages>|S2C=<typed messages>|ORDER=|SPEC=|WF=
//     SPEC = what tr_spec (a function of the entries alone) says: the name per entry; the
//     deduplicated names; 1 = its final file system is the one the two machines produced

import (
	"bytes"
	"crypto/md5"
	"encoding/base64"
	"encoding/hex"
	"encoding/json"
	"fmt"
	"math/rand"
	"os"
	"path/filepath"
	"regexp"
	"sort"
	"strconv"
	"strings"
	"sync"
	"time"

	"github.com/klauspost/compress/zstd"
	"github.com/trzsz/trzsz-go/trzsz"
)

func init() { groups["transfer"] = genTransferTie }

// ---------------------------------------------------------------------------------------
// wire -> lines

type c01tLine struct {
	typ     string
	payload []byte // the rest of the line
	data    []byte // binary mode DATA: the n raw bytes after the line
	bad     string
	end     int // offset just behind the message in its direction
	ev      int // index of the transport write that completed it (global order of recording)
}

var c01tTypRe = regexp.MustCompile(`^#([A-Za-z][A-Za-z0-9]{1,4}):`)

// c01tLines cuts a recorded direction into protocol lines. binData: this direction carries
// DATA in binary mode (`#DATA:<n>\n` followed by n raw bytes).  Everything that is not a
// protocol line (the trigger, the final message of the server) is skipped.
func c01tLines(wire []byte, binData bool) []c01tLine {
	var out []c01tLine
	i := 0
	for i < len(wire) {
		nl := bytes.IndexByte(wire[i:], '\n')
		if nl < 0 {
			break
		}
		l := wire[i : i+nl]
		i += nl + 1
		m := c01tTypRe.FindSubmatch(l)
		if m == nil {
			continue
		}
		ln := c01tLine{typ: string(m[1]), payload: l[len(m[0]):]}
		if ln.typ == "DATA" && binData {
			n, err := strconv.Atoi(string(ln.payload))
			if err != nil || n < 0 || i+n > len(wire) {
				ln.bad = "binary DATA length " + string(ln.payload)
			} else {
				ln.data = wire[i : i+n]
				i += n
			}
		}
		ln.end = i
		out = append(out, ln)
	}
	return out
}

// one write of the transport as the harness saw it
type c01tEvent struct{ dir, n int }

// c01tStamp gives every line the index of the write that carried its last byte.  A message is
// recorded before it is delivered to its reader, so whatever a peer writes in reaction to a
// message has a larger index than that message.
func c01tStamp(lines []c01tLine, dir int, events []c01tEvent) {
	off, k := 0, 0
	for i := range lines {
		for k < len(events) && (events[k].dir != dir || off+events[k].n < lines[i].end) {
			if events[k].dir == dir {
				off += events[k].n
			}
			k++
		}
		lines[i].ev = k
	}
}

// ---------------------------------------------------------------------------------------
// typed messages

type c01tName struct {
	json    bool
	plain   string
	id      int
	rel     []string
	isDir   bool
	archive bool
	size    int64
}

type c01tMsg struct {
	kind string // NUM NAME SIZE COMP DATA MD5 EXIT HASH SUCCI SUCCN SUCCT ACK SUCCD SUCCH OTHER
	n    int64  // NUM, SIZE, SUCCI, DATA (canonical length), ACK len, SUCCT size
	step int64  // ACK step, HASH step, SUCCH step
	b    bool   // COMP, HASH over, SUCCH match
	name c01tName
	str  string   // SUCCN / SUCCT name
	bin  []byte   // MD5 / SUCCD digest, DATA wire payload (frame chars or raw bytes)
	strs []string // EXIT names
	raw  string   // OTHER
	ev   int      // recording index of the line
}

func c01tHexNames(names []string) string {
	parts := make([]string, len(names))
	for i, s := range names {
		parts[i] = hx([]byte(s))
	}
	return strings.Join(parts, ",")
}

func c01tHexRel(rel []string) string {
	parts := make([]string, len(rel))
	for i, s := range rel {
		parts[i] = hx([]byte(s))
	}
	return strings.Join(parts, ".")
}

func c01tB(b bool) string {
	if b {
		return "1"
	}
	return "0"
}

func (m c01tMsg) String() string {
	switch m.kind {
	case "NUM":
		return fmt.Sprintf("NUM:%d", m.n)
	case "NAME":
		if !m.name.json {
			return "NAME:p:" + hx([]byte(m.name.plain))
		}
		return fmt.Sprintf("NAME:j:%d:%s:%s:%d:%s", m.name.id, c01tB(m.name.isDir), c01tB(m.name.archive), m.name.size, c01tHexRel(m.name.rel))
	case "SIZE":
		return fmt.Sprintf("SIZE:%d", m.n)
	case "COMP":
		return "COMP:" + c01tB(m.b)
	case "DATA":
		return fmt.Sprintf("DATA:%d", m.n)
	case "MD5":
		return "MD5:" + hx(m.bin)
	case "EXIT":
		return "EXIT:" + c01tHexNames(m.strs)
	case "SUCCI":
		return fmt.Sprintf("SUCC:i:%d", m.n)
	case "SUCCN":
		return "SUCC:n:" + hx([]byte(m.str))
	case "SUCCT":
		return fmt.Sprintf("SUCC:t:%s:%d", hx([]byte(m.str)), m.n)
	case "ACK":
		return fmt.Sprintf("ACK:%d:%d", m.n, m.step)
	case "SUCCD":
		return "SUCC:d:" + hx(m.bin)
	case "HASH":
		if m.b {
			return "HASH:over"
		}
		return fmt.Sprintf("HASH:%d:%s", m.step, hx([]byte(m.str)))
	case "SUCCH":
		return fmt.Sprintf("SUCC:h:%d:%s", m.step, c01tB(m.b))
	}
	return "OTHER:" + m.raw
}

func c01tJoin(ms []c01tMsg) string {
	parts := make([]string, len(ms))
	for i, m := range ms {
		parts[i] = m.String()
	}
	return strings.Join(parts, " ")
}

// what the CFG line announced
type c01tCfg struct {
	Binary    bool            `json:"binary"`
	Directory bool            `json:"directory"`
	Overwrite bool            `json:"overwrite"`
	Protocol  int             `json:"protocol"`
	Compress  int             `json:"compress"`
	Bufsize   int64           `json:"bufsize"`
	Escape    json.RawMessage `json:"escape_chars"`
	table     *trzsz.VerifEscapeTable
	pairs     []pair // announcement order, as the model holds the table
}

func (g *c01tCfg) pipeline() bool { return g.Protocol >= 2 }
func (g *c01tCfg) v3() bool       { return g.Protocol >= 3 }
func (g *c01tCfg) jsonNames() bool {
	return g.v3() || g.Directory
}

var (
	c01tAckRe = regexp.MustCompile(`^(\d+)/(\d+)$`)
	c01tIntRe = regexp.MustCompile(`^\d+$`)
)

// c01tSender types the lines of the direction that carries the files.
func c01tSender(lines []c01tLine, g *c01tCfg) ([]c01tMsg, string) {
	var out []c01tMsg
	stamped := 0
	stamp := func(ev int) {
		for ; stamped < len(out); stamped++ {
			out[stamped].ev = ev
		}
	}
	prev := 0
	defer func() { stamp(prev) }()
	for _, l := range lines {
		stamp(prev) // what the previous line produced
		prev = l.ev
		if l.bad != "" {
			return out, l.bad
		}
		switch l.typ {
		case "ACT", "CFG":
			continue
		case "NUM", "SIZE":
			n, err := strconv.ParseInt(string(l.payload), 10, 64)
			if err != nil {
				return out, "integer " + string(l.payload)
			}
			out = append(out, c01tMsg{kind: l.typ, n: n})
		case "COMP":
			s := string(l.payload)
			if s != "true" && s != "false" {
				return out, "COMP " + s
			}
			out = append(out, c01tMsg{kind: "COMP", b: s == "true"})
		case "NAME":
			s, err := decodeLinePayload(string(l.payload))
			if err != nil {
				return out, "NAME payload: " + err.Error()
			}
			nm := c01tName{}
			if g.jsonNames() {
				var js struct {
					ID      int      `json:"path_id"`
					Rel     []string `json:"path_name"`
					IsDir   bool     `json:"is_dir"`
					Archive bool     `json:"archive"`
					Size    int64    `json:"size"`
				}
				if err := json.Unmarshal(s, &js); err != nil {
					return out, "NAME json: " + err.Error()
				}
				nm = c01tName{json: true, id: js.ID, rel: js.Rel, isDir: js.IsDir, archive: js.Archive, size: js.Size}
			} else {
				nm.plain = string(s)
			}
			out = append(out, c01tMsg{kind: "NAME", name: nm})
		case "DATA":
			m := c01tMsg{kind: "DATA"}
			if g.pipeline() {
				if g.Binary {
					m.bin = l.data
				} else {
					m.bin = l.payload
				}
				m.n = int64(len(m.bin))
			} else if g.Binary {
				m.bin = l.data
				m.n = int64(len(l.data))
			} else {
				d, err := decodeLinePayload(string(l.payload))
				if err != nil {
					return out, "DATA payload: " + err.Error()
				}
				m.bin = d // protocol 1, base64: the decoded chunk
				m.n = int64(len(d))
			}
			out = append(out, m)
		case "HASH":
			d, err := decodeLinePayload(string(l.payload))
			if err != nil {
				return out, "HASH payload: " + err.Error()
			}
			var js struct {
				Step int64  `json:"step"`
				Hash string `json:"hash"`
				Over bool   `json:"over"`
			}
			if err := json.Unmarshal(d, &js); err != nil {
				return out, "HASH json: " + err.Error()
			}
			out = append(out, c01tMsg{kind: "HASH", step: js.Step, str: js.Hash, b: js.Over})
		case "MD5":
			d, err := decodeLinePayload(string(l.payload))
			if err != nil {
				return out, "MD5 payload: " + err.Error()
			}
			out = append(out, c01tMsg{kind: "MD5", bin: d})
		case "EXIT":
			d, err := decodeLinePayload(string(l.payload))
			if err != nil {
				return out, "EXIT payload: " + err.Error()
			}
			names, ok := parseSaved(string(d))
			if !ok {
				return out, "EXIT message: " + string(d)
			}
			out = append(out, c01tMsg{kind: "EXIT", strs: names})
		default:
			out = append(out, c01tMsg{kind: "OTHER", raw: l.typ})
		}
	}
	return out, ""
}

// c01tReceiver types the lines of the answering direction: the k-th SUCC that is neither a
// number nor an ack answers the k-th NAME or MD5 of the sender.
func c01tReceiver(lines []c01tLine, g *c01tCfg, sender []c01tMsg) ([]c01tMsg, string) {
	var asks []string
	for _, m := range sender {
		if m.kind == "NAME" || m.kind == "MD5" {
			asks = append(asks, m.kind)
		}
	}
	var out []c01tMsg
	k := 0
	stamped := 0
	stamp := func(ev int) {
		for ; stamped < len(out); stamped++ {
			out[stamped].ev = ev
		}
	}
	prev := 0
	defer func() { stamp(prev) }()
	for _, l := range lines {
		stamp(prev)
		prev = l.ev
		switch l.typ {
		case "ACT", "CFG":
			continue
		case "EXIT":
			d, err := decodeLinePayload(string(l.payload))
			if err != nil {
				return out, "EXIT payload: " + err.Error()
			}
			names, ok := parseSaved(string(d))
			if !ok {
				return out, "EXIT message: " + string(d)
			}
			out = append(out, c01tMsg{kind: "EXIT", strs: names})
		case "SUCC":
			p := string(l.payload)
			if a := c01tAckRe.FindStringSubmatch(p); a != nil {
				ln, _ := strconv.ParseInt(a[1], 10, 64)
				st, _ := strconv.ParseInt(a[2], 10, 64)
				out = append(out, c01tMsg{kind: "ACK", n: ln, step: st})
			} else if c01tIntRe.MatchString(p) {
				n, _ := strconv.ParseInt(p, 10, 64)
				out = append(out, c01tMsg{kind: "SUCCI", n: n})
			} else {
				d, err := decodeLinePayload(p)
				if err != nil {
					return out, "SUCC payload: " + err.Error()
				}
				if g.v3() {
					// an answer to a HASH record: {"step":..,"match":..}
					var js map[string]any
					if json.Unmarshal(d, &js) == nil && js["match"] != nil {
						st, _ := js["step"].(float64)
						mt, _ := js["match"].(bool)
						out = append(out, c01tMsg{kind: "SUCCH", step: int64(st), b: mt})
						continue
					}
				}
				if k >= len(asks) {
					return out, "a SUCC string nobody asked for"
				}
				if asks[k] == "MD5" {
					out = append(out, c01tMsg{kind: "SUCCD", bin: d})
				} else if g.v3() {
					var js struct {
						Name string `json:"name"`
						Size int64  `json:"size"`
					}
					if err := json.Unmarshal(d, &js); err != nil {
						return out, "SUCC target json: " + err.Error()
					}
					out = append(out, c01tMsg{kind: "SUCCT", str: js.Name, n: js.Size})
				} else {
					out = append(out, c01tMsg{kind: "SUCCN", str: string(d)})
				}
				k++
			}
		default:
			out = append(out, c01tMsg{kind: "OTHER", raw: l.typ})
		}
	}
	return out, ""
}

// the CFG line (always server -> client)
func c01tParseCfg(s2c []c01tLine) (*c01tCfg, string) {
	for _, l := range s2c {
		if l.typ != "CFG" {
			continue
		}
		js, err := decodeLinePayload(string(l.payload))
		if err != nil {
			return nil, "CFG payload: " + err.Error()
		}
		g := &c01tCfg{}
		if err := json.Unmarshal(js, g); err != nil {
			return nil, "CFG json: " + err.Error()
		}
		if len(g.Escape) > 0 && string(g.Escape) != "null" {
			var arr [][]string
			if err := json.Unmarshal(g.Escape, &arr); err != nil {
				return nil, "escape_chars: " + err.Error()
			}
			for _, e := range arr {
				if len(e) != 2 {
					return nil, "escape_chars entry"
				}
				s, c := []rune(e[0]), []rune(e[1])
				if len(s) != 1 || len(c) != 2 || s[0] > 255 || c[1] > 255 {
					return nil, "escape_chars entry " + fmt.Sprint(e)
				}
				g.pairs = append(g.pairs, pair{byte(s[0]), byte(c[1])})
			}
			if len(g.pairs) > 0 {
				t, err := trzsz.VerifParseEscapeTable(g.Escape)
				if err != nil {
					return nil, "escape table: " + err.Error()
				}
				g.table = t
			}
		}
		return g, ""
	}
	return nil, "no CFG line"
}

// ---------------------------------------------------------------------------------------
// per-entry view of the two typed transcripts

type c01tEntry struct {
	name    c01tName
	srcPath string // the source on disk
	content []byte
	isDir   bool
	reply   string   // the name the receiver answered
	tsize   int64    // the size it answered (protocol >= 3)
	hasSize bool     // SIZE seen
	size    int64    // SIZE
	comp    *bool    // COMP seen
	frames  [][]byte // DATA payloads (finish flag excluded for protocol >= 2)
	finish  bool
	md5     []byte
	steps   []int64 // per-frame ack steps (protocol >= 2)
	acks    []int64 // per-frame ack lengths
	finals  []int64 // the final acks (protocol >= 2) / the chunk acks (protocol 1)
	digest  []byte
	// resume
	preSize *int64    // protocol 3: the source size announced before the HASH records
	hashes  []c01tMsg // HASH records (Over excluded)
	over    bool
	hacks   []c01tMsg // their answers
	offset  int64     // the offset both ends agreed on (from the answers)
	// archive
	stream []byte      // the decoded archive stream
	subs   []*c01tSub  // its entries, in order
	// what went over the wire as the file of this entry: the content, the rest of it, the archive stream
	wire []byte
}

// one entry of an archive stream
type c01tSub struct {
	hdr     []byte // the header line (without the newline)
	id      int
	rel     []string
	isDir   bool
	archive bool
	size    int64
	content []byte
}

// c01tEntries groups the two transcripts by entry.  Strict: anything outside the grammar of a
// fault-free modelled exchange is reported (the caller then judges by the direct oracles only).
func c01tEntries(g *c01tCfg, snd, rcv []c01tMsg) (es []*c01tEntry, num int64, exitS, exitR []string, bad string) {
	num = -1
	var cur *c01tEntry
	for _, m := range snd {
		switch m.kind {
		case "NUM":
			num = m.n
		case "NAME":
			cur = &c01tEntry{name: m.name, isDir: m.name.isDir}
			es = append(es, cur)
		case "EXIT":
			exitS = m.strs
		default:
			if cur == nil {
				return es, num, exitS, exitR, m.kind + " before a NAME"
			}
			switch m.kind {
			case "SIZE":
				if cur.hasSize {
					// protocol 3 resume: the first SIZE was the announcement of the source size
					v := cur.size
					cur.preSize = &v
				}
				cur.hasSize, cur.size = true, m.n
			case "HASH":
				if m.b {
					cur.over = true
				} else {
					cur.hashes = append(cur.hashes, m)
				}
			case "COMP":
				b := m.b
				cur.comp = &b
			case "DATA":
				if g.pipeline() && m.n == 0 {
					cur.finish = true
				} else {
					cur.frames = append(cur.frames, m.bin)
				}
			case "MD5":
				cur.md5 = m.bin
			default:
				return es, num, exitS, exitR, "sender said " + m.String()
			}
		}
	}
	// receiver: SUCC:i(num) then per entry: name reply [size echo, acks, finals, digest]
	i := 0
	if i < len(rcv) && rcv[i].kind == "SUCCI" {
		i++
	} else {
		return es, num, exitS, exitR, "no NUM echo"
	}
	for _, e := range es {
		if i >= len(rcv) || (rcv[i].kind != "SUCCN" && rcv[i].kind != "SUCCT") {
			return es, num, exitS, exitR, "no name reply"
		}
		e.reply, e.tsize = rcv[i].str, rcv[i].n
		if rcv[i].kind == "SUCCN" {
			e.tsize = 0
		}
		i++
		for i < len(rcv) && rcv[i].kind == "SUCCH" {
			e.hacks = append(e.hacks, rcv[i])
			i++
		}
		if !e.hasSize {
			continue
		}
		if i >= len(rcv) || rcv[i].kind != "SUCCI" {
			return es, num, exitS, exitR, "no SIZE echo"
		}
		i++
		for i < len(rcv) && rcv[i].kind == "ACK" {
			e.acks = append(e.acks, rcv[i].n)
			e.steps = append(e.steps, rcv[i].step)
			i++
		}
		for i < len(rcv) && rcv[i].kind == "SUCCI" {
			e.finals = append(e.finals, rcv[i].n)
			i++
		}
		if i >= len(rcv) || rcv[i].kind != "SUCCD" {
			return es, num, exitS, exitR, "no digest reply"
		}
		e.digest = rcv[i].bin
		i++
	}
	if i < len(rcv) && rcv[i].kind == "EXIT" {
		exitR = rcv[i].strs
		i++
	}
	if i != len(rcv) {
		return es, num, exitS, exitR, "receiver said " + rcv[i].String()
	}
	return es, num, exitS, exitR, ""
}

// ---------------------------------------------------------------------------------------
// trees

var c01tNames = []string{"a.txt", "b b.bin", "üñí-文件.dat", ".hidden", "x.tar.gz", "emoji😀.txt", "name.0", "q"}

func c01tSize(rng *rand.Rand) int {
	edge := []int{0, 1, 511, 512, 513}
	if rng.Intn(5) < 3 {
		return edge[rng.Intn(len(edge))]
	}
	return 2 + rng.Intn(6000)
}

// c01tMakeTree: kind 0 = flat files; 1 = directory mode without children (an empty
// directory and files: never an archive); 2 = directory mode with a nested tree (an empty
// directory, files at three depths, one of them empty); 3 = flat,
// one file of about 128 KiB
func c01tMakeTree(rng *rand.Rand, root string, kind int, bigKind int) []string {
	var tops []string
	mk := func(p string, n int, k int) {
		os.MkdirAll(filepath.Dir(p), 0755)
		os.WriteFile(p, fillBytes(rng, n, k), 0644)
	}
	perm := rng.Perm(len(c01tNames))
	switch kind {
	case 0:
		k := 1 + rng.Intn(4)
		for i := 0; i < k; i++ {
			p := filepath.Join(root, "s", c01tNames[perm[i]])
			if i == 0 {
				// bytes the escape tables protect, never empty
				mk(p, []int{1, 511, 512, 513, 600 + rng.Intn(5400)}[rng.Intn(5)], 3)
			} else {
				mk(p, c01tSize(rng), rng.Intn(4))
			}
			tops = append(tops, p)
		}
	case 1:
		d := filepath.Join(root, "s", "ed")
		os.MkdirAll(d, 0755)
		p := filepath.Join(root, "s", c01tNames[perm[0]])
		mk(p, []int{1, 511, 512, 513, 600 + rng.Intn(5400)}[rng.Intn(5)], 3)
		tops = []string{d, p}
		if rng.Intn(2) == 0 {
			tops[0], tops[1] = tops[1], tops[0]
		}
		if rng.Intn(2) == 0 {
			q := filepath.Join(root, "s", c01tNames[perm[1]])
			mk(q, c01tSize(rng), rng.Intn(4))
			tops = append(tops, q)
		}
	case 3:
		// one file at or above the size where the compression decision is no longer fixed
		// (isCompressFixed: 128 KiB, compress auto, protocol >= 3): the sender says COMP
		p := filepath.Join(root, "s", "big.bin")
		size := []int{131071, 131072, 131073 + rng.Intn(3000), 131073 + rng.Intn(3000)}[rng.Intn(4)]
		if bigKind == 0 {
			size = 262144 + rng.Intn(2000)
		}
		mk(p, size, bigKind)
		tops = []string{p}
		if rng.Intn(2) == 0 {
			q := filepath.Join(root, "s", c01tNames[perm[0]])
			mk(q, c01tSize(rng), rng.Intn(4))
			tops = append(tops, q)
		}
	case 2:
		d := filepath.Join(root, "s", "tree")
		os.MkdirAll(filepath.Join(d, "e"), 0755)
		mk(filepath.Join(d, "t.bin"), []int{1, 511, 512, 513, 600 + rng.Intn(5400)}[rng.Intn(5)], 3)
		mk(filepath.Join(d, "sub", "n n.txt"), c01tSize(rng), rng.Intn(4))
		mk(filepath.Join(d, "sub", "deep", "zero"), 0, 0) // an empty file two levels down
		tops = []string{d}
		if rng.Intn(2) == 0 {
			p := filepath.Join(root, "s", "solo.dat")
			mk(p, c01tSize(rng), rng.Intn(4))
			tops = append(tops, p)
		}
	}
	return tops
}

// c01tResumeOld: the content a resumed file meets.  mode 0: unrelated bytes; 1: a proper prefix of
// the source; 2: the source and more; 3: the source itself; 4: a prefix of the source, then other
// bytes; 5: unrelated bytes, and the source is emptied (the caller does that)
func c01tResumeOld(rng *rand.Rand, src []byte, mode int) []byte {
	other := func(n int) []byte {
		b := fillBytes(rng, n, 2)
		for i := range b {
			b[i] ^= 0x55 // never the source's bytes at the same place by accident
		}
		return b
	}
	switch {
	case mode == 1 && len(src) >= 2:
		return append([]byte(nil), src[:1+rng.Intn(len(src)-1)]...)
	case mode == 2:
		return append(append([]byte(nil), src...), other(1+rng.Intn(20))...)
	case mode == 3 && len(src) >= 1:
		return append([]byte(nil), src...)
	case mode == 4 && len(src) >= 2:
		k := 1 + rng.Intn(len(src)-1)
		return append(append([]byte(nil), src[:k]...), other(1+rng.Intn(30))...)
	}
	return other(1 + rng.Intn(40))
}

// prior destination entry, relative to dest
type c01tPre struct {
	rel     string
	isDir   bool
	content []byte
}

func c01tFsArg(pre []c01tPre) string {
	parts := []string{"d:" + hx([]byte("d"))}
	for _, p := range pre {
		comps := []string{hx([]byte("d"))}
		for _, c := range strings.Split(p.rel, "/") {
			comps = append(comps, hx([]byte(c)))
		}
		if p.isDir {
			parts = append(parts, "d:"+strings.Join(comps, "/"))
		} else {
			parts = append(parts, "f:"+strings.Join(comps, "/")+":"+hx(p.content))
		}
	}
	return strings.Join(parts, ",")
}

// destination listing, relative to dest: d:<rel> / f:<rel>:<len>:<md5>
func c01tListing(dest string) string {
	var ents []string
	filepath.Walk(dest, func(p string, info os.FileInfo, err error) error {
		if err != nil {
			return nil
		}
		rel, _ := filepath.Rel(dest, p)
		if rel == "." {
			return nil
		}
		var comps []string
		for _, c := range strings.Split(rel, "/") {
			comps = append(comps, hx([]byte(c)))
		}
		k := strings.Join(comps, "/")
		if info.IsDir() {
			ents = append(ents, "d:"+k)
		} else {
			b, _ := os.ReadFile(p)
			s := md5.Sum(b)
			ents = append(ents, fmt.Sprintf("f:%s:%d:%s", k, len(b), hex.EncodeToString(s[:])))
		}
		return nil
	})
	sort.Strings(ents)
	return strings.Join(ents, ",")
}

// ---------------------------------------------------------------------------------------
// one case

type c01tViol struct{ key, what, detail string }

type c01tCase struct {
	cfg     e2eCfg
	seed    int64
	kind    int    // tree kind
	preKind int    // 0 nothing, 1 unrelated only, 2 collision, 3 collision with name.0 taken too / non-empty (resume)
	bigKind int    // content kind of the big file (tree kind 3): 1 zeros, 2 text-like, 0 incompressible
	want    string // "", "archive", "resume": a sub-protocol provoked on purpose
	resMode int    // resume: how the prior content relates to the source (see c01tResumeOld)
	desc    string
	// outcome
	viols   []c01tViol
	counts  []string
	emit    bool
	impl    string
	args    []string
	summary string
}

func (tc *c01tCase) violate(key, what, detail string) {
	tc.viols = append(tc.viols, c01tViol{key, what, tc.desc + " :: " + detail})
}

func c01tDedup(names []string) []string {
	var out []string
	for _, n := range names {
		if !c01tHas(out, n) {
			out = append(out, n)
		}
	}
	return out
}

func c01tHas(l []string, s string) bool {
	for _, x := range l {
		if x == s {
			return true
		}
	}
	return false
}

func c01tSameSet(a, b []string) bool {
	x := append([]string(nil), a...)
	y := append([]string(nil), b...)
	sort.Strings(x)
	sort.Strings(y)
	return strings.Join(x, "\x00") == strings.Join(y, "\x00") && len(x) == len(y)
}

func c01tInts(v []int64, sep string) string {
	if len(v) == 0 {
		return "-"
	}
	parts := make([]string, len(v))
	for i, x := range v {
		parts[i] = strconv.FormatInt(x, 10)
	}
	return strings.Join(parts, sep)
}

const c01tDflt = 65536

func (tc *c01tCase) run(work string, idx int) {
	rng := rand.New(rand.NewSource(tc.seed))
	root := filepath.Join(work, fmt.Sprint(idx))
	dest := filepath.Join(root, "dest")
	os.MkdirAll(dest, 0755)
	defer os.RemoveAll(root)
	tops := c01tMakeTree(rng, root, tc.kind, tc.bigKind)

	// ---- prior destination
	var pre []c01tPre
	protoV3 := tc.cfg.proto >= 3
	small := func(n int) []byte { return fillBytes(rng, n, 2) }
	if tc.preKind >= 1 {
		pre = append(pre, c01tPre{rel: "zz-other.txt", content: small(5)})
	}
	if tc.preKind >= 2 {
		top := tops[rng.Intn(len(tops))]
		if tc.want == "resume" {
			top = tops[0] // kind 0: a non-empty file; kind 2: the tree
		}
		base := filepath.Base(top)
		st, _ := os.Stat(top)
		if !tc.cfg.overwrite {
			// the receiver has to pick base.0 (or base.1)
			if st.IsDir() || rng.Intn(3) == 0 {
				pre = append(pre, c01tPre{rel: base, isDir: true}, c01tPre{rel: base + "/keep.txt", content: small(4)})
			} else {
				pre = append(pre, c01tPre{rel: base, content: small(3)})
			}
			if tc.preKind == 3 {
				pre = append(pre, c01tPre{rel: base + ".0", content: small(2)})
			}
		} else if st.IsDir() {
			// overwrite into an existing directory that holds something else and (maybe) one of the files
			pre = append(pre, c01tPre{rel: base, isDir: true}, c01tPre{rel: base + "/keep.txt", content: small(4)})
			if base == "tree" && tc.want == "resume" {
				src, _ := os.ReadFile(filepath.Join(top, "t.bin"))
				pre = append(pre, c01tPre{rel: "tree/t.bin", content: c01tResumeOld(rng, src, tc.resMode)})
				if tc.resMode == 5 {
					os.WriteFile(filepath.Join(top, "t.bin"), nil, 0644)
				}
			} else if base == "tree" && rng.Intn(2) == 0 {
				n := 0
				if !protoV3 {
					n = 1 + rng.Intn(40)
				}
				pre = append(pre, c01tPre{rel: "tree/t.bin", content: small(n)})
			}
		} else {
			// overwrite replaces an existing file: empty for protocol >= 3 (a non-empty one starts the
			// resume exchange), smaller and non-empty otherwise
			if tc.want == "resume" {
				src, _ := os.ReadFile(top)
				pre = append(pre, c01tPre{rel: base, content: c01tResumeOld(rng, src, tc.resMode)})
				if tc.resMode == 5 {
					os.WriteFile(top, nil, 0644)
				}
			} else {
				n := 0
				if !protoV3 {
					n = 1 + rng.Intn(int(min(int(st.Size()), 40))+1)
				}
				pre = append(pre, c01tPre{rel: base, content: small(n)})
			}
		}
	}
	for _, p := range pre {
		full := filepath.Join(dest, p.rel)
		if p.isDir {
			os.MkdirAll(full, 0755)
		} else {
			os.MkdirAll(filepath.Dir(full), 0755)
			os.WriteFile(full, p.content, 0644)
		}
	}
	preTop := map[string]bool{}
	for _, p := range pre {
		preTop[strings.Split(p.rel, "/")[0]] = true
	}

	// record the global order of the writes of both directions (nothing is re-chunked)
	var evMu sync.Mutex
	var events []c01tEvent
	tc.cfg.hook = func(dir, idx int, b []byte) e2eAction {
		evMu.Lock()
		events = append(events, c01tEvent{dir, len(b)})
		evMu.Unlock()
		return e2eAction{}
	}
	res := runTransfer(tc.cfg, tops, dest)
	evMu.Lock()
	events = append([]c01tEvent(nil), events...)
	evMu.Unlock()

	// ---- success (cooperative, fault-free)
	shown := res.serverOut
	if !tc.cfg.upload {
		shown = res.termOut + res.serverOut
	}
	_, savedOK := parseSaved(shown)
	success := savedOK && !res.hung && res.clientDone && res.serverExited && res.serverCode == 0 && (!tc.cfg.upload || res.uploadErr == nil)
	if !success {
		tc.violate("transfer:no-success", "a fault-free transfer did not succeed",
			fmt.Sprintf("hung=%v clientDone=%v serverExited=%v code=%d uploadErr=%v saved=%v tail=%q", res.hung, res.clientDone,
				res.serverExited, res.serverCode, res.uploadErr, savedOK, tailStr(res.termOut+"|"+res.serverOut, 300)))
		return
	}

	// ---- typed transcripts
	sdir, rdir := dirS2C, dirC2S
	if tc.cfg.upload {
		sdir, rdir = dirC2S, dirS2C
	}
	g, bad := c01tParseCfg(c01tLines(res.wire[dirS2C], false))
	if bad != "" {
		tc.violate("transfer:parse", "the recorded wire could not be parsed", bad)
		return
	}
	sLines, rLines := c01tLines(res.wire[sdir], g.Binary), c01tLines(res.wire[rdir], false)
	c01tStamp(sLines, sdir, events)
	c01tStamp(rLines, rdir, events)
	snd, bad := c01tSender(sLines, g)
	if bad != "" {
		tc.violate("transfer:parse", "the recorded wire could not be parsed", "sender: "+bad)
		return
	}
	rcv, bad := c01tReceiver(rLines, g, snd)
	if bad != "" {
		tc.violate("transfer:parse", "the recorded wire could not be parsed", "receiver: "+bad+" :: "+c01tJoin(snd)+" || "+c01tJoin(rcv))
		return
	}
	tc.counts = append(tc.counts, fmt.Sprintf("cfg-proto:%d", g.Protocol), fmt.Sprintf("cfg-binary:%v", g.Binary),
		fmt.Sprintf("cfg-directory:%v", g.Directory), fmt.Sprintf("cfg-overwrite:%v", g.Overwrite),
		fmt.Sprintf("cfg-compress:%d", g.Compress), fmt.Sprintf("cfg-table:%d", len(g.pairs)))

	es, num, exitS, exitR, gbad := c01tEntries(g, snd, rcv)
	mode := ""
	for _, m := range snd {
		if m.kind == "NAME" && m.name.archive {
			mode = "archive"
		}
	}
	for _, e := range es {
		if e.tsize > 0 && !e.isDir && !e.name.archive && mode == "" {
			mode = "resume"
		}
	}
	if mode != tc.want {
		tc.violate("transfer:harness-mode", "harness: the case did not take the intended exchange",
			fmt.Sprintf("want %q got %q", tc.want, mode))
	}
	if gbad != "" {
		tc.violate("transfer:grammar", "the transcript of a fault-free transfer is outside the message grammar",
			gbad+" :: "+c01tJoin(snd)+" || "+c01tJoin(rcv))
		return
	}
	if mode != "" {
		tc.counts = append(tc.counts, "mode:"+mode)
	}

	// ---- names: EXIT = deduplicated SUCC name replies = new top-level entries (= server's message)
	var replies []string
	for _, m := range rcv {
		if m.kind == "SUCCN" || m.kind == "SUCCT" {
			replies = append(replies, m.str)
		}
	}
	replied := c01tDedup(replies)
	for _, m := range snd {
		if m.kind == "EXIT" {
			exitS = m.strs
		}
	}
	for _, m := range rcv {
		if m.kind == "EXIT" {
			exitR = m.strs
		}
	}
	exitNames := exitS
	if !tc.cfg.upload {
		exitNames = exitR
	}
	var created []string
	ents, _ := os.ReadDir(dest)
	for _, e := range ents {
		if !preTop[e.Name()] {
			created = append(created, e.Name())
		}
	}
	sort.Strings(created)
	if strings.Join(exitNames, "\x00") != strings.Join(replied, "\x00") {
		tc.violate("transfer:names-exit", "the names in the client's EXIT message are not the names the receiver replied",
			fmt.Sprintf("EXIT %q replies %q", exitNames, replied))
	}
	for _, n := range created {
		if !c01tHas(replied, n) {
			tc.violate("transfer:names-created", "an entry was created at the destination under a name the receiver never reported",
				fmt.Sprintf("created %q replies %q", created, replied))
			break
		}
	}
	for _, n := range replied {
		if _, err := os.Lstat(filepath.Join(dest, n)); err != nil {
			tc.violate("transfer:names-missing", "a reported name does not exist at the destination", fmt.Sprintf("%q: created %q", n, created))
			break
		}
		if !c01tHas(created, n) && (!g.Overwrite || !preTop[n]) {
			tc.violate("transfer:names-not-new", "a reported name is not a new entry although nothing allowed replacing one",
				fmt.Sprintf("%q: created %q prior %v", n, created, preTop))
			break
		}
	}
	serverNames := []string(nil)
	if tc.cfg.upload {
		serverNames, _ = parseSaved(res.serverOut)
		if strings.Join(serverNames, "\x00") != strings.Join(replied, "\x00") {
			tc.violate("transfer:names-server", "the names in the server's message are not the names it replied",
				fmt.Sprintf("server %q replies %q", serverNames, replied))
		}
	}

	// ---- the sources of the entries named; the file of each that went over the wire
	priorContent := map[string][]byte{}
	for _, p := range pre {
		if !p.isDir {
			priorContent[p.rel] = p.content
		}
	}
	plainIdx := 0
	for _, e := range es {
		if e.name.json {
			if e.name.id < 0 || e.name.id >= len(tops) || len(e.name.rel) == 0 {
				tc.violate("transfer:entries", "a NAME refers to no source", fmt.Sprint(e.name))
				return
			}
			e.srcPath = filepath.Join(append([]string{filepath.Dir(tops[e.name.id])}, e.name.rel...)...)
		} else {
			if plainIdx >= len(tops) {
				tc.violate("transfer:entries", "more NAMEs than sources", "")
				return
			}
			e.srcPath = tops[plainIdx]
			plainIdx++
		}
		if !e.isDir && !e.name.archive {
			b, err := os.ReadFile(e.srcPath)
			if err != nil {
				tc.violate("transfer:entries", "a NAME refers to no source file", e.srcPath)
				return
			}
			e.content = b
		}
	}
	for _, e := range es {
		switch {
		case e.name.archive:
			// the archive stream: undo the codecs, cut it at its header lines, decode the headers
			file, _, bad := c01tWireFile(g, e, nil)
			if bad != "" {
				tc.violate("transfer:stream", "the recorded frames of an archive do not decode", e.srcPath+": "+bad)
				return
			}
			e.stream, e.wire = file, file
			subs, bad := c01tParseArchive(file)
			if bad != "" {
				tc.violate("transfer:archive-stream", "the archive stream is not a sequence of header lines and contents", e.srcPath+": "+bad)
				return
			}
			e.subs = subs
			for _, sb := range subs {
				src := filepath.Join(append([]string{filepath.Dir(tops[e.name.id])}, sb.rel...)...)
				st, err := os.Stat(src)
				okc := err == nil && st.IsDir() == sb.isDir
				if okc && !sb.isDir {
					b, _ := os.ReadFile(src)
					okc = bytes.Equal(b, sb.content)
				}
				if sb.id != e.name.id || len(sb.rel) < 2 || sb.rel[0] != e.name.rel[0] || sb.archive || !okc {
					tc.violate("transfer:archive-entry", "an entry of the archive stream is not the source entry it names (path id, path, kind, content)",
						fmt.Sprintf("archive %d %q: entry id=%d rel=%q dir=%v size=%d", e.name.id, e.name.rel, sb.id, sb.rel, sb.isDir, sb.size))
					break
				}
			}
			tc.counts = append(tc.counts, fmt.Sprintf("archive-entries:%d", min(len(subs), 4)))
		case !e.isDir && e.tsize > 0:
			// resumed: the agreed offset, the rest of the file
			rel := e.reply
			if e.name.json && len(e.name.rel) > 1 {
				rel = e.reply + "/" + strings.Join(e.name.rel[1:], "/")
			}
			old, okp := priorContent[rel]
			if !okp || int64(len(old)) != e.tsize {
				tc.violate("transfer:resume-target", "the size replied is not the size of the file that was there",
					fmt.Sprintf("%s: replied %d, prior %d bytes (known %v)", rel, e.tsize, len(old), okp))
				return
			}
			tc.resumeOracles(g, e, old)
			if e.offset > int64(len(e.content)) {
				return
			}
			e.wire = e.content[e.offset:]
		case !e.isDir:
			e.wire = e.content
		}
	}

	// ---- entries named (the items and the entries of their archive streams) = the source tree
	var want []string
	for i, top := range tops {
		filepath.Walk(top, func(p string, info os.FileInfo, err error) error {
			if err != nil {
				return nil
			}
			rel, _ := filepath.Rel(filepath.Dir(top), p)
			want = append(want, fmt.Sprintf("%d:%s:%v", i, rel, info.IsDir()))
			return nil
		})
	}
	var got []string
	plainIdx = 0
	for _, e := range es {
		if e.name.json {
			got = append(got, fmt.Sprintf("%d:%s:%v", e.name.id, filepath.Join(e.name.rel...), e.name.isDir))
			for _, sb := range e.subs {
				got = append(got, fmt.Sprintf("%d:%s:%v", sb.id, filepath.Join(sb.rel...), sb.isDir))
			}
		} else {
			got = append(got, fmt.Sprintf("%d:%s:%v", plainIdx, e.name.plain, false))
			plainIdx++
		}
	}
	if !c01tSameSet(want, got) {
		tc.violate("transfer:entries", "the entries named are not the source tree", fmt.Sprintf("named %q source %q", got, want))
	}
	if num != int64(len(es)) {
		tc.violate("transfer:num", "NUM is not the number of NAMEs", fmt.Sprintf("NUM %d, %d names", num, len(es)))
	}

	// ---- destination = source (under the replied names)
	checkDest := func(p string, isDir bool, content []byte, what string) bool {
		st, err := os.Stat(p)
		if err != nil || st.IsDir() != isDir {
			tc.violate("transfer:dest-entry", "an entry is missing at the destination", p)
			return false
		}
		if !isDir {
			b, _ := os.ReadFile(p)
			if !bytes.Equal(b, content) {
				tc.violate("transfer:dest-content", "destination content differs from the source",
					fmt.Sprintf("%s: source %d bytes, destination %d bytes", what, len(content), len(b)))
				return false
			}
		}
		return true
	}
	for _, e := range es {
		var p string
		if e.name.json {
			p = filepath.Join(append([]string{dest, e.reply}, e.name.rel[1:]...)...)
		} else {
			p = filepath.Join(dest, e.reply)
		}
		if !checkDest(p, e.isDir, e.content, e.reply) {
			break
		}
		okAll := true
		for _, sb := range e.subs {
			if len(sb.rel) < 2 {
				continue
			}
			if !checkDest(filepath.Join(append([]string{dest, e.reply}, sb.rel[1:]...)...), sb.isDir, sb.content, e.reply+"/"+strings.Join(sb.rel[1:], "/")) {
				okAll = false
				break
			}
		}
		if !okAll {
			break
		}
	}

	tc.summary = fmt.Sprintf("names=%s entries=%d", strings.Join(replied, ","), len(es))

	// ---- per file: MD5, acks, compressed stream
	var entArgs, tabs []string
	for _, e := range es {
		rel := e.name.rel
		id := e.name.id
		if !e.name.json {
			rel = []string{e.name.plain}
			id = 0
		}
		if e.isDir && !e.name.archive {
			entArgs = append(entArgs, fmt.Sprintf("%d;1;%s;-;-;-;-;0;-;-;-;-;-", id, c01tHexRel(rel)))
			continue
		}
		special := e.name.archive || e.tsize > 0 // the wire file is not the entry's content
		sum := md5.Sum(e.wire)
		if !bytes.Equal(e.md5, sum[:]) {
			tc.violate("transfer:md5", "the MD5 on the wire is not the md5 of what was to be sent",
				fmt.Sprintf("%s: wire %s expected %s", e.srcPath, hx(e.md5), hx(sum[:])))
		}
		size := int64(len(e.wire))
		if e.hasSize && e.size != size {
			tc.violate("transfer:size", "the SIZE announced is not the number of bytes that were to be sent",
				fmt.Sprintf("%s: SIZE %d, %d bytes", e.srcPath, e.size, size))
		}
		last := int64(0)
		all := append(append([]int64(nil), e.steps...), e.finals...)
		if !g.pipeline() {
			all = nil
		}
		for _, s := range all {
			if s > size || s < last {
				tc.violate("transfer:ack-steps", "an acknowledged step exceeds the file size or decreases",
					fmt.Sprintf("%s size %d: steps %v finals %v", e.srcPath, size, e.steps, e.finals))
				break
			}
			last = s
		}
		var sizes, prefinal []int64
		var z []byte
		if g.pipeline() {
			for _, f := range e.frames {
				sizes = append(sizes, int64(len(f)))
			}
			if c01tInts(e.acks, ".") != c01tInts(append(append([]int64(nil), sizes...), 0), ".") {
				tc.violate("transfer:ack-length", "the acknowledged lengths are not the lengths of the frames sent",
					fmt.Sprintf("%s: frames %v + finish flag, acks %v", e.srcPath, sizes, e.acks))
			}
			for _, s := range e.finals {
				if s < size {
					prefinal = append(prefinal, s)
				}
			}
			file, zz, bad := c01tWireFile(g, e, e.wire)
			if bad != "" {
				tc.violate("transfer:stream", "the stream on the wire is neither the file nor a zstd stream of it", e.srcPath+": "+bad)
				return
			}
			_ = file
			z = zz
			if z != nil {
				tc.counts = append(tc.counts, "file-compressed:true")
			} else {
				tc.counts = append(tc.counts, "file-compressed:false")
			}
		} else {
			for _, f := range e.frames {
				if g.Binary {
					// the chunk sizes are those of the decoded chunks
					d := f
					if g.table != nil {
						var err error
						d, _, err = trzsz.VerifUnescapeData(f, g.table, nil)
						if err != nil {
							tc.violate("transfer:stream", "a recorded chunk does not decode", e.srcPath+": "+err.Error())
							return
						}
					}
					sizes = append(sizes, int64(len(d)))
				} else {
					sizes = append(sizes, int64(len(f)))
				}
			}
		}
		profit := false
		if e.comp != nil {
			profit = *e.comp
			tc.counts = append(tc.counts, "comp-flag:"+c01tB(profit))
		} else if size >= 131072 {
			tc.counts = append(tc.counts, "comp-flag:none(fixed)")
		}
		switch {
		case size == 0:
			tc.counts = append(tc.counts, "file-size:0")
		case size < 512:
			tc.counts = append(tc.counts, "file-size:1..511")
		case size == 512:
			tc.counts = append(tc.counts, "file-size:512")
		default:
			tc.counts = append(tc.counts, "file-size:513..")
		}
		tc.counts = append(tc.counts, fmt.Sprintf("frames:%d", min(len(e.frames), 3)))
		if len(prefinal) > 0 {
			tc.counts = append(tc.counts, "prefinal-acks:some")
		}
		hstops := "-"
		if e.tsize > 0 && !e.name.archive {
			hstops = fmt.Sprint(len(e.hashes))
		}
		if special {
			// md5 / zstd of the wire file are oracles of their own, not of the entry's content
			tabs = append(tabs, "h:"+hx(e.wire)+":"+hx(sum[:]))
			if z != nil {
				tabs = append(tabs, "z:"+hx(e.wire)+":"+hx(z))
			}
		}
		if e.name.archive {
			// how the receiver's decoder cut the stream into writes is not observable: any cutting (C15_writer)
			var ws []int64
			for k := 0; k < 6; k++ {
				ws = append(ws, int64(1+rng.Intn(97)))
			}
			entArgs = append(entArgs, fmt.Sprintf("%d;1;%s;-;-;-;%s;%s;%s;%s;-;-;%s", id, c01tHexRel(rel),
				c01tInts(sizes, "."), c01tB(profit), c01tInts(e.steps, "."), c01tInts(prefinal, "."), c01tInts(ws, ".")))
			for _, sb := range e.subs {
				entArgs = append(entArgs, fmt.Sprintf("%d;%s;%s;%s;-;-;-;0;-;-;-;%s;-", sb.id, c01tB(sb.isDir), c01tHexRel(sb.rel), hx(sb.content), hx(sb.hdr)))
			}
			continue
		}
		md5f, zf := hx(sum[:]), hx(z)
		if special {
			md5f, zf = "-", "-"
		}
		entArgs = append(entArgs, fmt.Sprintf("%d;0;%s;%s;%s;%s;%s;%s;%s;%s;%s;-;-", id, c01tHexRel(rel), hx(e.content), md5f, zf,
			c01tInts(sizes, "."), c01tB(profit), c01tInts(e.steps, "."), c01tInts(prefinal, "."), hstops))
		if e.tsize > 0 {
			// the prefix digests compared: the hash strings on the wire for the source, md5 of the prior content
			rl := e.reply
			if e.name.json && len(e.name.rel) > 1 {
				rl = e.reply + "/" + strings.Join(e.name.rel[1:], "/")
			}
			old := priorContent[rl]
			for _, h := range e.hashes {
				if h.step >= 0 && h.step <= int64(len(e.content)) && h.step <= int64(len(old)) {
					tabs = append(tabs, "x:"+hx(e.content[:h.step])+":"+hx([]byte(h.str)))
					os := md5.Sum(old[:h.step])
					tabs = append(tabs, "x:"+hx(old[:h.step])+":"+hx([]byte(hex.EncodeToString(os[:]))))
				}
			}
		}
	}

	// ---- the two directions merged in the order of recording: the grammar of the exchange
	tags, early := c01tMerged(g, snd, rcv)
	if early != "" {
		tc.violate("transfer:ack-early", "a frame was acknowledged before it was sent", early+" :: "+tags)
	}
	if q := c01tAccepts(g.pipeline(), tags); q != "QE" {
		tc.violate("transfer:order", "the messages of a fault-free transfer were not exchanged in the order of the protocol grammar",
			fmt.Sprintf("stopped in %s :: %s", q, tags))
	}

	// ---- the case line
	up := "0"
	cs, sc := c01tJoin(rcv), c01tJoin(snd)
	sn, rn := replied, exitNames // download: the sender's names are what it was told; the receiver's are in EXIT
	if tc.cfg.upload {
		up = "1"
		cs, sc = sc, cs
		sn, rn = exitNames, serverNames
	}
	tc.impl = fmt.Sprintf("S=1|R=1|SN=%s|RN=%s|NEW=%s|SHAPE=1|TREE=%s|C2S=%s|S2C=%s", c01tHexNames(sn), c01tHexNames(rn),
		c01tHexNames(created), c01tListing(dest), cs, sc) + "|ORDER=1|SPEC=" + c01tHexNames(replies) + ";" + c01tHexNames(replied) + ";1|WF=1"
	tabArg := "-"
	if len(tabs) > 0 {
		tabArg = strings.Join(tabs, ",")
	}
	tc.args = []string{
		fmt.Sprintf("%d:%s:%s:%s:%d:%s", g.Protocol, c01tB(g.Binary), c01tB(g.Directory), c01tB(g.Overwrite), g.Compress, up),
		tableArg(g.pairs), hx([]byte("d")), c01tFsArg(pre), fmt.Sprint(c01tDflt), strings.Join(entArgs, ","), tabArg, tags,
	}
	tc.emit = true
	for _, n := range replied {
		if preTop[n] {
			tc.counts = append(tc.counts, "replaced-or-entered-existing")
			break
		}
	}
	for _, e := range es {
		if e.reply != "" && e.name.json && e.reply != e.name.rel[0] || !e.name.json && e.reply != e.name.plain {
			tc.counts = append(tc.counts, "renamed-entry")
			break
		}
	}
}

// c01tWireFile undoes base64 / escaping of the recorded frames of an entry (protocol >= 2) and, where the
// result is a zstd stream, the compression.  expect != nil: the file that was to be sent (the result must be
// it, or a zstd stream of it); expect == nil (an archive): a zstd stream that decodes to SIZE bytes is taken
// as compressed, SIZE raw bytes as not.  Returns the file, its zstd form (nil: not compressed), an error text.
func c01tWireFile(g *c01tCfg, e *c01tEntry, expect []byte) ([]byte, []byte, string) {
	wire := bytes.Join(e.frames, nil)
	var mid []byte
	var err error
	if g.Binary {
		if g.table != nil {
			var rem []byte
			mid, rem, err = trzsz.VerifUnescapeData(wire, g.table, nil)
			if err == nil && len(rem) != 0 {
				err = fmt.Errorf("%d bytes remain", len(rem))
			}
		} else {
			mid = wire
		}
	} else {
		mid, err = c01tB64(wire)
	}
	if err != nil {
		return nil, nil, "the recorded frames do not decode: " + err.Error()
	}
	unz := func() ([]byte, error) {
		dec, err := zstd.NewReader(bytes.NewReader(mid))
		if err != nil {
			return nil, err
		}
		defer dec.Close()
		return c01tReadAll(dec)
	}
	if expect != nil {
		if bytes.Equal(mid, expect) {
			return mid, nil, ""
		}
		back, err := unz()
		if err != nil || !bytes.Equal(back, expect) {
			return nil, nil, fmt.Sprintf("%d bytes on the wire, %d bytes expected, err=%v", len(mid), len(expect), err)
		}
		return back, mid, ""
	}
	if back, err := unz(); err == nil && len(mid) > 0 && int64(len(back)) == e.size {
		return back, mid, ""
	}
	if int64(len(mid)) == e.size {
		return mid, nil, ""
	}
	return nil, nil, fmt.Sprintf("%d bytes on the wire, SIZE %d", len(mid), e.size)
}

// c01tParseArchive cuts an archive stream into its entries: header line (base64 of zlib of the JSON
// record), newline, then `size` bytes for a file.
func c01tParseArchive(stream []byte) ([]*c01tSub, string) {
	var out []*c01tSub
	i := 0
	for i < len(stream) {
		nl := bytes.IndexByte(stream[i:], '\n')
		if nl < 0 {
			return out, fmt.Sprintf("no newline after offset %d", i)
		}
		hdr := stream[i : i+nl]
		i += nl + 1
		js, err := decodeLinePayload(string(hdr))
		if err != nil {
			return out, "header does not decode: " + err.Error()
		}
		var rec struct {
			ID      int      `json:"path_id"`
			Rel     []string `json:"path_name"`
			IsDir   bool     `json:"is_dir"`
			Archive bool     `json:"archive"`
			Size    int64    `json:"size"`
		}
		if err := json.Unmarshal(js, &rec); err != nil {
			return out, "header json: " + err.Error()
		}
		sb := &c01tSub{hdr: append([]byte(nil), hdr...), id: rec.ID, rel: rec.Rel, isDir: rec.IsDir, archive: rec.Archive, size: rec.Size}
		if !rec.IsDir {
			if rec.Size < 0 || i+int(rec.Size) > len(stream) {
				return out, fmt.Sprintf("entry %q announces %d bytes, %d left", rec.Rel, rec.Size, len(stream)-i)
			}
			sb.content = stream[i : i+int(rec.Size)]
			i += int(rec.Size)
		}
		out = append(out, sb)
	}
	return out, ""
}

// resumeOracles: the HASH records carry the md5 of the source's prefixes at steps of at most one block,
// ending at min(source size, prior size); the answers are those of a receiver that compares them with the
// prior content's prefixes, up to and including the first mismatch; the agreed offset is the last step
// that matched, never beyond the common prefix; protocol 3 announces the source size first.
func (tc *c01tCase) resumeOracles(g *c01tCfg, e *c01tEntry, old []byte) {
	src := e.content
	size := int64(min(len(src), len(old)))
	if (g.Protocol < 4) != (e.preSize != nil) || (e.preSize != nil && *e.preSize != int64(len(src))) {
		tc.violate("transfer:resume-presize", "the source size is announced before the HASH records exactly below protocol 4",
			fmt.Sprintf("%s protocol %d: announced %v, source %d bytes", e.srcPath, g.Protocol, e.preSize, len(src)))
	}
	if !e.over {
		tc.violate("transfer:resume-over", "the HASH records do not end with Over", e.srcPath)
	}
	prev := int64(0)
	for _, h := range e.hashes {
		if h.step <= prev || h.step-prev > 10*1024*1024 || h.step > size {
			tc.violate("transfer:resume-steps", "the steps of the HASH records do not advance by at most one block up to min(source, target)",
				fmt.Sprintf("%s: step %d after %d, min size %d", e.srcPath, h.step, prev, size))
			return
		}
		sum := md5.Sum(src[:h.step])
		if h.str != hex.EncodeToString(sum[:]) {
			tc.violate("transfer:resume-hash", "a HASH record does not carry the md5 of the source prefix", fmt.Sprintf("%s: step %d", e.srcPath, h.step))
			return
		}
		prev = h.step
	}
	// the answers
	var wantAcks []string
	offset := int64(0)
	for _, h := range e.hashes {
		so, ss := md5.Sum(old[:h.step]), md5.Sum(src[:h.step])
		m := so == ss
		wantAcks = append(wantAcks, fmt.Sprintf("%d:%v", h.step, m))
		if !m {
			break
		}
		offset = h.step
	}
	var gotAcks []string
	for _, a := range e.hacks {
		gotAcks = append(gotAcks, fmt.Sprintf("%d:%v", a.step, a.b))
	}
	if strings.Join(gotAcks, ",") != strings.Join(wantAcks, ",") {
		tc.violate("transfer:resume-acks", "the answers to the HASH records are not those of comparing them with the prior content",
			fmt.Sprintf("%s: answers %v expected %v", e.srcPath, gotAcks, wantAcks))
	}
	if size > 0 && offset < size && prev < size && len(wantAcks) == len(e.hashes) && offset == prev {
		tc.violate("transfer:resume-early-stop", "the hash sender stopped although every answer matched and the compared range was not exhausted",
			fmt.Sprintf("%s: last step %d of %d", e.srcPath, prev, size))
	}
	e.offset = offset
	lcp := int64(0)
	for lcp < size && src[lcp] == old[lcp] {
		lcp++
	}
	if offset > lcp {
		tc.violate("transfer:resume-prefix", "more was skipped than the two files have in common", fmt.Sprintf("%s: offset %d, common prefix %d", e.srcPath, offset, lcp))
	}
	if e.hasSize && e.size != int64(len(src))-offset {
		tc.violate("transfer:resume-offset", "what is sent is not the rest of the source behind the agreed offset",
			fmt.Sprintf("%s: SIZE %d, source %d bytes, offset %d", e.srcPath, e.size, len(src), offset))
	}
	tc.counts = append(tc.counts, fmt.Sprintf("resume-hashes:%d", min(len(e.hashes), 2)))
	switch {
	case len(src) == 0:
		tc.counts = append(tc.counts, "resume:empty-source")
	case offset == 0:
		tc.counts = append(tc.counts, "resume:offset-0")
	case offset == int64(len(src)):
		tc.counts = append(tc.counts, "resume:nothing-left")
	default:
		tc.counts = append(tc.counts, "resume:rest-sent")
	}
}

// c01tMerged: the tags of all messages in the order they were recorded, one letter each
// (N num, M name, Z size, C comp, D data, F finish flag, A ack, 5 md5, X exit, S any other SUCC,
// h HASH record, o Over, k answer to a HASH record, O other).  Protocol >= 2 acknowledges frames while later frames are still being sent (a
// window); the model's composition sends all frames first.  The acks recorded before the
// finish flag are moved behind it (their order is kept); an ack recorded before its frame is
// reported.
func c01tMerged(g *c01tCfg, snd, rcv []c01tMsg) (string, string) {
	type tm struct {
		ev, dir, idx int
		tag          byte
	}
	var all []tm
	tagOf := func(m c01tMsg) byte {
		switch m.kind {
		case "NUM":
			return 'N'
		case "NAME":
			return 'M'
		case "SIZE":
			return 'Z'
		case "COMP":
			return 'C'
		case "DATA":
			if m.n == 0 && len(m.bin) == 0 {
				return 'F'
			}
			return 'D'
		case "MD5":
			return '5'
		case "EXIT":
			return 'X'
		case "ACK":
			return 'A'
		case "SUCCI", "SUCCN", "SUCCT", "SUCCD":
			return 'S'
		case "HASH":
			if m.b {
				return 'o'
			}
			return 'h'
		case "SUCCH":
			return 'k'
		}
		return 'O'
	}
	for i, m := range snd {
		all = append(all, tm{m.ev, 0, i, tagOf(m)})
	}
	for i, m := range rcv {
		all = append(all, tm{m.ev, 1, i, tagOf(m)})
	}
	sort.SliceStable(all, func(i, j int) bool {
		if all[i].ev != all[j].ev {
			return all[i].ev < all[j].ev
		}
		return all[i].dir == all[j].dir && all[i].idx < all[j].idx
	})
	var out []byte
	early := ""
	held, sent, acked, inData := 0, 0, 0, false
	for _, t := range all {
		switch t.tag {
		case 'Z':
			inData, sent, acked = true, 0, 0
			out = append(out, 'Z')
		case 'D', 'F':
			sent++
			out = append(out, t.tag)
			if t.tag == 'F' && g.pipeline() {
				inData = false
				for ; held > 0; held-- {
					out = append(out, 'A')
				}
			}
		case 'A':
			acked++
			if acked > sent && early == "" {
				early = fmt.Sprintf("ack %d recorded when %d frames had been sent", acked, sent)
			}
			if inData {
				held++
			} else {
				out = append(out, 'A')
			}
		default:
			out = append(out, t.tag)
		}
	}
	return string(out), early
}

// c01tAccepts: the automaton tr_delta of Model/Transfer.v (the model evaluates the same tags
// with the extracted one); returns the state it stopped in, QE = accepted
func c01tAccepts(pipe bool, tags string) string {
	q := "Q0"
	for i := 0; i < len(tags); i++ {
		t := tags[i]
		next := ""
		switch {
		case q == "Q0" && t == 'N':
			next = "Q1"
		case q == "Q1" && t == 'S':
			next = "Q2"
		case (q == "Q2" || q == "Q4") && t == 'M':
			next = "Q3"
		case (q == "Q2" || q == "Q4") && t == 'X':
			next = "QE"
		case q == "Q3" && t == 'S':
			next = "Q4"
		case q == "Q4" && t == 'Z':
			next = "Q5"
		case (q == "Q4" || q == "Q5") && t == 'h' && pipe:
			next = "QH"
		case (q == "Q4" || q == "Q5") && t == 'o' && pipe:
			next = "QO"
		case q == "QH" && (t == 'h' || t == 'k'):
			next = "QH"
		case q == "QH" && t == 'o':
			next = "QO"
		case q == "QO" && t == 'k':
			next = "QO"
		case q == "QO" && t == 'Z':
			next = "Q5"
		case q == "Q5" && t == 'S':
			next = "Q6"
		case q == "Q6" && t == 'C' && pipe:
			next = "Q7"
		case q == "Q6" && t == 'D':
			next = map[bool]string{true: "Q7", false: "Q11"}[pipe]
		case q == "Q6" && t == 'F' && pipe:
			next = "Q8"
		case q == "Q6" && t == '5' && !pipe:
			next = "Q10"
		case q == "Q7" && t == 'D':
			next = "Q7"
		case q == "Q7" && t == 'F':
			next = "Q8"
		case q == "Q8" && t == 'A':
			next = "Q8"
		case q == "Q8" && t == 'S':
			next = "Q9"
		case q == "Q9" && t == 'S':
			next = "Q9"
		case q == "Q9" && t == '5':
			next = "Q10"
		case q == "Q10" && t == 'S':
			next = "Q2"
		case q == "Q11" && t == 'S':
			next = "Q6"
		}
		if next == "" {
			return fmt.Sprintf("%s at %d (%c)", q, i, t)
		}
		q = next
	}
	return q
}

func c01tReadAll(r interface{ Read([]byte) (int, error) }) ([]byte, error) {
	var out []byte
	buf := make([]byte, 32*1024)
	for {
		n, err := r.Read(buf)
		out = append(out, buf[:n]...)
		if err != nil {
			if err.Error() == "EOF" {
				return out, nil
			}
			return out, err
		}
	}
}

func c01tB64(s []byte) ([]byte, error) {
	out := make([]byte, len(s))
	n, err := base64.StdEncoding.Decode(out, s)
	return out[:n], err
}

// ---------------------------------------------------------------------------------------

func genTransferTie(c *ctx) {
	work, _ := os.MkdirTemp("", "e2e_tie_")
	defer os.RemoveAll(work)
	n := c.pick(64, 640)
	cases := make([]*c01tCase, n)
	protos := []int{0, 2, 3, 4}
	nArchive, nResume, nBig := 0, 0, 0
	for i := range cases {
		tc := &c01tCase{seed: c.rng.Int63()}
		// stratified: direction x base64/binary x protocol in every block of 16, directory mode x
		// overwrite over every block of 64; compress, escape-all, prior destination at random
		combo := i % 16
		blk := (i / 16) % 4
		tc.cfg = e2eCfg{
			upload:    combo%2 == 0,
			binary:    (combo/2)%2 == 0,
			proto:     protos[(combo/4)%4],
			directory: blk%2 == 1,
			overwrite: blk/2 == 1,
			escape:    c.rng.Intn(3) == 0,
			compress:  []string{"", "yes", "no", "auto"}[(i/64+i/4+i)%4],
			timeout:   10,
			quiet:     true,
			deadline:  40 * time.Second,
		}
		tc.preKind = []int{0, 1, 2, 2, 2, 3}[c.rng.Intn(6)]
		if !tc.cfg.directory && (combo == 8 || combo == 11 || combo == 13 || combo == 14) && nBig < c.pick(4, 24) {
			tc.kind = 3
			tc.cfg.compress = []string{"", "auto"}[nBig%2]
			// The model's frame cutter (Wire.wire_frames_go) reverses every frame with Coq's quadratic
			// List.rev: a 10240-byte frame costs about a second to evaluate, a 80 KiB one a minute.
			// Quick tier: highly compressible content only (COMP:true, tiny frames).  Thorough: also
			// text-like content and two incompressible files of 256 KiB (isCompressionProfitable says
			// no only when two sampled blocks of 128 KiB are incompressible: COMP:false, the content
			// goes over the wire as it is, frames kept at the initial 10240 bytes by -B 1k).
			tc.bigKind = 1
			if c.thorough() {
				switch nBig % 12 {
				case 1, 4, 7, 10:
					tc.bigKind = 2
				case 3:
					tc.bigKind = 0
					tc.cfg.bufsize = "1k"
					tc.cfg.binary = true // fewer frames than base64; even so the extracted (not tail-recursive) list functions need more than 8 MiB of stack: bin/check lifts the limit for the driver
				}
			}
			nBig++
		}
		if tc.cfg.directory {
			tc.kind = 1 + c.rng.Intn(2)
			if tc.cfg.proto == 4 && !tc.cfg.overwrite {
				// a directory with children is sent as an archive stream
				if nArchive < c.pick(4, 24) {
					nArchive++
					tc.kind = 2
					tc.want = "archive"
				} else {
					tc.kind = 1
				}
			}
		}
		if tc.cfg.overwrite && tc.cfg.proto >= 3 && (tc.kind == 0 || tc.kind == 2) && nResume < c.pick(8, 36) && (tc.preKind >= 2 || c.rng.Intn(2) == 0) {
			// a non-empty file in the way: the resume exchange; the six relations of the prior content to the source in turn
			tc.resMode = nResume % 6
			nResume++
			tc.want = "resume"
			if tc.preKind < 2 {
				tc.preKind = 2
			}
		}
		tc.desc = fmt.Sprintf("%s kind=%d pre=%d want=%q/%d seed=%d", describeCfg(tc.cfg), tc.kind, tc.preKind, tc.want, tc.resMode, tc.seed)
		cases[i] = tc
	}
	parallelDo(n, 24, func(i int) { cases[i].run(work, i) })
	for _, tc := range cases {
		c.count(fmt.Sprintf("proto:%d", tc.cfg.proto))
		c.count(fmt.Sprintf("upload:%v", tc.cfg.upload))
		c.count(fmt.Sprintf("binary:%v", tc.cfg.binary))
		c.count(fmt.Sprintf("directory:%v", tc.cfg.directory))
		c.count(fmt.Sprintf("overwrite:%v", tc.cfg.overwrite))
		c.count(fmt.Sprintf("compress:%q", tc.cfg.compress))
		c.count(fmt.Sprintf("tree-kind:%d", tc.kind))
		c.count(fmt.Sprintf("prior-destination:%d", tc.preKind))
		for _, k := range tc.counts {
			c.count(k)
		}
		for _, v := range tc.viols {
			c.violate(v.key, v.what, v.detail)
		}
		if tc.emit {
			c.emit(true, "transfer_transcript", tc.impl, tc.args...)
		} else {
			c.note(true, "transfer "+tc.desc+" => "+tc.summary)
		}
	}
}
