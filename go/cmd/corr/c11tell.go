package main

// group "errtell" (C11, "a side that can still talk tells its peer why"): the real
// clientError / serverError (transfer.go) are called with an error of every class the code
// distinguishes; what they write to the peer - which line type, with or without the deleted
// names, before or after cleanInput / serverExit -, whether the terminal was reset and
// whether the created file was deleted is compared with what the extracted interpreter
// computes from the REGENERATED skeleton (Gen/Skel_errtell.v).
//
// Direct oracles: a side whose error is not the peer's own EXIT / fail / FAIL line must write
// exactly one fail / FAIL line; a side whose error is such a line must write nothing.

import (
	"fmt"
	"os"
	"path/filepath"
	"strings"
	"sync"

	"github.com/trzsz/trzsz-go/trzsz"
)

func init() { groups["errtell"] = genErrTell }

type c11TellCase struct {
	side                   string
	isTrz                  bool
	errType                string
	trace, sad, flag, made bool
	tunnel                 int // 0 none, 1 accepted but the ACT not read (the window), 2 connected
	res                    string
	lines                  []string
}

func c11b(b bool) string {
	if b {
		return "1"
	}
	return "0"
}

func genErrTell(c *ctx) {
	work, _ := os.MkdirTemp("", "errtell_")
	defer os.RemoveAll(work)
	var cases []*c11TellCase
	types := []string{"", "fail", "FAIL", "EXIT", "panic", "colon", "SUCC"}
	for _, side := range []string{"client", "server"} {
		for _, tunnel := range []int{0, 1, 2} {
			for _, flag := range []bool{false, true} {
				for _, made := range []bool{false, true} {
					cases = append(cases, &c11TellCase{side: side, flag: flag, made: made, tunnel: tunnel})
					for _, ty := range types {
						for _, tr := range []bool{false, true} {
							for _, sad := range []bool{false, true} {
								cases = append(cases, &c11TellCase{side: side, isTrz: true, errType: ty, trace: tr, sad: sad, flag: flag, made: made, tunnel: tunnel})
							}
						}
					}
				}
			}
		}
	}
	var wg sync.WaitGroup
	sem := make(chan struct{}, 64)
	for i, k := range cases {
		wg.Add(1)
		sem <- struct{}{}
		go func(i int, k *c11TellCase) {
			defer wg.Done()
			defer func() { <-sem }()
			created := ""
			if k.made {
				created = filepath.Join(work, fmt.Sprintf("c%d", i), "made.bin")
				os.MkdirAll(filepath.Dir(created), 0755)
				os.WriteFile(created, []byte("x"), 0644)
			}
			lines, exited := trzsz.VerifErrTellTunnel(k.side, k.isTrz, k.errType, k.trace, k.sad, k.flag, created, k.tunnel)
			deleted := false
			if created != "" {
				if _, err := os.Stat(created); os.IsNotExist(err) {
					deleted = true
				}
			}
			k.lines = lines
			l := "-"
			if len(lines) > 0 {
				l = strings.Join(lines, ",")
			}
			k.res = fmt.Sprintf("ok=1;lines=%s;exit=%s;deleted=%s", l, c11b(exited), c11b(deleted))
		}(i, k)
	}
	wg.Wait()
	for _, k := range cases {
		ty := k.errType
		if ty == "" {
			ty = "-"
		}
		c.emit(true, "errtell", k.res, k.side, c11b(k.isTrz), ty, c11b(k.trace), c11b(k.sad), c11b(k.flag), c11b(k.made), fmt.Sprint(k.tunnel))
		victim := k.isTrz && (k.errType == "fail" || k.errType == "FAIL" || k.errType == "EXIT")
		window := k.side == "server" && k.tunnel == 1
		c.count(fmt.Sprintf("%s:victim=%v:window=%v:lines=%d", k.side, victim, window, len(k.lines)))
		class := fmt.Sprintf("%s:trz=%v:type=%q:trace=%v:sad=%v:flag=%v:created=%v:tunnel=%d", k.side, k.isTrz, k.errType, k.trace, k.sad, k.flag, k.made, k.tunnel)
		var inband, onTunnel []string
		for _, l := range k.lines {
			if strings.HasPrefix(l, "tunnel:") {
				onTunnel = append(onTunnel, strings.TrimPrefix(l, "tunnel:"))
			} else {
				inband = append(inband, l)
			}
		}
		wantTunnel := 0
		if window {
			wantTunnel = 1 // a client that greeted on the tunnel may listen there only
		}
		isFail := func(l string) bool { return strings.HasPrefix(l, "fail") || strings.HasPrefix(l, "FAIL") }
		switch {
		case victim && len(k.lines) > 0:
			c.violate("errtell:answers-a-fail-line:"+k.side, "a side that received the peer's exit / fail line sent a fail line back", class+" wrote "+strings.Join(k.lines, ","))
		case !victim && len(inband) != 1:
			c.violate("errtell:silent:"+k.side, "a side that can still talk did not tell its peer why the transfer failed (exactly one fail / FAIL line expected on the writer in force)",
				class+" wrote ["+strings.Join(k.lines, ",")+"]")
		case !victim && len(onTunnel) != wantTunnel:
			c.violate("errtell:tunnel-window:"+k.side, "between the tunnel greeting and the ACT the server must tell the client on the accepted tunnel connection as well, exactly once, and never outside that window",
				class+" wrote ["+strings.Join(k.lines, ",")+"]")
		case !victim && !(isFail(inband[0]) && (wantTunnel == 0 || onTunnel[0] == inband[0])):
			c.violate("errtell:order:"+k.side, "the fail line was written before cleanInput or after the terminal was reset, is not a fail line, or differs between the two writers", class+" wrote "+strings.Join(k.lines, ","))
		}
	}
}
