package main

// group "errtell" (C11, "a side that can still talk tells its peer why"): the real
// clientError / serverError (transfer.go) are called with an error of every class the code
// distinguishes; what they write to the peer - which line type, with or without the deleted
// names, before or after cleanInput / serverExit -, whether the terminal was reset and
// whether the created file was deleted is compared with what the extracted interpreter
// computes from the REGENERATED skeleton (Gen/Skel_errtell.v).
//
// Direct oracles: a side whose error is not the peer's own EXIT / fail / FAIL line must write
// exactly one fail / FAIL line; a side whose error is such a line must write nothing.

import (
	"fmt"
	"os"
	"path/filepath"
	"strings"
	"sync"

	"github.com/trzsz/trzsz-go/trzsz"
)

func init() { groups["errtell"] = genErrTell }

type c11TellCase struct {
	side                   string
	isTrz                  bool
	errType                string
	trace, sad, flag, made bool
	res                    string
	lines                  []string
}

func c11b(b bool) string {
	if b {
		return "1"
	}
	return "0"
}

func genErrTell(c *ctx) {
	work, _ := os.MkdirTemp("", "errtell_")
	defer os.RemoveAll(work)
	var cases []*c11TellCase
	types := []string{"", "fail", "FAIL", "EXIT", "panic", "colon", "SUCC"}
	for _, side := range []string{"client", "server"} {
		for _, flag := range []bool{false, true} {
			for _, made := range []bool{false, true} {
				cases = append(cases, &c11TellCase{side: side, flag: flag, made: made})
				for _, ty := range types {
					for _, tr := range []bool{false, true} {
						for _, sad := range []bool{false, true} {
							cases = append(cases, &c11TellCase{side: side, isTrz: true, errType: ty, trace: tr, sad: sad, flag: flag, made: made})
						}
					}
				}
			}
		}
	}
	var wg sync.WaitGroup
	sem := make(chan struct{}, 64)
	for i, k := range cases {
		wg.Add(1)
		sem <- struct{}{}
		go func(i int, k *c11TellCase) {
			defer wg.Done()
			defer func() { <-sem }()
			created := ""
			if k.made {
				created = filepath.Join(work, fmt.Sprintf("c%d", i), "made.bin")
				os.MkdirAll(filepath.Dir(created), 0755)
				os.WriteFile(created, []byte("x"), 0644)
			}
			lines, exited := trzsz.VerifErrTell(k.side, k.isTrz, k.errType, k.trace, k.sad, k.flag, created)
			deleted := false
			if created != "" {
				if _, err := os.Stat(created); os.IsNotExist(err) {
					deleted = true
				}
			}
			k.lines = lines
			l := "-"
			if len(lines) > 0 {
				l = strings.Join(lines, ",")
			}
			k.res = fmt.Sprintf("ok=1;lines=%s;exit=%s;deleted=%s", l, c11b(exited), c11b(deleted))
		}(i, k)
	}
	wg.Wait()
	for _, k := range cases {
		ty := k.errType
		if ty == "" {
			ty = "-"
		}
		c.emit(true, "errtell", k.res, k.side, c11b(k.isTrz), ty, c11b(k.trace), c11b(k.sad), c11b(k.flag), c11b(k.made))
		victim := k.isTrz && (k.errType == "fail" || k.errType == "FAIL" || k.errType == "EXIT")
		c.count(fmt.Sprintf("%s:victim=%v:lines=%d", k.side, victim, len(k.lines)))
		class := fmt.Sprintf("%s:trz=%v:type=%q:trace=%v:sad=%v:flag=%v:created=%v", k.side, k.isTrz, k.errType, k.trace, k.sad, k.flag, k.made)
		switch {
		case victim && len(k.lines) > 0:
			c.violate("errtell:answers-a-fail-line:"+k.side, "a side that received the peer's exit / fail line sent a fail line back", class+" wrote "+strings.Join(k.lines, ","))
		case !victim && len(k.lines) != 1:
			c.violate("errtell:silent:"+k.side, "a side that can still talk did not tell its peer why the transfer failed (exactly one fail / FAIL line expected)",
				class+" wrote ["+strings.Join(k.lines, ",")+"]")
		case !victim && !(strings.HasPrefix(k.lines[0], "fail") || strings.HasPrefix(k.lines[0], "FAIL")):
			c.violate("errtell:order:"+k.side, "the fail line was written before cleanInput or after the terminal was reset, or is not a fail line", class+" wrote "+k.lines[0])
		}
	}
}
