package main

import (
	"bytes"
	"fmt"
	"math/big"
	"sort"
	"strings"

	"github.com/trzsz/trzsz-go/trzsz"
)

func init() { groups["detector"] = genDetector06 }

const c06Marker = "::TRZSZ:TRANSFER:"

var c06Earlier bool // set by c06Prefix: the prefix holds earlier markers but no control-mode framing

type c06Call struct {
	tunnel bool
	buf    []byte
}

func c06Flags(f [3]bool) string {
	s := ""
	for _, b := range f {
		if b {
			s += "1"
		} else {
			s += "0"
		}
	}
	return s
}

func c06TrigStr(t *trzsz.VerifTrigger) string {
	if t == nil {
		return "none"
	}
	w := "0"
	if t.WinServer {
		w = "1"
	}
	return fmt.Sprintf("%d:%d.%d.%d:%s:%s:%d:%s", t.Mode, t.Version[0], t.Version[1], t.Version[2],
		hx([]byte(t.UniqueID)), w, t.TunnelPort, hx([]byte(t.TmuxPrefix)))
}

func c06MapStr(m map[string]int) string {
	if len(m) == 0 {
		return "-"
	}
	var l []string
	for k, v := range m {
		l = append(l, fmt.Sprintf("%s=%d", hx([]byte(k)), v))
	}
	sort.Strings(l)
	return strings.Join(l, ",")
}

// the spec of dedup eligibility, written independently of the implementation
func c06Eligible(winenv bool, id string) bool {
	return len(id) > 6 && (winenv || !(len(id) == 13 && strings.HasSuffix(id, "00")))
}

type c06Result struct {
	outs  [][]byte
	trigs []*trzsz.VerifTrigger
}

// c06Hist runs one history on the real detector, emits the case, and applies the
// context-free oracles (silent => unchanged; client output inert; relay output forwardable).
func c06Hist(c *ctx, flags [3]bool, seed map[string]int, calls []c06Call) c06Result {
	trzsz.SetAffectedByWindows(flags[2])
	defer trzsz.SetAffectedByWindows(false)
	d := trzsz.VerifNewDetector(flags[0], flags[1])
	if seed != nil {
		d.SeedIDMap(seed)
	}
	var parts []string
	var res c06Result
	tun := ""
	bufs := make([][]byte, len(calls))
	nontrivial := false
	for i, cl := range calls {
		bufs[i] = cl.buf
		if cl.tunnel {
			tun += "1"
		} else {
			tun += "0"
		}
		out, t := d.Detect(cl.buf, cl.tunnel)
		res.outs = append(res.outs, out)
		res.trigs = append(res.trigs, t)
		parts = append(parts, fmt.Sprintf("%s|%s|%d", hx(out), c06TrigStr(t), len(d.IDMap())))
		hasMarker := len(cl.buf) >= 24 && bytes.Contains(cl.buf, []byte(c06Marker))
		if hasMarker {
			nontrivial = true
			c.count("call:marker")
		}
		key := fmt.Sprintf("f=%s,t=%v,buf=%s", c06Flags(flags), cl.tunnel, hx(cl.buf))
		if t == nil {
			c.count("call:none")
			want := cl.buf
			if flags[0] && flags[1] && hasMarker {
				want = d.RewriteTrigger(cl.buf)
			}
			if !bytes.Equal(out, want) {
				c.violate("silent", "no trigger but the output was changed", fmt.Sprintf("%s out=%s", key, hx(out)))
			}
		} else {
			c.count("call:fired")
			if len(t.TmuxPrefix) > 0 {
				c.count("call:fired-ctrl-mode")
			}
			if !flags[0] {
				// a second client-mode wrapper must not react to what the first one shows
				for _, tm := range []bool{false, true} {
					d2 := trzsz.VerifNewDetector(false, tm)
					o2, t2 := d2.Detect(out, cl.tunnel)
					if t2 != nil || !bytes.Equal(o2, out) {
						c.violate("inert", "client-mode output triggers a second client-mode detector", fmt.Sprintf("%s out=%s second=%s", key, hx(out), c06TrigStr(t2)))
					}
				}
			} else {
				if !bytes.Contains(out, []byte("#R")) {
					c.violate("relay-mark", "relay output lacks #R", fmt.Sprintf("%s out=%s", key, hx(out)))
				}
			}
		}
	}
	seedStr := "-"
	if seed != nil {
		seedStr = c06MapStr(seed)
	}
	c.emit(nontrivial, "detect_hist", strings.Join(parts, ";")+"#"+c06MapStr(d.IDMap()), c06Flags(flags), seedStr, tun, hxs(bufs))
	return res
}

// ---- grammar

type c06Trig struct {
	mode    byte
	ver     [3]string // digit strings (may exceed uint32, may have leading zeros)
	id      *string
	port    *string
	head    string
	tailStr string
}

func (t c06Trig) text() string {
	s := t.head + c06Marker + string(t.mode) + ":" + t.ver[0] + "." + t.ver[1] + "." + t.ver[2]
	if t.id != nil {
		s += ":" + *t.id
		if t.port != nil {
			s += ":" + *t.port
		}
	}
	return s + t.tailStr
}

// expected trigger for a clean context, computed from the parameters by the property text
func (t c06Trig) expect(relay, tmux bool) *trzsz.VerifTrigger {
	var v [3]uint32
	for i := 0; i < 3; i++ {
		n, ok := new(big.Int).SetString(t.ver[i], 10)
		if !ok || n.Cmp(big.NewInt(4294967295)) > 0 {
			return nil
		}
		v[i] = uint32(n.Uint64())
	}
	e := &trzsz.VerifTrigger{Mode: t.mode, Version: v}
	if t.id != nil {
		e.UniqueID = *t.id
		if relay && tmux && len(e.UniqueID) >= 13 && strings.HasSuffix(e.UniqueID, "00") {
			b := []byte(e.UniqueID)
			b[len(b)-2] = '2'
			e.UniqueID = string(b)
		}
		if t.port != nil {
			n, _ := new(big.Int).SetString(*t.port, 10)
			if n.IsInt64() {
				e.TunnelPort = int(n.Int64())
			}
		}
	}
	e.WinServer = e.UniqueID == "1" || (len(e.UniqueID) == 13 && strings.HasSuffix(e.UniqueID, "10"))
	return e
}

func c06Sp(s string) *string { return &s }

func (c *ctx) c06Digits(n int) string {
	b := make([]byte, n)
	for i := range b {
		b[i] = byte('0' + c.rng.Intn(10))
	}
	return string(b)
}

var c06VerFields = []string{"0", "1", "9", "10", "007", "123", "65536", "4294967295", "4294967296", "04294967295", "99999999999999999999", "18446744073709551616"}
var c06Ports = []string{"0", "1", "1337", "65535", "00080", "9223372036854775807", "9223372036854775808", "99999999999999999999999"}
var c06Tails = []string{"", "\r\n", "\n", "ABC\n", "#R", "#R\r\n", " ", ".", ":", ":x", "x1", "\r\n$ ", "\x1b[0m"}

func (c *ctx) c06Ver() [3]string {
	var v [3]string
	for i := range v {
		if c.rng.Intn(6) == 0 {
			v[i] = c06VerFields[c.rng.Intn(len(c06VerFields))]
		} else {
			v[i] = c06VerFields[c.rng.Intn(7)]
		}
	}
	return v
}

func (c *ctx) c06ID() *string {
	switch c.rng.Intn(9) {
	case 0:
		return nil
	case 1:
		return c06Sp([]string{"0", "1", "2", "10", "123"}[c.rng.Intn(5)])
	case 2:
		return c06Sp(c.c06Digits(6 + c.rng.Intn(2)))
	case 3:
		return c06Sp(c.c06Digits(11) + []string{"0", "00", "10", "20"}[c.rng.Intn(4)])
	case 4, 5:
		return c06Sp(c.c06Digits(11) + fmt.Sprintf("%02d", c.rng.Intn(100)))
	case 6:
		return c06Sp(c.c06Digits(12+c.rng.Intn(4)) + []string{"00", "10", "20"}[c.rng.Intn(3)])
	default:
		return c06Sp(c.c06Digits(11) + []string{"00", "10", "20"}[c.rng.Intn(3)])
	}
}

func (c *ctx) c06RandTrig() c06Trig {
	t := c06Trig{mode: "SRD"[c.rng.Intn(3)], ver: c.c06Ver(), id: c.c06ID()}
	if t.id != nil && c.rng.Intn(2) == 0 {
		t.port = c06Sp(c06Ports[c.rng.Intn(len(c06Ports))])
	}
	if c.rng.Intn(3) > 0 {
		t.head = "\x1b7\x07"
	}
	t.tailStr = c06Tails[c.rng.Intn(len(c06Tails))]
	return t
}

// a tail that cannot extend the trigger's fields
func c06CleanTail(s string) bool {
	return s == "" || !(s[0] == ':' || (s[0] >= '0' && s[0] <= '9'))
}

var c06Frames = []string{"%output %1 ", "%output %23 ", "%extended-output %0 0 : ", "%extended-output %10 33 : ",
	"%output %x ", "%output 1 ", "%output % ", "output %1 ", "%extended-output %a 0 : ", "%extended-output %0 0 ",
	"%output %1", "%extended-output %0 0 :", "%output %1 \n", "%output %1 abc", "%output %12 %output %3 ", "%%output %7 "}

func (c *ctx) c06Noise(n int) string {
	b := make([]byte, n)
	for i := range b {
		switch c.rng.Intn(8) {
		case 0:
			b[i] = byte(c.rng.Intn(256))
		case 1:
			b[i] = ":%\n .#"[c.rng.Intn(6)]
		case 2:
			b[i] = byte('0' + c.rng.Intn(10))
		default:
			b[i] = byte(0x20 + c.rng.Intn(0x5f))
		}
	}
	return string(b)
}

var c06Words = []string{"#CFG:", "Saved", "Cancelled", "Stopped", "Interrupted"}

func (c *ctx) c06Prefix() (string, bool) {
	c06Earlier = false
	// returns a prefix and whether it is "clean" (no marker, no '%', so no control-mode framing)
	switch c.rng.Intn(14) {
	case 0, 10:
		return "", true
	case 11, 12, 13:
		s := strings.ReplaceAll(c.c06Noise(c.rng.Intn(40)), "%", "$")
		return s, !strings.Contains(s, c06Marker)
	case 1, 2:
		s := c.c06Noise(c.rng.Intn(30))
		return s, !strings.Contains(s, "%") && !strings.Contains(s, c06Marker)
	case 3:
		c06Earlier = true
		return c.c06RandTrig().text() + strings.ReplaceAll(c.c06Noise(c.rng.Intn(5)), "%", "$"), false
	case 4:
		c06Earlier = true
		return c06Marker + strings.ReplaceAll(c.c06Noise(c.rng.Intn(8)), "%", "$"), false
	case 5, 6:
		f := c06Frames[c.rng.Intn(len(c06Frames))]
		return c.c06Noise(c.rng.Intn(4)) + f + strings.ReplaceAll(c.c06Noise(c.rng.Intn(6)), "%", "x"), false
	case 7:
		f := c06Frames[c.rng.Intn(4)]
		return f + c.c06Noise(c.rng.Intn(4)) + "\n" + c.c06Noise(c.rng.Intn(4)), false
	case 8:
		return "é\xff\xc3" + c06Frames[c.rng.Intn(4)] + "\xe4\xb8\xad\xc3", false
	default:
		return c06Words[c.rng.Intn(5)] + c.c06Noise(c.rng.Intn(50)), false
	}
}

func c06AllFlags() [][3]bool {
	var out [][3]bool
	for i := 0; i < 8; i++ {
		out = append(out, [3]bool{i&1 != 0, i&2 != 0, i&4 != 0})
	}
	return out
}

func c06SameTrig(a, b *trzsz.VerifTrigger) bool {
	if a == nil || b == nil {
		return a == b
	}
	return *a == *b
}

func genDetector06(c *ctx) {
	allFlags := c06AllFlags()
	single := func(flags [3]bool, tunnel bool, buf string) ([]byte, *trzsz.VerifTrigger) {
		r := c06Hist(c, flags, nil, []c06Call{{tunnel, []byte(buf)}})
		return r.outs[0], r.trigs[0]
	}
	everywhere := func(buf string) {
		for _, f := range allFlags {
			for _, tn := range []bool{false, true} {
				single(f, tn, buf)
			}
		}
	}

	// ---- 1. corpus: the strings of TestTrzszDetector / TestRelayDetector and relatives
	corpus := []string{"", "ABC", strings.Repeat("A::", 10), "::TRZSZ:TRANSFER:R:", "::TRZSZ:TRANSFER:R:1.0.0:0",
		"ABC::TRZSZ:TRANSFER:D:1.0.0:123", "\x1b7\x07::TRZSZ:TRANSFER:S:1.0.0:1", "\x1b7\x07::TRZSZ:TRANSFER:S:1.0.0:1:1234",
		"XYX\x1b7\x07::TRZSZ:TRANSFER:S:1.0.0:1:1337:7890EFG\r\n", "%output %1 \x1b7\x07::TRZSZ:TRANSFER:R:1.0.0:0ABC",
		"%extended-output %0 0 : \x1b7\x07::TRZSZ:TRANSFER:R:1.0.0:0:1337ABC", "%output %x \x1b7\x07::TRZSZ:TRANSFER:R:1.0.0:0ABC",
		"\x1b7\x07::TRZSZ:TRANSFER:R:1.0.0:1234567890100", "\x1b7\x07::TRZSZ:TRANSFER:R:1.0.0:1234567890100#R\n",
		"\x1b7\x07::TRZSZ:TRANSFER:R:1.0.0:123456789\n0100", "\x1b7\x07::TRZSZ:TRANSFER:R:1.0.0:9876543210200:12345\r\n",
		"::TRZSZ:TRANSFER:R:1.0.0:1234567890100 and again 1234567890100 and 91234567890100 and 12345678901000",
		"::TRZSZ:TRANSFER:R:1.0.0:1234567890100::TRZSZ:TRANSFER:R:1.0.0:1234567890120::TRZSZ:TRANSFER:R:1.0.0:123456789010000",
		"::TRZSZ:TRANSFER:R:1.0.0:0000000000000::TRZSZ:TRANSFER:R:1.0.0:000000000000000",
		"::TRZSZ:TRANSFER:R:1.1.6:0123456789100:12345\r\nTRZSZ TRZSZGO TRZSZTRZSZ TTRZSZ",
		"::TRZSZ:TRANSFER:R:1.0.0:0              Saved", "::TRZSZ:TRANSFER:R:1.0.0:0             Saved", "::TRZSZ:TRANSFER:R:1.0.0:0            Saved",
		"::TRZSZ:TRANSFER:::TRZSZ:TRANSFER:R:1.0.0:0", "::TRZSZ:TRANSFER:R:1.0.0:0::TRZSZ:TRANSFER:",
		"%output %1 ::TRZSZ:TRANSFER:R:1.0.0:0:1\n::TRZSZ:TRANSFER:R:1.0.0:0:1", "%output %1 \n::TRZSZ:TRANSFER:R:1.0.0:0:1",
		"::TRZSZ:TRANSFER:R:1.0.0:0:1%output %1 ", "%output %1 ::TRZSZ:TRANSFER:X%output %22 ::TRZSZ:TRANSFER:R:1.0.0:0:1",
	}
	for _, s := range corpus {
		everywhere(s)
	}

	// ---- 2. grammar triggers in clean and dirty contexts, all flags; fires-oracle in clean contexts
	nGrammar := c.pick(2500, 40000)
	for i := 0; i < nGrammar; i++ {
		t := c.c06RandTrig()
		pre, clean := c.c06Prefix()
		flags := allFlags[c.rng.Intn(8)]
		tunnel := c.rng.Intn(2) == 0
		buf := pre + t.text()
		clean = clean && c06CleanTail(t.tailStr) && len(buf) >= 24
		out, got := single(flags, tunnel, buf)
		if c06Earlier && c06CleanTail(t.tailStr) && !(flags[0] && flags[1]) {
			// earlier markers / complete triggers in the same read: the LAST one counts
			c.count("grammar:after-earlier-marker")
			if want := t.expect(false, false); !c06SameTrig(got, want) {
				c.violate("last-wins", "with several markers in one read the last trigger did not start exactly the advertised transfer",
					fmt.Sprintf("flags=%s tunnel=%v buf=%q got=%s want=%s", c06Flags(flags), tunnel, buf, c06TrigStr(got), c06TrigStr(want)))
			}
		}
		if clean {
			c.count("grammar:clean")
			want := t.expect(flags[0], flags[1])
			if !c06SameTrig(got, want) {
				c.violate("fires", "a trigger of the grammar with a fresh id in a clean context did not start exactly the advertised transfer",
					fmt.Sprintf("flags=%s tunnel=%v buf=%q got=%s want=%s", c06Flags(flags), tunnel, buf, c06TrigStr(got), c06TrigStr(want)))
			}
			if want != nil && got != nil && flags[0] {
				// relay forward: the real client recognises what the relay forwards
				d2 := trzsz.VerifNewDetector(false, false)
				_, t2 := d2.Detect(out, tunnel)
				if !c06SameTrig(t2, got) {
					c.violate("forward", "relay output is not recognised identically by a client",
						fmt.Sprintf("buf=%q relay-out=%q relay=%s client=%s", buf, out, c06TrigStr(got), c06TrigStr(t2)))
				}
			}
		} else {
			c.count("grammar:dirty")
		}
	}
	// every two-digit id suffix, every flag combination
	for suf := 0; suf < 100; suf++ {
		for _, n := range []int{11, 12} {
			id := strings.Repeat("7", n) + fmt.Sprintf("%02d", suf)
			for _, f := range allFlags {
				t := c06Trig{mode: 'R', ver: [3]string{"1", "1", "6"}, id: &id, port: c06Sp("1337"), head: "\x1b7\x07", tailStr: "\r\n"}
				_, got := single(f, false, t.text())
				if want := t.expect(f[0], f[1]); !c06SameTrig(got, want) {
					c.violate("fires-suffix", "id suffix handling", fmt.Sprintf("id=%s flags=%s got=%s want=%s", id, c06Flags(f), c06TrigStr(got), c06TrigStr(want)))
				}
			}
		}
	}

	// ---- 2b. tmux control-mode framing: fires only with a tunnel and a port, and reports the framing
	for _, fr := range c06Frames[:4] {
		for _, mid := range []string{"", "\x1b7\x07", "abc ", "\xff"} {
			for _, port := range []*string{nil, c06Sp("1337")} {
				for _, f := range allFlags {
					for _, tn := range []bool{false, true} {
						t := c06Trig{mode: 'R', ver: [3]string{"1", "0", "0"}, id: c06Sp("0"), port: port, tailStr: "ABC"}
						_, got := single(f, tn, fr+mid+t.text())
						want := t.expect(f[0], f[1])
						if tn && port != nil {
							want.TmuxPrefix = fr
						} else {
							want = nil
						}
						if !c06SameTrig(got, want) {
							c.violate("ctrl-mode", "tmux control-mode framing: a transfer must start only with a tunnel and a port, and carry the framing prefix",
								fmt.Sprintf("flags=%s tunnel=%v buf=%q got=%s want=%s", c06Flags(f), tn, fr+mid+t.text(), c06TrigStr(got), c06TrigStr(want)))
						}
						c.count("ctrl-mode")
					}
				}
			}
		}
	}

	// ---- 2c. a fresh trigger after a finished-transfer word in the PRECEDING output of the same read
	// (`ls` showing "Saved Games" then trz; the previous transfer's "Saved ..." message and the next
	// trigger in one read): the look-ahead is on the text after the marker, so the transfer starts,
	// exactly once.  Word at prefix offsets 0..120, all modes, client and relay.
	{
		seq := 0
		offStep := c.pick(3, 1)
		for wi, w := range c06Words {
			for off := 0; off <= 120; off++ {
				if c.tier != "thorough" && off%offStep != wi%offStep && off != 40 && off != 35 && off != 36 {
					continue
				}
				for mi, mode := range []byte("SRD") {
					for _, f := range [][3]bool{{false, false, false}, {true, false, false}, {true, true, false}, {false, true, true}} {
						seq++
						id := fmt.Sprintf("%011d", 90000000+seq) + []string{"10", "20"}[seq%2]
						t := c06Trig{mode: mode, ver: [3]string{"1", "1", "6"}, id: c06Sp(id), port: c06Sp([]string{"0", "1337"}[mi%2]), head: "\x1b7\x07", tailStr: "\r\n"}
						filler := []string{" Games\r\n$ trz\r\n", " file.bin to /tmp\r\n$ tsz x\r\n", "\r\n"}[seq%3]
						buf := strings.Repeat([]string{" ", "x", "-"}[seq%3], off) + w + filler + t.text()
						d := trzsz.VerifNewDetector(f[0], f[1])
						trzsz.SetAffectedByWindows(f[2])
						_, got1 := d.Detect([]byte(buf), false)
						_, got2 := d.Detect([]byte(buf), false)
						trzsz.SetAffectedByWindows(false)
						want := t.expect(f[0], f[1])
						if !c06SameTrig(got1, want) || got2 != nil {
							c.violate("fires-after-finished-word", "a fresh trigger preceded in the same read by a finished-transfer word did not start exactly one transfer",
								fmt.Sprintf("flags=%s word=%q at offset %d buf=%q first=%s (want %s) second=%s (want none)", c06Flags(f), w, off, buf, c06TrigStr(got1), c06TrigStr(want), c06TrigStr(got2)))
						}
						c06Hist(c, f, nil, []c06Call{{false, []byte(buf)}, {false, []byte(buf)}})
						c.count("fires-after-finished-word")
						if off+len(w) > 40 {
							c.count("fires-after-finished-word:past-byte-40")
						}
					}
				}
			}
		}
	}

	// ---- 3. every single-byte truncation, deletion and corruption of a trigger
	bases := []string{"\x1b7\x07::TRZSZ:TRANSFER:R:1.1.6:0123456789100:12345\r\n", "::TRZSZ:TRANSFER:S:10.0.22:1:80",
		"%output %1 \x1b7\x07::TRZSZ:TRANSFER:D:1.0.0:0123456789120:7\r\n", "ab::TRZSZ:TRANSFER:R:1.0.0:0000000"}
	subs := []byte{'0', '9', ':', '.', 'X', 'S', '\n', ' ', '%', 0xff, 0}
	for bi, b := range bases {
		flagSets := allFlags
		if c.tier != "thorough" && bi > 0 {
			flagSets = [][3]bool{{false, false, false}, {true, true, false}}
		}
		for _, f := range flagSets {
			for _, tn := range []bool{false, true} {
				for i := 0; i <= len(b); i++ {
					single(f, tn, b[:i])
					c.count("mutation:truncate")
					if i < len(b) {
						single(f, tn, b[:i]+b[i+1:])
						c.count("mutation:delete")
						for _, s := range subs {
							if s != b[i] {
								single(f, tn, b[:i]+string(s)+b[i+1:])
								c.count("mutation:substitute")
							}
						}
					}
				}
			}
		}
	}

	// ---- 4. finished-transfer tails around the look-ahead offset
	for _, w := range c06Words {
		for _, trg := range []string{"::TRZSZ:TRANSFER:R:1.0.0:0", "\x1b7\x07::TRZSZ:TRANSFER:R:1.1.6:0123456789100:12345\r\n"} {
			mlen := len(trg) - strings.Index(trg, c06Marker)
			for off := 30; off <= 52; off++ {
				pad := off - mlen
				if pad < 0 {
					continue
				}
				for _, wd := range []string{w, w[:len(w)-1], strings.ToLower(w)} {
					buf := trg + strings.Repeat(" ", pad) + wd + " x"
					for _, f := range [][3]bool{{false, false, false}, {true, false, false}, {true, true, true}} {
						_, t1 := single(f, false, buf)
						_, t2 := single(f, false, "pre "+w+" "+buf)
						if wd == w && off >= 40 && (t1 != nil || t2 != nil) {
							c.violate("finished", "scroll-back of a finished transfer (word at offset >= 40 after the marker) started a transfer",
								fmt.Sprintf("flags=%s buf=%q", c06Flags(f), buf))
						}
					}
					c.count(fmt.Sprintf("finished:offset-%d", off))
				}
			}
		}
	}

	// ---- 5. id histories on one detector, crossing two prunings, with the replay oracle
	nHist := c.pick(10, 120)
	for h := 0; h < nHist; h++ {
		flags := allFlags[(h+c.rng.Intn(2)*4)%8]
		n := 400
		if h%3 == 1 {
			n = 150 + c.rng.Intn(250)
		}
		var pool []string // ids issued so far
		var calls []c06Call
		var ids []string
		for i := 0; i < n; i++ {
			var id string
			switch k := c.rng.Intn(20); {
			case k < 12 || len(pool) == 0: // fresh
				id = fmt.Sprintf("%011d", h*100000+i) + []string{"00", "10", "20", "10", "20", "37"}[c.rng.Intn(6)]
				if c.rng.Intn(15) == 0 {
					id = fmt.Sprintf("%d", 1000000+h*1000+i) // 7 digits
				}
				if c.rng.Intn(25) == 0 {
					id = fmt.Sprintf("%d", i%7) // short, never deduplicated
				}
			case k < 16: // recent replay
				back := 1 + c.rng.Intn(min(60, len(pool)))
				id = pool[len(pool)-back]
			default: // any earlier id
				id = pool[c.rng.Intn(len(pool))]
			}
			pool = append(pool, id)
			ids = append(ids, id)
			t := c06Trig{mode: "SRD"[c.rng.Intn(3)], ver: [3]string{"1", "1", "6"}, id: c06Sp(id), port: c06Sp("0"), head: "\x1b7\x07", tailStr: "\r\n"}
			calls = append(calls, c06Call{false, []byte(t.text())})
		}
		r := c06Hist(c, flags, nil, calls)
		// replay oracle against an independent window of accepted eligible ids
		var accepted []string
		for i, id0 := range ids {
			id := id0
			if flags[0] && flags[1] && len(id) >= 13 && strings.HasSuffix(id, "00") {
				id = id[:len(id)-2] + "20"
			}
			el := c06Eligible(flags[2], id)
			pos := -1
			for j := len(accepted) - 1; j >= 0; j-- {
				if accepted[j] == id {
					pos = len(accepted) - 1 - j
					break
				}
			}
			fired := r.trigs[i] != nil
			if el && pos >= 0 && pos < 50 && fired {
				c.violate("replay", "a replayed id within the window started a second transfer",
					fmt.Sprintf("flags=%s call=%d id=%s distance=%d", c06Flags(flags), i, id, pos))
			}
			if (!el || pos < 0) && !fired {
				c.violate("fresh", "a trigger with a fresh id did not start a transfer",
					fmt.Sprintf("flags=%s call=%d id=%s", c06Flags(flags), i, id))
			}
			if el && pos >= 0 {
				c.count("history:replay")
				if pos < 50 {
					c.count("history:replay-in-window")
				}
			}
			if fired && el {
				// drop an older copy so that `accepted` stays a list of distinct ids, newest last
				if pos >= 0 {
					j := len(accepted) - 1 - pos
					accepted = append(accepted[:j], accepted[j+1:]...)
				}
				accepted = append(accepted, id)
			}
		}
		c.count("history")
	}
	// seeded tables around the prune threshold (values need not satisfy the invariant)
	for _, size := range []int{0, 1, 49, 50, 51, 99, 100, 101, 102, 150} {
		for _, shape := range []string{"dense", "dup", "sparse"} {
			seed := map[string]int{}
			for i := 0; i < size; i++ {
				v := i
				switch shape {
				case "dup":
					v = i / 2 * 2
				case "sparse":
					v = (i * 37) % 120
				}
				seed[fmt.Sprintf("%011d10", i)] = v
			}
			var calls []c06Call
			for _, id := range []string{fmt.Sprintf("%011d10", 0), fmt.Sprintf("%011d10", size/2), fmt.Sprintf("%011d10", 49), fmt.Sprintf("%011d10", 50), "9999999999910", fmt.Sprintf("%011d10", 0), "9999999999920", "9999999999910"} {
				t := c06Trig{mode: 'R', ver: [3]string{"1", "0", "0"}, id: c06Sp(id), head: "\x1b7\x07", tailStr: "\r\n"}
				calls = append(calls, c06Call{false, []byte(t.text())})
			}
			c06Hist(c, [3]bool{false, false, false}, seed, calls)
			c.count("history:seeded")
		}
	}

	// ---- 5b. the refuted full form of relay-forward (Props/C06.v C06_relay_forward_refuted), replayed
	// on the implementation: "#R" shifts a finished-transfer word from offset 38/39 to 40/41
	for _, w := range c06Words {
		for _, off := range []int{37, 38, 39, 40} {
			trg := "::TRZSZ:TRANSFER:R:1.0.0:0"
			buf := trg + strings.Repeat(" ", off-len(trg)) + w
			out, t := single([3]bool{true, false, false}, false, buf)
			if t != nil {
				_, t2 := trzsz.VerifNewDetector(false, false).Detect(out, false)
				if t2 == nil {
					c.count("relay-forward:lost")
					c.violate("relay-forward-lookahead", "a relay forwards a trigger (short, no 13-digit id) that the client then takes for a finished transfer because #R moved the word to offset 40",
						fmt.Sprintf("relay buf=%q forwarded=%q", buf, out))
				}
			}
		}
	}

	// ---- 6. the building blocks in isolation
	reInputs := append([]string{}, corpus...)
	nRe := c.pick(3000, 40000)
	for i := 0; i < nRe; i++ {
		pre, _ := c.c06Prefix()
		s := pre + c.c06RandTrig().text()
		switch c.rng.Intn(4) {
		case 0:
			if len(s) > 0 {
				k := c.rng.Intn(len(s))
				s = s[:k] + string(subs[c.rng.Intn(len(subs))]) + s[k+1:]
			}
		case 1:
			s += c.c06RandTrig().text()
		}
		reInputs = append(reInputs, s)
	}
	for _, f := range c06Frames {
		for _, mid := range []string{"", "abc", "a\nb", "\xff\xfe", "é"} {
			reInputs = append(reInputs, f+mid+c06Marker, "x"+f+mid+c06Marker+"R:1.0.0", f+f+mid+c06Marker, f+mid+c06Marker[:16])
		}
	}
	dd := trzsz.VerifNewDetector(true, true)
	for _, s := range reInputs {
		b := []byte(s)
		m := trzsz.VerifTrzszRegexpFind(b)
		r := "none"
		if m != nil {
			g := func(x []byte) string {
				if x == nil {
					return "n"
				}
				return hx(x[1:])
			}
			r = fmt.Sprintf("%d,%s,%s,%s", m[1][0], hx(m[2]), g(m[3]), g(m[4]))
		}
		c.emit(m != nil, "re_trzsz", r, hx(b))
		var idsFound [][]byte
		for _, mm := range trzsz.VerifUniqueIDRegexpFindAll(b) {
			idsFound = append(idsFound, mm[1])
		}
		c.emit(len(idsFound) > 0, "re_uid_all", hxs(idsFound), hx(b))
		tm := trzsz.VerifTmuxRegexpFind(b)
		r = "none"
		if tm != nil {
			r = hx(tm[1])
			c.count("re:tmux-match")
		}
		c.emit(tm != nil, "re_tmux", r, hx(b))
		rw := dd.RewriteTrigger(b)
		c.emit(!bytes.Equal(rw, b), "rewrite", hx(rw), hx(b))
		if len(b) > 0 {
			idx := c.rng.Intn(len(b) + 3)
			c.emit(true, "relay_suffix", hx(dd.AddRelaySuffix(b, idx)), hx(b), fmt.Sprint(idx))
		}
	}
	verInputs := []string{"", ".", "..", "1.2", "1.2.3", "1.2.3.4", "1..3", ".1.2", "1.2.", "a.b.c", "1.2.x", "+1.2.3", "-1.2.3", "1_0.2.3", " 1.2.3",
		"0x1.2.3", "4294967295.0.0", "4294967296.0.0", "0.4294967296.0", "0.0.4294967296", "00000000000000000001.2.3", "1.2.3\n", "１.2.3"}
	for i := 0; i < c.pick(300, 3000); i++ {
		v := c.c06Ver()
		verInputs = append(verInputs, v[0]+"."+v[1]+"."+v[2])
	}
	for _, s := range verInputs {
		v, ok := trzsz.VerifParseTrzszVersion(s)
		r := "none"
		if ok {
			r = fmt.Sprintf("%d.%d.%d", v[0], v[1], v[2])
		}
		c.emit(ok, "parse_version", r, hx([]byte(s)))
	}
	// the grammar against the printer's format string
	for i := 0; i < c.pick(200, 2000); i++ {
		mode := "SRD"[c.rng.Intn(3)]
		a, b, d := c.rng.Intn(3), c.rng.Intn(100), c.rng.Intn(5000)
		var uid int64
		switch c.rng.Intn(4) {
		case 0:
			uid = int64(c.rng.Intn(1000))
		case 1:
			uid = c.rng.Int63n(1e13)
		case 2:
			uid = c.rng.Int63n(1e15)
		default:
			uid = (c.rng.Int63n(1e11))*100 + int64(c.rng.Intn(3))*10
		}
		port := c.rng.Intn(65536)
		if c.rng.Intn(4) == 0 {
			port = 0
		}
		line := fmt.Sprintf("\x1b7\x07::TRZSZ:TRANSFER:%s:%s:%013d:%d\r\n", string(mode), fmt.Sprintf("%d.%d.%d", a, b, d), uid, port)
		c.emit(true, "trigger_line", hx([]byte(line)), fmt.Sprint(mode), fmt.Sprint(a), fmt.Sprint(b), fmt.Sprint(d), fmt.Sprint(uid), fmt.Sprint(port))
	}
}
