package main

// C20: the progress line.  Real textProgressBar (through export_verif_progress.go) against
// the extracted model of Model/Progress.v, plus direct oracles on the implementation:
// no panic, display width <= columns (columns >= 5), percentage within 0..100 and
// non-decreasing within a file.

import (
	"fmt"
	"regexp"
	"sort"
	"strconv"
	"strings"
	"time"

	"github.com/mattn/go-runewidth"
	"github.com/trzsz/trzsz-go/trzsz"
)

func init() { groups["progress"] = genProgress }

var c20SGR = regexp.MustCompile(`\x1b\[[0-9;]*m`)

func c20Strip(s string) string { return c20SGR.ReplaceAllString(s, "") }

// strings travel as comma-separated hex code points ([]rune view), "-" = empty
func c20Runes(s string) string {
	rs := []rune(s)
	if len(rs) == 0 {
		return "-"
	}
	parts := make([]string, len(rs))
	for i, r := range rs {
		parts[i] = strconv.FormatInt(int64(r), 16)
	}
	return strings.Join(parts, ",")
}

type c20Tabs struct {
	w  map[rune]int
	sw map[string]int
}

func c20NewTabs() *c20Tabs { return &c20Tabs{w: map[rune]int{}, sw: map[string]int{}} }

// add records the library's real widths for a string the model may measure
func (t *c20Tabs) add(c *ctx, s string) {
	sum := 0
	for _, r := range []rune(s) {
		rw := runewidth.RuneWidth(r)
		t.w[r] = rw
		sum += rw
		if rw < 0 || rw > 2 {
			c.violate("assumption-rune-width-range", "runewidth.RuneWidth outside 0..2", fmt.Sprintf("rune=%x width=%d", r, rw))
		}
	}
	key := c20Runes(s)
	sw := runewidth.StringWidth(s)
	t.sw[key] = sw
	if sw > sum {
		c.violate("assumption-stringwidth-le-sum", "runewidth.StringWidth(s) exceeds the sum of its rune widths (premise of C20_fits)",
			fmt.Sprintf("s=%s StringWidth=%d sum=%d", key, sw, sum))
	}
}

func (t *c20Tabs) wArg() string {
	if len(t.w) == 0 {
		return "-"
	}
	ks := make([]int, 0, len(t.w))
	for r := range t.w {
		ks = append(ks, int(r))
	}
	sort.Ints(ks)
	parts := make([]string, len(ks))
	for i, k := range ks {
		parts[i] = fmt.Sprintf("%x:%d", k, t.w[rune(k)])
	}
	return strings.Join(parts, ",")
}

func (t *c20Tabs) swArg() string {
	if len(t.sw) == 0 {
		return "-"
	}
	ks := make([]string, 0, len(t.sw))
	for k := range t.sw {
		ks = append(ks, k)
	}
	sort.Strings(ks)
	parts := make([]string, len(ks))
	for i, k := range ks {
		parts[i] = fmt.Sprintf("%s=%d", k, t.sw[k])
	}
	return strings.Join(parts, ";")
}

// both shapes of the text left of the bar (the model decides which one is used)
func (t *c20Tabs) addLeft(c *ctx, count, idx int, name string) {
	t.add(c, name)
	t.add(c, fmt.Sprintf("(%d/%d) %s", idx, count, name))
}

// measured display width of a progress text: SGR sequences removed, then the library's StringWidth
func c20Width(text string) int { return runewidth.StringWidth(c20Strip(text)) }

var c20NameCorpus = []string{
	"", "a", "a.txt", "test.txt", "中文😀test.txt", "archive-2024-01-01.tar.gz",
	strings.Repeat("x", 19), strings.Repeat("x", 20), strings.Repeat("x", 21), strings.Repeat("y", 30), strings.Repeat("y", 31),
	strings.Repeat("z", 40), strings.Repeat("z", 41), strings.Repeat("w", 50), strings.Repeat("w", 51), strings.Repeat("long", 40),
	strings.Repeat("中", 9), strings.Repeat("中", 10), strings.Repeat("文", 15), strings.Repeat("文", 20), strings.Repeat("字", 25), strings.Repeat("字", 26), "a" + strings.Repeat("漢", 25), strings.Repeat("漢", 120),
	"👨‍👩‍👧‍👦.jpg", strings.Repeat("👨‍👩‍👧‍👦", 8), "🏳️‍🌈 flag", strings.Repeat("👍🏽", 14), "🇩🇪🇫🇷🇯🇵" + strings.Repeat("🇺🇸", 12), "☺️" + strings.Repeat("❤️", 20),
	"ééé.txt", strings.Repeat("à́̂̃", 30), "́̂start-with-mark", strings.Repeat("​", 30), "‍‍",
	"\x00\x01\x02.bin", "tab\there", "new\nline", "\x1b[31mred\x1b[0m.txt", strings.Repeat("\x1b[1m", 20) + "bold", "bell\x07" + strings.Repeat("\x07", 40), "\r\rcarriage",
	" leading", "trailing ", "   ", "　　ideographic space　", " nbsp ", "\t\n mixed  ", "؀؁ prepend", "שלום עולם.txt", "a؀",
	"100% | name | with | bars", "%s%d%%", "[]]][[", "█░█░", "\xff\xfe\xfd", "ok\xc3", "��",
	"(1/2) fake prefix", strings.Repeat("ｗｉｄｅ", 6) + "́", "ﾊﾝｶｸ" + strings.Repeat("ｶ", 30),
}

var c20Pieces = []string{"a", "b", "Z", "0", ".", "-", "_", " ", "中", "文", "漢", "한", "😀", "👍🏽", "👨‍👩‍👧", "́", "̈", "‍", "​", "️",
	"🇯🇵", "🇺", "\x00", "\x1b", "\x1b[31m", "\t", "\n", "　", " ", "é", "ｗ", "ｶ", "؀", "ש", "‮", "%", "[", "]", "|", "­"}

func (c *ctx) c20Name() string {
	switch c.rng.Intn(10) {
	case 0, 1:
		return c20NameCorpus[c.rng.Intn(len(c20NameCorpus))]
	case 2: // ASCII of a chosen width near a threshold
		w := []int{17, 18, 19, 20, 21, 22, 27, 29, 30, 31, 39, 40, 41, 46, 47, 48, 49, 50, 51, 52, 53, 60, 100}[c.rng.Intn(23)]
		return strings.Repeat("n", w)
	case 3: // wide characters around a threshold, odd/even offset
		w := []int{9, 10, 11, 14, 15, 16, 19, 20, 21, 23, 24, 25, 26, 27, 30}[c.rng.Intn(15)]
		pre := ""
		if c.rng.Intn(2) == 0 {
			pre = "a"
		}
		return pre + strings.Repeat("中", w)
	}
	n := 1 + c.rng.Intn(40)
	if c.rng.Intn(4) == 0 {
		n = 1 + c.rng.Intn(6)
	}
	var sb strings.Builder
	few := c.rng.Intn(3) == 0
	base := c.rng.Intn(len(c20Pieces))
	for i := 0; i < n; i++ {
		if few {
			sb.WriteString(c20Pieces[(base+c.rng.Intn(3))%len(c20Pieces)])
		} else {
			sb.WriteString(c20Pieces[c.rng.Intn(len(c20Pieces))])
		}
	}
	return sb.String()
}

var c20Totals = []string{"0.00 B", "1.00 KB", "999 MB", "12.3 GB", "1023 TB", "123456789 TB", "NaN B", ""}
var c20Speeds = []string{"--- B/s", "1.00 B/s", "10.5 MB/s", "999 GB/s", "+Inf TB/s", "8.00 KB/s"}
var c20Etas = []string{"--- ETA", "00:00 ETA", "59:59 ETA", "1:00:00 ETA", "123456:07:08 ETA", "2562047788015:12:55 ETA", "0-1:-5 ETA"}
var c20Pcts = []string{"0%", "5%", "50%", "99%", "100%"}
var c20BadPcts = []string{"101%", "250%", "-0%", "-60%", "1000%", "100000000%", "NaN%", "+Inf%", ""}

func c20Key(parts ...any) string { return fmt.Sprint(parts...) }

func (c *ctx) c20Size() int64 {
	switch c.rng.Intn(12) {
	case 0:
		return 0
	case 1:
		return int64(1 + c.rng.Intn(10))
	case 2:
		return 100
	case 3:
		return int64(1) << uint(10+c.rng.Intn(30))
	case 4:
		return (int64(1) << 40) - 1 - int64(c.rng.Intn(1000))
	case 5:
		return int64(1)<<62 - int64(c.rng.Intn(5))
	case 6:
		return (int64(1) << uint(41+c.rng.Intn(21))) + c.rng.Int63n(1<<40)
	case 7:
		return -int64(1 + c.rng.Intn(1000))
	case 8:
		return 2 * int64(1+c.rng.Intn(500)) // even: exact .5 ties exist
	case 9:
		return 200 * int64(1+c.rng.Intn(1000))
	}
	return 1 + c.rng.Int63n(1<<uint(1+c.rng.Intn(39)))
}

// a step for a given size: inside, on ties, at the ends, beyond, negative
func (c *ctx) c20Step(size int64) int64 {
	switch c.rng.Intn(12) {
	case 0:
		return 0
	case 1:
		return size
	case 2:
		return size + 1 + c.rng.Int63n(1000)
	case 3:
		if size > 0 && size < 1<<61 {
			return size*2 + c.rng.Int63n(10)
		}
		return size
	case 4:
		return -c.rng.Int63n(1000)
	case 5: // percentage tie k+0.5 when 200 | size
		if size > 0 && size%200 == 0 {
			return size / 200 * int64(2*c.rng.Intn(100)+1)
		}
	case 6:
		if size > 1 {
			return size - 1
		}
	case 7:
		if size > 0 {
			return size / 2
		}
	case 8:
		return int64(1)<<62 + c.rng.Int63n(1<<61)
	}
	if size > 0 {
		return c.rng.Int63n(size + 1)
	}
	return c.rng.Int63n(1000)
}

// c20Unclamped is set when the tree under test renders positions beyond the size without
// clamping them (the code before the getDisplayStep fix).  Such a tree does not only panic
// on a negative repeat count: a step far beyond the size makes getProgressBar ask
// strings.Repeat for terabytes, which kills the process (fatal error: out of memory, not a
// recoverable panic).  The harness then keeps positions within 8x the size so that it can
// still report.
var c20Unclamped bool

func c20Safe(step, size int64) bool {
	if !c20Unclamped || size == 0 {
		return true
	}
	as, az := step, size
	if as < 0 {
		as = -as
	}
	if az < 0 {
		az = -az
	}
	return as >= 0 && as/8 <= az
}

func c20Recover(f func()) (panicked bool, msg string) {
	defer func() {
		if r := recover(); r != nil {
			panicked, msg = true, fmt.Sprint(r)
		}
	}()
	f()
	return
}

func genProgress(c *ctx) {
	base := int64(1646564135000)
	cur := base
	restore := trzsz.VerifSetTimeNow(func() time.Time { return time.UnixMilli(cur) })
	defer restore()

	// 0. the confirmed defect, with its exact inputs: rendering must not panic, whatever step and size
	for _, d := range [][2]int64{{100, 250}, {-5, 3}, {100, 101}} {
		p := trzsz.VerifNewProgress(100, 0, "")
		p.OnNum(1)
		p.OnName("a.txt")
		p.OnSize(d[0])
		if pan, msg := c20Recover(func() { p.OnStep(d[1]) }); pan {
			c20Unclamped = true
			c.violate(c20Key("panic:size=", d[0], ",step=", d[1]), "rendering the progress line panics",
				fmt.Sprintf("newTextProgressBar(columns=100) onNum(1) onName(\"a.txt\") onSize(%d) onStep(%d): panic: %s", d[0], d[1], msg))
		}
	}

	// the same defect without a panic: on 5 columns the bar is dropped, and a percentage that
	// is not clamped makes the line wider than the terminal ("10000000%" before the fix)
	{
		p := trzsz.VerifNewProgress(5, 0, "")
		p.OnNum(1)
		p.OnName("a.txt")
		p.OnSize(1)
		p.TakeOutput()
		var out string
		if pan, _ := c20Recover(func() { p.OnStep(100000); out = p.TakeOutput() }); !pan {
			if w := c20Width(out); w > 5 {
				c.violate("width:columns=5,size=1,step=100000", "progress line wider than the terminal",
					fmt.Sprintf("newTextProgressBar(columns=5) onNum(1) onName(\"a.txt\") onSize(1) onStep(100000): width=%d line=%q", w, out))
			}
		}
	}

	// ---- getEllipsisString
	for _, name := range c20NameCorpus {
		for _, mx := range []int{20, 30, 40, 50, 3, 4, 0} {
			c.c20Ellipsis(name, mx)
		}
	}
	for i := 0; i < c.pick(400, 8000); i++ {
		c.c20Ellipsis(c.c20Name(), []int{20, 30, 40, 50, 5 + c.rng.Intn(60)}[c.rng.Intn(5)])
	}

	// ---- getProgressBar: lengths around the minimum x steps incl. overshoot, negative, ties
	for i := 0; i < c.pick(1500, 30000); i++ {
		size := c.c20Size()
		step := c.c20Step(size)
		length := []int{-3, 0, 11, 12, 13, 24, 25, 80}[c.rng.Intn(8)]
		if c.rng.Intn(2) == 0 {
			length = c.rng.Intn(500)
		}
		if size >= 1<<40 || size <= -(1<<40) || step >= 1<<40 {
			// binary64 and exact rounding may differ here: only the oracles apply
			c.c20BarOracle(step, size, length)
			continue
		}
		c.c20Bar(step, size, length, i%7 == 0)
	}

	// ---- getProgressText: every width 1..500 (and a few outside) x names x counts
	widths := []int{-7, 0, 600, 1000, 5000}
	for w := 1; w <= 500; w++ {
		widths = append(widths, w)
	}
	perWidth := c.pick(6, 40)
	for _, cols := range widths {
		for k := 0; k < perWidth; k++ {
			name := c.c20Name()
			if k == 0 {
				name = c20NameCorpus[(cols+len(c20NameCorpus))%len(c20NameCorpus)]
			}
			count, idx := 1, 1
			switch c.rng.Intn(5) {
			case 0:
				count, idx = 3, 1+c.rng.Intn(3)
			case 1:
				count, idx = 1000+c.rng.Intn(100000), 1+c.rng.Intn(1000)
			case 2:
				count, idx = []int{0, -4, 2}[c.rng.Intn(3)], c.rng.Intn(4)
			}
			pct := c20Pcts[c.rng.Intn(len(c20Pcts))]
			if c.rng.Intn(12) == 0 {
				pct = c20BadPcts[c.rng.Intn(len(c20BadPcts))]
			}
			size := int64(c.rng.Intn(1000))
			step := int64(0)
			if size > 0 {
				step = c.rng.Int63n(size + 1)
			}
			if c.rng.Intn(10) == 0 {
				step = size + int64(c.rng.Intn(500)) // overshoot
			}
			color := ""
			if c.rng.Intn(9) == 0 {
				color = "00ffff ff00ff"
			}
			c.c20Text(cols, count, idx, name, step, size, pct, c20Totals[c.rng.Intn(len(c20Totals))],
				c20Speeds[c.rng.Intn(len(c20Speeds))], c20Etas[c.rng.Intn(len(c20Etas))], color)
		}
	}

	// ---- percentage: exact comparison below 2^40, ties included
	for i := 0; i < c.pick(1500, 30000); i++ {
		size := c.c20Size()
		step := c.c20Step(size)
		c.c20Pct(step, size)
	}

	// ---- the state machine
	for i := 0; i < c.pick(700, 12000); i++ {
		c.c20Run(&cur, base)
	}
}

func (c *ctx) c20Ellipsis(name string, mx int) {
	t := c20NewTabs()
	t.add(c, name)
	var s string
	var l int
	if pan, msg := c20Recover(func() { s, l = trzsz.VerifGetEllipsisString(name, mx) }); pan {
		c.violate("panic:ellipsis", "getEllipsisString panics", fmt.Sprintf("name=%s max=%d: %s", c20Runes(name), mx, msg))
		return
	}
	cut := len([]rune(s)) < len([]rune(name))+3
	c.emit(cut, "ellipsis", c20Runes(s)+":"+strconv.Itoa(l), t.wArg(), c20Runes(name), strconv.Itoa(mx))
	if cut {
		c.count("ellipsis:cut")
	}
	// direct oracle: the result is never wider than asked for (max >= 3) and the reported
	// length is not below the measured width
	if mx >= 3 && l > mx {
		c.violate("ellipsis-too-wide", "getEllipsisString reports more than max columns", fmt.Sprintf("name=%s max=%d len=%d", c20Runes(name), mx, l))
	}
	if w := runewidth.StringWidth(s); w > l {
		c.violate("ellipsis-underreports", "getEllipsisString reports fewer columns than the library measures", fmt.Sprintf("name=%s max=%d len=%d measured=%d", c20Runes(name), mx, l, w))
	}
}

func c20CountCells(s string) (full, empty int) {
	return strings.Count(s, "█"), strings.Count(s, "░")
}

func (c *ctx) c20BarOracle(step, size int64, length int) (string, bool) {
	if !c20Safe(step, size) {
		c.count("skipped:unclamped-tree-would-exhaust-memory")
		return "", true
	}
	p := trzsz.VerifNewProgress(100, 0, "")
	p.SetState(1, 1, "x", step, size)
	var s string
	if pan, msg := c20Recover(func() { s = p.GetProgressBar(length) }); pan {
		c.violate("panic:getProgressBar", "getProgressBar panics",
			fmt.Sprintf("fileSize=%d fileStep=%d getProgressBar(%d): panic: %s", size, step, length, msg))
		return "panic", false
	}
	full, empty := c20CountCells(s)
	if length >= 12 && full+empty != length-2 {
		c.violate("bar-cells", "bar cells do not add up to length-2", fmt.Sprintf("fileSize=%d fileStep=%d length=%d full=%d empty=%d", size, step, length, full, empty))
	}
	if w := c20Width(s); w > max(length, 0) {
		c.violate("bar-width", "bar wider than asked for", fmt.Sprintf("fileSize=%d fileStep=%d length=%d width=%d", size, step, length, w))
	}
	c.count("bar:oracle")
	return s, true
}

func (c *ctx) c20Bar(step, size int64, length int, colored bool) {
	if !c20Safe(step, size) {
		return
	}
	s, ok := c.c20BarOracle(step, size, length)
	strip := "0"
	if colored && ok {
		p := trzsz.VerifNewProgress(100, 0, "00ffff ff00ff")
		p.SetState(1, 1, "x", step, size)
		s = c20Strip(p.GetProgressBar(length))
		strip = "1"
	}
	res := "panic"
	if ok {
		res = c20Runes(s)
	}
	if step > size || size < 0 {
		c.count("bar:out-of-range-position")
	}
	c.emit(length >= 12, "pbar", res, fmt.Sprint(step), fmt.Sprint(size), fmt.Sprint(length), strip)
}

func (c *ctx) c20Pct(step, size int64) {
	if !c20Safe(step, size) {
		return
	}
	// through the real state machine: wide probe bar, empty name
	p := trzsz.VerifNewProgress(400, 0, "")
	p.OnNum(1)
	p.OnName("")
	p.OnSize(size)
	p.TakeOutput()
	var out string
	if pan, msg := c20Recover(func() { p.OnStep(step); out = p.TakeOutput() }); pan {
		c.violate("panic:showProgress", "rendering the progress line panics",
			fmt.Sprintf("newTextProgressBar(columns=400) onNum(1) onName(\"\") onSize(%d) onStep(%d): panic: %s", size, step, msg))
		return
	}
	if out == "" {
		return // step ignored (not beyond -1)
	}
	f := c20Fields(out)
	if f == nil {
		c.violate("probe-parse", "cannot find the fields in a 400 column progress line", fmt.Sprintf("size=%d step=%d out=%q", size, step, out))
		return
	}
	c.c20PctRange(f[0], fmt.Sprintf("size=%d step=%d", size, step))
	if size < 1<<40 && size > -(1<<40) && step < 1<<40 {
		tie := size > 0 && step >= 0 && step <= size && (step*200)%size == 0 && (step*200/size)%2 == 1
		if tie {
			c.count("pct:exact-tie")
		}
		c.emit(true, "ppct", c20Runes(f[0]), fmt.Sprint(step), fmt.Sprint(size))
	} else {
		c.count("pct:beyond-2^40-oracle-only")
	}
}

// the four fields of a line rendered with an empty name on a wide terminal
func c20Fields(out string) []string {
	s := c20Strip(out)
	i := strings.Index(s, "]")
	if i < 0 || i+2 > len(s) {
		return nil
	}
	f := strings.Split(s[i+2:], " | ")
	if len(f) != 4 {
		return nil
	}
	return f
}

func (c *ctx) c20PctRange(pct, where string) (int, bool) {
	if !strings.HasSuffix(pct, "%") {
		c.violate("pct-shape", "percentage field does not end in %", where+" pct="+pct)
		return 0, false
	}
	v, err := strconv.Atoi(strings.TrimSuffix(pct, "%"))
	if err != nil || v < 0 || v > 100 || strings.HasPrefix(pct, "-") {
		c.violate("pct-range", "percentage outside 0..100", where+" pct="+pct)
		return 0, false
	}
	return v, true
}

func (c *ctx) c20Text(cols, count, idx int, name string, step, size int64, pct, total, speed, eta, color string) {
	t := c20NewTabs()
	t.addLeft(c, count, idx, name)
	p := trzsz.VerifNewProgress(int32(cols), 0, color)
	p.SetState(count, idx, name, step, size)
	var s string
	res := ""
	strip := "0"
	if color != "" {
		strip = "1"
	}
	where := fmt.Sprintf("columns=%d fileCount=%d fileIdx=%d fileName=%s fileStep=%d fileSize=%d getProgressText(%q,%q,%q,%q)",
		cols, count, idx, c20Runes(name), step, size, pct, total, speed, eta)
	if pan, msg := c20Recover(func() { s = p.GetProgressText(pct, total, speed, eta) }); pan {
		c.violate("panic:getProgressText", "getProgressText panics", where+": panic: "+msg)
		res = "panic"
	} else {
		if color != "" {
			s = c20Strip(s)
		}
		res = c20Runes(s)
		width := c20Width(s)
		// layout classification for the input distribution
		lw := runewidth.StringWidth(name)
		switch {
		case !strings.Contains(s, "░") && !strings.Contains(s, "█"):
			c.count("text:no-bar")
		case strings.Contains(s, eta) && strings.Contains(s, total) && total != "":
			c.count("text:all-fields")
		default:
			c.count("text:fields-dropped")
		}
		if strings.Contains(s, "...") && !strings.Contains(name, "...") {
			c.count("text:ellipsis")
		}
		_ = lw
		if cols >= 5 && len(pct) <= 4 && width > cols {
			c.violate("width:getProgressText", "progress text wider than the terminal",
				fmt.Sprintf("%s: width=%d text=%q", where, width, s))
		}
		if width > cols {
			switch {
			case cols < 4:
				c.count("text:wider-than-columns:columns<4")
			case cols == 4:
				c.count("text:wider-than-columns:columns=4")
			default:
				c.count("text:wider-than-columns:pct-longer-than-4")
			}
		}
	}
	c.emit(true, "ptext", res, fmt.Sprint(cols), fmt.Sprint(count), fmt.Sprint(idx), c20Runes(name), fmt.Sprint(step), fmt.Sprint(size),
		c20Runes(pct), c20Runes(total), c20Runes(speed), c20Runes(eta), t.wArg(), t.swArg(), strip)
}

// one random run of the state machine: the bar under test and a wide probe bar with an
// empty name run in lockstep; the probe shows which total/speed/eta strings the real
// showProgress computed.
func (c *ctx) c20Run(cur *int64, base int64) {
	cols := 1 + c.rng.Intn(200)
	switch c.rng.Intn(8) {
	case 0:
		cols = 1 + c.rng.Intn(30)
	case 1:
		cols = 5
	}
	tmux := 0
	if c.rng.Intn(4) == 0 {
		tmux = []int{-1, 1, 2, 6, 40, 80, 200}[c.rng.Intn(7)]
	}
	color := ""
	if c.rng.Intn(8) == 0 {
		color = "00ffff ff00ff"
	}
	p := trzsz.VerifNewProgress(int32(cols), int32(tmux), color)
	probe := trzsz.VerifNewProgress(2000, 0, "")
	t := c20NewTabs()
	now := base
	*cur = now
	var ops, outs []string
	name := ""
	nfiles := 1 + c.rng.Intn(3)
	count := nfiles
	if c.rng.Intn(4) == 0 {
		count = []int{0, 1, 2, 1000}[c.rng.Intn(4)]
	}
	type opT struct {
		kind string
		z    int64
		s    string
	}
	var plan []opT
	plan = append(plan, opT{"N", int64(count), ""})
	for f := 0; f < nfiles; f++ {
		plan = append(plan, opT{"M", 0, c.c20Name()})
		size := c.c20Size()
		pre := int64(0)
		if c.rng.Intn(4) == 0 && size > 1 { // resumed transfer: as append.go drives it
			plan = append(plan, opT{"Z", size, ""})
			pre = c.rng.Int63n(size)
			for k := 0; k < c.rng.Intn(3); k++ {
				plan = append(plan, opT{"S", c.rng.Int63n(pre + 1), ""})
			}
			plan = append(plan, opT{"P", pre, ""}, opT{"Z", size - pre, ""})
		} else {
			plan = append(plan, opT{"Z", size, ""})
		}
		nsteps := c.rng.Intn(8)
		pos := int64(0)
		for k := 0; k < nsteps; k++ {
			switch c.rng.Intn(10) {
			case 0: // repeat
			case 1: // regression
				if pos > 0 {
					pos -= c.rng.Int63n(pos + 1)
				} else {
					pos--
				}
			case 2: // overshoot
				pos = size - pre + c.rng.Int63n(1000)
			case 3:
				pos = c.c20Step(size)
			case 4:
				plan = append(plan, opT{"U", int64(c.rng.Intn(2)), ""})
			case 5:
				plan = append(plan, opT{"C", int64(1 + c.rng.Intn(250)), ""})
			default:
				if size-pre > pos {
					pos += c.rng.Int63n(size - pre - pos + 1)
				}
			}
			plan = append(plan, opT{"S", pos, ""})
		}
		if c.rng.Intn(5) != 0 {
			plan = append(plan, opT{"D", 0, ""})
		}
	}
	if c.rng.Intn(6) == 0 { // stray calls in odd orders
		extra := []opT{{"D", 0, ""}, {"Z", c.c20Size(), ""}, {"P", c.rng.Int63n(1 << 20), ""}, {"S", c.rng.Int63n(1 << 30), ""}, {"N", int64(c.rng.Intn(5)), ""}}
		for k := 0; k < 1+c.rng.Intn(4); k++ {
			// never before the first onName: the callers always announce a name first, and
			// recentSpeed.getSpeed dereferences the start time that onName sets
			at := 2 + c.rng.Intn(len(plan)-1)
			plan = append(plan[:at], append([]opT{extra[c.rng.Intn(len(extra))]}, plan[at:]...)...)
		}
	}
	first := true
	lastPct := -1
	curCols := cols
	if tmux > 1 {
		curCols = tmux - 1
	}
	desc := fmt.Sprintf("newTextProgressBar(columns=%d, tmuxPaneColumns=%d)", cols, tmux)
	panicked := false
	for _, o := range plan {
		if o.kind == "S" {
			if _, _, _, fsize, pre, _, _ := p.State(); !c20Safe(o.z+pre, fsize) {
				continue
			}
		}
		// time: mostly beyond the redraw throttle, sometimes within it, sometimes no time at all
		switch c.rng.Intn(6) {
		case 0:
			now += int64(c.rng.Intn(200))
		case 1:
		case 2:
			now += 200
		default:
			now += 200 + int64(c.rng.Intn(5000))
		}
		*cur = now
		var opStr string
		call := func(q *trzsz.VerifProgress) {
			switch o.kind {
			case "N":
				if q == p {
					q.OnNum(o.z)
				}
			case "M":
				if q == p {
					q.OnName(o.s)
				} else {
					q.OnName("")
				}
			case "Z":
				q.OnSize(o.z)
			case "S":
				q.OnStep(o.z)
			case "D":
				q.OnDone()
			case "P":
				q.SetPreSize(o.z)
			case "U":
				q.SetPause(o.z == 1)
			case "C":
				if q == p {
					q.SetTerminalColumns(int32(o.z))
				}
			}
		}
		var pout string
		ppan, pmsg := c20Recover(func() { call(probe); pout = probe.TakeOutput() })
		var out string
		pan, msg := c20Recover(func() { call(p); out = p.TakeOutput() })
		desc += fmt.Sprintf(" %s(%d%s)@+%dms", o.kind, o.z, c20Runes(o.s), now-base)
		fields := []string{"", "", "", ""}
		if !ppan && strings.Contains(pout, "]") {
			if f := c20Fields(strings.TrimPrefix(strings.ReplaceAll(pout, "\x1b[?25l", ""), "\r")); f != nil {
				fields = f
			} else {
				c.violate("probe-parse", "cannot find the fields in a 2000 column progress line", desc+fmt.Sprintf(" out=%q", pout))
			}
		}
		switch o.kind {
		case "M":
			name = o.s
			lastPct = -1
			opStr = "M:" + c20Runes(o.s)
		case "S":
			opStr = fmt.Sprintf("S:%d:%d:%s:%s:%s", o.z, now, c20Runes(fields[1]), c20Runes(fields[2]), c20Runes(fields[3]))
		case "D":
			opStr = fmt.Sprintf("D:%d:%s:%s:%s", now, c20Runes(fields[1]), c20Runes(fields[2]), c20Runes(fields[3]))
		case "Z", "P":
			lastPct = -1
			opStr = fmt.Sprintf("%s:%d", o.kind, o.z)
		case "C":
			curCols = int(o.z)
			opStr = fmt.Sprintf("C:%d", o.z)
		default:
			opStr = fmt.Sprintf("%s:%d", o.kind, o.z)
		}
		ops = append(ops, opStr)
		if pan || ppan {
			if !pan {
				msg = pmsg + " (at 2000 columns)"
			}
			c.violate("panic:history", "rendering the progress line panics", desc+": panic: "+msg)
			if !pan {
				return
			}
			outs = append(outs, "panic")
			panicked = true
			break
		}
		cnt, idx, _, _, _, _, _ := p.State()
		t.addLeft(c, cnt, idx, name)
		// split the writes: hide-cursor sequences and at most one progress line
		var parts []string
		rest := out
		for strings.HasPrefix(rest, "\x1b[?25l") {
			parts = append(parts, c20Runes("\x1b[?25l"))
			rest = rest[len("\x1b[?25l"):]
		}
		if rest != "" {
			c.count("run:line-written")
			text := rest
			if !first {
				if strings.HasPrefix(text, "\r") {
					text = text[1:]
					c.count("run:redraw-cr")
				} else if m := regexp.MustCompile(`^\x1b\[-?\d+D`).FindString(text); m != "" {
					text = text[len(m):]
					c.count("run:redraw-cursor-back")
				} else {
					c.violate("redraw-prefix", "a later progress line starts with neither \\r nor a cursor-back sequence", desc+fmt.Sprintf(" out=%q", rest))
				}
			}
			first = false
			if w := c20Width(text); curCols >= 5 && w > curCols {
				c.violate("width:history", "progress line wider than the terminal",
					fmt.Sprintf("%s: columns=%d width=%d line=%q", desc, curCols, w, text))
			}
			if v, ok := c.c20PctRange(fields[0], desc); ok {
				if v < lastPct {
					c.violate("pct-decreased", "percentage decreased within a file", fmt.Sprintf("%s: %d%% after %d%%", desc, v, lastPct))
				}
				lastPct = v
			}
			if !strings.Contains(c20Strip(text), fields[0]) {
				c.violate("pct-missing", "the line does not show the percentage", desc+fmt.Sprintf(" line=%q pct=%s", text, fields[0]))
			}
			if color != "" {
				rest = c20Strip(rest)
			}
			parts = append(parts, c20Runes(rest))
		} else if o.kind == "S" {
			c.count("run:step-not-shown(ignored/throttled/paused)")
		}
		if len(parts) == 0 {
			outs = append(outs, ".")
		} else {
			outs = append(outs, strings.Join(parts, "+"))
		}
	}
	cnt, idx, fstep, fsize, pre, ccols, ctmux := p.State()
	res := strings.Join(outs, "/") + "|" + fmt.Sprintf("%d,%d,%d,%d,%d,%d,%d", fstep, fsize, pre, idx, cnt, ccols, ctmux)
	big := false
	for _, o := range plan {
		if (o.kind == "Z" || o.kind == "S" || o.kind == "P") && (o.z >= 1<<40 || o.z <= -(1<<40)) {
			big = true
		}
	}
	if big && !panicked {
		// beyond 2^40 binary64 and exact rounding may differ: the oracles above applied, no exact comparison
		c.count("run:beyond-2^40-oracle-only")
		return
	}
	strip := "0"
	if color != "" {
		strip = "1"
	}
	c.emit(true, "prun", res, fmt.Sprint(cols), fmt.Sprint(tmux), strings.Join(ops, "/"), t.wArg(), t.swArg(), strip)
}
