package main

// Group "dupnames" (C09; the clause is C08's "with overwrite every destination file equals its
// source" and the premise tr_wf of C01): with overwrite requested, sources whose
// destination-relative names collide are refused before anything is sent.
//
//   A  the real checkDuplicateNames on hand-built scan lists (random relative paths of depth
//      1-3 from small pools, duplicates at random positions, equal / different / empty absolute
//      source paths) against NamesDup.nd_check;
//   B  the real scan + check (checkPathsReadable, checkDuplicateNames: what tsz and the client's
//      upload do) on real source trees: same base name in different directories, the same
//      path twice, directories with a common member, distinct names;
//   C  end to end (real tsz / trz binary, real client filter, -y, both directions, protocols
//      1-4, plain and directory mode): two different sources with one destination name.
//
// Direct oracles (no model): accepted => the joined relative names are pairwise distinct;
// refused => the name in the message is the first one that occurs twice; end to end: either the
// request is refused ("Duplicate name") and the destination is untouched, or every source is
// byte-identical at its destination - never "success" with one source's bytes gone.

import (
	"bytes"
	"encoding/hex"
	"fmt"
	"math/rand"
	"os"
	"path/filepath"
	"sort"
	"strings"
	"time"

	"github.com/trzsz/trzsz-go/trzsz"
)

func init() { groups["dupnames"] = genC09DupNames }

func c09dArg(abs []string, rels [][]string) string {
	var es []string
	for i, r := range rels {
		parts := make([]string, len(r))
		for j, e := range r {
			parts[j] = hex.EncodeToString([]byte(e))
		}
		ra := "!"
		if len(r) > 0 {
			ra = strings.Join(parts, ".")
		}
		es = append(es, hx([]byte(abs[i]))+":"+ra)
	}
	if len(es) == 0 {
		return "-"
	}
	return strings.Join(es, ",")
}

// result of the real function in canonical form, and the model-free oracle
func (c *ctx) c09dJudge(where string, abs []string, rels [][]string, errText string) string {
	joined := make([]string, len(rels))
	for i, r := range rels {
		joined[i] = strings.Join(r, "/")
	}
	firstDup := ""
	seen := map[string]bool{}
	for _, j := range joined {
		if seen[j] {
			firstDup = j
			break
		}
		seen[j] = true
	}
	hasDup := len(seen) != len(joined)
	key := where + ":" + c09dArg(abs, rels)
	if len(key) > 600 {
		key = key[:600]
	}
	if errText == "" {
		if hasDup {
			c09Violate(c, "dup-accepted:"+key, "a scan list with two entries of one destination-relative name was accepted",
				fmt.Sprintf("relative names %q (absolute %q): %q occurs twice", joined, abs, firstDup))
		}
		return "ok"
	}
	const pfx = "Duplicate name: "
	if !strings.HasPrefix(errText, pfx) {
		c09Violate(c, "dup-other-error:"+key, "checkDuplicateNames failed with another error", errText)
		return "dup:?"
	}
	p := strings.TrimPrefix(errText, pfx)
	if !hasDup {
		c09Violate(c, "dup-refused-distinct:"+key, "a scan list with pairwise distinct destination names was refused",
			fmt.Sprintf("relative names %q: refused with %q", joined, errText))
	} else if p != firstDup {
		c09Violate(c, "dup-wrong-name:"+key, "the refusal does not name the first repeated destination name",
			fmt.Sprintf("relative names %q: refused with %q, first repeated %q", joined, errText, firstDup))
	}
	return "dup:" + hx([]byte(p))
}

type c09dE2E struct {
	cfg   e2eCfg
	shape int // 0 one/x.bin two/x.bin; 1 one/conf two/conf (common member); 2 distinct names (control); 3 same path twice
	desc  string
	seed  int64
	viol  string
	note  string
}

func genC09DupNames(c *ctx) {
	// ---- A: hand-built lists
	na := c.pick(600, 6000)
	pool := []string{"a", "b", "x.bin", "conf", "a.0", "ü", "sp ace", "%d", "a%[1]cb"}
	for i := 0; i < na; i++ {
		n := c.rng.Intn(8)
		var abs []string
		var rels [][]string
		for k := 0; k < n; k++ {
			depth := 1 + c.rng.Intn(3)
			if c.rng.Intn(3) > 0 {
				depth = 1
			}
			r := make([]string, depth)
			for j := range r {
				r[j] = pool[c.rng.Intn(4+c.rng.Intn(len(pool)-3))]
			}
			if len(rels) > 0 && c.rng.Intn(4) == 0 { // an earlier relative path again
				r = append([]string(nil), rels[c.rng.Intn(len(rels))]...)
			}
			rels = append(rels, r)
			switch c.rng.Intn(4) {
			case 0:
				abs = append(abs, "/src/same")
			case 1:
				abs = append(abs, "")
			default:
				abs = append(abs, fmt.Sprintf("/src/%d/%s", k, strings.Join(r, "/")))
			}
		}
		errText := trzsz.VerifCheckDuplicateNames(abs, rels)
		res := c.c09dJudge("list", abs, rels, errText)
		c.count("list:" + strings.SplitN(res, ":", 2)[0])
		c.emit(res != "ok", "nd_check", res, c09dArg(abs, rels))
	}

	// ---- B: real scan of real trees
	work, err := os.MkdirTemp("", "c09dupnames")
	if err != nil {
		panic(err)
	}
	defer os.RemoveAll(work)
	nb := c.pick(120, 1200)
	for i := 0; i < nb; i++ {
		root := filepath.Join(work, fmt.Sprint("s", i))
		dirs := []string{"one", "two", "three"}
		names := []string{"x.bin", "conf", "y", "z.txt"}
		var paths []string
		directory := c.rng.Intn(2) == 0
		k := 1 + c.rng.Intn(4)
		for j := 0; j < k; j++ {
			d := dirs[c.rng.Intn(len(dirs))]
			nm := names[c.rng.Intn(len(names))]
			p := filepath.Join(root, d, nm)
			if _, err := os.Lstat(p); err != nil {
				if directory && c.rng.Intn(2) == 0 {
					os.MkdirAll(filepath.Join(p, "sub"), 0755)
					os.WriteFile(filepath.Join(p, names[c.rng.Intn(len(names))]), []byte(d), 0644)
				} else {
					os.MkdirAll(filepath.Dir(p), 0755)
					os.WriteFile(p, []byte(d), 0644)
				}
			}
			paths = append(paths, p)
		}
		abs, rels, scanErr, dupErr := trzsz.VerifScanDuplicate(paths, directory)
		os.RemoveAll(root)
		if scanErr != "" {
			c.count("scan:refused-by-scan") // a directory in plain mode
			continue
		}
		for j := range abs { // the model does not need the temp name
			abs[j] = strings.TrimPrefix(abs[j], work)
		}
		res := c.c09dJudge("scan", abs, rels, dupErr)
		c.count("scan:" + strings.SplitN(res, ":", 2)[0])
		c.emit(res != "ok", "nd_check", res, c09dArg(abs, rels))
	}

	// ---- C: end to end
	ne := c.pick(20, 96)
	protos := []int{0, 2, 3, 4}
	cases := make([]*c09dE2E, ne)
	for i := range cases {
		ec := &c09dE2E{seed: c.rng.Int63(), shape: (i / 8) % 4}
		if i < 16 {
			ec.shape = (i / 8) % 2
		} else {
			ec.shape = 2 + i%2
		}
		ec.cfg = e2eCfg{upload: i%2 == 0, proto: protos[(i/2)%4], directory: ec.shape == 1 || (ec.shape >= 2 && c.rng.Intn(2) == 0),
			overwrite: true, binary: c.rng.Intn(2) == 0, timeout: 10, deadline: 40 * time.Second, quiet: true}
		ec.desc = fmt.Sprintf("%s shape=%d seed=%d", describeCfg(ec.cfg), ec.shape, ec.seed)
		cases[i] = ec
	}
	parallelDo(ne, 8, func(i int) {
		ec := cases[i]
		rng := rand.New(rand.NewSource(ec.seed))
		root := filepath.Join(work, fmt.Sprint("e", i))
		dest := filepath.Join(root, "dest")
		os.MkdirAll(dest, 0755)
		mk := func(rel string, n int) string {
			p := filepath.Join(root, "src", rel)
			os.MkdirAll(filepath.Dir(p), 0755)
			os.WriteFile(p, fillBytes(rng, n, rng.Intn(3)), 0644)
			return p
		}
		var tops []string
		collide := true
		switch ec.shape {
		case 0:
			tops = []string{mk("one/x.bin", 40000), mk("two/x.bin", 25000)}
		case 1:
			mk("one/conf/x.bin", 40000)
			mk("one/conf/only1", 10)
			mk("two/conf/x.bin", 25000)
			tops = []string{filepath.Join(root, "src/one/conf"), filepath.Join(root, "src/two/conf")}
		case 2:
			tops = []string{mk("one/x.bin", 3000), mk("two/y.bin", 2000)}
			collide = false
		case 3:
			p := mk("one/x.bin", 3000)
			tops = []string{p, p}
		}
		r := runTransfer(ec.cfg, tops, dest)
		shown := r.serverOut
		if !ec.cfg.upload {
			shown = r.termOut + r.serverOut
		}
		names, saved := parseSaved(shown)
		all := shown + r.termOut
		if r.uploadErr != nil {
			all += r.uploadErr.Error()
		}
		refused := strings.Contains(all, "Duplicate name")
		ents, _ := os.ReadDir(dest)
		switch {
		case r.hung:
			ec.viol = "hung"
		case refused:
			ec.note = "refused"
			if len(ents) > 0 {
				ec.viol = fmt.Sprintf("refused (Duplicate name) but %d entries were written at the destination", len(ents))
			} else if !collide && ec.shape == 2 {
				ec.viol = "distinct destination names were refused"
			}
		case saved:
			ec.note = fmt.Sprintf("saved %q", names)
			// success: every source must be byte-identical at its destination
			var diffs []string
			for _, t := range tops {
				diffs = append(diffs, sameTree(t, filepath.Join(dest, filepath.Base(t)))...)
			}
			if len(diffs) > 0 {
				ec.viol = fmt.Sprintf("success reported (%q) for sources %q but at the destination: %s", names, c09dRel(root, tops), strings.Join(diffs, "; "))
			}
		default:
			ec.viol = fmt.Sprintf("neither refused nor saved: clientDone=%v serverExited=%v uploadErr=%v tail=%q", r.clientDone, r.serverExited, r.uploadErr, tailStr(all, 200))
		}
		os.RemoveAll(root)
	})
	for _, ec := range cases {
		c.note(true, "dupnames-e2e "+ec.desc+" => "+ec.note)
		c.count(fmt.Sprintf("e2e:shape%d:%s", ec.shape, strings.SplitN(ec.note+" ", " ", 2)[0]))
		if ec.viol != "" {
			c09Violate(c, "dup-overwritten:"+describeCfg(ec.cfg)+fmt.Sprintf(" shape=%d", ec.shape),
				"with overwrite two sources with one destination name must be refused before anything is written (or both arrive)", ec.desc+" :: "+ec.viol)
		}
	}
}

func c09dRel(root string, ps []string) []string {
	out := make([]string, len(ps))
	for i, p := range ps {
		out[i], _ = filepath.Rel(root, p)
	}
	sort.Strings(out)
	return out
}

var _ = bytes.Equal
