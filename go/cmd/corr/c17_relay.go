package main

// C17, group "tunnel-relay": the RELAY's tunnel code (relay.go: listenForTunnel, acceptOnTunnel,
// handleTunnelConn, newTunnelRelay, tunnelRelay.wrapInput / wrapOutput, resetToStandby) on REAL
// sockets on 127.0.0.1 through a REAL trzsz.NewTrzszRelay with SetTunnelConnector.
//
//   rtunnel_rewrite  the real listenForTunnel on a buffer (export)       vs  TunnelRelay.rt_rewrite
//   rtunnel_run      a scenario driven one event at a time: clients       vs  TunnelRelayReplay.rtr_replay (trace
//                    (intruders, genuine, stragglers) on the relay's         replay of the interleaving model,
//                    announced port, a scripted connector and a harness-     fixed scheduler)
//                    owned server behind it, resets, payload both ways
//   rtunnel_e2e      the real filter -> real relay -> real trz / tsz child with the tunnel through the
//                    relay, relayed trigger held back while intruders talk to the relay's port
//
// The relay's tunnel pumps busy-loop for ever once their connection has been closed locally (DESIGN 10.3),
// so every scenario runs in a CHILD process (this binary, group "tunnel-relay-child"): a few scenarios per
// child, the parent kills a child that does not finish in time (watchdog) and reports it.
//
// Direct oracles (c.violate): a client that never presented the hello for (id, relay port) got a byte, or
// had a server connection made on its behalf; a client answered although the server side did not answer
// exactly its hello; an answer other than exactly the relay-port server hello; the server side presented
// anything but exactly the server-port client hello; bytes tagged by one connection arriving on a
// connection of another pair; more than one / an unauthenticated pair adopted; a losing pair not closed;
// the relayed trigger not carrying the relay's port; the e2e transfer failing or not using the tunnel.

import (
	"bytes"
	"context"
	"encoding/json"
	"errors"
	"fmt"
	"io"
	"math/rand"
	"net"
	"os"
	"os/exec"
	"path/filepath"
	"regexp"
	"sort"
	"strconv"
	"strings"
	"sync"
	"sync/atomic"
	"time"

	"github.com/trzsz/trzsz-go/trzsz"
)

func init() {
	groups["tunnel-relay"] = genC17Relay
	groups["tunnel-relay-child"] = genC17RelayChild
}

// ---- the server side of the connections the relay's connector makes ----

const (
	c17rSrvRight = iota
	c17rSrvNil
	c17rSrvWrongID
	c17rSrvRelayPortHello
	c17rSrvExtended
	c17rSrvSplit
	c17rSrvSilent
	c17rSrvCloseNoAnswer
	c17rSrvDead
	c17rSrvEchoClientHello
	c17rNSrv
)

var c17rSrvName = []string{"right", "nil", "wrong-id", "relay-port-hello", "extended", "split", "silent", "close-no-answer", "dead", "echo-client-hello"}

// one more client kind: the greeting a client computes from the port the SERVER announced (what a client
// would send if the relay did not rewrite the trigger)
const c17rKindServerPortHello = c17NKinds

func c17rKindName(k int) string {
	if k == c17rKindServerPortHello {
		return "hello-for-server-port"
	}
	return c17KindName[k]
}

type c17rCountConn struct {
	net.Conn
	errReads atomic.Int64
	lastErr  atomic.Value
}

func (w *c17rCountConn) Read(b []byte) (int, error) {
	n, err := w.Conn.Read(b)
	if err != nil && err != io.EOF && n == 0 {
		w.errReads.Add(1)
		w.lastErr.Store(err)
	}
	return n, err
}

type c17rDial struct {
	port int
	resp chan net.Conn
}

type c17rScenario struct {
	c           *ctx
	rng         *rand.Rand
	relay       *trzsz.TrzszRelay
	uid         string // as the relay knows it (it rewrites "...00" to "...20")
	sport       int
	rport       int
	ln          net.Listener // the harness's server behind the connector
	peers       []*c17Peer   // clients on the relay's port
	kinds       []int
	plans       []int            // server behaviour planned for client i (used if the connector is called for it)
	srvs        map[int]*c17Peer // server-side ends, by client index (peer.conn = the accepted connection)
	wraps       map[int]*c17rCountConn
	dialCh      chan *c17rDial
	mu          sync.Mutex
	evs         []string
	desc        []string
	adopted     int
	everAdopted map[int]bool
	reset       bool
	confirm     int
	dW          *io.PipeWriter
	aW          *io.PipeWriter
	toCli       *verifBuf
	toSrv       *verifBuf
	cliBase     int // length of what the client side had seen in-band when the scenario proper started (the relayed trigger)
	closers     []io.Closer
}

type verifBuf struct {
	mu sync.Mutex
	b  bytes.Buffer
}

func (v *verifBuf) pump(r io.Reader) {
	buf := make([]byte, 32768)
	for {
		n, err := r.Read(buf)
		if n > 0 {
			v.mu.Lock()
			v.b.Write(buf[:n])
			v.mu.Unlock()
		}
		if err != nil {
			return
		}
	}
}

func (v *verifBuf) bytes() []byte {
	v.mu.Lock()
	defer v.mu.Unlock()
	return append([]byte(nil), v.b.Bytes()...)
}

func (sc *c17rScenario) ev(s string) {
	sc.mu.Lock()
	sc.evs = append(sc.evs, s)
	sc.mu.Unlock()
}

func (sc *c17rScenario) describe() string {
	sc.mu.Lock()
	defer sc.mu.Unlock()
	return fmt.Sprintf("uid=%s server-port=%d relay-port=%d clients=[%s] events=%s", sc.uid, sc.sport, sc.rport, strings.Join(sc.desc, " "), c17rEvs(sc.evs))
}

func c17rEvs(evs []string) string {
	if len(evs) == 0 {
		return "-"
	}
	return strings.Join(evs, ",")
}

var c17rTriggerRe = regexp.MustCompile(`::TRZSZ:TRANSFER:[SRD]:\d+\.\d+\.\d+:(\d{13}):(\d+)`)

// c17rStart: a real relay over pipes, a harness server behind its connector, a trigger through it
func c17rStart(c *ctx, rng *rand.Rand) (*c17rScenario, string) {
	ln, err := net.Listen("tcp", "127.0.0.1:0")
	if err != nil {
		return nil, "listen-failed"
	}
	sc := &c17rScenario{c: c, rng: rng, ln: ln, sport: ln.Addr().(*net.TCPAddr).Port, srvs: map[int]*c17Peer{}, wraps: map[int]*c17rCountConn{}, everAdopted: map[int]bool{},
		dialCh: make(chan *c17rDial, 4), adopted: -1, toCli: &verifBuf{}, toSrv: &verifBuf{}}
	aR, aW := io.Pipe()
	bR, bW := io.Pipe()
	cR, cW := io.Pipe()
	dR, dW := io.Pipe()
	sc.aW, sc.dW = aW, dW
	sc.closers = []io.Closer{ln, aW, dW, bR, cR}
	go sc.toCli.pump(bR)
	go sc.toSrv.pump(cR)
	sc.relay = trzsz.NewTrzszRelay(aR, bW, cW, dR, trzsz.TrzszOptions{})
	sc.relay.SetTunnelConnector(func(port int) net.Conn {
		req := &c17rDial{port: port, resp: make(chan net.Conn, 1)}
		select {
		case sc.dialCh <- req:
		case <-time.After(5 * time.Second):
			return nil
		}
		select {
		case conn := <-req.resp:
			return conn
		case <-time.After(5 * time.Second):
			return nil
		}
	})
	uid0 := fmt.Sprintf("%011d00", rng.Int63n(1e11))
	mode := "SRD"[rng.Intn(3)]
	trig := fmt.Sprintf("::TRZSZ:TRANSFER:%c:1.1.8:%s:%d\r\n", mode, uid0, sc.sport)
	go dW.Write([]byte(trig))
	ok := c17WaitUntil(3*time.Second, func() bool {
		m := c17rTriggerRe.FindSubmatch(sc.toCli.bytes())
		return m != nil && bytes.Contains(sc.toCli.bytes(), []byte("\n"))
	})
	seen := sc.toCli.bytes()
	if !ok {
		c.violate("tunnel-relay:no-relayed-trigger", "the relay did not pass a trigger on to the client", fmt.Sprintf("fed %q, client side saw %q", trig, seen))
		sc.finish()
		return nil, "no-trigger"
	}
	m := c17rTriggerRe.FindSubmatch(seen)
	sc.uid = string(m[1])
	sc.rport, _ = strconv.Atoi(string(m[2]))
	if sc.rport == sc.sport || !trzsz.VerifRelayTunnelListening(sc.relay) {
		c.violate("tunnel-relay:trigger-not-rewritten", "the relayed trigger does not carry a port of the relay's own (the genuine client's greeting cannot match)",
			fmt.Sprintf("fed %q, client side saw %q, listening=%v", trig, seen, trzsz.VerifRelayTunnelListening(sc.relay)))
		sc.finish()
		return nil, "not-rewritten"
	}
	sc.cliBase = len(sc.toCli.bytes())
	if sc.uid[:11] != uid0[:11] {
		c.violate("tunnel-relay:trigger-id-changed", "the relayed trigger carries another id", fmt.Sprintf("fed %q, client side saw %q", trig, seen))
	}
	return sc, ""
}

func (sc *c17rScenario) finish() {
	for _, p := range sc.peers {
		p.end()
	}
	for _, p := range sc.srvs {
		p.end()
	}
	for _, cl := range sc.closers {
		cl.Close()
	}
}

func (sc *c17rScenario) refreshAdopted() {
	remote, _ := trzsz.VerifRelayAdopted(sc.relay)
	sc.adopted = -1
	if remote == "" {
		return
	}
	sc.adopted = -2
	for _, p := range sc.peers {
		if p.local == remote {
			sc.adopted = p.idx
			sc.everAdopted[p.idx] = true
		}
	}
}

func (sc *c17rScenario) connect(kind, plan int) *c17Peer {
	p := c17Dial(sc.rport, len(sc.peers))
	sc.peers = append(sc.peers, p)
	sc.kinds = append(sc.kinds, kind)
	sc.plans = append(sc.plans, plan)
	sc.ev("c")
	return p
}

func (sc *c17rScenario) hellos() (ch1, sh4, ch2, sh3 string) {
	ch1, sh4 = trzsz.VerifGetHelloConstant(sc.uid, sc.rport)
	ch2, sh3 = trzsz.VerifGetHelloConstant(sc.uid, sc.sport)
	return
}

// all earlier connections have been accepted once a later one has been handled (FIFO backlog)
func (sc *c17rScenario) confirmAccepted() {
	if sc.confirm >= len(sc.peers) || sc.adopted != -1 {
		return
	}
	p := sc.connect(c17Wrong, c17rSrvNil)
	sc.mu.Lock()
	sc.desc = append(sc.desc, "probe")
	sc.mu.Unlock()
	if p.refused {
		return
	}
	sc.writeClient(p, []byte("probe"))
	sc.confirm = len(sc.peers)
}

func (sc *c17rScenario) waitListenerClosed() {
	c17WaitUntil(3*time.Second, func() bool {
		probe, err := net.DialTimeout("tcp", "127.0.0.1:"+strconv.Itoa(sc.rport), time.Second)
		if err != nil {
			return true
		}
		probe.Close()
		return false
	})
}

// serve: the connector has been called for client p: play the planned server
func (sc *c17rScenario) serve(p *c17Peer, req *c17rDial) {
	_, _, ch2, sh3 := sc.hellos()
	plan := sc.plans[p.idx]
	if req.port != sc.sport {
		sc.c.violate("tunnel-relay:connector-port", "the relay called the connector with a port other than the one the server announced",
			fmt.Sprintf("called with %d :: %s", req.port, sc.describe()))
	}
	if plan == c17rSrvNil {
		sc.ev(fmt.Sprintf("d%d:n", p.idx))
		req.resp <- nil
		return
	}
	type acc struct {
		conn net.Conn
		err  error
	}
	ach := make(chan acc, 1)
	go func() { c, e := sc.ln.Accept(); ach <- acc{c, e} }()
	conn, err := net.DialTimeout("tcp", "127.0.0.1:"+strconv.Itoa(sc.sport), 2*time.Second)
	if err != nil {
		sc.ev(fmt.Sprintf("d%d:n", p.idx))
		req.resp <- nil
		return
	}
	a := <-ach
	if a.err != nil {
		conn.Close()
		sc.ev(fmt.Sprintf("d%d:n", p.idx))
		req.resp <- nil
		return
	}
	// the server-side end, observed like a client's far end
	sp := &c17Peer{idx: p.idx, conn: a.conn, local: a.conn.RemoteAddr().String()}
	go func() {
		buf := make([]byte, 65536)
		for {
			n, err := a.conn.Read(buf)
			sp.mu.Lock()
			if n > 0 {
				sp.got = append(sp.got, buf[:n]...)
			}
			if err != nil {
				sp.closed = true
				sp.mu.Unlock()
				return
			}
			sp.mu.Unlock()
		}
	}()
	sc.srvs[p.idx] = sp
	w := &c17rCountConn{Conn: conn}
	sc.wraps[p.idx] = w
	sc.ev(fmt.Sprintf("d%d:c", p.idx))
	if plan == c17rSrvDead {
		sp.end()
		sc.ev(fmt.Sprintf("X%d", p.idx))
		time.Sleep(2 * time.Millisecond)
		req.resp <- w
		return
	}
	req.resp <- w
	// the relay presents its hello
	c17WaitUntil(3*time.Second, func() bool { g, cl := sp.state(); return len(g) >= len(ch2) || cl })
	other := sc.uid
	for other[:11] == sc.uid[:11] {
		other = c17RandID(sc.rng)
	}
	_, sh3Other := trzsz.VerifGetHelloConstant(other, sc.sport)
	_, sh4 := trzsz.VerifGetHelloConstant(sc.uid, sc.rport)
	write := func(b []byte) {
		sp.write(b)
		sc.ev(fmt.Sprintf("W%d:%s", p.idx, hx(b)))
	}
	switch plan {
	case c17rSrvRight:
		write([]byte(sh3))
	case c17rSrvWrongID:
		write([]byte(sh3Other))
	case c17rSrvRelayPortHello:
		write([]byte(sh4))
	case c17rSrvExtended:
		write([]byte(sh3 + []string{"\n", "X", sh3}[sc.rng.Intn(3)]))
	case c17rSrvSplit:
		k := 1 + sc.rng.Intn(len(sh3)-1)
		write([]byte(sh3[:k]))
		c17WaitUntil(3*time.Second, func() bool { _, cl := sp.state(); return cl }) // the relay reads once: it must give up on the first part
		write([]byte(sh3[k:]))
	case c17rSrvEchoClientHello:
		write([]byte(ch2))
	case c17rSrvCloseNoAnswer:
		sp.end()
		sc.ev(fmt.Sprintf("X%d", p.idx))
	case c17rSrvSilent:
	}
}

// writeClient: one write of a client's far end, then let the relay react (close, or call the connector …)
func (sc *c17rScenario) writeClient(p *c17Peer, b []byte) {
	if p.refused || p.selfEnd {
		return
	}
	ch1, _, _, _ := sc.hellos()
	first := len(p.sent) == 0
	if first && sc.adopted == -1 && string(b) == ch1 {
		sc.confirmAccepted()
	}
	p.write(b)
	sc.ev(fmt.Sprintf("w%d:%s", p.idx, hx(b)))
	if !first {
		time.Sleep(3 * time.Millisecond)
		return
	}
	// the handler reads once: it closes the connection, or calls the connector
	var req *c17rDial
	c17WaitUntil(3*time.Second, func() bool {
		if _, cl := p.state(); cl {
			return true
		}
		select {
		case req = <-sc.dialCh:
			return true
		default:
			return false
		}
	})
	if req == nil {
		select { // a connector call right behind the close would be a violation; give it a moment
		case req = <-sc.dialCh:
		case <-time.After(2 * time.Millisecond):
		}
	}
	if req == nil {
		return
	}
	if string(b) != ch1 && !(len(b) > 100 && string(b[:100]) == ch1) {
		sc.c.violate("tunnel-relay:connector-called-for-intruder:"+c17rKindName(sc.kinds[p.idx]),
			"the relay called the connector (opened a connection to the server) on behalf of a client whose first read was not the hello for (id, relay port)",
			fmt.Sprintf("conn=%d first write=%q :: %s", p.idx, c17Short(b), sc.describe()))
	}
	sc.serve(p, req)
	if sc.plans[p.idx] == c17rSrvSilent {
		time.Sleep(20 * time.Millisecond)
		return
	}
	// the outcome: the client is answered or closed
	p.waitResponse(3 * time.Second)
	if g, _ := p.state(); len(g) > 0 {
		// answered: it wins (adopted; listener closed) or loses (both closed)
		c17WaitUntil(3*time.Second, func() bool {
			remote, _ := trzsz.VerifRelayAdopted(sc.relay)
			_, cl := p.state()
			return remote == p.local || cl
		})
		before := sc.adopted
		sc.refreshAdopted()
		if before >= 0 && sc.adopted != before {
			// no reset in between (a reset refreshes sc.adopted itself)
			sc.c.violate("tunnel-relay:second-adoption", "tunnelRelay held a pair and now holds another one although the relay was not reset in between",
				fmt.Sprintf("was %d, now %d :: %s", before, sc.adopted, sc.describe()))
		}
		if sc.adopted == p.idx && before != p.idx {
			sc.waitListenerClosed()
		} else if sp := sc.srvs[p.idx]; sp != nil {
			c17WaitUntil(2*time.Second, func() bool { _, cl := sp.state(); return cl })
		}
	} else if sp := sc.srvs[p.idx]; sp != nil {
		c17WaitUntil(2*time.Second, func() bool { _, cl := sp.state(); return cl })
	}
}

func (sc *c17rScenario) closeClient(p *c17Peer) {
	if p.refused || p.selfEnd {
		return
	}
	p.end()
	sc.ev(fmt.Sprintf("x%d", p.idx))
	time.Sleep(3 * time.Millisecond)
}

// doReset: the relay's own handshake fails on a junk line that arrives in-band (the client's terminal): FAIL both
// ways, flushHandshakeBuffer(false), resetToStandby(kRelayHandshaking).  (The relay is handshaking from the trigger on.)
func (sc *c17rScenario) doReset() {
	sc.inband(0, []byte("@@\n"))
	sc.ev("hA000")
	standby := trzsz.VerifRelayStatusConsts()[0]
	c17WaitUntil(3*time.Second, func() bool { return trzsz.VerifRelayStatus(sc.relay) == standby })
	sc.reset = true
	// a pump that has seen io.EOF polls the back-pointer every 50 ms
	time.Sleep(130 * time.Millisecond)
	sc.refreshAdopted()
}

// inband: bytes arrive in-band: dir 0 = typed at the client's terminal (the relay's clientIn), dir 1 = printed by
// the server (the relay's serverOut).  io.Pipe: the write returns when the relay's pump has taken them.
func (sc *c17rScenario) inband(dir int, b []byte) {
	if dir == 0 {
		sc.aW.Write(b)
	} else {
		sc.dW.Write(b)
	}
	sc.ev(fmt.Sprintf("i%d:%s", dir, hx(b)))
}

// c17rCanon: the lines the relay writes itself (it re-encodes the ACT and the CFG, and words its FAIL) are
// compared as tokens
var c17rLineRe = regexp.MustCompile(`#(ACT|CFG|FAIL|fail):[^\n]*\n`)

func c17rCanon(b []byte) []byte {
	return c17rLineRe.ReplaceAll(b, []byte("#$1\n"))
}

func c17rObs(p *c17Peer) string {
	if p == nil {
		return "-"
	}
	if p.refused {
		return "X"
	}
	g, c := p.state()
	if p.selfEnd {
		// what arrived on an end the harness closed itself depends on when it stopped reading: not compared
		return "P"
	}
	g = c17rCanon(g)
	if len(g) > 0 {
		if c {
			return "R" + hx(g) + "C"
		}
		return "R" + hx(g)
	}
	if c {
		return "C"
	}
	return "O"
}

func (sc *c17rScenario) oracles(tag string) {
	ch1, sh4, ch2, _ := sc.hellos()
	for _, p := range sc.peers {
		g, closed := p.state()
		kind := c17rKindName(sc.kinds[p.idx])
		fr := p.first
		if len(fr) > 100 {
			fr = fr[:100]
		}
		auth := string(fr) == ch1
		srvOK := false
		sp := sc.srvs[p.idx]
		if sp != nil {
			srvOK = sc.plans[p.idx] == c17rSrvRight
		}
		if len(g) > 0 && !auth {
			sc.c.violate("tunnel-relay:intruder-answered:"+kind, "a client whose first read was not exactly the hello for (id, relay port) received bytes from the relay",
				fmt.Sprintf("%s conn=%d sent=%q received=%q :: %s", tag, p.idx, c17Short(p.sent), c17Short(g), sc.describe()))
		}
		if sp != nil && !auth {
			sc.c.violate("tunnel-relay:server-dialled-for-intruder:"+kind, "a server connection exists for a client that never presented the hello",
				fmt.Sprintf("%s conn=%d :: %s", tag, p.idx, sc.describe()))
		}
		if len(g) > 0 && !srvOK {
			sc.c.violate("tunnel-relay:answered-before-server:"+c17rSrvName[sc.plans[p.idx]], "a client was answered although the server side had not answered exactly the hello for (id, server port)",
				fmt.Sprintf("%s conn=%d server plan=%s received=%q :: %s", tag, p.idx, c17rSrvName[sc.plans[p.idx]], c17Short(g), sc.describe()))
		}
		if len(g) > 0 && !bytes.HasPrefix(g, []byte(sh4)) {
			sc.c.violate("tunnel-relay:answer-not-hello:"+kind, "what the relay wrote to a client does not begin with exactly the server hello for (id, relay port)",
				fmt.Sprintf("%s conn=%d received=%q :: %s", tag, p.idx, c17Short(g), sc.describe()))
		}
		if sp != nil {
			sg, _ := sp.state()
			if len(sg) > 0 && !bytes.HasPrefix(sg, []byte(ch2)) {
				sc.c.violate("tunnel-relay:relay-hello-wrong", "the relay presented the server something other than the client hello for (id, server port)",
					fmt.Sprintf("%s conn=%d server received %q :: %s", tag, p.idx, c17Short(sg), sc.describe()))
			}
		}
		if p.idx == sc.adopted && !(auth && srvOK) {
			sc.c.violate("tunnel-relay:unauthenticated-adopted:"+kind, "tunnelRelay holds a pair that is not authenticated on both sides",
				fmt.Sprintf("%s conn=%d server plan=%s :: %s", tag, p.idx, c17rSrvName[sc.plans[p.idx]], sc.describe()))
		}
		if len(g) > 0 && p.idx != sc.adopted && !sc.everAdopted[p.idx] && !closed && !p.selfEnd {
			sc.c.violate("tunnel-relay:losing-pair-not-closed", "a pair that was answered but never adopted has not been closed by the relay",
				fmt.Sprintf("%s conn=%d :: %s", tag, p.idx, sc.describe()))
		}
		if !auth && len(p.sent) > 0 && !closed && !p.selfEnd && !p.refused {
			sc.c.violate("tunnel-relay:intruder-not-closed:"+kind, "a client that presented something else than the hello was not closed",
				fmt.Sprintf("%s conn=%d sent=%q :: %s", tag, p.idx, c17Short(p.sent), sc.describe()))
		}
		// payload tags: <Ci> is written by client i, <Si> by the server side of pair i
		for _, q := range sc.peers {
			if q.idx == p.idx {
				continue
			}
			if bytes.Contains(g, []byte(fmt.Sprintf("<S%d>", q.idx))) || bytes.Contains(g, []byte(fmt.Sprintf("<C%d>", q.idx))) {
				sc.c.violate("tunnel-relay:foreign-bytes:client", "bytes of another pair reached a client connection",
					fmt.Sprintf("%s conn=%d received=%q :: %s", tag, p.idx, c17Short(g), sc.describe()))
			}
			if sp != nil {
				sg, _ := sp.state()
				if bytes.Contains(sg, []byte(fmt.Sprintf("<C%d>", q.idx))) || bytes.Contains(sg, []byte(fmt.Sprintf("<S%d>", q.idx))) {
					sc.c.violate("tunnel-relay:foreign-bytes:server", "bytes of another pair reached a server connection",
						fmt.Sprintf("%s conn=%d server received=%q :: %s", tag, p.idx, c17Short(sg), sc.describe()))
				}
			}
		}
	}
	if sc.adopted == -2 {
		sc.c.violate("tunnel-relay:unknown-adopted", "tunnelRelay holds a connection that is none of the harness's", tag+" :: "+sc.describe())
	}
	for _, b := range [][]byte{sc.toCli.bytes(), sc.toSrv.bytes()} {
		if bytes.Contains(b, []byte("<C")) || bytes.Contains(b, []byte("<S")) {
			// parked bytes are flushed in-band only by a handshake, which these scenarios never run
			sc.c.violate("tunnel-relay:tunnel-bytes-in-band", "bytes written on a tunnel connection appeared on the relay's in-band streams", tag+" :: "+sc.describe())
		}
	}
}

// one sequential scenario: emits an rtunnel_run case
func c17rSequential(c *ctx, seed int64, forced [][2]int, forcedEnd int, prog *c17rProgress) *c17Line {
	rng := rand.New(rand.NewSource(seed))
	sc, note := c17rStart(c, rng)
	if sc == nil {
		c.count(note)
		return nil
	}
	prog.set(sc)
	defer sc.finish()
	type todo struct {
		kind, plan int
		peer       *c17Peer
		steps      [][]byte // nil entry = close
		conn       bool
	}
	plans := forced
	if plans == nil {
		n := 1 + rng.Intn(5)
		for i := 0; i < n; i++ {
			k := rng.Intn(c17NKinds + 1)
			if rng.Intn(2) == 0 {
				k = c17Right
			}
			pl := rng.Intn(c17rNSrv)
			if rng.Intn(2) == 0 {
				pl = c17rSrvRight
			}
			plans = append(plans, [2]int{k, pl})
		}
	}
	_, _, ch2, _ := sc.hellos()
	var todos []*todo
	for _, kp := range plans {
		t := &todo{kind: kp[0], plan: kp[1]}
		if t.kind == c17rKindServerPortHello {
			t.steps = [][]byte{[]byte(ch2)}
		} else {
			t.steps = c17Script(rng, t.kind, sc.uid, sc.rport)
		}
		if t.kind == c17CloseNow {
			t.steps = append(t.steps, nil)
		} else if rng.Intn(6) == 0 {
			t.steps = append(t.steps, nil)
		}
		todos = append(todos, t)
		sc.mu.Lock()
		sc.desc = append(sc.desc, c17rKindName(t.kind)+"/"+c17rSrvName[t.plan])
		sc.mu.Unlock()
		c.count("kind:" + c17rKindName(t.kind))
		c.count("server:" + c17rSrvName[t.plan])
	}
	if rng.Intn(10) == 0 { // SetTunnelConnector(nil) before anybody is handled: everybody is closed unanswered
		sc.relay.SetTunnelConnector(nil)
		sc.ev("k0")
		c.count("connector-removed")
	}
	live := append([]*todo(nil), todos...)
	for len(live) > 0 {
		i := rng.Intn(len(live))
		t := live[i]
		switch {
		case !t.conn:
			t.peer = sc.connect(t.kind, t.plan)
			t.conn = true
			time.Sleep(time.Millisecond)
		case len(t.steps) > 0:
			s := t.steps[0]
			t.steps = t.steps[1:]
			if s == nil {
				if t.peer.idx != sc.adopted {
					sc.closeClient(t.peer)
				}
			} else {
				sc.writeClient(t.peer, s)
			}
		}
		if t.conn && len(t.steps) == 0 {
			live = append(live[:i], live[i+1:]...)
		}
	}
	sc.refreshAdopted()
	endgame := rng.Intn(4)
	if forcedEnd >= 0 {
		endgame = forcedEnd
	}
	// payload: while the relay is handshaking what the adopted client sends is parked, not forwarded (only in
	// scenarios without a reset: whether the pump has read it before the reset would be a matter of timing)
	if a := sc.adopted; a >= 0 && endgame == 0 {
		sc.writeClient(sc.peers[a], []byte(fmt.Sprintf("<C%d>parked", a))) // no newline: a complete line would be read by the relay's own handshake goroutine
		c.count("parked-payload")
	}
	for _, p := range sc.peers { // intruders and losers keep talking
		if p.idx != sc.adopted && !p.refused && !p.selfEnd && rng.Intn(2) == 0 {
			if _, cl := p.state(); !cl {
				sc.writeClient(p, []byte(fmt.Sprintf("<C%d>junk", p.idx)))
			}
		}
	}
	if endgame >= 1 {
		first := sc.adopted
		sc.doReset()
		c.count("reset")
		// after the reset the old bridge forwards both ways (no back-pointer: nothing is parked)
		if first >= 0 {
			p, sp := sc.peers[first], sc.srvs[first]
			b := []byte(fmt.Sprintf("<C%d>after-reset\n", first))
			nb := 0
			if sp != nil {
				g, _ := sp.state()
				nb = len(g)
			}
			sc.writeClient(p, b)
			if sp != nil {
				c17WaitUntil(2*time.Second, func() bool { g, _ := sp.state(); return len(g) >= nb+len(b) })
				b2 := []byte(fmt.Sprintf("<S%d>back\n", first))
				g0, _ := p.state()
				sp.write(b2)
				sc.ev(fmt.Sprintf("W%d:%s", first, hx(b2)))
				c17WaitUntil(2*time.Second, func() bool { g, _ := p.state(); return len(g) >= len(g0)+len(b2) })
			}
		}
		// a straggler that greets only now still finds tunnelRelay == nil
		if endgame == 2 {
			for _, p := range sc.peers {
				if len(p.sent) == 0 && !p.refused && !p.selfEnd {
					if _, cl := p.state(); !cl {
						ch1, _, _, _ := sc.hellos()
						sc.writeClient(p, []byte(ch1))
						c.count("greeting-after-reset")
						break
					}
				}
			}
			sc.refreshAdopted()
			if sc.adopted >= 0 && sc.adopted != first {
				c.count("second-bridge-after-reset")
			}
		}
		if endgame == 3 && first >= 0 {
			// the session ends: the client goes away; its pump leaves, the writer closes the server connection
			sc.closeClient(sc.peers[first])
			if sp := sc.srvs[first]; sp != nil {
				c17WaitUntil(2*time.Second, func() bool { _, cl := sp.state(); return cl })
			}
			c.count("client-left-after-reset")
		}
	}
	time.Sleep(time.Duration(c.pick(25, 50)) * time.Millisecond)
	sc.refreshAdopted()
	var cobs, sobs []string
	for _, p := range sc.peers {
		cobs = append(cobs, c17rObs(p))
		sobs = append(sobs, c17rObs(sc.srvs[p.idx]))
	}
	ad := "-"
	if sc.adopted >= 0 {
		ad = strconv.Itoa(sc.adopted)
	} else if sc.adopted == -2 {
		ad = "?"
	}
	result := strings.Join(cobs, ",") + "|s=" + strings.Join(sobs, ",") + "|a=" + ad
	sc.oracles("sequential")
	nAns := 0
	for _, p := range sc.peers {
		if g, _ := p.state(); len(g) > 0 {
			nAns++
		}
	}
	if nAns >= 2 {
		c.count("losing-authenticated-pair")
	}
	c.count("adopted:" + strconv.FormatBool(sc.adopted >= 0))
	// observation (outside the listed properties): a pump spinning on a connection the relay closed itself
	for i, w := range sc.wraps {
		if n := w.errReads.Load(); n > 200 {
			what := "other"
			if e, ok := w.lastErr.Load().(error); ok && errors.Is(e, net.ErrClosed) {
				what = "net.ErrClosed (use of closed network connection)"
			}
			c.count("observation:busy-loop tunnelRelay.wrapOutput: serverConn.Read returns 0, " + what + " for ever")
			_ = i
		}
	}
	sc.mu.Lock()
	evs := c17rEvs(sc.evs)
	sc.mu.Unlock()
	return &c17Line{true, "rtunnel_run", result, []string{hx([]byte(sc.uid)), strconv.Itoa(sc.sport), strconv.Itoa(sc.rport), evs}}
}

// ---- in-band bytes at every point of the relay's handshake ----

type c17rHsPlan struct {
	est       bool // the tunnel is established first (a genuine client, a right server)
	actTunnel bool // the client's ACT travels through the tunnel (needs est)
	tun       bool // the ACT's tunnel field (true needs est)
	confirm   bool
	junk      bool       // a junk line instead of the ACT: the relay's handshake fails
	typed     [4][2]bool // phase A (before the ACT), B (between ACT and CFG), C (after the CFG), D (after the reset) x {keys typed at the client, noise printed by the server}
	exit      int        // 0 none, 1 "#EXIT:" from the client through the tunnel, 2 "#EXIT:" typed in-band
	// segments on the TUNNEL connections around the handshake lines (only in sessions whose ACT travels through an
	// agreed tunnel): [0] the ACT's segment carries trailing bytes, [1] a further client segment arrives between ACT
	// and CFG, [2] the CFG's segment carries trailing bytes, [3] a further server segment follows it at once,
	// [4] one more segment each way once the relay is transferring
	seg [5]bool
}

func (pl c17rHsPlan) String() string {
	b := func(v bool) string {
		if v {
			return "1"
		}
		return "0"
	}
	t := ""
	for ph := 0; ph < 4; ph++ {
		t += b(pl.typed[ph][0]) + b(pl.typed[ph][1])
	}
	sg := ""
	for _, v := range pl.seg {
		sg += b(v)
	}
	return fmt.Sprintf("est=%s act-through-tunnel=%s tunnel=%s confirm=%s junk=%s typed(AkAnBkBnCkCnDkDn)=%s exit=%d tunnel-segments(act-trailer,client-mid-handshake,cfg-trailer,server-after-cfg,both-after)=%s",
		b(pl.est), b(pl.actTunnel), b(pl.tun), b(pl.confirm), b(pl.junk), t, pl.exit, sg)
}

func c17rJSONLine(typ string, m map[string]any) []byte {
	js, _ := json.Marshal(m)
	return append(encodeLine(typ, js), '\n')
}

// c17rHandshake: one scenario around the relay's own ACT/CFG handshake; emits an rtunnel_hs case
func c17rHandshake(c *ctx, seed int64, pl c17rHsPlan, prog *c17rProgress) *c17Line {
	rng := rand.New(rand.NewSource(seed))
	sc, note := c17rStart(c, rng)
	if sc == nil {
		c.count(note)
		return nil
	}
	prog.set(sc)
	defer sc.finish()
	sc.mu.Lock()
	sc.desc = append(sc.desc, "handshake{"+pl.String()+"}")
	sc.mu.Unlock()
	phaseName := []string{"before-ACT", "between-ACT-and-CFG", "after-CFG", "after-reset"}
	var typedAt [4][2][]byte
	typeNow := func(ph int) {
		for dir := 0; dir < 2; dir++ {
			if pl.typed[ph][dir] {
				// no newline and no '#': a complete line would be read by the relay's handshake goroutine
				b := []byte(fmt.Sprintf("<%s%c>%s\r", []string{"K", "N"}[dir], 'A'+ph, []string{"ls -l", "echo hi", "\x1b[0m$ ", "q"}[rng.Intn(4)]))
				typedAt[ph][dir] = b
				sc.inband(dir, b)
				c.count("typed:" + phaseName[ph] + ":" + []string{"keys", "noise"}[dir])
			}
		}
	}
	typeNow(0)
	g := -1
	if pl.est {
		p := sc.connect(c17Right, c17rSrvRight)
		sc.mu.Lock()
		sc.desc = append(sc.desc, "GENUINE")
		sc.mu.Unlock()
		ch1, _, _, _ := sc.hellos()
		sc.writeClient(p, []byte(ch1))
		sc.refreshAdopted()
		if sc.adopted != p.idx {
			c.violate("tunnel-relay:genuine-not-adopted", "a genuine client and a right server did not end up in tunnelRelay", sc.describe())
			return nil
		}
		g = p.idx
	}
	viaTunnel := pl.tun && pl.est // where the relay's own lines travel once the ACT has been read
	srvSees := func() []byte {
		if viaTunnel {
			got, _ := sc.srvs[g].state()
			return got
		}
		return sc.toSrv.bytes()
	}
	cliSees := func() []byte {
		if viaTunnel {
			got, _ := sc.peers[g].state()
			return got
		}
		return sc.toCli.bytes()[sc.cliBase:]
	}
	// the ACT
	line := c17rJSONLine("ACT", map[string]any{"lang": "go", "version": "1.1.8", "confirm": pl.confirm, "newline": "\n", "protocol": 4,
		"binary": true, "support_dir": true, "tunnel": pl.tun})
	if pl.junk {
		line = []byte("@@junk@@\n")
	}
	// what each end writes on its tunnel connection after its handshake line: the other end must receive exactly that
	var cliSent, srvSent []byte
	segs := viaTunnel && pl.actTunnel && g >= 0 && !pl.junk
	cliWrite := func(b []byte) {
		sc.peers[g].write(b)
		sc.ev(fmt.Sprintf("w%d:%s", g, hx(b)))
	}
	srvWrite := func(b []byte) {
		sc.srvs[g].write(b)
		sc.ev(fmt.Sprintf("W%d:%s", g, hx(b)))
	}
	if pl.actTunnel && g >= 0 {
		if segs && pl.seg[0] { // no newline, no '#': the rest of the ACT's chunk stays in the relay's handshake queue
			tr := []byte("<TA>AAA-after-the-ACT-line.")
			line = append(line, tr...)
			cliSent = append(cliSent, tr...)
			c.count("segment:act-trailer")
		}
		cliWrite(line)
	} else {
		sc.inband(0, line)
	}
	b2 := func(v bool) string {
		if v {
			return "1"
		}
		return "0"
	}
	standby := trzsz.VerifRelayStatusConsts()[0]
	waitStandby := func() bool {
		return c17WaitUntil(3*time.Second, func() bool { return trzsz.VerifRelayStatus(sc.relay) == standby })
	}
	done := false
	if pl.junk {
		sc.ev("hA000")
		if !waitStandby() {
			c.violate("tunnel-relay:handshake-stuck:junk", "the relay did not return to standby after a junk line", sc.describe())
		}
		done = true
	} else {
		sc.ev("hA1" + b2(pl.tun) + b2(pl.confirm))
		if !c17WaitUntil(3*time.Second, func() bool { return bytes.Contains(srvSees(), []byte("#ACT:")) }) {
			c.violate("tunnel-relay:handshake-stuck:act", "the relay did not pass the ACT on to the server", sc.describe())
			return nil
		}
	}
	if !done && !pl.confirm {
		if !waitStandby() {
			c.violate("tunnel-relay:handshake-stuck:unconfirmed", "the relay did not return to standby after an ACT without confirm", sc.describe())
		}
		done = true
	}
	if !done {
		typeNow(1)
		if segs && pl.seg[1] { // the relay has passed the ACT on: this segment arrives inside its handshake
			b := []byte("<TB>BBB-between-ACT-and-CFG.")
			cliWrite(b)
			cliSent = append(cliSent, b...)
			c.count("segment:client-mid-handshake")
			time.Sleep(25 * time.Millisecond)
		}
		cfg := c17rJSONLine("CFG", map[string]any{"lang": "go", "version": "1.1.8", "binary": true, "bufsize": 10240, "timeout": 20, "protocol": 4})
		if viaTunnel {
			if segs && pl.seg[2] {
				tr := []byte("<SC>SSS-after-the-CFG-line.")
				cfg = append(cfg, tr...)
				srvSent = append(srvSent, tr...)
				c.count("segment:cfg-trailer")
			}
			srvWrite(cfg)
		} else {
			sc.inband(1, cfg)
		}
		sc.ev("hC1")
		if segs && pl.seg[3] {
			b := []byte("<SD>TTT-right-behind-the-CFG.")
			srvWrite(b)
			srvSent = append(srvSent, b...)
			c.count("segment:server-after-cfg")
		}
		if !c17WaitUntil(3*time.Second, func() bool { return bytes.Contains(cliSees(), []byte("#CFG:")) }) {
			c.violate("tunnel-relay:handshake-stuck:cfg", "the relay did not pass the CFG on to the client", sc.describe())
			return nil
		}
		transferring := trzsz.VerifRelayStatusConsts()[2]
		c17WaitUntil(3*time.Second, func() bool { return trzsz.VerifRelayStatus(sc.relay) == transferring })
		typeNow(2)
		if segs && pl.seg[4] {
			b1, b2 := []byte("<TC>CCC-while-transferring."), []byte("<SE>UUU-while-transferring.")
			cliWrite(b1)
			cliSent = append(cliSent, b1...)
			srvWrite(b2)
			srvSent = append(srvSent, b2...)
			c.count("segment:both-after")
			time.Sleep(5 * time.Millisecond)
		}
		switch pl.exit {
		case 1:
			if g >= 0 {
				ex := []byte("#EXIT:eJwDAAAAAAE=\n")
				sc.peers[g].write(ex)
				if viaTunnel {
					cliSent = append(cliSent, ex...)
				}
				sc.ev(fmt.Sprintf("w%d:%s", g, hx(ex)))
				sc.ev("r")
				waitStandby()
				done = true
			}
		case 2:
			sc.inband(0, []byte("#EXIT:eJwDAAAAAAE=\n"))
			sc.ev("r")
			waitStandby()
			done = true
		}
	}
	if done {
		sc.reset = true
		time.Sleep(60 * time.Millisecond)
		typeNow(3)
	}
	time.Sleep(time.Duration(c.pick(25, 50)) * time.Millisecond)
	sc.refreshAdopted()
	// direct oracles: what was typed in-band once the tunnel was agreed never shows up on a tunnel connection, and is passed on in-band
	toSrv, toCli := sc.toSrv.bytes(), sc.toCli.bytes()[sc.cliBase:]
	for ph := 0; ph < 4; ph++ {
		for dir := 0; dir < 2; dir++ {
			b := typedAt[ph][dir]
			if b == nil {
				continue
			}
			onTunnel := ""
			for _, p := range sc.peers {
				if got, _ := p.state(); bytes.Contains(got, b[:4]) {
					onTunnel = fmt.Sprintf("client connection %d received %q", p.idx, c17Short(got))
				}
				if sp := sc.srvs[p.idx]; sp != nil {
					if got, _ := sp.state(); bytes.Contains(got, b[:4]) {
						onTunnel = fmt.Sprintf("server connection of pair %d received %q", p.idx, c17Short(got))
					}
				}
			}
			// once the relay has read the ACT nothing that arrives in-band may reach a tunnel connection: either the
			// tunnel is agreed (in-band bytes are ignored by it) or it is not (the whole session is in-band); before
			// the ACT only a session that goes on to agree on the tunnel may take parked in-band bytes into it
			how := "after the tunnel had been agreed"
			if !viaTunnel {
				how = "in a session that did not agree on the tunnel"
			}
			if onTunnel != "" && (ph >= 1 || !viaTunnel) {
				c.violate("tunnel-relay:inband-bytes-in-tunnel:"+phaseName[ph], "bytes that reached the relay IN-BAND "+how+" were written to a tunnel connection",
					fmt.Sprintf("%q typed %s :: %s :: %s", b, phaseName[ph], onTunnel, sc.describe()))
			}
			inband := [][]byte{toSrv, toCli}[dir]
			// (server output that arrives between ACT and CFG in a session without the tunnel is parked in front of the CFG
			// line and read with it as junk: by design)
			if ph >= 1 && !(ph == 1 && dir == 1 && !viaTunnel) && !bytes.Contains(inband, b) {
				c.violate("tunnel-relay:inband-bytes-not-passed-on:"+phaseName[ph], "bytes that reached the relay in-band after it had read the ACT were not passed on in-band",
					fmt.Sprintf("%q typed %s; in-band stream %q :: %s", b, phaseName[ph], c17Short(inband), sc.describe()))
			}
		}
	}
	// ORDER through the bridge, per direction: behind the relay's own ACT (CFG) line the far tunnel connection receives
	// exactly what the near one sent behind its ACT (CFG) line — nothing lost, nothing doubled, nothing overtaking
	if viaTunnel && g >= 0 && !pl.junk {
		_, sh4, ch2, _ := sc.hellos()
		for _, dd := range []struct {
			name  string
			far   *c17Peer
			hello string
			sent  []byte
			skip  bool
		}{{"client-to-server", sc.srvs[g], ch2, cliSent, false}, {"server-to-client", sc.peers[g], sh4, srvSent, !pl.confirm}} {
			if dd.far == nil || dd.skip {
				continue
			}
			behind := func() []byte { // what arrived behind the hello and the relay's own first line
				got, _ := dd.far.state()
				got = bytes.TrimPrefix(got, []byte(dd.hello))
				if i := bytes.IndexByte(got, '\n'); i >= 0 {
					return got[i+1:]
				}
				return nil
			}
			c17WaitUntil(2*time.Second, func() bool { return len(behind()) >= len(dd.sent) })
			if got := behind(); !bytes.Equal(got, dd.sent) {
				key, what := "tunnel-relay:tunnel-stream-differs:"+dd.name, "what one end wrote on its tunnel connection around the relay's handshake is not what the other end received (bytes lost or doubled)"
				a, b := append([]byte(nil), got...), append([]byte(nil), dd.sent...)
				sort.Slice(a, func(i, j int) bool { return a[i] < a[j] })
				sort.Slice(b, func(i, j int) bool { return b[i] < b[j] })
				if bytes.Equal(a, b) {
					key, what = "tunnel-relay:tunnel-order:"+dd.name, "bytes written on a tunnel connection around the relay's handshake reached the other end in ANOTHER ORDER (a later segment overtook bytes still parked in the relay's handshake queue)"
				}
				c.violate(key, what, fmt.Sprintf("sent behind the handshake line %q, received behind the relay's line %q :: %s", c17Short(dd.sent), c17Short(got), sc.describe()))
			}
		}
	}
	sc.oracles("handshake")
	var cobs, sobs []string
	for _, p := range sc.peers {
		cobs = append(cobs, c17rObs(p))
		sobs = append(sobs, c17rObs(sc.srvs[p.idx]))
	}
	if len(cobs) == 0 {
		cobs, sobs = []string{"-"}, []string{"-"}
	}
	ad := "-"
	if sc.adopted >= 0 {
		ad = strconv.Itoa(sc.adopted)
	} else if sc.adopted == -2 {
		ad = "?"
	}
	result := strings.Join(cobs, ",") + "|s=" + strings.Join(sobs, ",") + "|a=" + ad + "|in=" + hx(c17rCanon(toSrv)) + "|out=" + hx(c17rCanon(toCli))
	c.count(fmt.Sprintf("hs:est=%v,tunnel=%v,confirm=%v,junk=%v", pl.est, pl.tun, pl.confirm, pl.junk))
	sc.mu.Lock()
	evs := c17rEvs(sc.evs)
	sc.mu.Unlock()
	return &c17Line{true, "rtunnel_hs", result, []string{hx([]byte(sc.uid)), strconv.Itoa(sc.sport), strconv.Itoa(sc.rport), evs}}
}

// c17rHsPlanAt: the corpus (every phase alone and all together, for every shape of handshake), then random plans
func c17rHsPlanAt(rng *rand.Rand, i int) c17rHsPlan {
	shapes := []c17rHsPlan{
		{est: true, actTunnel: true, tun: true, confirm: true},    // the tunnel agreed: the seeded class
		{est: true, actTunnel: false, tun: true, confirm: true},   // … the ACT itself typed in-band
		{est: true, actTunnel: true, tun: false, confirm: true},   // a tunnel exists, the client says it does not use it
		{est: false, actTunnel: false, tun: false, confirm: true}, // no tunnel at all
		{est: true, actTunnel: true, tun: true, confirm: false},
		{est: false, actTunnel: false, tun: false, confirm: false},
		{est: true, actTunnel: true, junk: true},
		{est: false, junk: true},
	}
	typings := [][4][2]bool{
		{{false, false}, {true, false}, {false, false}, {false, false}}, // keys between ACT and CFG: the seed's own history
		{{true, true}, {true, true}, {true, true}, {true, true}},
		{{true, false}, {false, false}, {false, false}, {false, false}},
		{{false, false}, {false, true}, {false, false}, {false, false}},
		{{false, false}, {false, false}, {true, true}, {false, false}},
		{{false, false}, {false, false}, {false, false}, {true, true}},
	}
	segPlans := [][5]bool{
		{true, true, false, false, false}, // the seeded history: `ACT AAA`, then `BBB` inside the handshake
		{false, false, true, true, false}, // its mirror image on the server's side
		{true, true, true, true, true},
		{true, false, false, false, true},
		{false, true, false, true, false},
	}
	var pl c17rHsPlan
	if j := i - len(shapes)*len(typings); j >= 0 && j < 2*len(segPlans) {
		pl = shapes[0]
		pl.seg = segPlans[j%len(segPlans)]
		if j >= len(segPlans) { // … with keys typed in every phase as well
			pl.typed = typings[1]
		}
		pl.exit = []int{0, 1, 2}[j%3]
		return pl
	}
	if i < len(shapes)*len(typings) {
		pl = shapes[i%len(shapes)]
		pl.typed = typings[i/len(shapes)]
		pl.exit = []int{0, 1, 2}[(i/len(shapes))%3]
	} else {
		pl = shapes[rng.Intn(len(shapes))]
		if rng.Intn(3) == 0 {
			pl = shapes[0]
		}
		for ph := 0; ph < 4; ph++ {
			for dir := 0; dir < 2; dir++ {
				pl.typed[ph][dir] = rng.Intn(2) == 0
			}
		}
		pl.exit = rng.Intn(3)
		for k := range pl.seg {
			pl.seg[k] = rng.Intn(2) == 0
		}
	}
	if !pl.est && pl.exit == 1 {
		pl.exit = 2
	}
	return pl
}

type c17rProgress struct {
	mu sync.Mutex
	sc *c17rScenario
}

func (p *c17rProgress) set(sc *c17rScenario) {
	p.mu.Lock()
	p.sc = sc
	p.mu.Unlock()
}

func (p *c17rProgress) String() string {
	p.mu.Lock()
	sc := p.sc
	p.mu.Unlock()
	if sc == nil {
		return "(the scenario had not started its relay)"
	}
	return sc.describe()
}

// ---- end to end: filter -> relay -> trz / tsz with the tunnel through the relay ----

type c17rE2ECase struct {
	seed   int64
	upload bool
	pre    []int   // kinds of the intruders that talk to the relay's port while the trigger is held back
	typed  [3]bool // keys typed in-band at the relay's client side: before the ACT / between ACT and CFG / after the CFG
	line   *c17Line
	viol   [][3]string
	stats  map[string]int
	desc   string
}

func c17rRunE2E(ec *c17rE2ECase, work string) {
	rng := rand.New(rand.NewSource(ec.seed))
	root := filepath.Join(work, fmt.Sprint(ec.seed))
	os.MkdirAll(filepath.Join(root, "src"), 0755)
	os.MkdirAll(filepath.Join(root, "dest"), 0755)
	defer os.RemoveAll(root)
	srcFile := filepath.Join(root, "src", "payload.bin")
	content := fillBytes(rng, 100000+rng.Intn(200000), rng.Intn(4))
	os.WriteFile(srcFile, content, 0644)
	lc := &ctx{rng: rng, tier: "quick", stats: map[string]int{}, seen: map[string]bool{}}
	ec.stats = lc.stats
	sc := &c17rScenario{c: lc, rng: rng, srvs: map[int]*c17Peer{}, wraps: map[int]*c17rCountConn{}, everAdopted: map[int]bool{}, adopted: -1}
	var once sync.Once
	var seen []byte
	var genuine atomic.Int32
	genuine.Store(-1)
	var gotReply atomic.Value
	// keys typed in-band at the relay (the client's terminal side), at chosen points of the relay's handshake
	var relayIn io.Writer
	var inMu sync.Mutex
	var inbandToServer, relayToServerTunnel, clientFromTunnel bytes.Buffer
	keys := [3][]byte{[]byte("<KA>ls -l\r"), []byte("<KB>ls -l\r"), []byte("<KC>ls -l\r")}
	typeKeys := func(ph int, wait bool) {
		if !ec.typed[ph] || relayIn == nil {
			return
		}
		relayIn.Write(keys[ph])
		sc.ev(fmt.Sprintf("i0:%s", hx(keys[ph])))
		lc.count("e2e:typed:" + []string{"before-ACT", "between-ACT-and-CFG", "after-CFG"}[ph])
		if wait { // until they have gone by in-band (they must), or give up
			c17WaitUntil(400*time.Millisecond, func() bool {
				inMu.Lock()
				defer inMu.Unlock()
				return bytes.Contains(inbandToServer.Bytes(), keys[ph])
			})
		}
	}
	tap := func(b []byte) {
		seen = append(seen, b...)
		m := c17rTriggerRe.FindSubmatch(seen)
		if m == nil || !bytes.Contains(seen[bytes.Index(seen, m[0]):], []byte("\n")) {
			return
		}
		once.Do(func() {
			sc.uid = string(m[1])
			sc.rport, _ = strconv.Atoi(string(m[2]))
			for _, k := range ec.pre {
				p := c17Dial(sc.rport, len(sc.peers))
				sc.peers = append(sc.peers, p)
				sc.kinds = append(sc.kinds, k)
				sc.plans = append(sc.plans, c17rSrvRight)
				sc.ev("c")
				sc.desc = append(sc.desc, c17rKindName(k))
				var script [][]byte
				if k == c17rKindServerPortHello {
					w, _ := trzsz.VerifGetHelloConstant(sc.uid, sc.sport)
					script = [][]byte{[]byte(w)}
				} else {
					script = c17Script(rng, k, sc.uid, sc.rport)
				}
				for _, w := range script {
					if len(p.sent) == 0 {
						p.write(w)
						sc.ev(fmt.Sprintf("w%d:%s", p.idx, hx(w)))
						c17WaitUntil(2*time.Second, func() bool { g, cl := p.state(); return cl || len(g) > 0 })
					} else {
						p.write(w)
						sc.ev(fmt.Sprintf("w%d:%s", p.idx, hx(w)))
					}
				}
				if k == c17CloseNow && !p.refused {
					p.end()
					sc.ev(fmt.Sprintf("x%d", p.idx))
				}
			}
			typeKeys(0, false) // parked by the relay; eaten as junk in front of the ACT line
		})
	}
	hook := func(dir int, idx int, b []byte) e2eAction {
		if dir == dirC2S {
			inMu.Lock()
			inbandToServer.Write(b)
			inMu.Unlock()
		}
		if dir == dirS2C && sc.sport == 0 {
			if m := c17rTriggerRe.FindSubmatch(b); m != nil {
				sc.sport, _ = strconv.Atoi(string(m[2]))
			}
		}
		return e2eAction{}
	}
	connector := func(port int) net.Conn { // the CLIENT's connector: reaches the relay
		p := &c17Peer{idx: len(sc.peers)}
		conn, err := net.DialTimeout("tcp", "127.0.0.1:"+strconv.Itoa(port), 2*time.Second)
		sc.peers = append(sc.peers, p)
		sc.kinds = append(sc.kinds, c17Right)
		sc.plans = append(sc.plans, c17rSrvRight)
		sc.desc = append(sc.desc, "GENUINE")
		sc.ev("c")
		genuine.Store(int32(p.idx))
		if err != nil {
			p.refused = true
			return nil
		}
		p.local = conn.LocalAddr().String()
		ch1, _ := trzsz.VerifGetHelloConstant(sc.uid, port)
		p.sent, p.first = []byte(ch1), []byte(ch1)
		sc.ev(fmt.Sprintf("w%d:%s", p.idx, hx([]byte(ch1))))
		if port != sc.rport {
			lc.violate("tunnel-relay-e2e:client-port", "the client's connector was called with a port other than the relay's", fmt.Sprintf("called with %d, relay announced %d", port, sc.rport))
		}
		return &c17rFirstRead{Conn: conn, got: &gotReply, mu: &inMu, rlog: &clientFromTunnel}
	}
	relayConnector := func(port int) net.Conn { // the RELAY's connector: reaches the real trz / tsz
		conn, err := net.DialTimeout("tcp", "127.0.0.1:"+strconv.Itoa(port), time.Second)
		g := int(genuine.Load())
		if err != nil {
			sc.ev(fmt.Sprintf("d%d:n", g))
			return nil
		}
		sc.ev(fmt.Sprintf("d%d:c", g))
		_, sh3 := trzsz.VerifGetHelloConstant(sc.uid, port)
		sc.ev(fmt.Sprintf("W%d:%s", g, hx([]byte(sh3)))) // what the real server answers is checked by group tunnel
		lc.count("e2e:relay-dialled-server")
		// the server's CFG is held back while keys are typed between ACT and CFG (the server has read the ACT by then: it
		// ignores in-band input), keys after the CFG follow it
		return &c17rHsConn{Conn: conn, mu: &inMu, wlog: &relayToServerTunnel,
			onCfg:    func() { typeKeys(1, true) },
			afterCfg: func() { time.Sleep(15 * time.Millisecond); typeKeys(2, false) }}
	}
	cfg := e2eCfg{upload: ec.upload, timeout: 10, deadline: c17E2EDeadline, startWait: 6 * time.Second, proto: -1, quiet: true,
		relays: 1, hook: hook, connector: connector, relayConnector: relayConnector, relayTap: tap,
		onRelayIn: func(w io.Writer) { relayIn = w }}
	res := runTransfer(cfg, []string{srcFile}, filepath.Join(root, "dest"))
	time.Sleep(5 * time.Millisecond)
	ec.desc = fmt.Sprintf("relay-e2e seed=%d upload=%v pre=%v typed(before-ACT, between-ACT-and-CFG, after-CFG)=%v :: %s", ec.seed, ec.upload, ec.pre, ec.typed, sc.describe())
	_, sh4 := trzsz.VerifGetHelloConstant(sc.uid, sc.rport)
	g := int(genuine.Load())
	if g >= 0 && g < len(sc.peers) {
		if r, ok := gotReply.Load().([]byte); ok {
			sc.peers[g].mu.Lock()
			sc.peers[g].got = r
			sc.peers[g].mu.Unlock()
			if string(r) != sh4 {
				lc.violate("tunnel-relay-e2e:answer-not-hello", "the first thing the relay wrote to the genuine client is not exactly the server hello for (id, relay port)",
					fmt.Sprintf("first read %q :: %s", c17Short(r), ec.desc))
			}
		}
	}
	for _, p := range sc.peers {
		if p.idx == g {
			continue
		}
		got, _ := p.state()
		ch1, _ := trzsz.VerifGetHelloConstant(sc.uid, sc.rport)
		fr := p.first
		if len(fr) > 100 {
			fr = fr[:100]
		}
		if len(got) > 0 && string(fr) != ch1 {
			lc.violate("tunnel-relay-e2e:intruder-answered:"+c17rKindName(sc.kinds[p.idx]), "an intruder on the relay's port received bytes",
				fmt.Sprintf("conn=%d sent=%q received=%q :: %s", p.idx, c17Short(p.sent), c17Short(got), ec.desc))
		}
	}
	inMu.Lock()
	r2s, c4t, ib := append([]byte(nil), relayToServerTunnel.Bytes()...), append([]byte(nil), clientFromTunnel.Bytes()...), append([]byte(nil), inbandToServer.Bytes()...)
	inMu.Unlock()
	for ph := 0; ph < 3; ph++ {
		if !ec.typed[ph] {
			continue
		}
		name := []string{"before-ACT", "between-ACT-and-CFG", "after-CFG"}[ph]
		for _, t := range []struct {
			what string
			b    []byte
		}{{"what the relay wrote to the server's tunnel connection", r2s}, {"what the client read from its tunnel connection", c4t}} {
			if i := bytes.Index(t.b, keys[ph][:4]); i >= 0 {
				lo := i - 30
				if lo < 0 {
					lo = 0
				}
				lc.violate("tunnel-relay-e2e:inband-bytes-in-tunnel:"+name, "keys typed in-band at the relay appeared on a tunnel connection",
					fmt.Sprintf("%q typed %s; %s contains …%q… :: %s", keys[ph], name, t.what, c17Short(t.b[lo:]), ec.desc))
			}
		}
		if ph >= 1 && !bytes.Contains(ib, keys[ph]) {
			lc.violate("tunnel-relay-e2e:inband-bytes-not-passed-on:"+name, "keys typed in-band at the relay after the tunnel had been agreed were not passed on in-band to the server",
				fmt.Sprintf("%q typed %s :: %s", keys[ph], name, ec.desc))
		}
	}
	ok := !res.hung && res.clientDone && res.serverExited && (!ec.upload || res.uploadErr == nil)
	got, err := os.ReadFile(filepath.Join(root, "dest", "payload.bin"))
	same := err == nil && bytes.Equal(got, content)
	path := "I"
	if !bytes.Contains(res.wire[dirC2S], []byte("#ACT:")) {
		path = "T"
	}
	lc.count("e2e:path:" + path)
	if !ok || !same {
		lc.violate("tunnel-relay-e2e:transfer-failed", "a transfer through a relay with a tunnel did not complete with the source's bytes at the destination",
			fmt.Sprintf("%s :: path=%s hung=%v clientDone=%v serverExited=%v code=%d uploadErr=%v same=%v tail=%q", ec.desc, path, res.hung, res.clientDone,
				res.serverExited, res.serverCode, res.uploadErr, same, tailStr(res.termOut+"|"+res.serverOut, 300)))
	} else if path != "T" {
		lc.violate("tunnel-relay-e2e:tunnel-not-used", "client, relay and server all have a tunnel available, the genuine client was not turned away, yet the handshake went in-band", ec.desc)
	}
	if path == "T" && bytes.Contains(res.wire[dirC2S], []byte("#DATA:")) {
		lc.violate("tunnel-relay-e2e:data-in-band-with-tunnel", "payload went over the terminal although the tunnel was agreed", ec.desc)
	}
	for _, v := range lc.violations {
		ec.viol = append(ec.viol, [3]string{v["key"], v["what"], v["detail"]})
	}
	var obs []string
	for _, p := range sc.peers {
		o := "-"
		if gg, _ := p.state(); len(gg) > 0 {
			o = "R"
		}
		obs = append(obs, o)
	}
	if sc.uid != "" && sc.sport != 0 {
		sc.mu.Lock()
		evs := c17rEvs(sc.evs)
		sc.mu.Unlock()
		ec.line = &c17Line{true, "rtunnel_e2e", strings.Join(obs, ",") + "|path=" + path,
			[]string{hx([]byte(sc.uid)), strconv.Itoa(sc.sport), strconv.Itoa(sc.rport), evs}}
	}
	for _, p := range sc.peers {
		p.end()
	}
}

type c17rFirstRead struct {
	net.Conn
	got  *atomic.Value
	done atomic.Bool
	mu   *sync.Mutex
	rlog *bytes.Buffer // the first 64 KiB of what was read
}

func (w *c17rFirstRead) Read(b []byte) (int, error) {
	n, err := w.Conn.Read(b)
	if n > 0 && w.done.CompareAndSwap(false, true) {
		w.got.Store(append([]byte(nil), b[:n]...))
	}
	if n > 0 && w.rlog != nil {
		w.mu.Lock()
		if w.rlog.Len() < 65536 {
			w.rlog.Write(b[:n])
		}
		w.mu.Unlock()
	}
	return n, err
}

// c17rHsConn: the relay's end of its connection to the server: logs the head of what the relay writes, holds the
// server's CFG back while the harness types, and tells when it has gone through
type c17rHsConn struct {
	net.Conn
	mu       *sync.Mutex
	wlog     *bytes.Buffer
	rseen    []byte
	cfgDone  bool
	onCfg    func()
	afterCfg func()
}

func (w *c17rHsConn) Write(b []byte) (int, error) {
	w.mu.Lock()
	if w.wlog.Len() < 65536 {
		w.wlog.Write(b)
	}
	w.mu.Unlock()
	return w.Conn.Write(b)
}

func (w *c17rHsConn) Read(b []byte) (int, error) {
	n, err := w.Conn.Read(b)
	if n > 0 && !w.cfgDone {
		w.rseen = append(w.rseen, b[:n]...)
		if bytes.Contains(w.rseen, []byte("#CFG:")) {
			w.cfgDone = true
			w.onCfg()
			go w.afterCfg()
		}
	}
	return n, err
}

// ---- the child: a few scenarios, then exit (and with it every spinning pump) ----

func genC17RelayChild(c *ctx) {
	mode := os.Getenv("C17R_MODE")
	n, _ := strconv.Atoi(os.Getenv("C17R_COUNT"))
	first, _ := strconv.Atoi(os.Getenv("C17R_FIRST"))
	progFile := os.Getenv("C17R_PROGRESS")
	note := func(s string) {
		if progFile != "" {
			os.WriteFile(progFile, []byte(s), 0644)
		}
	}
	switch mode {
	case "run":
		// corpus first: every client kind alone with a right server; a genuine client with every server kind;
		// intruder before / after the genuine one; two genuine
		var forced [][][2]int
		for k := 0; k <= c17NKinds; k++ {
			forced = append(forced, [][2]int{{k, c17rSrvRight}}, [][2]int{{k, c17rSrvRight}, {c17Right, c17rSrvRight}}, [][2]int{{c17Right, c17rSrvRight}, {k, c17rSrvRight}})
		}
		for pl := 0; pl < c17rNSrv; pl++ {
			forced = append(forced, [][2]int{{c17Right, pl}}, [][2]int{{c17Right, pl}, {c17Right, c17rSrvRight}})
		}
		forced = append(forced, [][2]int{{c17Right, c17rSrvRight}, {c17Right, c17rSrvRight}, {c17Silent, c17rSrvRight}})
		ends := map[int]int{}
		for e := 0; e < 4; e++ { // every end game with a genuine client and a silent straggler
			ends[len(forced)] = e
			forced = append(forced, [][2]int{{c17Right, c17rSrvRight}, {c17Silent, c17rSrvRight}})
			ends[len(forced)] = e
			forced = append(forced, [][2]int{{c17Silent, c17rSrvRight}, {c17Right, c17rSrvRight}, {c17Wrong, c17rSrvRight}})
		}
		for i := 0; i < n; i++ {
			seed := c.rng.Int63()
			var f [][2]int
			fe := -1
			if first+i < len(forced) {
				f = forced[first+i]
				if e, ok := ends[first+i]; ok {
					fe = e
				}
			}
			prog := &c17rProgress{}
			note(fmt.Sprintf("sequential scenario #%d seed=%d forced=%v", first+i, seed, f))
			type res struct {
				lc *ctx
				l  *c17Line
			}
			r, finished := c17Guard(c17ScenarioLimit+8*time.Second, func() res {
				lc := &ctx{rng: rand.New(rand.NewSource(seed)), tier: c.tier, stats: map[string]int{}, seen: map[string]bool{}}
				return res{lc, c17rSequential(lc, seed, f, fe, prog)}
			})
			if !finished {
				c.count("abandoned:relay-sequential")
				c.violate("tunnel-relay:scenario-stuck:sequential", "a sequential relay scenario did not finish (watchdog)",
					fmt.Sprintf("no end within %v; seed=%d forced=%v :: %s", c17ScenarioLimit+8*time.Second, seed, f, prog))
				return // the rest of this child is skipped: the violation has been reported
			}
			c17Merge(c, r.lc)
			if r.l != nil {
				c.emit(r.l.nontrivial, r.l.fn, r.l.result, r.l.args...)
			}
		}
	case "hs":
		for i := 0; i < n; i++ {
			seed := c.rng.Int63()
			pl := c17rHsPlanAt(rand.New(rand.NewSource(seed)), first+i)
			prog := &c17rProgress{}
			note(fmt.Sprintf("handshake scenario #%d seed=%d plan=%s", first+i, seed, pl))
			type res struct {
				lc *ctx
				l  *c17Line
			}
			r, finished := c17Guard(c17ScenarioLimit+8*time.Second, func() res {
				lc := &ctx{rng: rand.New(rand.NewSource(seed)), tier: c.tier, stats: map[string]int{}, seen: map[string]bool{}}
				return res{lc, c17rHandshake(lc, seed, pl, prog)}
			})
			if !finished {
				c.count("abandoned:relay-handshake")
				c.violate("tunnel-relay:scenario-stuck:handshake", "a relay handshake scenario did not finish (watchdog)",
					fmt.Sprintf("no end within %v; seed=%d plan=%s :: %s", c17ScenarioLimit+8*time.Second, seed, pl, prog))
				return
			}
			c17Merge(c, r.lc)
			if r.l != nil {
				c.emit(r.l.nontrivial, r.l.fn, r.l.result, r.l.args...)
			}
		}
	case "e2e":
		work, _ := os.MkdirTemp("", "c17r_e2e_")
		defer os.RemoveAll(work)
		intr := []int{c17Wrong, c17PrefixWrongID, c17Split, c17Extended, c17Full13, c17Flood, c17Silent, c17CloseNow, c17ServerHello, c17rKindServerPortHello}
		for i := 0; i < n; i++ {
			ec := &c17rE2ECase{seed: c.rng.Int63(), upload: (first+i)%2 == 0}
			if first+i > 0 {
				for j := c.rng.Intn(4); j > 0; j-- {
					ec.pre = append(ec.pre, intr[c.rng.Intn(len(intr))])
				}
			}
			switch {
			case first+i == 0:
				ec.typed = [3]bool{false, true, false} // the seed's own history: keys between ACT and CFG
			case first+i < 3:
				ec.typed = [3]bool{true, true, true}
			default:
				ec.typed = [3]bool{c.rng.Intn(2) == 0, c.rng.Intn(3) != 0, c.rng.Intn(2) == 0}
			}
			note(fmt.Sprintf("e2e scenario #%d seed=%d upload=%v pre=%v typed=%v", first+i, ec.seed, ec.upload, ec.pre, ec.typed))
			done, finished := c17Guard(c17E2ELimit, func() *c17rE2ECase { e := *ec; c17rRunE2E(&e, work); return &e })
			if !finished {
				c.count("abandoned:relay-e2e")
				c.violate("tunnel-relay-e2e:scenario-stuck", "an end-to-end relay scenario did not finish (watchdog)",
					fmt.Sprintf("no end within %v; seed=%d upload=%v pre=%v", c17E2ELimit, ec.seed, ec.upload, ec.pre))
				return
			}
			for k, v := range done.stats {
				c.stats[k] += v
			}
			for _, v := range done.viol {
				c.violate(v[0], v[1], v[2])
			}
			for _, k := range done.pre {
				c.count("e2e:pre:" + c17rKindName(k))
			}
			if done.line != nil {
				c.emit(true, done.line.fn, done.line.result, done.line.args...)
			} else {
				c.violate("tunnel-relay-e2e:no-trigger", "no relayed trigger was seen", done.desc)
			}
		}
	}
}

// ---- the parent ----

type c17rChildSpec struct {
	mode         string
	first, count int
	seed         int64
	limit        time.Duration
}

type c17rChildOut struct {
	spec   c17rChildSpec
	lines  [][]string // fn, args..., "=>", result
	stats  map[string]int
	viol   []map[string]string
	failed string
}

func c17rRunChild(dir string, i int, tier string, sp c17rChildSpec) *c17rChildOut {
	out := &c17rChildOut{spec: sp}
	cases := filepath.Join(dir, fmt.Sprintf("child%d.cases", i))
	stats := filepath.Join(dir, fmt.Sprintf("child%d.stats", i))
	prog := filepath.Join(dir, fmt.Sprintf("child%d.progress", i))
	ctxT, cancel := context.WithTimeout(context.Background(), sp.limit)
	defer cancel()
	cmd := exec.CommandContext(ctxT, os.Args[0], "tunnel-relay-child", strconv.FormatInt(sp.seed, 10), tier, cases, stats)
	cmd.Env = append(os.Environ(), "C17R_MODE="+sp.mode, "C17R_COUNT="+strconv.Itoa(sp.count), "C17R_FIRST="+strconv.Itoa(sp.first), "C17R_PROGRESS="+prog)
	cmd.Dir = dir
	var stderr bytes.Buffer
	cmd.Stderr = &stderr
	cmd.WaitDelay = 2 * time.Second
	err := cmd.Run()
	if b, e := os.ReadFile(cases); e == nil {
		for _, l := range strings.Split(string(b), "\n") {
			if f := strings.Split(l, "\t"); len(f) >= 3 {
				out.lines = append(out.lines, f)
			}
		}
	}
	if b, e := os.ReadFile(stats); e == nil {
		var st struct {
			Distribution map[string]int
			Violations   []map[string]string
		}
		if json.Unmarshal(b, &st) == nil {
			out.stats, out.viol = st.Distribution, st.Violations
		}
	}
	if ctxT.Err() != nil {
		p, _ := os.ReadFile(prog)
		out.failed = fmt.Sprintf("child %d (%s, scenarios %d..%d, seed %d) did not finish within %v and was killed; it was at: %s", i, sp.mode, sp.first, sp.first+sp.count-1, sp.seed, sp.limit, string(p))
		out.lines = nil // an unfinished case file is not evaluated
	} else if err != nil {
		out.failed = fmt.Sprintf("child %d (%s, seed %d) failed: %v: %s", i, sp.mode, sp.seed, err, tailStr(stderr.String(), 1500))
	}
	return out
}

func genC17Relay(c *ctx) {
	// 1. listenForTunnel's rewrite, the real function on a buffer
	uids := []string{"1727724800120", "1727724800110", "1727724800100", "1", "12345678901234", "17"}
	for i := 0; i < c.pick(60, 600); i++ {
		uid := uids[c.rng.Intn(len(uids))]
		if c.rng.Intn(2) == 0 {
			uid = c17RandID(c.rng)
		}
		sport := 1 + c.rng.Intn(65535)
		if c.rng.Intn(8) == 0 {
			sport = []int{1, 9, 10, 99, 100, 65535}[c.rng.Intn(6)]
		}
		tag := fmt.Sprintf(":%s:%d", uid, sport)
		var buf []byte
		switch c.rng.Intn(8) {
		case 0: // nothing to replace
			buf = []byte("plain output\r\n")
		case 1: // the id with another port, another id with the port
			buf = []byte(fmt.Sprintf("::TRZSZ:TRANSFER:R:1.1.8:%s:%d\r\n::TRZSZ:TRANSFER:R:1.1.8:%s:%d\r\n", uid, sport+1, c17RandID(c.rng), sport))
		case 2: // twice, and a longer port that has the pattern as a prefix
			buf = []byte("a" + tag + "b" + tag + "7" + tag)
		case 3: // overlapping candidates
			buf = []byte(":" + uid + tag + tag[:len(tag)-1] + tag)
		default:
			buf = []byte(fmt.Sprintf("%s::TRZSZ:TRANSFER:%c:1.1.8%s#R\r\n%s", []string{"", "$ trz\r\n", "\x1b[0m"}[c.rng.Intn(3)], "SRD"[c.rng.Intn(3)], tag, []string{"", "more\r\n"}[c.rng.Intn(2)]))
		}
		out, rport := trzsz.VerifRelayListenForTunnel(uid, sport, buf)
		if rport == 0 {
			c.count("listen-failed")
			continue
		}
		c.emit(bytes.Contains(buf, []byte(tag)), "rtunnel_rewrite", hx(out), hx([]byte(uid)), strconv.Itoa(sport), strconv.Itoa(rport), hx(buf))
		if bytes.Contains(buf, []byte(tag)) && !bytes.Contains(out, []byte(fmt.Sprintf(":%s:%d", uid, rport))) {
			c.violate("tunnel-relay:rewrite-missing", "the buffer carried `:<id>:<server port>` and the rewritten one does not carry `:<id>:<relay port>`",
				fmt.Sprintf("uid=%s server-port=%d relay-port=%d buf=%q out=%q", uid, sport, rport, buf, out))
		}
	}
	// a relay without a connector, or a trigger without a port, does not listen and does not rewrite
	// (checked through the export: tunnelPort 0)
	if out, rport := trzsz.VerifRelayListenForTunnel("1727724800120", 0, []byte(":1727724800120:0")); rport != 0 || string(out) != ":1727724800120:0" {
		c.violate("tunnel-relay:listens-without-port", "listenForTunnel listened although the trigger carries no tunnel port", fmt.Sprintf("out=%q port=%d", out, rport))
	}

	// 2. scenarios, in child processes
	dir, err := os.MkdirTemp("", "c17r_")
	if err != nil {
		c.violate("tunnel-relay:harness", "no temporary directory", err.Error())
		return
	}
	defer os.RemoveAll(dir)
	var specs []c17rChildSpec
	per := 9
	nRun := c.pick(14, 80)
	for i := 0; i < nRun; i++ {
		specs = append(specs, c17rChildSpec{mode: "run", first: i * per, count: per, seed: c.rng.Int63(), limit: 75 * time.Second})
	}
	nHs := c.pick(8, 48)
	for i := 0; i < nHs; i++ {
		specs = append(specs, c17rChildSpec{mode: "hs", first: i * 8, count: 8, seed: c.rng.Int63(), limit: 75 * time.Second})
	}
	nE2E := c.pick(4, 24)
	for i := 0; i < nE2E; i++ {
		specs = append(specs, c17rChildSpec{mode: "e2e", first: i * 3, count: 3, seed: c.rng.Int63(), limit: 100 * time.Second})
	}
	outs := make([]*c17rChildOut, len(specs))
	parallelDo(len(specs), 10, func(i int) { outs[i] = c17rRunChild(dir, i, c.tier, specs[i]) })
	for _, o := range outs {
		for k, v := range o.stats {
			if !strings.HasPrefix(k, "fn:") {
				c.stats[k] += v
			}
		}
		for _, v := range o.viol {
			c.violate(v["key"], v["what"], v["detail"])
		}
		if o.failed != "" {
			c.count("child-failed:" + o.spec.mode)
			c.violate("tunnel-relay:scenario-stuck:child:"+o.spec.mode, "a child process running relay scenarios did not finish (watchdog) or crashed", o.failed)
		}
		for _, f := range o.lines {
			// fn, args..., "=>", result
			k := len(f) - 2
			if k < 1 || f[k] != "=>" {
				continue
			}
			c.emit(true, f[0], f[k+1], f[1:k]...)
		}
	}
}
