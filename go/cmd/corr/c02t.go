package main

// C02 transcript level: a DAMAGED recorded direction is cut into lines and typed exactly as the
// real reader does it (trzszBuffer.readLine / readBinary, recvCheck / recvCheckV2, recvInteger,
// recvBinary, recvData, pipelineRecvBinaryData), tolerant of damage: whatever does not parse
// becomes a message of kind OTHER, which makes the machine that receives it fail - as the real
// code fails on it.  Payloads are decoded with the REAL codecs (decodeString = base64 + zlib,
// unescapeData, the decoder stack of pipelineDecodeData).
//
// Shared by the scripted per-file group (c02s.go, group "file-script") and the transcript tie
// of the end-to-end fault runs (c02f.go, inside group "e2e-faults").

import (
	"bytes"
	"encoding/json"
	"strconv"
	"strings"

	"github.com/trzsz/trzsz-go/trzsz"
)

// one line as recvLine + recvCheck see it
type c02tLine struct {
	typ     string // line[1:colon]  (the code never looks at line[0])
	payload []byte // line[colon+1:]
	data    []byte // binary DATA: the announced bytes
	bad     string // "" | colon | interrupt | binlen | short
}

// c02tLex cuts a delivered stream into lines.  binData: this direction carries DATA in binary
// mode; keepAlive: protocol >= 3 ("#DATA:=" is read again before the length is parsed);
// maxData: transfer.maxDataSize().  A stream that ends inside a message ends the list (the
// reader would block there).
func c02tLex(w []byte, binData, keepAlive bool, maxData int64) []c02tLine {
	var out []c02tLine
	i := 0
	for i < len(w) {
		nl := bytes.IndexByte(w[i:], '\n')
		if nl < 0 {
			break
		}
		l := w[i : i+nl]
		i += nl + 1
		if bytes.IndexByte(l, 0x03) >= 0 {
			out = append(out, c02tLine{bad: "interrupt"})
			continue
		}
		idx := bytes.IndexByte(l, ':')
		if idx < 1 {
			out = append(out, c02tLine{bad: "colon"})
			continue
		}
		ln := c02tLine{typ: string(l[1:idx]), payload: l[idx+1:]}
		if ln.typ == "DATA" && binData && !(keepAlive && len(ln.payload) == 1 && ln.payload[0] == '=') {
			n, err := strconv.ParseInt(string(ln.payload), 10, 64)
			switch {
			case err != nil || n < 0 || n > maxData:
				ln.bad = "binlen"
			case i+int(n) > len(w):
				return out // readBinary blocks
			default:
				ln.data = w[i : i+int(n)]
				i += int(n)
			}
		}
		out = append(out, ln)
	}
	return out
}

// ---- the configuration both ends hold, as far as typing needs it
type c02tCfg struct {
	proto    int
	binary   bool
	dir      bool
	table    *trzsz.VerifEscapeTable
	pairs    []pair
	maxData  int64
	compress int
}

func (g *c02tCfg) pipeline() bool  { return g.proto >= 2 }
func (g *c02tCfg) v3() bool        { return g.proto >= 3 }
func (g *c02tCfg) jsonNames() bool { return g.v3() || g.dir }

// typed message of either direction
type c02tMsg struct {
	kind    string // NUM NAME SIZE COMP DATA MD5 EXIT SUCCI ACK SUCCS KEEP FAIL OTHER
	n       int64  // NUM SIZE SUCCI, ACK len
	step    int64  // ACK step
	b       bool   // COMP
	name    c01tName
	frame   []byte // DATA: the wire payload (base64 characters / escaped bytes)
	chunk   []byte // DATA, protocol 1: the decoded chunk (nil with chunkOK=false: undecodable)
	chunkOK bool
	raw     []byte // MD5: digest; EXIT / SUCCS: the decoded string
	why     string // OTHER: what was wrong
	// SUCCS interpreted as the JSON reply of recvFileNameV3
	jsName string
	jsSize int64
	jsOK   bool
}

// c02tDecodeChunk is recvData on one protocol-1 DATA message
func c02tDecodeChunk(g *c02tCfg, ln c02tLine) ([]byte, bool) {
	if g.binary {
		d, rem, err := trzsz.VerifUnescapeData(ln.data, g.table, nil)
		if err != nil || len(rem) != 0 {
			return nil, false
		}
		return append([]byte{}, d...), true
	}
	d, err := trzsz.VerifDecodeString(string(ln.payload))
	if err != nil {
		return nil, false
	}
	return append([]byte{}, d...), true
}

// c02tTypeData types the lines of the direction that carries the files
func c02tTypeData(lines []c02tLine, g *c02tCfg) []c02tMsg {
	var out []c02tMsg
	other := func(why string) { out = append(out, c02tMsg{kind: "OTHER", why: why}) }
	for _, l := range lines {
		if l.bad != "" {
			other(l.bad)
			continue
		}
		switch l.typ {
		case "FAIL", "fail":
			out = append(out, c02tMsg{kind: "FAIL"})
		case "NUM", "SIZE":
			n, err := strconv.ParseInt(string(l.payload), 10, 64)
			if err != nil {
				other("integer")
			} else if n < 0 {
				other("negative")
			} else {
				out = append(out, c02tMsg{kind: l.typ, n: n})
			}
		case "COMP":
			s := string(l.payload)
			if s != "true" && s != "false" {
				other("comp")
			} else {
				out = append(out, c02tMsg{kind: "COMP", b: s == "true"})
			}
		case "NAME":
			s, err := trzsz.VerifDecodeString(string(l.payload))
			if err != nil {
				other("name-coding")
				continue
			}
			nm := c01tName{}
			if g.jsonNames() {
				var js struct {
					ID      int      `json:"path_id"`
					Rel     []string `json:"path_name"`
					IsDir   bool     `json:"is_dir"`
					Archive bool     `json:"archive"`
					Size    int64    `json:"size"`
				}
				if err := json.Unmarshal(s, &js); err != nil || len(js.Rel) == 0 {
					other("name-json")
					continue
				}
				nm = c01tName{json: true, id: js.ID, rel: js.Rel, isDir: js.IsDir, archive: js.Archive, size: js.Size}
			} else {
				nm.plain = string(s)
			}
			out = append(out, c02tMsg{kind: "NAME", name: nm})
		case "DATA":
			if g.v3() && len(l.payload) == 1 && l.payload[0] == '=' {
				out = append(out, c02tMsg{kind: "KEEP"})
				continue
			}
			m := c02tMsg{kind: "DATA"}
			if g.binary {
				m.frame = l.data
			} else {
				m.frame = l.payload
			}
			if !g.pipeline() {
				m.chunk, m.chunkOK = c02tDecodeChunk(g, l)
			}
			out = append(out, m)
		case "MD5":
			d, err := trzsz.VerifDecodeString(string(l.payload))
			if err != nil {
				other("md5-coding")
			} else {
				out = append(out, c02tMsg{kind: "MD5", raw: append([]byte{}, d...)})
			}
		case "EXIT":
			d, err := trzsz.VerifDecodeString(string(l.payload))
			if err != nil {
				other("exit-coding")
			} else {
				out = append(out, c02tMsg{kind: "EXIT", raw: append([]byte{}, d...)})
			}
		default:
			other("type:" + l.typ)
		}
	}
	return out
}

// c02tTypeAck types the lines of the answering direction.  A SUCC line is, in this order, a
// per-frame ack "len/step", an integer, or a coded string (name, JSON target, digest: the
// machine that consumes it decides by its phase).
func c02tTypeAck(lines []c02tLine, g *c02tCfg) []c02tMsg {
	var out []c02tMsg
	other := func(why string) { out = append(out, c02tMsg{kind: "OTHER", why: why}) }
	for _, l := range lines {
		if l.bad != "" {
			other(l.bad)
			continue
		}
		switch l.typ {
		case "FAIL", "fail":
			out = append(out, c02tMsg{kind: "FAIL"})
		case "EXIT":
			d, err := trzsz.VerifDecodeString(string(l.payload))
			if err != nil {
				other("exit-coding")
			} else {
				out = append(out, c02tMsg{kind: "EXIT", raw: append([]byte{}, d...)})
			}
		case "SUCC":
			p := string(l.payload)
			if g.v3() && p == "=" {
				out = append(out, c02tMsg{kind: "KEEP"})
				continue
			}
			if tok := strings.Split(p, "/"); len(tok) == 2 {
				ln, e1 := strconv.ParseInt(tok[0], 10, 64)
				st, e2 := strconv.ParseInt(tok[1], 10, 64)
				if e1 == nil && e2 == nil && ln >= 0 && st >= 0 {
					out = append(out, c02tMsg{kind: "ACK", n: ln, step: st})
					continue
				}
			}
			if n, err := strconv.ParseInt(p, 10, 64); err == nil {
				if n < 0 {
					other("negative")
				} else {
					out = append(out, c02tMsg{kind: "SUCCI", n: n})
				}
				continue
			}
			d, err := trzsz.VerifDecodeString(p)
			if err != nil {
				other("succ-coding")
				continue
			}
			m := c02tMsg{kind: "SUCCS", raw: append([]byte{}, d...)}
			// unmarshalTargetFile: any JSON object with a non-negative size will do (a record without a
			// name field gives the empty name)
			var js struct {
				Name string `json:"name"`
				Size int64  `json:"size"`
			}
			if json.Unmarshal(d, &js) == nil && js.Size >= 0 {
				m.jsOK, m.jsName, m.jsSize = true, js.Name, js.Size
			}
			out = append(out, m)
		default:
			other("type:" + l.typ)
		}
	}
	return out
}

// c02tDecodeFrames: the decoder stack of pipelineDecodeData over the frames (real codecs)
func c02tDecodeFrames(g *c02tCfg, compress bool, frames [][]byte) ([]byte, bool) {
	d, err := trzsz.VerifDecodeFrames(g.binary, compress, g.table, frames)
	if err != nil {
		return nil, false
	}
	return d, true
}
