package main

// C19 — a zmodem session always hands the terminal back.
//
// group "zmodem": the REAL filter (trzsz.NewTrzszFilter over io.Pipes, EnableZmodem) with a
// FAKE rz/sz helper (this very binary, re-executed through symlinks named rz and sz in a
// temp bin dir that is the whole PATH) driven by a scripted server, a scripted user and a
// scripted helper.  Every scripted event has a nominal time on a 400 ms grid (plus an
// optional "early" event 40 ms after the header), so that the order of scripted events
// and of the events the filter produces itself (100/150 ms launch, 500 ms cleanup and
// kill) is unambiguous; the extracted model (Zmodem.run_timed) is run on the same script.

import (
	"bufio"
	"bytes"
	"encoding/hex"
	"fmt"
	"hash/crc32"
	"io"
	"os"
	"os/exec"
	"path/filepath"
	"sort"
	"strconv"
	"strings"
	"sync"
	"syscall"
	"time"

	"github.com/trzsz/trzsz-go/trzsz"
)

func init() {
	base := filepath.Base(os.Args[0])
	if (base == "rz" || base == "sz") && os.Getenv("C19_HELPER") == "1" {
		c19HelperMain()
		os.Exit(0)
	}
	if os.Getenv("C19_CRASHPROBE") == "1" {
		c19CrashProbeMain()
		os.Exit(0)
	}
	groups["zmodem"] = genZmodemGroup
}

// ---- Ctrl-C before the session's goroutine has begun (run in a child process) ----
//
// wrapOutput publishes the session (CompareAndSwap), writes the hide-cursor sequence to the
// terminal and only then starts handleZmodemEvent, which is what stores the session's
// writers.  A terminal that is slow to take the hide-cursor sequence keeps that window open;
// Ctrl-C typed inside it reaches handleZmodemError with serverIn == nil.  The pinned code
// dies of a nil dereference there (the whole client process), so the probe runs in a child.
func c19CrashProbeMain() {
	hdr := []byte("rz\r**\x18B00000000000000\r\x8a\x11")
	dir, _ := os.MkdirTemp("", "c19probe")
	defer os.RemoveAll(dir)
	cinR, cinW := io.Pipe()
	coutR, coutW := io.Pipe()
	sinR, sinW := io.Pipe()
	soutR, soutW := io.Pipe()
	filter := trzsz.NewTrzszFilter(cinR, coutW, sinW, soutR, trzsz.TrzszOptions{EnableZmodem: true})
	filter.SetDefaultDownloadPath(dir)
	srv := &c19Log{start: time.Now()}
	go srv.pump(sinR)
	go func() { // the slow terminal: after the forwarded header it takes 400 ms to accept more
		buf := make([]byte, 1<<16)
		for {
			n, err := coutR.Read(buf)
			if err != nil {
				return
			}
			if bytes.Equal(buf[:n], hdr) {
				time.Sleep(400 * time.Millisecond)
			}
		}
	}()
	soutW.Write(hdr)
	visible := false
	for k := 0; k < 300 && !visible; k++ {
		visible = trzsz.VerifZmodemCurrent(filter) != nil
		if !visible {
			time.Sleep(time.Millisecond)
		}
	}
	time.Sleep(50 * time.Millisecond)
	cinW.Write([]byte{3})
	time.Sleep(1500 * time.Millisecond)
	cancel, enter := false, false
	for _, w := range srv.snapshot() {
		cancel = cancel || bytes.Equal(w.b, c19CancelFull)
		enter = enter || bytes.Equal(w.b, []byte("\r"))
	}
	fmt.Printf("survived visible=%v cancel=%v cleaned=%v\n", visible, cancel, enter)
}

func c19CrashProbe(c *ctx, exe, bindir string) {
	cmd := exec.Command(exe)
	cmd.Env = append(os.Environ(), "C19_CRASHPROBE=1", "PATH="+bindir)
	done := make(chan struct{})
	var out []byte
	var err error
	go func() { out, err = cmd.CombinedOutput(); close(done) }()
	select {
	case <-done:
	case <-time.After(20 * time.Second):
		cmd.Process.Kill()
		<-done
	}
	c.count("crash-probe:runs")
	txt := string(out)
	detail := "history: the server writes \"rz\\r**\\x18B00000000000000\\r\\x8a\\x11\"; the terminal takes 400 ms to accept the hide-cursor sequence; 50 ms after the session became visible the user types 0x03; child output: " + txt
	if len(detail) > 3000 {
		detail = detail[:3000]
	}
	switch {
	case err != nil && strings.Contains(txt, "panic"):
		c.violate("ctrl-c-before-session-goroutine-crash",
			"Ctrl-C typed after the zmodem session was published but before handleZmodemEvent had stored its writers kills the whole client process (nil dereference in handleZmodemError)", detail)
	case err != nil:
		c.violate("ctrl-c-before-session-goroutine-probe-failed", "the crash probe child failed: "+err.Error(), detail)
	case !strings.Contains(txt, "visible=true cancel=true cleaned=true"):
		c.violate("ctrl-c-before-session-goroutine-ignored",
			"Ctrl-C typed before the session's goroutine had begun did not cancel and clean up the session", detail)
	}
}

// ---- the fake helper: cwd is the scenario directory ----
//
//	./born.log  one line per helper process that was started (appended first of all)
//	./greet     (optional) hex of what to print right after the start, as lrzsz prints its ZRINIT / ZRQINIT
//	./autoexit  (optional) exit at once with the code in the file
//	./stdin.log everything received on stdin, appended unbuffered
//	./ctl       FIFO with lines "<unix ms> out <hex>" (write to stdout) and "<unix ms> exit <code>";
//	            commands issued before this process started are stale (meant for nobody) and skipped
func c19HelperMain() {
	born := time.Now().UnixMilli()
	if bl, err := os.OpenFile("born.log", os.O_WRONLY|os.O_CREATE|os.O_APPEND, 0600); err == nil {
		fmt.Fprintf(bl, "%s %d\n", filepath.Base(os.Args[0]), born)
		bl.Close()
	}
	if b, err := os.ReadFile("greet"); err == nil {
		if g, err := hex.DecodeString(strings.TrimSpace(string(b))); err == nil && len(g) > 0 {
			os.Stdout.Write(g)
		}
	}
	if b, err := os.ReadFile("autoexit"); err == nil {
		code, _ := strconv.Atoi(strings.TrimSpace(string(b)))
		os.Exit(code)
	}
	go func() { // never outlive the harness by much
		time.Sleep(90 * time.Second)
		os.Exit(0)
	}()
	log, err := os.OpenFile("stdin.log", os.O_WRONLY|os.O_CREATE|os.O_APPEND, 0600)
	if err != nil {
		os.Exit(97)
	}
	go func() {
		buf := make([]byte, 65536)
		for {
			n, err := os.Stdin.Read(buf)
			if n > 0 {
				log.Write(buf[:n])
			}
			if err != nil {
				return
			}
		}
	}()
	ctl, err := os.OpenFile("ctl", os.O_RDONLY, 0)
	if err != nil {
		os.Exit(98)
	}
	rd := bufio.NewReader(ctl)
	for {
		line, err := rd.ReadString('\n')
		w := strings.Fields(line)
		if len(w) == 3 {
			if ts, _ := strconv.ParseInt(w[0], 10, 64); ts >= born {
				switch w[1] {
				case "out":
					b, _ := hex.DecodeString(w[2])
					os.Stdout.Write(b)
				case "exit":
					code, _ := strconv.Atoi(w[2])
					os.Exit(code)
				}
			}
		}
		if err != nil {
			os.Exit(0) // the harness closed the control channel
		}
	}
}

// ---- scenarios ----

type c19Ev struct {
	t    int  // nominal time, ms after the start
	kind byte // 's' server chunk, 'i' typed input, 'o' helper output, 'x' helper exit
	data []byte
	code int
}

type c19Scenario struct {
	launch     string // ok | fail (work dir missing) | chooser (no path configured, no dialog tool) | absent (helper not on PATH)
	autoexit   int    // -1: the helper waits for commands; otherwise it exits at once with this code
	greet      []byte // what the helper prints right after it started (nil: nothing)
	remote     *c19Remote
	evs        []c19Ev
	horizon    int
	ended      bool // the script contains an event after which the terminal must come back
	probeOut   []byte
	probeTyped [][]byte // the three typed texts of the probe
	probeStart int      // nominal time of the first probe event
	tags       []string
}

// c19Remote: the remote side is a zmodem program as lrzsz behaves.  Its first header is the
// scripted server event at t0; it REPEATS that header every period ms (at most max times)
// until it is sent the cancel sequence, or sees the local side's finish header or
// over-and-out; after that a shell is there again and answers every write ending in CR
// with the prompt.
type c19Remote struct {
	t0, period, max int
	hdr, prompt     []byte
}

func (r *c19Remote) spec() string {
	if r == nil {
		return "-"
	}
	return fmt.Sprintf("%d:%d:%d:%s:%s", r.t0, r.period, r.max, hx(r.hdr), hx(r.prompt))
}

// the running remote program of one scenario
type c19RemoteRun struct {
	mu      sync.Mutex
	spec    *c19Remote
	waiting bool
	repeats int
	out     io.Writer
}

func (rr *c19RemoteRun) onWrite(b []byte) {
	rr.mu.Lock()
	defer rr.mu.Unlock()
	switch {
	case rr.waiting:
		if bytes.Contains(b, c19CancelSub) || bytes.Equal(b, c19OO) || trzsz.VerifZmodemFinishMatch(b) {
			rr.waiting = false
		}
	case len(b) > 0 && b[len(b)-1] == '\r':
		go rr.out.Write(rr.spec.prompt)
	}
}

func (rr *c19RemoteRun) repeat(start time.Time, horizon int, late *int) {
	for k := 1; k <= rr.spec.max; k++ {
		at := rr.spec.t0 + k*rr.spec.period
		if at >= horizon {
			return
		}
		if d := time.Until(start.Add(time.Duration(at) * time.Millisecond)); d > 0 {
			time.Sleep(d)
		}
		rr.mu.Lock()
		w := rr.waiting
		if d := int(time.Since(start)/time.Millisecond) - at; d > *late {
			*late = d
		}
		rr.mu.Unlock()
		if w {
			rr.out.Write(rr.spec.hdr)
			rr.mu.Lock()
			rr.repeats++
			rr.mu.Unlock()
		}
	}
}

func (sc *c19Scenario) modelArgs(readerr string) []string {
	var parts []string
	for _, e := range sc.evs {
		switch e.kind {
		case 'x':
			parts = append(parts, fmt.Sprintf("%d:x:%d", e.t, e.code))
		default:
			parts = append(parts, fmt.Sprintf("%d:%c:%s", e.t, e.kind, hx(e.data)))
		}
	}
	launch, dl := "ok", "1"
	switch sc.launch {
	case "fail", "absent":
		launch = "fail"
	case "chooser":
		launch, dl = "chooser", "0"
	}
	ae := "-"
	if sc.autoexit >= 0 {
		ae = strconv.Itoa(sc.autoexit)
	}
	ev := "-"
	if len(parts) > 0 {
		ev = strings.Join(parts, ";")
	}
	return []string{launch, ae, dl, hx(sc.greet), sc.remote.spec(), readerr, strconv.Itoa(sc.horizon), ev}
}

type c19Write struct {
	at time.Duration
	b  []byte
}

type c19Log struct {
	on    func([]byte) // called for every write, after it has been recorded
	mu    sync.Mutex
	start time.Time
	w     []c19Write
}

func (l *c19Log) pump(r io.Reader) {
	buf := make([]byte, 1<<16)
	for {
		n, err := r.Read(buf)
		if n > 0 {
			l.mu.Lock()
			l.w = append(l.w, c19Write{time.Since(l.start), append([]byte(nil), buf[:n]...)})
			l.mu.Unlock()
			if l.on != nil {
				l.on(buf[:n])
			}
		}
		if err != nil {
			return
		}
	}
}

func (l *c19Log) snapshot() []c19Write {
	l.mu.Lock()
	defer l.mu.Unlock()
	return append([]c19Write(nil), l.w...)
}

var (
	c19CancelFull = []byte("\x18\x18\x18\x18\x18\x18\x18\x18\x18\x18\x08\x08\x08\x08\x08\x08\x08\x08\x08\x08")
	c19CancelSub  = []byte("\x18\x18\x18\x18\x18")
	c19CannotOpen = []byte("cannot open ")
	c19OO         = []byte("OO\x08\x08")
	c19Hide       = []byte("\x1b[?25l")
	c19Show       = []byte("\x1b[?25h")
)

type c19Result struct {
	canon      string
	readerr    string // per session: "1" if the reader reported a read error at the helper's exit
	term       []string
	srv        []string
	passMs     int // time from the last scripted event to the first cleanup "\r" (or -1)
	probeOut   bool
	probeTyped []bool   // which typed probe texts reached the server unchanged
	probeCtrlC int      // how many of the probe's two lone Ctrl-C bytes reached the server
	startedOn  [][]byte // chunks right after whose forwarding the cursor was hidden
	driftMs    int      // how late the harness itself was with its worst scripted event
	launches   int      // how many helper processes were started (lines of born.log)
	remoteWait bool     // the remote zmodem program is still waiting (repeating its header) at the end
	sessions   int      // how often the cursor was hidden (sessions started)
	prompt     bool     // the shell's prompt reached the terminal
	enterSent  bool     // the clean-up CR was written to the server
	aborted    bool     // the run was given up before an event that would have hit the pinned code's crash window
}

func c19TermItem(b []byte) (string, bool) {
	switch {
	case bytes.Equal(b, c19Hide):
		return "h", true
	case bytes.Equal(b, c19Show):
		return "s", true
	case bytes.Equal(b, []byte("\r\n")):
		return "", false // end of the progress line
	case bytes.HasPrefix(b, []byte("\r\x1b[2KTransferred ")):
		return "", false // progress (time dependent)
	case bytes.HasPrefix(b, []byte("\r\x1b[2K")) && bytes.HasSuffix(b, []byte("\r\n")):
		m := string(b[5 : len(b)-2])
		switch {
		case m == "Stopped":
			return "mS", true
		case strings.Contains(m, "Success!!"):
			return "mOK", true
		case strings.HasPrefix(m, "client exit with "):
			return "mX" + strings.TrimPrefix(m, "client exit with "), true
		case strings.HasPrefix(m, "run rz client failed") || strings.HasPrefix(m, "run sz client failed"):
			return "mL", true
		case m == "client timeout":
			return "mTc", true
		case m == "server timeout":
			return "mTs", true
		case strings.HasPrefix(m, "write to server failed") || strings.HasPrefix(m, "read from client failed"):
			return "mIO", true
		default:
			return "mC", true
		}
	}
	return "f" + hx(b), true
}

func c19SrvItem(b []byte) string {
	switch {
	case bytes.Equal(b, c19CancelFull):
		return "c"
	case bytes.Equal(b, c19OO):
		return "o"
	}
	return "d" + hx(b)
}

// c19Run executes one scenario on a fresh filter.  PATH and C19_HELPER are process wide
// and set by the caller.
func c19Run(sc *c19Scenario) (res c19Result) {
	dir, err := os.MkdirTemp("", "c19s")
	if err != nil {
		panic(err)
	}
	defer func() {
		go func() { time.Sleep(2 * time.Second); os.RemoveAll(dir) }()
	}()
	cinR, cinW := io.Pipe()
	coutR, coutW := io.Pipe()
	sinR, sinW := io.Pipe()
	soutR, soutW := io.Pipe()
	filter := trzsz.NewTrzszFilter(cinR, coutW, sinW, soutR, trzsz.TrzszOptions{EnableZmodem: true})

	work := filepath.Join(dir, "w")
	os.Mkdir(work, 0700)
	os.WriteFile(filepath.Join(work, "up.bin"), []byte("payload"), 0600)
	ctlPath := filepath.Join(work, "ctl")
	if err := syscall.Mkfifo(ctlPath, 0600); err != nil {
		panic(err)
	}
	ctl, err := os.OpenFile(ctlPath, os.O_RDWR, 0)
	if err != nil {
		panic(err)
	}
	defer ctl.Close()
	if sc.autoexit >= 0 {
		os.WriteFile(filepath.Join(work, "autoexit"), []byte(strconv.Itoa(sc.autoexit)), 0600)
	}
	if len(sc.greet) > 0 {
		os.WriteFile(filepath.Join(work, "greet"), []byte(hex.EncodeToString(sc.greet)), 0600)
	}
	switch sc.launch {
	case "ok", "absent":
		filter.SetDefaultDownloadPath(work)
		if _, err := filter.OneTimeUpload([]string{filepath.Join(work, "up.bin")}); err != nil {
			panic(err)
		}
	case "fail":
		gone := filepath.Join(dir, "gone")
		os.Mkdir(gone, 0700)
		os.WriteFile(filepath.Join(gone, "up.bin"), []byte("payload"), 0600)
		filter.SetDefaultDownloadPath(gone)
		if _, err := filter.OneTimeUpload([]string{filepath.Join(gone, "up.bin")}); err != nil {
			panic(err)
		}
		os.RemoveAll(gone)
	case "chooser":
		// nothing configured: the choosers need a dialog tool, none is on PATH
	}

	start := time.Now()
	term, srv := &c19Log{start: start}, &c19Log{start: start}
	var rr *c19RemoteRun
	remoteLate := 0
	if sc.remote != nil {
		rr = &c19RemoteRun{spec: sc.remote, waiting: true, out: soutW}
		srv.on = rr.onWrite
		go rr.repeat(start, sc.horizon, &remoteLate)
	}
	go term.pump(coutR)
	go srv.pump(sinR)

	var last *trzsz.VerifZmodemSession
	var lastMu sync.Mutex
	poll := func() {
		lastMu.Lock()
		if cur := trzsz.VerifZmodemCurrent(filter); cur != nil {
			last = cur
		}
		lastMu.Unlock()
	}
	pollDone := make(chan struct{})
	defer close(pollDone)
	go func() { // a session may start and be dropped again between two scripted events
		for {
			select {
			case <-pollDone:
				return
			case <-time.After(3 * time.Millisecond):
				poll()
			}
		}
	}()
	lastHdrAt := -1
	for _, e := range sc.evs {
		if d := time.Until(start.Add(time.Duration(e.t) * time.Millisecond)); d > 0 {
			time.Sleep(d)
		}
		if d := int(time.Since(start)/time.Millisecond) - e.t; d > res.driftMs {
			res.driftMs = d
		}
		poll()
		if e.kind == 'i' && len(e.data) == 1 && e.data[0] == 3 && lastHdrAt >= 0 && e.t < lastHdrAt+100 {
			// Ctrl-C inside the grace period: the session must be visible and its goroutine
			// must have begun (before that the pinned code dereferences a nil writer and the
			// whole process dies, see c19CrashProbe); otherwise give this run up
			ok := false
			for k := 0; k < 35 && !ok; k++ {
				if cur := trzsz.VerifZmodemCurrent(filter); cur != nil && cur.Begun() {
					ok = true
				} else {
					time.Sleep(time.Millisecond)
				}
			}
			if !ok {
				res.aborted, res.driftMs = true, 999
				cinW.Close()
				return
			}
			poll()
		}
		if e.kind == 's' && trzsz.VerifDetectZmodem(e.data) >= 0 && trzsz.VerifZmodemCurrent(filter) == nil {
			lastHdrAt = e.t
		}
		switch e.kind {
		case 's':
			soutW.Write(e.data)
		case 'i':
			cinW.Write(e.data)
		case 'o':
			fmt.Fprintf(ctl, "%d out %s\n", time.Now().UnixMilli(), hex.EncodeToString(e.data))
		case 'x':
			fmt.Fprintf(ctl, "%d exit %d\n", time.Now().UnixMilli(), e.code)
		}
	}
	if d := time.Until(start.Add(time.Duration(sc.horizon) * time.Millisecond)); d > 0 {
		time.Sleep(d)
	}
	poll()
	ptr := trzsz.VerifZmodemCurrent(filter) != nil
	tw, sw := term.snapshot(), srv.snapshot()
	stdin, _ := os.ReadFile(filepath.Join(work, "stdin.log"))
	if bl, err := os.ReadFile(filepath.Join(work, "born.log")); err == nil {
		res.launches = bytes.Count(bl, []byte("\n"))
	}
	cinW.Close() // ends wrapInput; wrapOutput stays blocked in Read (never sees EOF)
	_ = soutW

	if c19Debug {
		for _, w := range tw {
			fmt.Fprintf(os.Stderr, "term  %6d ms %q\n", w.at/time.Millisecond, w.b)
		}
		for _, w := range sw {
			fmt.Fprintf(os.Stderr, "srv   %6d ms %q\n", w.at/time.Millisecond, w.b)
		}
		fmt.Fprintf(os.Stderr, "stdin %q\n", stdin)
	}
	res.probeTyped = make([]bool, len(sc.probeTyped))
	res.passMs = -1
	var prevFwd []byte
	var readerr []string
	for _, w := range tw {
		it, ok := c19TermItem(w.b)
		if !ok {
			continue
		}
		if it == "h" {
			readerr = append(readerr, "0")
		}
		if it == "mIO" && len(readerr) > 0 {
			readerr[len(readerr)-1] = "1"
			// handleZmodemError (reader) and checkClientExited run concurrently: the order of
			// their two messages is not determined; canonical order: the read error first
			if n := len(res.term); n > 0 && (res.term[n-1] == "mOK" || strings.HasPrefix(res.term[n-1], "mX")) {
				res.term = append(res.term[:n-1], it, res.term[n-1])
				prevFwd = nil
				continue
			}
		}
		res.term = append(res.term, it)
		if it == "h" && prevFwd != nil {
			res.startedOn = append(res.startedOn, prevFwd)
		}
		prevFwd = nil
		if it[0] == 'f' {
			prevFwd = w.b
			if sc.probeOut != nil && bytes.Equal(w.b, sc.probeOut) {
				res.probeOut = true
			}
		}
	}
	for _, w := range sw {
		res.srv = append(res.srv, c19SrvItem(w.b))
		if res.passMs < 0 && bytes.Equal(w.b, []byte("\r")) {
			// time from the last scripted event before it to the cleanup "\r"
			at := int(w.at / time.Millisecond)
			prev := 0
			for _, e := range sc.evs {
				if e.t <= at {
					prev = e.t
				}
			}
			res.passMs = at - prev
		}
		for k, p := range sc.probeTyped {
			if bytes.Equal(w.b, p) {
				res.probeTyped[k] = true
			}
		}
		if bytes.Equal(w.b, []byte{3}) && int(w.at/time.Millisecond) >= sc.probeStart-100 {
			res.probeCtrlC++
		}
	}
	flags := "none"
	lastMu.Lock()
	lastSeen := last
	lastMu.Unlock()
	if lastSeen == nil {
		for _, it := range res.term {
			if it == "h" { // a session came and went between two polls (the machine stalled): not a usable run
				res.driftMs = 999
			}
		}
	}
	if lastSeen != nil {
		f := lastSeen.Flags()
		var b strings.Builder
		for _, x := range f {
			if x {
				b.WriteByte('1')
			} else {
				b.WriteByte('0')
			}
		}
		flags = b.String()
	}
	j := func(v []string) string {
		if len(v) == 0 {
			return "-"
		}
		return strings.Join(v, ",")
	}
	p := "0"
	if ptr {
		p = "1"
	}
	res.readerr = j(readerr)
	res.canon = "T=" + j(res.term) + "|S=" + j(res.srv) + "|H=" + hx(stdin) + "|F=" + flags + "|P=" + p + "|L=" + strconv.Itoa(res.launches)
	if rr == nil {
		res.canon += "|R=-"
	} else {
		rr.mu.Lock()
		res.remoteWait = rr.waiting
		if remoteLate > res.driftMs {
			res.driftMs = remoteLate
		}
		rr.mu.Unlock()
		if res.remoteWait {
			res.canon += "|R=waiting"
		} else {
			res.canon += "|R=done"
		}
		for _, it := range res.term {
			if it == "h" {
				res.sessions++
			}
			if it == "f"+hx(sc.remote.prompt) {
				res.prompt = true
			}
		}
		for _, it := range res.srv {
			if it == "d0d" {
				res.enterSent = true
			}
		}
	}
	return
}

// ---- generator ----

func c19Hex12(c *ctx) []byte {
	const d = "0123456789abcdef"
	b := make([]byte, 12)
	for i := range b {
		b[i] = d[c.rng.Intn(16)]
	}
	return b
}

func c19Init(c *ctx, up bool) []byte {
	d := byte('0')
	if up {
		d = '1'
	}
	return append(append([]byte("**\x18B0"), d), c19Hex12(c)...)
}

func c19Finish(c *ctx) []byte { return append([]byte("**\x18B08"), c19Hex12(c)...) }

var c19Tag int

func c19Uniq(prefix string) []byte {
	c19Tag++
	return []byte(fmt.Sprintf("<%s%03d>", prefix, c19Tag))
}

// a header chunk; veto > 0 adds a cancel (1) or cannot-open (2) that must prevent the start
func c19HeaderChunk(c *ctx, up bool, veto int) []byte {
	var b []byte
	if c.rng.Intn(2) == 0 {
		if up {
			b = append(b, "rz waiting to receive."...)
		} else {
			b = append(b, "rz\r"...)
		}
	}
	if veto == 2 && c.rng.Intn(2) == 0 {
		b = append(b, "sz: cannot open x: No such file\r\n"...)
		veto = 0
	}
	b = append(b, c19Init(c, up)...)
	if c.rng.Intn(2) == 0 {
		b = append(b, "\r\x8a\x11"...)
	}
	if c.rng.Intn(8) == 0 { // a second header of the other direction later in the chunk: the leftmost wins
		b = append(b, c19Init(c, !up)...)
	}
	switch veto {
	case 1:
		if c.rng.Intn(2) == 0 {
			b = append(b, c19CancelFull...)
		} else {
			b = append(b, c19CancelSub...)
		}
	case 2:
		b = append(b, "sz: cannot open y: No such file\r\n"...)
	}
	return b
}

func c19ServerChunk(c *ctx) ([]byte, string) {
	switch c.rng.Intn(9) {
	case 0, 1:
		return append(c19Uniq("f"), c19Finish(c)...), "srv-finish"
	case 2: // a finish header in a chunk of 50 bytes or more does not count
		b := append(c19Uniq("F"), c19Finish(c)...)
		for len(b) < 50+c.rng.Intn(3) {
			b = append(b, '.')
		}
		if c.rng.Intn(2) == 0 {
			b = b[:49+c.rng.Intn(2)] // 49 or 50 bytes: around the bound
		}
		return b, "srv-finish-long"
	case 3:
		return append(c19Uniq("c"), c19CancelFull...), "srv-cancel"
	case 4:
		return append(c19Uniq("n"), "sz: cannot open z\r\n"...), "srv-cannot-open"
	case 5:
		// a later session is always a download: OneTimeUpload serves one upload only, a second
		// upload would end in the file dialog whatever the scenario's launch outcome is
		return append(c19Uniq("i"), c19Init(c, false)...), "srv-header-again"
	case 6:
		return append(c19Uniq("4"), "\x18\x18\x18\x18"...), "srv-cancel-short"
	default:
		return append(c19Uniq("d"), "data\x18\x40zz"...), "srv-data"
	}
}

func c19Scen(c *ctx, launch string) *c19Scenario {
	sc := &c19Scenario{launch: launch, autoexit: -1}
	tag := func(s string) { sc.tags = append(sc.tags, s) }
	tag("launch:" + launch)
	up := c.rng.Intn(2) == 0
	veto := 0
	if c.rng.Intn(8) == 0 {
		veto = 1 + c.rng.Intn(2)
		tag("header-with-veto")
	}
	if launch == "ok" {
		switch c.rng.Intn(6) {
		case 0:
			sc.autoexit = 0
			tag("helper-exits-at-once-0")
		case 1:
			sc.autoexit = 3
			tag("helper-exits-at-once-3")
		}
	}
	if launch == "ok" && sc.autoexit < 0 && c.rng.Intn(3) == 0 {
		sc.greet = c19Greets[c.rng.Intn(len(c19Greets))]
		tag("helper-greets")
	}
	const slot = 400
	t := 0
	if c.rng.Intn(4) == 0 { // some pass-through traffic before the session
		sc.evs = append(sc.evs, c19Ev{t: t, kind: 's', data: c19Uniq("pre")})
		t += slot
		sc.evs = append(sc.evs, c19Ev{t: t, kind: 'i', data: c19Uniq("kbd")})
		t += slot
	}
	sc.evs = append(sc.evs, c19Ev{t: t, kind: 's', data: c19HeaderChunk(c, up, veto)})
	if up {
		tag("upload")
	} else {
		tag("download")
	}
	// the early event: before handleZmodemEvent wakes up
	switch c.rng.Intn(10) {
	case 0:
		sc.evs = append(sc.evs, c19Ev{t: t + 40, kind: 's', data: append(c19Uniq("ec"), c19CancelFull...)})
		tag("early-server-cancel")
	case 1:
		sc.evs = append(sc.evs, c19Ev{t: t + 40, kind: 's', data: append(c19Uniq("en"), "rz: cannot open x\r\n"...)})
		tag("early-cannot-open")
	case 2:
		sc.evs = append(sc.evs, c19Ev{t: t + 40, kind: 'i', data: []byte{3}})
		tag("early-ctrl-c")
	case 3:
		sc.evs = append(sc.evs, c19Ev{t: t + 40, kind: 's', data: c19Uniq("ed")})
		tag("early-data")
	}
	n := c.rng.Intn(7)
	for i := 0; i < n; i++ {
		t += slot
		switch c.rng.Intn(10) {
		case 0, 1, 2:
			b, what := c19ServerChunk(c)
			sc.evs = append(sc.evs, c19Ev{t: t, kind: 's', data: b})
			tag(what)
		case 3, 4:
			if c.rng.Intn(2) == 0 {
				b := append(c19Uniq("hf"), c19Finish(c)...)
				if c.rng.Intn(4) == 0 {
					for len(b) < 50 {
						b = append(b, '_')
					}
				}
				sc.evs = append(sc.evs, c19Ev{t: t, kind: 'o', data: b})
				tag("helper-finish")
			} else {
				sc.evs = append(sc.evs, c19Ev{t: t, kind: 'o', data: c19Uniq("ho")})
				tag("helper-data")
			}
		case 5, 6:
			code := []int{0, 0, 3, 1}[c.rng.Intn(4)]
			sc.evs = append(sc.evs, c19Ev{t: t, kind: 'x', code: code})
			tag(fmt.Sprintf("helper-exit-%d", code))
		case 7, 8:
			sc.evs = append(sc.evs, c19Ev{t: t, kind: 'i', data: []byte{3}})
			tag("ctrl-c")
		default:
			sc.evs = append(sc.evs, c19Ev{t: t, kind: 'i', data: c19Uniq("k")})
			tag("typed")
		}
	}
	sc.ended = c19Ended(sc)
	c19AddProbe(sc, t, slot)
	return sc
}

// what lrzsz prints when it starts
var c19Greets = [][]byte{
	[]byte("**\x18B0100000023be50\r\x8a\x11"),
	[]byte("rz waiting to receive.**\x18B0100000023be50\r\x8a\x11"),
	[]byte("**\x18B00000000000000\r\x8a\x11"),
}

// c19GraceScen: the remote side gives up (or the user does) INSIDE the grace period of
// handleZmodemEvent - the header, then 15 or 40 ms later and in a separate read the
// cancel sequence / "cannot open " / a typed Ctrl-C - followed by ordinary shell traffic
// in both directions.  The helper, were it started, would greet like lrzsz does.
func c19GraceScen(c *ctx, launch string) *c19Scenario {
	sc := &c19Scenario{launch: launch, autoexit: -1}
	tag := func(s string) { sc.tags = append(sc.tags, s) }
	tag("launch:" + launch)
	tag("grace-stratum")
	sc.greet = c19Greets[c.rng.Intn(len(c19Greets))]
	const slot = 400
	t := 0
	if c.rng.Intn(2) == 0 {
		sc.evs = append(sc.evs, c19Ev{t: t, kind: 'i', data: []byte("sz -e big.bin\r")})
		t += slot
		sc.evs = append(sc.evs, c19Ev{t: t, kind: 's', data: append(c19Uniq("echo"), "sz -e big.bin\r\n"...)})
		t += slot
	}
	up := c.rng.Intn(2) == 0
	if up {
		tag("upload")
	} else {
		tag("download")
	}
	sc.evs = append(sc.evs, c19Ev{t: t, kind: 's', data: c19HeaderChunk(c, up, 0)})
	delta := []int{15, 40}[c.rng.Intn(2)]
	switch c.rng.Intn(5) {
	case 0:
		sc.evs = append(sc.evs, c19Ev{t: t + delta, kind: 's', data: append(append([]byte(nil), c19CancelFull...), "\r\n$ "...)})
		tag("grace-cancel-full")
	case 1:
		sc.evs = append(sc.evs, c19Ev{t: t + delta, kind: 's', data: append(c19Uniq("x"), c19CancelSub...)})
		tag("grace-cancel-sub")
	case 2:
		sc.evs = append(sc.evs, c19Ev{t: t + delta, kind: 's', data: append(c19Uniq("n"), "sz: cannot open big.bin: No such file or directory\r\n$ "...)})
		tag("grace-cannot-open")
	case 3:
		b := append(c19Uniq("m"), "sz: cannot open a\r\n"...)
		sc.evs = append(sc.evs, c19Ev{t: t + delta, kind: 's', data: append(b, c19CancelFull...)})
		tag("grace-cannot-open+cancel")
	default:
		sc.evs = append(sc.evs, c19Ev{t: t + delta, kind: 'i', data: []byte{3}})
		tag("grace-ctrl-c")
	}
	n := 2 + c.rng.Intn(4)
	for i := 0; i < n; i++ {
		t += slot
		if c.rng.Intn(2) == 0 {
			sc.evs = append(sc.evs, c19Ev{t: t, kind: 'i', data: append(c19Uniq("ls"), '\r')})
		} else {
			sc.evs = append(sc.evs, c19Ev{t: t, kind: 's', data: append(c19Uniq("out"), "\r\n$ "...)})
		}
	}
	sc.ended = c19Ended(sc)
	c19AddProbe(sc, t, slot)
	return sc
}

var c19Prompt = []byte("\r\nPROMPT$ ")

// c19RemoteScen: the remote side is a program that behaves like lrzsz' sz / rz (c19Remote):
// it repeats its header every 1.1 s until it is sent the cancel sequence.  Helpers that exit
// 0 / non-zero at once, later (mid-transfer), after a completed exchange, or only by the
// kill after Ctrl-C; helpers that cannot be started; helpers that never exit.
func c19RemoteScen(c *ctx, launch string) *c19Scenario {
	sc := &c19Scenario{launch: launch, autoexit: -1}
	tag := func(s string) { sc.tags = append(sc.tags, s) }
	tag("launch:" + launch)
	tag("remote-stratum")
	const slot = 400
	t := 0
	if c.rng.Intn(3) == 0 {
		sc.evs = append(sc.evs, c19Ev{t: t, kind: 'i', data: []byte("sz big.bin\r")})
		t += slot
	}
	up := c.rng.Intn(2) == 0
	hdr := c19HeaderChunk(c, up, 0)
	sc.remote = &c19Remote{t0: t, period: 1100, max: 3, hdr: hdr, prompt: c19Prompt}
	sc.evs = append(sc.evs, c19Ev{t: t, kind: 's', data: hdr})
	if launch == "ok" {
		switch c.rng.Intn(5) {
		case 0:
			sc.autoexit = 0
			tag("remote:helper-exits-at-once-0")
		case 1:
			sc.autoexit = []int{1, 3}[c.rng.Intn(2)]
			tag("remote:helper-exits-at-once-nonzero")
		default:
			if c.rng.Intn(2) == 0 {
				sc.greet = c19Greets[c.rng.Intn(len(c19Greets))]
			}
		}
	}
	switch plan := c.rng.Intn(6); {
	case sc.autoexit >= 0 || launch != "ok":
		// nothing more: the exit / the failure is the whole story
	case plan == 0: // a completed exchange, then the helper exits 0
		t += slot
		sc.evs = append(sc.evs, c19Ev{t: t, kind: 'o', data: c19Uniq("zdata")})
		t += slot
		sc.evs = append(sc.evs, c19Ev{t: t, kind: 's', data: c19Finish(c)})
		t += slot
		sc.evs = append(sc.evs, c19Ev{t: t, kind: 'o', data: c19Finish(c)})
		t += slot
		sc.evs = append(sc.evs, c19Ev{t: t, kind: 'x', code: 0})
		tag("remote:completed-then-exit-0")
	case plan == 1: // Ctrl-C, a helper that ignores everything: only the kill ends it
		t += slot * (1 + c.rng.Intn(4))
		sc.evs = append(sc.evs, c19Ev{t: t, kind: 'i', data: []byte{3}})
		tag("remote:ctrl-c-then-kill")
	case plan == 2: // never ends by itself: the probe's Ctrl-C will end it
		tag("remote:helper-never-exits")
	default: // mid-transfer exit, any status, after some traffic
		n := c.rng.Intn(4)
		for i := 0; i < n; i++ {
			t += slot
			if c.rng.Intn(2) == 0 {
				sc.evs = append(sc.evs, c19Ev{t: t, kind: 'o', data: c19Uniq("zd")})
			} else {
				sc.evs = append(sc.evs, c19Ev{t: t, kind: 'i', data: c19Uniq("k")})
			}
		}
		t += slot
		code := []int{0, 0, 0, 1, 3}[c.rng.Intn(5)]
		sc.evs = append(sc.evs, c19Ev{t: t, kind: 'x', code: code})
		tag(fmt.Sprintf("remote:mid-transfer-exit-%d", code))
	}
	// then the user works in the shell again
	for i, n := 0, c.rng.Intn(3); i < n; i++ {
		t += slot
		sc.evs = append(sc.evs, c19Ev{t: t, kind: 'i', data: append(c19Uniq("cmd"), '\r')})
	}
	sc.ended = c19Ended(sc)
	c19AddProbe(sc, t, slot)
	return sc
}

// c19RemoteOracle, judged on the real filter and the scripted remote program only: one remote
// program is one session and at most one helper; when the session has ended the remote
// program must have been sent the cancel sequence (or have finished), and the shell's prompt
// must come back.
func c19RemoteOracle(c *ctx, sc *c19Scenario, r *c19Result, scen, detail string) {
	if sc.remote == nil {
		return
	}
	c.count("oracle:remote-program")
	if r.launches > 1 {
		c.violate("helper-relaunched:"+scen,
			fmt.Sprintf("one remote zmodem program made the filter start the local helper %d times", r.launches), detail)
	}
	if r.sessions > 1 {
		c.violate("session-restarted:"+scen,
			fmt.Sprintf("one remote zmodem program took the terminal away %d times: the session keeps coming back", r.sessions), detail)
	}
	if sc.ended && r.remoteWait {
		c.violate("remote-left-waiting:"+scen,
			"the session has ended (helper gone, could not be started, or Ctrl-C) but the remote zmodem program, which was still waiting, was never sent the cancel sequence", detail)
	}
	if sc.ended && r.enterSent && !r.prompt {
		c.violate("prompt-never-came-back:"+scen,
			"the session has ended and the clean-up CR was sent, but no shell prompt came back to the terminal", detail)
	}
}

// c19Ended: does the script leave no session running?  (Implementation-side reasoning
// only, deliberately conservative: when in doubt the session counts as still running and
// the probe oracles do not apply.)
func c19Ended(sc *c19Scenario) bool {
	live := false
	hdrAt := -1
	for _, e := range sc.evs {
		switch {
		case e.kind == 's' && !live && trzsz.VerifDetectZmodem(e.data) >= 0:
			live = sc.launch == "ok" && sc.autoexit < 0
			hdrAt = e.t
		case e.kind == 's' && live && e.t > hdrAt && e.t < hdrAt+100 && (bytes.Contains(e.data, c19CancelSub) || bytes.Contains(e.data, c19CannotOpen)):
			live = false // the server gave up before the helper was started
		case e.kind == 'x' && live && e.t >= hdrAt+400:
			live = false
		case e.kind == 'i' && live && len(e.data) == 1 && e.data[0] == 3:
			live = false
		}
	}
	return !live
}

// the probe, judged on the real filter only (c19Oracles): after four slots (1.6 s) in which
// the server writes nothing the USER goes first - a text, a lone Ctrl-C, a text, a lone
// Ctrl-C, the remote still silent - then the server prints a unique text, then the user
// types once more; the run ends 700 ms after that
func c19AddProbe(sc *c19Scenario, t, slot int) {
	t += 4 * slot
	sc.probeStart = t
	sc.probeOut = c19Uniq("PROBE-OUT-")
	sc.probeTyped = [][]byte{c19Uniq("probe-in-a-"), c19Uniq("probe-in-b-"), c19Uniq("probe-in-c-")}
	sc.evs = append(sc.evs,
		c19Ev{t: t, kind: 'i', data: sc.probeTyped[0]},
		c19Ev{t: t + slot, kind: 'i', data: []byte{3}},
		c19Ev{t: t + 2*slot, kind: 'i', data: sc.probeTyped[1]},
		c19Ev{t: t + 3*slot, kind: 'i', data: []byte{3}},
		c19Ev{t: t + 4*slot, kind: 's', data: sc.probeOut},
		c19Ev{t: t + 5*slot, kind: 'i', data: sc.probeTyped[2]})
	sc.horizon = t + 5*slot + 700
}

// hand-written scenarios: the defect of the pinned code and the paths the property text names
func c19Corpus(c *ctx) []*c19Scenario {
	var out []*c19Scenario
	hdr := func(up bool) []byte {
		if up {
			return []byte("**\x18B0100000023be50\r\x8a\x11")
		}
		return []byte("rz\r**\x18B00000000000000\r\x8a\x11")
	}
	fin := []byte("**\x18B0800000000022d\r\x8a")
	mk := func(launch string, autoexit int, ended bool, tag string, evs ...c19Ev) {
		sc := &c19Scenario{launch: launch, autoexit: autoexit, ended: ended, tags: []string{"corpus", "launch:" + launch, tag}}
		sc.evs = evs
		t := 0
		if len(evs) > 0 {
			t = evs[len(evs)-1].t
		}
		c19AddProbe(sc, t, 400)
		out = append(out, sc)
	}
	for _, up := range []bool{false, true} {
		// the helper cannot be started / the chooser fails, then the server is quiet
		mk("fail", -1, true, "quiet-after-launch-failure", c19Ev{t: 0, kind: 's', data: hdr(up)})
		mk("chooser", -1, true, "quiet-after-chooser-error", c19Ev{t: 0, kind: 's', data: hdr(up)})
		// a complete transfer: both sides finish, over-and-out, the helper exits 0
		mk("ok", -1, true, "complete", c19Ev{t: 0, kind: 's', data: hdr(up)},
			c19Ev{t: 400, kind: 'o', data: []byte("**\x18B0100000023be50")},
			c19Ev{t: 800, kind: 's', data: fin}, c19Ev{t: 1200, kind: 'o', data: fin},
			c19Ev{t: 1600, kind: 's', data: []byte("OO")}, c19Ev{t: 2000, kind: 'x', code: 0})
		mk("ok", -1, true, "complete-client-first", c19Ev{t: 0, kind: 's', data: hdr(up)},
			c19Ev{t: 400, kind: 'o', data: fin}, c19Ev{t: 800, kind: 's', data: fin},
			c19Ev{t: 1200, kind: 'o', data: []byte("late output after both finished")},
			c19Ev{t: 2000, kind: 's', data: []byte("swallowed-then-rearm")})
		// the helper never says anything, the user gives up
		mk("ok", -1, true, "silent-helper-ctrl-c", c19Ev{t: 0, kind: 's', data: hdr(up)},
			c19Ev{t: 400, kind: 's', data: []byte("ZRQINIT again")}, c19Ev{t: 800, kind: 'i', data: []byte{3}},
			c19Ev{t: 1200, kind: 's', data: append([]byte("srv-cancel-echo"), c19CancelFull...)})
		// a helper that ignores the cancel sequence on its stdin, never writes and just sleeps:
		// after Ctrl-C only the scheduled kill ends it; the server says nothing any more
		mk("ok", -1, true, "deaf-helper-ctrl-c-quiet-server", c19Ev{t: 0, kind: 's', data: hdr(up)},
			c19Ev{t: 400, kind: 'i', data: []byte{3}})
		// the helper fails, the server says nothing any more
		mk("ok", -1, true, "helper-exit-3-quiet-server", c19Ev{t: 0, kind: 's', data: hdr(up)},
			c19Ev{t: 400, kind: 'x', code: 3})
		mk("ok", 1, true, "helper-exits-at-once-1-quiet-server", c19Ev{t: 0, kind: 's', data: hdr(up)})
		// the server cancels after the helper has started; the helper exits 1 on that
		mk("ok", -1, true, "server-cancels-late", c19Ev{t: 0, kind: 's', data: hdr(up)},
			c19Ev{t: 400, kind: 's', data: c19CancelFull}, c19Ev{t: 800, kind: 'x', code: 1})
		// the server keeps sending after the session has stopped: every chunk re-arms
		mk("ok", 3, true, "server-keeps-sending", c19Ev{t: 0, kind: 's', data: hdr(up)},
			c19Ev{t: 400, kind: 's', data: []byte("more-1")}, c19Ev{t: 800, kind: 's', data: []byte("more-2")},
			c19Ev{t: 1200, kind: 's', data: []byte("more-3")})
	}
	return out
}

// the 20 s timers: a silent helper (upload: client timer) / a silent server (download: server timer)
func c19Slow(c *ctx) []*c19Scenario {
	var out []*c19Scenario
	for _, up := range []bool{false, true} {
		sc := &c19Scenario{launch: "ok", autoexit: -1, ended: true, tags: []string{"slow", "launch:ok", "timer-20s"}}
		sc.evs = []c19Ev{{t: 0, kind: 's', data: c19Init(c, up)}}
		if up {
			sc.evs = append(sc.evs, c19Ev{t: 400, kind: 'o', data: []byte("**\x18B0100000023be50")})
		} else {
			sc.evs = append(sc.evs, c19Ev{t: 400, kind: 's', data: []byte("ZFILE-ish data")})
		}
		// timeout at 20.4 s (+0.15 for a download: armed at launch... re-armed at 400), kill +0.5 s, cleanup +0.5 s
		c19AddProbe(sc, 20600, 400) // first probe event at 22.2 s
		out = append(out, sc)
	}
	return out
}

func c19RunAll(scs []*c19Scenario, par int) []c19Result {
	res := make([]c19Result, len(scs))
	sem := make(chan struct{}, par)
	var wg sync.WaitGroup
	for i := range scs {
		wg.Add(1)
		sem <- struct{}{}
		go func(i int) {
			defer wg.Done()
			defer func() { <-sem }()
			// a run in which the harness itself was late with an event (machine overloaded)
			// says nothing about the order of events: repeat it
			for try := 0; try < 3; try++ {
				res[i] = c19Run(scs[i])
				if res[i].driftMs <= 25 {
					break
				}
			}
		}(i)
	}
	wg.Wait()
	return res
}

// c19ParseReplay rebuilds a scenario from the model arguments of a case line
// (launch, autoexit, dlpath, greet, remote, horizon, events), e.g. from a MISMATCH line or a replay file:
//
//	C19_REPLAY='ok|-|1|-|-|3900|0:s:2a2a...;400:i:03' corr zmodem 1 quick /dev/null /dev/null
func c19ParseReplay(spec string) *c19Scenario {
	w := strings.Split(spec, "|")
	if len(w) == 8 { // with the observed read-error list: ignored, it is observed again
		w = append(w[:5], w[6:]...)
	}
	if len(w) != 7 {
		panic("C19_REPLAY: want launch|autoexit|dlpath|greet|remote[|readerr]|horizon|events")
	}
	sc := &c19Scenario{launch: w[0], autoexit: -1}
	if w[3] != "-" {
		sc.greet, _ = hex.DecodeString(w[3])
	}
	if w[4] != "-" {
		f := strings.Split(w[4], ":")
		r := &c19Remote{}
		r.t0, _ = strconv.Atoi(f[0])
		r.period, _ = strconv.Atoi(f[1])
		r.max, _ = strconv.Atoi(f[2])
		r.hdr, _ = hex.DecodeString(f[3])
		r.prompt, _ = hex.DecodeString(f[4])
		sc.remote = r
	}
	w = append(w[:3], w[5:]...)
	if w[1] != "-" {
		sc.autoexit, _ = strconv.Atoi(w[1])
	}
	sc.horizon, _ = strconv.Atoi(w[3])
	if w[4] != "-" {
		for _, e := range strings.Split(w[4], ";") {
			f := strings.Split(e, ":")
			t, _ := strconv.Atoi(f[0])
			ev := c19Ev{t: t, kind: f[1][0]}
			if ev.kind == 'x' {
				ev.code, _ = strconv.Atoi(f[2])
			} else if f[2] != "-" {
				ev.data, _ = hex.DecodeString(f[2])
			}
			sc.evs = append(sc.evs, ev)
		}
	}
	// recognise the probe tail (text, ^C, text, ^C, server text, text) so that the direct
	// oracles judge the replay too
	if n := len(sc.evs); n >= 6 {
		p := sc.evs[n-6:]
		isC := func(e c19Ev) bool { return e.kind == 'i' && len(e.data) == 1 && e.data[0] == 3 }
		if p[0].kind == 'i' && isC(p[1]) && p[2].kind == 'i' && isC(p[3]) && p[4].kind == 's' && p[5].kind == 'i' {
			all := sc.evs
			sc.evs = all[:n-6]
			sc.ended = c19Ended(sc)
			sc.evs = all
			sc.probeStart = p[0].t
			sc.probeTyped = [][]byte{p[0].data, p[2].data, p[5].data}
			sc.probeOut = p[4].data
		}
	}
	return sc
}

var c19Debug = os.Getenv("C19_DEBUG") != ""

func genZmodemGroup(c *ctx) {
	if spec := os.Getenv("C19_REPLAY"); spec != "" {
		exe, _ := os.Executable()
		bindir, _ := os.MkdirTemp("", "c19bin")
		defer os.RemoveAll(bindir)
		sc := c19ParseReplay(spec)
		if sc.launch != "absent" {
			os.Symlink(exe, filepath.Join(bindir, "rz"))
			os.Symlink(exe, filepath.Join(bindir, "sz"))
		}
		os.Setenv("PATH", bindir)
		os.Setenv("C19_HELPER", "1")
		c19Debug = true
		r := c19Run(sc)
		fmt.Fprintln(os.Stderr, r.canon)
		args := append([]string{"1"}, sc.modelArgs(r.readerr)...)
		c.emit(true, "zmodem_run", r.canon, args...)
		c19Oracles(c, sc, &r, args)
		for _, v := range c.violations {
			fmt.Fprintf(os.Stderr, "VIOLATED %s: %s\n", v["key"], v["what"])
		}
		return
	}
	c19Detect(c)

	// PATH: one temp bin dir holding rz and sz (symlinks to this binary); nothing else, so
	// no dialog tool can be found either
	exe, err := os.Executable()
	if err != nil {
		panic(err)
	}
	bindir, err := os.MkdirTemp("", "c19bin")
	if err != nil {
		panic(err)
	}
	defer os.RemoveAll(bindir)
	empty, _ := os.MkdirTemp("", "c19empty")
	defer os.RemoveAll(empty)
	for _, n := range []string{"rz", "sz"} {
		if err := os.Symlink(exe, filepath.Join(bindir, n)); err != nil {
			panic(err)
		}
	}
	oldPath := os.Getenv("PATH")
	defer os.Setenv("PATH", oldPath)
	os.Setenv("C19_HELPER", "1")
	c19CrashProbe(c, exe, bindir)

	var present, absent []*c19Scenario
	present = append(present, c19Corpus(c)...)
	for i, n := 0, c.pick(40, 300); i < n; i++ {
		switch r := c.rng.Intn(10); {
		case r < 7:
			present = append(present, c19GraceScen(c, "ok"))
		case r < 8:
			present = append(present, c19GraceScen(c, "fail"))
		case r < 9:
			present = append(present, c19GraceScen(c, "chooser"))
		default:
			absent = append(absent, c19GraceScen(c, "absent"))
		}
	}
	for i, n := 0, c.pick(50, 400); i < n; i++ {
		switch r := c.rng.Intn(10); {
		case r < 7:
			present = append(present, c19RemoteScen(c, "ok"))
		case r < 8:
			present = append(present, c19RemoteScen(c, "fail"))
		case r < 9:
			present = append(present, c19RemoteScen(c, "chooser"))
		default:
			absent = append(absent, c19RemoteScen(c, "absent"))
		}
	}
	nRandom := c.pick(150, 1500)
	for i := 0; i < nRandom; i++ {
		switch r := c.rng.Intn(20); {
		case r < 13:
			present = append(present, c19Scen(c, "ok"))
		case r < 15:
			present = append(present, c19Scen(c, "fail"))
		case r < 17:
			present = append(present, c19Scen(c, "chooser"))
		default:
			absent = append(absent, c19Scen(c, "absent"))
		}
	}
	{ // the defect's exact shape also with the helper missing from PATH
		for _, h := range [][]byte{[]byte("rz\r**\x18B00000000000000\r\x8a\x11"), []byte("**\x18B0100000023be50\r\x8a\x11")} {
			sc := &c19Scenario{launch: "absent", autoexit: -1, ended: true, tags: []string{"corpus", "launch:absent", "quiet-after-launch-failure"}}
			sc.evs = []c19Ev{{t: 0, kind: 's', data: h}}
			c19AddProbe(sc, 0, 400)
			absent = append(absent, sc)
		}
	}
	// longest first, so that the tail of each phase is short
	sort.SliceStable(present, func(i, j int) bool { return present[i].horizon > present[j].horizon })
	sort.SliceStable(absent, func(i, j int) bool { return absent[i].horizon > absent[j].horizon })

	const par = 40
	os.Setenv("PATH", bindir)
	slow := c19Slow(c)
	var slowRes []c19Result
	var slowWG sync.WaitGroup
	slowWG.Add(1)
	go func() { defer slowWG.Done(); slowRes = c19RunAll(slow, len(slow)) }()
	presentRes := c19RunAll(present, par)
	slowWG.Wait() // the slow ones need rz/sz on PATH only at launch, but keep the phases apart anyway
	os.Setenv("PATH", empty)
	absentRes := c19RunAll(absent, par)
	os.Setenv("PATH", oldPath)

	all := append(append(append([]*c19Scenario{}, present...), slow...), absent...)
	allRes := append(append(append([]c19Result{}, presentRes...), slowRes...), absentRes...)
	for i, sc := range all {
		r := allRes[i]
		for _, t := range sc.tags {
			c.count(t)
		}
		if r.aborted {
			c.count("aborted:session-goroutine-not-begun-in-35ms")
			continue
		}
		args := append([]string{"1"}, sc.modelArgs(r.readerr)...)
		if r.driftMs > 25 {
			c.count("harness-late>25ms")
		}
		if strings.Contains(r.readerr, "1") {
			c.count("race:exit-seen-as-read-error")
		}
		c.emit(true, "zmodem_run", r.canon, args...)
		c19Oracles(c, sc, &r, args)
	}
}

func c19Oracles(c *ctx, sc *c19Scenario, r *c19Result, args []string) {
	detail := fmt.Sprintf("scenario launch=%s autoexit=%d events=%s horizon=%d; observed %s; replay: C19_REPLAY='%s|%s|1|%s|%s|%d|%s'",
		sc.launch, sc.autoexit, args[len(args)-1], sc.horizon, r.canon,
		sc.launch, args[2], hx(sc.greet), sc.remote.spec(), sc.horizon, args[len(args)-1])
	// the scenario without its probe tail identifies the failing input
	var pre []string
	for _, e := range sc.evs {
		if e.t >= sc.probeStart {
			break
		}
		if e.kind == 'x' {
			pre = append(pre, fmt.Sprintf("%d:x:%d", e.t, e.code))
		} else {
			pre = append(pre, fmt.Sprintf("%d:%c:%s", e.t, e.kind, hx(e.data)))
		}
	}
	scen := fmt.Sprintf("launch=%s/autoexit=%d/%s", sc.launch, sc.autoexit, strings.Join(pre, ";"))
	scen = fmt.Sprintf("%08x-%s", crc32.ChecksumIEEE([]byte(scen)), scen) // replay file names are cut short
	// Judged on the real filter only, no model involved: c19Ended says (conservatively) that
	// a terminating event happened - helper exit with any code, launch failure, chooser
	// error, Ctrl-C, server cancel before the helper started, no session at all - and the
	// server then wrote nothing for 1.6 s.
	if sc.ended {
		c.count("oracle:session-ended")
		for k, ok := range r.probeTyped {
			if !ok {
				c.violate("typed-input-swallowed:"+scen,
					fmt.Sprintf("the session had ended and the server had written nothing for %.1f s, yet typed text #%d of the probe did not reach the server unchanged",
						1.6+0.8*float64(k), k+1), detail)
				break
			}
		}
		if r.probeCtrlC != 2 {
			c.violate("ctrl-c-swallowed-after-session",
				fmt.Sprintf("the session had ended and the remote was silent, yet only %d of 2 lone Ctrl-C bytes typed afterwards reached the server (%s)", r.probeCtrlC, scen), detail)
		}
		if !r.probeOut {
			c.violate("output-swallowed:"+scen,
				"the session had ended and the server had written nothing for 3.2 s, yet its next output never reached the terminal", detail)
		}
		switch {
		case r.passMs < 0:
			c.count("passthrough:never-cleaned")
		case r.passMs <= 700:
			c.count("passthrough<=0.7s")
		case r.passMs <= 1200:
			c.count("passthrough<=1.2s")
		default:
			c.count("passthrough>1.2s")
		}
	}
	c19GraceOracle(c, sc, r, scen, detail)
	c19RemoteOracle(c, sc, r, scen, detail)
	for _, ch := range r.startedOn {
		if bytes.Contains(ch, c19CancelSub) || bytes.Contains(ch, c19CannotOpen) {
			c.violate("zmodem-start-on-veto:"+hx(ch), "a session was started on a chunk carrying a cancel sequence or 'cannot open '", detail)
		}
	}
}

// c19GraceOracle, judged on the real filter only: the first accepted header of the script
// is followed INSIDE the 100 ms grace period (in a separate read) by the remote side giving
// up, or by Ctrl-C, and no other header follows.  Then no local helper may ever be started;
// after the remote cancel moreover nothing may be written to the server that the user did
// not type, and the terminal must get exactly the server's chunks plus the one hide/show
// pair around the trigger.
func c19GraceOracle(c *ctx, sc *c19Scenario, r *c19Result, scen, detail string) {
	hdr := -1
	for i, e := range sc.evs {
		if e.kind == 's' && trzsz.VerifDetectZmodem(e.data) >= 0 {
			if hdr >= 0 {
				return // a second header: another session may legitimately start
			}
			hdr = i
		}
	}
	if hdr < 0 || hdr+1 >= len(sc.evs) {
		return
	}
	e2 := sc.evs[hdr+1]
	if e2.t <= sc.evs[hdr].t || e2.t >= sc.evs[hdr].t+100 {
		return
	}
	remote := e2.kind == 's' && (bytes.Contains(e2.data, c19CancelSub) || bytes.Contains(e2.data, c19CannotOpen))
	ctrlC := e2.kind == 'i' && len(e2.data) == 1 && e2.data[0] == 3
	switch {
	case remote:
		c.count("oracle:grace-remote-cancel")
		if r.launches != 0 {
			c.violate("helper-started-after-grace-cancel:"+scen,
				fmt.Sprintf("the remote side cancelled %d ms after its zmodem header, inside the grace period, yet %d local helper process(es) were started", e2.t-sc.evs[hdr].t, r.launches), detail)
		}
		var wantSrv, wantTerm []string
		for i, e := range sc.evs {
			switch e.kind {
			case 'i':
				wantSrv = append(wantSrv, "d"+hx(e.data))
			case 's':
				if i == hdr+1 {
					wantTerm = append(wantTerm, "s")
				}
				wantTerm = append(wantTerm, "f"+hx(e.data))
				if i == hdr {
					wantTerm = append(wantTerm, "h")
				}
			}
		}
		if strings.Join(r.srv, ",") != strings.Join(wantSrv, ",") {
			c.violate("injected-after-grace-cancel:"+scen,
				"after a remote cancel inside the grace period the server must receive exactly what the user typed; it received "+
					strings.Join(r.srv, ",")+" instead of "+strings.Join(wantSrv, ","), detail)
		}
		if strings.Join(r.term, ",") != strings.Join(wantTerm, ",") {
			c.violate("terminal-altered-after-grace-cancel:"+scen,
				"after a remote cancel inside the grace period the terminal must receive exactly the server's output (plus one hide/show pair around the trigger); it received "+
					strings.Join(r.term, ",")+" instead of "+strings.Join(wantTerm, ","), detail)
		}
	case ctrlC:
		c.count("oracle:grace-ctrl-c")
		if r.launches != 0 {
			c.violate("helper-started-after-grace-stop:"+scen,
				fmt.Sprintf("the user pressed Ctrl-C %d ms after the zmodem header, inside the grace period, yet %d local helper process(es) were started", e2.t-sc.evs[hdr].t, r.launches), detail)
		}
	}
}

// ---- detectZmodem and the finish expression, directly ----

func c19Detect(c *ctx) {
	try := func(b []byte) {
		d := trzsz.VerifDetectZmodem(b)
		c.emit(d >= 0 || bytes.Contains(b, []byte("**\x18B0")), "zmodem_detect", strconv.Itoa(d), hx(b))
		f := "0"
		if trzsz.VerifZmodemFinishMatch(b) {
			f = "1"
		}
		c.emit(f == "1" || bytes.Contains(b, []byte("**\x18B08")), "zmodem_finish_re", f, hx(b))
		switch {
		case d == 1:
			c.count("detect:upload")
		case d == 0:
			c.count("detect:download")
		default:
			c.count("detect:none")
		}
		if d >= 0 && (bytes.Contains(b, c19CancelSub) || bytes.Contains(b, c19CannotOpen)) {
			c.violate("zmodem-detect-veto:"+hx(b), "detectZmodem starts a session on a buffer carrying a cancel sequence or 'cannot open '", hx(b))
		}
	}
	for _, s := range []string{
		"**\x18B0100000023be50", "**\x18B0100000063f694", "**\x18B00000000000000", "rz\x0d**\x18B00000000000000",
		"**\x18B0100000023be50\x0d\x8a\x11", "rz\x0d**\x18B00000000000000\x0d\x8a\x11",
		"**\x19B0100000023be50\x0d\x8a\x11", "**\x18B0100000023BE50\x0d\x8a\x11", " *\x18B0100000023be50\x0d\x8a\x11",
		"**\x18B0100000023be5", "**\x18B0100000023be50cannot open ", "**\x18B0100000023be50" + string(c19CancelFull),
		"**\x18B0800000000022d", "**\x18B0800000000022", "", "*", "**\x18B0", "**\x18B02000000000000",
	} {
		try([]byte(s))
	}
	pieces := [][]byte{[]byte("*"), []byte("**"), []byte("**\x18"), []byte("**\x18B"), []byte("**\x18B0"), []byte("**\x18B00"),
		[]byte("**\x18B01"), []byte("**\x18B08"), []byte("\x18"), []byte("\x18\x18\x18\x18"), c19CancelSub, c19CannotOpen,
		[]byte("cannot open"), []byte("0123456789ab"), []byte("abcdef012345"), []byte("ABCDEF012345"), []byte("00000000000"),
		[]byte("g"), []byte("\xe2\x82\xac"), []byte("\x8a"), []byte("\xc3"), []byte("2"), []byte("rz\r"), []byte(" ")}
	n := c.pick(4000, 60000)
	for i := 0; i < n; i++ {
		var b []byte
		k := 1 + c.rng.Intn(7)
		for j := 0; j < k; j++ {
			switch c.rng.Intn(6) {
			case 0:
				b = append(b, c19Init(c, c.rng.Intn(2) == 0)...)
			case 1:
				b = append(b, c19Finish(c)...)
			case 2:
				b = append(b, byte(c.rng.Intn(256)))
			default:
				b = append(b, pieces[c.rng.Intn(len(pieces))]...)
			}
		}
		if c.rng.Intn(5) == 0 && len(b) > 0 { // damage one byte
			b[c.rng.Intn(len(b))] = byte(c.rng.Intn(256))
		}
		try(b)
	}
}
