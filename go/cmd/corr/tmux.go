package main

// group "e2e-tmux": REAL transfers through a REAL tmux server.
//
// Every scenario owns a private tmux server (`tmux -L <unique socket> -f /dev/null`, TMUX_TMPDIR
// inside the run's deep TMPDIR; killed with kill-server in a defer, by an in-process timer and by a
// detached `sleep N; tmux kill-server` process that survives the death of this harness; the default
// server is never addressed: TMUX / TMUX_PANE are removed from every environment we build).
//
// Topologies:
//
//	normal   client outside, trz / tsz inside a pane: the server binaries find $TMUX, ask tmux for the
//	         client tty and write the protocol there; the trigger and the final message go through the
//	         pane.  The client is trzsz.NewTrzszFilter (in this process) wired to the master side of a
//	         pty whose slave side is the terminal of `tmux attach`.
//	relay    the same, with `trzsz -r env -u TMUX -u TMUX_PANE sh` running in the pane: the relay is
//	         the program that is inside tmux, the server behind it is not.
//	control  `tmux -CC attach` (control mode) on the pty; the client has a tunnel connector (the
//	         detector accepts a trigger inside %output only with a tunnel); keys are typed the way
//	         iTerm2 does (`send -t %N 0x..`).
//	binary   the real `trzsz` binary (TrzszMain, pty_unix.go) spawning `tmux attach` in its own pty,
//	         itself on a pty owned by the harness; uploads are chosen by a stand-in `zenity`,
//	         downloads go to DefaultDownloadPath of $HOME/.trzsz.conf.
//
// Oracles are direct (c.violate); where a model exists (Model/Noise.v, Model/Buffer.v) the raw
// server->client stream recorded at the pty is replayed through the real recvLine and emitted as
// additional `junk_run` cases for the extracted model.

import (
	"bytes"
	"context"
	"encoding/json"
	"fmt"
	"io"
	"math/rand"
	"net"
	"os"
	"os/exec"
	"path/filepath"
	"regexp"
	"strconv"
	"strings"
	"sync"
	"sync/atomic"
	"syscall"
	"time"

	"github.com/creack/pty"
	"github.com/mattn/go-runewidth"
	"github.com/trzsz/trzsz-go/trzsz"
)

func init() {
	groups["e2e-tmux"] = func(c *ctx) { genTmuxE2E(c, func(s *tmxScn) bool { return true }) }
	// the relay inside tmux only (C13, C14)
	groups["e2e-tmux-relay"] = func(c *ctx) { genTmuxE2E(c, func(s *tmxScn) bool { return s.topo == "relay" }) }
	// progress lines in panes narrower than the terminal and in control mode (C20)
	groups["e2e-tmux-pane"] = func(c *ctx) {
		genTmuxE2E(c, func(s *tmxScn) bool { return s.narrow > 0 || s.name == "c-up" || s.name == "n-up-small" })
	}
}

// ---------------------------------------------------------------------------------------
// a private tmux server

type tmxServer struct {
	sock string   // socket name (-L), or the path of the socket (-S) when sel is "-S"
	sel  string   // "-L" normally; "-S" when TMUX_TMPDIR/tmux-UID/name would not fit into a socket address
	env  []string
	dog  *exec.Cmd
	once sync.Once
	tmr  *time.Timer
}

const tmxPrompt = "tmx$"
const tmxRelayPrompt = "rly$"

func tmxEnviron(tmuxTmp, home, path string) []string {
	drop := map[string]bool{"TMUX": true, "TMUX_PANE": true, "TMUX_TMPDIR": true, "TERM": true, "HOME": true, "PS1": true,
		"LANG": true, "LC_ALL": true, "LC_CTYPE": true, "PATH": true, "ENV": true, "TMXPS": true, "WSL_DISTRO_NAME": true}
	var env []string
	for _, e := range os.Environ() {
		k := e
		if i := strings.IndexByte(e, '='); i >= 0 {
			k = e[:i]
		}
		if !drop[k] {
			env = append(env, e)
		}
	}
	// dash (sh) ignores an inherited PS1 for root: the prompt comes from the file $ENV names
	return append(env, "TMUX_TMPDIR="+tmuxTmp, "TERM=xterm-256color", "HOME="+home, "ENV="+filepath.Join(home, "shrc"),
		"TMXPS="+tmxPrompt, "LANG=C.UTF-8", "LC_ALL=C.UTF-8", "PATH="+path)
}

func (s *tmxServer) run(args ...string) (string, error) {
	cx, cancel := context.WithTimeout(context.Background(), 10*time.Second)
	defer cancel()
	cmd := exec.CommandContext(cx, "tmux", append([]string{"-u", s.sel, s.sock}, args...)...)
	cmd.Env = s.env
	out, err := cmd.CombinedOutput()
	return strings.TrimRight(string(out), "\n"), err
}

// tmxStart creates the server with one detached session "main" of the given size running sh.
func tmxStart(sel, sock string, env []string, cols, rows int, life time.Duration) (*tmxServer, error) {
	s := &tmxServer{sock: sock, sel: sel, env: env}
	// the watchdog outside this process first: whatever happens to the harness, the server dies
	dog := exec.Command("sh", "-c", fmt.Sprintf("sleep %d; exec tmux %s '%s' kill-server", int(life.Seconds())+20, sel, sock))
	dog.Env = env
	dog.SysProcAttr = &syscall.SysProcAttr{Setsid: true}
	if err := dog.Start(); err == nil {
		s.dog = dog
		go dog.Wait()
	}
	cx, cancel := context.WithTimeout(context.Background(), 15*time.Second)
	defer cancel()
	cmd := exec.CommandContext(cx, "tmux", "-u", sel, sock, "-f", "/dev/null", "new-session", "-d", "-s", "main",
		"-x", strconv.Itoa(cols), "-y", strconv.Itoa(rows), "sh")
	cmd.Env = env
	if out, err := cmd.CombinedOutput(); err != nil {
		s.kill()
		return nil, fmt.Errorf("%v: %s", err, strings.TrimSpace(string(out)))
	}
	s.tmr = time.AfterFunc(life, s.kill)
	return s, nil
}

func (s *tmxServer) kill() {
	s.once.Do(func() {
		if s.tmr != nil {
			s.tmr.Stop()
		}
		s.run("kill-server")
		if s.dog != nil && s.dog.Process != nil {
			syscall.Kill(-s.dog.Process.Pid, syscall.SIGKILL)
		}
	})
}

func (s *tmxServer) alive() bool {
	_, err := s.run("list-sessions")
	return err == nil
}

// ---------------------------------------------------------------------------------------
// the client end: a pty whose slave side is the terminal of `tmux attach`

type tmxChunk struct {
	at   time.Duration
	xfer bool // the client was in the transferring state when the chunk was read
	b    []byte
}

type tmxClient struct {
	mode    string // "filter" (in-process NewTrzszFilter), "control" (the same on tmux -CC), "binary" (the trzsz binary)
	paneID  string
	ptmx    *os.File
	cmd     *exec.Cmd
	filter  atomic.Pointer[trzsz.TrzszFilter]
	cliIn   *io.PipeWriter
	t0      time.Time
	mu      sync.Mutex
	raw     []tmxChunk
	term    bytes.Buffer
	c2s     atomic.Int64
	c2sTail []byte
	park    chan struct{}
	dialled atomic.Int32
}

type tmxTap struct{ cl *tmxClient }

func (t tmxTap) Read(p []byte) (int, error) {
	cl := t.cl
	n, err := cl.ptmx.Read(p)
	if n > 0 {
		x := false
		if f := cl.filter.Load(); f != nil {
			x = f.IsTransferringFiles()
		}
		cl.mu.Lock()
		cl.raw = append(cl.raw, tmxChunk{time.Since(cl.t0), x, append([]byte(nil), p[:n]...)})
		cl.mu.Unlock()
		return n, nil
	}
	if err != nil {
		// the filter's output pump spins on any error but io.EOF: park it
		<-cl.park
		return 0, io.EOF
	}
	return 0, nil
}

type tmxInW struct{ cl *tmxClient }

func (w tmxInW) Write(p []byte) (int, error) {
	w.cl.c2s.Add(int64(len(p)))
	w.cl.mu.Lock()
	w.cl.c2sTail = append(w.cl.c2sTail, p...)
	if n := len(w.cl.c2sTail); n > 600 {
		w.cl.c2sTail = append([]byte(nil), w.cl.c2sTail[n-600:]...)
	}
	w.cl.mu.Unlock()
	return w.cl.ptmx.Write(p)
}
func (w tmxInW) Close() error { return nil }

type tmxTermW struct{ cl *tmxClient }

func (w tmxTermW) Write(p []byte) (int, error) {
	w.cl.mu.Lock()
	w.cl.term.Write(p)
	w.cl.mu.Unlock()
	return len(p), nil
}
func (w tmxTermW) Close() error { return nil }

func (cl *tmxClient) termText() string {
	cl.mu.Lock()
	defer cl.mu.Unlock()
	return cl.term.String()
}

func (cl *tmxClient) chunks() []tmxChunk {
	cl.mu.Lock()
	defer cl.mu.Unlock()
	return append([]tmxChunk(nil), cl.raw...)
}

// typeKeys is what the user types (one write)
func (cl *tmxClient) typeKeys(s string) {
	switch cl.mode {
	case "control":
		// iTerm2's tmux integration: letters and digits literally (`send -lt %N abc`), other ASCII keys as hex codes (`send -t %N 0x..`), other text literally
		// (`send -lt %N text`), every command line ended by CR
		b := []byte(s)
		class := func(c byte) int {
			switch {
			case c >= 0x80:
				return 2 // literal text
			case c >= '0' && c <= '9' || c >= 'A' && c <= 'Z' || c >= 'a' && c <= 'z':
				return 1 // literal keys
			}
			return 0 // hex codes
		}
		for len(b) > 0 {
			n, k := 0, class(b[0])
			for n < len(b) && class(b[n]) == k {
				n++
			}
			var sb strings.Builder
			if k == 0 {
				sb.WriteString("send -t " + cl.paneID)
				for _, c := range b[:n] {
					fmt.Fprintf(&sb, " 0x%x", c)
				}
			} else {
				sb.WriteString("send -lt " + cl.paneID + " " + string(b[:n]))
			}
			sb.WriteString("\r")
			cl.cliIn.Write([]byte(sb.String()))
			b = b[n:]
		}
	case "binary":
		cl.ptmx.Write([]byte(s))
	default:
		cl.cliIn.Write([]byte(s))
	}
}

func (cl *tmxClient) transferring() bool {
	if f := cl.filter.Load(); f != nil {
		return f.IsTransferringFiles()
	}
	return false
}

func (cl *tmxClient) close() {
	if cl.cliIn != nil {
		cl.cliIn.Close()
	}
	if cl.cmd != nil && cl.cmd.Process != nil {
		done := make(chan struct{})
		go func() { cl.cmd.Wait(); close(done) }()
		// the polite way first (the client was detached by the caller): `tmux attach` ends, and with it the trzsz
		// binary around it, by returning from main
		select {
		case <-done:
		case <-time.After(1500 * time.Millisecond):
			cl.cmd.Process.Signal(syscall.SIGHUP)
			select {
			case <-done:
			case <-time.After(2 * time.Second):
				cl.cmd.Process.Kill()
				<-done
			}
		}
	}
	if cl.ptmx != nil {
		cl.ptmx.Close()
	}
}

// tmxAttach starts the client.  mode filter/control: `tmux [-CC] attach` on a fresh pty and the in-process
// filter on its master side; mode binary: `trzsz tmux attach` on a fresh pty read by the harness.
func tmxAttach(s *tmxServer, mode string, cols, rows int, home string) (*tmxClient, error) {
	cl := &tmxClient{mode: mode, t0: time.Now(), park: make(chan struct{})}
	var cmd *exec.Cmd
	switch mode {
	case "control":
		cmd = exec.Command("tmux", "-u", s.sel, s.sock, "-CC", "attach-session", "-t", "main")
	case "binary":
		cmd = exec.Command(filepath.Join(e2eBinDir, "trzsz"), "tmux", "-u", s.sel, s.sock, "attach-session", "-t", "main")
	default:
		cmd = exec.Command("tmux", "-u", s.sel, s.sock, "attach-session", "-t", "main")
	}
	cmd.Env = s.env
	ptmx, err := pty.StartWithSize(cmd, &pty.Winsize{Rows: uint16(rows), Cols: uint16(cols)})
	if err != nil {
		return nil, err
	}
	cl.ptmx, cl.cmd = ptmx, cmd
	if mode == "binary" {
		go func() {
			buf := make([]byte, 32*1024)
			for {
				n, err := ptmx.Read(buf)
				if n > 0 {
					cl.mu.Lock()
					cl.term.Write(buf[:n])
					cl.mu.Unlock()
				}
				if err != nil {
					return
				}
			}
		}()
		return cl, nil
	}
	inR, inW := io.Pipe()
	cl.cliIn = inW
	f := trzsz.NewTrzszFilter(inR, tmxTermW{cl}, tmxInW{cl}, tmxTap{cl}, trzsz.TrzszOptions{TerminalColumns: int32(cols)})
	if mode == "control" {
		f.SetTunnelConnector(func(port int) net.Conn {
			cl.dialled.Add(1)
			conn, err := net.DialTimeout("tcp", fmt.Sprintf("127.0.0.1:%d", port), time.Second)
			if err != nil {
				return nil
			}
			return conn
		})
	}
	cl.filter.Store(f)
	return cl, nil
}

func tmxWait(d time.Duration, step time.Duration, f func() bool) bool {
	end := time.Now().Add(d)
	for {
		if f() {
			return true
		}
		if time.Now().After(end) {
			return false
		}
		time.Sleep(step)
	}
}

// ---------------------------------------------------------------------------------------
// scenarios

type tmxXfer struct {
	upload bool
	flags  []string // flags of trz / tsz
	shape  string   // flat, small, dir, big, one
	end    string   // ok, stop-api, stop-key, stop-delete, sigint, fail-dir
	tie    bool     // small enough to replay the recorded stream on the model
}

type tmxScn struct {
	name    string
	topo    string // normal, relay, control, binary
	cols    int
	rows    int
	narrow  int  // > 0: the transfer runs in a right-hand pane of this width
	status  bool // status-interval 1 and a long, changing status-right
	sync    bool // tell tmux the outer terminal understands synchronized updates (ESC P = 1 s ... ESC P = 2 s)
	xfers   []tmxXfer
	seed    int64
	busy    string // "v": there is a second pane above the one the transfer runs in; "h": to the left of it
	resize  bool   // the user's terminal is resized while the transfer runs
}

type tmxXferResult struct {
	x          tmxXfer
	desc       string
	started    bool
	clientDone bool
	serverBack bool // the shell prompt came back
	uploadErr  error
	rc         string
	dur        time.Duration
	siBefore   string // effective status-interval before / during / after
	siDuring   string
	siAfter    string
	sigBefore  string // global option
	sigAfter   string
	sttyBefore string
	sttyAfter  string
	cursorFlag string
	paneText   string
	paneOwn    string // from the command line of this transfer on
	termText   string // what the client wrote to the user's terminal during this transfer (and after it)
	chunks     []tmxChunk
	diffs      []string
	names      []string
	tops       []string
	dest       string
	notes      []string
	usable     bool
	paneWidth  int
	hup        bool
	c2sTail    string // the last bytes the client wrote towards the server
	lateDone   bool // chatty-stop: the client came back once the other pane had been silenced
}

type tmxResult struct {
	scn       *tmxScn
	err       string // harness-level failure (tmux did not start, attach failed...)
	xfers     []*tmxXferResult
	relayLeft string // status-interval after the relay has exited
	siStart   string
	leftAlive bool // the server survived kill()
	sockGone  bool
	hup       string
	dur       time.Duration
}

func tmxQuote(p string) string { return "'" + strings.ReplaceAll(p, "'", `'\''`) + "'" }

// lastLine returns the last non-empty line of the pane
func tmxLastLine(text string) string {
	ls := strings.Split(text, "\n")
	for i := len(ls) - 1; i >= 0; i-- {
		if t := strings.TrimSpace(ls[i]); t != "" {
			return t
		}
	}
	return ""
}

type tmxRunner struct {
	scn    *tmxScn
	srv    *tmxServer
	cl     *tmxClient
	dir    string
	pane   string
	prompt string
	rng    *rand.Rand
	nx     int
	other  string // id of the second pane, if any
}

func (r *tmxRunner) paneText() string {
	out, _ := r.srv.run("capture-pane", "-p", "-J", "-t", r.pane)
	return out
}

func (r *tmxRunner) fmtq(f string) string {
	out, _ := r.srv.run("display-message", "-p", "-t", r.pane, f)
	return strings.TrimSpace(out)
}

func (r *tmxRunner) waitPrompt(d time.Duration) bool {
	return tmxWait(d, 25*time.Millisecond, func() bool { return tmxLastLine(r.paneText()) == r.prompt })
}

// ask types a shell command that prints tag=<value> and returns the value
func (r *tmxRunner) ask(tag, expr string, d time.Duration) (string, bool) {
	r.cl.typeKeys("echo " + tag + "=" + expr + ".\r")
	re := regexp.MustCompile(`(?m)^` + tag + `=(.*)\.$`)
	var val string
	ok := tmxWait(d, 25*time.Millisecond, func() bool {
		m := re.FindAllStringSubmatch(r.paneText(), -1)
		if len(m) == 0 {
			return false
		}
		val = m[len(m)-1][1]
		return true
	})
	if ok {
		r.waitPrompt(2 * time.Second)
	}
	return val, ok
}

func tmxMakeTree(rng *rand.Rand, root string, shape string) []string {
	mk := func(p string, n int, kind int) string {
		os.MkdirAll(filepath.Dir(p), 0755)
		os.WriteFile(p, fillBytes(rng, n, kind), 0644)
		return p
	}
	s := filepath.Join(root, "s")
	switch shape {
	case "one":
		return []string{mk(filepath.Join(s, "one.bin"), 300+rng.Intn(2500), rng.Intn(4))}
	case "small":
		names := []string{"a.txt", "b b.bin", "üñí-文件.dat", ".hidden", "emoji😀.txt", "name.0"}
		perm := rng.Perm(len(names))
		var tops []string
		for i := 0; i < 1+rng.Intn(3); i++ {
			tops = append(tops, mk(filepath.Join(s, names[perm[i]]), []int{0, 1, 511, 512, 513, 1500, 3000}[rng.Intn(7)], rng.Intn(4)))
		}
		return tops
	case "flat":
		return makeSourceTree(rng, root, 0, false)
	case "dir":
		return makeSourceTree(rng, root, 1, false)
	case "same":
		return makeSourceTree(rng, root, 2, false)
	case "big":
		return []string{mk(filepath.Join(s, "big.bin"), 24<<20+rng.Intn(1<<20), 0)}
	case "medium":
		return []string{mk(filepath.Join(s, "medium.bin"), 1<<20+rng.Intn(1<<20), 0), mk(filepath.Join(s, "text.txt"), 200000+rng.Intn(100000), 2)}
	}
	return nil
}

var tmxSavedRe = regexp.MustCompile(`(?m)^Saved (\d+) (?:file/directory|files/directories)(?: to (.*))?$`)

// names shown in the pane: the last "Saved ..." line and the "- name" lines under it
func tmxParseSaved(pane string) ([]string, bool) {
	loc := tmxSavedRe.FindAllStringIndex(pane, -1)
	if len(loc) == 0 {
		return nil, false
	}
	rest := pane[loc[len(loc)-1][1]:]
	var names []string
	for _, l := range strings.Split(strings.TrimPrefix(rest, "\n"), "\n") {
		if strings.HasPrefix(l, "- ") {
			names = append(names, l[2:])
		} else {
			break
		}
	}
	return names, true
}

func tmxChildren(pid int) []int {
	b, err := os.ReadFile(fmt.Sprintf("/proc/%d/task/%d/children", pid, pid))
	if err != nil {
		return nil
	}
	var out []int
	for _, f := range strings.Fields(string(b)) {
		if n, err := strconv.Atoi(f); err == nil {
			out = append(out, n)
		}
	}
	return out
}

// the trz / tsz process below the pane's shell
func (r *tmxRunner) serverPid() int {
	pid, _ := strconv.Atoi(r.fmtq("#{pane_pid}"))
	for depth := 0; pid > 0 && depth < 6; depth++ {
		exe, _ := os.Readlink(fmt.Sprintf("/proc/%d/exe", pid))
		if b := filepath.Base(exe); b == "trz" || b == "tsz" {
			return pid
		}
		ch := tmxChildren(pid)
		if len(ch) == 0 {
			return 0
		}
		pid = ch[len(ch)-1]
	}
	return 0
}

func (r *tmxRunner) transfer(x tmxXfer) *tmxXferResult {
	res := &tmxXferResult{x: x}
	r.nx++
	root := filepath.Join(r.dir, fmt.Sprintf("x%d", r.nx))
	dest := filepath.Join(root, "dst")
	os.MkdirAll(dest, 0755)
	res.dest = dest
	tops := tmxMakeTree(r.rng, root, x.shape)
	res.tops = tops
	dirn := "download"
	if x.upload {
		dirn = "upload"
	}
	res.desc = fmt.Sprintf("%s %s %s %s flags=%v end=%s", r.scn.name, r.scn.topo, dirn, x.shape, x.flags, x.end)
	cl := r.cl
	if x.end == "fail-dir" && x.upload {
		// the destination already has a non-empty DIRECTORY where the file is to go, and -y is given
		os.MkdirAll(filepath.Join(dest, filepath.Base(tops[0]), "occupied"), 0755)
	}
	res.paneWidth, _ = strconv.Atoi(r.fmtq("#{pane_width}"))
	res.siBefore = r.fmtq("#{status-interval}")
	res.sigBefore, _ = r.srv.run("show-options", "-g", "status-interval")
	res.sttyBefore, _ = r.ask(fmt.Sprintf("pre%d", r.nx), "$(stty -g)", 5*time.Second)
	cl.mu.Lock()
	termFrom := cl.term.Len()
	rawFrom := len(cl.raw)
	cl.mu.Unlock()

	var upCh <-chan error
	var line string
	if x.upload {
		line = strings.TrimSpace("trz "+strings.Join(x.flags, " ")) + " " + tmxQuote(dest)
		if f := cl.filter.Load(); f != nil {
			ch, err := f.OneTimeUpload(tops)
			if err != nil {
				res.notes = append(res.notes, "OneTimeUpload: "+err.Error())
				return res
			}
			upCh = ch
		} else {
			// the trzsz binary asks zenity: our stand-in prints this list
			os.WriteFile(filepath.Join(r.dir, "home", "zenity.answer"), []byte(strings.Join(tops, "\x1e")), 0644)
		}
	} else {
		var q []string
		for _, t := range tops {
			q = append(q, tmxQuote(t))
		}
		line = strings.TrimSpace("tsz "+strings.Join(x.flags, " ")) + " " + strings.Join(q, " ")
		if f := cl.filter.Load(); f != nil {
			f.SetDefaultDownloadPath(dest)
		} else {
			// the trzsz binary read $HOME/.trzsz.conf when it started: DefaultDownloadPath is this directory
			dest = filepath.Join(r.dir, "home", "dl")
			os.RemoveAll(dest)
			os.MkdirAll(dest, 0755)
			res.dest = dest
		}
	}
	t0 := time.Now()
	cl.typeKeys(line + "\r")

	deadline := 30 * time.Second
	stopDelay := 400 * time.Millisecond
	if cl.mode == "control" {
		stopDelay = 0 // over the tunnel 24 MiB take a quarter of a second
	}
	// the transfer starts
	if cl.mode == "binary" {
		res.started = tmxWait(10*time.Second, 10*time.Millisecond, func() bool {
			return strings.Contains(cl.termText()[termFrom:], "::TRZSZGO:TRANSFER:")
		})
	} else {
		res.started = tmxWait(10*time.Second, time.Millisecond, func() bool { return cl.transferring() })
	}
	if res.started {
		// status-interval while the transfer runs (normal mode freezes it)
		if r.scn.resize {
			go func() {
				for i := 0; i < 6; i++ {
					time.Sleep(60 * time.Millisecond)
					pty.Setsize(cl.ptmx, &pty.Winsize{Rows: uint16(r.scn.rows - 1 - i%2), Cols: uint16(r.scn.cols - 3 + i%3)})
				}
				pty.Setsize(cl.ptmx, &pty.Winsize{Rows: uint16(r.scn.rows), Cols: uint16(r.scn.cols)})
			}()
		}
		switch x.end {
		case "ok", "fail-dir":
			if x.shape == "big" || x.shape == "medium" {
				time.Sleep(150 * time.Millisecond)
				res.siDuring = r.fmtq("#{status-interval}")
			}
		case "stop-api":
			time.Sleep(stopDelay)
			res.siDuring = r.fmtq("#{status-interval}")
			if f := cl.filter.Load(); f != nil {
				f.StopTransferringFiles(false)
			}
		case "stop-key", "stop-delete":
			time.Sleep(stopDelay)
			cl.typeKeys("\x03")
			res.siDuring = r.fmtq("#{status-interval}")
			if tmxWait(5*time.Second, 5*time.Millisecond, func() bool {
				return strings.Contains(tmxDecodeControl(cl.termText()[termFrom:]), "Continue to transfer remaining files")
			}) {
				time.Sleep(100 * time.Millisecond)
				if x.end == "stop-delete" {
					cl.typeKeys("j")
					time.Sleep(50 * time.Millisecond)
				}
				cl.typeKeys("\r")
			} else {
				res.notes = append(res.notes, "the stop prompt never appeared")
			}
		case "other-pane-line":
			// a few single lines of output in the other pane while the transfer runs (each scrolls that pane by one line)
			r.srv.run("send-keys", "-t", r.other, "for i in 1 2 3 4 5 6; do sleep 0.12; echo line $i from the other pane; done", "Enter")
			time.Sleep(250 * time.Millisecond)
			res.siDuring = r.fmtq("#{status-interval}")
		case "chatty-stop":
			// the other pane prints a line every 30 ms; the user stops the transfer
			r.srv.run("send-keys", "-t", r.other, "while sleep 0.03; do echo chatter; done", "Enter")
			time.Sleep(400 * time.Millisecond)
			if f := cl.filter.Load(); f != nil {
				f.StopTransferringFiles(false)
			}
			deadline = 6 * time.Second
		case "hup":
			// the pane is closed while the transfer runs (the session lives on in another window)
			time.Sleep(300 * time.Millisecond)
			res.siDuring = r.fmtq("#{status-interval}")
			r.srv.run("new-window", "-d", "-t", "main", "sh")
			r.srv.run("kill-pane", "-t", r.pane)
			// a server that handles the hang-up needs its cleaning time (500 ms of silence) before it restores the option
			tmxWait(2500*time.Millisecond, 100*time.Millisecond, func() bool {
				out, _ := r.srv.run("display-message", "-p", "-t", "main", "#{status-interval}")
				res.siAfter = strings.TrimSpace(out)
				return res.siAfter == res.siBefore
			})
			if f := cl.filter.Load(); f != nil {
				f.StopTransferringFiles(false)
			}
			res.clientDone = tmxWait(10*time.Second, 5*time.Millisecond, func() bool { return !cl.transferring() })
			res.hup = true
			return res
		case "sigint":
			time.Sleep(400 * time.Millisecond)
			res.siDuring = r.fmtq("#{status-interval}")
			if pid := r.serverPid(); pid > 0 {
				syscall.Kill(pid, syscall.SIGINT)
			} else {
				res.notes = append(res.notes, "server process not found")
			}
		}
	}
	// the client is done
	if upCh != nil && res.started {
		select {
		case err := <-upCh:
			res.uploadErr = err
		case <-time.After(deadline):
			res.uploadErr = fmt.Errorf("harness: upload result never arrived")
		}
	}
	if cl.mode != "binary" {
		res.clientDone = tmxWait(deadline-time.Since(t0), time.Millisecond, func() bool { return !cl.transferring() })
	}
	if x.end == "chatty-stop" {
		r.srv.run("kill-pane", "-t", r.other)
		if !res.clientDone {
			res.lateDone = tmxWait(5*time.Second, 5*time.Millisecond, func() bool { return !cl.transferring() })
		}
	}
	// the server is done: the shell's prompt is back
	res.serverBack = r.waitPrompt(deadline - time.Since(t0) + 2*time.Second)
	if cl.mode == "binary" {
		res.clientDone = res.serverBack
	}
	res.dur = time.Since(t0)
	res.siAfter = r.fmtq("#{status-interval}")
	res.sigAfter, _ = r.srv.run("show-options", "-g", "status-interval")
	res.cursorFlag = r.fmtq("#{cursor_flag}")
	res.paneText = r.paneText()
	res.paneOwn = res.paneText
	if i := strings.LastIndex(res.paneText, "\n"+r.prompt+" "+line[:3]); i >= 0 {
		res.paneOwn = res.paneText[i+1:]
	}
	if res.serverBack {
		var ok bool
		res.rc, ok = r.ask(fmt.Sprintf("rc%d", r.nx), "$?:$((40+2))", 5*time.Second)
		res.usable = ok && strings.HasSuffix(res.rc, ":42")
		res.sttyAfter, _ = r.ask(fmt.Sprintf("post%d", r.nx), "$(stty -g)", 5*time.Second)
	}
	time.Sleep(30 * time.Millisecond)
	cl.mu.Lock()
	res.termText = cl.term.String()[termFrom:]
	res.chunks = append([]tmxChunk(nil), cl.raw[rawFrom:]...)
	res.c2sTail = string(cl.c2sTail)
	cl.mu.Unlock()

	// destination
	switch x.end {
	case "ok":
		names, ok := tmxParseSaved(res.paneOwn)
		res.names = names
		if !ok || len(names) != len(tops) {
			res.diffs = append(res.diffs, fmt.Sprintf("names-shown: %q for %d sources", names, len(tops)))
			break
		}
		seen := map[string]bool{}
		for j, top := range tops {
			if seen[names[j]] {
				res.diffs = append(res.diffs, "same-name-twice:"+names[j])
			}
			seen[names[j]] = true
			res.diffs = append(res.diffs, sameTree(top, filepath.Join(dest, names[j]))...)
		}
		ents, _ := os.ReadDir(dest)
		for _, e := range ents {
			if !seen[e.Name()] {
				res.diffs = append(res.diffs, "unreported-entry:"+e.Name())
			}
		}
	case "stop-delete":
		ents, _ := os.ReadDir(dest)
		for _, e := range ents {
			res.diffs = append(res.diffs, "left-after-stop-and-delete:"+e.Name())
		}
	}
	return res
}

// the client's own output in control mode is octal-escaped inside %output lines: undo that for text searches
func tmxDecodeControl(s string) string {
	if !strings.Contains(s, "%output") {
		return s
	}
	var out strings.Builder
	for _, l := range strings.Split(s, "\n") {
		l = strings.TrimRight(l, "\r")
		if !strings.HasPrefix(l, "%output ") {
			out.WriteString(l + "\n")
			continue
		}
		p := strings.SplitN(l, " ", 3)
		if len(p) < 3 {
			continue
		}
		b := p[2]
		for i := 0; i < len(b); i++ {
			if b[i] == '\\' && i+3 < len(b)+0 && i+3 <= len(b)-1+1 {
				if v, err := strconv.ParseUint(b[i+1:i+4], 8, 8); err == nil {
					out.WriteByte(byte(v))
					i += 3
					continue
				}
			}
			out.WriteByte(b[i])
		}
	}
	return out.String()
}

// tmxShortDir: a unix socket path holds 107 bytes.  If dir plus what tmux appends is longer, a symbolic link to dir is
// made in the nearest ancestor that is short enough (still inside the private temporary tree) and returned instead.
func tmxShortDir(dir string, extra int) string {
	if len(dir)+extra <= 100 {
		return dir
	}
	anc := filepath.Dir(dir)
	for len(anc)+24+extra > 100 && len(anc) > 1 {
		anc = filepath.Dir(anc)
	}
	if len(anc) <= 1 || !strings.HasPrefix(dir, anc+"/") {
		return ""
	}
	link := filepath.Join(anc, fmt.Sprintf("tmxl%d", os.Getpid()))
	if _, err := os.Lstat(link); err != nil {
		if err := os.Symlink(dir, link); err != nil {
			if _, err2 := os.Lstat(link); err2 != nil {
				return ""
			}
		}
	}
	return link
}

func tmxRun(root string, idx int, sc *tmxScn) (res *tmxResult) {
	res = &tmxResult{scn: sc}
	t0 := time.Now()
	defer func() { res.dur = time.Since(t0) }()
	defer func() {
		if p := recover(); p != nil {
			res.err = fmt.Sprintf("harness panic: %v", p)
		}
	}()
	dir := filepath.Join(root, fmt.Sprintf("r%d", idx))
	home := filepath.Join(dir, "home")
	fake := filepath.Join(dir, "fakebin")
	tmuxTmp := filepath.Join(root, "t")
	os.MkdirAll(home, 0755)
	os.MkdirAll(fake, 0755)
	os.MkdirAll(tmuxTmp, 0700)
	os.WriteFile(filepath.Join(home, ".trzsz.conf"), []byte("# written by the harness\nDefaultDownloadPath = "+filepath.Join(home, "dl")+"\n"), 0644)
	os.WriteFile(filepath.Join(home, "shrc"), []byte("PS1=\"$TMXPS \"\n"), 0644)
	// the stand-in for the file chooser of the trzsz binary
	os.WriteFile(filepath.Join(fake, "zenity"), []byte("#!/bin/sh\ncat \"$HOME/zenity.answer\" 2>/dev/null || exit 1\n"), 0755)
	sock := fmt.Sprintf("tmx%d-%d", os.Getpid(), idx)
	sel := "-L"
	sockPath := filepath.Join(tmuxTmp, fmt.Sprintf("tmux-%d", os.Getuid()), sock)
	if len(sockPath) > 100 {
		// tmux resolves TMUX_TMPDIR to its real path: name the socket through a short symbolic link instead (-S)
		short := tmxShortDir(tmuxTmp, len(sock)+1)
		if short == "" {
			res.err = "socket path too long"
			return
		}
		sel, sock = "-S", filepath.Join(short, sock)
		sockPath = sock
	}
	env := tmxEnviron(tmuxTmp, home, fake+":"+e2eBinDir+":"+os.Getenv("PATH"))
	srv, err := tmxStart(sel, sock, env, sc.cols, sc.rows, 75*time.Second)
	if err != nil {
		res.err = "tmux did not start: " + err.Error()
		return
	}
	defer func() {
		srv.kill()
		res.leftAlive = srv.alive()
		sp := sockPath
		os.Remove(sp) // tmux leaves the socket file of a killed server behind
		_, e := os.Stat(sp)
		res.sockGone = e != nil
	}()
	if sc.sync {
		srv.run("set-option", "-as", "terminal-features", ",xterm*:sync")
	}
	if sc.status {
		srv.run("set-option", "-g", "status-interval", "1")
		srv.run("set-option", "-g", "status-right-length", "80")
		srv.run("set-option", "-g", "status-right", "#(date +%s) #{pane_current_command} \"#{=21:pane_title}\" %H:%M:%S %d-%b-%y")
	}
	if sc.narrow > 0 {
		srv.run("split-window", "-h", "-l", strconv.Itoa(sc.narrow), "-t", "main", "sh")
	}
	otherPane := ""
	switch sc.busy {
	case "v":
		otherPane, _ = srv.run("split-window", "-v", "-b", "-l", "8", "-d", "-P", "-F", "#{pane_id}", "-t", "main", "sh")
	case "h":
		otherPane, _ = srv.run("split-window", "-h", "-b", "-l", "40", "-d", "-P", "-F", "#{pane_id}", "-t", "main", "sh")
	}
	otherPane = strings.TrimSpace(otherPane)
	if otherPane != "" {
		srv.run("send-keys", "-t", otherPane, "seq 1 40", "Enter") // the pane is full: every further line scrolls it
	}
	mode := map[string]string{"normal": "filter", "relay": "filter", "control": "control", "binary": "binary"}[sc.topo]
	cl, err := tmxAttach(srv, mode, sc.cols, sc.rows, home)
	if err != nil {
		res.err = "attach failed: " + err.Error()
		return
	}
	defer func() {
		srv.run("detach-client", "-s", "main")
		cl.close()
	}()
	r := &tmxRunner{scn: sc, srv: srv, cl: cl, dir: dir, prompt: tmxPrompt, rng: rand.New(rand.NewSource(sc.seed)), other: otherPane}
	if !tmxWait(10*time.Second, 20*time.Millisecond, func() bool {
		out, _ := srv.run("list-clients", "-F", "#{client_tty}")
		return strings.TrimSpace(out) != ""
	}) {
		res.err = "the tmux client never attached"
		return
	}
	r.pane, _ = srv.run("display-message", "-p", "-t", "main", "#{pane_id}")
	r.pane = strings.TrimSpace(r.pane)
	cl.paneID = r.pane
	if !r.waitPrompt(10 * time.Second) {
		res.err = fmt.Sprintf("no shell prompt in the pane: %q", tmxLastLine(r.paneText()))
		return
	}
	res.siStart = r.fmtq("#{status-interval}")
	if sc.topo == "relay" {
		r.prompt = tmxRelayPrompt
		cl.typeKeys("trzsz -r env -u TMUX -u TMUX_PANE TMXPS='" + tmxRelayPrompt + "' sh\r")
		if !r.waitPrompt(10 * time.Second) {
			res.err = fmt.Sprintf("the relay's shell never showed its prompt: %q", tmxLastLine(r.paneText()))
			return
		}
	}
	for _, x := range sc.xfers {
		xr := r.transfer(x)
		res.xfers = append(res.xfers, xr)
		if !xr.serverBack {
			break
		}
	}
	if sc.topo == "relay" && len(res.xfers) > 0 && res.xfers[len(res.xfers)-1].serverBack {
		r.prompt = tmxPrompt
		cl.typeKeys("exit\r")
		if r.waitPrompt(10 * time.Second) {
			res.relayLeft = r.fmtq("#{status-interval}")
		} else {
			res.relayLeft = "relay-did-not-exit"
		}
	}
	return
}

// ---------------------------------------------------------------------------------------
// the group

var tmxProtoRe = regexp.MustCompile(`#(ACT|CFG|NUM|NAME|SIZE|DATA|MD5|SUCC|FAIL|fail|EXIT|HASH|COMP):[A-Za-z0-9+/=]`)
var tmxTriggerRe = regexp.MustCompile(`::TRZSZGO:TRANSFER:[SRD]:\d+\.\d+\.\d+:(\d{13}):\d+`)
var tmxCsiRe = regexp.MustCompile("\x1b\\[[0-9;?]*[A-Za-z]|[\r\n]")
var tmxLineRe = regexp.MustCompile(`^#([A-Za-z]+):([A-Za-z0-9+/=_-]*)$`)

func tmxProbe(root string) string {
	if _, err := exec.LookPath("tmux"); err != nil {
		return "no-tmux-binary"
	}
	if _, err := os.Stat("/dev/ptmx"); err != nil {
		return "no-dev-ptmx"
	}
	p, t, err := pty.Open()
	if err != nil {
		return "pty-open-failed"
	}
	p.Close()
	t.Close()
	for _, b := range []string{"trz", "tsz", "trzsz"} {
		if _, err := os.Stat(filepath.Join(e2eBinDir, b)); err != nil {
			return "no-" + b + "-binary"
		}
	}
	return ""
}

func tmxScenarios(c *ctx) []*tmxScn {
	up := func(shape string, end string, tie bool, flags ...string) tmxXfer {
		return tmxXfer{upload: true, flags: flags, shape: shape, end: end, tie: tie}
	}
	down := func(shape string, end string, tie bool, flags ...string) tmxXfer {
		return tmxXfer{upload: false, flags: flags, shape: shape, end: end, tie: tie}
	}
	var out []*tmxScn
	add := func(name, topo string, f func(s *tmxScn), xs ...tmxXfer) {
		s := &tmxScn{name: name, topo: topo, cols: 100, rows: 30, xfers: xs, seed: c.rng.Int63()}
		if f != nil {
			f(s)
		}
		out = append(out, s)
	}
	add("n-up-small", "normal", nil, up("small", "ok", true, "-y"), down("small", "ok", true))
	add("n-down-flat", "normal", nil, down("flat", "ok", true), up("flat", "ok", true))
	add("n-dir", "normal", func(s *tmxScn) { s.sync = true }, up("dir", "ok", true, "-d"), down("dir", "ok", true, "-d"))
	add("n-binary", "normal", nil, up("flat", "ok", true, "-b"), down("flat", "ok", false, "-b"))
	add("n-status", "normal", func(s *tmxScn) { s.status = true; s.sync = true }, up("medium", "ok", true, "-y"), down("medium", "ok", true))
	add("n-narrow", "normal", func(s *tmxScn) { s.narrow = 30 }, up("small", "ok", true), down("medium", "ok", true))
	add("n-stop-api", "normal", nil, up("big", "stop-api", false))
	add("n-stop-key", "normal", func(s *tmxScn) { s.status = true }, down("big", "stop-key", false))
	add("n-stop-delete", "normal", nil, up("big", "stop-delete", false))
	add("n-sigint", "normal", nil, down("big", "sigint", false), up("one", "ok", true))
	add("n-fail", "normal", nil, up("one", "fail-dir", false, "-y"), up("one", "ok", true))
	add("n-other-pane-v", "normal", func(s *tmxScn) { s.busy = "v" }, tmxXfer{upload: true, shape: "medium", end: "other-pane-line"})
	add("n-other-pane-h", "normal", func(s *tmxScn) { s.busy = "h" }, tmxXfer{upload: false, shape: "medium", end: "other-pane-line"})
	add("n-chatty", "normal", func(s *tmxScn) { s.busy = "v" }, tmxXfer{upload: true, shape: "big", end: "chatty-stop"})
	add("n-hup", "normal", nil, tmxXfer{upload: true, shape: "big", end: "hup"})
	add("n-resize", "normal", func(s *tmxScn) { s.resize = true }, up("medium", "ok", true), down("medium", "ok", true))
	add("r-small", "relay", nil, up("small", "ok", true, "-y"), down("small", "ok", true))
	add("r-narrow", "relay", func(s *tmxScn) { s.narrow = 34; s.sync = true }, down("medium", "ok", true), up("flat", "ok", true))
	add("r-binary", "relay", nil, down("flat", "ok", true, "-b"), up("flat", "ok", true, "-b"))
	add("r-stop", "relay", nil, up("big", "stop-api", false), down("one", "ok", true))
	add("c-up", "control", nil, up("flat", "ok", false, "-y"), down("flat", "ok", false, "-b"))
	add("c-stop", "control", nil, up("big", "stop-delete", false), down("one", "ok", false))
	add("b-down", "binary", nil, down("flat", "ok", false), up("flat", "ok", false))
	if c.thorough() {
		// the fault-free scenarios again, several times, with other terminal sizes, pane widths, trees and options
		shapes := []string{"small", "flat", "dir", "same", "medium", "one"}
		for rep := 0; rep < 6; rep++ {
			for _, topo := range []string{"normal", "relay", "control", "binary"} {
				topo := topo
				var xs []tmxXfer
				for k := 0; k < 2+c.rng.Intn(2); k++ {
					sh := shapes[c.rng.Intn(len(shapes))]
					var flags []string
					if sh == "dir" {
						flags = append(flags, "-d")
					}
					if c.rng.Intn(3) == 0 && sh != "same" {
						flags = append(flags, "-y")
					}
					if c.rng.Intn(4) == 0 {
						flags = append(flags, "-b")
					}
					if c.rng.Intn(4) == 0 {
						flags = append(flags, "-e")
					}
					if c.rng.Intn(4) == 0 {
						flags = append(flags, "-B", []string{"1k", "64k", "1M"}[c.rng.Intn(3)])
					}
					xs = append(xs, tmxXfer{upload: c.rng.Intn(2) == 0, flags: flags, shape: sh, end: "ok", tie: sh != "medium"})
				}
				add(fmt.Sprintf("t%d-%s", rep, topo), topo, func(s *tmxScn) {
					s.cols = 60 + c.rng.Intn(120)
					s.rows = 20 + c.rng.Intn(30)
					if topo != "control" && c.rng.Intn(2) == 0 {
						// wide enough for the whole trigger line (45 columns with id and port): tmux wraps what
						// trz/tsz (or the relay) print into the pane; a wrapped marker is no trigger for the client,
						// and between 25 and 47 columns the id and the port are cut off at the wrap - with some cuts
						// (32 columns: seven digits of the id left) the client does not fire at all (observed in a
						// thorough run; an observation about narrow panes, not a claim of any property). The two
						// fixed narrow scenarios (30 and 34 columns) stay.
						s.narrow = 48 + c.rng.Intn(20)
					}
					s.status = c.rng.Intn(2) == 0
					s.sync = c.rng.Intn(2) == 0
				}, xs...)
			}
		}
	}
	return out
}

func genTmuxE2E(c *ctx, want func(*tmxScn) bool) {
	if c.sample == nil {
		c.sample = []string{} // bin/check slices the samples: never null, also when the group produces no case
	}
	root, err := os.MkdirTemp("", "tmx_")
	if err != nil {
		c.count("note:tmux-unavailable:no-tmpdir")
		return
	}
	defer os.RemoveAll(root)
	defer func() {
		if l := tmxShortDir(filepath.Join(root, "t"), 101); l != "" && l != filepath.Join(root, "t") {
			os.Remove(l)
		}
	}()
	if why := tmxProbe(root); why != "" {
		c.count("note:tmux-unavailable:" + why)
		return
	}
	var scns []*tmxScn
	for _, s := range tmxScenarios(c) {
		if want(s) {
			scns = append(scns, s)
		}
	}
	if only := os.Getenv("TMX_ONLY"); only != "" {
		var keep []*tmxScn
		for _, s := range scns {
			if strings.HasPrefix(s.name, only) {
				keep = append(keep, s)
			}
		}
		scns = keep
	}
	results := make([]*tmxResult, len(scns))
	t0 := time.Now()
	parallelDo(len(scns), 8, func(i int) { results[i] = tmxRun(root, i, scns[i]) })
	c.stats["wall-ms"] = int(time.Since(t0).Milliseconds())
	nerr := 0
	for _, r := range results {
		if r.err != "" {
			nerr++
			c.count("note:harness:" + strings.SplitN(r.err, ":", 2)[0])
			if os.Getenv("TMX_DEBUG") != "" {
				fmt.Fprintf(os.Stderr, "TMX-ERR %s: %s\n", r.scn.name, r.err)
			}
		}
	}
	if nerr == len(results) {
		// tmux cannot run here at all: say so, produce no case, do not fail
		c.count("note:tmux-unavailable:every-scenario-failed-to-start")
		return
	}
	junkT := &c16Real{t: trzsz.VerifNewLineTransfer(true, false)}
	for _, r := range results {
		tmxJudge(c, r, junkT)
	}
}

func tmxFirstLine(err error) string {
	if err == nil {
		return "<nil>"
	}
	return strings.SplitN(err.Error(), "\n", 2)[0]
}

func tmxKey(parts ...string) string { return "tmux:" + strings.Join(parts, ":") }

func tmxJudge(c *ctx, r *tmxResult, junkT *c16Real) {
	sc := r.scn
	if r.err != "" {
		c.violate(tmxKey("harness", sc.topo), "a scenario of the tmux group could not be set up although tmux runs for others", sc.name+": "+r.err)
		return
	}
	c.count("topology:" + sc.topo)
	if r.leftAlive || !r.sockGone {
		c.violate(tmxKey("server-left-behind"), "the private tmux server survived the scenario's cleanup", fmt.Sprintf("%s alive=%v socket-gone=%v", sc.name, r.leftAlive, r.sockGone))
	}
	for _, x := range r.xfers {
		dirn := "download"
		if x.x.upload {
			dirn = "upload"
		}
		kind := sc.topo + "/" + dirn + "/" + x.x.end
		c.count("run:" + kind)
		c.count("shape:" + x.x.shape)
		if sc.narrow > 0 {
			c.count("pane:narrow")
		}
		if sc.status {
			c.count("status:redrawing")
		}
		for _, n := range x.notes {
			c.count("note:" + n)
		}
		if os.Getenv("TMX_DEBUG") != "" {
			fmt.Fprintf(os.Stderr, "TMX %-70s started=%v done=%v back=%v rc=%s dur=%v si=%s/%s/%s err=%v notes=%v diffs=%v\n", x.desc, x.started, x.clientDone, x.serverBack,
				x.rc, x.dur.Round(time.Millisecond), x.siBefore, x.siDuring, x.siAfter, tmxFirstLine(x.uploadErr), x.notes, x.diffs)
			if os.Getenv("TMX_DEBUG") == "2" {
				fmt.Fprintf(os.Stderr, "   pane=%q\n   term=%q\n", tailStr(x.paneText, 600), tailStr(x.termText, 1500))
				fmt.Fprintf(os.Stderr, "   c2s-tail=%q\n", x.c2sTail)
				n := len(x.chunks)
				for i := max(0, n-12); i < n; i++ {
					ch := x.chunks[i]
					fmt.Fprintf(os.Stderr, "   chunk %d at=%v xfer=%v len=%d head=%q tail=%q\n", i, ch.at.Round(time.Millisecond), ch.xfer, len(ch.b), ch.b[:min(len(ch.b), 80)], ch.b[max(0, len(ch.b)-200):])
				}
			}
		}
		c.note(x.started, "tmux "+x.desc+fmt.Sprintf(" => started=%v rc=%s names=%s", x.started, x.rc, strings.Join(x.names, ",")))
		detail := func(more string) string {
			return fmt.Sprintf("%s :: %s :: started=%v clientDone=%v promptBack=%v uploadErr=%v rc=%q dur=%v notes=%v pane-tail=%q term-tail=%q",
				x.desc, more, x.started, x.clientDone, x.serverBack, tmxFirstLine(x.uploadErr), x.rc, x.dur.Round(time.Millisecond), x.notes,
				tailStr(x.paneText, 400), tailStr(x.termText, 300))
		}
		// bounded time, both ends back
		if !x.started {
			c.violate(tmxKey("not-started", kind), "trz/tsz inside tmux printed its trigger but the client never started a transfer", detail(""))
			continue
		}
		if x.hup {
			// observation: nobody is left to restore the option when the pane is closed (SIGHUP is not handled)
			c.count("hup:status-interval-after:" + x.siAfter)
			if !x.clientDone {
				c.violate(tmxKey("hang", kind), "the client did not leave the transfer after it was stopped (the server's pane had been closed)", detail(""))
			}
			if x.siAfter != x.siBefore {
				c.violate(tmxKey("status-interval-left-at-zero", "pane-closed"), "the pane was closed while trz/tsz was transferring: the session's status-interval stays 0 (the status line of the session is frozen from then on)",
					detail(fmt.Sprintf("effective status-interval before=%s during=%s after the pane was closed=%s", x.siBefore, x.siDuring, x.siAfter)))
			}
			continue
		}
		if x.x.end == "chatty-stop" {
			if x.clientDone {
				c.count("chatty-stop:client-returned")
			} else {
				c.count("chatty-stop:client-stuck")
				c.violate(tmxKey("chatty-pane-client-never-returns"), "another pane of the window prints a line every 30 ms; the user stops the transfer: the client stays in the transferring state (cleanInput waits for a silence that never comes) and swallows everything typed",
					detail(fmt.Sprintf("6 s after StopTransferringFiles the client is still transferring; it came back %v after the other pane had been closed", x.lateDone)))
			}
			if !x.clientDone && !x.lateDone {
				c.violate(tmxKey("hang", kind), "the client did not leave the transfer even after the other pane had been closed", detail(""))
			}
			continue
		}
		if x.x.end == "other-pane-line" {
			if x.clientDone && x.serverBack && x.uploadErr == nil && len(x.diffs) == 0 {
				c.count("other-pane-line:survived")
			} else {
				c.count("other-pane-line:transfer-failed")
				c.violate(tmxKey("other-pane-output"), "a few lines printed one by one by another pane of the same window while the transfer runs make the transfer fail (tmux scrolls the other pane with a bare line feed; the junk-tolerant reader hands the redraw to the protocol as a line)",
					detail(strings.Join(x.diffs, "; ")))
				continue
			}
		}
		if !x.clientDone || !x.serverBack {
			c.violate(tmxKey("hang", kind), "a transfer through tmux did not come to an end within the deadline", detail(""))
			continue
		}
		// a download in which a redraw of tmux landed in the middle of a long line (known finding): the line is lost,
		// whatever the scenario was about (the client reports a decoding error, a stop is reported as that error, the
		// server's own message arrives after the client has left and shows on the terminal)
		if !x.x.upload && sc.topo != "control" && !strings.Contains(strings.Join(x.x.flags, " "), "-b") {
			if where := tmxRedrawInsideLine(x); where != "" {
				why := "status line redraw (window renamed, status job)"
				if sc.resize {
					why = "the user's terminal was resized"
				} else if sc.busy != "" {
					why = "another pane printed"
				}
				c.count("redraw-inside-line:" + why)
				c.violate(tmxKey("redraw-inside-line"), "the server writes a long DATA line to the (non-blocking) client tty in several pieces and a redraw of tmux, not bracketed by synchronized-update strings, lands in the middle of it: the payload is corrupted and the download fails",
					detail(why+"; "+where+"; "+strings.Join(x.diffs, "; ")))
				continue
			}
		}
		// outcome
		switch x.x.end {
		case "ok", "other-pane-line":
			if x.uploadErr != nil || !strings.HasPrefix(x.rc, "0:") {
				c.violate(tmxKey("no-success", kind, x.x.shape), "a fault-free transfer through a real tmux did not succeed", detail(""))
			} else if len(x.diffs) > 0 {
				c.violate(tmxKey("fidelity", kind, strings.SplitN(x.diffs[0], ":", 2)[0]), "a successful transfer through tmux did not reproduce the source, or the names shown are not the names saved",
					detail(strings.Join(x.diffs, "; ")))
			}
		case "stop-delete":
			if len(x.diffs) > 0 {
				c.violate(tmxKey("stop-delete-left-files", kind), "stop and delete left created files behind", detail(strings.Join(x.diffs, "; ")))
			}
			fallthrough
		case "stop-api", "stop-key", "sigint":
			if len(x.notes) > 0 && strings.Contains(x.paneOwn, "Saved ") {
				c.count("stop:came-too-late-the-transfer-had-finished") // under load: nothing to judge
			} else if !strings.Contains(x.paneOwn, "Stopped") {
				c.violate(tmxKey("stop-not-reported", kind), "the transfer was stopped but the pane does not say so", detail(""))
			}
		case "fail-dir":
			if x.uploadErr == nil || strings.Contains(x.paneOwn, "Saved ") {
				c.violate(tmxKey("failure-not-reported", kind), "the destination held a directory where the file was to go, yet the transfer reports success", detail(""))
			}
		}
		// what trz / tsz say about binary mode inside tmux
		for _, f := range x.x.flags {
			if f != "-b" {
				continue
			}
			refused := strings.Contains(x.paneOwn, "auto switch to base64 mode")
			want := x.x.upload || sc.topo == "control"
			if sc.topo == "relay" {
				want = false // the server behind the relay is not inside tmux; the relay narrows the negotiation instead
			}
			c.count(fmt.Sprintf("binary-flag:%s:refused=%v", kind, refused))
			if refused != want {
				c.violate(tmxKey("binary-refusal", kind), "trz refuses binary mode inside tmux, tsz only in control mode: the pane says otherwise", detail(fmt.Sprintf("refused=%v expected=%v", refused, want)))
			}
		}
		// the trigger the client saw
		if m := tmxTriggerRe.FindStringSubmatch(tmxCsiRe.ReplaceAllString(tmxDecodeControl(x.termText), "")); m != nil {
			wantSuffix := map[string]string{"normal": "20", "relay": "20", "control": "00", "binary": "20"}[sc.topo]
			c.count("trigger-id-suffix:" + sc.topo + ":" + m[1][len(m[1])-2:])
			if !strings.HasSuffix(m[1], wantSuffix) {
				c.violate(tmxKey("trigger-id", sc.topo), "the unique id of the trigger does not carry the mark of its environment (..20 = tmux normal mode, also when a relay inside tmux rewrites it; ..00 otherwise)",
					detail("trigger id "+m[1]))
			}
		} else {
			c.violate(tmxKey("trigger-not-shown", kind), "the user's terminal never showed the (defused) trigger line", detail(""))
		}
		tmxProgress(c, sc, x, kind, detail)
		if !x.usable {
			c.violate(tmxKey("terminal-unusable", kind), "after the transfer the shell in the pane does not answer a typed command", detail(""))
		}
		// the terminal is handed back as it was
		if x.siAfter != x.siBefore || x.sigAfter != x.sigBefore {
			c.violate(tmxKey("status-interval-not-restored", kind), "tmux's status-interval is not what it was before the transfer",
				detail(fmt.Sprintf("effective before=%s during=%s after=%s; global before=%q after=%q", x.siBefore, x.siDuring, x.siAfter, x.sigBefore, x.sigAfter)))
		}
		if x.siDuring != "" {
			c.count("status-interval-during:" + x.siDuring)
		}
		if x.sttyBefore != "" && x.sttyAfter != "" && x.sttyBefore != x.sttyAfter {
			c.violate(tmxKey("stty-changed", kind), "the pane's terminal modes differ after the transfer", detail(fmt.Sprintf("stty -g before=%s after=%s", x.sttyBefore, x.sttyAfter)))
		}
		if x.cursorFlag != "1" {
			c.violate(tmxKey("cursor-hidden:pane", kind), "the cursor of the pane is left hidden", detail("cursor_flag="+x.cursorFlag))
		}
		term := x.termText
		if i, j := strings.LastIndex(term, "\x1b[?25l"), strings.LastIndex(term, "\x1b[?25h"); i > j {
			c.violate(tmxKey("cursor-hidden:client", kind), "the last cursor visibility sequence the user's terminal received hides the cursor", detail(""))
		}
		// nothing of the protocol in the pane, nothing on the user's terminal
		if m := tmxProtoRe.FindString(x.paneText); m != "" {
			c.violate(tmxKey("protocol-leak:pane", kind), "protocol lines are visible in the pane after the transfer", detail("first: "+m))
		}
		if m := tmxProtoRe.FindString(tmxDecodeControl(term)); m != "" {
			c.violate(tmxKey("protocol-leak:terminal", kind), "protocol lines reached the user's terminal", detail("first: "+m))
		}
		if sc.topo != "binary" {
			tmxTie(c, sc, x, kind, junkT, detail)
		}
	}
	if sc.topo == "relay" && r.relayLeft != "" {
		c.count("relay-exit-status-interval:" + r.relayLeft)
		if r.relayLeft != r.siStart {
			c.violate(tmxKey("status-interval-not-restored", "relay-exit"), "after `trzsz -r` has exited inside tmux the status-interval is not what it was before it started",
				fmt.Sprintf("%s: before=%s after=%s", sc.name, r.siStart, r.relayLeft))
		}
	}
}

var tmxProgRe = regexp.MustCompile("\x1b\\[(\\d+)D((?:[^\x1b\r\n]|\x1b\\[[0-9;]*m)*)")
var tmxSgrRe = regexp.MustCompile("\x1b\\[[0-9;]*m")

// tmxProgress: every redraw of the progress line the client wrote (pane-relative form: ESC [ n D text) fits the pane
func tmxProgress(c *ctx, sc *tmxScn, x *tmxXferResult, kind string, detail func(string) string) {
	term := tmxDecodeControl(x.termText)
	n := 0
	for _, m := range tmxProgRe.FindAllStringSubmatch(term, -1) {
		cols, _ := strconv.Atoi(m[1])
		text := tmxSgrRe.ReplaceAllString(m[2], "")
		if !strings.Contains(text, "%") {
			continue
		}
		n++
		w := runewidth.StringWidth(text)
		if x.paneWidth > 0 && cols != x.paneWidth-1 {
			c.violate(tmxKey("progress-columns", kind), "the progress line is not laid out for the pane's width minus one", detail(fmt.Sprintf("pane width %d, redraw moves %d columns left", x.paneWidth, cols)))
		}
		if w > cols {
			c.violate(tmxKey("progress-too-wide", kind), "a progress line is wider than the pane it is drawn in", detail(fmt.Sprintf("pane width %d, line of width %d: %q", x.paneWidth, w, text)))
		}
	}
	c.stats["progress-lines-checked"] += n
	if n > 0 && sc.narrow > 0 {
		c.count("progress:narrow-pane-checked")
	}
}

var tmxTieLimit = 250000

// tmxConfig: the configuration line as the client read it carries what tmux adds (the server inside tmux, or the relay
// inside tmux on behalf of a server that is not)
func tmxConfig(c *ctx, sc *tmxScn, x *tmxXferResult, kind string, chunks [][]byte, junkT *c16Real, detail func(string) string) {
	var head [][]byte
	n := 0
	for _, ch := range chunks {
		head = append(head, ch)
		if n += len(ch); n > 32<<10 {
			break
		}
	}
	res := junkT.run(head, []string{"CFG"}, true)
	if len(res) != 1 || !strings.HasPrefix(res[0], "d") {
		c.count("cfg:not-in-the-first-32k")
		return
	}
	line, _ := hexDecode(res[0][1:])
	if !bytes.HasPrefix(line, []byte("#CFG:")) {
		c.violate(tmxKey("cfg-line", kind), "the first line the client's reader recovers is not the configuration line", detail(fmt.Sprintf("line %q", line)))
		return
	}
	js, err := decodeLinePayload(string(line[5:]))
	var m map[string]any
	if err != nil || json.Unmarshal(js, &m) != nil {
		c.violate(tmxKey("cfg-line", kind), "the configuration line the client read does not decode", detail(fmt.Sprintf("line %q", line)))
		return
	}
	c.count("cfg:checked:" + sc.topo)
	junk, _ := m["tmux_output_junk"].(bool)
	width, _ := m["tmux_pane_width"].(float64)
	binary, _ := m["binary"].(bool)
	if !junk {
		c.violate(tmxKey("cfg-junk-flag", sc.topo), "inside tmux normal mode the configuration must announce tmux_output_junk (the client's reader then tolerates the redraws)", detail(string(js)))
	}
	if int(width) != x.paneWidth {
		c.violate(tmxKey("cfg-pane-width", sc.topo), "the configuration does not carry the width of the pane the transfer runs in", detail(fmt.Sprintf("pane width %d, cfg %s", x.paneWidth, js)))
	}
	wantBinary := false
	for _, f := range x.x.flags {
		if f == "-b" && !x.x.upload && sc.topo == "normal" {
			wantBinary = true // tsz -b in tmux normal mode keeps binary
		}
	}
	if binary != wantBinary {
		c.violate(tmxKey("cfg-binary", kind), "binary mode negotiated where it must not be (uploads inside tmux, anything behind a relay without a tunnel), or refused where tsz keeps it", detail(string(js)))
	}
}

// tmxTie replays what the pty delivered while the client was transferring through the REAL recvLine and hands the same
// chunks to the model; it also classifies the noise tmux really inserted.
func tmxTie(c *ctx, sc *tmxScn, x *tmxXferResult, kind string, junkT *c16Real, detail func(string) string) {
	first, last := -1, -1
	for i, ch := range x.chunks {
		if ch.xfer {
			if first < 0 {
				first = i
			}
			last = i
		}
	}
	if first < 0 {
		c.count("tie:no-chunk-during-transfer")
		return
	}
	var chunks [][]byte
	total := 0
	for _, ch := range x.chunks[first : last+1] {
		chunks = append(chunks, ch.b)
		total += len(ch.b)
	}
	flat := bytes.Join(chunks, nil)
	if os.Getenv("TMX_DEBUG") == "3" {
		last := -1000
		for i, b := range flat {
			if b == 0x1b && i > last+80 {
				last = i
				fmt.Fprintf(os.Stderr, "NOISE %s @%d/%d: %q\n", x.desc, i, len(flat), flat[max(0, i-30):min(len(flat), i+120)])
			}
		}
	}
	// shapes of noise on the raw stream
	nStatus := bytes.Count(flat, []byte("\x1bP="))
	if nStatus > 0 {
		c.count("noise:sync-marker-in-stream")
	}
	if sc.topo == "control" {
		c.count("tie:control-mode-stream-is-not-protocol")
		return
	}
	tmxConfig(c, sc, x, kind, chunks, junkT, detail)
	if !x.x.tie || total > tmxTieLimit {
		c.count("tie:too-big-for-the-model")
		// where tmux's output begins relative to the protocol lines (cheap scan, no reader)
		for i, b := range flat {
			if b != 0x1b || (i > 0 && tmxInNoise(flat, i)) || strings.Contains(strings.Join(x.x.flags, " "), "-b") {
				continue
			}
			if os.Getenv("TMX_DEBUG") == "4" && i > 0 && flat[i-1] != '\n' {
				fmt.Fprintf(os.Stderr, "INSIDE %s @%d/%d: %q\n", x.desc, i, len(flat), flat[max(0, i-40):min(len(flat), i+300)])
			}
			switch {
			case i == 0 || flat[i-1] == '\n':
				c.count("noise:big:begins-between-lines")
			case bytes.HasPrefix(flat[i:], []byte("\x1bP=")):
				c.count("noise:big:begins-inside-a-line:sync-marker")
			default:
				c.count("noise:big:begins-inside-a-line:bare")
			}
		}
		return
	}
	// pass 1: learn the line types with a type that never matches (the cut then falls back to the last '#')
	var tys []string
	for n := 0; n < 400; n++ {
		probe := append(append([]string(nil), tys...), "?")
		res := junkT.run(chunks, probe, true)
		if len(res) != len(probe) {
			break
		}
		lastRes := res[len(res)-1]
		if !strings.HasPrefix(lastRes, "d") {
			break
		}
		line, _ := hexDecode(lastRes[1:])
		m := tmxLineRe.FindSubmatch(line)
		if m == nil {
			break
		}
		tys = append(tys, string(m[1]))
	}
	if len(tys) == 0 {
		c.violate(tmxKey("unrecovered-line", kind), "the real reader does not recover a single protocol line from what the pty delivered during a successful transfer", detail("chunks="+c03ChunksStr(chunks)))
		return
	}
	res := junkT.run(chunks, tys, true)
	c.emit(true, "junk_run", c03ResStr(res), c16TysStr(tys), "1", c03ChunksStr(chunks))
	c.count("tie:junk_run-cases")
	c.stats["tie:lines-recovered"] += len(tys)
	var lines [][]byte
	for i, rr := range res {
		if !strings.HasPrefix(rr, "d") {
			c.violate(tmxKey("unrecovered-line", kind), "replaying the recorded stream with the learnt types does not give the same lines", detail(fmt.Sprintf("result %d = %s", i, rr)))
			return
		}
		l, _ := hexDecode(rr[1:])
		lines = append(lines, l)
	}
	// grammar of what the client read
	if tys[0] != "CFG" {
		c.violate(tmxKey("transcript", kind), "the first line the client read is not the configuration", detail("types="+strings.Join(tys, ",")))
	}
	if x.x.end == "ok" {
		for _, t := range tys[1:] {
			okT := t == "SUCC"
			if !x.x.upload {
				okT = t == "NUM" || t == "NAME" || t == "SIZE" || t == "DATA" || t == "MD5" || t == "SUCC" || t == "COMP" || t == "HASH"
			}
			if !okT {
				c.violate(tmxKey("transcript", kind), "a line type the protocol does not have at this place", detail("types="+strings.Join(tys, ",")))
				break
			}
		}
	}
	tmxShapes(c, flat, lines)
}

func hexDecode(s string) ([]byte, error) {
	if s == "-" {
		return nil, nil
	}
	out := make([]byte, len(s)/2)
	for i := range out {
		v, err := strconv.ParseUint(s[2*i:2*i+2], 16, 8)
		if err != nil {
			return nil, err
		}
		out[i] = byte(v)
	}
	return out, nil
}

// tmxRedrawInsideLine looks, in what the pty delivered while the client was transferring, for tmux output that begins in
// the middle of a base64 protocol line (the server wrote the line in several pieces) and is not bracketed by the
// synchronized-update strings: the one shape of "tmux noise inside a line" the reader cannot undo.
func tmxRedrawInsideLine(x *tmxXferResult) string {
	var flat []byte
	for _, ch := range x.chunks {
		if ch.xfer {
			flat = append(flat, ch.b...)
		}
	}
	isB64 := func(b byte) bool {
		return b >= 'A' && b <= 'Z' || b >= 'a' && b <= 'z' || b >= '0' && b <= '9' || b == '+' || b == '/' || b == '='
	}
	for i := 24; i < len(flat); i++ {
		if flat[i] != 0x1b || bytes.HasPrefix(flat[i:], []byte("\x1bP=")) {
			continue
		}
		run := true
		for j := i - 24; j < i; j++ {
			if !isB64(flat[j]) {
				run = false
				break
			}
		}
		if run {
			return fmt.Sprintf("offset %d of %d: %q", i, len(flat), flat[i-24:min(len(flat), i+160)])
		}
	}
	return ""
}

// tmxInNoise: the ESC at i continues a run of tmux output (there is another ESC within the 200 bytes before it and no
// line feed in between)
func tmxInNoise(flat []byte, i int) bool {
	for j := i - 1; j >= 0 && j > i-200; j-- {
		if flat[j] == '\n' && (j == 0 || flat[j-1] != '\r') {
			return false
		}
		if flat[j] == 0x1b {
			return true
		}
	}
	return false
}

// tmxShapes classifies what tmux put around and into the protocol lines the client read.  The raw stream is cut the way
// the junk-tolerant reader cuts it: at a line feed that does not follow a carriage return (CR LF is a wrap).
func tmxShapes(c *ctx, flat []byte, lines [][]byte) {
	var raws [][]byte
	start := 0
	for i, b := range flat {
		if b == '\n' && (i == 0 || flat[i-1] != '\r') {
			raws = append(raws, flat[start:i])
			start = i + 1
		}
	}
	li := 0
	for _, raw := range raws {
		if li >= len(lines) {
			break
		}
		want := lines[li]
		li++
		switch {
		case bytes.Equal(raw, want):
			c.count("noise:line-clean")
			continue
		case bytes.HasSuffix(raw, want):
			front := raw[:len(raw)-len(want)]
			c.count("noise:junk-in-front")
			if bytes.Contains(front, []byte("\x1bP=1s\x1b\\")) && bytes.Contains(front, []byte("\x1bP=2s\x1b\\")) {
				c.count("noise:front:redraw-inside-sync-markers")
			}
			if bytes.Contains(front, []byte("\r\n")) {
				c.count("noise:front:with-cr-lf")
			}
			if bytes.Contains(front, []byte("[main]")) {
				c.count("noise:front:status-line-redraw")
			}
			if bytes.Contains(front, []byte("\xe2\x94\x82")) || bytes.Contains(front, []byte("\xe2\x94\x80")) {
				c.count("noise:front:pane-border-redraw")
			}
			if bytes.Contains(front, []byte("#")) {
				c.count("noise:front:with-hash")
			}
		default:
			// something inside the line
			c.count("noise:inside-line")
			if bytes.Contains(raw, []byte("\x1bP=")) {
				c.count("noise:inside:sync-markers")
			}
			if bytes.Contains(raw, []byte("\r\n")) {
				c.count("noise:inside:cr-lf")
			}
		}
	}
}
