package main

import (
	"bytes"
	"encoding/json"
	"fmt"
	"io"
	"strings"
	"sync/atomic"
	"time"

	"github.com/trzsz/trzsz-go/trzsz"
)

func init() { groups["escape"] = genEscape }

// a table as the model sees it: pairs in announcement order
type pair struct{ s, c byte }

func tableJSON(ps []pair) []byte {
	var arr [][]string
	for _, p := range ps {
		arr = append(arr, []string{string(rune(p.s)), string([]rune{0xee, rune(p.c)})})
	}
	if arr == nil {
		arr = [][]string{}
	}
	js, _ := json.Marshal(arr)
	return js
}

func tableArg(ps []pair) string {
	b := make([]byte, 0, 2*len(ps))
	for _, p := range ps {
		b = append(b, p.s, p.c)
	}
	return hx(b)
}

func builtinPairs(all bool) []pair {
	var ps []pair
	for _, e := range trzsz.VerifGetEscapeChars(all) {
		s := []rune(e[0])
		c := []rune(e[1])
		ps = append(ps, pair{byte(s[0]), byte(c[1])})
	}
	return ps
}

// random well-formed table: distinct sources incl. the leader, distinct codes
func (c *ctx) wfTable() []pair {
	n := 1 + c.rng.Intn(20)
	srcs := c.rng.Perm(256)
	codes := c.rng.Perm(256)
	ps := []pair{{0xee, byte(codes[0])}}
	j := 1
	for _, s := range srcs {
		if len(ps) >= n {
			break
		}
		if s == 0xee {
			continue
		}
		ps = append(ps, pair{byte(s), byte(codes[j])})
		j++
	}
	c.rng.Shuffle(len(ps), func(i, j int) { ps[i], ps[j] = ps[j], ps[i] })
	return ps
}

// arbitrary table: duplicates in sources and codes, leader maybe missing
func (c *ctx) anyTable() []pair {
	n := c.rng.Intn(12)
	ps := make([]pair, n)
	for i := range ps {
		ps[i] = pair{byte(c.rng.Intn(8) * 30), byte(c.rng.Intn(8) + 64)}
		if c.rng.Intn(4) == 0 {
			ps[i].s = 0xee
		}
	}
	return ps
}

// data dense in sources, codes and leader bytes
func (c *ctx) denseData(ps []pair, n int) []byte {
	d := make([]byte, n)
	for i := range d {
		switch c.rng.Intn(4) {
		case 0:
			d[i] = 0xee
		case 1:
			if len(ps) > 0 {
				d[i] = ps[c.rng.Intn(len(ps))].s
			}
		case 2:
			if len(ps) > 0 {
				d[i] = ps[c.rng.Intn(len(ps))].c
			}
		default:
			d[i] = byte(c.rng.Intn(256))
		}
	}
	return d
}

func ures(buf, rem []byte, err error) string {
	if err != nil {
		var code int
		if _, e := fmt.Sscanf(err.Error(), "Unknown escape code: %d", &code); e != nil {
			return "err:?" + err.Error()
		}
		return fmt.Sprintf("err:%d", code)
	}
	return "ok:" + hx(buf) + ":" + hx(rem)
}

type chunkReader struct{ cs [][]byte }

func (r *chunkReader) Read(p []byte) (int, error) {
	if len(r.cs) == 0 {
		return 0, io.EOF
	}
	n := copy(p, r.cs[0])
	if n < len(r.cs[0]) {
		r.cs[0] = r.cs[0][n:] // a reader keeps what did not fit, like recvDataReader
	} else {
		r.cs = r.cs[1:]
	}
	return n, nil
}

type chunkWriter struct{ out [][]byte }

func (w *chunkWriter) Write(p []byte) (int, error) {
	w.out = append(w.out, append([]byte(nil), p...))
	return len(p), nil
}
func (w *chunkWriter) Close() error { return nil }

// runReader never waits for ever: a Read of the real reader that does not come back within 5 s
// (a loop that makes no progress) is a result of its own
var readerHangInput string

var readerHung atomic.Bool // a Read that never returns keeps its goroutine spinning: after the first one the real reader is not called any more

func runReader(t *trzsz.VerifEscapeTable, cs [][]byte, sizes []int, dflt int) string {
	if readerHung.Load() {
		return "hang-skipped"
	}
	done := make(chan string, 1)
	go func() { done <- runReaderUnguarded(t, cs, sizes, dflt) }()
	select {
	case r := <-done:
		return r
	case <-time.After(5 * time.Second):
		if !readerHung.Swap(true) {
			readerHangInput = fmt.Sprintf("chunks=%s sizes=%s default-size=%d", hxs(cs), ints(sizes), dflt)
		}
		return "hang"
	}
}

func runReaderUnguarded(t *trzsz.VerifEscapeTable, cs [][]byte, sizes []int, dflt int) string {
	r := trzsz.VerifNewEscapeReader(t, &chunkReader{append([][]byte(nil), cs...)}) // the reader advances its own copy of the list
	var outs [][]byte
	for i := 0; ; i++ {
		size := dflt
		if i < len(sizes) {
			size = sizes[i]
		}
		p := make([]byte, size)
		n, err := r.Read(p)
		if err == io.EOF {
			return hxs(outs) + ":eof"
		}
		if err != nil {
			var code int
			if _, e := fmt.Sscanf(err.Error(), "Unknown escape code: %d", &code); e != nil {
				return hxs(outs) + ":err?" + err.Error()
			}
			return fmt.Sprintf("%s:err:%d", hxs(outs), code)
		}
		if n > len(p) || n < 0 {
			return fmt.Sprintf("%s:bad-count:%d>%d", hxs(outs), n, len(p))
		}
		outs = append(outs, append([]byte(nil), p[:n]...))
		if i > 1<<20 {
			return "runaway"
		}
	}
}

func genEscape(c *ctx) {
	mustTable := func(ps []pair) *trzsz.VerifEscapeTable {
		t, err := trzsz.VerifParseEscapeTable(tableJSON(ps))
		if err != nil {
			panic(err)
		}
		return t
	}
	one := func(ps []pair, d []byte, kind string) {
		t := mustTable(ps)
		ta := tableArg(ps)
		esc := trzsz.VerifEscapeData(d, t)
		c.emit(len(esc) != len(d), "escape", hx(esc), ta, hx(d))
		if kind != "any-table" {
			// direct oracles on the implementation: round trip, and no protected byte on the wire
			buf, rem, err := trzsz.VerifUnescapeData(append([]byte(nil), esc...), t, nil)
			if err != nil || len(rem) != 0 || !bytes.Equal(buf, d) {
				c.violate("roundtrip", "unescape(escape(d)) != d", fmt.Sprintf("table=%s data=%s escaped=%s got=%s rem=%s err=%v", ta, hx(d), hx(esc), hx(buf), hx(rem), err))
			}
			prot := map[byte]bool{}
			code := map[byte]bool{}
			for _, p := range ps {
				if p.s != 0xee {
					prot[p.s] = true
				}
				code[p.c] = true
			}
			cleanT := true
			for b := range prot {
				if code[b] {
					cleanT = false
				}
			}
			if cleanT {
				for _, b := range esc {
					if prot[b] {
						c.violate("protected-byte", "protected byte on the wire", fmt.Sprintf("table=%s data=%s escaped=%s byte=%02x", ta, hx(d), hx(esc), b))
					}
				}
			}
		}
		// unescape the escaped data with several destination sizes, and raw data
		for _, in := range [][]byte{esc, d} {
			for _, dl := range []int{0, 1, 2, len(d), len(d) + 3, 1 + c.rng.Intn(len(in)+2)} {
				var dst []byte
				if dl > 0 {
					dst = make([]byte, dl)
				}
				buf, rem, err := trzsz.VerifUnescapeData(append([]byte(nil), in...), t, dst)
				c.emit(len(ps) > 0, "unescape", ures(buf, rem, err), ta, hx(in), fmt.Sprint(dl))
			}
		}
		if len(ps) == 0 {
			// an EMPTY announced table: the reader must pass the stream through, whatever the
			// caller's buffer sizes (smaller than the chunks too)
			for k := 0; k < 3 && len(d) > 0; k++ {
				cs := c.split(d, 1+c.rng.Intn(9))
				nsz := c.rng.Intn(4)
				sizes := make([]int, nsz)
				for i := range sizes {
					sizes[i] = 1 + c.rng.Intn(7)
				}
				dflt := []int{1, 2, 3, 7, 64, 32768}[c.rng.Intn(6)]
				res := runReader(t, cs, sizes, dflt)
				c.emit(true, "er_run_empty", res, hxs(cs), ints(sizes), fmt.Sprint(dflt))
				want := strings.ReplaceAll(hx(d), "-", "") + ":eof"
				if got := strings.ReplaceAll(strings.ReplaceAll(res, ",", ""), "-", ""); got != want {
					c.violate("stream-roundtrip:empty-table", "escapeReader with an empty announced table does not return the stream",
						fmt.Sprintf("data=%s chunks=%s sizes=%s dflt=%d got=%s", hx(d), hxs(cs), ints(sizes), dflt, res))
				}
			}
			c.count("kind:empty-table")
			return
		}
		// streaming reader over random splits of the escaped stream and of raw data
		for _, in := range [][]byte{esc, d} {
			if len(in) == 0 {
				continue
			}
			for k := 0; k < 3; k++ {
				cs := c.split(in, 1+c.rng.Intn(6))
				nsz := c.rng.Intn(4)
				sizes := make([]int, nsz)
				for i := range sizes {
					sizes[i] = 1 + c.rng.Intn(7)
				}
				dflt := []int{1, 2, 3, 7, 64, 32768}[c.rng.Intn(6)]
				splitsPair := false
				off := 0
				for _, ch := range cs[:max(0, len(cs)-1)] {
					off += len(ch)
					if in[off-1] == 0xee {
						splitsPair = true
					}
				}
				if splitsPair {
					c.count("reader:chunk-ends-in-leader")
				}
				res := runReader(t, cs, sizes, dflt)
				c.emit(splitsPair, "er_run", res, ta, hxs(cs), ints(sizes), fmt.Sprint(dflt))
				if kind != "any-table" && &in[0] == &esc[0] {
					// direct oracle: the streaming reader returns exactly the payload, for this split
					want := strings.ReplaceAll(hx(d), "-", "") + ":eof"
					got := strings.ReplaceAll(strings.ReplaceAll(res, ",", ""), "-", "")
					if got != want {
						c.violate("stream-roundtrip", "escapeReader over a split escaped stream does not return the payload",
							fmt.Sprintf("table=%s data=%s chunks=%s sizes=%s dflt=%d got=%s", ta, hx(d), hxs(cs), ints(sizes), dflt, res))
					}
				}
			}
		}
		// writer
		cs := c.split(d, 1+c.rng.Intn(8))
		w := &chunkWriter{}
		ew := trzsz.VerifNewEscapeWriter(t, w)
		for _, ch := range cs {
			if n, err := ew.Write(ch); err != nil || n != len(ch) {
				panic("escape writer")
			}
		}
		c.emit(true, "ew_write", hxs(w.out), ta, hxs(cs))
		c.count("kind:" + kind)
	}

	// 1. exhaustive: every byte value x both built-in tables, alone and between leaders
	for _, all := range []bool{false, true} {
		ps := builtinPairs(all)
		for b := 0; b < 256; b++ {
			one(ps, []byte{byte(b)}, "exhaustive-byte")
			one(ps, []byte{0xee, byte(b), 0xee}, "exhaustive-byte")
		}
		// every split point of a short dense payload
		d := []byte{0xee, '~', 0x1b, 'a', 0xee, 0xee, 0x0d, 'A', '1'}
		t := mustTable(ps)
		esc := trzsz.VerifEscapeData(d, t)
		allSplits(esc[:min(len(esc), 12)], func(cs [][]byte) {
			for _, dflt := range []int{1, 2, 5} {
				c.emit(true, "er_run", runReader(t, cs, nil, dflt), tableArg(ps), hxs(cs), "-", fmt.Sprint(dflt))
			}
		})
		// the built-in table itself
		esc2, un2 := trzsz.VerifEscapeCodes(t)
		c.emit(true, "builtin_table", codesStr(esc2, un2), fmt.Sprint(map[bool]int{false: 0, true: 1}[all]))
	}
	// 1b. an escape pair the table does not define is rejected, never guessed (direct oracle on the
	// implementation, no model involved): every undefined code x both built-in tables and a few
	// announced ones x the flat decoder with several destination sizes x the streaming reader
	// with the stream cut everywhere (between the leader and its code too)
	undefinedPairs := func(ps []pair, kind string) {
		t := mustTable(ps)
		ta := tableArg(ps)
		defined := map[byte]bool{}
		for _, p := range ps {
			defined[p.c] = true
		}
		for code := 0; code < 256; code++ {
			if defined[byte(code)] {
				continue
			}
			in := []byte{'x', 0xee, byte(code), 'y'}
			for _, dl := range []int{0, 1, 2, 3, 8} {
				var dst []byte
				if dl > 0 {
					dst = make([]byte, dl)
				}
				buf, rem, err := trzsz.VerifUnescapeData(append([]byte(nil), in...), t, dst)
				if err == nil && (dl == 0 || len(buf)+len(rem) == 0 || len(rem) < 3) {
					// consumed the pair without an error (a short destination may stop in front of it)
					c.violate("undefined-pair-accepted:flat", "unescapeData decoded an escape pair the table does not define",
						fmt.Sprintf("table=%s in=%s dst=%d got=%s rem=%s", ta, hx(in), dl, hx(buf), hx(rem)))
				}
			}
			if code%8 == c.rng.Intn(8) || kind == "builtin" {
				for _, cs := range [][][]byte{{in}, {in[:2], in[2:]}, {in[:1], in[1:2], in[2:3], in[3:]}} {
					for _, dflt := range []int{1, 2, 64} {
						res := runReader(t, cs, nil, dflt)
						if !strings.HasSuffix(res, fmt.Sprintf(":err:%d", code)) {
							c.violate("undefined-pair-accepted:reader", "escapeReader decoded an escape pair the table does not define",
								fmt.Sprintf("table=%s chunks=%s bufsize=%d got=%s", ta, hxs(cs), dflt, res))
						}
					}
				}
			}
			c.count("undefined-pair:" + kind)
		}
	}
	// 1c. the streaming reader asked for ONE byte while only the leader of a pair cut by a chunk
	// boundary is pending must come back (with the decoded byte), for every table and code
	for _, all := range []bool{false, true} {
		ps := builtinPairs(all)
		t := mustTable(ps)
		for _, p := range ps {
			cs := [][]byte{{'a', 0xee}, {p.c, 'b'}}
			for _, sizes := range [][]int{{1, 1, 1, 1}, {1, 1}, {2, 1}, {1}} {
				res := runReader(t, cs, sizes, 1)
				if res == "hang" {
					c.violate("reader-hang:pending-leader", "escapeReader.Read does not return when asked for a few bytes while the leader of a pair cut by a chunk boundary is pending",
						fmt.Sprintf("table=%s chunks=%s sizes=%s", tableArg(ps), hxs(cs), ints(sizes)))
				}
			}
			c.count("reader:one-byte-with-pending-leader")
		}
	}
	// 1d. protocol 1 (recvData): a chunk whose escaped bytes end in a bare leader is rejected, not
	// delivered one byte short; a chunk with an undefined pair is rejected
	for _, all := range []bool{false, true} {
		ps := builtinPairs(all)
		t := mustTable(ps)
		for _, body := range [][]byte{{'A', 'B', 0xee}, {0xee}, {'A', 0xee, 0xee, 0xee}, {'A', 0xee, 0x00, 'B'}} {
			var sink bytes.Buffer
			w := trzsz.VerifNewWire(&sink, true, t, 1)
			w.Feed(append([]byte(fmt.Sprintf("#DATA:%d\n", len(body))), body...))
			got, err := w.RecvData()
			if err == nil {
				c.violate("v1-truncated-pair-accepted", "recvData (protocol 1) accepted a chunk that ends inside an escape pair / holds an undefined pair",
					fmt.Sprintf("table=%s chunk=%s delivered=%s", tableArg(ps), hx(body), hx(got)))
			}
			c.count("v1:malformed-chunk")
		}
	}
	undefinedPairs(builtinPairs(false), "builtin")
	undefinedPairs(builtinPairs(true), "builtin")
	for i := 0; i < c.pick(4, 40); i++ {
		undefinedPairs(c.wfTable(), "wf-table")
	}
	// 2. random well-formed tables, dense data
	for i := 0; i < c.pick(300, 6000); i++ {
		ps := c.wfTable()
		one(ps, c.denseData(ps, c.rng.Intn(40)), "wf-table")
	}
	// 2b. the empty announced table
	for i := 0; i < c.pick(60, 600); i++ {
		one(nil, c.denseData(nil, 1+c.rng.Intn(300)), "empty-table")
	}
	// 3. arbitrary (possibly ill-formed) tables
	for i := 0; i < c.pick(150, 3000); i++ {
		ps := c.anyTable()
		one(ps, c.denseData(ps, c.rng.Intn(30)), "any-table")
	}
	// 4. longer payloads
	for i := 0; i < c.pick(20, 300); i++ {
		ps := builtinPairs(i%2 == 0)
		one(ps, c.denseData(ps, 500+c.rng.Intn(3000)), "long")
	}
	if readerHung.Load() {
		c.violate("reader-hang", "escapeReader.Read did not return within 5 s (a loop that makes no progress); the real reader was not called again after that",
			readerHangInput)
	}
	// 5. table parsing: shapes and code points, malformed stream
	for i := 0; i < c.pick(300, 5000); i++ {
		n := c.rng.Intn(5)
		var arr [][]string
		var arg []string
		for j := 0; j < n; j++ {
			var e []string
			var ea []string
			ne := 2
			if c.rng.Intn(8) == 0 {
				ne = c.rng.Intn(4)
			}
			for k := 0; k < ne; k++ {
				ln := k + 1
				if c.rng.Intn(8) == 0 {
					ln = c.rng.Intn(4)
				}
				var rs []rune
				var ra []string
				for m := 0; m < ln; m++ {
					r := rune(c.rng.Intn(256))
					if k == 1 && m == 0 && c.rng.Intn(6) != 0 {
						r = 0xee
					}
					if c.rng.Intn(20) == 0 {
						r = rune(256 + c.rng.Intn(1000))
					}
					rs = append(rs, r)
					ra = append(ra, fmt.Sprint(int(r)))
				}
				e = append(e, string(rs))
				ea = append(ea, strings.Join(ra, "."))
			}
			if e == nil {
				e = []string{}
			}
			arr = append(arr, e)
			arg = append(arg, strings.Join(ea, ","))
		}
		if arr == nil {
			arr = [][]string{}
		}
		js, _ := json.Marshal(arr)
		t, err := trzsz.VerifParseEscapeTable(js)
		res := "none"
		if err == nil {
			e, u := trzsz.VerifEscapeCodes(t)
			res = codesStr(e, u)
			c.count("parse:ok")
		} else {
			c.count("parse:rejected")
		}
		a := strings.Join(arg, ";")
		if len(arr) == 0 {
			a = "-"
		}
		c.emit(true, "table_of_json", res, a)
	}
}

func codesStr(esc, unesc [256]int) string {
	var sb strings.Builder
	sb.WriteString("E")
	for i, v := range esc {
		if v >= 0 {
			fmt.Fprintf(&sb, "%02x%02x", i, v)
		}
	}
	sb.WriteString("U")
	for i, v := range unesc {
		if v >= 0 {
			fmt.Fprintf(&sb, "%02x%02x", i, v)
		}
	}
	return sb.String()
}

func max(a, b int) int {
	if a > b {
		return a
	}
	return b
}
func min(a, b int) int {
	if a < b {
		return a
	}
	return b
}
