package main

// C13 — relay conserves bytes under every schedule.  Direct oracle on the real
// trzsz.NewTrzszRelay over io.Pipes with a scripted client and a scripted server.
//
// group "relay":       runs the scenarios in-process on the unmodified package, then builds
//                      this same harness a second time with `go build -overlay` (relay.go and
//                      buffer.go rewritten by go/cmd/overlay: a seeded yield/sleep in front of
//                      every atomic, lock, channel and buffer operation; /repo untouched) and
//                      runs group "relay_inner" of that binary twice; results are merged:
//                      pass 1 perturbation only; pass 2 perturbation + TRACE VALIDATION
//                      (VERIF_VL=1: the overlay's wrappers log one event per synchronisation
//                      operation executed, go/cmd/overlay/vl.go; every run becomes a case
//                      `relay_trace` that the extracted Relay.rv_run must replay event by event
//                      and whose final logs must equal the bytes the writers received).
// group "relay_inner": the scenarios only (what the overlay binary executes).
//
// ORACLE (per direction, schedule independent): the bytes the opposite writer received are
// the bytes fed in, in order, nothing lost or duplicated, except that at each line the relay
// wrote itself (#ACT/#CFG rewritten, #FAIL) at most one input line (from the alignment
// point up to and including the next '\n') is missing: the handshake line the relay
// consumed.  A rewritten ACT/CFG must replace a line holding a valid ACT/CFG with the same
// identifying field; a FAIL may replace an invalid line or nothing.  Nothing else may
// differ, so nothing crosses sides.

import (
	"bytes"
	"compress/zlib"
	"encoding/base64"
	"encoding/json"
	"fmt"
	"io"
	"math/rand"
	"os"
	"os/exec"
	"path/filepath"
	"regexp"
	"strings"
	"sync"
	"sync/atomic"
	"time"

	"github.com/trzsz/trzsz-go/trzsz"
)

// Trace validation hooks: set by c13_vl.go (build tag c13overlay), which only the overlay
// build of this harness compiles (the functions exist only in the overlay's helper file).
var c13VlDump func(*trzsz.TrzszRelay) ([]string, bool)
var c13VlRelease func(*trzsz.TrzszRelay)

func init() {
	groups["relay"] = genC13Relay
	groups["relay_inner"] = genC13RelayInner
	groups["relay_tunnel_flag"] = genC13TunnelFlag
}

// Probe outside the model's scope (not in the C13 group list): a client whose ACT claims
// tunnel=true through a relay that has no tunnel connector.  handshake() stores
// tunnelConnected=true, after which addHandshakeBuffer(…, tunnel=false) refuses to park:
// the server's CFG is forwarded raw, the worker waits for it forever, and client bytes
// parked before the store stay parked while later bytes are forwarded directly.
func genC13TunnelFlag(c *ctx) {
	os.Unsetenv("TMUX")
	c.sample = []string{}
	cInR, cInW := io.Pipe()
	sOutR, sOutW := io.Pipe()
	cOut, sIn := newC13Sink(), newC13Sink()
	_ = trzsz.NewTrzszRelay(cInR, cOut, sIn, sOutR, trzsz.TrzszOptions{})
	sOutW.Write([]byte("::TRZSZ:TRANSFER:R:1.1.5:7700000000100:0\r\n"))
	cOut.waitFor(func(b []byte) bool { return bytes.Contains(b, []byte("#R")) }, time.Second)
	act := c13Line("ACT", `{"lang":"x","version":"1.1.5","confirm":true,"newline":"\n","protocol":2,"binary":true,"support_dir":true,"tunnel":true}`)
	cInW.Write(append(append([]byte(nil), act...), []byte("first\n")...))
	sIn.waitFor(func(b []byte) bool { return c13CountToks(b, "ACT", map[string]bool{string(act): true}) >= 1 }, time.Second)
	cfg := c13Line("CFG", `{"timeout":20,"newline":"\n","protocol":2,"bufsize":10485760}`)
	sOutW.Write(cfg)
	time.Sleep(50 * time.Millisecond)
	cInW.Write([]byte("second\n"))
	time.Sleep(300 * time.Millisecond)
	s, k := sIn.snapshot(), cOut.snapshot()
	c.count("tunnel_flag:runs")
	if !bytes.Contains(s, []byte("first\n")) || bytes.Index(s, []byte("second\n")) < bytes.Index(s, []byte("first\n")) {
		c.violate("relay-tunnel-flag", "ACT with tunnel=true through a relay without tunnel connector: bytes parked behind the ACT line are never delivered while later bytes are, and the CFG line reaches the client unrewritten",
			fmt.Sprintf("serverIn got %q | clientOut got %q", s, k))
	}
}

// ---- wire helpers ----

func c13Encode(s string) string {
	var b bytes.Buffer
	z := zlib.NewWriter(&b)
	z.Write([]byte(s))
	z.Close()
	return base64.StdEncoding.EncodeToString(b.Bytes())
}

func c13Decode(s string) ([]byte, bool) {
	b, err := base64.StdEncoding.DecodeString(s)
	if err != nil {
		return nil, false
	}
	z, err := zlib.NewReader(bytes.NewReader(b))
	if err != nil {
		return nil, false
	}
	out, err := io.ReadAll(z)
	if err != nil {
		return nil, false
	}
	return out, true
}

func c13Line(typ, payload string) []byte { return []byte("#" + typ + ":" + c13Encode(payload) + "\n") }

// the identifying field that survives the relay's re-marshalling: ACT.lang / CFG.timeout
func c13LineID(typ string, line []byte) (string, bool) {
	idx := bytes.LastIndex(line, []byte("#"+typ+":"))
	if idx < 0 {
		return "", false
	}
	body := line[idx+len(typ)+2:]
	body = bytes.TrimRight(body, "\n")
	js, ok := c13Decode(string(body))
	if !ok {
		return "", false
	}
	var m map[string]any
	if json.Unmarshal(js, &m) != nil {
		return "", false
	}
	switch typ {
	case "ACT":
		if v, ok := m["lang"].(string); ok {
			return v, true
		}
	case "CFG":
		if v, ok := m["timeout"].(float64); ok {
			return fmt.Sprint(int(v)), true
		}
	}
	return "", false
}

// ---- sinks ----

type c13Sink struct {
	mu  sync.Mutex
	buf []byte
	ch  chan struct{}
}

func newC13Sink() *c13Sink { return &c13Sink{ch: make(chan struct{}, 1)} }
func (s *c13Sink) Write(p []byte) (int, error) {
	s.mu.Lock()
	s.buf = append(s.buf, p...)
	s.mu.Unlock()
	select {
	case s.ch <- struct{}{}:
	default:
	}
	return len(p), nil
}
func (s *c13Sink) Close() error { return nil }
func (s *c13Sink) snapshot() []byte {
	s.mu.Lock()
	defer s.mu.Unlock()
	return append([]byte(nil), s.buf...)
}
func (s *c13Sink) waitFor(pred func([]byte) bool, d time.Duration) bool {
	deadline := time.After(d)
	tick := time.NewTicker(500 * time.Microsecond)
	defer tick.Stop()
	for {
		if pred(s.snapshot()) {
			return true
		}
		select {
		case <-s.ch:
		case <-tick.C:
		case <-deadline:
			return pred(s.snapshot())
		}
	}
}

// ---- oracle ----

type c13Tok struct {
	pos  int // offset in the stripped stream
	typ  string
	text []byte
}

func c13IsB64(c byte) bool {
	return c >= 'A' && c <= 'Z' || c >= 'a' && c <= 'z' || c >= '0' && c <= '9' || c == '+' || c == '/' || c == '='
}

// c13Strip removes the lines the relay wrote itself (well-formed #T:<base64(zlib)>\n that the
// peer did not send verbatim) and returns the rest plus the removed lines with positions.
func c13Strip(out []byte, types []string, raw map[string]bool) ([]byte, []c13Tok) {
	var stripped []byte
	var toks []c13Tok
	i := 0
outer:
	for i < len(out) {
		if out[i] == '#' {
			for _, t := range types {
				p := "#" + t + ":"
				if bytes.HasPrefix(out[i:], []byte(p)) {
					j := i + len(p)
					for j < len(out) && c13IsB64(out[j]) {
						j++
					}
					if j < len(out) && out[j] == '\n' {
						text := out[i : j+1]
						if !raw[string(text)] {
							if _, ok := c13Decode(string(out[i+len(p) : j])); ok {
								toks = append(toks, c13Tok{len(stripped), t, append([]byte(nil), text...)})
								i = j + 1
								continue outer
							}
						}
					}
				}
			}
		}
		stripped = append(stripped, out[i])
		i++
	}
	return stripped, toks
}

// the span readLine(mayHasJunk) consumes from in[from:]: up to and including the first '\n'
// that is not preceded by '\r' in the accumulated line; -1 if the line is not complete.
func c13LineSpan(in []byte, from int) int {
	i := from
	for {
		k := bytes.IndexByte(in[i:], '\n')
		if k < 0 {
			return -1
		}
		i += k + 1
		if k > 0 && in[i-2] == '\r' { // "\r\n" inside a junk-tolerant line read: the read continues
			continue
		}
		return i - from
	}
}

// c13Align checks out against in (see ORACLE). lineTyp is the handshake line type of this
// direction ("ACT" toward the server, "CFG" toward the client). allowStuck accepts a missing
// suffix (bytes still parked by a handshake that never completed).
func c13Align(in, out []byte, lineTyp string, raw map[string]bool, allowStuck bool) (bool, string, map[string]int) {
	stripped, toks := c13Strip(out, []string{lineTyp, "FAIL"}, raw)
	info := map[string]int{}
	var why string
	var rec func(ci, si, k int) bool
	rec = func(ci, si, k int) bool {
		if k == len(toks) {
			rest := stripped[si:]
			if bytes.Equal(in[ci:], rest) {
				return true
			}
			if allowStuck && bytes.HasPrefix(in[ci:], rest) {
				info["stuck"] = 1
				return true
			}
			why = fmt.Sprintf("tail differs after %d relay lines: input rest %q, output rest %q", k, c13Clip(in[ci:]), c13Clip(rest))
			return false
		}
		t := toks[k]
		n := t.pos - si
		if ci+n > len(in) || !bytes.Equal(in[ci:ci+n], stripped[si:t.pos]) {
			why = fmt.Sprintf("bytes before relay line %d (%s) differ: input %q, output %q", k, t.typ, c13Clip(in[ci:min(len(in), ci+n)]), c13Clip(stripped[si:t.pos]))
			return false
		}
		ci += n
		si = t.pos
		span := c13LineSpan(in, ci)
		if t.typ == lineTyp {
			if span < 0 {
				why = fmt.Sprintf("relay line %d (%s) replaces no complete input line", k, t.typ)
				return false
			}
			e := in[ci : ci+span]
			idE, okE := c13LineID(lineTyp, e)
			idT, okT := c13LineID(lineTyp, t.text)
			if !okE || !okT || idE != idT {
				why = fmt.Sprintf("relay line %d (%s id %q) does not replace the matching input line (%q id %q)", k, t.typ, idT, c13Clip(e), idE)
				return false
			}
			if span > len(e) || bytes.LastIndex(e, []byte("#"+lineTyp+":")) > 0 {
				info["junk_merged"]++
			}
			return rec(ci+span, si, k+1)
		}
		// FAIL: replaces an invalid line, or nothing
		if span >= 0 {
			if _, ok := c13LineID(lineTyp, in[ci:ci+span]); !ok {
				if rec(ci+span, si, k+1) {
					return true
				}
			}
		}
		return rec(ci, si, k+1)
	}
	ok := rec(0, 0, 0)
	info["relay_lines"] = len(toks)
	return ok, why, info
}

func c13Clip(b []byte) string {
	if len(b) > 160 {
		return string(b[:160]) + "..."
	}
	return string(b)
}

// ---- scenarios ----

type c13Run struct {
	id        string
	rng       *rand.Rand
	perturbed bool
	cw, sw    *io.PipeWriter
	cOut, sIn *c13Sink
	cChunks   [][]byte // everything written by the client, in order
	sChunks   [][]byte
	rawC      map[string]bool // handshake lines sent verbatim by the client
	rawS      map[string]bool
	trig      [][2]string // (rewritten, original) trigger cores
	abort     atomic.Bool
	stats     map[string]int
	mu        sync.Mutex
	desc      string   // plan of the run (for the evidence)
	trace     []string // events logged by the overlay build (VERIF_VL=1), in real order
	traceOver bool
	gotS      []byte // what the two writers had received when the trace was taken
	gotC      []byte
}

func (r *c13Run) settle() time.Duration {
	if r.perturbed {
		return 25 * time.Millisecond
	}
	return 4 * time.Millisecond
}

func (r *c13Run) count(k string) {
	r.mu.Lock()
	r.stats[k]++
	r.mu.Unlock()
}

func c13Letters(rng *rand.Rand, n int, alpha string) []byte {
	b := make([]byte, n)
	for i := range b {
		b[i] = alpha[rng.Intn(len(alpha))]
	}
	return b
}

// cut b into 1..3 pieces
func c13Pieces(rng *rand.Rand, b []byte) [][]byte {
	n := 1 + rng.Intn(3)
	var out [][]byte
	for len(out) < n-1 && len(b) > 1 {
		k := 1 + rng.Intn(len(b)-1)
		out = append(out, b[:k])
		b = b[k:]
	}
	return append(out, b)
}

const c13Lower = "abcdefghijklmnopqrstuvwxyz "
const c13Upper = "ABCDEFGHIJKLMNOPQRSTUVWXYZ_"

type c13Transfer struct {
	outcome  string // confirm cancel badact badcfg
	id       string // 13 digit unique id ending in 00
	act, cfg []byte
	endBy    string // server client ctrlc
	exitLine []byte
	nConfirm int // number of confirmed handshakes up to and including this one
	nActOK   int // number of rewritten ACT lines expected on the server side so far
	nFailSrv int // number of FAIL lines expected on the server side so far
	nFailCli int
}

func (r *c13Run) clientWrite(b []byte) {
	if len(b) == 0 || r.abort.Load() {
		return
	}
	r.mu.Lock()
	r.cChunks = append(r.cChunks, append([]byte(nil), b...))
	r.mu.Unlock()
	c13JWrite(r.id, 'c', b)
	r.cw.Write(b)
}
func (r *c13Run) serverWrite(b []byte) {
	if len(b) == 0 || r.abort.Load() {
		return
	}
	r.mu.Lock()
	r.sChunks = append(r.sChunks, append([]byte(nil), b...))
	r.mu.Unlock()
	c13JWrite(r.id, 's', b)
	r.sw.Write(b)
}

func (r *c13Run) wait(s *c13Sink, what string, pred func([]byte) bool) bool {
	if r.abort.Load() {
		return false
	}
	d := 600 * time.Millisecond
	if r.perturbed {
		d = 1500 * time.Millisecond
	}
	if s.waitFor(pred, d) {
		return true
	}
	r.count("desync:" + what)
	r.abort.Store(true)
	return false
}

func c13CountToks(out []byte, typ string, raw map[string]bool) int {
	_, toks := c13Strip(out, []string{typ}, raw)
	return len(toks)
}

func c13RunOne(seed int64, idx int, perturbed bool) (*c13Run, []map[string]string) {
	rng := rand.New(rand.NewSource(seed*1000003 + int64(idx)))
	r := &c13Run{id: fmt.Sprintf("s%d-r%d", seed, idx), rng: rng, perturbed: perturbed, stats: map[string]int{},
		rawC: map[string]bool{}, rawS: map[string]bool{}}
	if perturbed {
		r.id += "-perturbed"
	}
	cInR, cInW := io.Pipe()
	sOutR, sOutW := io.Pipe()
	r.cw, r.sw = cInW, sOutW
	r.cOut, r.sIn = newC13Sink(), newC13Sink()
	relay := trzsz.NewTrzszRelay(cInR, r.cOut, r.sIn, sOutR, trzsz.TrzszOptions{})

	// plan
	nT := 1 + rng.Intn(3)
	var plan []*c13Transfer
	nConfirm, nAct, nFS, nFC := 0, 0, 0, 0
	for i := 0; i < nT; i++ {
		t := &c13Transfer{id: fmt.Sprintf("%02d%09d00", idx%90+10, rng.Intn(1000000000))}
		switch x := rng.Intn(10); {
		case x < 5:
			t.outcome = "confirm"
		case x < 7:
			t.outcome = "cancel"
		case x < 9:
			t.outcome = "badact"
		default:
			t.outcome = "badcfg"
		}
		lang := fmt.Sprintf("L%d_%d", idx, i)
		tmo := 21 + i + 10*(idx%50)
		t.act = c13Line("ACT", fmt.Sprintf(`{"verif":%d, "lang":"%s","version":"1.1.5","confirm":%v,"newline":"\n","protocol":2,"binary":true,"support_dir":true}`,
			i, lang, t.outcome != "cancel"))
		t.cfg = c13Line("CFG", fmt.Sprintf(`{"verif":%d, "quiet":false,"binary":false,"directory":false,"overwrite":false,"timeout":%d,"newline":"\n","protocol":2,"bufsize":10485760}`, i, tmo))
		if t.outcome == "badact" {
			switch rng.Intn(6) {
			case 0:
				t.act = []byte("#ACT:@@notbase64@@\n")
			case 1:
				t.act = []byte("#ACT:" + base64.StdEncoding.EncodeToString([]byte("not zlib at all")) + "\n")
			case 2: // what a user types into a client without trzsz: the colon first (":wq")
				t.act = [][]byte{[]byte(":wq\n"), []byte(":\n"), []byte("::x\n"), []byte(":q!\n")}[rng.Intn(4)]
				r.count("malformed:act_colon_first")
			case 3: // colon elsewhere, other type, type without colon
				t.act = [][]byte{[]byte("a:b\n"), []byte("#:x\n"), []byte("#ACT\n"), []byte("#CFG:abcd\n"), []byte("#\n")}[rng.Intn(5)]
				r.count("malformed:act_other_shape")
			default:
				t.act = append(c13Letters(rng, 1+rng.Intn(6), c13Lower), '\n')
			}
		}
		if t.outcome == "badcfg" {
			switch rng.Intn(5) {
			case 0:
				t.cfg = []byte("#CFG:%%%%\n")
			case 1:
				t.cfg = c13Line("CFG", `{"timeout":"not a number"`)
			case 2:
				t.cfg = [][]byte{[]byte(":%%\n"), []byte(":\n"), []byte("::\n")}[rng.Intn(3)]
				r.count("malformed:cfg_colon_first")
			case 3:
				t.cfg = [][]byte{[]byte("A:B\n"), []byte("#:X\n"), []byte("#CFG\n"), []byte("#ACT:ABCD\n")}[rng.Intn(4)]
				r.count("malformed:cfg_other_shape")
			default:
				t.cfg = append(c13Letters(rng, 1+rng.Intn(6), c13Upper), '\n')
			}
		}
		r.rawC[string(t.act)] = true
		r.rawS[string(t.cfg)] = true
		t.endBy = []string{"server", "client"}[rng.Intn(2)]
		t.exitLine = []byte(fmt.Sprintf("#EXIT:bye%d\n", i))
		switch t.outcome {
		case "confirm":
			nConfirm++
			nAct++
		case "cancel":
			nAct++
		case "badact":
			nFS++
			nFC++
		case "badcfg":
			nAct++
			nFS++
			nFC++
		}
		t.nConfirm, t.nActOK, t.nFailSrv, t.nFailCli = nConfirm, nAct, nFS, nFC
		r.trig = append(r.trig, [2]string{t.id[:11] + "20:0#R", t.id + ":0"})
		plan = append(plan, t)
		r.count("outcome:" + t.outcome)
		r.desc += " " + t.outcome + "/" + t.endBy
	}

	var wg sync.WaitGroup
	wg.Add(2)
	crng := rand.New(rand.NewSource(rng.Int63()))
	srng := rand.New(rand.NewSource(rng.Int63()))
	// ---- client ----
	go func() {
		defer wg.Done()
		rg := crng
		for _, t := range plan {
			if rg.Intn(2) == 0 { // type-ahead racing with the trigger; no newline
				for k := rg.Intn(3); k >= 0; k-- {
					r.clientWrite(c13Letters(rg, 1+rg.Intn(5), c13Lower))
				}
				r.count("client:typeahead")
			}
			core := t.id[:11] + "20:0#R"
			if !r.wait(r.cOut, "trigger", func(b []byte) bool { return bytes.Contains(b, []byte(core)) }) {
				return
			}
			if rg.Intn(3) == 0 { // certainly parked: becomes junk in front of the ACT on the same line
				r.clientWrite(c13Letters(rg, 1+rg.Intn(4), c13Lower))
				r.count("client:junk_before_act")
			}
			line := t.act
			post := [][]byte{}
			for k := rg.Intn(4); k > 0; k-- { // bytes after the handshake line, newlines allowed
				p := c13Letters(rg, 1+rg.Intn(8), c13Lower)
				if rg.Intn(2) == 0 {
					p = append(p, '\n')
				}
				post = append(post, p)
			}
			pieces := c13Pieces(rg, line)
			if len(pieces) > 1 {
				r.count("client:act_split")
			}
			if len(post) > 0 && rg.Intn(2) == 0 { // straddle: tail of the line and following bytes in one read
				pieces[len(pieces)-1] = append(append([]byte(nil), pieces[len(pieces)-1]...), post[0]...)
				post = post[1:]
				r.count("client:act_straddle")
			}
			for _, p := range pieces {
				r.clientWrite(p)
			}
			for _, p := range post {
				r.clientWrite(p)
			}
			switch t.outcome {
			case "confirm":
				want := t.nConfirm
				if !r.wait(r.cOut, "cfg", func(b []byte) bool { return c13CountToks(c13Norm(r, b), "CFG", r.rawS) >= want }) {
					return
				}
				for k := rg.Intn(4); k > 0; k-- { // transfer traffic, racing with the flush
					r.clientWrite([]byte(fmt.Sprintf("#SUCC:%s\n", c13Letters(rg, 1+rg.Intn(6), c13Lower))))
				}
				switch t.endBy {
				case "client":
					time.Sleep(r.settle())
					r.clientWrite(t.exitLine)
				default:
					if !r.wait(r.cOut, "exit", func(b []byte) bool { return bytes.Contains(b, t.exitLine) }) {
						return
					}
				}
			case "cancel":
				want := t.nActOK
				if !r.wait(r.sIn, "act_c", func(b []byte) bool { return c13CountToks(b, "ACT", r.rawC) >= want }) {
					return
				}
				time.Sleep(r.settle())
			case "badact", "badcfg":
				want := t.nFailCli
				if !r.wait(r.cOut, "fail", func(b []byte) bool { return c13CountToks(b, "FAIL", nil) >= want }) {
					return
				}
			}
		}
	}()
	// ---- server ----
	go func() {
		defer wg.Done()
		rg := srng
		for _, t := range plan {
			chunk := []byte("::TRZSZ:TRANSFER:R:1.1.5:" + t.id + ":0\r\n")
			if rg.Intn(2) == 0 {
				chunk = append(c13Letters(rg, 1+rg.Intn(6), c13Upper), chunk...)
			}
			if rg.Intn(3) == 0 {
				chunk = append(chunk, c13Letters(rg, 1+rg.Intn(6), c13Upper)...)
			}
			if rg.Intn(3) == 0 {
				r.serverWrite(c13Letters(rg, 1+rg.Intn(9), c13Upper+"\n"))
			}
			r.serverWrite(chunk)
			if rg.Intn(3) == 0 { // output racing with the status change; no newline
				r.serverWrite(c13Letters(rg, 1+rg.Intn(4), c13Upper))
				r.count("server:output_after_trigger")
			}
			if t.outcome == "badact" {
				want := t.nFailSrv
				if !r.wait(r.sIn, "fail_srv", func(b []byte) bool { return c13CountToks(b, "FAIL", nil) >= want }) {
					return
				}
				time.Sleep(r.settle())
				continue
			}
			want := t.nActOK
			if !r.wait(r.sIn, "act", func(b []byte) bool { return c13CountToks(b, "ACT", r.rawC) >= want }) {
				return
			}
			if t.outcome == "cancel" {
				if rg.Intn(2) == 0 {
					r.serverWrite(append(c13Letters(rg, 1+rg.Intn(6), c13Upper), '\n'))
				}
				time.Sleep(r.settle())
				continue
			}
			post := [][]byte{}
			for k := rg.Intn(4); k > 0; k-- {
				p := c13Letters(rg, 1+rg.Intn(8), c13Upper)
				if rg.Intn(2) == 0 {
					p = append(p, '\n')
				}
				post = append(post, p)
			}
			pieces := c13Pieces(rg, t.cfg)
			if len(pieces) > 1 {
				r.count("server:cfg_split")
			}
			if len(post) > 0 && rg.Intn(2) == 0 {
				pieces[len(pieces)-1] = append(append([]byte(nil), pieces[len(pieces)-1]...), post[0]...)
				post = post[1:]
				r.count("server:cfg_straddle")
			}
			for _, p := range pieces {
				r.serverWrite(p)
			}
			for _, p := range post {
				r.serverWrite(p)
			}
			if t.outcome == "badcfg" {
				want := t.nFailSrv
				if !r.wait(r.sIn, "fail_srv", func(b []byte) bool { return c13CountToks(b, "FAIL", nil) >= want }) {
					return
				}
				time.Sleep(r.settle())
				continue
			}
			// confirmed: transfer traffic, then the end of the transfer
			wantC := t.nConfirm
			if !r.wait(r.cOut, "cfg_s", func(b []byte) bool { return c13CountToks(c13Norm(r, b), "CFG", r.rawS) >= wantC }) {
				return
			}
			for k := rg.Intn(4); k > 0; k-- {
				r.serverWrite([]byte(fmt.Sprintf("#DATA:%s\n", c13Letters(rg, 1+rg.Intn(6), c13Upper))))
			}
			time.Sleep(r.settle())
			switch t.endBy {
			case "server":
				r.serverWrite(t.exitLine)
			default:
				if !r.wait(r.sIn, "exit_c", func(b []byte) bool { return bytes.Contains(b, t.exitLine) }) {
					return
				}
			}
			time.Sleep(r.settle())
		}
	}()
	wg.Wait()
	// the pipes are closed only after the verdict and only when every handshake completed: on
	// EOF wrapInput closes osStdinChan, and a worker that flushes afterwards would panic
	// (send on closed channel) -- end-of-session behaviour, not what is examined here

	// ---- verdict: poll until everything has been delivered ----
	cin := bytes.Join(r.cChunks, nil)
	sin := bytes.Join(r.sChunks, nil)
	desync := r.abort.Load()
	deadline := time.Now().Add(2 * time.Second)
	var ok1, ok2 bool
	var why1, why2 string
	var i1, i2 map[string]int
	for {
		s, k := r.sIn.snapshot(), c13Norm(r, r.cOut.snapshot())
		ok1, why1, i1 = c13Align(cin, s, "ACT", r.rawC, false)
		ok2, why2, i2 = c13Align(sin, k, "CFG", r.rawS, false)
		if ok1 && ok2 {
			break
		}
		if time.Now().After(deadline) {
			if desync { // a handshake that never completed keeps its bytes parked
				ok1, why1, i1 = c13Align(cin, s, "ACT", r.rawC, true)
				ok2, why2, i2 = c13Align(sin, k, "CFG", r.rawS, true)
			}
			break
		}
		time.Sleep(2 * time.Millisecond)
	}
	for k, v := range i1 {
		r.stats["srv_side:"+k] += v
	}
	for k, v := range i2 {
		r.stats["cli_side:"+k] += v
	}
	var viol []map[string]string
	report := func(side, why string) {
		viol = append(viol, map[string]string{"key": "relay-" + side + "-" + r.id,
			"what":   fmt.Sprintf("relay run %s: %s-side writer did not receive the input with only the handshake line replaced: %s", r.id, side, why),
			"detail": fmt.Sprintf("client chunks %s | server chunks %s | serverIn got %s | clientOut got %s", hxs(r.cChunks), hxs(r.sChunks), hx(r.sIn.snapshot()), hx(r.cOut.snapshot()))})
	}
	if !ok1 {
		report("server", why1)
	}
	if !ok2 {
		report("client", why2)
	}
	if c13VlDump != nil {
		// the trace is taken when the relay is quiet: same events and same bytes at the writers
		// over two consecutive looks (trailing steps that have not happened yet are harmless:
		// every prefix of a path is a path)
		var last int = -1
		for i := 0; i < 100; i++ {
			ev, over := c13VlDump(relay)
			gs, gc := r.sIn.snapshot(), r.cOut.snapshot()
			if len(ev) == last && bytes.Equal(gs, r.gotS) && bytes.Equal(gc, r.gotC) {
				break
			}
			last, r.trace, r.traceOver, r.gotS, r.gotC = len(ev), ev, over, gs, gc
			time.Sleep(3 * time.Millisecond)
		}
		c13VlRelease(relay)
	}
	if !desync && ok1 && ok2 {
		cInW.Close()
		sOutW.Close()
	}
	if desync {
		if os.Getenv("C13_DEBUG") != "" {
			fmt.Fprintf(os.Stderr, "DESYNC %s %v\n client: %q\n server: %q\n serverIn: %q\n clientOut: %q\n", r.id, r.stats, r.cChunks, r.sChunks, r.sIn.snapshot(), r.cOut.snapshot())
		}
		r.count("runs_desync")
	} else {
		r.count("runs_complete")
	}
	return r, viol
}

// undo the detector's rewriting of the trigger (id ..00 -> ..20, "#R" appended) so that the
// client-side stream can be compared with what the server wrote
func c13Norm(r *c13Run, b []byte) []byte {
	for _, p := range r.trig {
		b = bytes.ReplaceAll(b, []byte(p[0]), []byte(p[1]))
	}
	return b
}

var c13ReplaceRe = regexp.MustCompile(`^replace github.com/trzsz/trzsz-go => (\S+)`)

func c13RunAll(c *ctx, perturbed bool, n int) {
	os.Unsetenv("TMUX")
	seed := c.rng.Int63n(1 << 40)
	par := 48
	if c13Serial() {
		par = 1
	}
	sem := make(chan struct{}, par)
	var mu sync.Mutex
	var wg sync.WaitGroup
	for i := 0; i < n; i++ {
		rid := fmt.Sprintf("s%d-r%d", seed, i)
		if perturbed {
			rid += "-perturbed"
		}
		if !c13Only(rid) {
			continue
		}
		wg.Add(1)
		sem <- struct{}{}
		go func(i int) {
			defer wg.Done()
			defer func() { <-sem }()
			c13JBegin(rid)
			r, viol := c13RunOne(seed, i, perturbed)
			c13JEnd(rid)
			mu.Lock()
			defer mu.Unlock()
			pre := "plain:"
			if perturbed {
				pre = "perturbed:"
			}
			c.count(pre + "runs")
			for k, v := range r.stats {
				c.stats[pre+k] += v
			}
			desc := fmt.Sprintf("relay run %s:%s | %d client chunks, %d server chunks", r.id, r.desc, len(r.cChunks), len(r.sChunks))
			if c13VlDump != nil {
				// trace validation: the model must replay what the relay threads did, and end with
				// the bytes the real writers received
				c.count("traces_validated_against_impl")
				c.stats["trace:events"] += len(r.trace)
				if r.traceOver {
					c.violate("relay-trace-overflow-"+r.id, "the relay logged more events than the in-memory log holds", desc)
				}
				if len(r.trace) == 0 {
					c.violate("relay-trace-empty", "the overlay build logged no event for a relay run: trace logging did not run", desc)
				}
				c.emit(true, "relay_trace", "ok:"+hx(r.gotS)+":"+hx(r.gotC)+":-", "0", hxs(r.cChunks), hxs(r.sChunks), strings.Join(r.trace, " "))
			} else {
				c.note(true, desc)
			}
			for _, v := range viol {
				c.violate(v["key"], v["what"], v["detail"])
			}
		}(i)
	}
	wg.Wait()
}

func genC13RelayInner(c *ctx) {
	c.sample = []string{}
	os.Unsetenv("TMUX")
	switch os.Getenv("C13_MODE") { // the unperturbed families on the plain build, one child each
	case "seq": // canonical schedules vs the model
		c13VlDump = nil
		base := c.rng.Int63n(1 << 40)
		for i := c.pick(60, 400); i > 0; i-- {
			c13Sequential(c, base, i)
		}
		return
	case "runs": // scripted runs judged by the oracle
		c13VlDump = nil
		c13RunAll(c, false, c.pick(400, 4000))
		return
	case "late": // the reset guard, direct scenario: a stale reset request behind a slow server (c13_reset.go)
		for k, n := 0, c.pick(8, 48); k < n; k++ {
			c13LateResetPlain(c, k, k%4, (k/4)%2 == 1, 5*time.Millisecond)
		}
		return
	case "entry": // the client answers the trigger at once, GOMAXPROCS 2..16 (c13_proc.go)
		c13EntryAll(c)
		return
	}
	if os.Getenv("C13_SCHED") == "1" { // schedules found on the model, replayed (c13_reset.go)
		if c13VlDump == nil || c13VlSchedule == nil || os.Getenv("VERIF_VL") != "1" {
			panic("c13: C13_SCHED=1 needs the logging overlay build and VERIF_VL=1")
		}
		c13SchedAll(c, os.Getenv("C13_PERTURBED") == "1")
		return
	}
	n := c.pick(800, 8000)
	if os.Getenv("VERIF_VL") == "1" {
		if c13VlDump == nil {
			panic("c13: VERIF_VL=1 but this binary was not built with the logging overlay (-tags c13overlay)")
		}
		n = c.pick(500, 4000)
	} else {
		c13VlDump = nil
	}
	c13RunAll(c, os.Getenv("C13_PERTURBED") == "1", n)
	if f := os.Getenv("VERIF_VP_COUNT_FILE"); f != "" {
		if b, err := os.ReadFile(f); err == nil {
			n := 0
			fmt.Sscan(string(b), &n)
			c.stats["vp:points_hit"] = n
		}
	}
}

func genC13Relay(c *ctx) {
	os.Unsetenv("TMUX")
	exe, err := os.Executable()
	if err != nil {
		panic(err)
	}
	goDir := filepath.Dir(filepath.Dir(exe))
	gm, err := os.ReadFile(filepath.Join(goDir, "go.mod"))
	if err != nil {
		panic(err)
	}
	repo := ""
	for _, l := range strings.Split(string(gm), "\n") {
		if m := c13ReplaceRe.FindStringSubmatch(l); m != nil {
			repo = m[1]
		}
	}
	if repo == "" {
		panic("c13: no replace line for trzsz-go in go.mod")
	}
	tmp, err := os.MkdirTemp("", "c13_overlay_")
	if err != nil {
		panic(err)
	}
	defer os.RemoveAll(tmp)
	// ---- overlay build of this harness ----
	run := func(dir string, env []string, name string, args ...string) {
		cmd := exec.Command(name, args...)
		cmd.Dir = dir
		cmd.Env = append(os.Environ(), env...)
		out, err := cmd.CombinedOutput()
		if err != nil {
			fmt.Fprintf(os.Stderr, "c13: %s %v failed: %v\n%s\n", name, args, err, out)
			os.Exit(3)
		}
	}
	run(goDir, nil, "go", "build", "-o", filepath.Join(tmp, "overlay"), "./cmd/overlay")
	run(goDir, nil, filepath.Join(tmp, "overlay"), filepath.Join(repo, "trzsz"), tmp, "relay.go", "buffer.go")
	run(goDir, nil, "go", "build", "-tags", "verif,c13overlay", "-overlay", filepath.Join(tmp, "overlay.json"), "-o", filepath.Join(tmp, "corr_overlay"), "./cmd/corr")
	if pts, err := os.ReadFile(filepath.Join(tmp, "points.txt")); err == nil {
		for _, l := range strings.Split(string(pts), "\n") {
			if f := strings.Split(l, "\t"); len(f) == 4 {
				if f[3] == "?" {
					c.stats["trace:points_outside_model"]++
				} else {
					c.stats["trace:points_logged"]++
				}
			}
		}
	}
	// every relay runs in a child process (c13_proc.go):
	//   plain-*    the unperturbed families on the plain build, one child each (canonical schedules
	//              vs the model, scripted runs, stale reset behind a slow server, immediate answer
	//              to the trigger)
	//   perturbed  overlay build: seeded yield/sleep points, no logging, no extra synchronisation
	//   traced     overlay build + trace logging, every run replayed on the model
	//   sched      overlay build: the schedules found on the model, replayed through the scripted
	//              scheduler (c13_reset.go)
	ov := filepath.Join(tmp, "corr_overlay")
	drv := "C13_DRIVER=" + filepath.Join(filepath.Dir(goDir), "ocaml", "driver")
	passes := []c13Pass{
		{"plain-seq", exe, []string{"C13_MODE=seq"}},
		{"plain-runs", exe, []string{"C13_MODE=runs"}},
		{"plain-late", exe, []string{"C13_MODE=late"}},
		{"plain-entry", exe, []string{"C13_MODE=entry"}},
		{"perturbed", ov, []string{"C13_PERTURBED=1"}},
		{"traced", ov, []string{"C13_PERTURBED=1", "VERIF_VL=1"}},
		{"sched", ov, []string{"C13_PERTURBED=1", "VERIF_VL=1", "C13_SCHED=1", drv}},
	}
	merge := func(p c13Pass, st *c13ChildStats, cases string, vpSeed int64) {
		for k, v := range st.Distribution {
			if p.name == "traced" && strings.HasPrefix(k, "perturbed:") {
				k = "traced:" + k
			}
			if strings.HasPrefix(k, "fn:") {
				continue // counted again by the emit below
			}
			c.stats[k] += v
		}
		for _, v := range st.Violations {
			d := v["detail"]
			if !strings.HasPrefix(p.name, "plain") {
				d += fmt.Sprintf(" | VERIF_VP_SEED=%d", vpSeed)
			}
			c.violate(v["key"], v["what"], d)
		}
		if (p.name == "perturbed" || p.name == "traced") && st.Distribution["vp:points_hit"] == 0 {
			c.violate("relay-overlay-inert", "the overlay build executed no perturbation point: schedule perturbation did not run", "")
		}
		// the model lines of the child become cases of this group; its other executions (runs
		// judged by the direct oracle only) count as evaluations
		lines := 0
		if b, err := os.ReadFile(cases); err == nil {
			for _, l := range strings.Split(string(b), "\n") {
				f := strings.Split(l, "\t")
				if len(f) < 4 || f[len(f)-2] != "=>" {
					continue
				}
				lines++
				c.emit(true, f[0], f[len(f)-1], f[1:len(f)-2]...)
			}
		}
		c.n += st.Evaluations - lines
		c.nontrivial += st.Nontrivial - lines
		if p.name == "traced" && (lines == 0 || st.Distribution["traces_validated_against_impl"] != lines) {
			c.violate("relay-trace-inert", "the logging overlay produced no trace to validate", fmt.Sprintf("%d runs, %d trace lines", st.Distribution["perturbed:runs"], lines))
		}
		if strings.HasPrefix(p.name, "plain") || p.name == "traced" {
			for _, x := range st.Samples {
				if len(c.sample) < 8 {
					c.sample = append(c.sample, x)
				}
			}
		}
	}
	for _, p := range passes {
		c13RunPass(c, p, tmp, merge)
	}
}

// ---- correspondence on a canonical schedule ----
//
// One transfer driven strictly one chunk at a time (every write waits until its effect is
// visible at the opposite writer), so that what the relay does is determined up to steps
// that commute.  The same history is written down as a label sequence of the model; the
// texts of the lines the relay wrote itself and the detector's output are taken from the
// observation (they are oracle choices of the model), everything else -- what is eaten,
// what is parked, the order of the flush, the final status -- is predicted by the model and
// compared with the bytes the two writers received.
func c13Sequential(c *ctx, base int64, idx int) {
	rid := fmt.Sprintf("seq-%d", idx)
	if !c13Only(rid) {
		return
	}
	c13JBegin(rid)
	defer c13JEnd(rid)
	rng := rand.New(rand.NewSource(base*1000003 + int64(idx)))
	cInR, cInW := io.Pipe()
	sOutR, sOutW := io.Pipe()
	cOut, sIn := newC13Sink(), newC13Sink()
	_ = trzsz.NewTrzszRelay(cInR, cOut, sIn, sOutR, trzsz.TrzszOptions{})
	var cs, ss [][]byte
	var labels []string
	okAll := true
	patience := func() time.Duration { // once out of step the rest is only fed, not waited for
		if okAll {
			return 2 * time.Second
		}
		return 20 * time.Millisecond
	}
	waitLen := func(s *c13Sink, n int) {
		if !s.waitFor(func(b []byte) bool { return len(b) >= n }, patience()) {
			okAll = false
		}
	}
	cw := func(b []byte) { cs = append(cs, b); c13JWrite(rid, 'c', b); cInW.Write(b) }
	sw := func(b []byte) { ss = append(ss, b); c13JWrite(rid, 's', b); sOutW.Write(b) }
	settle := func() { time.Sleep(4 * time.Millisecond) }
	park := func(side string) []string {
		return []string{side + "R", side + "L", side + "K", side + "V", side + "A", side + "P"}
	}
	outcome := []string{"confirm", "confirm", "cancel", "badact", "badcfg"}[rng.Intn(5)]
	c.count("seq:" + outcome)

	// standby traffic
	p := append(c13Letters(rng, 1+rng.Intn(8), c13Lower), '\n')
	cw(p)
	waitLen(sIn, len(p))
	labels = append(labels, "IR", "IL", "IS", "IE:0")
	// trigger
	id := fmt.Sprintf("%02d%09d00", idx%90+10, rng.Intn(1000000000))
	trig := append(c13Letters(rng, rng.Intn(5), c13Upper), []byte("::TRZSZ:TRANSFER:R:1.1.5:"+id+":0\r\n")...)
	sw(trig)
	waitLen(cOut, len(trig)+2)
	k0 := cOut.snapshot()
	labels = append(labels, "OR", "OL", "OD:"+hx(k0)+":1", "OH", "OG", "OS")
	// the handshake line with following bytes in the same read, and one more chunk
	act := c13Line("ACT", fmt.Sprintf(`{"verif":1, "lang":"q%d","version":"1.1.5","confirm":%v,"newline":"\n","protocol":2,"binary":true,"support_dir":true}`, idx, outcome != "cancel"))
	if outcome == "badact" {
		act = []byte("#ACT:@@@@\n")
	}
	junk := c13Letters(rng, rng.Intn(4), c13Lower)
	x := append(c13Letters(rng, 1+rng.Intn(6), c13Lower), '\n')
	y := append(c13Letters(rng, 1+rng.Intn(6), c13Lower), '\n')
	first := append(append(append([]byte(nil), junk...), act...), x...)
	cw(first)
	cw(y)
	labels = append(labels, park("I")...)
	labels = append(labels, park("I")...)
	eatI := len(junk) + len(act)
	sBase := len(p)
	kBase := len(k0)
	raw := map[string]bool{string(act): true}
	insS := func(n int) [][]byte { // the first n relay-written lines on the server side
		sIn.waitFor(func(b []byte) bool { _, t := c13Strip(b, []string{"ACT", "FAIL"}, raw); return len(t) >= n }, patience())
		_, t := c13Strip(sIn.snapshot(), []string{"ACT", "FAIL"}, raw)
		var out [][]byte
		for _, k := range t {
			out = append(out, k.text)
		}
		if len(out) < n {
			okAll = false
			for len(out) < n {
				out = append(out, nil)
			}
		}
		return out
	}
	insK := func(n int, rawK map[string]bool) [][]byte {
		cOut.waitFor(func(b []byte) bool { _, t := c13Strip(b[kBase:], []string{"CFG", "FAIL"}, rawK); return len(t) >= n }, patience())
		_, t := c13Strip(cOut.snapshot()[kBase:], []string{"CFG", "FAIL"}, rawK)
		var out [][]byte
		for _, k := range t {
			out = append(out, k.text)
		}
		if len(out) < n {
			okAll = false
			for len(out) < n {
				out = append(out, nil)
			}
		}
		return out
	}
	flush := func(nI, nO int) {
		labels = append(labels, "HK")
		for i := 0; i < nI; i++ {
			labels = append(labels, "HPI", "HSI")
		}
		labels = append(labels, "HPI")
		for i := 0; i < nO; i++ {
			labels = append(labels, "HPO", "HSO")
		}
		labels = append(labels, "HPO", "HD", "TU")
	}
	final := "S"
	switch outcome {
	case "badact":
		fk := insK(1, nil)
		fs := insS(1)
		labels = append(labels, fmt.Sprintf("HA:%d:e", eatI), "HF1:"+hx(fk[0]), "HF2:"+hx(fs[0]))
		flush(2, 0)
		waitLen(sIn, sBase+len(fs[0])+len(x)+len(y))
		settle()
	case "cancel":
		as := insS(1)
		labels = append(labels, fmt.Sprintf("HA:%d:o", eatI), "HSA:"+hx(as[0])+":0")
		flush(2, 0)
		waitLen(sIn, sBase+len(as[0])+len(x)+len(y))
		settle()
	default:
		as := insS(1)
		labels = append(labels, fmt.Sprintf("HA:%d:o", eatI), "HSA:"+hx(as[0])+":1")
		cfg := c13Line("CFG", fmt.Sprintf(`{"verif":1, "timeout":%d,"newline":"\n","protocol":2,"bufsize":10485760}`, 30+idx%40))
		if outcome == "badcfg" {
			cfg = []byte("#CFG:%%%%\n")
		}
		rawK := map[string]bool{string(cfg): true}
		q := append(c13Letters(rng, 1+rng.Intn(6), c13Upper), '\n')
		sw(append(append([]byte(nil), cfg...), q...))
		labels = append(labels, park("O")...)
		if outcome == "badcfg" {
			fk := insK(1, rawK)
			fs := insS(2)
			labels = append(labels, fmt.Sprintf("HC:%d:e", len(cfg)), "HF1:"+hx(fk[0]), "HF2:"+hx(fs[1]))
			flush(2, 1)
			waitLen(sIn, sBase+len(as[0])+len(fs[1])+len(x)+len(y))
			waitLen(cOut, kBase+len(fk[0])+len(q))
			settle()
		} else {
			ck := insK(1, rawK)
			labels = append(labels, fmt.Sprintf("HC:%d:o", len(cfg)), "HSC:"+hx(ck[0]))
			flush(2, 1)
			waitLen(sIn, sBase+len(as[0])+len(x)+len(y))
			waitLen(cOut, kBase+len(ck[0])+len(q))
			settle()
			// transferring: one chunk each way, then the end marker from the server
			d := []byte("#SUCC:" + string(c13Letters(rng, 1+rng.Intn(5), c13Lower)) + "\n")
			n0 := len(sIn.snapshot())
			cw(d)
			waitLen(sIn, n0+len(d))
			labels = append(labels, "IR", "IL", "IS", "IE:0")
			e := []byte("#DATA:" + string(c13Letters(rng, 1+rng.Intn(5), c13Upper)) + "\n")
			m0 := len(cOut.snapshot())
			sw(e)
			waitLen(cOut, m0+len(e))
			labels = append(labels, "OR", "OL", "OB", "OE:0")
			if rng.Intn(4) == 0 { // leave the relay transferring
				final = "T"
			} else {
				ex := []byte("#EXIT:done\n")
				sw(ex)
				waitLen(cOut, m0+len(e)+len(ex))
				labels = append(labels, "OR", "OL", "OB", "OE:1")
				settle()
			}
		}
	}
	// afterwards
	z := append(c13Letters(rng, 1+rng.Intn(6), c13Lower), '\n')
	n0 := len(sIn.snapshot())
	cw(z)
	waitLen(sIn, n0+len(z))
	labels = append(labels, "IR", "IL", "IS", "IE:0")
	w := append(c13Letters(rng, 1+rng.Intn(6), c13Upper), '\n')
	m0 := len(cOut.snapshot())
	sw(w)
	waitLen(cOut, m0+len(w))
	if final == "T" {
		labels = append(labels, "OR", "OL", "OB", "OE:0")
	} else {
		labels = append(labels, "OR", "OL", "OD:"+hx(w)+":0", "OS")
	}
	time.Sleep(2 * time.Millisecond)
	res := hx(sIn.snapshot()) + ":" + hx(cOut.snapshot()) + ":-:" + final
	if !okAll {
		res += ":timeout"
		c.count("seq:timeout")
	}
	c.emit(true, "relay_run", res, "0", hxs(cs), hxs(ss), strings.Join(labels, " "))
	if final == "S" {
		cInW.Close()
		sOutW.Close()
	}
}
