package main

// C08 — with -y the destination ends up identical to the source whatever was there.
//
// Groups:
//   resume       (run by bin/check)  = a few end-to-end cases with the real 10 MiB block
//                + the dense sweep, which it delegates to a second copy of this harness
//                built with `go build -overlay` in which ONLY the literal of
//                kPrefixHashStep in append.go is rewritten to 64 (instrumentation; the
//                theorems are parametric in B > 0; /repo is not touched)
//                + unit-level cases of recvPrefixHash / pipelineRecvHashAck on
//                adversarial HASH / SUCC sequences (through export_verif_resume.go)
//   resume-sweep (run by the overlay copy, or directly for debugging)
//
// End-to-end = real client (trzsz.NewTrzszFilter, this process) against the real
// trz/tsz children, uploads and downloads, protocols 2/3/4 x base64/binary, several
// (source, previous destination) pairs per transfer plus bystander files.
//
// Direct oracles: destination == source after success; bystanders untouched and nothing
// new appears; bytes skipped never exceed the common prefix; every HASH digest is the
// MD5 of the source prefix of the announced length.

import (
	"bytes"
	"crypto/md5"
	"encoding/base64"
	"encoding/hex"
	"encoding/json"
	"fmt"
	"math/rand"
	"os"
	"os/exec"
	"path/filepath"
	"regexp"
	"sort"
	"strconv"
	"strings"
	"time"

	"github.com/trzsz/trzsz-go/trzsz"
)

func init() {
	groups["resume"] = genResume
	groups["resume-sweep"] = genResumeSweep
}

const c08OverlayStep = 64

// ---- (source, previous destination) pairs ------------------------------------------

type c08Pair struct {
	name string
	kind string // absent empty prefix identical longer diverge-*
	src  []byte
	dst  []byte // nil = absent
	// observations
	hashes    []trzsz.VerifHashMsg
	acks      []trzsz.VerifHashAck
	sizes     []int64 // SIZE lines of this file, sender -> receiver
	payload   int64   // decoded payload bytes of the data phase (-1 = not decodable: compressed)
	final     []byte
	finalOK   bool
	badDigest string
	comp      string // "" no COMP line, else its text
}

func c08CommonPrefix(a, b []byte) int {
	n := 0
	for n < len(a) && n < len(b) && a[n] == b[n] {
		n++
	}
	return n
}

// the relation space: (relative length, first differing offset)
type c08Rel struct {
	kind   string
	srcLen int
	dstLen int // -1 absent
	diff   int // first differing offset; -1 = one is a prefix of the other
	tail   int // after the differing byte: 0 = same bytes as the source again, 1 = unrelated bytes
}

func c08Relations(B int, srcLens []int) []c08Rel {
	var out []c08Rel
	seen := map[string]bool{}
	add := func(r c08Rel) {
		if r.srcLen < 0 || r.dstLen < -1 {
			return
		}
		if r.diff >= 0 && (r.diff >= r.srcLen || r.diff >= r.dstLen) {
			return
		}
		k := fmt.Sprint(r)
		if !seen[k] {
			seen[k] = true
			out = append(out, r)
		}
	}
	for _, L := range srcLens {
		add(c08Rel{"absent", L, -1, -1, 0})
		add(c08Rel{"empty", L, 0, -1, 0})
		add(c08Rel{"identical", L, L, -1, 0})
		for _, p := range []int{1, B - 1, B, B + 1, 2*B - 1, 2 * B, 2*B + 1, 3 * B, L - 1} {
			if p > 0 && p < L {
				add(c08Rel{"prefix", L, p, -1, 0})
			}
		}
		for _, e := range []int{1, B - 1, B, B + 1, 2*B + 3} {
			add(c08Rel{"longer", L, L + e, -1, 0})
		}
		for _, d := range []int{0, 1, B - 1, B, B + 1, 2*B - 1, 2 * B, 2*B + 1, 3*B - 1, 3 * B, 3*B + 1, L - 1} {
			if d < 0 {
				continue
			}
			for _, dl := range []int{d + 1, L - 1, L, L + 1, L + B, L + 2*B + 1} {
				for tail := 0; tail < 2; tail++ {
					kind := "diverge-same"
					if dl < L {
						kind = "diverge-shorter"
					} else if dl > L {
						kind = "diverge-longer"
					}
					add(c08Rel{kind, L, dl, d, tail})
				}
			}
		}
	}
	return out
}

func c08Make(rng *rand.Rand, r c08Rel, name string) *c08Pair {
	p := &c08Pair{name: name, kind: r.kind, payload: -1}
	p.src = make([]byte, r.srcLen)
	rng.Read(p.src)
	if r.dstLen < 0 {
		return p
	}
	p.dst = make([]byte, r.dstLen)
	rng.Read(p.dst)
	if r.diff < 0 {
		copy(p.dst, p.src)
	} else {
		copy(p.dst[:r.diff], p.src)
		if r.tail == 0 {
			copy(p.dst[r.diff:], p.src[min(r.diff, len(p.src)):])
		}
		p.dst[r.diff] = p.src[r.diff] ^ 0xff
	}
	return p
}

// ---- transcript ----------------------------------------------------------------------

type c08Line struct {
	typ  string
	text string // the line payload (not DATA content)
	data []byte // DATA content (raw, still encoded)
}

var c08TypeRe = regexp.MustCompile(`^#([A-Z]{3,4}):`)

// c08ParseWire splits one direction of the recorded transport into protocol lines.
// Binary DATA messages carry their length; their content is skipped by length.
func c08ParseWire(w []byte, binary bool) []c08Line {
	var out []c08Line
	i := 0
	for i < len(w) {
		j := bytes.IndexByte(w[i:], '#')
		if j < 0 {
			break
		}
		i += j
		m := c08TypeRe.FindSubmatch(w[i:min(len(w), i+8)])
		if m == nil {
			i++
			continue
		}
		typ := string(m[1])
		start := i + len(m[0])
		nl := bytes.IndexByte(w[start:], '\n')
		if nl < 0 {
			break
		}
		text := strings.TrimRight(string(w[start:start+nl]), "\r")
		i = start + nl + 1
		l := c08Line{typ: typ, text: text}
		if typ == "DATA" {
			if binary {
				n, err := strconv.Atoi(text)
				if err != nil || n < 0 || i+n > len(w) {
					break
				}
				l.data = w[i : i+n]
				i += n
			} else {
				l.data = []byte(text)
			}
			l.text = ""
		}
		out = append(out, l)
	}
	return out
}

func c08JSON(text string) map[string]any {
	js, err := decodeLinePayload(text)
	if err != nil {
		return nil
	}
	var m map[string]any
	if json.Unmarshal(js, &m) != nil {
		return nil
	}
	return m
}

func c08Int(v any) int64 {
	if f, ok := v.(float64); ok {
		return int64(f)
	}
	return -1
}

// c08Assign distributes the transcript over the files of the transfer (in order).
func c08Assign(pairs []*c08Pair, sWire, rWire []byte, binary, compressed, escaped bool, escLeader byte) string {
	// sender -> receiver
	idx := -1
	var dataBuf []byte
	flush := func() {
		if idx < 0 || idx >= len(pairs) {
			return
		}
		p := pairs[idx]
		if compressed {
			p.payload = -1
		} else if binary {
			n := int64(0)
			for k := 0; k < len(dataBuf); k++ {
				if escaped && dataBuf[k] == escLeader {
					k++
				}
				n++
			}
			p.payload = n
		} else {
			dec, err := base64.StdEncoding.DecodeString(string(dataBuf))
			if err != nil {
				p.payload = -2
			} else {
				p.payload = int64(len(dec))
			}
		}
		dataBuf = nil
	}
	for _, l := range c08ParseWire(sWire, binary) {
		switch l.typ {
		case "NAME":
			flush()
			idx++
		case "HASH":
			if idx >= 0 && idx < len(pairs) {
				m := c08JSON(l.text)
				if m == nil {
					return "undecodable HASH line"
				}
				h := trzsz.VerifHashMsg{}
				if v, ok := m["step"]; ok {
					h.Step = c08Int(v)
				}
				if v, ok := m["hash"].(string); ok {
					h.Hash = v
				}
				if v, ok := m["over"].(bool); ok {
					h.Over = v
				}
				pairs[idx].hashes = append(pairs[idx].hashes, h)
			}
		case "SIZE":
			if idx >= 0 && idx < len(pairs) {
				n, err := strconv.ParseInt(l.text, 10, 64)
				if err != nil {
					return "bad SIZE line " + l.text
				}
				pairs[idx].sizes = append(pairs[idx].sizes, n)
			}
		case "COMP":
			if idx >= 0 && idx < len(pairs) {
				pairs[idx].comp = l.text
			}
		case "DATA":
			dataBuf = append(dataBuf, l.data...)
		}
	}
	flush()
	if idx != len(pairs)-1 {
		return fmt.Sprintf("%d NAME lines for %d files", idx+1, len(pairs))
	}
	// receiver -> sender: V3 name answers are JSON {name,size}; hash acks JSON {step,match}
	idx = -1
	for _, l := range c08ParseWire(rWire, false) {
		if l.typ != "SUCC" {
			continue
		}
		m := c08JSON(l.text)
		if m == nil {
			continue
		}
		if _, ok := m["name"]; ok {
			idx++
			continue
		}
		if mv, ok := m["match"].(bool); ok && idx >= 0 && idx < len(pairs) {
			pairs[idx].acks = append(pairs[idx].acks, trzsz.VerifHashAck{Step: c08Int(m["step"]), Match: mv})
		}
	}
	return ""
}

// ---- one transfer --------------------------------------------------------------------

type c08Transfer struct {
	upload  bool
	binary  bool
	proto   int
	pairs   []*c08Pair
	seed    int64
	desc    string
	problem string // transfer-level failure
	stall   bool   // empty source over a non-empty destination, protocol >= 3 (expected to time out)
	timeout int
	auto    bool // compress auto (no -c): the sender probes the file after the seek to matchStep
	dbgWire []byte
	others  []string
}

func c08Desc(t *c08Transfer) string {
	dir := "download"
	if t.upload {
		dir = "upload"
	}
	var ks []string
	for _, p := range t.pairs {
		d := -1
		if p.dst != nil {
			d = len(p.dst)
		}
		ks = append(ks, fmt.Sprintf("%s(src=%d,dst=%d,cp=%d)", p.kind, len(p.src), d, c08CommonPrefix(p.src, p.dst)))
	}
	return fmt.Sprintf("%s proto=%d binary=%v -y files=[%s]", dir, t.proto, t.binary, strings.Join(ks, " "))
}

func c08Run(work string, id int, t *c08Transfer, deadline time.Duration) {
	root := filepath.Join(work, fmt.Sprint(id))
	srcDir := filepath.Join(root, "s")
	dest := filepath.Join(root, "dest")
	os.MkdirAll(srcDir, 0755)
	os.MkdirAll(dest, 0755)
	defer os.RemoveAll(root)
	var tops []string
	for _, p := range t.pairs {
		sp := filepath.Join(srcDir, p.name)
		os.WriteFile(sp, p.src, 0644)
		tops = append(tops, sp)
		if p.dst != nil {
			os.WriteFile(filepath.Join(dest, p.name), p.dst, 0644)
		}
	}
	// bystanders: names close to the transferred ones, a directory, an empty file
	rng := rand.New(rand.NewSource(t.seed))
	by := map[string][]byte{
		t.pairs[0].name + ".0":        fillBytes(rng, 100, 0),
		"_" + t.pairs[0].name:         fillBytes(rng, 70, 0),
		"zz-bystander.bin":            fillBytes(rng, 333, 0),
		"zz-empty":                    {},
		filepath.Join("zz-dir", "in"): fillBytes(rng, 65, 0),
	}
	for n, b := range by {
		os.MkdirAll(filepath.Dir(filepath.Join(dest, n)), 0755)
		os.WriteFile(filepath.Join(dest, n), b, 0644)
	}
	compress := "no"
	if t.auto {
		compress = ""
	}
	cfg := e2eCfg{upload: t.upload, binary: t.binary, overwrite: true, proto: t.proto, compress: compress,
		timeout: 10, quiet: true, deadline: deadline}
	if t.timeout > 0 {
		cfg.timeout = t.timeout
	}
	r := runTransfer(cfg, tops, dest)
	shown := r.serverOut
	if !t.upload {
		shown = r.termOut + r.serverOut
	}
	_, ok := parseSaved(shown)
	if !(ok && !r.hung && r.clientDone && r.serverExited && (!t.upload || r.uploadErr == nil)) {
		t.problem = fmt.Sprintf("no-success: hung=%v clientDone=%v serverExited=%v uploadErr=%v saved=%v tail=%q", r.hung,
			r.clientDone, r.serverExited, r.uploadErr, ok, tailStr(r.termOut+"|"+r.serverOut, 200))
	}
	for _, p := range t.pairs {
		b, err := os.ReadFile(filepath.Join(dest, p.name))
		p.final, p.finalOK = b, err == nil
	}
	// bystanders unchanged, nothing else appeared
	want := map[string]bool{"zz-dir": true}
	for n, b := range by {
		want[n] = true
		got, err := os.ReadFile(filepath.Join(dest, n))
		if err != nil || !bytes.Equal(got, b) {
			t.others = append(t.others, "bystander-changed:"+n)
		}
	}
	for _, p := range t.pairs {
		want[p.name] = true
	}
	snap, _ := snapshotTree(dest)
	for rel := range snap {
		if !want[rel] {
			t.others = append(t.others, "unexpected-entry:"+rel)
		}
	}
	sort.Strings(t.others)
	sDir, rDir := dirS2C, dirC2S
	if t.upload {
		sDir, rDir = dirC2S, dirS2C
	}
	if os.Getenv("C08_DEBUG") != "" {
		t.dbgWire = r.wire[sDir]
	}
	// protocol 2 fixes compression to "not binary" (isCompressFixed)
	compressed := t.proto < 3 && !t.binary
	// the escape table is announced in the server's CFG line (absent/null = no escaping)
	escaped := false
	for _, l := range c08ParseWire(r.wire[dirS2C], false) {
		if l.typ == "CFG" {
			if m := c08JSON(l.text); m != nil {
				if a, ok := m["escape_chars"].([]any); ok && len(a) > 0 {
					escaped = true
				}
			}
			break
		}
	}
	if msg := c08Assign(t.pairs, r.wire[sDir], r.wire[rDir], t.binary, compressed, escaped, 0xee); msg != "" && t.problem == "" {
		t.problem = "transcript: " + msg
	}
	if t.auto { // the payload is countable only where the sender announced "no compression"
		for _, p := range t.pairs {
			if p.comp != "false" {
				p.payload = -1
			}
		}
	}
	// every HASH digest is the MD5 of the source prefix of the announced length
	for _, p := range t.pairs {
		for _, h := range p.hashes {
			if h.Over {
				continue
			}
			if h.Step < 0 || h.Step > int64(len(p.src)) {
				p.badDigest = fmt.Sprintf("step %d outside the source", h.Step)
			} else if s := md5.Sum(p.src[:h.Step]); hex.EncodeToString(s[:]) != h.Hash {
				p.badDigest = fmt.Sprintf("digest at step %d is not md5(src[:%d])", h.Step, h.Step)
			}
		}
	}
}

func c08AcksStr(a []trzsz.VerifHashAck) string {
	if len(a) == 0 {
		return "-"
	}
	var s []string
	for _, x := range a {
		m := "0"
		if x.Match {
			m = "1"
		}
		s = append(s, fmt.Sprintf("%d:%s", x.Step, m))
	}
	return strings.Join(s, ",")
}

// c08Judge applies the direct oracles to one finished transfer and emits one model case
// per file.  small = the file contents are handed to the extracted list model.
func c08Judge(c *ctx, t *c08Transfer, B int64, small bool) {
	desc := c08Desc(t)
	if t.auto {
		desc += " compress=auto"
	}
	c.count(fmt.Sprintf("proto:%d", t.proto))
	c.count(fmt.Sprintf("upload:%v", t.upload))
	c.count(fmt.Sprintf("binary:%v", t.binary))
	if t.stall {
		// empty source over a non-empty destination, protocol >= 3: size = min = 0, the hash sender
		// sends only Over, the receiver answers nothing, the sender's ack reader waits for a SUCC
		// that never comes (the model says SenderBlocked) until the timeout fails the transfer
		p := t.pairs[0]
		c.count("kind:empty-source-over-nonempty")
		var hs []string
		for _, h := range p.hashes {
			if h.Over {
				hs = append(hs, "over")
			} else {
				hs = append(hs, fmt.Sprint(h.Step))
			}
		}
		impl := "done"
		if t.problem != "" && strings.Contains(t.problem, "timeout") {
			impl = fmt.Sprintf("sender-blocked hs=%s acks=%s", strings.Join(hs, ","), c08AcksStr(p.acks))
			c.violate("resume:empty-source-stalls", "an empty source over a non-empty destination (-y, protocol >= 3) stalls until the "+
				"timeout and fails: the sender waits for a hash ack although no HASH line was sent", desc+" :: "+t.problem)
		} else if t.problem != "" {
			c.violate("resume:no-success", "overwrite transfer over a fault-free transport did not succeed", desc+" :: "+t.problem)
			return
		} else {
			impl = fmt.Sprintf("done hs=%s acks=%s mr=0 ms=0 sent=0 final=%s", strings.Join(hs, ","), c08AcksStr(p.acks), hx(p.final))
			if len(p.final) != 0 || !p.finalOK {
				c.violate("resume:dest-differs:empty-source", "after a successful -y transfer the destination is not identical to the source", desc)
			}
		}
		c.emit(true, "resume_exchange", impl, strconv.FormatInt(B, 10), strconv.Itoa(t.proto), "-", hx(p.src), hx(p.dst))
		return
	}
	if t.problem != "" {
		c.violate("resume:no-success", "overwrite transfer over a fault-free transport did not succeed", desc+" :: "+t.problem)
		return
	}
	if len(t.others) > 0 {
		c.violate("resume:bystander", "a file outside the transferred names was touched, or an unexpected entry appeared",
			desc+" :: "+strings.Join(t.others, "; "))
	}
	for _, p := range t.pairs {
		c.count("kind:" + p.kind)
		cp := c08CommonPrefix(p.src, p.dst)
		pd := fmt.Sprintf("%s file=%s kind=%s src=%d dst=%d cp=%d", desc, p.name, p.kind, len(p.src), len(p.dst), cp)
		if !p.finalOK || !bytes.Equal(p.final, p.src) {
			c.violate("resume:dest-differs:"+p.kind, "after a successful -y transfer the destination is not identical to the source",
				fmt.Sprintf("%s :: dest %d bytes, first difference at %d", pd, len(p.final), c08CommonPrefix(p.final, p.src)))
		}
		if p.badDigest != "" {
			c.violate("resume:digest", "a HASH line does not carry the cumulative MD5 of the source prefix", pd+" :: "+p.badDigest)
		}
		if len(p.sizes) == 0 {
			c.violate("resume:transcript", "no SIZE line for a transferred file", pd)
			continue
		}
		remaining := p.sizes[len(p.sizes)-1]
		skipped := int64(len(p.src)) - remaining
		if skipped < 0 || skipped > int64(cp) {
			c.violate("resume:skip-exceeds-prefix", "bytes skipped exceed the common prefix of source and destination",
				fmt.Sprintf("%s :: skipped %d", pd, skipped))
		}
		if p.payload >= 0 && p.payload != remaining && os.Getenv("C08_DEBUG") != "" {
			fmt.Fprintf(os.Stderr, "PAYLOAD %s\nsrc=%x\nwire=%q\n", pd, p.src, t.dbgWire)
		}
		if p.payload >= 0 && p.payload != remaining {
			c.violate("resume:payload", "payload bytes on the wire differ from the announced remaining size",
				fmt.Sprintf("%s :: payload %d, SIZE %d", pd, p.payload, remaining))
		}
		if p.payload == -2 {
			c.violate("resume:transcript", "undecodable DATA payload", pd)
		}
		if skipped > 0 {
			c.count("skipped>0")
		}
		if skipped == int64(len(p.src)) && len(p.src) > 0 {
			c.count("nothing-sent")
		}
		if len(p.dst) > len(p.src) {
			c.count("dst-longer(tail cut)")
		}
		if t.auto {
			c.count("auto-compress COMP=" + p.comp)
			if remaining >= 128*1024 {
				c.count("auto-compress probe after seek (remaining >= 128 KiB)")
			}
		}
		// number of HASH lines before Over; a short count = the hash sender saw stopNow
		nh := 0
		over := false
		for _, h := range p.hashes {
			if h.Over {
				over = true
			} else {
				nh++
			}
		}
		size := min(len(p.src), len(p.dst))
		full := 0
		if B > 0 {
			full = int((int64(size) + B - 1) / B)
		}
		nontrivial := len(p.acks) > 0
		if small {
			stops := "-"
			if nh < full {
				stops = strconv.Itoa(nh)
				c.count("hash-sender-stopped-early")
			}
			var hs []string
			for _, h := range p.hashes {
				if h.Over {
					hs = append(hs, "over")
				} else {
					hs = append(hs, fmt.Sprintf("%d/%d", h.Step, h.Step)) // digest checked above: md5(src[:step])
				}
			}
			hstr := "-"
			if len(hs) > 0 {
				hstr = strings.Join(hs, ",")
			}
			// receiver's truncation offset = final length - bytes written; sender's = source length - remaining
			mr := int64(len(p.final)) - remaining
			impl := fmt.Sprintf("done hs=%s acks=%s mr=%d ms=%d sent=%d final=%s", hstr, c08AcksStr(p.acks), mr, skipped, remaining, hx(p.final))
			c.emit(nontrivial, "resume_exchange", impl, strconv.FormatInt(B, 10), strconv.Itoa(t.proto), stops, hx(p.src), hx(p.dst))
			if t.proto >= 3 && len(p.dst) > 0 { // the arithmetic closed form (as used at the real block size)
				good := 0
				for _, a := range p.acks {
					if a.Match {
						good++
					}
				}
				c.emit(nontrivial, "resume_abs", fmt.Sprintf("m=%d good=%d nacks=%d kok=1", skipped, good, len(p.acks)),
					strconv.FormatInt(B, 10), strconv.Itoa(size), strconv.Itoa(cp), strconv.Itoa(nh))
			}
			if t.proto >= 3 { // the closed form of the agreed offset
				c.emit(skipped > 0, "resume_agreed", strconv.FormatInt(skipped, 10), strconv.FormatInt(B, 10), hx(p.src), hx(p.dst))
			}
		} else {
			good := 0
			for _, a := range p.acks {
				if a.Match {
					good++
				}
			}
			if nh < full {
				c.count("hash-sender-stopped-early")
			}
			if t.proto >= 3 && len(p.dst) > 0 {
				if !over {
					c.violate("resume:transcript", "hash exchange without Over", pd)
				}
				impl := fmt.Sprintf("m=%d good=%d nacks=%d kok=1", skipped, good, len(p.acks))
				c.emit(true, "resume_abs", impl, strconv.FormatInt(B, 10), strconv.Itoa(size), strconv.Itoa(cp), strconv.Itoa(nh))
			} else {
				c.note(true, "e2e "+pd)
			}
		}
	}
}

// ---- the dense sweep (run by the overlay copy: B = 64) ---------------------------------

func genResumeSweep(c *ctx) {
	B := int(trzsz.VerifPrefixHashStep())
	c.count(fmt.Sprintf("block-size:%d", B))
	if B > 4096 {
		// not the overlay build: only a token run (the files would be far too large)
		return
	}
	work, _ := os.MkdirTemp("", "e2e_resume_")
	defer os.RemoveAll(work)
	srcLens := []int{0, 1, B - 1, B, B + 1, 2 * B, 2*B + 1, 3*B - 1, 3*B + 7, 5 * B}
	rels := c08Relations(B, srcLens)
	c.count(fmt.Sprintf("relations:%d", len(rels)))
	perTransfer := 8
	type combo struct {
		upload, binary bool
		proto          int
	}
	var combos []combo
	for _, pr := range []int{2, 3, 4} {
		for _, bin := range []bool{false, true} {
			for _, up := range []bool{true, false} {
				combos = append(combos, combo{up, bin, pr})
			}
		}
	}
	// an empty source over a non-empty destination stalls with protocol >= 3 (finding): such
	// pairs travel alone, with a short timeout; under protocol 2 they are ordinary
	var plain, stallRels []c08Rel
	for _, r := range rels {
		if r.srcLen == 0 && r.dstLen > 0 {
			stallRels = append(stallRels, r)
		} else {
			plain = append(plain, r)
		}
	}
	rels = plain
	// quick: every relation under protocol 3 and under protocol 4, a quarter under protocol 2;
	// thorough: every relation under every one of the 12 combinations
	var transfers []*c08Transfer
	mk := func(cb combo, rs []c08Rel) {
		for i := 0; i < len(rs); i += perTransfer {
			t := &c08Transfer{upload: cb.upload, binary: cb.binary, proto: cb.proto, seed: c.rng.Int63()}
			rng := rand.New(rand.NewSource(t.seed))
			for j := i; j < len(rs) && j < i+perTransfer; j++ {
				t.pairs = append(t.pairs, c08Make(rng, rs[j], fmt.Sprintf("f%02d.bin", j-i)))
			}
			transfers = append(transfers, t)
		}
	}
	if c.thorough() {
		for _, cb := range combos {
			perm := c.rng.Perm(len(rels))
			rs := make([]c08Rel, len(rels))
			for i, k := range perm {
				rs[i] = rels[k]
			}
			mk(cb, rs)
		}
	} else {
		perm := c.rng.Perm(len(rels))
		buckets := make([][]c08Rel, len(combos))
		var v3, v4 []int
		for i, cb := range combos {
			if cb.proto == 3 {
				v3 = append(v3, i)
			} else if cb.proto == 4 {
				v4 = append(v4, i)
			}
		}
		for i, k := range perm {
			// every relation once under protocol 3 and once under protocol 4 (direction and
			// encoding rotate), 1 in 4 also under a protocol-2 combination
			b := v3[i%len(v3)]
			buckets[b] = append(buckets[b], rels[k])
			b = v4[(i+1+i/len(v4))%len(v4)]
			buckets[b] = append(buckets[b], rels[k])
			if i%4 == 0 {
				b2 := (i / 4) % 4 // combos 0..3 are protocol 2
				buckets[b2] = append(buckets[b2], rels[k])
			}
		}
		for i, cb := range combos {
			mk(cb, buckets[i])
		}
	}
	for i, r := range stallRels {
		for j, cb := range combos {
			if !c.thorough() && (i+j)%len(stallRels) != 0 {
				continue
			}
			t := &c08Transfer{upload: cb.upload, binary: cb.binary, proto: cb.proto, seed: c.rng.Int63(), stall: cb.proto >= 3, timeout: 2}
			t.pairs = []*c08Pair{c08Make(rand.New(rand.NewSource(t.seed)), r, "f00.bin")}
			transfers = append(transfers, t)
		}
	}
	c.count(fmt.Sprintf("transfers:%d", len(transfers)))
	parallelDo(len(transfers), 28, func(i int) { c08Run(work, i, transfers[i], 40*time.Second) })
	// a failed multi-file transfer is re-run file by file so that the replay names the one pair
	var singles []*c08Transfer
	for _, t := range transfers {
		if t.problem != "" && !t.stall && len(t.pairs) > 1 && len(singles) < 64 {
			for _, p := range t.pairs {
				q := &c08Pair{name: p.name, kind: p.kind, src: p.src, dst: p.dst, payload: -1}
				singles = append(singles, &c08Transfer{upload: t.upload, binary: t.binary, proto: t.proto, seed: t.seed, pairs: []*c08Pair{q}, timeout: 3})
			}
		}
	}
	parallelDo(len(singles), 28, func(i int) { c08Run(work, 500000+i, singles[i], 40*time.Second) })
	for _, t := range singles {
		if t.problem != "" {
			c08Judge(c, t, int64(B), true)
		}
	}
	for _, t := range transfers {
		c08Judge(c, t, int64(B), true)
	}
}

// ---- real-block cases + delegation + unit cases ----------------------------------------

func c08RealBlock(c *ctx) []*c08Transfer {
	B := int(trzsz.VerifPrefixHashStep())
	work, _ := os.MkdirTemp("", "e2e_resume_big_")
	defer os.RemoveAll(work)
	MiB := 1 << 20
	type bigCase struct {
		srcLen, dstLen, diff int
		kind                 string
	}
	all := []bigCase{
		{25 * MiB, 25*MiB + 5, 2*B + 1, "diverge-longer"},  // diverges just after the 2nd block boundary, tail to cut
		{21*MiB + 3, 21*MiB + 3, -1, "identical"},          // nothing sent
		{31 * MiB, 12 * MiB, -1, "prefix"},                 // shorter prefix: 10 MiB kept (2 MiB of equal data re-sent)
		{22 * MiB, 26 * MiB, -1, "longer"},                 // destination longer: cut
		{25 * MiB, 25 * MiB, 2*B - 1, "diverge-same"},      // last byte of block 2
		{25 * MiB, 25 * MiB, 2 * B, "diverge-same"},        // first byte of block 3
		{33 * MiB, 30 * MiB, B - 1, "diverge-shorter"},     // inside block 1: nothing kept
		{35 * MiB, 35*MiB + 1, 3*B + 1, "diverge-longer"},  // 4th block partial
		{2*B + 1, 2 * B, -1, "prefix"},                     // exactly two blocks kept, one byte sent
		{2 * B, 2*B + 1, -1, "longer"},                     // exactly two blocks, one byte cut
		{25 * MiB, 24 * MiB, 0, "diverge-shorter"},         // first byte differs
		{27 * MiB, -1, -1, "absent"},
	}
	n := c.pick(8, len(all)*2)
	var transfers []*c08Transfer
	for i := 0; i < n; i++ {
		bc := all[i%len(all)]
		t := &c08Transfer{upload: (i+i/len(all))%2 == 0, binary: i%3 != 0, proto: []int{4, 3, 4, 3, 2}[i%5], seed: c.rng.Int63()}
		rng := rand.New(rand.NewSource(t.seed))
		t.pairs = []*c08Pair{c08Make(rng, c08Rel{bc.kind, bc.srcLen, bc.dstLen, bc.diff, i % 2}, "big.bin")}
		transfers = append(transfers, t)
	}
	parallelDo(len(transfers), 5, func(i int) { c08Run(work, 100000+i, transfers[i], 120*time.Second) })
	return transfers
}

// c08Probe: resumed transfers with compress auto where the part still to send is around the
// 128 KiB threshold: isCompressionProfitable seeks around in the source AFTER sendPrefixHash
// has positioned it at matchStep and must leave it there.
func c08Probe(c *ctx) []*c08Transfer {
	work, _ := os.MkdirTemp("", "e2e_resume_probe_")
	defer os.RemoveAll(work)
	KiB := 1024
	var transfers []*c08Transfer
	n := c.pick(4, 24)
	for i := 0; i < n; i++ {
		t := &c08Transfer{upload: i%4 != 3, binary: i%2 == 0, proto: []int{4, 3}[(i/2)%2], seed: c.rng.Int63(), auto: true}
		rng := rand.New(rand.NewSource(t.seed))
		for j := 0; j < 6; j++ {
			srcLen := 300*KiB + rng.Intn(100*KiB)
			if j == 2 {
				srcLen += 128 * KiB
			}
			var keep int
			switch j {
			case 0:
				keep = srcLen - 128*KiB // exactly 128 KiB left
			case 1:
				keep = srcLen - 128*KiB + 1 // one byte less: compression fixed, no probe
			case 2:
				keep = srcLen - 3*128*KiB - rng.Intn(1000) // three probe blocks
			case 3:
				keep = 1 + rng.Intn(1000)
			default:
				keep = 1 + rng.Intn(srcLen-128*KiB)
			}
			p := &c08Pair{name: fmt.Sprintf("p%02d.bin", j), kind: "prefix", payload: -1}
			p.src = fillBytes(rng, srcLen, []int{0, 2, 1, 2, 0, 2}[j]) // incompressible / text / zeros
			if j == 5 {                                                 // compressible head, incompressible rest
				copy(p.src[srcLen/2:], fillBytes(rng, srcLen-srcLen/2, 0))
			}
			p.dst = append([]byte(nil), p.src[:keep]...)
			if j == 4 && keep > 10 { // diverging a little before the end of the destination: nothing kept (one block)
				p.dst[keep-5] ^= 0xff
				p.kind = "diverge-shorter"
			}
			t.pairs = append(t.pairs, p)
		}
		transfers = append(transfers, t)
	}
	parallelDo(len(transfers), 8, func(i int) { c08Run(work, 200000+i, transfers[i], 60*time.Second) })
	return transfers
}

// c08Overlay builds <go>/bin/ov64/{corr,trz,tsz} with kPrefixHashStep rewritten to 64.
func c08Overlay() (string, error) {
	goDir := filepath.Dir(e2eBinDir)
	gm, err := os.ReadFile(filepath.Join(goDir, "go.mod"))
	if err != nil {
		return "", fmt.Errorf("cannot find go.mod next to %s: %v", e2eBinDir, err)
	}
	m := regexp.MustCompile(`replace github.com/trzsz/trzsz-go => (\S+)`).FindSubmatch(gm)
	if m == nil {
		return "", fmt.Errorf("no replace line in go.mod")
	}
	repo := string(m[1])
	orig := filepath.Join(repo, "trzsz", "append.go")
	srcTxt, err := os.ReadFile(orig)
	if err != nil {
		return "", err
	}
	re := regexp.MustCompile(`(?m)^const kPrefixHashStep = [^\n]*$`)
	if len(re.FindAll(srcTxt, -1)) != 1 {
		return "", fmt.Errorf("append.go: expected exactly one `const kPrefixHashStep = ...` line")
	}
	patched := re.ReplaceAll(srcTxt, []byte(fmt.Sprintf("const kPrefixHashStep = %d", c08OverlayStep)))
	ov := filepath.Join(goDir, "bin", "ov64")
	os.MkdirAll(ov, 0755)
	pf := filepath.Join(ov, "append_ov64.go")
	if old, _ := os.ReadFile(pf); !bytes.Equal(old, patched) {
		os.WriteFile(pf, patched, 0644)
	}
	js, _ := json.Marshal(map[string]any{"Replace": map[string]string{orig: pf}})
	oj := filepath.Join(ov, "overlay.json")
	os.WriteFile(oj, js, 0644)
	build := func(dir string, args ...string) error {
		cmd := exec.Command("go", append([]string{"build", "-overlay", oj}, args...)...)
		cmd.Dir = dir
		cmd.Env = append(os.Environ(), "CGO_ENABLED=0", "GOFLAGS=-mod=mod", "GOPROXY=off", "GOSUMDB=off", "GOTOOLCHAIN=local")
		out, err := cmd.CombinedOutput()
		if err != nil {
			return fmt.Errorf("go build -overlay %v in %s: %v\n%s", args, dir, err, out)
		}
		return nil
	}
	if err := build(goDir, "-tags", "verif", "-o", filepath.Join(ov, "corr"), "./cmd/corr"); err != nil {
		return "", err
	}
	for _, b := range []string{"trz", "tsz"} {
		if err := build(repo, "-o", filepath.Join(ov, b), "./cmd/"+b); err != nil {
			return "", err
		}
	}
	return ov, nil
}

func genResume(c *ctx) {
	if trzsz.VerifPrefixHashStep() == c08OverlayStep {
		genResumeSweep(c) // this IS the overlay copy
		return
	}
	t0 := time.Now()
	type ovRes struct {
		dir string
		err error
	}
	ovCh := make(chan ovRes, 1)
	go func() { d, err := c08Overlay(); ovCh <- ovRes{d, err} }()
	c08Unit(c)
	ov := <-ovCh
	if ov.err != nil {
		panic("overlay build failed: " + ov.err.Error())
	}
	c.count(fmt.Sprintf("overlay-build-seconds:%d", int(time.Since(t0).Seconds())))
	// the dense sweep runs in the overlay copy, concurrently with the real-block cases
	tmp, _ := os.MkdirTemp("", "resume_ov_")
	defer os.RemoveAll(tmp)
	cases, stats := filepath.Join(tmp, "cases"), filepath.Join(tmp, "stats")
	cmd := exec.Command(filepath.Join(ov.dir, "corr"), "resume-sweep", fmt.Sprint(c.rng.Int63()), c.tier, cases, stats)
	var cerr bytes.Buffer
	cmd.Stderr = &cerr
	if err := cmd.Start(); err != nil {
		panic("overlay harness: " + err.Error())
	}
	probe := c08Probe(c)
	big := c08RealBlock(c)
	if err := cmd.Wait(); err != nil {
		panic("overlay harness failed: " + err.Error() + "\n" + tailStr(cerr.String(), 3000))
	}
	// merge: case lines, distribution, violations
	cb, _ := os.ReadFile(cases)
	for _, line := range strings.Split(string(cb), "\n") {
		f := strings.Split(line, "\t")
		if len(f) < 4 || f[len(f)-2] != "=>" {
			continue
		}
		res := f[len(f)-1]
		nontrivial := strings.Contains(res, " acks=") && !strings.Contains(res, " acks=- ")
		if f[0] == "resume_agreed" {
			nontrivial = res != "0"
		}
		c.emit(nontrivial, f[0], res, f[1:len(f)-2]...)
	}
	var st struct {
		Distribution map[string]int      `json:"distribution"`
		Violations   []map[string]string `json:"violations"`
		Evaluations  int                 `json:"evaluations"`
	}
	sb, _ := os.ReadFile(stats)
	if json.Unmarshal(sb, &st) != nil {
		panic("overlay harness wrote no stats")
	}
	for k, v := range st.Distribution {
		if !strings.HasPrefix(k, "fn:") {
			c.stats["B64 "+k] += v
		}
	}
	for _, v := range st.Violations {
		c.violate(v["key"], v["what"], "[overlay build, kPrefixHashStep=64] "+v["detail"])
	}
	if st.Distribution["block-size:64"] == 0 {
		panic("the overlay copy did not run with block size 64")
	}
	// the real-block cases are judged last so that a replay names a small case when there is one
	for _, t := range probe {
		c.count("auto-compress-transfer")
		c08Judge(c, t, trzsz.VerifPrefixHashStep(), false)
	}
	for _, t := range big {
		c.count("real-block-transfer")
		c08Judge(c, t, trzsz.VerifPrefixHashStep(), false)
	}
}

// ---- unit level: recvPrefixHash / pipelineRecvHashAck on arbitrary peer input ------------

func c08Unit(c *ctx) {
	work, _ := os.MkdirTemp("", "resume_unit_")
	defer os.RemoveAll(work)
	md5hex := func(b []byte) string { s := md5.Sum(b); return hex.EncodeToString(s[:]) }
	n := c.pick(300, 3000)
	type ucase struct {
		dst    []byte
		msgs   []trzsz.VerifHashMsg
		model  []string // per message "step:hexOfHashedBytes" | "over"
		result string
	}
	cases := make([]*ucase, n)
	for i := range cases {
		u := &ucase{dst: fillBytes(c.rng, 1+c.rng.Intn(40), 0)}
		cur := int64(0)
		k := c.rng.Intn(6)
		for j := 0; j < k; j++ {
			var step int64
			switch c.rng.Intn(10) {
			case 0:
				step = cur // a repeated step (zero-length read): refused by the guard
			case 1:
				step = cur - 1 - int64(c.rng.Intn(5)) // below matchStep: refused by the guard (negative make without it)
			case 2:
				step = int64(len(u.dst)) + 1 + int64(c.rng.Intn(3)) // beyond the file
			case 3:
				// around the block size: cur+B is the largest step still read (then EOF), cur+B+1 is refused
				bs := trzsz.VerifPrefixHashStep()
				step = []int64{1 << 20, 1 << 27, -(1 << 40), -1, cur + bs, cur + bs + 1, bs, bs + 1, 1 << 62}[c.rng.Intn(9)]
			default:
				step = cur + 1 + int64(c.rng.Intn(12))
			}
			// the digest: of the true prefix (match), or of something else
			var hashed []byte
			if step >= 0 && step <= int64(len(u.dst)) && c.rng.Intn(4) != 0 {
				hashed = u.dst[:step]
			} else {
				hashed = fillBytes(c.rng, c.rng.Intn(5), 0)
			}
			u.msgs = append(u.msgs, trzsz.VerifHashMsg{Step: step, Hash: md5hex(hashed)})
			u.model = append(u.model, fmt.Sprintf("%d:%s", step, hx(hashed)))
			if step > cur && step <= int64(len(u.dst)) {
				cur = step
			}
		}
		if c.rng.Intn(8) != 0 {
			u.msgs = append(u.msgs, trzsz.VerifHashMsg{Over: true})
			u.model = append(u.model, "over")
		}
		cases[i] = u
	}
	parallelDo(n, 16, func(i int) {
		u := cases[i]
		path := filepath.Join(work, fmt.Sprintf("u%d", i))
		os.WriteFile(path, u.dst, 0644)
		acks, off, errStr := trzsz.VerifRecvPrefixHash(path, 1000, u.msgs)
		after, _ := os.ReadFile(path)
		os.Remove(path)
		as := c08AcksStr(acks)
		switch {
		case errStr == "":
			// returned nil: Over seen; file truncated at matchStep and positioned there
			u.result = fmt.Sprintf("over acks=%s m=%d", as, len(after))
			if off != int64(len(after)) {
				u.result += fmt.Sprintf(" (offset %d != length %d)", off, len(after))
			}
			if !bytes.HasPrefix(u.dst, after) {
				u.result += " (content is not a prefix of the old content)"
			}
		case strings.Contains(errStr, "Invalid hash step"):
			u.result = "invalid acks=" + as
		case strings.HasPrefix(errStr, "panic:"):
			u.result = "panic acks=" + as
		case strings.Contains(errStr, "EOF"):
			u.result = "readerr acks=" + as
		case strings.Contains(errStr, "Stopped") || strings.Contains(errStr, "stopped") || strings.Contains(errStr, "timeout"):
			u.result = "blocked acks=" + as
		default:
			u.result = "err:" + errStr
		}
	})
	for _, u := range cases {
		c.count("unit-recv:" + strings.SplitN(u.result, " ", 2)[0])
		ms := "-"
		if len(u.model) > 0 {
			ms = strings.Join(u.model, ",")
		}
		c.emit(len(u.msgs) > 1, "resume_recv", u.result, strconv.FormatInt(trzsz.VerifPrefixHashStep(), 10), hx(u.dst), ms)
	}
	// sender's ack reader
	for i := 0; i < c.pick(200, 2000); i++ {
		size := int64(1 + c.rng.Intn(30))
		var acks []trzsz.VerifHashAck
		cur := int64(0)
		for j := c.rng.Intn(5); j > 0; j-- {
			a := trzsz.VerifHashAck{Match: c.rng.Intn(5) != 0}
			switch c.rng.Intn(8) {
			case 0:
				a.Step = size
			case 1:
				a.Step = size + 1 + int64(c.rng.Intn(3))
			case 2:
				a.Step = -int64(c.rng.Intn(4))
			default:
				a.Step = cur + int64(c.rng.Intn(8))
			}
			cur = a.Step
			acks = append(acks, a)
		}
		m, got, errStr := trzsz.VerifRecvHashAcks(size, acks)
		res := ""
		switch {
		case got:
			res = fmt.Sprintf("done:%d", m)
		case strings.Contains(errStr, "Hash step check"):
			var a, b int64
			fmt.Sscanf(errStr, "Hash step check [%d] > [%d]", &a, &b)
			res = fmt.Sprintf("err:%d", a)
		case strings.Contains(errStr, "topped") || strings.Contains(errStr, "timeout"):
			res = "blocked"
		default:
			res = "err?" + errStr
		}
		c.count("unit-acks:" + strings.SplitN(res, ":", 2)[0])
		c.emit(len(acks) > 0, "resume_acks", res, strconv.FormatInt(size, 10), c08AcksStr(acks))
	}
}
