package main

// Search engines for C10 (stop), C11 (faults never hang, no worker left) and C18
// (pause/resume) on the real client and the real server binaries.

import (
	"bytes"
	"fmt"
	"math/rand"
	"os"
	"path/filepath"
	"regexp"
	"runtime"
	"strings"
	"sync"
	"sync/atomic"
	"syscall"
	"time"
)

func init() {
	groups["e2e-stop"] = genStop
	groups["e2e-hang"] = genHang
	groups["e2e-pause"] = genPause
}

// atWrite returns a hook that calls f (once, asynchronously) when the idx-th write of
// direction dir is about to be delivered
func atWrite(dir, idx int, f func()) e2eHook {
	var once sync.Once
	return func(d, i int, b []byte) e2eAction {
		if d == dir && i >= idx {
			once.Do(func() { go f() })
		}
		return e2eAction{}
	}
}

// atWriteSync is atWrite, but f runs inline in the writer's goroutine before the write is
// delivered, so the event lands exactly at that message boundary
func atWriteSync(dir, idx int, f func()) e2eHook {
	var once sync.Once
	return func(d, i int, b []byte) e2eAction {
		if d == dir && i >= idx {
			once.Do(f)
		}
		return e2eAction{}
	}
}

// stopTrees: a few top-level sources, several files, sizes that need several frames
func stopTree(rng *rand.Rand, root string, dirMode bool) []string {
	var tops []string
	if dirMode {
		d := filepath.Join(root, "s", "tree")
		os.MkdirAll(filepath.Join(d, "sub"), 0755)
		os.WriteFile(filepath.Join(d, "one.bin"), fillBytes(rng, 40000+rng.Intn(20000), 0), 0644)
		os.WriteFile(filepath.Join(d, "sub", "two.bin"), fillBytes(rng, 30000, 2), 0644)
		os.WriteFile(filepath.Join(d, "sub", "three.bin"), fillBytes(rng, 100, 0), 0644)
		// a second root behind the directory: what this transfer created is more than one subtree
		// (a stop-and-delete after the second root exists has to remove both)
		f := filepath.Join(root, "s", "after-tree.bin")
		os.WriteFile(f, fillBytes(rng, 20000, 1), 0644)
		return []string{d, f}
	}
	os.MkdirAll(filepath.Join(root, "s"), 0755)
	for j, n := range []int{3000, 60000 + rng.Intn(30000), 200} {
		p := filepath.Join(root, "s", fmt.Sprintf("f%d.bin", j))
		os.WriteFile(p, fillBytes(rng, n, j%3), 0644)
		tops = append(tops, p)
	}
	return tops
}

func baselineCounts(cfg e2eCfg, tops []string, root string) [2]int {
	dest := filepath.Join(root, "dest-baseline")
	os.MkdirAll(dest, 0755)
	var n [2]atomic.Int64
	cfg.hook = func(d, i int, b []byte) e2eAction { n[d].Add(1); return e2eAction{} }
	runTransfer(cfg, tops, dest)
	os.RemoveAll(dest)
	return [2]int{int(n[0].Load()), int(n[1].Load())}
}

var stoppedRe = regexp.MustCompile(`Stopped and deleted|Stopped`)

func genStop(c *ctx) {
	work, _ := os.MkdirTemp("", "e2e_stop_")
	defer os.RemoveAll(work)
	type sc struct {
		cfg      e2eCfg
		tops     []string
		root     string
		who      string // client / server
		del      bool
		dir, idx int
		preexist bool
		desc     string
		bad      []string
		outcome  string
		dur      time.Duration
		remain   int      // writes of the stop's direction still to come in a run that nobody stops
		keys     [][]byte // who == client-keys: what is typed after the Ctrl-C that opens the question
		choice   int      // ... and the entry that sequence selects (0 keep, 1 delete, 2 continue)
	}
	var cases []*sc
	nb := c.pick(6, 16)
	for b := 0; b < nb; b++ {
		root := filepath.Join(work, fmt.Sprintf("b%d", b))
		rng := rand.New(rand.NewSource(c.rng.Int63()))
		cfg := e2eCfg{upload: b%2 == 0, binary: (b/2)%2 == 0, directory: b%3 == 0, overwrite: b%4 == 1 || b%3 == 0, proto: []int{-1, 2, 0, 4, 3}[b%5],
			timeout: 5, quiet: b%2 == 1, bufsize: "4k", deadline: 30 * time.Second}
		cfg.tunnel = b%3 == 1 // the transfer runs over a direct tunnel connection (loopback TCP)
		cfg.hookTunnel = true // ... whose writes are stop boundaries like the in-band ones
		tops := stopTree(rng, root, cfg.directory)
		counts := baselineCounts(cfg, tops, root)
		per := c.pick(18, 96)
		for k := 0; k < per; k++ {
			s := &sc{cfg: cfg, tops: tops, root: root}
			// stratified: every way of stopping occurs in every base
			s.who = []string{"client", "server", "client-prompt", "client-keys", "client-after-continue", "client-tmux-keys"}[k%6]
			s.del = s.who != "server" && c.rng.Intn(2) == 0
			if s.who == "client-keys" {
				// the stop question driven by arbitrary navigation keys: Ctrl-C opens it, some moves,
				// then Enter (the entry under the cursor) / Ctrl-C (stop and keep, from anywhere) /
				// q (continue, from anywhere); entries: 0 keep, 1 delete, 2 continue; no wrap-around.
				// Every (entry under the cursor, final key) pair occurs: the moves first wander, then
				// go up to the top and down to the target entry
				combo := (k/6 + 2*b) % 9
				target := combo % 3
				nexts := [][]byte{{'\t'}, {'j'}, {0x0e}, {0x1b, '[', 'B'}}
				prevs := [][]byte{{'k'}, {0x10}, {0x1b, '[', 'A'}, {0x1b, '[', 'Z'}}
				cur := 0
				press := func(k []byte, next bool) {
					s.keys = append(s.keys, k)
					if next && cur < 2 {
						cur++
					} else if !next && cur > 0 {
						cur--
					}
				}
				for n := c.rng.Intn(3); n > 0; n-- {
					if c.rng.Intn(2) == 0 {
						press(nexts[c.rng.Intn(4)], true)
					} else {
						press(prevs[c.rng.Intn(4)], false)
					}
				}
				for cur > target {
					press(prevs[c.rng.Intn(4)], false)
				}
				for cur < target {
					press(nexts[c.rng.Intn(4)], true)
				}
				switch combo / 3 {
				case 0:
					s.keys = append(s.keys, []byte{'\r'})
				case 1:
					s.keys, cur = append(s.keys, []byte{0x03}), 0
				default:
					s.keys, cur = append(s.keys, []byte{'q'}), 2
				}
				s.choice = cur
				s.del = cur == 1
			}
			if s.who == "client-tmux-keys" {
				// the same question answered from inside tmux control mode (tmux -CC types keys as
				// `send -t %<pane> 0x..`): pane ids of one and of two digits, the entry reached by 0-2 "next" keys
				combo := (k/6 + b) % 6
				pane := []string{"3", "12"}[combo%2]
				tk := func(hex string) []byte { return []byte("send -t %" + pane + " " + hex + "\r") }
				s.keys = [][]byte{tk("0x3")}
				for n := 0; n < combo/2; n++ {
					s.keys = append(s.keys, tk("0xe"))
				}
				s.keys = append(s.keys, tk("0xd"))
				s.choice = combo / 2
				s.del = s.choice == 1
			}
			s.dir = c.rng.Intn(2)
			if counts[s.dir] > 0 {
				s.idx = c.rng.Intn(counts[s.dir] + 1)
			}
			s.preexist = c.rng.Intn(2) == 0
			if s.who == "client-after-continue" {
				s.del = (k/6)%2 == 1
				// early in the data direction, so that much of the transfer is left after the continue
				s.dir = dirS2C
				if cfg.upload {
					s.dir = dirC2S
				}
				s.idx = counts[s.dir]/6 + c.rng.Intn(counts[s.dir]/6+1)
			}
			if s.who == "client-keys" || s.who == "client-tmux-keys" {
				// early in the data direction: most of the transfer is still to come when the keys are typed
				s.dir = dirS2C
				if cfg.upload {
					s.dir = dirC2S
				}
				s.idx = 2 + c.rng.Intn(counts[s.dir]/5+1)
			}
			if cfg.directory && (s.who == "client" || s.who == "client-prompt") && (k/6)%2 == 0 {
				// directory bases: every other API / prompt stop is a stop-and-delete late in the data
				// direction, when the second root exists already: everything this transfer created - more
				// than one subtree - has to go
				s.del = true
				s.dir = dirS2C
				if cfg.upload {
					s.dir = dirC2S
				}
				s.idx = counts[s.dir]*3/4 + c.rng.Intn(counts[s.dir]/8+1)
			}
			if pr := os.Getenv("VERIF_STOP_PROBE"); pr != "" {
				// investigation aid: VERIF_STOP_PROBE="who dir idx" pins the stop of every case
				fmt.Sscanf(pr, "%s %d %d", &s.who, &s.dir, &s.idx)
				s.del = false
			}
			s.remain = counts[s.dir] - s.idx
			s.desc = fmt.Sprintf("stop by %s delete=%v at %s write #%d/%d preexisting=%v :: %s", s.who, s.del,
				[]string{"c2s", "s2c"}[s.dir], s.idx, counts[s.dir], s.preexist, describeCfg(cfg))
			if s.who == "client-keys" || s.who == "client-tmux-keys" {
				s.desc += fmt.Sprintf(" keys=%q selects entry %d", s.keys, s.choice)
			}
			cases = append(cases, s)
		}
	}
	parallelDo(len(cases), 32, func(i int) {
		s := cases[i]
		dest := filepath.Join(s.root, fmt.Sprintf("d%d", i))
		os.MkdirAll(dest, 0755)
		if s.preexist {
			os.WriteFile(filepath.Join(dest, "keep-me.txt"), []byte("pre-existing"), 0644)
			os.MkdirAll(filepath.Join(dest, "keep-dir"), 0755)
			os.WriteFile(filepath.Join(dest, "keep-dir", "x"), []byte("x"), 0644)
			// a colliding name: same base name as the first source
			if s.cfg.directory && s.cfg.overwrite {
				// -d -y onto an existing directory of that name which holds other content: the
				// transfer merges into it; stop-and-delete may remove only what it created
				old := filepath.Join(dest, filepath.Base(s.tops[0]))
				os.MkdirAll(filepath.Join(old, "sub"), 0755)
				os.WriteFile(filepath.Join(old, "keep.txt"), []byte("was here before"), 0644)
				os.WriteFile(filepath.Join(old, "sub", "old.txt"), []byte("was here before too"), 0644)
			} else {
				os.WriteFile(filepath.Join(dest, filepath.Base(s.tops[0])), []byte("old content of a colliding name"), 0644)
			}
		}
		before, _ := snapshotTree(dest)
		cfg := s.cfg
		var run *e2eRun
		var runMu sync.Mutex
		cfg.onStart = func(r *e2eRun) { runMu.Lock(); run = r; runMu.Unlock() }
		var stopAt time.Time
		var keysMu sync.Mutex
		var throttle atomic.Int64 // milliseconds every further write of the link takes
		var during map[string]treeEntry // the destination at the moment the stop is delivered
		markStop := func() {
			d, _ := snapshotTree(dest)
			keysMu.Lock()
			during, stopAt = d, time.Now()
			keysMu.Unlock()
		}
		inner := atWriteSync(s.dir, s.idx, func() {
			for k := 0; k < 2000; k++ {
				runMu.Lock()
				r := run
				runMu.Unlock()
				if r != nil {
					markStop()
					switch s.who {
					case "client":
						r.filter.StopTransferringFiles(s.del)
					case "client-prompt":
						// what a user does: Ctrl-C (pauses and asks), then picks a stop choice
						go func() {
							r.cliIn.Write([]byte{0x03})
							time.Sleep(time.Duration(150+int(stopAt.UnixNano()%400)) * time.Millisecond)
							if s.del {
								r.cliIn.Write([]byte{'j'}) // second item: stop and delete
								time.Sleep(30 * time.Millisecond)
							}
							r.cliIn.Write([]byte{'\r'})
						}()
					case "client-keys":
						// a slow link from here on: the legacy protocols go on sending while the question
						// is open, the transfer must not be over before the last key is typed
						throttle.Store(80)
						keysMu.Lock()
						stopAt, during = time.Time{}, nil
						keysMu.Unlock()
						go func() {
							r.cliIn.Write([]byte{0x03})
							time.Sleep(250 * time.Millisecond)
							for _, k := range s.keys[:len(s.keys)-1] {
								r.cliIn.Write(k)
								time.Sleep(40 * time.Millisecond)
							}
							if s.choice != 2 {
								markStop()
							}
							r.cliIn.Write(s.keys[len(s.keys)-1])
						}()
					case "client-tmux-keys":
						throttle.Store(80)
						keysMu.Lock()
						stopAt, during = time.Time{}, nil
						keysMu.Unlock()
						go func() {
							r.cliIn.Write(s.keys[0]) // Ctrl-C in control-mode spelling: opens the question
							time.Sleep(250 * time.Millisecond)
							for _, k := range s.keys[1 : len(s.keys)-1] {
								r.cliIn.Write(k)
								time.Sleep(40 * time.Millisecond)
							}
							if s.choice != 2 {
								markStop()
							}
							r.cliIn.Write(s.keys[len(s.keys)-1])
						}()
					case "client-after-continue":
						// Ctrl-C, a long think, continue - and shortly afterwards the real stop; from the
						// first Ctrl-C on the link is slow, so that the second one lands inside the transfer
						throttle.Store(25)
						keysMu.Lock()
						stopAt, during = time.Time{}, nil
						keysMu.Unlock()
						go func() {
							r.cliIn.Write([]byte{0x03})
							time.Sleep(2700 * time.Millisecond) // more than half the server's timeout
							r.cliIn.Write([]byte{'q'})
							time.Sleep(200 * time.Millisecond)
							r.cliIn.Write([]byte{0x03})
							time.Sleep(200 * time.Millisecond)
							if s.del {
								r.cliIn.Write([]byte{'j'})
								time.Sleep(40 * time.Millisecond)
							}
							markStop()
							r.cliIn.Write([]byte{'\r'})
						}()
					default:
						// the server is stopped by SIGINT or by SIGTERM (kill, session shutdown), alternately
						if i%2 == 0 {
							r.cmd.Process.Signal(syscall.SIGINT)
						} else {
							r.cmd.Process.Signal(syscall.SIGTERM)
						}
					}
					return
				}
				time.Sleep(time.Millisecond)
			}
		})
		cfg.hook = func(d, i int, b []byte) e2eAction {
			if s.who == "client-after-continue" && d == s.dir && i >= s.idx && !bytes.Contains(b, []byte("#DATA:")) {
				// this scenario is about a pause inside the data phase: with a chunk on its way
				// whose acknowledgement is read only after the continue
				return e2eAction{}
			}
			a := inner(d, i, b)
			if ms := throttle.Load(); ms > 0 {
				time.Sleep(time.Duration(ms) * time.Millisecond)
			}
			return a
		}
		t0 := time.Now()
		res := runTransfer(cfg, s.tops, dest)
		keysMu.Lock()
		stopSeen := stopAt
		keysMu.Unlock()
		stopAt = stopSeen
		if !stopAt.IsZero() {
			s.dur = time.Since(stopAt)
		} else {
			s.dur = time.Since(t0)
		}
		after, _ := snapshotTree(dest)
		shown := res.serverOut + res.termOut
		names, saved := parseSaved(shown)
		stopped := stoppedRe.FindString(shown)
		switch {
		case res.hung || !res.clientDone || !res.serverExited:
			s.outcome = "hung"
			s.bad = append(s.bad, fmt.Sprintf("not-prompt: hung=%v clientDone=%v serverExited=%v tail=%q", res.hung, res.clientDone, res.serverExited, tailStr(shown, 200)))
		case saved:
			s.outcome = "success"
		case stopped != "":
			s.outcome = stopped
		default:
			s.outcome = "error"
		}
		if s.del && !stopAt.IsZero() && s.outcome == "Stopped" && s.who != "server" && res.clientDone && res.serverExited {
			// the user chose stop-and-delete but what is shown is a plain "Stopped": was anything left behind?
			for k := range after {
				if _, ok := before[k]; !ok {
					s.bad = append(s.bad, "delete-not-honoured: shown \"Stopped\" after a stop-and-delete, left behind "+k)
					break
				}
			}
		}
		keysMu.Lock()
		atStop := during
		keysMu.Unlock()
		if !s.del && atStop != nil {
			// a plain stop (or a continue) deletes nothing: whatever stood at the destination when the
			// stop was delivered - completed files, the partial one - is still there afterwards
			for k := range atStop {
				if _, ok := after[k]; !ok {
					s.bad = append(s.bad, "plain-stop-deleted: "+k+" was at the destination when the plain stop was delivered and is gone")
					break
				}
			}
		}
		if !s.del && stopped == "Stopped and deleted" {
			s.bad = append(s.bad, "deleted-without-request: the user chose a plain stop (or to continue), shown: Stopped and deleted")
		}
		if (s.who == "client-keys" || s.who == "client-tmux-keys") && s.outcome != "hung" {
			want := []string{"Stopped", "Stopped and deleted", "success"}[s.choice]
			if s.outcome != want && s.outcome != "success" {
				s.bad = append(s.bad, fmt.Sprintf("wrong-choice: the keys select entry %d (%s), the transfer ended as %q", s.choice, want, s.outcome))
			}
			begun := s.idx >= 1+s.dir // the client is in its transfer once the ACT has gone out (c2s #1 / s2c #2 on): keys typed earlier are shell input
			if s.choice != 2 && s.outcome == "success" && s.remain >= 12 && begun {
				// the link is slow from the first key on (80 ms per write): with 12 and more writes still
				// to come the transfer cannot have been over before the last key was typed
				s.bad = append(s.bad, fmt.Sprintf("stop-ignored: the keys select entry %d (%s) with %d writes still to come, the transfer ran to success", s.choice, want, s.remain))
			}
		}
		if !stopAt.IsZero() && s.outcome == "error" {
			// each side reports that it was stopped (or success): any other final message after a
			// delivered stop means a side was not told / did not notice
			s.bad = append(s.bad, fmt.Sprintf("not-reported-as-stopped: after the stop the transfer ended with %q", tailStr(shown, 200)))
		}
		if !stopAt.IsZero() && s.dur > 8*time.Second {
			kind := "slow-stop"
			if s.cfg.tunnel && s.who == "server" && (strings.Contains(res.serverOut, "#fail:") || strings.Contains(res.serverOut, "#FAIL:")) {
				// the server was stopped after the tunnel greeting but before it had read the ACT: it
				// still talks in-band, the client already listens to the tunnel only (known finding)
				kind = "tunnel-server-stopped-before-act"
			}
			s.bad = append(s.bad, fmt.Sprintf(kind+": both sides needed %.1fs after the stop (client %.1fs, server %.1fs after the start); shown %q",
				s.dur.Seconds(), res.clientDur.Seconds(), res.serverDur.Seconds(), tailStr(shown, 300)))
		}
		// success only if everything is complete and identical
		if saved {
			if len(names) != len(s.tops) {
				s.bad = append(s.bad, fmt.Sprintf("success-incomplete: names %v", names))
			} else {
				for j, top := range s.tops {
					d := sameTree(top, filepath.Join(dest, names[j]))
					if s.preexist && s.cfg.directory && s.cfg.overwrite {
						// merged into a directory that already held other entries: those are extra by design
						var keep []string
						for _, x := range d {
							if !strings.HasPrefix(x, "extra:") {
								keep = append(keep, x)
							}
						}
						d = keep
					}
					if len(d) > 0 {
						s.bad = append(s.bad, "success-incomplete: "+strings.Join(d, ";"))
					}
				}
			}
		}
		// pre-existing entries: untouched unless overwrite replaced that very name
		for k, e := range before {
			a, ok := after[k]
			replaced := s.cfg.overwrite && !s.cfg.directory && k == filepath.Base(s.tops[0])
			if replaced {
				continue
			}
			if !ok || a.sum != e.sum || a.isDir != e.isDir {
				s.bad = append(s.bad, "preexisting-changed:"+k)
			}
		}
		if stopped == "Stopped and deleted" || (s.del && s.outcome != "success" && !stopAt.IsZero() && s.outcome != "hung") {
			// everything this transfer created must be gone
			if s.del && stopped == "Stopped and deleted" {
				for k := range after {
					if _, ok := before[k]; !ok {
						s.bad = append(s.bad, "delete-left-behind:"+k)
					}
				}
			}
		} else if s.outcome == "Stopped" {
			// plain stop: a file that is present and was complete must be intact: every
			// destination file that has the full source size must have the source content
			for _, top := range s.tops {
				fi, err := os.Stat(top)
				if err != nil || fi.IsDir() {
					continue
				}
				for k, a := range after {
					if _, pre := before[k]; pre || a.isDir {
						continue
					}
					if strings.HasPrefix(k, filepath.Base(top)) && a.size == fi.Size() {
						src, _ := os.ReadFile(top)
						got, _ := os.ReadFile(filepath.Join(dest, k))
						if !bytes.Equal(src, got) {
							s.bad = append(s.bad, "completed-file-damaged:"+k)
						}
					}
				}
			}
		}
		os.RemoveAll(dest)
	})
	for _, s := range cases {
		c.note(true, s.desc+" => "+s.outcome+fmt.Sprintf(" (%.2fs)", s.dur.Seconds()))
		if os.Getenv("VERIF_DEBUG") != "" {
			fmt.Fprintf(os.Stderr, "%s => %s (%.2fs)\n", s.desc, s.outcome, s.dur.Seconds())
		}
		c.count("outcome:" + s.outcome)
		c.count("who:" + s.who)
		if len(s.bad) > 0 {
			key := "stop:" + strings.SplitN(s.bad[0], ":", 2)[0]
			c.violate(key, "stopping a transfer violated the stop contract", s.desc+" :: "+strings.Join(s.bad, "; "))
		}
	}
}

// ---- C11 ----

func transferGoroutines() []string {
	var out []string
	seen := map[string]bool{}
	for _, m := range []string{"trzsz.(*trzszTransfer)", "trzsz.(*sendDataWriter)", "trzsz.(*recvDataReader)"} {
		for _, g := range goroutinesOf(m) {
			if !seen[g] {
				seen[g] = true
				out = append(out, g)
			}
		}
	}
	return out
}

var frameRe = regexp.MustCompile(`trzsz\.\(\*?(\w+)\)\.(\w+)`)

func leakKey(stack string) string {
	m := frameRe.FindStringSubmatch(stack)
	if m == nil {
		return "unknown"
	}
	return m[1] + "." + m[2]
}

func genHang(c *ctx) {
	work, _ := os.MkdirTemp("", "e2e_hang_")
	defer os.RemoveAll(work)
	type hc struct {
		cfg      e2eCfg
		tops     []string
		root     string
		kind     string
		dir, idx int
		desc     string
		bad      []string
		outcome  string
		res      e2eResult
	}
	var cases []*hc
	kinds := []string{"silence", "discard-one", "close-stdin", "source-shrinks", "source-unreadable", "dest-readonly", "silence-pause-resume", "cut-mid-write", "dest-full"}
	nb := c.pick(6, 16)
	const timeout = 2
	for b := 0; b < nb; b++ {
		root := filepath.Join(work, fmt.Sprintf("b%d", b))
		rng := rand.New(rand.NewSource(c.rng.Int63()))
		cfg := e2eCfg{upload: b%2 == 0, binary: (b/2)%2 == 0, directory: b%3 == 0, proto: []int{-1, 2, 0, 4, 3}[b%5],
			timeout: timeout, quiet: true, bufsize: "4k", deadline: 40 * time.Second}
		tops := stopTree(rng, root, cfg.directory)
		counts := baselineCounts(cfg, tops, root)
		per := c.pick(18, 90)
		for k := 0; k < per; k++ {
			h := &hc{cfg: cfg, tops: tops, root: root, kind: kinds[(k+b)%len(kinds)]} // every kind of fault in every base
			h.dir = c.rng.Intn(2)
			// the handshake has begun once the server has received the ACT line: faults from write #1 of c2s / #2 of s2c on
			lo := 1
			if h.dir == dirS2C {
				lo = 2
			}
			if counts[h.dir] > lo {
				h.idx = lo + c.rng.Intn(counts[h.dir]-lo)
			} else {
				h.idx = lo
			}
			if h.kind == "dest-full" {
				h.cfg.overwrite = true // the existing name (a link to /dev/full) is opened for writing
			}
			if h.kind == "silence-pause-resume" {
				// the reader that is paused and resumed is the client's: the silence is the server's, inside the data phase
				h.dir = dirS2C
				h.idx = counts[dirS2C]/3 + c.rng.Intn(counts[dirS2C]/3+1)
			}
			h.desc = fmt.Sprintf("%s at %s write #%d/%d :: %s", h.kind, []string{"c2s", "s2c"}[h.dir], h.idx, counts[h.dir], describeCfg(h.cfg))
			cases = append(cases, h)
		}
	}
	parallelDo(len(cases), 40, func(i int) {
		h := cases[i]
		// private copy of the sources when the fault modifies them
		tops := h.tops
		croot := filepath.Join(h.root, fmt.Sprintf("c%d", i))
		if h.kind == "source-shrinks" || h.kind == "source-unreadable" {
			rng := rand.New(rand.NewSource(int64(i)))
			tops = stopTree(rng, croot, h.cfg.directory)
		}
		dest := filepath.Join(croot, "dest")
		os.MkdirAll(dest, 0755)
		cfg := h.cfg
		dir, idx := h.dir, h.idx
		if h.kind == "dest-full" {
			// the destination of the largest file accepts no byte (ENOSPC on every write): with
			// overwrite on, the existing name - a link to /dev/full - is opened for writing
			if cfg.directory {
				os.MkdirAll(filepath.Join(dest, "tree", "sub"), 0755)
				os.Symlink("/dev/full", filepath.Join(dest, "tree", "one.bin"))
			} else {
				os.Symlink("/dev/full", filepath.Join(dest, "f1.bin"))
			}
		}
		var run *e2eRun
		var runMu sync.Mutex
		cfg.onStart = func(r *e2eRun) { runMu.Lock(); run = r; runMu.Unlock() }
		getRun := func() *e2eRun {
			for k := 0; k < 3000; k++ {
				runMu.Lock()
				r := run
				runMu.Unlock()
				if r != nil {
					return r
				}
				time.Sleep(time.Millisecond)
			}
			return nil
		}
		var once sync.Once
		cfg.hook = func(d, i int, b []byte) e2eAction {
			if d != dir || i < idx {
				return e2eAction{}
			}
			switch h.kind {
			case "silence":
				return e2eAction{silence: true, drop: true}
			case "cut-mid-write":
				// the connection dies in the middle of a message: half of this write arrives, then nothing
				if len(b) > 1 {
					return e2eAction{data: [][]byte{b[:len(b)/2]}, silence: true}
				}
				return e2eAction{silence: true, drop: true}
			case "silence-pause-resume":
				// the peer falls silent; while a read is pending the user pauses and resumes
				once.Do(func() {
					go func() {
						if r := getRun(); r != nil {
							time.Sleep(300 * time.Millisecond)
							r.cliIn.Write([]byte{0x03})
							time.Sleep(200 * time.Millisecond)
							r.cliIn.Write([]byte{'j'})
							time.Sleep(30 * time.Millisecond)
							r.cliIn.Write([]byte{'j'})
							time.Sleep(30 * time.Millisecond)
							r.cliIn.Write([]byte{'\r'})
						}
					}()
				})
				return e2eAction{silence: true, drop: true}
			case "discard-one":
				if i == idx {
					return e2eAction{drop: true}
				}
			case "close-stdin":
				once.Do(func() {
					go func() {
						if r := getRun(); r != nil {
							r.stdin.Close()
						}
					}()
				})
			case "source-shrinks":
				once.Do(func() {
					var big string
					filepath.Walk(filepath.Dir(tops[0]), func(p string, info os.FileInfo, err error) error {
						if err == nil && !info.IsDir() && info.Size() > 20000 {
							big = p
						}
						return nil
					})
					if big != "" {
						os.Truncate(big, 1000)
					}
				})
			case "source-unreadable":
				once.Do(func() {
					filepath.Walk(filepath.Dir(tops[0]), func(p string, info os.FileInfo, err error) error {
						if err == nil && !info.IsDir() {
							os.Remove(p)
						}
						return nil
					})
				})
			case "dest-readonly":
				once.Do(func() { os.RemoveAll(dest) })
			}
			return e2eAction{}
		}
		h.res = runTransfer(cfg, tops, dest)
		r := h.res
		shown := r.serverOut + r.termOut
		_, saved := parseSaved(shown)
		bound := time.Duration(timeout)*time.Second*3 + 6*time.Second
		switch {
		case r.hung || !r.clientDone || !r.serverExited:
			h.outcome = "hung"
			h.bad = append(h.bad, fmt.Sprintf("hang: after %.1fs clientDone=%v serverExited=%v tail=%q", r.dur.Seconds(), r.clientDone, r.serverExited, tailStr(shown, 200)))
		case saved:
			h.outcome = "success"
		default:
			h.outcome = "error"
		}
		if h.outcome != "hung" && r.dur > bound {
			h.bad = append(h.bad, fmt.Sprintf("late: both sides returned only after %.1fs (timeout %ds)", r.dur.Seconds(), timeout))
		}
		os.RemoveAll(croot)
	})
	for _, h := range cases {
		c.note(true, h.desc+" => "+h.outcome+fmt.Sprintf(" (%.2fs)", h.res.dur.Seconds()))
		c.count("outcome:" + h.outcome)
		c.count("kind:" + h.kind)
		c.count("kind-outcome:" + h.kind + ":" + h.outcome)
		if len(h.bad) > 0 {
			key := "hang:" + h.kind + ":" + strings.SplitN(h.bad[0], ":", 2)[0]
			c.violate(key, "a fault did not end the transfer with an error on both sides in time", h.desc+" :: "+strings.Join(h.bad, "; "))
		}
	}
	// afterwards no worker of any failed transfer may be left running in this process
	time.Sleep(1500 * time.Millisecond)
	runtime.GC()
	leaks := transferGoroutines()
	byKey := map[string]int{}
	ex := map[string]string{}
	for _, g := range leaks {
		k := leakKey(g)
		byKey[k]++
		ex[k] = g
	}
	for k, n := range byKey {
		c.count("leak:" + k)
		c.violate("worker-leak:"+k, "a worker goroutine of a finished transfer is still running",
			fmt.Sprintf("%d goroutine(s) still in %s 1.5 s after all %d transfers had returned; example:\n%s", n, k, len(cases), tailStr(ex[k], 1500)))
	}
}

// ---- C18 ----

func genPause(c *ctx) {
	work, _ := os.MkdirTemp("", "e2e_pause_")
	defer os.RemoveAll(work)
	type pc struct {
		cfg      e2eCfg
		tops     []string
		root     string
		dir, idx int
		length   time.Duration
		cycles   int
		desc     string
		bad      []string
		outcome  string
		res      e2eResult
		keep     int
		hiccup   bool
	}
	const timeout = 2
	var cases []*pc
	nb := c.pick(4, 12)
	for b := 0; b < nb; b++ {
		root := filepath.Join(work, fmt.Sprintf("b%d", b))
		rng := rand.New(rand.NewSource(c.rng.Int63()))
		cfg := e2eCfg{upload: b%2 == 0, binary: (b/2)%2 == 0, directory: b%3 == 2, proto: []int{-1, 3, 4}[b%3],
			timeout: timeout, quiet: b%2 == 0, bufsize: "4k", deadline: 60 * time.Second}
		tops := stopTree(rng, root, cfg.directory)
		probing := b%4 == 3 || b%4 == 0 && b > 0
		if probing {
			// default buffer limit and a file of a few MB: the sender spends its first ~10 frames in
			// the buffer-size probing phase (10 KB doubling up to the limit); pauses land inside it
			cfg.bufsize = ""
			cfg.directory = false
			os.MkdirAll(filepath.Join(root, "s"), 0755)
			p := filepath.Join(root, "s", "big.bin")
			os.WriteFile(p, fillBytes(rng, 3<<20, 0), 0644)
			tops = []string{p}
		}
		counts := baselineCounts(cfg, tops, root)
		per := c.pick(10, 60)
		for k := 0; k < per; k++ {
			p := &pc{cfg: cfg, tops: tops, root: root, dir: c.rng.Intn(2), cycles: 1 + c.rng.Intn(2)}
			if counts[p.dir] > 2 {
				p.idx = 2 + c.rng.Intn(counts[p.dir]-2)
			}
			if probing && counts[p.dir] > 6 {
				p.idx = 3 + c.rng.Intn(minInt(14, counts[p.dir]-4)) // inside the probing phase
			}
			// only for uploads: there the stalled direction carries acknowledgements to the paused side;
			// in a download it would carry the file data, and a stall longer than the timeout is then a
			// genuine fault that rightly ends in an error on the sending server
			p.hiccup = cfg.upload && p.cycles > 1 && c.rng.Intn(2) == 0
			p.length = []time.Duration{300 * time.Millisecond, 900 * time.Millisecond, 1500 * time.Millisecond,
				2100 * time.Millisecond, 3500 * time.Millisecond}[c.rng.Intn(5)]
			if p.hiccup {
				// a link stall around the second pause (see below): the read that was pending when the stall
				// began expires during that pause.  One file of ~40 frames on a slow link (250 ms per
				// frame), first pause early in it, so that both cycles and the stall fall inside the data
				// phase, where reads are pause-aware (outside it a 2.2 s stall is simply a timeout).
				p.length = 1350 * time.Millisecond
				p.dir = dirC2S
				p.idx = 6 + c.rng.Intn(5)
				p.cfg.directory = false
				hroot := filepath.Join(root, fmt.Sprintf("hiccup%d", k))
				os.MkdirAll(filepath.Join(hroot, "s"), 0755)
				hp := filepath.Join(hroot, "s", "long.bin")
				os.WriteFile(hp, fillBytes(rand.New(rand.NewSource(int64(k))), 160000, 0), 0644)
				p.tops = []string{hp}
				p.cfg.bufsize = "4k"
			}
			p.desc = fmt.Sprintf("pause %v x%d hiccup=%v at %s write #%d/%d (timeout %ds) :: %s", p.length, p.cycles, p.hiccup,
				[]string{"c2s", "s2c"}[p.dir], p.idx, counts[p.dir], timeout, describeCfg(cfg))
			cases = append(cases, p)
		}
	}
	parallelDo(len(cases), 40, func(i int) {
		p := cases[i]
		dest := filepath.Join(p.root, fmt.Sprintf("d%d", i))
		os.MkdirAll(dest, 0755)
		cfg := p.cfg
		var run *e2eRun
		var runMu sync.Mutex
		cfg.onStart = func(r *e2eRun) { runMu.Lock(); run = r; runMu.Unlock() }
		var pauseFrom atomic.Int64 // unix nanos of the first pause
		type wr struct {
			t    int64
			data bool
		}
		var wmu sync.Mutex
		var writes []wr
		var keep atomic.Int64
		var stallUntil atomic.Int64
		var windows [][2]int64
		var winMu sync.Mutex
		inner := atWriteSync(p.dir, p.idx, func() {
			var r *e2eRun
			for k := 0; k < 3000 && r == nil; k++ {
				runMu.Lock()
				r = run
				runMu.Unlock()
				if r == nil {
					time.Sleep(time.Millisecond)
				}
			}
			if r == nil || !r.filter.IsTransferringFiles() {
				return
			}
			r.cliIn.Write([]byte{0x03}) // Ctrl-C: asks stop/continue, pauses the transfer
			from := time.Now().UnixNano()
			pauseFrom.Store(from)
			time.Sleep(60 * time.Millisecond) // let the pause register before this write goes on
			go func() {
				for cyc := 0; cyc < p.cycles; cyc++ {
					if cyc > 0 {
						if !r.filter.IsTransferringFiles() {
							return
						}
						if p.hiccup {
							// the server's lines stall for 2.2 s (longer than the 2 s timeout); the pause begins
							// 0.8 s into the stall and lasts 1.35 s: the read that was pending when the stall
							// began expires WHILE paused (must be retried, not reported as a timeout)
							stallUntil.Store(time.Now().Add(2200 * time.Millisecond).UnixNano())
							time.Sleep(800 * time.Millisecond)
						}
						r.cliIn.Write([]byte{0x03})
						from = time.Now().UnixNano()
					}
					time.Sleep(p.length)
					to := time.Now().UnixNano()
					winMu.Lock()
					windows = append(windows, [2]int64{from, to})
					winMu.Unlock()
					r.cliIn.Write([]byte{'j'}) // next
					time.Sleep(30 * time.Millisecond)
					r.cliIn.Write([]byte{'j'}) // next -> "Continue to transfer remaining files"
					time.Sleep(30 * time.Millisecond)
					r.cliIn.Write([]byte{'\r'})
					time.Sleep(400 * time.Millisecond)
				}
			}()
		})
		cfg.hook = func(d, i int, b []byte) e2eAction {
			arrived := time.Now().UnixNano() // when the side wrote it (before any delay this harness adds)
			if d == dirS2C {
				if w := stallUntil.Load() - time.Now().UnixNano(); w > 0 {
					time.Sleep(time.Duration(w)) // the link from the server stalls
				}
			}
			if p.hiccup && bytes.HasPrefix(b, []byte("#DATA:")) && !bytes.HasPrefix(b, []byte("#DATA:=")) {
				time.Sleep(250 * time.Millisecond) // a slow link, so that the transfer outlives two pause cycles
			}
			if d == dirC2S && (bytes.HasPrefix(b, []byte("#DATA:=")) || bytes.HasPrefix(b, []byte("#SUCC:="))) {
				keep.Add(1)
			}
			if d == dirC2S && cfg.upload || d == dirS2C && !cfg.upload {
				isData := bytes.HasPrefix(b, []byte("#DATA:")) && !bytes.HasPrefix(b, []byte("#DATA:="))
				wmu.Lock()
				writes = append(writes, wr{arrived, isData})
				wmu.Unlock()
			}
			return inner(d, i, b)
		}
		p.res = runTransfer(cfg, p.tops, dest)
		r := p.res
		p.keep = int(keep.Load())
		// file data written by the paused side during a pause window (one frame that was
		// already past its pause check may still go out: allow frames in the first 150 ms)
		if cfg.upload {
			winMu.Lock()
			wmu.Lock()
			for _, w := range windows {
				n := 0
				for _, x := range writes {
					if x.data && x.t > w[0]+int64(150*time.Millisecond) && x.t < w[1] {
						n++
					}
				}
				if n > 0 {
					p.bad = append(p.bad, fmt.Sprintf("data-while-paused: %d DATA frame(s) written during a pause of %v", n, p.length))
				}
			}
			wmu.Unlock()
			winMu.Unlock()
		}
		shown := r.serverOut + r.termOut
		names, saved := parseSaved(shown)
		switch {
		case r.hung || !r.clientDone || !r.serverExited:
			p.outcome = "hung"
			p.bad = append(p.bad, fmt.Sprintf("hang: clientDone=%v serverExited=%v tail=%q", r.clientDone, r.serverExited, tailStr(shown, 200)))
		case saved:
			p.outcome = "success"
			if len(names) != len(p.tops) {
				p.bad = append(p.bad, fmt.Sprintf("success-wrong: names %v", names))
			} else {
				for j, top := range p.tops {
					if d := sameTree(top, filepath.Join(dest, names[j])); len(d) > 0 {
						p.bad = append(p.bad, "success-wrong: "+strings.Join(d, ";"))
					}
				}
			}
		default:
			p.outcome = "error"
			if p.length < time.Duration(timeout)*time.Second-600*time.Millisecond && pauseFrom.Load() != 0 {
				p.bad = append(p.bad, fmt.Sprintf("short-pause-failed: a pause of %v (timeout %ds) ended in an error; server said %q; upload result %v; c2s line types %v; s2c line types %v",
					p.length, timeout, tailStr(r.serverOut, 160), r.uploadErr, tailTypes(lineTypes(r.wire[0]), 12), tailTypes(lineTypes(r.wire[1]), 12)))
			}
		}
		os.RemoveAll(dest)
	})
	for _, p := range cases {
		c.note(p.keep > 0, p.desc+" => "+p.outcome+fmt.Sprintf(" keepalives=%d", p.keep))
		c.count("outcome:" + p.outcome)
		if p.keep > 0 {
			c.count("paused-mid-transfer")
		}
		c.count(fmt.Sprintf("length:%v", p.length))
		if len(p.bad) > 0 {
			key := "pause:" + strings.SplitN(p.bad[0], ":", 2)[0]
			c.violate(key, "pausing and resuming violated the pause contract", p.desc+" :: "+strings.Join(p.bad, "; "))
		}
	}
}

func tailTypes(t []string, n int) []string {
	if len(t) > n {
		return t[len(t)-n:]
	}
	return t
}
