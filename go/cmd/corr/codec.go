package main

// Correspondence group "codec": the codec layer (base64 reader/writer, encodeBytes /
// decodeString, sendDataWriter framing, pipelineSendData splitting, pipelineRecvData,
// the line senders, protocol-1 sendData/recvData, isTrzszLetter) against
// Model/Base64.v and Model/Wire.v, plus direct round-trip oracles on the real functions.
// Group "codec-e2e": binary uploads through the end-to-end driver; the recorded
// client->server wire is scanned for bytes the announced escape table protects.

import (
	"bytes"
	"compress/zlib"
	"encoding/base64"
	"encoding/json"
	"errors"
	"fmt"
	"io"
	"math/rand"
	"net"
	"os"
	"path/filepath"
	"strings"
	"sync"
	"time"

	"github.com/trzsz/trzsz-go/trzsz"
)

func init() {
	groups["codec"] = genCodec
	groups["codec-e2e"] = genCodecE2E
}

// records what each Write of the writer under test hands to the next stage
type codecRecWriter struct {
	cur []byte
}

func (w *codecRecWriter) Write(p []byte) (int, error) {
	w.cur = append(w.cur, p...)
	return len(p), nil
}
func (w *codecRecWriter) Close() error { return nil }
func (w *codecRecWriter) take() []byte { b := w.cur; w.cur = nil; return b }

func codecZlib(d []byte) []byte {
	var b bytes.Buffer
	z := zlib.NewWriter(&b)
	z.Write(d)
	z.Close()
	return b.Bytes()
}

func codecUnzlib(z []byte) ([]byte, error) {
	r, err := zlib.NewReader(bytes.NewReader(z))
	if err != nil {
		return nil, err
	}
	defer r.Close()
	return io.ReadAll(r)
}

func (c *ctx) codecData(n int) []byte {
	d := make([]byte, n)
	switch c.rng.Intn(4) {
	case 0:
		c.rng.Read(d)
	case 1: // dense in bytes whose sextets hit '+', '/', and the alphabet edges
		for i := range d {
			d[i] = []byte{0xff, 0xfe, 0xfb, 0xef, 0xbe, 0x00, 0x3e, 0x3f, 0xfc}[c.rng.Intn(9)]
		}
	case 2:
		for i := range d {
			d[i] = byte(i * 7)
		}
	case 3: // text incl. protocol look-alikes
		words := []string{"#DATA:", "\n", ":", "=", "#", "~", "\xee", "\r", "\x03", "0", "AAAA"}
		i := 0
		for i < n {
			i += copy(d[i:], words[c.rng.Intn(len(words))])
		}
	}
	return d
}

// real base64Writer: bytes emitted during each Write, and by Close
func codecRunB64Writer(chunks [][]byte) (per [][]byte, cl []byte) {
	rec := &codecRecWriter{}
	w := trzsz.VerifNewBase64Writer(rec)
	for _, ch := range chunks {
		if n, err := w.Write(ch); err != nil || n != len(ch) {
			panic("base64 writer")
		}
		per = append(per, rec.take())
	}
	if err := w.Close(); err != nil {
		panic(err)
	}
	return per, rec.take()
}

func codecWriterRes(per [][]byte, cl []byte) string {
	parts := make([]string, len(per))
	for i, p := range per {
		parts[i] = hx(p)
	}
	return strings.Join(parts, ",") + "|" + hx(cl)
}

// real base64Reader over the real recvDataReader delivering the given frames
func (c *ctx) codecRunB64Reader(frames [][]byte, psizes []int) (data []byte, ok bool) {
	r := trzsz.VerifNewBase64Reader(trzsz.VerifNewRecvDataReader(frames))
	for i := 0; ; i++ {
		sz := 32 * 1024
		if i < len(psizes) {
			sz = psizes[i]
		}
		p := make([]byte, sz)
		n, err := r.Read(p)
		data = append(data, p[:n]...)
		if err == io.EOF {
			return data, true
		}
		if err != nil {
			return data, false
		}
		if i > 1<<22 {
			panic("runaway")
		}
	}
}

// is the stream in the class on which the streaming decoder and the whole-stream model
// must agree?  (NewDecoder decodes 4k-aligned blocks independently, so padding in the
// MIDDLE of a stream is accepted or rejected depending on where the block boundaries fall;
// the model is the whole-stream decoder.)  Excluded: length (without CR/LF) a multiple of
// 4 and an '=' before the last quantum.
func codecReaderComparable(s []byte) bool {
	var st []byte
	for _, b := range s {
		if b != '\r' && b != '\n' {
			st = append(st, b)
		}
	}
	if len(st)%4 != 0 {
		return true
	}
	i := bytes.IndexByte(st, '=')
	return i < 0 || i >= len(st)-4
}

func (c *ctx) codecMalform(s []byte) ([]byte, string) {
	s = append([]byte(nil), s...)
	pos := func() int {
		if len(s) == 0 {
			return 0
		}
		return c.rng.Intn(len(s) + 1)
	}
	ins := func(i int, b ...byte) { s = append(s[:i], append(append([]byte(nil), b...), s[i:]...)...) }
	kind := ""
	for k := 0; k < 1+c.rng.Intn(2); k++ {
		switch c.rng.Intn(10) {
		case 0:
			ins(pos(), '\n')
			kind += "lf,"
		case 1:
			ins(pos(), '\r', '\n')
			kind += "crlf,"
		case 2:
			ins(pos(), []byte{'-', '_', ' ', '!', '~', 0, 0x80, 0xff, '.', '*'}[c.rng.Intn(10)])
			kind += "badchar,"
		case 3:
			ins(pos(), '=')
			kind += "pad-anywhere,"
		case 4:
			s = append(s, '=')
			kind += "pad-extra,"
		case 5:
			if len(s) > 0 {
				s = s[:len(s)-1]
			}
			kind += "truncate,"
		case 6:
			if len(s) > 0 {
				i := c.rng.Intn(len(s))
				s = append(s[:i], s[i+1:]...)
			}
			kind += "delete,"
		case 7: // non-canonical trailing bits in the padded quantum
			if n := len(s); n >= 4 && s[n-1] == '=' {
				j := n - 2
				if s[j] == '=' {
					j = n - 3
				}
				s[j] = "ABCDEFGHIJKLMNOPQRSTUVWXYZabcdefghijklmnopqrstuvwxyz0123456789+/"[c.rng.Intn(64)]
			}
			kind += "trailing-bits,"
		case 8:
			s = append(s, "AAAA"[:1+c.rng.Intn(4)]...)
			kind += "after-pad,"
		case 9:
			if len(s) > 0 {
				s[c.rng.Intn(len(s))] = '='
			}
			kind += "pad-replace,"
		}
	}
	return s, kind
}

func codecBool(b bool) string {
	if b {
		return "1"
	}
	return "0"
}

func ints64(v []int) []int64 {
	out := make([]int64, len(v))
	for i, x := range v {
		out[i] = int64(x)
	}
	return out
}

func (c *ctx) codecSizes(n, maxSize int) []int {
	out := make([]int, n)
	for i := range out {
		switch c.rng.Intn(4) {
		case 0:
			out[i] = 1 + c.rng.Intn(4)
		case 1:
			out[i] = 1 + c.rng.Intn(maxSize)
		default:
			out[i] = 1 + c.rng.Intn(16)
		}
	}
	return out
}

func genCodec(c *ctx) {
	// ---- 1. isTrzszLetter, exhaustive
	for b := 0; b < 256; b++ {
		c.emit(true, "codec_letter", codecBool(trzsz.VerifIsTrzszLetter(byte(b))), fmt.Sprint(b))
	}

	// ---- 2. base64 writer / encodeBytes / reader: all lengths 0..64, every split of short streams
	b64One := func(d []byte, chunks [][]byte, kind string) {
		per, cl := codecRunB64Writer(chunks)
		c.emit(len(chunks) > 1 || len(d)%3 != 0, "codec_b64_writer", codecWriterRes(per, cl), hxs(chunks))
		enc := append(bytes.Join(per, nil), cl...)
		c.emit(true, "codec_b64_encode", hx(enc), hx(d))
		// oracle: every byte of real base64 output passes the real isTrzszLetter
		for i, b := range enc {
			if !trzsz.VerifIsTrzszLetter(b) {
				c.violate("b64-letter", "base64 output contains a byte that isTrzszLetter rejects",
					fmt.Sprintf("data=%s chunks=%s offset=%d byte=%02x", hx(d), hxs(chunks), i, b))
				break
			}
		}
		// oracle: real reader(real writer(d)) = d for a random chunking and random read sizes
		for k := 0; k < 2; k++ {
			var frames [][]byte
			if len(enc) > 0 {
				frames = c.split(enc, 1+c.rng.Intn(9))
			}
			psz := c.codecSizes(c.rng.Intn(5), 64)
			got, ok := c.codecRunB64Reader(frames, psz)
			if !ok || !bytes.Equal(got, d) {
				c.violate("b64-roundtrip", "base64Reader(base64Writer(d)) != d",
					fmt.Sprintf("data=%s write-chunks=%s frames=%s read-sizes=%s got=%s ok=%v", hx(d), hxs(chunks), hxs(frames), ints(psz), hx(got), ok))
			}
			res := "err"
			if ok {
				res = "ok:" + hx(got)
			}
			c.emit(len(frames) > 1, "codec_b64_decode", res, hxs(frames))
		}
		c.count("b64:" + kind)
	}
	for n := 0; n <= 64; n++ {
		for rep := 0; rep < c.pick(2, 12); rep++ {
			d := c.codecData(n)
			var chunks [][]byte
			if n > 0 {
				chunks = c.split(d, 1+c.rng.Intn(5))
			}
			b64One(d, chunks, "len0-64")
		}
	}
	for n := 0; n <= 7; n++ {
		d := c.codecData(n)
		allSplits(d, func(cs [][]byte) { b64One(d, cs, "all-splits") })
		// with empty writes in between
		if n > 0 {
			cs := [][]byte{{}, d[:n/2], {}, d[n/2:], {}}
			b64One(d, cs, "empty-writes")
		}
	}
	for i := 0; i < c.pick(12, 150); i++ {
		n := 700 + c.rng.Intn(c.pick(8000, 65000))
		d := c.codecData(n)
		b64One(d, c.split(d, 1+c.rng.Intn(3000)), "long")
	}

	// ---- 3. encodeBytes / decodeString (zlib passes through as an oracle)
	for i := 0; i < c.pick(150, 3000); i++ {
		d := c.codecData(c.rng.Intn(80))
		z := codecZlib(d)
		enc := trzsz.VerifEncodeBytes(d)
		c.emit(true, "codec_encode_bytes", hx([]byte(enc)), hx(z))
		back, err := trzsz.VerifDecodeString(enc)
		if err != nil || !bytes.Equal(back, d) {
			c.violate("encode-bytes-roundtrip", "decodeString(encodeBytes(d)) != d", fmt.Sprintf("data=%s encoded=%q got=%s err=%v", hx(d), enc, hx(back), err))
		}
	}

	// ---- 4. malformed base64 streams: accept/reject correspondence
	decodeStringCase := func(s []byte) {
		got, err := trzsz.VerifDecodeString(string(s))
		var res string
		var cie base64.CorruptInputError
		zin, zout := "-", "-"
		// the library's own view of the base64 layer is only used to FEED the zlib oracle
		if lib, lerr := base64.StdEncoding.DecodeString(string(s)); lerr == nil {
			zin = hx(lib)
			if d, zerr := codecUnzlib(lib); zerr == nil {
				zout = hx(d)
			} else {
				zout = "zerr"
			}
		}
		switch {
		case err == nil:
			res = "ok:" + hx(got)
			c.count("decode_string:ok")
		case errors.As(err, &cie):
			res = "b64err"
			c.count("decode_string:b64err")
		default:
			res = "zerr"
			c.count("decode_string:zerr")
		}
		c.emit(true, "codec_decode_string", res, hx(s), zin, zout)
	}
	for i := 0; i < c.pick(1500, 30000); i++ {
		var base []byte
		switch c.rng.Intn(3) {
		case 0:
			base = []byte(trzsz.VerifEncodeBytes(c.codecData(c.rng.Intn(12))))
		default:
			base = []byte(base64.StdEncoding.EncodeToString(c.codecData(c.rng.Intn(14))))
		}
		s, kind := c.codecMalform(base)
		if c.rng.Intn(8) == 0 {
			s, kind = base, "valid,"
		}
		decodeStringCase(s)
		// the streaming reader on the same stream, random chunking
		var frames [][]byte
		if len(s) > 0 {
			frames = c.split(s, 1+c.rng.Intn(6))
		}
		if codecReaderComparable(s) {
			got, ok := c.codecRunB64Reader(frames, c.codecSizes(c.rng.Intn(3), 16))
			res := "err"
			if ok {
				res = "ok:" + hx(got)
				c.count("reader:accepted")
			} else {
				c.count("reader:rejected")
			}
			c.emit(true, "codec_b64_decode", res, hxs(frames))
		} else {
			c.count("reader:skipped-mid-stream-padding")
		}
		for _, k := range strings.Split(strings.TrimSuffix(kind, ","), ",") {
			c.count("malform:" + k)
		}
	}

	// ---- 5. lines: sendInteger / sendLine / keep-alive
	for i := 0; i < c.pick(120, 2000); i++ {
		var v int64
		switch c.rng.Intn(5) {
		case 0:
			v = int64(c.rng.Intn(12))
		case 1:
			v = int64(c.rng.Intn(100000))
		case 2:
			v = c.rng.Int63()
		case 3:
			p := int64(1)
			for k := c.rng.Intn(19); k > 0; k-- {
				p *= 10
			}
			v = p - int64(c.rng.Intn(2))
		case 4:
			v = 1<<63 - 1 - int64(c.rng.Intn(3))
		}
		typ := []string{"NUM", "SIZE", "SUCC", "DATA"}[c.rng.Intn(4)]
		var w bytes.Buffer
		vw := trzsz.VerifNewWire(&w, true, nil, 2)
		vw.SendInteger(typ, v)
		c.emit(true, "codec_int_line", hx(w.Bytes()), hx([]byte(typ)), fmt.Sprint(v))
		// read it back with the real receiver
		vr := trzsz.VerifNewWire(io.Discard, true, nil, 2)
		vr.Feed(w.Bytes())
		back, err := vr.RecvInteger(typ)
		if err != nil || back != v {
			c.violate("int-line-roundtrip", "recvInteger(sendInteger(v)) != v", fmt.Sprintf("typ=%s v=%d got=%d err=%v", typ, v, back, err))
		}
		c.emit(true, "codec_undec", fmt.Sprint(back), hx([]byte(fmt.Sprint(v))))
	}
	for i := 0; i < c.pick(60, 600); i++ {
		typ := []string{"ACT", "NAME", "MD5", "EXIT", "fail", "FAIL", "COMP", "HASH"}[c.rng.Intn(8)]
		payload := base64.StdEncoding.EncodeToString(c.codecData(c.rng.Intn(20)))
		if c.rng.Intn(4) == 0 {
			payload = []string{"true", "false", "=", "12/34"}[c.rng.Intn(4)]
		}
		var w bytes.Buffer
		vw := trzsz.VerifNewWire(&w, c.rng.Intn(2) == 0, nil, 2)
		vw.SendLine(typ, payload)
		c.emit(true, "codec_line", hx(w.Bytes()), hx([]byte(typ)), hx([]byte(payload)), hx([]byte("\n")))
	}
	for _, typ := range []string{"DATA", "SUCC"} {
		pw := &codecPauseWriter{limit: 2}
		vw := trzsz.VerifNewWire(pw, true, nil, 2)
		pw.v = vw
		if err := vw.PauseLines(typ, 3); err != nil {
			panic(err)
		}
		for _, l := range pw.lines {
			c.emit(true, "codec_pause_line", hx(l), hx([]byte(typ)), hx([]byte("\n")))
		}
	}

	// ---- 6. sendDataWriter framing under a changing buffer size; pipelineRecvData reads it back
	sdwOne := func(binary bool, stream []byte, chunks [][]byte, sizes []int, dflt int, kind string) {
		// the negotiated terminator: "\n", or "!\n" (Windows-console framing; base64 mode in practice)
		nl := "\n"
		if c.rng.Intn(3) == 0 && (!binary || c.rng.Intn(4) == 0) {
			nl = "!\n"
		}
		c.count(fmt.Sprintf("sdw:newline=%q", nl))
		frames := trzsz.VerifSendDataWriter(binary, nl, ints64(sizes), int64(dflt), chunks)
		var bufs, datas [][]byte
		for _, f := range frames {
			bufs = append(bufs, f.Buffer)
			datas = append(datas, f.Data)
		}
		nontrivial := len(frames) > 2
		c.emit(nontrivial, "codec_sdw", hxs(bufs), codecBool(binary), hx([]byte(nl)), ints(sizes), fmt.Sprint(dflt), hxs(chunks))
		codecCheckTerminators(c, binary, nl, bufs, fmt.Sprintf("sendDataWriter binary=%v newline=%q sizes=%s dflt=%d chunks=%s", binary, nl, ints(sizes), dflt, hxs(chunks)))
		if !bytes.Equal(bytes.Join(datas, nil), stream) {
			c.violate("sdw-concat", "the frames of sendDataWriter do not concatenate to the stream written",
				fmt.Sprintf("binary=%v sizes=%s dflt=%d chunks=%s frames=%s", binary, ints(sizes), dflt, hxs(chunks), hxs(datas)))
		}
		c.count("sdw:" + kind)
		// the receiver's view; base64 frames must be base64 text to be readable, so only then
		wire := append(bytes.Join(bufs, nil), []byte("#MD5:eJwDAAAAAAE="+nl)...)
		readable := binary
		if !binary {
			readable = true
			for _, b := range stream {
				if !(b == '+' || b == '/' || b == '=' || (b >= '0' && b <= '9') || (b >= 'a' && b <= 'z') || (b >= 'A' && b <= 'Z')) {
					readable = false
				}
			}
		}
		if nl != "\n" && binary {
			readable = false // a binary payload under the Windows reader is not a configuration that occurs
		}
		if readable {
			wchunks := c.split(wire, 1+c.rng.Intn(40))
			var got [][]byte
			var acks []int
			var rest []byte
			var err error
			if nl == "\n" {
				got, acks, rest, err = trzsz.VerifPipelineRecvFrames(binary, 2, wchunks)
			} else {
				got, acks, rest, err = trzsz.VerifPipelineRecvFramesWindows(binary, 1, wchunks)
			}
			res := "err"
			if err == nil {
				res = "ok:" + hxs(got) + ":" + hx(rest)
			}
			if nl == "\n" {
				c.emit(len(got) > 1, "codec_recv", res, codecBool(binary), hxs(wchunks))
			} else {
				c.emit(len(got) > 1, "codec_recv_win", res, hxs(wchunks))
			}
			want := datas[:len(datas)-1]
			same := err == nil && len(got) == len(want) && len(acks) == len(datas)
			if same {
				for i := range got {
					if !bytes.Equal(got[i], want[i]) {
						same = false
					}
				}
			}
			if !same {
				c.violate("frames-parse", "pipelineRecvData does not read back the frames sendDataWriter assembled",
					fmt.Sprintf("binary=%v sizes=%s dflt=%d chunks=%s wire=%s got=%s err=%v", binary, ints(sizes), dflt, hxs(chunks), hx(wire), hxs(got), err))
			}
		}
	}
	for i := 0; i < c.pick(400, 8000); i++ {
		binary := c.rng.Intn(2) == 0
		var stream []byte
		n := c.rng.Intn(70)
		if c.rng.Intn(10) == 0 {
			n = 200 + c.rng.Intn(3000)
		}
		if binary {
			stream = c.codecData(n)
		} else {
			stream = []byte(base64.StdEncoding.EncodeToString(c.codecData(n)))
		}
		var chunks [][]byte
		if len(stream) > 0 {
			chunks = c.split(stream, 1+c.rng.Intn(12))
		}
		if c.rng.Intn(6) == 0 {
			chunks = append([][]byte{{}}, chunks...)
		}
		sizes := c.codecSizes(1+c.rng.Intn(6), 40)
		dflt := 1 + c.rng.Intn(20)
		kind := "short"
		if len(stream) >= 200 {
			dflt = 1 + c.rng.Intn(700)
			kind = "long"
		}
		// exact-fit cases: a write that fills the buffer to the last byte
		if c.rng.Intn(5) == 0 && len(chunks) > 0 {
			sizes[0] = len(chunks[0])
			if sizes[0] == 0 {
				sizes[0] = 1
			}
			kind = "exact-fit"
		}
		sdwOne(binary, stream, chunks, sizes, dflt, kind)
	}
	// every split of a short stream x a few size sequences
	for _, binary := range []bool{false, true} {
		stream := []byte("QUJDREVGRw==")[:8]
		if binary {
			stream = []byte{0xee, '1', '\n', '#', 0xee, 0xee, 0, 'A'}
		}
		allSplits(stream, func(cs [][]byte) {
			for _, sz := range [][]int{{1}, {2, 3}, {3, 1, 2}, {8}, {9}, {4, 4}} {
				sdwOne(binary, stream, cs, sz, sz[len(sz)-1], "all-splits")
			}
		})
	}

	// ---- 7. pipelineSendData: frames longer than the current buffer size are cut again
	for i := 0; i < c.pick(300, 6000); i++ {
		binary := c.rng.Intn(2) == 0
		// the negotiated line terminator: "\n", or the Windows-console framing "!\n" (base64 mode
		// in practice; the binary header line with it is exercised as well)
		nl := "\n"
		if c.rng.Intn(2) == 0 && (!binary || c.rng.Intn(4) == 0) {
			nl = "!\n"
		}
		nf := 1 + c.rng.Intn(5)
		var frames []trzsz.VerifFrame
		var datas [][]byte
		fsz := 1 + c.rng.Intn(24)
		for j := 0; j < nf; j++ {
			n := 1 + c.rng.Intn(fsz)
			var d []byte
			if binary {
				d = c.codecData(n)
			} else {
				d = []byte(base64.StdEncoding.EncodeToString(c.codecData(n)))[:n]
			}
			datas = append(datas, d)
		}
		datas = append(datas, []byte{}) // finish flag
		// assemble the wire form with the real sendDataWriter (one frame each)
		for _, d := range datas {
			if len(d) == 0 {
				fr := trzsz.VerifSendDataWriter(binary, nl, nil, 1, nil)
				frames = append(frames, fr[len(fr)-1])
				continue
			}
			fr := trzsz.VerifSendDataWriter(binary, nl, nil, int64(len(d)), [][]byte{d})
			frames = append(frames, fr[0])
		}
		// values of bufferSize in force message after message
		vals := c.codecSizes(40, fsz+4)
		dflt := 1 + c.rng.Intn(fsz+4)
		// the model's list: one entry per Load; the Load that decides to split and the first
		// Load of the splitting loop see the same value (no write happens in between)
		var modelSizes []int
		vi := 0
		cur := func() int {
			if vi < len(vals) {
				return vals[vi]
			}
			return dflt
		}
		split := false
		for _, d := range datas {
			modelSizes = append(modelSizes, cur())
			if len(d) <= cur() {
				vi++
				continue
			}
			split = true
			left := len(d)
			for left > 0 {
				modelSizes = append(modelSizes, cur())
				left -= min(cur(), left)
				vi++
			}
		}
		sw := &codecSizeWriter{binary: binary, vals: vals, dflt: dflt}
		acks, err := trzsz.VerifPipelineSendData(binary, nl, int64(sw.value()), frames, func(set func(int64)) io.Writer {
			sw.set = set
			return sw
		})
		if err != nil {
			panic(err)
		}
		if split {
			c.count("psd:split")
		} else {
			c.count("psd:whole")
		}
		c.count(fmt.Sprintf("psd:newline=%q:split=%v", nl, split))
		c.emit(split, "codec_psd", hx(sw.wire)+"|"+strings.Trim(strings.ReplaceAll(fmt.Sprint(acks), " ", ","), "[]"),
			codecBool(binary), hx([]byte(nl)), ints(modelSizes), fmt.Sprint(dflt), hxs(datas))
		// oracle: every message pipelineSendData writes - assembled frame or re-split piece -
		// ends with the negotiated terminator (base64 mode: the whole line; binary: the header)
		codecCheckTerminators(c, binary, nl, sw.msgs, fmt.Sprintf("binary=%v newline=%q frames=%s sizes=%s dflt=%d wire=%s", binary, nl, hxs(datas), ints(vals), dflt, hx(sw.wire)))
		if nl == "!\n" && !binary {
			// oracle: the receiver of a Windows-framed connection (recvLine -> readLineOnWindows, which
			// ends a line at '!' only) reads the stream back, whatever the chunking
			tail := []byte("#MD5:eJwDAAAAAAE=!\n")
			wire := append(append([]byte(nil), sw.wire...), tail...)
			wchunks := c.split(wire, 1+c.rng.Intn(30))
			got, _, rest, rerr := trzsz.VerifPipelineRecvFramesWindows(false, 1, wchunks)
			want := bytes.Join(datas, nil)
			restOK := bytes.Equal(rest, tail) || bytes.Equal(rest, append([]byte("\n"), tail...))
			if rerr != nil || !restOK || !bytes.Equal(bytes.Join(got, nil), want) {
				c.violate("resplit-windows-framing", "pipelineSendData's output under the \"!\\n\" framing is not read back by the Windows-console line reader",
					fmt.Sprintf("frames=%s sizes=%s dflt=%d wire=%q chunks=%s got=%s rest=%q err=%v", hxs(datas), ints(vals), dflt, sw.wire, hxs(wchunks), hxs(got), rest, rerr))
			}
			res := "err"
			if rerr == nil {
				res = "ok:" + hxs(got) + ":" + hx(rest)
			}
			c.emit(split, "codec_recv_win", res, hxs(wchunks))
		}
		if nl == "\n" {
			got, _, rest, rerr := trzsz.VerifPipelineRecvFrames(binary, 2, [][]byte{sw.wire})
			want := bytes.Join(datas, nil)
			if rerr != nil || len(rest) != 0 || !bytes.Equal(bytes.Join(got, nil), want) {
				readable := binary || !bytes.ContainsAny(want, "\n:#")
				if readable {
					c.violate("resplit-stream", "pipelineSendData's output does not read back as the stream of the frames",
						fmt.Sprintf("binary=%v frames=%s sizes=%s dflt=%d wire=%s got=%s err=%v", binary, hxs(datas), ints(vals), dflt, hx(sw.wire), hxs(got), rerr))
				}
			}
		}
	}

	// ---- 8. protocol 1: sendData / recvData per chunk
	for i := 0; i < c.pick(200, 4000); i++ {
		binary := c.rng.Intn(2) == 0
		ps := builtinPairs(c.rng.Intn(2) == 0)
		if c.rng.Intn(3) == 0 {
			ps = c.wfTable()
		}
		t, err := trzsz.VerifParseEscapeTable(tableJSON(ps))
		if err != nil {
			panic(err)
		}
		d := c.denseData(ps, c.rng.Intn(60))
		if c.rng.Intn(3) == 0 {
			d = c.codecData(c.rng.Intn(60))
		}
		var w bytes.Buffer
		vw := trzsz.VerifNewWire(&w, binary, t, 2)
		if err := vw.SendData(d); err != nil {
			panic(err)
		}
		z := "-"
		if !binary {
			z = hx(codecZlib(d))
		}
		c.emit(true, "codec_v1_send", hx(w.Bytes()), codecBool(binary), tableArg(ps), z, hx(d))
		tail := []byte("#MD5:eJwDAAAAAAE=\n")
		wire := append(append([]byte(nil), w.Bytes()...), tail...)
		wchunks := c.split(wire, 1+c.rng.Intn(30))
		vr := trzsz.VerifNewWire(io.Discard, binary, t, 2)
		for _, ch := range wchunks {
			vr.Feed(ch)
		}
		back, rerr := vr.RecvData()
		rest := vr.Rest()
		if rerr != nil || !bytes.Equal(back, d) || !bytes.Equal(rest, tail) {
			c.violate("v1-roundtrip", "recvData(sendData(d)) != d",
				fmt.Sprintf("binary=%v table=%s data=%s wire=%s got=%s rest=%s err=%v", binary, tableArg(ps), hx(d), hx(wire), hx(back), hx(rest), rerr))
		}
		res := "err"
		if rerr == nil {
			res = "ok:" + hx(back) + ":" + hx(rest)
		}
		zout := "-"
		if !binary {
			zout = hx(d)
		}
		c.emit(true, "codec_v1_recv", res, codecBool(binary), tableArg(ps), z, zout, hxs(wchunks))
	}
}

// writer for the keep-alive lines: resumes the transfer after [limit] lines
type codecPauseWriter struct {
	v     *trzsz.VerifWire
	lines [][]byte
	limit int
}

func (w *codecPauseWriter) Write(p []byte) (int, error) {
	w.lines = append(w.lines, append([]byte(nil), p...))
	if len(w.lines) >= w.limit {
		w.v.Resume()
	}
	return len(p), nil
}

// connection writer for pipelineSendData: recognises the end of every message (a frame sent
// as assembled, or header+payload / prefix+payload+newline of a piece) and then puts the next
// buffer size in force, so that the next Load of the sending loop sees it
type codecSizeWriter struct {
	binary bool
	vals   []int
	dflt   int
	idx    int
	set    func(int64)
	wire   []byte
	msgs   [][]byte // the writes of each completed message, joined
	cur    []byte
	state  int // 0 = expecting the start of a message; binary: 1 = payload of a piece; base64: 1 = payload, 2 = newline
}

func (w *codecSizeWriter) value() int {
	if w.idx < len(w.vals) {
		return w.vals[w.idx]
	}
	return w.dflt
}

func (w *codecSizeWriter) done() {
	w.msgs = append(w.msgs, w.cur)
	w.cur = nil
	w.idx++
	w.set(int64(w.value()))
	w.state = 0
}

func (w *codecSizeWriter) Write(p []byte) (int, error) {
	w.wire = append(w.wire, p...)
	w.cur = append(w.cur, p...)
	if w.binary {
		switch w.state {
		case 0:
			// "#DATA:<n>\n" alone (a piece follows, unless n = 0) or with its payload (an assembled frame)
			nl := bytes.IndexByte(p, '\n')
			var n int
			fmt.Sscanf(string(p[6:nl]), "%d", &n)
			if len(p) == nl+1 && n > 0 {
				w.state = 1
			} else {
				w.done()
			}
		case 1:
			w.done()
		}
		return len(p), nil
	}
	switch w.state {
	case 0:
		if string(p) == "#DATA:" {
			w.state = 1
		} else {
			w.done()
		}
	case 1:
		w.state = 2
	case 2:
		w.done()
	}
	return len(p), nil
}

// every message must carry the negotiated terminator: base64 mode "#DATA:<payload><nl>",
// binary mode "#DATA:<n><nl><payload>"
func codecCheckTerminators(c *ctx, binary bool, nl string, msgs [][]byte, ctxt string) {
	for i, m := range msgs {
		ok := false
		if binary {
			if j := bytes.IndexByte(m, '\n'); j >= 0 {
				ok = bytes.HasSuffix(m[:j+1], []byte(nl))
			}
		} else {
			ok = bytes.HasSuffix(m, []byte(nl))
		}
		if !ok {
			c.violate("frame-terminator", "a DATA message written by pipelineSendData does not end with the negotiated line terminator",
				fmt.Sprintf("message %d = %q; %s", i, m, ctxt))
			return
		}
	}
}

// ---- end to end: nothing the uploading client writes in binary mode is protected ----

func codecAnnouncedTable(s2c []byte) (map[byte]bool, error) {
	i := bytes.Index(s2c, []byte("#CFG:"))
	if i < 0 {
		return nil, fmt.Errorf("no CFG line")
	}
	rest := s2c[i+5:]
	nl := bytes.IndexByte(rest, '\n')
	if nl < 0 {
		return nil, fmt.Errorf("unterminated CFG line")
	}
	js, err := decodeLinePayload(strings.TrimRight(string(rest[:nl]), "\r!"))
	if err != nil {
		return nil, err
	}
	var cfg struct {
		EscapeChars [][]string `json:"escape_chars"`
		Binary      bool       `json:"binary"`
	}
	if err := json.Unmarshal(js, &cfg); err != nil {
		return nil, err
	}
	if !cfg.Binary {
		return nil, fmt.Errorf("server did not configure binary mode")
	}
	prot := map[byte]bool{}
	for _, e := range cfg.EscapeChars {
		if len(e) != 2 {
			return nil, fmt.Errorf("escape_chars entry of length %d", len(e))
		}
		src := []rune(e[0])
		if len(src) != 1 || src[0] > 255 {
			return nil, fmt.Errorf("escape_chars source %q", e[0])
		}
		if byte(src[0]) != 0xee {
			prot[byte(src[0])] = true
		}
	}
	return prot, nil
}

func genCodecE2E(c *ctx) {
	work, _ := os.MkdirTemp("", "e2e_codec_")
	defer os.RemoveAll(work)
	type wcase struct {
		cfg      e2eCfg
		seed     int64
		sizes    []int
		desc     string
		viol     string
		key      string
		nprot    int
		typeKeys bool
	}
	var cases []*wcase
	// escape on/off x compress yes/no/auto x protocol: as negotiated (4), forced 2, and the
	// legacy protocol 1 (protocol field removed from the handshake: sendData per chunk)
	for _, escape := range []bool{false, true} {
		for _, comp := range []string{"yes", "no", "auto"} {
			for _, proto := range []int{-1, 0, 2} {
				for rep := 0; rep < c.pick(1, 6); rep++ {
					wc := &wcase{seed: c.rng.Int63()}
					wc.cfg = e2eCfg{upload: true, binary: true, escape: escape, compress: comp, timeout: 10, proto: proto,
						bufsize: []string{"", "1k", "4k"}[c.rng.Intn(3)], quiet: true, deadline: 40 * time.Second}
					wc.sizes = [][]int{{1, 700, 5000}, {513, 70000}, {131072, 3}, {40000}}[c.rng.Intn(4)]
					wc.desc = fmt.Sprintf("%s sizes=%v seed=%d", describeCfg(wc.cfg), wc.sizes, wc.seed)
					cases = append(cases, wc)
				}
			}
		}
	}
	// legacy senders escape AFTER cutting the chunk: an escaped chunk may be longer than the buffer
	// size the receiver announced (16k chunks full of protected bytes, protocols 1 and 2)
	for _, proto := range []int{0, 2} {
		wc := &wcase{seed: c.rng.Int63()}
		wc.cfg = e2eCfg{upload: true, binary: true, escape: proto == 0, compress: "no", timeout: 10, proto: proto,
			bufsize: "16k", quiet: true, deadline: 40 * time.Second}
		wc.sizes = []int{50000}
		wc.desc = fmt.Sprintf("%s sizes=%v seed=%d legacy 16k chunks of protected bytes", describeCfg(wc.cfg), wc.sizes, wc.seed)
		cases = append(cases, wc)
	}
	// keys typed by the user while an upload runs belong to nobody: they must not reach the connection
	for _, escape := range []bool{false, true} {
		wc := &wcase{seed: c.rng.Int63(), typeKeys: true}
		wc.cfg = e2eCfg{upload: true, binary: true, escape: escape, compress: "no", timeout: 10, proto: -1,
			bufsize: "4k", quiet: true, deadline: 40 * time.Second}
		wc.sizes = []int{40000}
		wc.desc = fmt.Sprintf("%s sizes=%v seed=%d keys '~' Enter 'q' typed during the upload", describeCfg(wc.cfg), wc.sizes, wc.seed)
		cases = append(cases, wc)
	}
	// a tunnel that is only half established: the client's greeting reaches the server at once, the
	// server's answer comes back after the client's one-second grace period, so the client gives the
	// tunnel up and announces tunnel:false while the server holds an accepted connection: the
	// transfer runs in-band and must be escaped exactly as without any tunnel
	for _, escape := range []bool{false, true} {
		wc := &wcase{seed: c.rng.Int63()}
		wc.cfg = e2eCfg{upload: true, binary: true, escape: escape, compress: "no", timeout: 10, proto: -1,
			bufsize: "4k", quiet: true, deadline: 40 * time.Second}
		wc.cfg.connector = func(port int) net.Conn {
			conn, err := net.DialTimeout("tcp", fmt.Sprintf("127.0.0.1:%d", port), time.Second)
			if err != nil {
				return nil
			}
			return &codecLateHelloConn{Conn: conn}
		}
		wc.sizes = []int{700, 5000}
		wc.desc = fmt.Sprintf("%s sizes=%v seed=%d half-established tunnel (server greeting 1.3 s late)", describeCfg(wc.cfg), wc.sizes, wc.seed)
		cases = append(cases, wc)
	}
	parallelDo(len(cases), 12, func(i int) {
		wc := cases[i]
		rng := rand.New(rand.NewSource(wc.seed))
		root := filepath.Join(work, fmt.Sprint(i))
		dest := filepath.Join(root, "dest")
		os.MkdirAll(dest, 0755)
		os.MkdirAll(filepath.Join(root, "s"), 0755)
		var tops []string
		for j, n := range wc.sizes {
			// names made of protected bytes too ('~'); payloads made of protected bytes (kind 3)
			p := filepath.Join(root, "s", fmt.Sprintf("~f%d~.bin", j))
			os.WriteFile(p, fillBytes(rng, n, 3), 0644)
			tops = append(tops, p)
		}
		if wc.typeKeys {
			var run *e2eRun
			var rmu sync.Mutex
			wc.cfg.onStart = func(r *e2eRun) { rmu.Lock(); run = r; rmu.Unlock() }
			var once sync.Once
			wc.cfg.hook = func(d, i int, b []byte) e2eAction {
				if d == dirC2S && bytes.Contains(b, []byte("#DATA:")) {
					once.Do(func() {
						rmu.Lock()
						r := run
						rmu.Unlock()
						if r != nil {
							for _, k := range []string{"~", "\r", "q"} {
								r.cliIn.Write([]byte(k))
								time.Sleep(15 * time.Millisecond)
							}
						}
					})
				}
				return e2eAction{}
			}
		}
		res := runTransfer(wc.cfg, tops, dest)
		if res.hung || !res.clientDone || res.uploadErr != nil {
			wc.key = "wire-clean-run-failed"
			wc.viol = fmt.Sprintf("upload did not complete: hung=%v clientDone=%v err=%v tail=%q", res.hung, res.clientDone, res.uploadErr, tailStr(res.serverOut, 200))
			return
		}
		prot, err := codecAnnouncedTable(res.wire[1])
		if err != nil {
			wc.key = "wire-clean-no-table"
			wc.viol = "cannot read the announced table: " + err.Error()
			return
		}
		wc.nprot = len(prot)
		// what the options promise whatever table is announced: '~' always, with -e also CR, DLE,
		// XON, XOFF, CAN, ESC, GS and the 8-bit forms of CR, DLE, XON, XOFF, GS (the property's list;
		// the built-in table has never contained 0x98 / 0x9b, the 8-bit forms of CAN and ESC: the
		// property is about "the bytes a table promises to protect", see DESIGN 10.4)
		promised := []byte{0x7e}
		if wc.cfg.escape {
			promised = append(promised, 0x0d, 0x10, 0x11, 0x13, 0x18, 0x1b, 0x1d, 0x8d, 0x90, 0x91, 0x93, 0x9d)
		}
		for _, b := range promised {
			if !prot[b] {
				wc.key = "table-misses-promised-byte"
				wc.viol = fmt.Sprintf("the announced table does not protect %02x, which these options promise to keep off the wire", b)
				prot[b] = true
			}
		}
		w := res.wire[0]
		for off, b := range w {
			if prot[b] {
				lo, hi := max(0, off-24), min(len(w), off+8)
				wc.key = "wire-protected-byte"
				wc.viol = fmt.Sprintf("byte %02x (protected by the announced table) at offset %d of the client->server wire; context %q; line types so far %v",
					b, off, w[lo:hi], lineTypes(w[:off]))
				return
			}
		}
		// the scan must have seen payload: DATA lines present
		if !bytes.Contains(w, []byte("#DATA:")) {
			wc.key = "wire-clean-no-data"
			wc.viol = "no DATA message on the recorded wire"
		}
		os.RemoveAll(root)
	})
	for _, wc := range cases {
		c.note(true, fmt.Sprintf("wire-clean %s protected=%d", wc.desc, wc.nprot))
		c.count(fmt.Sprintf("escape:%v", wc.cfg.escape))
		c.count("compress:" + wc.cfg.compress)
		c.count(fmt.Sprintf("proto:%d", wc.cfg.proto))
		if wc.viol != "" {
			c.violate(wc.key, "binary upload: the client wrote a byte the escape table protects (or the run could not be judged)", wc.desc+" :: "+wc.viol)
		}
	}
}

// codecLateHelloConn delays the first Read (the server's tunnel greeting) beyond the client's grace period.
type codecLateHelloConn struct {
	net.Conn
	once sync.Once
}

func (c *codecLateHelloConn) Read(p []byte) (int, error) {
	c.once.Do(func() { time.Sleep(1300 * time.Millisecond) })
	return c.Conn.Read(p)
}
