package main

// C02 group "resume-script": faults in the NUMBERS and FLAGS of the resume (prefix-hash) exchange.
//
// A real sendFiles and a real recvFiles (export VerifFaultPair) run against each other in this
// process, overwrite mode, protocol 3 and 4, over a link that rewrites single protocol lines into
// other WELL-FORMED lines: the hash-phase "#SIZE:" line (protocol 3: the one integer of the
// protocol that is neither echoed nor checksummed), every field of a HASH record, every field of
// an answer (match true <-> false included), lines lost, doubled, stale answers in their place -
// one fault, and pairs of one fault per direction.  Stratified: every relation of the existing
// destination to the source (absent, empty, proper prefix, identical, longer with the same prefix,
// longer diverging, shorter diverging) x every fault kind x protocol 3 / 4.
//
// Direct oracle: a side that reports success (sendFiles / recvFiles returned nil) implies that the
// destination is byte-identical to the source.
// Model: Model/FaultResume.v fr_exchange_code on what was DELIVERED (typed): it completes exactly
// when both real ends report success, and then predicts the destination.
//
//   resume_fault_verdict <proto> <src> <dst> <size> <hashes> <answers>  =>  D:<md5 of the destination> | N
//     dst      hex, "-" = empty or absent
//     size     the hash-phase SIZE line as delivered (protocol 3), "-" = none was delivered
//     hashes   H:<step>:<hex of the digest string> / O (Over), joined by ","
//     answers  A:<step>:<0|1>, joined by ","

import (
	"bytes"
	"crypto/md5"
	"encoding/json"
	"fmt"
	"os"
	"path/filepath"
	"strconv"
	"strings"
	"time"

	"github.com/trzsz/trzsz-go/trzsz"
)

func init() { groups["resume-script"] = genResumeScript }

type c02rFault struct {
	target string // size, hash, over, answer
	op     string
}

func (f c02rFault) String() string { return f.target + ":" + f.op }

type c02rHash struct {
	Step int64  `json:"step"`
	Hash string `json:"hash"`
	Over bool   `json:"over"`
}
type c02rAck struct {
	Step  int64 `json:"step"`
	Match bool  `json:"match"`
}

// c02rNum applies a digit-level fault to a decimal number
func c02rNum(n int64, op string) int64 {
	s := strconv.FormatInt(n, 10)
	switch op {
	case "digit-up": // first digit raised: 300 -> 900
		s = "9" + s[1:]
		if n >= 0 && s == strconv.FormatInt(n, 10) {
			s = "8" + s[1:]
		}
	case "digit-down": // first digit lowered: 300 -> 100
		s = "1" + s[1:]
		if s == strconv.FormatInt(n, 10) {
			s = "0" + s[1:]
		}
	case "digit-append":
		s += "0"
	case "digit-delete":
		s = s[:len(s)-1]
		if s == "" {
			s = "0"
		}
	case "last-digit":
		c := s[len(s)-1]
		s = s[:len(s)-1] + string('0'+(c-'0'+1)%10)
	case "zero":
		s = "0"
	}
	v, err := strconv.ParseInt(s, 10, 64)
	if err != nil {
		return n
	}
	return v
}

type c02rCase struct {
	proto    int
	relation string
	faults   []c02rFault
	seed     int64
	src, dst []byte
	absent   bool
	tune     int64 // size:plus-tune / answer:minus-tune: the two numbers are moved by the same amount
	// result
	impl     string
	args     []string
	viol     *c01tViol
	counts   []string
	applied  int
	sizeLine string // silent corruption with a damaged SIZE line: below-offset (the remembered rest was negative) / tuned
}

func (rc *c02rCase) desc() string {
	var fs []string
	for _, f := range rc.faults {
		fs = append(fs, f.String())
	}
	return fmt.Sprintf("protocol=%d existing=%s(%d bytes, source %d) faults=[%s] seed=%d", rc.proto, rc.relation, len(rc.dst), len(rc.src), strings.Join(fs, " "), rc.seed)
}

func (rc *c02rCase) run(work string, idx int) {
	root := filepath.Join(work, fmt.Sprint(idx))
	srcDir, destDir := filepath.Join(root, "s"), filepath.Join(root, "d")
	os.MkdirAll(srcDir, 0755)
	os.MkdirAll(destDir, 0755)
	defer os.RemoveAll(root)
	srcPath := filepath.Join(srcDir, "f0.bin")
	destPath := filepath.Join(destDir, "f0.bin")
	os.WriteFile(srcPath, rc.src, 0644)
	if !rc.absent {
		os.WriteFile(destPath, rc.dst, 0644)
	}
	cfg, _ := json.Marshal(map[string]any{"protocol": rc.proto, "overwrite": true, "timeout": 1, "bufsize": 10 << 20})

	seenHash := false
	nHash, nAns := 0, 0
	sizeDone := false
	filter := func(dir int, p []byte) [][]byte {
		line := bytes.TrimSuffix(p, []byte("\n"))
		if len(line) == len(p) {
			return [][]byte{p}
		}
		find := func(target string) *c02rFault {
			for i := range rc.faults {
				if rc.faults[i].target == target {
					return &rc.faults[i]
				}
			}
			return nil
		}
		switch {
		case dir == 0 && bytes.HasPrefix(line, []byte("#SIZE:")) && !seenHash && !sizeDone && rc.proto < 4 && len(rc.dst) > 0:
			// (without an existing destination there is no exchange: the first SIZE line is the echoed one of the data phase)
			sizeDone = true
			if f := find("size"); f != nil {
				if n, err := strconv.ParseInt(string(line[6:]), 10, 64); err == nil {
					rc.applied++
					if f.op == "plus-tune" {
						return [][]byte{[]byte(fmt.Sprintf("#SIZE:%d\n", n+rc.tune))}
					}
					return [][]byte{[]byte(fmt.Sprintf("#SIZE:%d\n", c02rNum(n, f.op)))}
				}
			}
		case dir == 0 && bytes.HasPrefix(line, []byte("#HASH:")):
			seenHash = true
			d, err := trzsz.VerifDecodeString(string(line[6:]))
			var h c02rHash
			if err != nil || json.Unmarshal(d, &h) != nil {
				return [][]byte{p}
			}
			target := "hash"
			if h.Over {
				target = "over"
			} else {
				nHash++
			}
			f := find(target)
			if f == nil || (target == "hash" && nHash != 1) {
				return [][]byte{p}
			}
			rc.applied++
			enc := func(h c02rHash) []byte {
				js, _ := json.Marshal(h)
				return []byte("#HASH:" + trzsz.VerifEncodeBytes(js) + "\n")
			}
			switch f.op {
			case "lost":
				return nil
			case "doubled":
				return [][]byte{p, p}
			case "digest-char":
				b := []byte(h.Hash)
				if len(b) > 0 {
					b[len(b)/2] = "0123456789abcdef"[(strings.IndexByte("0123456789abcdef", b[len(b)/2])+1)%16]
				}
				h.Hash = string(b)
				return [][]byte{enc(h)}
			case "after-over": // the record arrives behind the Over record
				return [][]byte{p, enc(c02rHash{Step: 1, Hash: "00"})}
			default:
				h.Step = c02rNum(h.Step, f.op)
				return [][]byte{enc(h)}
			}
		case dir == 1 && bytes.HasPrefix(line, []byte("#SUCC:")):
			d, err := trzsz.VerifDecodeString(string(line[6:]))
			var raw map[string]any
			if err != nil || json.Unmarshal(d, &raw) != nil || raw["match"] == nil {
				return [][]byte{p}
			}
			var a c02rAck
			json.Unmarshal(d, &a)
			nAns++
			f := find("answer")
			if f == nil || nAns != 1 {
				return [][]byte{p}
			}
			rc.applied++
			enc := func(a c02rAck) []byte {
				js, _ := json.Marshal(a)
				return []byte("#SUCC:" + trzsz.VerifEncodeBytes(js) + "\n")
			}
			switch f.op {
			case "lost":
				return nil
			case "doubled":
				return [][]byte{p, p}
			case "match-flip":
				a.Match = !a.Match
				return [][]byte{enc(a)}
			case "stale-negative": // an answer of an earlier exchange in its place
				return [][]byte{enc(c02rAck{Step: 64, Match: false})}
			case "stale-negative-after": // ... or behind it
				return [][]byte{p, enc(c02rAck{Step: a.Step + 64, Match: false})}
			case "minus-tune": // the sender is told an offset that lies as far below the true one as the SIZE line lies above
				return [][]byte{enc(c02rAck{Step: a.Step - rc.tune, Match: true}), enc(c02rAck{Step: a.Step, Match: false})}
			case "stale-positive":
				return [][]byte{enc(c02rAck{Step: a.Step / 2, Match: true}), enc(c02rAck{Step: a.Step, Match: false})}
			default:
				a.Step = c02rNum(a.Step, f.op)
				return [][]byte{enc(a)}
			}
		}
		return [][]byte{p}
	}
	res, err := trzsz.VerifFaultPair(cfg, []string{srcPath}, destDir, filter, 20*time.Second)
	if err != nil {
		rc.viol = &c01tViol{"resume-script:harness", "harness: the in-process pair could not be set up", err.Error()}
		return
	}
	final, ferr := os.ReadFile(destPath)
	identical := ferr == nil && bytes.Equal(final, rc.src)

	// ---- what was delivered, typed
	size := "-"
	var hashes, answers []string
	garbage := false
	sawHash := false
	for _, l := range bytes.Split(res.Deliv[0], []byte("\n")) {
		switch {
		case bytes.HasPrefix(l, []byte("#SIZE:")) && !sawHash && size == "-" && rc.proto < 4 && len(rc.dst) > 0:
			if _, err := strconv.ParseInt(string(l[6:]), 10, 64); err == nil {
				size = string(l[6:])
			} else {
				garbage = true
			}
		case bytes.HasPrefix(l, []byte("#HASH:")):
			sawHash = true
			d, err := trzsz.VerifDecodeString(string(l[6:]))
			var h c02rHash
			if err != nil || json.Unmarshal(d, &h) != nil {
				garbage = true
				continue
			}
			if h.Over {
				hashes = append(hashes, "O")
			} else {
				hashes = append(hashes, fmt.Sprintf("H:%d:%s", h.Step, hx([]byte(h.Hash))))
			}
		}
	}
	for _, l := range bytes.Split(res.Deliv[1], []byte("\n")) {
		if !bytes.HasPrefix(l, []byte("#SUCC:")) {
			continue
		}
		d, err := trzsz.VerifDecodeString(string(l[6:]))
		var raw map[string]any
		if err != nil || json.Unmarshal(d, &raw) != nil || raw["match"] == nil {
			continue
		}
		var a c02rAck
		json.Unmarshal(d, &a)
		answers = append(answers, fmt.Sprintf("A:%d:%s", a.Step, c01tB(a.Match)))
	}
	join := func(l []string) string {
		if len(l) == 0 {
			return "-"
		}
		return strings.Join(l, ",")
	}
	switch {
	case res.Hung:
		rc.impl = "H"
	case res.SendOK && res.RecvOK:
		d := md5.Sum(final)
		rc.impl = "D:" + hx(d[:])
	case !res.SendOK && !res.RecvOK:
		rc.impl = "N"
	default:
		rc.impl = fmt.Sprintf("P:%v:%v", res.SendOK, res.RecvOK)
	}
	if size == "-" && rc.proto < 4 && len(hashes) > 0 {
		size = "0" // no SIZE line reached the receiver although the exchange ran: cannot happen with these faults
		garbage = true
	}
	if !garbage {
		rc.args = []string{fmt.Sprint(rc.proto), hx(rc.src), hx(rc.dst), size, join(hashes), join(answers)}
	}
	rc.counts = append(rc.counts, "outcome:"+rc.impl[:1])
	if (res.SendOK || res.RecvOK) && !identical && rc.proto < 4 && size != "-" {
		// the receiver's own offset: the last step it answered with match
		mr := int64(0)
		for _, l := range bytes.Split(res.Sent[1], []byte("\n")) {
			if bytes.HasPrefix(l, []byte("#SUCC:")) {
				if d, err := trzsz.VerifDecodeString(string(l[6:])); err == nil {
					var raw map[string]any
					var a c02rAck
					if json.Unmarshal(d, &raw) == nil && raw["match"] != nil && json.Unmarshal(d, &a) == nil && a.Match {
						mr = a.Step
					}
				}
			}
		}
		if ds, _ := strconv.ParseInt(size, 10, 64); ds != int64(len(rc.src)) {
			if ds < mr {
				rc.sizeLine = "below-offset"
			} else {
				rc.sizeLine = "tuned"
			}
		}
	}
	if (res.SendOK || res.RecvOK) && !identical {
		rc.viol = &c01tViol{"resume-script:silent-corruption", "a side reported success although the destination differs from the source",
			rc.desc() + fmt.Sprintf(" :: sender-ok=%v receiver-ok=%v destination %d bytes (md5 %x), source %d bytes (md5 %x); delivered size=%s hashes=%s answers=%s",
				res.SendOK, res.RecvOK, len(final), md5.Sum(final), len(rc.src), md5.Sum(rc.src), size, join(hashes), join(answers))}
	}
	if res.Hung {
		rc.viol = &c01tViol{"resume-script:undecided", "the transfer neither completed nor failed within the deadline", rc.desc()}
	}
	if len(rc.faults) == 0 && !(res.SendOK && res.RecvOK && identical) {
		rc.viol = &c01tViol{"resume-script:clean-failed", "a fault-free transfer onto an existing destination did not succeed with an identical destination",
			rc.desc() + fmt.Sprintf(" :: %q / %q", res.SendErr, res.RecvErr)}
	}
}

var c02rRelations = []string{"absent", "empty", "proper-prefix", "identical", "longer-same-prefix", "longer-diverging", "shorter-diverging"}

func c02rExisting(c *ctx, rel string, src []byte) ([]byte, bool) {
	n := len(src)
	switch rel {
	case "absent":
		return nil, true
	case "empty":
		return nil, false
	case "proper-prefix":
		return append([]byte{}, src[:1+c.rng.Intn(n-1)]...), false
	case "identical":
		return append([]byte{}, src...), false
	case "longer-same-prefix":
		return append(append([]byte{}, src...), fillBytes(c.rng, 1+c.rng.Intn(400), 2)...), false
	case "longer-diverging":
		d := append(append([]byte{}, src...), fillBytes(c.rng, 1+c.rng.Intn(400), 2)...)
		d[c.rng.Intn(n)] ^= 0x41
		return d, false
	default: // shorter-diverging
		d := append([]byte{}, src[:1+c.rng.Intn(n-1)]...)
		d[c.rng.Intn(len(d))] ^= 0x41
		return d, false
	}
}

func genResumeScript(c *ctx) {
	work, _ := os.MkdirTemp("", "resume_script_")
	defer os.RemoveAll(work)
	numOps := []string{"digit-up", "digit-down", "digit-append", "digit-delete", "last-digit", "zero"}
	var singles []c02rFault
	for _, op := range numOps {
		singles = append(singles, c02rFault{"size", op})
	}
	for _, op := range append([]string{"lost", "doubled", "digest-char"}, numOps[:5]...) {
		singles = append(singles, c02rFault{"hash", op})
	}
	for _, op := range []string{"lost", "doubled", "after-over"} {
		singles = append(singles, c02rFault{"over", op})
	}
	ansOps := append([]string{"lost", "doubled", "match-flip", "stale-negative", "stale-negative-after", "stale-positive"}, numOps[:5]...)
	for _, op := range ansOps {
		singles = append(singles, c02rFault{"answer", op})
	}
	var cases []*c02rCase
	for _, proto := range []int{3, 4} {
		for _, rel := range c02rRelations {
			mk := func(fs []c02rFault) {
				rc := &c02rCase{proto: proto, relation: rel, faults: fs, seed: c.rng.Int63()}
				rc.src = fillBytes(c.rng, 200+c.rng.Intn(1800), c.rng.Intn(4))
				rc.dst, rc.absent = c02rExisting(c, rel, rc.src)
				cases = append(cases, rc)
			}
			mk(nil)
			if proto < 4 {
				for k := 0; k < 3; k++ {
					mk([]c02rFault{{"size", "plus-tune"}, {"answer", "minus-tune"}})
					cases[len(cases)-1].tune = int64(1 + c.rng.Intn(60))
				}
			}
			for _, f := range singles {
				if f.target == "size" && proto >= 4 {
					continue
				}
				mk([]c02rFault{f})
			}
			// one fault per direction: the sender-side line (SIZE or HASH step) x every answer fault
			for _, f := range singles {
				if (f.target == "size" && proto < 4) || (f.target == "hash" && (f.op == "digit-down" || f.op == "digit-delete")) {
					for _, a := range ansOps {
						if c.thorough() || c.rng.Intn(2) == 0 || a == "match-flip" || a == "stale-negative" {
							mk([]c02rFault{f, {"answer", a}})
						}
					}
				}
			}
		}
	}
	parallelDo(len(cases), 32, func(i int) { cases[i].run(work, i) })
	for _, rc := range cases {
		c.count(fmt.Sprintf("proto:%d", rc.proto))
		c.count("existing:" + rc.relation)
		c.count(fmt.Sprintf("faults-per-run:%d", len(rc.faults)))
		for _, f := range rc.faults {
			c.count("fault:" + f.String())
		}
		c.count(fmt.Sprintf("faults-applied:%d", rc.applied))
		for _, k := range rc.counts {
			c.count(k)
		}
		if rc.viol != nil {
			key := rc.viol.key
			if key == "resume-script:silent-corruption" && rc.sizeLine != "" {
				// protocol 3: the hash-phase SIZE line was damaged and an answer as well
				key = "resume-script:p3-size-line:" + rc.sizeLine
			} else if key == "resume-script:silent-corruption" {
				var fs []string
				for _, f := range rc.faults {
					fs = append(fs, f.String())
				}
				key += ":p" + fmt.Sprint(rc.proto) + ":" + strings.Join(fs, "+")
			}
			c.violate(key, rc.viol.what, rc.viol.detail)
		}
		if rc.args != nil {
			c.emit(rc.applied > 0, "resume_fault_verdict", rc.impl, rc.args...)
		} else {
			c.note(rc.applied > 0, "resume-script "+rc.desc()+" => "+rc.impl)
		}
	}
}
