// corr: correspondence-case generator and implementation runner.
//
//	corr <group> <seed> <tier> <cases-out> <stats-out>
//
// For the given group it generates inputs (corpus first, then structured, then
// malformed), runs the REAL trzsz-go functions on them (through the verif-tagged
// export file) and writes one line per case:
//
//	fn <TAB> arg ... <TAB> => <TAB> canonical-result
//
// The OCaml driver evaluates the extracted Coq model on the same line and compares.
package main

import (
	"bufio"
	"encoding/hex"
	"encoding/json"
	"fmt"
	"math/rand"
	"os"
	"sort"
	"strconv"
	"strings"
)

type ctx struct {
	rng    *rand.Rand
	tier   string
	w      *bufio.Writer
	n      int
	stats  map[string]int
	sample []string
	seen   map[string]bool
	nontrivial int
	violations []map[string]string
	// finish flushes the case file and writes the stats file; a group that must give up early
	// (a real function that does not return) calls it and exits: what was found so far is kept
	finish func()
}

var groups = map[string]func(*ctx){}

func (c *ctx) thorough() bool { return c.tier == "thorough" }

// pick returns q for the quick tier and t for thorough
func (c *ctx) pick(q, t int) int {
	if c.thorough() {
		return t
	}
	return q
}

func (c *ctx) count(key string) { c.stats[key]++ }

// emit writes one case. nontrivial marks cases that exercise a non-identity path
// (by the group's own stated rule); distinctness is by the full input line.
func (c *ctx) emit(nontrivial bool, fn string, result string, args ...string) {
	line := fn + "\t" + strings.Join(args, "\t")
	c.w.WriteString(line)
	c.w.WriteString("\t=>\t")
	c.w.WriteString(result)
	c.w.WriteString("\n")
	c.n++
	c.count("fn:" + fn)
	if !c.seen[line] {
		c.seen[line] = true
		if nontrivial {
			c.nontrivial++
		}
	}
	if len(c.sample) < 6 && (c.n%97 == 1) {
		s := line + " => " + result
		if len(s) > 300 {
			s = s[:300] + "..."
		}
		c.sample = append(c.sample, s)
	}
}

// violate records a property-level failure observed directly on the implementation.
// key identifies the specific failing input (used for known-findings matching).
func (c *ctx) violate(key, what, detail string) {
	for _, v := range c.violations {
		if v["key"] == key {
			return
		}
	}
	if len(c.violations) < 50 {
		c.violations = append(c.violations, map[string]string{"key": key, "what": what, "detail": detail})
	}
}

// note records one execution that has no model line (an end-to-end run judged by direct
// oracles only); it counts towards evaluations and the samples.
func (c *ctx) note(nontrivial bool, desc string) {
	c.n++
	if !c.seen[desc] {
		c.seen[desc] = true
		if nontrivial {
			c.nontrivial++
		}
	}
	if len(c.sample) < 6 && (c.n%17 == 1) {
		if len(desc) > 300 {
			desc = desc[:300] + "..."
		}
		c.sample = append(c.sample, desc)
	}
}

func hx(b []byte) string {
	if len(b) == 0 {
		return "-"
	}
	return hex.EncodeToString(b)
}

func hxs(bs [][]byte) string {
	if len(bs) == 0 {
		return "-"
	}
	parts := make([]string, len(bs))
	for i, b := range bs {
		parts[i] = hx(b)
	}
	return strings.Join(parts, ",")
}

func ints(v []int) string {
	if len(v) == 0 {
		return "-"
	}
	parts := make([]string, len(v))
	for i, x := range v {
		parts[i] = strconv.Itoa(x)
	}
	return strings.Join(parts, ",")
}

// split cuts b into non-empty chunks at random points; mean chunk length ~ mean.
func (c *ctx) split(b []byte, mean int) [][]byte {
	var out [][]byte
	for len(b) > 0 {
		n := 1
		if mean > 1 {
			n = 1 + int(c.rng.ExpFloat64()*float64(mean-1)+0.5)
		}
		if n > len(b) {
			n = len(b)
		}
		out = append(out, append([]byte(nil), b[:n]...))
		b = b[n:]
	}
	return out
}

// allSplits enumerates every segmentation of b into non-empty chunks (2^(n-1)).
func allSplits(b []byte, f func([][]byte)) {
	n := len(b)
	if n == 0 {
		f(nil)
		return
	}
	for mask := 0; mask < 1<<(n-1); mask++ {
		var out [][]byte
		start := 0
		for i := 0; i < n-1; i++ {
			if mask&(1<<i) != 0 {
				out = append(out, b[start:i+1])
				start = i + 1
			}
		}
		out = append(out, b[start:])
		f(out)
	}
}

func main() {
	if len(os.Args) != 6 {
		fmt.Fprintln(os.Stderr, "usage: corr <group> <seed> <tier> <cases-out> <stats-out>")
		os.Exit(2)
	}
	g, ok := groups[os.Args[1]]
	if !ok {
		var names []string
		for k := range groups {
			names = append(names, k)
		}
		sort.Strings(names)
		fmt.Fprintf(os.Stderr, "unknown group %s (have %v)\n", os.Args[1], names)
		os.Exit(2)
	}
	os.Unsetenv("TMUX")
	os.Unsetenv("TMUX_PANE")
	seed, _ := strconv.ParseInt(os.Args[2], 10, 64)
	f, err := os.Create(os.Args[4])
	if err != nil {
		panic(err)
	}
	c := &ctx{rng: rand.New(rand.NewSource(seed)), tier: os.Args[3], w: bufio.NewWriterSize(f, 1<<20),
		stats: map[string]int{}, seen: map[string]bool{}}
	devnull, _ := os.OpenFile("/dev/null", os.O_WRONLY, 0)
	if devnull != nil {
		os.Stdout = devnull
	}
	c.finish = func() {
		c.w.Flush()
		f.Close()
		st := map[string]any{"evaluations": c.n, "distinct": len(c.seen), "distinct_nontrivial": c.nontrivial,
			"distribution": c.stats, "samples": c.sample, "violations": c.violations}
		js, _ := json.MarshalIndent(st, "", " ")
		os.WriteFile(os.Args[5], js, 0644)
	}
	g(c)
	c.finish()
}
