package main

// C20, the session around the progress bar: the terminal width is state of the client session
// (filter.options.TerminalColumns), copied into the bar of every new transfer and changed by
// SetTerminalColumns at any moment.  "The progress line never exceeds the width" is therefore
// a statement about histories of {resize, start of a transfer, callbacks of the running
// transfer, stop prompt, end of the transfer}, not about one bar.
//
//   group progress-session      a bare TrzszFilter (export: VerifSession) driven through random
//                               histories with the REAL SetTerminalColumns, createProgressBar,
//                               resetProgressBar, confirmStopTransfer and bar callbacks; every
//                               write compared with Model/Progress.v sess_step; direct oracles.
//   group progress-session-e2e  the real client (NewTrzszFilter over pipes) through sessions of
//                               consecutive real trz/tsz transfers with resizes at chosen
//                               moments and a stop prompt; what reaches the terminal is measured.

import (
	"bytes"
	"fmt"
	"io"
	"math/rand"
	"os"
	"os/exec"
	"path/filepath"
	"regexp"
	"strings"
	"sync"
	"time"

	"github.com/trzsz/trzsz-go/trzsz"
)

func init() {
	groups["progress-session"] = genProgressSession
	groups["progress-session-e2e"] = genProgressSessionE2E
}

const c20HideCursor = "\x1b[?25l"
const c20ShowCursor = "\x1b[?25h"

var c20CursorBack = regexp.MustCompile(`^\x1b\[-?\d+D`)

// c20SplitWrites cuts what one event wrote into hide/show-cursor sequences and at most one
// progress line (returned without its redraw prefix as text; "" = none).
func c20SplitWrites(out string, first bool) (parts []string, text string, ok bool) {
	rest := out
	ok = true
	for rest != "" {
		switch {
		case strings.HasPrefix(rest, c20HideCursor):
			parts = append(parts, c20Runes(c20HideCursor))
			rest = rest[len(c20HideCursor):]
		case strings.HasPrefix(rest, c20ShowCursor):
			parts = append(parts, c20Runes(c20ShowCursor))
			rest = rest[len(c20ShowCursor):]
		default:
			// a progress line runs to the end of this event's output (it may itself contain
			// escape sequences of the file name), possibly followed by cursor sequences the
			// SAME event wrote afterwards (prompt close: none; onNum: before)
			line := rest
			tail := ""
			for _, suf := range []string{c20HideCursor, c20ShowCursor} {
				if strings.HasSuffix(line, suf) {
					line, tail = line[:len(line)-len(suf)], suf
				}
			}
			parts = append(parts, c20Runes(line))
			text = line
			if !first {
				if strings.HasPrefix(text, "\r") {
					text = text[1:]
				} else if m := c20CursorBack.FindString(text); m != "" {
					text = text[len(m):]
				} else {
					ok = false
				}
			}
			if tail != "" {
				parts = append(parts, c20Runes(tail))
			}
			rest = ""
		}
	}
	return
}

func genProgressSession(c *ctx) {
	base := int64(1646564135000)
	cur := base
	restore := trzsz.VerifSetTimeNow(func() time.Time { return time.UnixMilli(cur) })
	defer restore()

	// the history of the second seeded change, exactly: 120 columns, a resize to 60 while the
	// first transfer runs, then a second transfer
	c.c20SessionHistory(&cur, base, 120, []c20Ev{
		{kind: "B", pane: -1}, {kind: "T", tick: "N", z: 1}, {kind: "T", tick: "M", s: "first_file_with_a_fairly_long_name.bin"},
		{kind: "T", tick: "Z", z: 307200}, {kind: "T", tick: "S", z: 32768}, {kind: "R", z: 60}, {kind: "T", tick: "S", z: 131072},
		{kind: "T", tick: "D"}, {kind: "E"},
		{kind: "B", pane: -1}, {kind: "T", tick: "N", z: 1}, {kind: "T", tick: "M", s: "second_file_with_a_fairly_long_name.bin"},
		{kind: "T", tick: "Z", z: 307200}, {kind: "T", tick: "S", z: 32768}, {kind: "T", tick: "D"}, {kind: "E"},
	}, "two-transfers-resize-in-first")
	// the same resize, then the stop prompt answered with "continue" in the same transfer
	c.c20SessionHistory(&cur, base, 120, []c20Ev{
		{kind: "B", pane: -1}, {kind: "T", tick: "N", z: 1}, {kind: "T", tick: "M", s: "a_file_with_a_fairly_long_name.bin"},
		{kind: "T", tick: "Z", z: 307200}, {kind: "T", tick: "S", z: 32768}, {kind: "R", z: 60}, {kind: "O"}, {kind: "K"},
		{kind: "T", tick: "S", z: 131072}, {kind: "T", tick: "D"}, {kind: "E"},
	}, "resize-then-stop-prompt-continue")
	// a resize while the stop prompt is open, then "continue"
	c.c20SessionHistory(&cur, base, 100, []c20Ev{
		{kind: "B", pane: -1}, {kind: "T", tick: "N", z: 1}, {kind: "T", tick: "M", s: "a_file_with_a_fairly_long_name.bin"},
		{kind: "T", tick: "Z", z: 307200}, {kind: "T", tick: "S", z: 32768}, {kind: "O"}, {kind: "R", z: 45}, {kind: "K"},
		{kind: "T", tick: "S", z: 131072}, {kind: "T", tick: "D"}, {kind: "E"},
	}, "resize-while-stop-prompt-open")
	// a transfer that announces a tmux pane, resized, then one that does not
	c.c20SessionHistory(&cur, base, 120, []c20Ev{
		{kind: "B", pane: 80}, {kind: "T", tick: "N", z: 1}, {kind: "T", tick: "M", s: "in_a_pane.bin"}, {kind: "T", tick: "Z", z: 5000},
		{kind: "T", tick: "S", z: 100}, {kind: "R", z: 50}, {kind: "T", tick: "S", z: 2000}, {kind: "T", tick: "D"}, {kind: "E"},
		{kind: "B", pane: 80}, {kind: "T", tick: "N", z: 1}, {kind: "T", tick: "M", s: "pane_wider_than_terminal.bin"}, {kind: "T", tick: "Z", z: 5000},
		{kind: "T", tick: "S", z: 100}, {kind: "T", tick: "D"}, {kind: "E"},
	}, "pane-then-resize-then-pane-wider-than-terminal")
	// widening instead of shrinking
	c.c20SessionHistory(&cur, base, 60, []c20Ev{
		{kind: "B", pane: -1}, {kind: "T", tick: "N", z: 1}, {kind: "T", tick: "M", s: "a.bin"}, {kind: "T", tick: "Z", z: 1000},
		{kind: "R", z: 120}, {kind: "T", tick: "S", z: 10}, {kind: "T", tick: "D"}, {kind: "E"},
		{kind: "B", pane: -1}, {kind: "T", tick: "N", z: 1}, {kind: "T", tick: "M", s: "b.bin"}, {kind: "T", tick: "Z", z: 1000},
		{kind: "T", tick: "S", z: 10}, {kind: "T", tick: "D"}, {kind: "E"},
	}, "two-transfers-widen-in-first")

	for i := 0; i < c.pick(500, 8000); i++ {
		c.c20SessionHistory(&cur, base, 0, nil, "random")
	}
}

func c20NameDesc(s string) string {
	for _, r := range s {
		if r < 32 || r > 126 {
			return "runes:" + c20Runes(s)
		}
	}
	return fmt.Sprintf("%q", s)
}

type c20Ev struct {
	kind  string // R resize, B begin transfer, T tick, O prompt open, K prompt close (continue), E end of transfer
	z     int64  // R: columns; T: the number of the tick
	quiet bool   // B
	pane  int32  // B
	tick  string // T: N M Z S D P U
	s     string // T M: the name
}

func (c *ctx) c20RandomSession() (int, []c20Ev) {
	width := func() int64 {
		switch c.rng.Intn(10) {
		case 0:
			return int64(1 + c.rng.Intn(12))
		case 1:
			return 5
		case 2:
			return int64([]int{24, 29, 30, 40, 41, 79, 80, 81, 120, 250}[c.rng.Intn(10)])
		}
		return int64(20 + c.rng.Intn(200))
	}
	cols := int(width())
	var evs []c20Ev
	resize := func(p int) {
		if c.rng.Intn(p) == 0 {
			evs = append(evs, c20Ev{kind: "R", z: width()})
		}
	}
	ntrans := 1 + c.rng.Intn(3)
	for tr := 0; tr < ntrans; tr++ {
		resize(3) // while idle
		if c.rng.Intn(12) == 0 {
			evs = append(evs, c20Ev{kind: "T", tick: "S", z: int64(c.rng.Intn(100))}) // a stray callback without a bar
		}
		pane := int32(-1)
		if c.rng.Intn(4) == 0 {
			pane = int32([]int{0, 1, 2, 6, 24, 40, 80, 200, 300, 100000}[c.rng.Intn(10)])
		}
		evs = append(evs, c20Ev{kind: "B", quiet: c.rng.Intn(12) == 0, pane: pane})
		resize(4)
		nfiles := 1 + c.rng.Intn(2)
		evs = append(evs, c20Ev{kind: "T", tick: "N", z: int64(nfiles)})
		for f := 0; f < nfiles; f++ {
			resize(6)
			evs = append(evs, c20Ev{kind: "T", tick: "M", s: c.c20Name()})
			size := int64(1) + c.rng.Int63n(int64(1)<<uint(1+c.rng.Intn(30)))
			evs = append(evs, c20Ev{kind: "T", tick: "Z", z: size})
			pos := int64(0)
			prompt := false
			for k := 0; k < c.rng.Intn(7); k++ {
				resize(4)
				if !prompt && c.rng.Intn(9) == 0 {
					evs = append(evs, c20Ev{kind: "O"})
					prompt = true
				} else if prompt && c.rng.Intn(2) == 0 {
					evs = append(evs, c20Ev{kind: "K"})
					prompt = false
				}
				if c.rng.Intn(10) == 0 && !prompt {
					evs = append(evs, c20Ev{kind: "T", tick: "U", z: int64(c.rng.Intn(2))})
				}
				if size > pos {
					pos += c.rng.Int63n(size - pos + 1)
				}
				evs = append(evs, c20Ev{kind: "T", tick: "S", z: pos})
			}
			if prompt {
				resize(2)
				evs = append(evs, c20Ev{kind: "K"})
			}
			resize(6)
			if c.rng.Intn(6) != 0 {
				evs = append(evs, c20Ev{kind: "T", tick: "D"})
			}
		}
		resize(5)
		evs = append(evs, c20Ev{kind: "E"})
	}
	resize(3)
	return cols, evs
}

// one session history on the real filter: every write compared with the model, and the
// model-independent oracles
func (c *ctx) c20SessionHistory(clk *int64, base int64, cols int, evs []c20Ev, label string) {
	if evs == nil {
		cols, evs = c.c20RandomSession()
	}
	s := trzsz.VerifNewSession(int32(cols))
	var probe *trzsz.VerifProgress // a 2000 column bar in lockstep with the live one: shows the real total/speed/ETA texts
	t := c20NewTabs()
	now := base
	*clk = now
	curWidth := cols // the most recent width the session was told: the ground truth of the oracles
	first := true    // the live bar has not written a line yet
	name := ""
	desc := fmt.Sprintf("session(%s): NewTrzszFilter(TerminalColumns=%d)", label, cols)
	var enc, outs []string
	transfers, resizesLive, prompts := 0, 0, 0
	inPrompt := false
	paneMode := false // the live bar was created for an announced tmux pane and has not been resized since
	for _, e := range evs {
		switch c.rng.Intn(6) {
		case 0:
			now += int64(c.rng.Intn(200))
		case 1:
		default:
			now += 200 + int64(c.rng.Intn(3000))
		}
		*clk = now
		fields := []string{"", "", "", ""}
		var evStr string
		pan, msg := c20Recover(func() {
			switch e.kind {
			case "R":
				desc += fmt.Sprintf(" SetTerminalColumns(%d)", e.z)
				if s.HasBar() {
					resizesLive++
				}
				s.SetTerminalColumns(int32(e.z))
				curWidth = int(e.z)
				paneMode = false
				evStr = fmt.Sprintf("R~%d", e.z)
			case "B":
				desc += fmt.Sprintf(" createProgressBar(quiet=%v, pane=%d)", e.quiet, e.pane)
				s.Start(e.quiet, e.pane)
				paneMode = e.pane > 1 && int(e.pane) <= curWidth
				probe = trzsz.VerifNewProgress(2000, 0, "")
				first = true
				transfers++
				q := 0
				if e.quiet {
					q = 1
				}
				evStr = fmt.Sprintf("B~%d~%d", q, e.pane)
			case "E":
				desc += " resetProgressBar()"
				s.End()
				evStr = "E"
			case "O":
				desc += " stop-prompt-opens"
				if !s.PromptOpen() {
					panic("harness: the stop prompt did not open")
				}
				if probe != nil {
					probe.SetPause(true)
				}
				inPrompt = true
				prompts++
				evStr = "O"
			case "K":
				desc += " stop-prompt-answered-continue"
				if !s.PromptContinue() {
					panic("harness: the stop prompt did not close")
				}
				if probe != nil {
					probe.SetPause(false)
					probe.TakeOutput()
				}
				inPrompt = false
				evStr = "K"
			case "T":
				bar := s.Bar()
				call := func(q *trzsz.VerifProgress, isProbe bool) {
					switch e.tick {
					case "N":
						if !isProbe {
							q.OnNum(e.z)
						}
					case "M":
						if isProbe {
							q.OnName("")
						} else {
							q.OnName(e.s)
						}
					case "Z":
						q.OnSize(e.z)
					case "S":
						q.OnStep(e.z)
					case "D":
						q.OnDone()
					case "P":
						q.SetPreSize(e.z)
					case "U":
						q.SetPause(e.z == 1)
					}
				}
				if probe != nil && s.HasBar() {
					probe.TakeOutput()
					call(probe, true)
					if pout := probe.TakeOutput(); strings.Contains(pout, "]") {
						if f := c20Fields(strings.TrimPrefix(strings.ReplaceAll(pout, c20HideCursor, ""), "\r")); f != nil {
							fields = f
						}
					}
				}
				call(bar, false)
				switch e.tick {
				case "M":
					name = e.s
					evStr = "T~M:" + c20Runes(e.s)
					desc += fmt.Sprintf(" onName(%s)", c20NameDesc(e.s))
				case "S":
					evStr = fmt.Sprintf("T~S:%d:%d:%s:%s:%s", e.z, now, c20Runes(fields[1]), c20Runes(fields[2]), c20Runes(fields[3]))
					desc += fmt.Sprintf(" onStep(%d)@+%dms", e.z, now-base)
				case "D":
					evStr = fmt.Sprintf("T~D:%d:%s:%s:%s", now, c20Runes(fields[1]), c20Runes(fields[2]), c20Runes(fields[3]))
					desc += fmt.Sprintf(" onDone()@+%dms", now-base)
				default:
					evStr = fmt.Sprintf("T~%s:%d", e.tick, e.z)
					desc += fmt.Sprintf(" %s(%d)", map[string]string{"N": "onNum", "Z": "onSize", "P": "setPreSize", "U": "setPause"}[e.tick], e.z)
				}
			}
		})
		enc = append(enc, evStr)
		if pan {
			c.violate("session:panic", "the session panics", desc+": panic: "+msg)
			outs = append(outs, "panic")
			break
		}
		out := s.TakeOutput()
		if s.HasBar() {
			cnt, idx, _, _, _, _, _ := s.Bar().State()
			t.addLeft(c, cnt, idx, name)
		}
		if e.kind == "O" || inPrompt {
			// the prompt's own frames go to the same terminal; the bar is paused and writes nothing
			if s.HasBar() && (strings.Contains(out, "█") || strings.Contains(out, "░")) {
				c.violate("session:line-while-prompt", "a progress line is drawn while the stop prompt is open", desc+fmt.Sprintf(" out=%q", out))
			}
			out = ""
		}
		if e.kind == "K" {
			// the prompt goroutine's last frames, then the bar's hide-cursor when it is un-paused
			if i := strings.LastIndex(out, c20HideCursor); s.HasBar() && i >= 0 && i+len(c20HideCursor) == len(out) {
				out = c20HideCursor
			} else if s.HasBar() {
				out = "?" + out
			} else {
				out = ""
			}
		}
		parts, text, ok := c20SplitWrites(out, first)
		if !ok {
			c.violate("session:redraw-prefix", "a later progress line starts with neither \\r nor a cursor-back sequence", desc+fmt.Sprintf(" out=%q", out))
		}
		if text != "" {
			first = false
			c.count("session:line-written")
			// ORACLE (model-independent): what is drawn fits the width the session was told last
			if w := c20Width(text); curWidth >= 5 && w > curWidth {
				c.violate("session-width:line-wider-than-current-width", "a progress line is wider than the most recent terminal width of the session",
					fmt.Sprintf("%s: current width %d, the line is %d columns wide: %q", desc, curWidth, w, c20Strip(text)))
			}
		}
		// ORACLES on the width state itself
		if got := int(s.SessionColumns()); got != curWidth {
			c.violate("session-width:resize-not-remembered", "the session does not remember the most recent terminal width",
				fmt.Sprintf("%s: told %d, options.TerminalColumns=%d", desc, curWidth, got))
		}
		if s.HasBar() {
			_, _, _, _, _, bcols, _ := s.Bar().State()
			switch {
			case e.kind == "R" && int(bcols) != curWidth:
				c.violate("session-width:resize-not-applied-to-bar", "a resize during a transfer does not reach the progress bar",
					fmt.Sprintf("%s: told %d, the bar lays out for %d", desc, curWidth, bcols))
			case e.kind == "B" && (e.pane <= 1 || int(e.pane) > curWidth) && int(bcols) != curWidth:
				c.violate("session-width:new-bar-not-at-current-width", "the bar of a new transfer is not laid out for the current terminal width",
					fmt.Sprintf("%s: current width %d, the bar lays out for %d", desc, curWidth, bcols))
			case e.kind == "K" && !paneMode && int(bcols) != curWidth:
				c.violate("session-width:stale-after-prompt", "after the stop prompt the bar is not laid out for the current terminal width",
					fmt.Sprintf("%s: current width %d, the bar lays out for %d", desc, curWidth, bcols))
			case int(bcols) > curWidth:
				c.violate("session-width:bar-wider-than-terminal", "the live bar is laid out for more columns than the terminal has",
					fmt.Sprintf("%s: current width %d, the bar lays out for %d", desc, curWidth, bcols))
			}
		}
		if len(parts) == 0 {
			outs = append(outs, ".")
		} else {
			outs = append(outs, strings.Join(parts, "+"))
		}
	}
	state := fmt.Sprintf("%d;", s.SessionColumns())
	if s.HasBar() {
		cnt, idx, fstep, fsize, pre, bcols, btmux := s.Bar().State()
		state += fmt.Sprintf("%d,%d,%d,%d,%d,%d,%d", fstep, fsize, pre, idx, cnt, bcols, btmux)
	} else {
		state += "nobar"
	}
	if transfers >= 2 {
		c.count("session:two-or-more-transfers")
	}
	if resizesLive > 0 {
		c.count("session:resize-during-transfer")
	}
	if resizesLive > 0 && transfers >= 2 {
		c.count("session:resize-during-transfer-then-another-transfer")
	}
	if prompts > 0 {
		c.count("session:stop-prompt")
	}
	c.emit(resizesLive > 0 || transfers >= 2, "psess", strings.Join(outs, "/")+"|"+state, fmt.Sprint(cols), strings.Join(enc, "/"), t.wArg(), t.swArg())
}

// ---------------------------------------------------------------------------------------
// end to end: one client session, several real transfers, resizes and a stop prompt

type c20Term struct {
	mu     sync.Mutex
	writes []string
}

func (o *c20Term) Write(p []byte) (int, error) {
	o.mu.Lock()
	defer o.mu.Unlock()
	o.writes = append(o.writes, string(p))
	return len(p), nil
}
func (o *c20Term) Close() error { return nil }
func (o *c20Term) take() []string {
	o.mu.Lock()
	defer o.mu.Unlock()
	w := o.writes
	o.writes = nil
	return w
}

var c20AnyCSI = regexp.MustCompile(`\x1b\[[0-9;?]*[A-Za-z]|\x1b7|\x1b8`)
var c20PctField = regexp.MustCompile(`\d+%`)

// the visible text of the progress lines among what reached the terminal
func c20ProgressLines(writes []string) []string {
	var lines []string
	for _, w := range writes {
		text := strings.ReplaceAll(c20AnyCSI.ReplaceAllString(w, ""), "\r", "")
		if strings.Contains(text, "TRZSZ") || strings.Contains(text, "\n") || !c20PctField.MatchString(text) {
			continue
		}
		if strings.Contains(text, "c20_") || strings.Contains(text, "[") {
			lines = append(lines, text)
		}
	}
	return lines
}

type c20E2EStep struct {
	upload      bool
	resizeIdle  int  // > 0: resize while no transfer runs, before this one
	resizeAt    int  // > 0: resize while this transfer runs, when the data direction has carried this many times 10000 bytes
	resizeTo    int  // the width of that resize
	prompt      bool // Ctrl-C, then (after the resize, if any) "continue", while the link is held
	resizeFirst bool // the resize comes before the prompt opens instead of while it is open
}

type c20E2EScenario struct {
	name  string
	cols  int
	steps []c20E2EStep
}

func genProgressSessionE2E(c *ctx) {
	scenarios := []c20E2EScenario{
		{"download-resize-shrink,download", 120, []c20E2EStep{{resizeAt: 4, resizeTo: 60}, {}}},
		{"download-resize-widen,download", 60, []c20E2EStep{{resizeAt: 4, resizeTo: 120}, {}}},
		{"upload-resize-shrink,download", 110, []c20E2EStep{{upload: true, resizeAt: 4, resizeTo: 50}, {}}},
		{"download-resize-then-prompt-continue", 120, []c20E2EStep{{resizeAt: 4, resizeTo: 60, prompt: true, resizeFirst: true}}},
		{"download-prompt-resize-continue,download", 100, []c20E2EStep{{resizeAt: 4, resizeTo: 45, prompt: true}, {}}},
		{"download,idle-resize,download-resize,upload", 90, []c20E2EStep{{}, {resizeIdle: 70, resizeAt: 3, resizeTo: 40}, {upload: true}}},
	}
	if c.thorough() {
		for i := 0; i < 12; i++ {
			sc := c20E2EScenario{name: fmt.Sprintf("random-%d", i), cols: 30 + c.rng.Intn(150)}
			for k := 0; k < 2+c.rng.Intn(2); k++ {
				st := c20E2EStep{upload: c.rng.Intn(3) == 0}
				if c.rng.Intn(3) == 0 {
					st.resizeIdle = 30 + c.rng.Intn(150)
				}
				if c.rng.Intn(2) == 0 {
					st.resizeAt, st.resizeTo = 2+c.rng.Intn(6), 30+c.rng.Intn(150)
					st.prompt, st.resizeFirst = c.rng.Intn(3) == 0, c.rng.Intn(2) == 0
				}
				sc.steps = append(sc.steps, st)
			}
			scenarios = append(scenarios, sc)
		}
	}
	root, err := os.MkdirTemp("", "c20e2e")
	if err != nil {
		panic(err)
	}
	defer os.RemoveAll(root)
	type result struct {
		sc    c20E2EScenario
		enc   []string
		got   []string
		viol  [][3]string
		fail  string
		lines int
	}
	results := make([]result, len(scenarios))
	var wg sync.WaitGroup
	sem := make(chan struct{}, 6)
	for i, sc := range scenarios {
		wg.Add(1)
		go func(i int, sc c20E2EScenario) {
			defer wg.Done()
			sem <- struct{}{}
			defer func() { <-sem }()
			r := result{sc: sc}
			r.enc, r.got, r.viol, r.fail, r.lines = c20RunE2ESession(filepath.Join(root, fmt.Sprint(i)), sc)
			results[i] = r
		}(i, sc)
	}
	wg.Wait()
	for _, r := range results {
		for _, v := range r.viol {
			c.violate(v[0], v[1], v[2])
		}
		if r.fail != "" {
			c.violate("session-e2e:harness:"+r.sc.name, "the end-to-end session did not complete", r.fail)
			continue
		}
		c.count("e2e:sessions")
		c.stats["e2e:lines-measured"] += r.lines
		got := "-"
		if len(r.got) > 0 {
			got = strings.Join(r.got, ",")
		}
		c.emit(true, "psess_widths", got, fmt.Sprint(r.sc.cols), strings.Join(r.enc, "/"))
	}
}

// c20RunE2ESession runs one client session; it returns the abstract history (for the model),
// the measured width of every progress line drawn with a bar, the violations and a failure text.
func c20RunE2ESession(dir string, sc c20E2EScenario) (enc []string, got []string, viol [][3]string, fail string, nlines int) {
	src, dst := filepath.Join(dir, "src"), filepath.Join(dir, "dst")
	for _, d := range []string{src, dst, filepath.Join(dir, "up")} {
		if err := os.MkdirAll(d, 0755); err != nil {
			return nil, nil, nil, err.Error(), 0
		}
	}
	cliInR, cliInW := io.Pipe()
	svrOutR, svrOutW := io.Pipe()
	defer cliInW.Close()
	defer svrOutW.Close()
	term := &c20Term{}
	var childMu sync.Mutex
	var childIn io.WriteCloser
	// the direction that carries the file data is counted and can be held
	var hookMu sync.Mutex
	var hook func(dir int, idx int)
	counts := [2]int{}
	callHook := func(d int, nbytes int) {
		hookMu.Lock()
		counts[d] += nbytes
		h, i := hook, counts[d]
		hookMu.Unlock()
		if h != nil {
			h(d, i)
		}
	}
	serverIn := c20WriterFunc(func(p []byte) (int, error) {
		callHook(dirC2S, len(p))
		childMu.Lock()
		w := childIn
		childMu.Unlock()
		if w == nil {
			return len(p), nil
		}
		if _, err := w.Write(p); err != nil {
			return len(p), nil // the child is gone; the client will notice by itself
		}
		return len(p), nil
	})
	filter := trzsz.NewTrzszFilter(cliInR, term, serverIn, svrOutR, trzsz.TrzszOptions{TerminalColumns: int32(sc.cols)})
	filter.SetDefaultDownloadPath(dst)
	cur := sc.cols
	desc := fmt.Sprintf("e2e session %s: NewTrzszFilter(TerminalColumns=%d)", sc.name, sc.cols)
	check := func(writes []string, when string) {
		for _, line := range c20ProgressLines(writes) {
			w := c20Width(line)
			nlines++
			if w > cur && cur >= 5 {
				viol = append(viol, [3]string{"session-width:e2e:line-wider-than-current-width",
					"a progress line that reached the terminal is wider than the most recent terminal width of the session",
					fmt.Sprintf("%s; %s: current width %d, the line is %d columns wide: %q", desc, when, cur, w, line)})
			}
			if strings.Contains(line, "[") && strings.Contains(line, "]") {
				enc = append(enc, "L")
				got = append(got, fmt.Sprint(w))
			}
		}
	}
	for k, st := range sc.steps {
		name := fmt.Sprintf("c20_file_%d_with_a_fairly_long_name.bin", k)
		data := make([]byte, 300*1024) // incompressible: the traffic is then about 400 KB whatever the codec
		rand.New(rand.NewSource(int64(7919*(k+1) + len(sc.name)))).Read(data)
		from := src
		if st.upload {
			from = filepath.Join(dir, "up")
		}
		if err := os.WriteFile(filepath.Join(from, name), data, 0644); err != nil {
			return nil, nil, viol, err.Error(), nlines
		}
		if st.resizeIdle > 0 {
			filter.SetTerminalColumns(int32(st.resizeIdle))
			cur = st.resizeIdle
			enc = append(enc, fmt.Sprintf("R~%d", cur))
			desc += fmt.Sprintf(" [idle] SetTerminalColumns(%d)", cur)
		}
		var cmd *exec.Cmd
		var upCh <-chan error
		if st.upload {
			cmd = exec.Command(filepath.Join(e2eBinDir, "trz"), "-y", dst)
			ch, err := filter.OneTimeUpload([]string{filepath.Join(from, name)})
			if err != nil {
				return nil, nil, viol, "OneTimeUpload: " + err.Error(), nlines
			}
			upCh = ch
			desc += fmt.Sprintf(" transfer %d (upload)", k+1)
		} else {
			cmd = exec.Command(filepath.Join(e2eBinDir, "tsz"), filepath.Join(src, name))
			desc += fmt.Sprintf(" transfer %d (download)", k+1)
		}
		var env []string
		for _, e := range os.Environ() {
			if !strings.HasPrefix(e, "TMUX=") && !strings.HasPrefix(e, "TMUX_PANE=") {
				env = append(env, e)
			}
		}
		cmd.Env = env
		stdin, _ := cmd.StdinPipe()
		stdout, _ := cmd.StdoutPipe()
		dataDir := dirS2C
		if st.upload {
			dataDir = dirC2S
		}
		resized := make(chan struct{})
		var once sync.Once
		hookMu.Lock()
		counts = [2]int{}
		hook = nil
		if st.resizeAt > 0 {
			hook = func(d, idx int) {
				// idx = bytes carried so far in this direction: the resize point is a byte count (a
				// 300 KiB file makes about 400 KB of traffic), independent of how the writes are cut
				if d != dataDir || idx < st.resizeAt*10000 {
					return
				}
				once.Do(func() {
					// the link is held here: let the client finish what it has, so that no line is
					// being laid out while the width changes
					time.Sleep(60 * time.Millisecond)
					before := term.take()
					check(before, fmt.Sprintf("transfer %d before its resize", k+1))
					if st.prompt && !st.resizeFirst {
						cliInW.Write([]byte{0x03})
						time.Sleep(250 * time.Millisecond)
						enc = append(enc, "O")
						desc += " Ctrl-C(stop prompt opens)"
					}
					filter.SetTerminalColumns(int32(st.resizeTo))
					cur = st.resizeTo
					enc = append(enc, fmt.Sprintf("R~%d", cur))
					desc += fmt.Sprintf(" [during transfer %d] SetTerminalColumns(%d)", k+1, cur)
					if st.prompt && st.resizeFirst {
						cliInW.Write([]byte{0x03})
						time.Sleep(250 * time.Millisecond)
						enc = append(enc, "O")
						desc += " Ctrl-C(stop prompt opens)"
					}
					if st.prompt {
						for _, key := range []byte{'j', 'j', '\r'} {
							cliInW.Write([]byte{key})
							time.Sleep(40 * time.Millisecond)
						}
						time.Sleep(150 * time.Millisecond)
						term.take() // the prompt's own frames
						enc = append(enc, "K")
						desc += " j j Enter(continue)"
					}
					close(resized)
				})
			}
		}
		hookMu.Unlock()
		if err := cmd.Start(); err != nil {
			return nil, nil, viol, "start: " + err.Error(), nlines
		}
		childMu.Lock()
		childIn = stdin
		childMu.Unlock()
		enc = append(enc, "B~0~-1")
		pumpDone := make(chan struct{})
		go func() {
			defer close(pumpDone)
			buf := make([]byte, 32*1024)
			for {
				n, err := stdout.Read(buf)
				if n > 0 {
					callHook(dirS2C, n)
					svrOutW.Write(append([]byte(nil), buf[:n]...))
				}
				if err != nil {
					return
				}
			}
		}()
		exited := make(chan struct{})
		go func() { <-pumpDone; cmd.Wait(); close(exited) }()
		deadline := time.After(40 * time.Second)
		select {
		case <-exited:
		case <-deadline:
			cmd.Process.Kill()
			<-exited
			return nil, nil, viol, fmt.Sprintf("%s: transfer %d hung", desc, k+1), nlines
		}
		if upCh != nil {
			select {
			case err := <-upCh:
				if err != nil {
					return nil, nil, viol, fmt.Sprintf("%s: upload failed: %v", desc, err), nlines
				}
			case <-time.After(10 * time.Second):
				return nil, nil, viol, fmt.Sprintf("%s: upload result never arrived", desc), nlines
			}
		}
		for i := 0; i < 5000 && filter.IsTransferringFiles(); i++ {
			time.Sleep(2 * time.Millisecond)
		}
		if filter.IsTransferringFiles() {
			return nil, nil, viol, fmt.Sprintf("%s: the client never left transfer %d", desc, k+1), nlines
		}
		time.Sleep(50 * time.Millisecond)
		childMu.Lock()
		childIn = nil
		childMu.Unlock()
		if st.resizeAt > 0 {
			select {
			case <-resized:
			default:
				return nil, nil, viol, fmt.Sprintf("%s: transfer %d was over before its resize point (%d bytes)", desc, k+1, st.resizeAt*10000), nlines
			}
		}
		where := dst
		if got, err := os.ReadFile(filepath.Join(where, name)); err != nil || !bytes.Equal(got, data) {
			return nil, nil, viol, fmt.Sprintf("%s: transfer %d did not deliver the file (%v)", desc, k+1, err), nlines
		}
		check(term.take(), fmt.Sprintf("transfer %d", k+1))
		enc = append(enc, "E")
	}
	return enc, got, viol, "", nlines
}

type c20WriterFunc func(p []byte) (int, error)

func (f c20WriterFunc) Write(p []byte) (int, error) { return f(p) }
func (f c20WriterFunc) Close() error                { return nil }
