package main

// C12, correspondence group "guards": the checks in front of every allocation and of the
// progress position, run on the REAL functions (pipelineRecvBinaryData, recvData,
// recvPrefixHash, recvConfig, pipelineRecvCurrentAck, pipelineRecvFinalAck,
// createProgressBar/newTextProgressBar, recvInteger, parseTrzszVersion,
// unmarshalTargetFile) and compared with Model/Guards.v on the same numerals.

import (
	"bytes"
	"crypto/md5"
	"encoding/hex"
	"encoding/json"
	"fmt"
	"math"
	"math/big"
	"os"
	"path/filepath"
	"strconv"
	"strings"
	"syscall"
	"unicode/utf8"

	"github.com/trzsz/trzsz-go/trzsz"
)

func init() { groups["guards"] = genGuards }

var c12Numerals = []string{
	"-9223372036854775809", "-9223372036854775808", "-9223372036854775807", "-4611686018427387904", "-2147483649",
	"-2147483648", "-2147483647", "-1", "-0", "0", "+0", "1", "+1", "2", "12", "100", "250", "10239", "10240", "10241",
	"20480", "20481", "65535", "65536", "2147483646", "2147483647", "2147483648", "2147483649", "4294967295", "4294967296",
	"8589934592", "50000000", "4611686018427387903", "4611686018427387904", "4611686018427387905", "9223372036854775806",
	"9223372036854775807", "9223372036854775808", "9223372036854775809", "18446744073709551615", "18446744073709551616",
	"99999999999999999999999999999999999999", "0000000000000000000000000000000000000012", "-00012", "00012",
	"", "-", "+", "--1", "+-1", "-+1", "abc", "1a", "a1", "1_000", " 1", "1 ", "0x10", "1.5", "1e3", "1E3", ".5", "1.", "NaN", "Inf",
	"\xef\xbc\x91", "\xd9\xa1", "1\x00", "true", "null", "[1]", "\"5\"",
}

func c12RandNumeral(c *ctx) string {
	switch c.rng.Intn(6) {
	case 0:
		return c12Numerals[c.rng.Intn(len(c12Numerals))]
	case 1: // near a power of two
		v := new(big.Int).Lsh(big.NewInt(1), uint(c.rng.Intn(65)))
		v.Add(v, big.NewInt(int64(c.rng.Intn(5)-2)))
		if c.rng.Intn(2) == 0 {
			v.Neg(v)
		}
		return v.String()
	case 2:
		return strconv.FormatInt(c.rng.Int63()>>uint(c.rng.Intn(63))*int64(1-2*c.rng.Intn(2)), 10)
	case 3: // digit string
		n := 1 + c.rng.Intn(25)
		b := make([]byte, n)
		for i := range b {
			b[i] = byte('0' + c.rng.Intn(10))
		}
		s := string(b)
		if c.rng.Intn(3) == 0 {
			s = "-" + s
		}
		return s
	case 4: // mostly digits with one foreign byte
		n := 1 + c.rng.Intn(8)
		b := make([]byte, n)
		for i := range b {
			b[i] = byte('0' + c.rng.Intn(10))
		}
		alphabet := []byte("+-_. eExX/:#\t\r\x00\x7f\xff9a")
		b[c.rng.Intn(n)] = alphabet[c.rng.Intn(len(alphabet))]
		return string(b)
	default:
		n := c.rng.Intn(6)
		b := make([]byte, n)
		for i := range b {
			b[i] = byte(c.rng.Intn(256))
		}
		return string(b)
	}
}

func c12LineSafe(s string) bool { return !strings.ContainsAny(s, "\n\x03") }

func c12Class(errText string) string {
	switch {
	case errText == "":
		return "ok"
	case strings.HasPrefix(errText, "panic:"):
		return "panic"
	default:
		return "err"
	}
}

func c12MaxData(bufsize int64) int64 {
	b := bufsize
	if b < 10240 {
		b = 10240
	}
	return b * 2 // wraps like the implementation
}

func genGuards(c *ctx) {
	// a runaway allocation (unfixed or mutated tree) must not take the machine down
	lim := syscall.Rlimit{Cur: 12 << 30, Max: 12 << 30}
	_ = syscall.Setrlimit(syscall.RLIMIT_AS, &lim)
	work, _ := os.MkdirTemp("", "c12_guards_")
	defer os.RemoveAll(work)

	// ---- integers: #NUM:<s> through recvInteger ----
	doInt := func(s string) {
		if !c12LineSafe(s) {
			return
		}
		g := trzsz.VerifNewGuardTransfer(false, 10<<20, 2, 1)
		g.Feed([]byte("#NUM:" + s + "\n"))
		v, e := g.RecvInteger("NUM")
		res := "err"
		if e == "" {
			res = "ok:" + strconv.FormatInt(v, 10)
			c.count("int:ok")
		} else {
			c.count("int:err")
		}
		_, perr := strconv.ParseInt(s, 10, 64)
		c.emit(perr != nil || len(s) > 10, "c12_parse_int", res, hx([]byte(s)))
	}
	for _, s := range c12Numerals {
		doInt(s)
	}
	for i := 0; i < c.pick(3000, 60000); i++ {
		doInt(c12RandNumeral(c))
	}

	// ---- per-chunk acknowledgement "<len>/<step>" ----
	doAck := func(a, b string) {
		if !c12LineSafe(a+b) || strings.Contains(a+b, "/") {
			return
		}
		g := trzsz.VerifNewGuardTransfer(false, 10<<20, 2, 1)
		g.Feed([]byte("#SUCC:" + a + "/" + b + "\n"))
		l, st, e := g.RecvCurrentAck()
		res := "err"
		if e == "" {
			res = fmt.Sprintf("ok:%d/%d", l, st)
		}
		c.count("ack:" + c12Class(e))
		c.emit(true, "c12_cur_ack", res, hx([]byte(a)), hx([]byte(b)))
	}
	for _, a := range []string{"0", "10240", "-1", "x", ""} {
		for _, b := range c12Numerals {
			doAck(a, b)
		}
	}
	for i := 0; i < c.pick(500, 10000); i++ {
		doAck(c12RandNumeral(c), c12RandNumeral(c))
	}

	// ---- final acknowledgements ----
	doFinal := func(size int64, lines []string) {
		for _, l := range lines {
			if !c12LineSafe(l) {
				return
			}
		}
		g := trzsz.VerifNewGuardTransfer(false, 10<<20, 2, 1)
		var hs [][]byte
		for _, l := range lines {
			g.Feed([]byte("#SUCC:" + l + "\n"))
			hs = append(hs, []byte(l))
		}
		fw, succ, e := g.RecvFinalAck(size)
		parts := make([]string, len(fw))
		for i, v := range fw {
			parts[i] = strconv.FormatInt(v, 10)
		}
		res := "-"
		if len(parts) > 0 {
			res = strings.Join(parts, ",")
		}
		switch {
		case succ:
			res += ":succ"
		case e != "":
			res += ":cancel"
		default:
			res += ":none"
		}
		c.count("final:" + res[strings.LastIndex(res, ":")+1:])
		// empty line payloads would be "-" = no chunk in the case format: encode with a marker
		c.emit(true, "c12_final_acks", res, strconv.FormatInt(size, 10), hxs(hs))
	}
	for _, size := range []int64{0, 1, 100, 1 << 40, math.MaxInt64, -5} {
		for i := 0; i < c.pick(150, 3000); i++ {
			var lines []string
			for k := c.rng.Intn(4); k > 0; k-- {
				var l string
				switch c.rng.Intn(3) {
				case 0:
					l = strconv.FormatInt(size-int64(c.rng.Intn(3)), 10)
				case 1:
					l = strconv.FormatInt(size+int64(c.rng.Intn(3)), 10) // may wrap for MaxInt64: still a numeral
				default:
					l = c12RandNumeral(c)
				}
				if l == "" {
					l = "0"
				}
				lines = append(lines, l)
			}
			lines = append(lines, strconv.FormatInt(size, 10))
			doFinal(size, lines)
		}
	}

	// ---- CFG numeric fields through recvConfig ----
	jsonLits := append([]string{"absent", "null", "true", "\"5\"", "[1]", "{}", "1.0", "1e3", "-0", "0", "01", "1.5", "-", "--1", "+1"}, c12Numerals...)
	doCfg := func(lits [4]string) {
		keys := [4]string{"bufsize", "tmux_pane_width", "timeout", "protocol"}
		var parts []string
		args := make([]string, 4)
		for i, l := range lits {
			if l == "absent" {
				args[i] = "absent"
				continue
			}
			args[i] = hx([]byte(l))
			if l == "" { // an empty literal makes the document malformed; hx("") is "-": keep it out
				return
			}
			parts = append(parts, fmt.Sprintf("%q:%s", keys[i], l))
		}
		doc := "{" + strings.Join(parts, ",") + "}"
		g := trzsz.VerifNewGuardTransfer(false, 10<<20, 0, 20)
		g.Feed(append(encodeLine("CFG", []byte(doc)), '\n'))
		b, p, t, pr, e := g.RecvConfig()
		res := "err"
		if e == "" {
			res = fmt.Sprintf("ok:%d,%d,%d,%d", b, p, t, pr)
		}
		c.count("cfg:" + c12Class(e))
		c.emit(true, "c12_cfg", res, args...)
	}
	for fi := 0; fi < 4; fi++ {
		for _, l := range jsonLits {
			if l != "absent" && (strings.ContainsAny(l, "\x00\xef\xd9 ") || l == "") {
				continue // raw control / multi-byte junk inside a JSON document: both sides reject, not interesting
			}
			lits := [4]string{"absent", "absent", "absent", "absent"}
			lits[fi] = l
			doCfg(lits)
		}
	}
	for i := 0; i < c.pick(600, 12000); i++ {
		var lits [4]string
		for k := range lits {
			switch c.rng.Intn(4) {
			case 0:
				lits[k] = "absent"
			case 1:
				lits[k] = jsonLits[c.rng.Intn(len(jsonLits))]
			default:
				lits[k] = c12RandNumeral(c)
			}
			if strings.ContainsAny(lits[k], "\x00\xef\xd9\xff\x7f\t\r\n\x03 ") || lits[k] == "" || !utf8.ValidString(lits[k]) {
				lits[k] = "7"
			}
		}
		doCfg(lits)
	}

	// ---- #DATA:<n> in binary mode ----
	zeros := make([]byte, 1<<20)
	doData := func(v1 bool, bufsize int64, s string) {
		if !c12LineSafe(s) {
			return
		}
		n, perr := strconv.ParseInt(s, 10, 64)
		bound := c12MaxData(bufsize)
		if perr == nil && n > int64(len(zeros)) && n <= bound {
			return // would need more payload than the case supplies
		}
		proto := 2
		if v1 {
			proto = 0
		}
		g := trzsz.VerifNewGuardTransfer(true, bufsize, proto, 1)
		g.Feed([]byte("#DATA:" + s + "\n"))
		if perr == nil && n > 0 {
			k := n
			if k > int64(len(zeros)) {
				k = int64(len(zeros))
			}
			g.Feed(zeros[:k])
		}
		var got int
		var e string
		fn := "c12_data_v2"
		if v1 {
			got, e = g.RecvDataV1()
			fn = "c12_data_v1"
		} else {
			got, e = g.RecvBinaryV2()
		}
		res := "rej"
		switch {
		case strings.HasPrefix(e, "panic:"):
			res = "panic"
		case e != "":
			res = "rej"
			if strings.Contains(e, "timeout") {
				res = "blocked" // accepted, waiting for payload that never comes
			}
		case !v1 && got == 0 && perr == nil && n == 0:
			res = "fin"
		default:
			res = "read:" + strconv.Itoa(got)
		}
		c.count("data:" + strings.SplitN(res, ":", 2)[0])
		c.emit(true, fn, res, strconv.FormatInt(bufsize, 10), hx([]byte(s)))
	}
	bufsizes := []int64{0, -5, 1024, 4096, 10239, 10240, 10241, 65536, 10 << 20, 1 << 30, 1 << 62, 1<<62 + 5, math.MaxInt64, math.MinInt64}
	for _, v1 := range []bool{false, true} {
		for _, bs := range bufsizes {
			b := c12MaxData(bs)
			for _, d := range []int64{-2, -1, 0, 1, 2} {
				doData(v1, bs, strconv.FormatInt(b+d, 10))
			}
			for _, s := range c12Numerals {
				doData(v1, bs, s)
			}
		}
	}
	for i := 0; i < c.pick(800, 20000); i++ {
		bs := bufsizes[c.rng.Intn(len(bufsizes))]
		if c.rng.Intn(3) == 0 {
			bs = int64(c.rng.Intn(200000))
		}
		s := c12RandNumeral(c)
		if c.rng.Intn(2) == 0 {
			s = strconv.FormatInt(c12MaxData(bs)+int64(c.rng.Intn(7)-3), 10)
		}
		doData(c.rng.Intn(2) == 0, bs, s)
	}

	// ---- prefix hash records ----
	hashStep := int64(10 << 20)
	var hashSrcSize int64 = -1 // what the peer announced as the size of its file (-1: a little more than the local file)
	doHash := func(fsize int64, steps []int64, goods []bool) {
		path := filepath.Join(work, "h.bin")
		content := make([]byte, fsize)
		c.rng.Read(content)
		os.WriteFile(path, content, 0644)
		g := trzsz.VerifNewGuardTransfer(false, 10<<20, 4, 1)
		for i, st := range steps {
			h := "00"
			if goods[i] && st >= 0 && st <= fsize {
				sum := md5.Sum(content[:st])
				h = hex.EncodeToString(sum[:])
			}
			js, _ := json.Marshal(map[string]any{"step": st, "hash": h})
			g.Feed(append(encodeLine("HASH", js), '\n'))
		}
		g.Feed(append(encodeLine("HASH", []byte(`{"over":true}`)), '\n'))
		srcSize := fsize + 7
		if hashSrcSize >= 0 {
			srcSize = hashSrcSize
		}
		e := g.RecvPrefixHash(path, srcSize)
		var acks []string
		for _, l := range bytes.Split(g.Output(), []byte("\n")) {
			if bytes.HasPrefix(l, []byte("#SUCC:")) {
				js, err := decodeLinePayload(string(l[6:]))
				var a struct {
					Step  int64 `json:"step"`
					Match bool  `json:"match"`
				}
				if err == nil && json.Unmarshal(js, &a) == nil {
					m := "0"
					if a.Match {
						m = "1"
					}
					acks = append(acks, fmt.Sprintf("%d.%s", a.Step, m))
				}
			}
		}
		res := "-"
		if len(acks) > 0 {
			res = strings.Join(acks, ",")
		}
		switch {
		case e == "":
			st, _ := os.Stat(path)
			res += fmt.Sprintf(":ok.%d", st.Size())
		case strings.HasPrefix(e, "panic:"):
			res += ":panic"
		case strings.Contains(e, "Invalid hash step"):
			res += ":invalid"
		case strings.Contains(e, "EOF"):
			res += ":short"
		default:
			res += ":err(" + e + ")"
		}
		c.count("hash:" + res[strings.LastIndex(res, ":")+1:][:2])
		// direct oracle for a PAIR of announced numbers (size, step): whatever size is announced, a first step
		// beyond the block size must be refused before anything is allocated
		if len(steps) > 0 && (strings.HasSuffix(res, ":panic") || steps[0] > 10<<20 && !strings.HasSuffix(res, ":invalid")) {
			c.violate(fmt.Sprintf("hash-pair:size=%d:step=%d", srcSize, steps[0]), "recvPrefixHash let a hash step through that is bounded only by the size the peer announced: "+res,
				fmt.Sprintf("local file %d bytes, announced size %d, HASH steps %v => %s (%s)", fsize, srcSize, steps, res, e))
		}
		gs := make([]byte, len(goods))
		parts := make([]string, len(steps))
		for i := range goods {
			gs[i] = '0'
			if goods[i] {
				gs[i] = '1'
			}
			parts[i] = strconv.FormatInt(steps[i], 10)
		}
		sa := "-"
		if len(parts) > 0 {
			sa = strings.Join(parts, ",")
		}
		ga := string(gs)
		if ga == "" {
			ga = "-"
		}
		c.emit(len(steps) > 0, "c12_hash", res, strconv.FormatInt(fsize, 10), sa, ga)
	}
	doHash(100, nil, nil)
	for _, v := range []int64{1 << 62, 1 << 31, 10<<20 + 1, 10 << 20, math.MaxInt64} {
		for _, fsize := range []int64{1, 3000} {
			hashSrcSize = v
			doHash(fsize, []int64{v}, []bool{true})          // size and step announced consistently
			doHash(fsize, []int64{v - 1}, []bool{false})     // just below the announced size
			doHash(fsize, []int64{1, v}, []bool{true, true}) // after a matching first block
			hashSrcSize = 0
			doHash(fsize, []int64{v}, []bool{true}) // step beyond the announced size
		}
	}
	hashSrcSize = -1
	for i := 0; i < c.pick(400, 6000); i++ {
		fsize := []int64{1, 100, 3000}[c.rng.Intn(3)]
		k := 1 + c.rng.Intn(3)
		steps := make([]int64, k)
		goods := make([]bool, k)
		prev := int64(0)
		for j := range steps {
			cands := []int64{-1, 0, 1, prev, prev + 1, fsize - 1, fsize, fsize + 1, fsize / 2, prev + hashStep, prev + hashStep + 1, prev + hashStep - 1,
				1 << 31, 1 << 62, math.MaxInt64, math.MinInt64, -hashStep}
			steps[j] = cands[c.rng.Intn(len(cands))]
			if c.rng.Intn(3) == 0 {
				steps[j] = prev + 1 + int64(c.rng.Intn(int(fsize)))
			}
			goods[j] = c.rng.Intn(3) != 0
			if goods[j] && steps[j] >= 0 && steps[j] <= fsize {
				prev = steps[j]
			}
		}
		doHash(fsize, steps, goods)
	}

	// ---- the sender's chunk buffer over acknowledgement sequences (real pipelineRecvAck) ----
	// Direct oracle, independent of the model: every size the buffer takes is positive and not above
	// the larger of the initial size, the announced limit and 1 GiB, and newSendDataWriter's make
	// does not panic on the final size.
	// The cases are collected first and run in a CHILD of the harness: the goroutine under test has no
	// recover, so an arithmetic fault in it (a chunk time that makes a divisor zero) ends the process -
	// the child reports which case it was running, and that case is the replay.
	type evoCase struct {
		maxbuf   int64
		lens, ms []int64
	}
	var evoCases []evoCase
	doBufEvo := func(maxbuf int64, lens, ms []int64) { evoCases = append(evoCases, evoCase{maxbuf, lens, ms}) }
	fmtList := func(v []int64) string {
		if len(v) == 0 {
			return "-"
		}
		p := make([]string, len(v))
		for i, x := range v {
			p[i] = strconv.FormatInt(x, 10)
		}
		return strings.Join(p, ",")
	}
	evoLimits := []int64{math.MinInt64, -(1 << 62), -(1 << 31), -10240, -1, 0, 1, 1023, 1024, 5000, 10239, 10240, 10241, 20479, 20480, 20481, 30000, 40960, 81920,
		10 << 20, 1 << 30, 1<<30 + 1, 1 << 31, 1 << 62, math.MaxInt64}
	// chunk times in ms.  TIME is an input the peer controls (it decides when to acknowledge): every
	// interval between the thresholds the code compares with (fast 500 ms, shrink 2 s) and between the
	// whole seconds its divisor chunkTime/time.Second steps at; the values keep 20..100 ms away from a
	// boundary because the goroutine measures time.Since itself (the boundaries 499/500/501,
	// 999/1000/1001, 1999/2000/2001 ms themselves are swept on the model: C12_ack_step_total)
	evoTimes := []int64{0, 250, 400, 520, 700, 900, 1020, 1500, 1900, 2020, 2800, 3020, 9020, 20020, 50020}
	for _, mb := range evoLimits {
		eff := mb
		if eff > 1<<30 {
			eff = 1 << 30 // what recvConfig makes of it
		}
		doBufEvo(eff, nil, nil)
		doBufEvo(eff, []int64{-1}, []int64{0})                                         // one full fast chunk: the growth guard
		doBufEvo(eff, []int64{-1, -1, -1, -1}, []int64{0, 0, 0, 0})                    // keeps doubling up to the limit
		doBufEvo(eff, []int64{-1, -2, -1}, []int64{0, 0, 0})                           // a short chunk in between
		doBufEvo(eff, []int64{-1, -1, -1}, []int64{0, 3020, 0})                        // a slow chunk: shrinks
		doBufEvo(eff, []int64{-1, -1, -1, -1, -1}, []int64{20020, 20020, 20020, 0, 0}) // down to the floor and up again
		doBufEvo(eff, []int64{-1, 7, -1}, []int64{1020, 2020, 0})
		doBufEvo(eff, []int64{-1, -1, -1, -1, -1, -1, -1}, []int64{50020, 50020, 50020, 50020, 50020, 0, 0}) // far below the floor if there were none
	}
	for _, mb := range []int64{-1, 0, 10240, 40960, 10 << 20} {
		for _, t := range evoTimes {
			for _, l := range []int64{-1, -2, 7, 20480} { // full, short, tiny, longer than the buffer
				doBufEvo(mb, []int64{l}, []int64{t})
				doBufEvo(mb, []int64{-1, l, -1}, []int64{0, t, t})
			}
		}
	}
	for i := 0; i < c.pick(40, 800); i++ {
		mb := evoLimits[c.rng.Intn(len(evoLimits))]
		if c.rng.Intn(3) == 0 {
			mb = int64(c.rng.Intn(300000)) - 50000
		}
		if mb > 1<<30 {
			mb = 1 << 30
		}
		k := 1 + c.rng.Intn(8)
		lens, ms := make([]int64, k), make([]int64, k)
		for j := range lens {
			lens[j] = []int64{-1, -1, -1, -2, 0, 1, 10240, 1024, 20480}[c.rng.Intn(9)]
			ms[j] = evoTimes[c.rng.Intn(len(evoTimes))]
			if c.rng.Intn(2) == 0 {
				ms[j] = 0
			}
		}
		doBufEvo(mb, lens, ms)
	}
	next := 0
	for round := 0; next < len(evoCases) && round < 6; round++ {
		batch := make([]c12EvoJob, 0, len(evoCases)-next)
		for _, ec := range evoCases[next:] {
			batch = append(batch, c12EvoJob{ec.maxbuf, ec.lens, ec.ms})
		}
		results, crashedAt, crashText := c12RunEvoChild(work, batch)
		for i, r := range results {
			ec := evoCases[next+i]
			key := strconv.FormatInt(ec.maxbuf, 10) // one key per announced limit: the sequences are in the detail
			if r.Err != "" {
				c.violate("bufsize-evolution-failed:"+key, "pipelineRecvAck did not get through a sequence of well-formed acknowledgements", r.Err)
				continue
			}
			hi := int64(10240)
			if ec.maxbuf > hi {
				hi = ec.maxbuf
			}
			if hi > 1<<30 {
				hi = 1 << 30
			}
			for _, sz := range r.Sizes {
				if sz < 1 || sz > hi {
					c.violate("bufsize-capacity:"+key, fmt.Sprintf("the sender's chunk buffer size became %d for an announced limit of %d (it must stay within 1..%d)", sz, ec.maxbuf, hi),
						fmt.Sprintf("announced bufsize=%d acknowledged lengths=%s chunk times(ms)=%s => sizes %s; make: %s", ec.maxbuf, fmtList(r.Used), fmtList(ec.ms), fmtList(r.Sizes), r.MakePanic))
					break
				}
			}
			if r.MakePanic != "" {
				c.violate("bufsize-capacity:"+key, "newSendDataWriter panicked on the buffer size reached: "+r.MakePanic,
					fmt.Sprintf("announced bufsize=%d acknowledged lengths=%s chunk times(ms)=%s => sizes %s", ec.maxbuf, fmtList(r.Used), fmtList(ec.ms), fmtList(r.Sizes)))
			}
			c.count(fmt.Sprintf("bufevo:grew=%v", len(r.Sizes) > 1 && r.Sizes[len(r.Sizes)-1] > r.Sizes[0]))
			c.emit(len(r.Used) > 0, "c12_bufevo_ms", fmtList(r.Sizes), strconv.FormatInt(ec.maxbuf, 10), fmtList(r.Used), fmtList(ec.ms))
		}
		next += len(results)
		if crashedAt >= 0 && next < len(evoCases) {
			ec := evoCases[next]
			c.violate(fmt.Sprintf("bufsize-time-crash:%s", fmtList(ec.ms)), "the acknowledgement goroutine of the sender crashed the process: "+crashText,
				fmt.Sprintf("announced bufsize=%d acknowledged lengths(-1 = the whole buffer, -2 = half)=%s chunk times(ms)=%s :: %s", ec.maxbuf, fmtList(ec.lens), fmtList(ec.ms), crashText))
			c.count("bufevo:crash")
			next++ // the remaining cases run in a fresh child
		} else if crashedAt < 0 {
			break
		}
	}

	// ---- bar width ----
	doBar := func(term, pane int32) {
		col, e := trzsz.VerifBarColumns(term, pane)
		res := strconv.Itoa(int(col))
		if e != "" {
			res = "panic"
		}
		c.count(fmt.Sprintf("bar:wider=%v", pane > term))
		c.emit(pane > 1, "c12_bar", res, strconv.Itoa(int(term)), strconv.Itoa(int(pane)))
	}
	edge := []int32{math.MinInt32, -1, 0, 1, 2, 3, 79, 80, 81, 99, 100, 101, 50000000, math.MaxInt32 - 1, math.MaxInt32}
	for _, t := range edge {
		for _, p := range edge {
			doBar(t, p)
		}
	}
	for i := 0; i < c.pick(500, 10000); i++ {
		t := int32(c.rng.Intn(400))
		p := int32(c.rng.Intn(500)) - 20
		if c.rng.Intn(10) == 0 {
			p = int32(c.rng.Uint32())
		}
		doBar(t, p)
	}

	// ---- version components, target size ----
	doVer := func(s string) {
		v, ok := trzsz.VerifParseVersion(s)
		res := "err"
		if ok {
			res = fmt.Sprintf("ok:%d.%d.%d", v[0], v[1], v[2])
		}
		c.emit(true, "c12_version", res, hx([]byte(s)))
	}
	for _, s := range []string{"1.1.8", "0.0.0", "4294967295.0.1", "4294967296.0.1", "1.1", "1.1.1.1", "1..1", "-1.0.0", "+1.0.0", "1.0.x", "", "..", "01.002.0003",
		"99999999999999999999.1.1", "1.1.8 "} {
		doVer(s)
	}
	for i := 0; i < c.pick(300, 5000); i++ {
		doVer(c12RandNumeral(c) + "." + c12RandNumeral(c) + "." + c12RandNumeral(c))
	}
	for _, l := range jsonLits {
		if l == "" || strings.ContainsAny(l, "\x00\xef\xd9 ") { // JSON skips blanks around a literal: glue, not a guard
			continue
		}
		doc := `{"name":"x","size":` + l + `}`
		arg := hx([]byte(l))
		if l == "absent" {
			doc = `{"name":"x"}`
			arg = "absent"
		}
		sz, e := trzsz.VerifUnmarshalTargetSize(doc)
		res := "err"
		if e == "" {
			res = "ok:" + strconv.FormatInt(sz, 10)
		}
		c.emit(true, "c12_target_size", res, arg)
	}
}
