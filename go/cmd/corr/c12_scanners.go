package main

// C12, group "scanners": every hand-written scanner of terminal output, typed input and
// peer data is called directly (export VerifScanner, under recover) on exhaustive short
// strings over the alphabet that matters to it, on structured inputs with every cut into
// 2 and 3 chunks, and on random strings.  Oracle: no panic (key scanner-panic:<fn>:<hex of
// the chunks>), and what the scanner returns / keeps is bounded by what it was given
// (key scanner-growth:<fn>:<hex>).

import (
	"encoding/hex"
	"fmt"
	"os"
	"path/filepath"
	"strings"
	"time"

	"github.com/trzsz/trzsz-go/trzsz"
)

func init() { groups["scanners"] = genScanners }

type c12Scan struct {
	c     *ctx
	calls map[string]int
}

func c12HexChunks(chunks [][]byte) string {
	parts := make([]string, len(chunks))
	for i, ch := range chunks {
		parts[i] = hex.EncodeToString(ch)
	}
	s := strings.Join(parts, ",")
	if len(s) > 400 {
		s = s[:400] + fmt.Sprintf("...(%d bytes)", len(s)/2)
	}
	return s
}

// run calls one scanner; bound = the largest plausible result for this input
func (sc *c12Scan) run(fn string, n int, bound int, chunks ...[]byte) {
	sc.calls[fn]++
	out, p := trzsz.VerifScanner(fn, chunks, n)
	if p != "" {
		sc.c.violate(fmt.Sprintf("scanner-panic:%s:%s", fn, c12HexChunks(chunks)), "a scanner panicked on its input: "+p,
			fmt.Sprintf("fn=%s n=%d chunks(hex)=%s :: %s", fn, n, c12HexChunks(chunks), p))
		return
	}
	if out > bound {
		sc.c.violate(fmt.Sprintf("scanner-growth:%s:%s", fn, c12HexChunks(chunks)), "a scanner produced more than its input allows",
			fmt.Sprintf("fn=%s n=%d chunks(hex)=%s :: produced %d, bound %d", fn, n, c12HexChunks(chunks), out, bound))
	}
}

// every string over alphabet with length <= maxLen
func c12AllStrings(alphabet []byte, maxLen int, f func([]byte)) {
	buf := make([]byte, 0, maxLen)
	var rec func()
	rec = func() {
		f(buf)
		if len(buf) == maxLen {
			return
		}
		for _, a := range alphabet {
			buf = append(buf, a)
			rec()
			buf = buf[:len(buf)-1]
		}
	}
	rec()
}

func c12Cuts2(b []byte, f func(a, c []byte)) {
	for i := 0; i <= len(b); i++ {
		f(b[:i], b[i:])
	}
}

func c12Cuts3(b []byte, f func(a, c, d []byte)) {
	for i := 0; i <= len(b); i++ {
		for j := i; j <= len(b); j++ {
			f(b[:i], b[i:j], b[j:])
		}
	}
}

func c12Total(chunks ...[]byte) int {
	n := 0
	for _, c := range chunks {
		n += len(c)
	}
	return n
}

func genScanners(c *ctx) {
	sc := &c12Scan{c: c, calls: map[string]int{}}
	rnd := func(alphabet []byte, maxLen int) []byte {
		b := make([]byte, c.rng.Intn(maxLen+1))
		for i := range b {
			if c.rng.Intn(8) == 0 {
				b[i] = byte(c.rng.Intn(256))
			} else {
				b[i] = alphabet[c.rng.Intn(len(alphabet))]
			}
		}
		return b
	}

	// ---- OSC 52 (clipboard) in terminal output ----
	oscAlpha := []byte("\x1b]52;cpA=\ax")
	c12AllStrings(oscAlpha, c.pick(4, 5), func(s []byte) {
		sc.run("osc52", 0, len(s), s)
		pre := append([]byte("\x1b]52;"), s...)
		sc.run("osc52", 0, len(pre), pre)
		if len(s) <= 3 {
			c12Cuts2(pre, func(a, b []byte) { sc.run("osc52", 0, len(pre), a, b) })
		}
	})
	for _, sel := range []string{"c", "p", "x", ""} {
		for _, term := range []string{"\a", "\x1b\\", "\x1b", ""} {
			for _, payload := range []string{"QUJD", "", "!!!!", "QUJDRA=="} {
				full := []byte("ls\r\n\x1b]52;" + sel + ";" + payload + term + "$ \x1b]52;c;QQ==\a")
				for k := 0; k <= len(full); k++ {
					tr := full[:k]
					sc.run("osc52", 0, len(tr), tr)
					c12Cuts2(tr, func(a, b []byte) { sc.run("osc52", 0, len(tr), a, b) })
					if k%3 == 0 || !c.thorough() && k < 14 || c.thorough() {
						c12Cuts3(tr, func(a, b, d []byte) { sc.run("osc52", 0, len(tr), a, b, d) })
					}
				}
			}
		}
	}
	// the 100000-byte overflow path: a sequence that never ends
	big := []byte(strings.Repeat("QUJD", 25001))
	for _, tail := range [][]byte{[]byte("QQ"), []byte("not base64 \x00"), []byte("\a"), []byte("\x1b]52;c;"), {}, []byte("Q\x1b")} {
		sc.run("osc52", 0, len(big)+120, []byte("\x1b]52;c;"), big, tail, []byte("\x1b]52;p;QQ==\a"))
		sc.run("osc52", 0, 2*len(big)+120, []byte("\x1b]52;c;"), big[:99990], big[:9], big[:1], tail, big, tail)
	}
	for i := 0; i < c.pick(3000, 60000); i++ {
		a, b, d := rnd(oscAlpha, 9), rnd(oscAlpha, 9), rnd(oscAlpha, 9)
		sc.run("osc52", 0, c12Total(a, b, d), a, b, d)
	}

	// ---- trigger detection, relay suffix, relay+tmux rewriting ----
	trig := "::TRZSZ:TRANSFER:R:1.1.8:1727712345600:12345"
	detAlpha := []byte(":TRZSANFE.0123456789#\r\n%output ")
	detFns := []string{"detect-client", "detect-relay", "detect-relay-tmux", "detect-client-tunnel"}
	detBound := func(n int) int { return 2*n + 16 }
	var trigs [][]byte
	for _, pre := range []string{"", "\x1b7\x07", "%output %1 ", "%extended-output %12 0 : ", strings.Repeat("x", 30)} {
		for _, t := range []string{trig, "::TRZSZ:TRANSFER:S:1.1.8", "::TRZSZ:TRANSFER:D:1.1.8:1", "::TRZSZ:TRANSFER:R:1.1.8:1727712345610:0",
			"::TRZSZ:TRANSFER:R:" + strings.Repeat("9", 5000) + ".1.1:1727712345600:1",
			"::TRZSZ:TRANSFER:R:1.1.8:" + strings.Repeat("7", 100000) + "00:1",
			"::TRZSZ:TRANSFER:R:1.1.8:1727712345600:" + strings.Repeat("9", 100000),
			"::TRZSZ:TRANSFER:R:4294967296.4294967295.0:1727712345600:99999999999999999999",
			trig + "\r\n" + trig, trig + strings.Repeat(" ", 40) + "Saved", "::TRZSZ:TRANSFER:" + "::TRZSZ:TRANSFER:R:1.1.8:17277123456"} {
			trigs = append(trigs, []byte(pre+t+"\r\n"))
		}
	}
	for _, t := range trigs {
		for _, fn := range detFns {
			step := 1
			if len(t) > 300 {
				step = len(t) / c.pick(8, 40)
			}
			for k := 0; k <= len(t); k += step {
				sc.run(fn, 0, detBound(k), t[:k])
				if k > 8 {
					sc.run(fn, 0, detBound(k), t[k-8:k], t[:k])
				}
			}
			sc.run(fn, 0, detBound(len(t)), t)
		}
		sc.run("rewrite-trigger", 0, 2*len(t)+16, t)
		for idx := 0; idx <= len(t)+2; idx++ {
			if len(t) < 300 || idx%997 == 0 || idx > len(t)-30 {
				sc.run("relay-suffix", idx, len(t)+2, t)
			}
		}
	}
	c12AllStrings([]byte(":R1.0#\n"), c.pick(4, 6), func(s []byte) {
		for _, head := range []string{"::TRZSZ:TRANSFER:", "::TRZSZ:TRANSFER:R:1.1.8", "::TRZSZ:TRANSFER:R:1.1.8:1727712345600"} {
			t := append([]byte(head), s...)
			for _, fn := range detFns {
				sc.run(fn, 0, detBound(len(t)), t)
			}
			sc.run("rewrite-trigger", 0, 2*len(t)+16, t)
			for idx := len(t) - 24; idx <= len(t); idx++ {
				if idx >= 0 {
					sc.run("relay-suffix", idx, len(t)+2, t)
				}
			}
		}
	})
	for i := 0; i < c.pick(3000, 60000); i++ {
		t := append(rnd(detAlpha, 30), []byte("::TRZSZ:TRANSFER:")...)
		t = append(t, rnd(detAlpha, 40)...)
		sc.run(detFns[i%4], 0, detBound(len(t)), t)
		sc.run("rewrite-trigger", 0, 2*len(t)+16, t)
		sc.run("relay-suffix", c.rng.Intn(len(t)+3), len(t)+2, t)
	}

	// ---- zmodem header ----
	zm := []byte("rz waiting to receive.**\x18B0100000023be50\r\x8a\x11")
	for k := 0; k <= len(zm); k++ {
		sc.run("zmodem", 0, 1, zm[:k])
		sc.run("zmodem", 0, 1, append(append([]byte(nil), zm[:k]...), "\x18\x18\x18\x18\x18"...))
	}
	c12AllStrings([]byte("*\x18B01af"), c.pick(5, 7), func(s []byte) { sc.run("zmodem", 0, 1, s) })

	// ---- dragged paths typed into the terminal: all three platform scanners ----
	dragFns := []string{"drag", "drag-linux", "drag-macos", "drag-windows", "next-linux", "next-win", "next-msys", "next-cyg"}
	dragAlpha := []byte("'/cC:\\\" \x10")
	c12AllStrings(dragAlpha, c.pick(4, 6), func(s []byte) {
		for _, fn := range dragFns {
			sc.run(fn, 0, 2*len(s)+4, s)
		}
		if len(s) >= 3 {
			sc.run("unix2win", 0, len(s)+4, s)
		}
	})
	c12AllStrings([]byte("'/c \\"), c.pick(3, 5), func(s []byte) {
		for _, head := range []string{"/cygdrive/", "'/cygdrive/", "/cygdrive/c", "'/cygdrive/c/", "/cygdrive/c/", "\x1b[200~", "\x1b[200~/c/", "\x1b[20", "C:\\", "\"C:\\"} {
			t := append([]byte(head), s...)
			for _, fn := range dragFns {
				sc.run(fn, 0, 2*len(t)+4, t)
			}
		}
	})
	for i := 0; i < c.pick(3000, 60000); i++ {
		t := rnd(append(dragAlpha, "ygdrive~[20\x1b"...), 24)
		sc.run(dragFns[i%len(dragFns)], 0, 2*len(t)+4, t)
	}

	// ---- VT100 trimming, tmux status stripping ----
	c12AllStrings([]byte("\x1bP=\\a["), c.pick(5, 7), func(s []byte) {
		sc.run("trimvt100", 0, len(s), s)
		sc.run("strip-tmux", 0, len(s), s)
	})
	for i := 0; i < c.pick(2000, 40000); i++ {
		t := rnd([]byte("\x1bP=\\a[#SUCC:"), 40)
		sc.run("strip-tmux", 0, len(t), t)
		sc.run("trimvt100", 0, len(t), t)
	}

	// ---- lines from a Windows console, and recvLine / recvCheck around them ----
	winAlpha := []byte("\x1b[H1;a!\n\r#:")
	c12AllStrings(winAlpha, c.pick(3, 4), func(s []byte) {
		sc.run("readline-windows", 0, 2*len(s)+8, s)
		c12Cuts2(s, func(a, b []byte) { sc.run("readline-windows", 0, 2*len(s)+8, a, b) })
		for mode := 0; mode < 8; mode++ {
			if c.thorough() || len(s) <= 2 || mode%3 == len(s)%3 {
				sc.run("recv-line", mode, 2*len(s)+8, s)
			}
		}
	})
	for i := 0; i < c.pick(2000, 40000); i++ {
		a, b := rnd(append(winAlpha, "SUCC\x1bP=\\"...), 20), rnd(winAlpha, 20)
		sc.run("readline-windows", 0, 2*c12Total(a, b)+8, a, b)
		sc.run("recv-line", c.rng.Intn(8), 2*c12Total(a, b)+8, a, b)
	}

	// ---- unescaping into a short destination, escape table shapes ----
	for _, tbl := range []int{-1, 0, 1} {
		c12AllStrings([]byte("\xee1AxG"), c.pick(4, 6), func(s []byte) {
			sc.run("unescape", tbl, 2*len(s)+2, s)
			for d := 1; d <= 3; d++ {
				sc.run("unescape", tbl, 2*len(s)+2, s, make([]byte, d))
			}
		})
	}
	shapes := []string{`[]`, `[[]]`, `[["a"]]`, `[["a","b"]]`, `[["a","îb"]]`, `[["ab","îb"]]`, `[["a","îbc"]]`, `[[1,2]]`, `[["a",2]]`, `[[1,"îb"]]`,
		`[null]`, `[["a","îb"],null]`, `{}`, `null`, `7`, `"x"`, `[["中","îb"]]`, `[["a","中b"]]`, `[["","îb"]]`, `[["a",""]]`, `[["a","î"]]`,
		`[["\u00ff","î\u00ff"]]`, `[["\u0100","îb"]]`, `[["a","î\u0100"]]`, `[[["a"],"îb"]]`, `[["a","îb","c"]]`, `[["a","îb"],["a","îc"],["b","îb"]]`,
		`[["\ud800","îb"]]`, `[[`, ``, `[["a","îb"]`, `[["î","îî"],["~","î1"]]`}
	for _, s := range shapes {
		sc.run("escape-table", 0, 300, []byte(s))
	}
	many := "[" + strings.Repeat(`["a","îb"],`, 3000) + `["c","îd"]]`
	sc.run("escape-table", 0, 3001, []byte(many))
	c12AllStrings([]byte(`[]",aî1`), c.pick(5, 7), func(s []byte) { sc.run("escape-table", 0, 300, s) })

	// ---- archive entry headers and name records ----
	recs := []string{`{"path_id":0,"path_name":["d","x"],"is_dir":false,"size":5}`, `{"path_name":[]}`, `{"path_name":null}`, `{"path_name":[""]}`, `{}`, `[]`, `null`,
		`{"path_id":-1,"path_name":["a"],"size":-1,"perm":-1}`, `{"path_id":9223372036854775807,"path_name":["a"]}`, `{"path_id":9223372036854775808,"path_name":["a"]}`,
		`{"path_name":["a",7]}`, `{"path_name":"a"}`, `{"path_name":[["a"]]}`, `{"path_name":["` + strings.Repeat("a", 100000) + `"]}`, `{"path_name":[` + strings.Repeat(`"a",`, 20000) + `"b"]}`,
		`{"path_name":["a"],"perm":4294967296}`, `{"path_name":["a"],"is_dir":"yes"}`, `{"path_name":["\u0000","..","/"]}`, `{"path_name":["a"]`, ``}
	for _, r := range recs {
		sc.run("source-file", 0, len(r)+8, []byte(r))
		h := []byte(c12B64z([]byte(r)))
		for k := 0; k <= len(h); k++ {
			if len(h) < 400 || k%211 == 0 || k > len(h)-6 {
				sc.run("archive-header", 0, len(r)+8, h[:k])
			}
		}
	}
	c12AllStrings([]byte(`{}[]":,a1-path_nm`), c.pick(3, 4), func(s []byte) { sc.run("source-file", 0, len(s)+8, s) })

	// ---- the relay's handshake line decoders, and the line splitter shared with recvCheck ----
	splitLine := func(line []byte) {
		for _, b := range line {
			if b == '\n' || b == 3 {
				return
			}
		}
		for which, f := range []func([]byte) (string, string, string){trzsz.VerifRelayDecode, trzsz.VerifRecvCheckSplit} {
			if which == 1 && len(line) == 5 && !c.thorough() {
				continue // a transfer object per call: the longest exhaustive stratum only through the relay's decoder
			}
			name := []string{"relay-decode-split", "recvcheck-split"}[which]
			sc.calls[name]++
			class, typ, p := f(line)
			if p != "" {
				c.violate(fmt.Sprintf("scanner-panic:%s:%s", name, c12HexChunks([][]byte{line})), "a line splitter panicked on a handshake line: "+p,
					fmt.Sprintf("fn=%s line(hex)=%s line=%q :: %s", name, c12HexChunks([][]byte{line}), string(line), p))
				continue
			}
			res := "rej"
			switch class {
			case "colon":
			case "type":
				res = "typ:" + hx([]byte(typ))
			default:
				res = "?" + class
			}
			if len(line) <= 4096 { // the extracted model works on lists: megabyte lines only through the direct oracle
				c.emit(true, "c12_line_split", res, hx(line))
			}
		}
	}
	hostileLines := []string{"", ":", ":wq", "::", "#", "#:", "#:x", "#ACT", "#ACT:", "ACT:x", "x:#ACT:y", "#ACT:!!!", "#ACT:QUJD", ":#ACT:" + c12B64z([]byte("{}")),
		"#ACT:" + c12B64z([]byte("{}")), "#ACT:" + c12B64z([]byte(`{"protocol":"x","newline":7,"binary":"no"}`)), "#ACT:" + c12B64z([]byte("[]")), "#ACT:" + c12B64z([]byte("null")),
		"#ACT:" + c12B64z([]byte(`{"newline":""}`)), "#CFG:" + c12B64z([]byte(`{"bufsize":-1,"timeout":"x","escape_chars":[["a"]],"tmux_pane_width":99999999999}`)),
		"#CFG:" + c12B64z([]byte(`{"escape_chars":[[1,2]],"compress":"yes"}`)), "#FAIL:" + c12B64z([]byte("boom")), "#fail:%%%", "#EXIT:", strings.Repeat(":", 1000),
		strings.Repeat("A", 1<<20), "#ACT:" + strings.Repeat("A", 1<<20), "\x1b[200~:wq", "#ACT:" + c12B64z([]byte(strings.Repeat("[", 20000))), "\xff\xfe:\x00"}
	for _, l := range hostileLines {
		splitLine([]byte(l))
		sc.run("relay-decode", 0, 1<<30, []byte(l))
		for mode := 0; mode < 4; mode++ {
			for ni, nlv := range []string{"\n", "!\n", "\r\n"} {
				if !c.thorough() && len(l) > 100000 && (mode != ni || mode > 1) {
					continue // megabyte lines: plain reader with "\n", Windows reader with "!\n"
				}
				full := []byte(l + nlv)
				sc.run("relay-recv-act", mode, 4*len(full)+64, full)
				sc.run("relay-recv-cfg", mode, 4*len(full)+64, full)
				if len(full) < 200 && (mode == 0 || c.thorough()) {
					c12Cuts2(full, func(a, b []byte) {
						sc.run("relay-recv-act", mode, 4*len(full)+64, a, b)
						sc.run("relay-recv-cfg", mode, 4*len(full)+64, a, b)
					})
				}
			}
		}
	}
	c12AllStrings([]byte("#:ACT=x"), c.pick(5, 6), func(s []byte) {
		splitLine(s)
		sc.run("relay-decode", 0, 1<<30, s)
		if len(s) <= 3 || c.thorough() && len(s) <= 4 {
			sc.run("relay-recv-act", len(s)%4, 64, append(append([]byte(nil), s...), '\n'))
			sc.run("relay-recv-cfg", len(s)%4, 64, append(append([]byte(nil), s...), '!', '\n'))
		}
	})
	for i := 0; i < c.pick(1000, 40000); i++ {
		l := rnd([]byte("#:ACTCFG=!x"), 16)
		splitLine(l)
		sc.run("relay-recv-act", c.rng.Intn(4), 4*len(l)+64, l, []byte("\n"))
	}

	// ---- the archive writer on entry headers no honest sender produces ----
	awork, _ := os.MkdirTemp("", "c12_aw_")
	defer os.RemoveAll(awork)
	awN := 0
	awRun := func(pieces ...[]byte) {
		awN++
		dest := filepath.Join(awork, fmt.Sprint(awN), "1", "2", "3", "4", "5", "6", "7", "8", "dest")
		os.MkdirAll(dest, 0755)
		sc.run("archive-writer", 0, 1<<30, append([][]byte{[]byte(dest)}, pieces...)...)
		os.RemoveAll(filepath.Join(awork, fmt.Sprint(awN)))
	}
	hdrOf := func(js string) []byte { return []byte(c12B64z([]byte(js)) + "\n") }
	sizes := []string{"-1", "0", "1", "5", "4611686018427387904"}
	names := []string{`["root","f"]`, `["root","sub","g"]`, `["root"]`, `[]`, `["root",""]`, `["root","..","up"]`, `["other","f"]`, `["root","f","under-a-file"]`}
	payload := []byte("0123456789abcdef\nXYZ")
	for _, isDir := range []string{"true", "false"} {
		for _, sz := range sizes {
			for ni, nm := range names {
				if !c.thorough() && ni > 2 && sz != "5" {
					continue
				}
				h := hdrOf(fmt.Sprintf(`{"path_id":0,"path_name":%s,"is_dir":%s,"size":%s}`, nm, isDir, sz))
				awRun(h, payload)                                    // the data in a Write of its own
				awRun(append(append([]byte(nil), h...), payload...)) // header and data in one Write
				awRun(h[:len(h)/2], h[len(h)/2:], payload[:1], payload[1:])
				h2 := hdrOf(`{"path_id":0,"path_name":["root","f"],"is_dir":false,"size":3}`)
				awRun(h2, []byte("abc"), h, payload, h2, []byte("abc")) // between two ordinary entries
			}
		}
	}
	for _, js := range []string{`{}`, `[]`, `null`, `{"path_name":["root","f"]}`, `{"path_id":77,"path_name":["root","f"],"size":3}`, `{"path_id":-1,"path_name":["root","f"],"size":3}`,
		`{"path_id":0,"path_name":["root","f"],"is_dir":"yes","size":3}`, `{"path_id":0,"path_name":["root","f"],"size":"3"}`, `{"path_id":0,"path_name":"f","size":3}`,
		`{"path_id":0,"path_name":["root","f"],"size":3,"perm":-1}`, `{"path_id":0,"path_name":["root","f"],"size":3,"perm":4294967296}`, `{"path_id":0,"path_name":["root","f"],"archive":true,"is_dir":true,"size":3}`} {
		awRun(hdrOf(js), payload)
		awRun(hdrOf(js), payload, hdrOf(js), payload)
	}
	awRun([]byte("\n"), payload)
	awRun([]byte("!!!not base64\n"), payload)
	awRun(payload)

	// ---- the progress display under an adversarial clock (speed and ETA divide by elapsed time) ----
	func() {
		now := time.Unix(1700000000, 0)
		restore := trzsz.VerifSetTimeNow(func() time.Time { return now })
		defer restore()
		deltas := []time.Duration{0, 1, time.Millisecond, 199 * time.Millisecond, 200 * time.Millisecond, 201 * time.Millisecond, time.Second, -time.Second, -time.Hour,
			time.Hour, 1 << 62}
		for _, size := range []int64{0, 1, 1000, 1 << 40} {
			for _, d1 := range deltas {
				for _, d2 := range deltas {
					sc.calls["progress-clock"]++
					func() {
						defer func() {
							if r := recover(); r != nil {
								c.violate(fmt.Sprintf("scanner-panic:progress-clock:%d:%d:%d", size, d1, d2), fmt.Sprintf("the progress display panicked under a scripted clock: %v", r),
									fmt.Sprintf("onNum(1) onName onSize(%d); clock +%v; onStep(%d); clock +%v; onStep(%d); onDone :: %v", size, d1, size/2, d2, size, r))
							}
						}()
						p := trzsz.VerifNewProgress(100, 0, "")
						p.OnNum(1)
						p.OnName("a.bin")
						p.OnSize(size)
						p.OnStep(0)
						now = now.Add(d1)
						p.OnStep(size / 2)
						now = now.Add(d2)
						p.OnStep(size)
						now = now.Add(d1)
						p.OnDone()
						if out := p.TakeOutput(); len(out) > 1<<16 {
							c.violate(fmt.Sprintf("scanner-growth:progress-clock:%d:%d:%d", size, d1, d2), "the progress display wrote more than 64 KB for three steps", fmt.Sprint(len(out)))
						}
					}()
				}
			}
		}
	}()

	total := 0
	for fn, n := range sc.calls {
		c.stats["scanner:"+fn] += n
		total += n
	}
	c.n += total
	c.nontrivial += total
	c.sample = append(c.sample, fmt.Sprintf("scanners: %d calls of %d scanners (osc52 %d, detect %d, drag %d, ...): no panic, bounded result", total, len(sc.calls),
		sc.calls["osc52"], sc.calls["detect-client"]*4, sc.calls["drag"]*4))
	c.note(true, fmt.Sprintf("scanners: %d calls of %d scanners, no model line (direct oracle: no panic, bounded result)", total, len(sc.calls)))
}
