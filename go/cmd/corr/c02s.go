package main

// C02 group "file-script": the REAL per-file receiver sequence (recvFileDataV2 | recvFileData,
// then recvFileMD5) and the REAL per-file sender sequence (sendFileDataV2 | sendFileData, then
// sendFileMD5) on scripted, damaged line sequences, in this process, against the decision
// model of Model/Protocol.v (recv_v2 / recv_v1 / send_v2 / send_v1).
//
// The genuine lines of a file are produced by the real sender talking to a cooperative
// responder; they are then re-framed and damaged (byte level: bit flip, deletion, duplication,
// insertion, truncation; line level: a line dropped, duplicated, swapped with its neighbour,
// replaced by garbage, a keep-alive inserted, the digest line forged - to a random value, to a
// value that differs in one byte, to a prefix, to the digest of the DAMAGED content -, the
// announced size changed) and fed to the real receiver.  The delivered stream is cut and typed
// with the tolerant parser of c02t.go (the one the end-to-end tie uses) and handed to the
// model together with the result of the real decoder stack on the frames.
//
// Case lines
//   recv_file_verdict <proto> <size> <lines> <dec> <early>   => A<md5 of what reached the file> | N
//     lines  D:<hex frame>[:<hex chunk>|:!] (protocol 1: what recvData made of it) / M:<hex digest> / K / O, joined by ","
//     dec    protocol >= 2: hex of what the real decoder stack made of the frames in front of the
//            first finish flag ("!" = error, "-" = empty)
//     early  "-" or k: the observed schedule of the size check (Model/Protocol.v [early])
//   send_file_verdict <proto> <size> <mine> <sent> <acks>   => 1 | 0
//     sent   the lengths the sender expects acknowledged, joined by "."
//     acks   F:<len>:<step> / I:<n> / G:<hex> / K / O, joined by ","

import (
	"bytes"
	"crypto/md5"
	"fmt"
	"math/rand"
	"strconv"
	"strings"
	"sync"
	"time"

	"github.com/trzsz/trzsz-go/trzsz"
)

func init() { groups["file-script"] = genFileScript }

type c02sCase struct {
	g         c02tCfg
	fcfg      trzsz.VerifFileCfg
	content   []byte
	seed      int64
	idx       int
	cleanSent []string
	sizeZero  bool
	// results
	emits []c02sEmit
	viols []c01tViol
	cnt   []string
}

type c02sEmit struct {
	nontrivial bool
	fn, res    string
	args       []string
}

// ---- the cooperative (or damaging) peer of the real sender
type c02sPeer struct {
	g    *c02tCfg
	size int64
	mu   sync.Mutex
	buf  []byte
	// what the sender emitted
	frames  [][]byte // wire payload of every DATA message, the finish flag included (protocol >= 2)
	chunks  [][]byte // protocol 1: the decoded chunks
	md5Line []byte   // payload of the MD5 line
	// what was delivered to it
	delivered bytes.Buffer
	nresp     map[string]int
	mutate    func(kind string, k int, line []byte) [][]byte
}

func (p *c02sPeer) onWrite(b []byte) [][]byte {
	p.mu.Lock()
	defer p.mu.Unlock()
	p.buf = append(p.buf, b...)
	var out [][]byte
	respond := func(kind string, line string) {
		k := p.nresp[kind]
		p.nresp[kind]++
		ls := [][]byte{[]byte(line)}
		if p.mutate != nil {
			ls = p.mutate(kind, k, []byte(line))
		}
		for _, l := range ls {
			p.delivered.Write(l)
			out = append(out, l)
		}
	}
	for {
		nl := bytes.IndexByte(p.buf, '\n')
		if nl < 0 {
			break
		}
		line := p.buf[:nl]
		switch {
		case bytes.HasPrefix(line, []byte("#DATA:")):
			payload := line[6:]
			var frame []byte
			used := nl + 1
			if p.g.binary {
				n, err := strconv.Atoi(string(payload))
				if err != nil || n < 0 {
					p.buf = p.buf[used:]
					continue
				}
				if len(p.buf) < used+n {
					return out
				}
				frame = append([]byte{}, p.buf[used:used+n]...)
				used += n
			} else {
				frame = append([]byte{}, payload...)
			}
			p.buf = p.buf[used:]
			if p.g.pipeline() {
				p.frames = append(p.frames, frame)
				if len(frame) > 0 {
					respond("ack", fmt.Sprintf("#SUCC:%d/0\n", len(frame)))
				} else {
					respond("ack0", fmt.Sprintf("#SUCC:0/%d\n", p.size))
					respond("final", fmt.Sprintf("#SUCC:%d\n", p.size))
				}
			} else {
				ln := c02tLine{typ: "DATA", payload: frame, data: frame}
				ch, _ := c02tDecodeChunk(p.g, ln)
				p.frames = append(p.frames, frame)
				p.chunks = append(p.chunks, ch)
				respond("chunk", fmt.Sprintf("#SUCC:%d\n", len(ch)))
			}
		case bytes.HasPrefix(line, []byte("#MD5:")):
			p.md5Line = append([]byte{}, line[5:]...)
			p.buf = p.buf[nl+1:]
			respond("echo", "#SUCC:"+string(p.md5Line)+"\n")
		default:
			p.buf = p.buf[nl+1:]
		}
	}
	return out
}

func c02sAckTokens(ms []c02tMsg) string {
	var parts []string
	for _, m := range ms {
		switch m.kind {
		case "ACK":
			parts = append(parts, fmt.Sprintf("F:%d:%d", m.n, m.step))
		case "SUCCI":
			parts = append(parts, fmt.Sprintf("I:%d", m.n))
		case "SUCCS":
			parts = append(parts, "G:"+hx(m.raw))
		case "KEEP":
			parts = append(parts, "K")
		default:
			parts = append(parts, "O")
		}
	}
	if len(parts) == 0 {
		return "-"
	}
	return strings.Join(parts, ",")
}

func c02sLineTokens(g *c02tCfg, ms []c02tMsg) string {
	var parts []string
	for _, m := range ms {
		switch m.kind {
		case "DATA":
			t := "D:" + hx(m.frame)
			if !g.pipeline() {
				if m.chunkOK {
					t += ":" + hx(m.chunk)
				} else {
					t += ":!"
				}
			}
			parts = append(parts, t)
		case "MD5":
			parts = append(parts, "M:"+hx(m.raw))
		case "KEEP":
			parts = append(parts, "K")
		default:
			parts = append(parts, "O")
		}
	}
	if len(parts) == 0 {
		return "-"
	}
	return strings.Join(parts, ",")
}

func c02sB(b bool, t, f string) string {
	if b {
		return t
	}
	return f
}

// render one DATA message (protocol >= 2 frame or protocol 1 payload) as the sender writes it
func c02sDataLine(g *c02tCfg, frame []byte) []byte {
	if g.binary {
		return append([]byte(fmt.Sprintf("#DATA:%d\n", len(frame))), frame...)
	}
	return []byte("#DATA:" + string(frame) + "\n")
}

func (sc *c02sCase) violate(key, what, detail string) {
	sc.viols = append(sc.viols, c01tViol{key, what, fmt.Sprintf("proto=%d binary=%v compress=%d table=%d size=%d seed=%d :: %s",
		sc.g.proto, sc.g.binary, sc.g.compress, len(sc.g.pairs), len(sc.content), sc.seed, detail)})
}

const c02sDeadline = 8 * time.Second

func (sc *c02sCase) run() {
	rng := rand.New(rand.NewSource(sc.seed))
	g := &sc.g
	size := int64(len(sc.content))
	sum := md5.Sum(sc.content)

	// ---- 1. the genuine exchange: real sender, cooperative peer
	peer := &c02sPeer{g: g, size: size, nresp: map[string]int{}}
	done, _, hung := trzsz.VerifSendOneFile(sc.fcfg, sc.content, peer.onWrite, c02sDeadline)
	if !done || hung {
		sc.violate("file-script:clean-sender-failed", "the real sender did not complete a fault-free exchange with a cooperative peer", fmt.Sprintf("done=%v hung=%v", done, hung))
		return
	}
	sc.emitSender(peer, size, sum[:], done, "clean")
	if len(peer.md5Line) == 0 {
		sc.violate("file-script:no-md5-line", "the real sender completed without an MD5 line", "")
		return
	}

	// ---- 2. the receiver on the genuine lines, re-framed and damaged
	frames := peer.frames
	if g.pipeline() {
		// cut the stream of frames again at random places (the receiver accepts any framing)
		var stream []byte
		for _, f := range frames {
			stream = append(stream, f...)
		}
		frames = nil
		for len(stream) > 0 {
			n := len(stream)
			if rng.Intn(3) > 0 && n > 1 {
				n = 1 + rng.Intn(n)
			}
			frames = append(frames, stream[:n])
			stream = stream[n:]
		}
		frames = append(frames, []byte{})
	}
	var lines [][]byte
	for _, f := range frames {
		lines = append(lines, c02sDataLine(g, f))
	}
	md5Idx := len(lines)
	lines = append(lines, []byte("#MD5:"+string(peer.md5Line)+"\n"))
	annSize := size
	forged := false
	var muts []string
	nmut := []int{0, 1, 1, 1, 2, 2, 3}[rng.Intn(7)]
	if sc.sizeZero {
		// regression for the size race (fixed by d144b66): SIZE 0 announced for a non-empty stream, the genuine
		// MD5 line: must be refused (before the fix the acknowledger won in 2 of 3 runs: SUCC, empty file)
		nmut = 0
		annSize = 0
		muts = append(muts, "size-zero")
	}
	encode := func(d []byte) []byte { return []byte("#MD5:" + trzsz.VerifEncodeBytes(d) + "\n") }
	var lateForge bool // forge the digest to that of whatever the receiver is going to write
	for m := 0; m < nmut; m++ {
		if len(lines) == 0 {
			break
		}
		k := rng.Intn(len(lines))
		switch op := rng.Intn(13); op {
		case 0:
			muts = append(muts, "drop-line")
			lines = append(lines[:k:k], lines[k+1:]...)
		case 1:
			muts = append(muts, "dup-line")
			lines = append(lines[:k+1:k+1], lines[k:]...)
		case 2:
			if k+1 < len(lines) {
				muts = append(muts, "swap-lines")
				lines[k], lines[k+1] = lines[k+1], lines[k]
			}
		case 3:
			muts = append(muts, "garbage-line")
			junk := [][]byte{[]byte("#FAIL:eJwDAAAAAAE=\n"), []byte("garbage\n"), []byte("\n"), []byte(":x\n"), []byte("#SUCC:1\n"), []byte("#DATA:zz\n"), []byte("#DATA:-3\n"), []byte("x\x03y\n")}
			lines = append(lines[:k:k], append([][]byte{junk[rng.Intn(len(junk))]}, lines[k:]...)...)
		case 4:
			muts = append(muts, "keep-alive")
			lines = append(lines[:k:k], append([][]byte{[]byte("#DATA:=\n")}, lines[k:]...)...)
		case 5:
			muts = append(muts, "forge-random")
			d := make([]byte, 16)
			rng.Read(d)
			lines[len(lines)-1] = encode(d)
			forged = true
		case 6:
			muts = append(muts, "forge-one-byte")
			d := append([]byte{}, sum[:]...)
			d[rng.Intn(16)] ^= byte(1 << uint(rng.Intn(8)))
			lines[len(lines)-1] = encode(d)
			forged = true
		case 7:
			muts = append(muts, "forge-prefix")
			lines[len(lines)-1] = encode(sum[:rng.Intn(16)])
			forged = true
		case 8:
			muts = append(muts, "forge-to-damaged")
			lateForge = true
		case 9:
			muts = append(muts, "size-changed")
			annSize = size + int64([]int{-1, 1, -int(minInt64v(size, 7)), 5, int(size), -int(size)}[rng.Intn(6)])
			if annSize < 0 {
				annSize = 0
			}
		default:
			// byte level, on the concatenation (applied below)
			muts = append(muts, "bytes")
		}
	}
	_ = md5Idx
	stream := bytes.Join(lines, nil)
	for _, mu := range muts {
		if mu != "bytes" || len(stream) == 0 {
			continue
		}
		k := rng.Intn(len(stream))
		switch kind := rng.Intn(5); kind {
		case 0:
			stream[k] ^= byte(1 << uint(rng.Intn(8)))
		case 1:
			stream = append(stream[:k:k], stream[k+1:]...)
		case 2:
			stream = append(stream[:k+1:k+1], stream[k:]...)
		case 3:
			stream = append(stream[:k:k], append([]byte{byte('0' + rng.Intn(10))}, stream[k:]...)...)
		case 4:
			stream = stream[:k]
		}
	}
	maxData := int64(10 * 1024 * 1024 * 2)
	typed := c02tTypeData(c02tLex(stream, g.binary, g.v3(), maxData), g)
	if lateForge {
		// what would the receiver write?  protocol >= 2: the decoded frames in front of the first
		// finish flag; protocol 1: the chunks until the announced size is reached
		w, ok := c02sWouldWrite(g, sc.fcfg, annSize, typed)
		if ok {
			d := md5.Sum(w)
			// replace the LAST MD5 line of the stream, if it is still there
			if i := bytes.LastIndex(stream, []byte("#MD5:")); i >= 0 {
				if j := bytes.IndexByte(stream[i:], '\n'); j >= 0 {
					stream = append(stream[:i:i], append(encode(d[:]), stream[i+j+1:]...)...)
					typed = c02tTypeData(c02tLex(stream, g.binary, g.v3(), maxData), g)
					forged = forged || !bytes.Equal(w, sc.content)
				}
			}
		}
	}
	var chunks [][]byte
	if rng.Intn(2) == 0 {
		chunks = [][]byte{stream}
	} else {
		rest := stream
		for len(rest) > 0 {
			n := 1 + rng.Intn(minInt(len(rest), 400))
			chunks = append(chunks, rest[:n])
			rest = rest[n:]
		}
	}
	accepted, written, replies, timedOut, rhung := trzsz.VerifRecvOneFile(sc.fcfg, annSize, chunks, c02sDeadline)
	answered := false
	for _, m := range c02tTypeAck(c02tLex(replies, false, g.v3(), 0), g) {
		if m.kind == "SUCCS" {
			answered = true
		}
	}
	if answered != accepted {
		sc.violate("file-script:answer-differs-from-outcome", "the receiver answered the MD5 line with SUCC exactly when it did not accept the file (or the reverse)",
			fmt.Sprintf("mutations=%v answered=%v accepted=%v", muts, answered, accepted))
	}

	// the decoder oracle for the model
	dec := "!"
	var decoded []byte
	decOK := false
	if g.pipeline() {
		var fs [][]byte
		for _, m := range typed {
			if m.kind == "DATA" {
				if len(m.frame) == 0 {
					break
				}
				fs = append(fs, m.frame)
			} else if m.kind != "KEEP" {
				break
			}
		}
		_, cp := c02sCompress(sc.fcfg, annSize)
		decoded, decOK = c02tDecodeFrames(g, cp, fs)
		if decOK {
			dec = hx(decoded)
		}
	} else {
		dec = "-"
	}
	res := "N"
	if accepted {
		d := md5.Sum(written)
		res = "A" + hx(d[:])
	}
	if rhung {
		res = "H"
	}
	// the schedule of the receiving pipeline, as observed: the stream is not as long as announced and the
	// file was accepted all the same = pipelineSendAck saw savedSteps = size before the saver's check
	early := "-"
	raced := g.pipeline() && decOK && accepted && int64(len(decoded)) != annSize
	if raced {
		early = fmt.Sprint(len(written))
	}
	sc.emits = append(sc.emits, c02sEmit{len(muts) > 0, "recv_file_verdict", res,
		[]string{fmt.Sprint(g.proto), fmt.Sprint(annSize), c02sLineTokens(g, typed), dec, early}})
	for _, mu := range muts {
		sc.cnt = append(sc.cnt, "recv-mutation:"+mu)
	}
	if len(muts) == 0 {
		sc.cnt = append(sc.cnt, "recv-mutation:none")
	}
	sc.cnt = append(sc.cnt, "recv-outcome:"+res[:1]+c02sB(timedOut, "(timeout)", "")+c02sB(raced, "(size race won)", ""))
	desc := fmt.Sprintf("mutations=%v announced=%d accepted=%v written=%d bytes", muts, annSize, accepted, len(written))
	if rhung {
		sc.violate("file-script:receiver-undecided", "the real receiver neither accepted nor refused a delivered line sequence within the deadline", desc)
	}
	if raced {
		sc.violate("file-script:size-race", "the receiver (protocol >= 2) answered the MD5 line with SUCC although the stream is longer than the announced size (the race fixed by d144b66 is back: recvFileDataV2 must wait for pipelineSaveData's check at the end of the stream after pipelineSendAck reported completion); the digest covers the whole stream, the file holds a prefix",
			desc+fmt.Sprintf(" stream=%d bytes", len(decoded)))
	} else if accepted {
		if !forged && !bytes.Equal(written, sc.content) {
			sc.violate("file-script:silent-corruption", "the receiver answered the MD5 line with SUCC although what it wrote differs from the source and no digest was forged", desc)
		}
		// what it wrote has the digest it was handed, and (protocol >= 2) the announced size
		var handed []byte
		for _, m := range typed {
			if m.kind == "MD5" {
				handed = m.raw
				break
			}
		}
		d := md5.Sum(written)
		if !bytes.Equal(d[:], handed) {
			sc.violate("file-script:accepted-digest-differs", "the receiver accepted a file whose digest is not the delivered MD5 value", desc+fmt.Sprintf(" md5(written)=%s delivered=%s", hx(d[:]), hx(handed)))
		}
		if g.pipeline() && int64(len(written)) != annSize {
			sc.violate("file-script:accepted-size-differs", "the receiver (protocol >= 2) accepted a file whose length is not the announced size", desc)
		}
		if g.pipeline() && decOK && !bytes.Equal(written, decoded) {
			sc.violate("file-script:written-not-decoded", "the receiver wrote something else than the decoder stack produced", desc)
		}
	}

	// ---- 3. the sender against a damaging peer
	peer2 := &c02sPeer{g: g, size: size, nresp: map[string]int{}}
	target := []string{"ack", "ack0", "final", "echo", "chunk"}[rng.Intn(5)]
	if !g.pipeline() && target != "echo" {
		target = "chunk"
	}
	tk := rng.Intn(2)
	op := rng.Intn(12)
	fired := ""
	peer2.mutate = func(kind string, k int, line []byte) [][]byte {
		if kind != target || (k != tk && (kind == "ack" || kind == "chunk")) || fired != "" {
			return [][]byte{line}
		}
		body := strings.TrimSuffix(strings.TrimPrefix(string(line), "#SUCC:"), "\n")
		num := func(s string, d int64) string {
			n, _ := strconv.ParseInt(s, 10, 64)
			return strconv.FormatInt(n+d, 10)
		}
		switch op {
		case 0:
			fired = "drop"
			return nil
		case 1:
			fired = "dup"
			return [][]byte{line, line}
		case 2, 3:
			d := int64(1)
			if op == 3 {
				d = -1
			}
			if kind == "echo" {
				break
			}
			fired = c02sB(op == 2, "plus-one", "minus-one")
			if i := strings.IndexByte(body, '/'); i >= 0 {
				return [][]byte{[]byte("#SUCC:" + num(body[:i], d) + body[i:] + "\n")}
			}
			return [][]byte{[]byte("#SUCC:" + num(body, d) + "\n")}
		case 4:
			fired = "garbage"
			return [][]byte{[]byte("#SUCC:@@\n")}
		case 5:
			fired = "keep-alive-before"
			return [][]byte{[]byte("#SUCC:=\n"), line}
		case 6:
			fired = "fail-line"
			return [][]byte{[]byte("#FAIL:eJwDAAAAAAE=\n")}
		case 7:
			if kind == "final" {
				fired = "earlier-step-first"
				return [][]byte{[]byte("#SUCC:" + num(body, -int64(minInt64v(size, 1))) + "\n"), line}
			}
		case 8:
			if kind == "ack" || kind == "ack0" {
				if i := strings.IndexByte(body, '/'); i >= 0 {
					fired = "step-changed"
					return [][]byte{[]byte("#SUCC:" + body[:i] + "/" + fmt.Sprint(rng.Intn(100000)) + "\n")}
				}
			}
		}
		if kind == "echo" {
			d := append([]byte{}, sum[:]...)
			switch op % 4 {
			case 0:
				fired = "echo-one-byte"
				d[rng.Intn(16)] ^= byte(1 << uint(rng.Intn(8)))
			case 1:
				fired = "echo-prefix"
				d = d[:rng.Intn(16)]
			case 2:
				fired = "echo-longer"
				d = append(d, byte(rng.Intn(256)))
			case 3:
				fired = "echo-random"
				rng.Read(d)
			}
			return [][]byte{[]byte("#SUCC:" + trzsz.VerifEncodeBytes(d) + "\n")}
		}
		// a flipped bit somewhere in the line
		fired = "bit-flip"
		nb := append([]byte{}, line...)
		nb[rng.Intn(len(nb))] ^= byte(1 << uint(rng.Intn(8)))
		return [][]byte{nb}
	}
	sdone, _, shung := trzsz.VerifSendOneFile(sc.fcfg, sc.content, peer2.onWrite, c02sDeadline)
	if fired == "" {
		fired = "none"
	}
	sc.cnt = append(sc.cnt, "send-mutation:"+target+":"+fired)
	if shung {
		sc.violate("file-script:sender-undecided", "the real sender neither completed nor failed within the deadline", "mutation "+target+":"+fired)
	}
	sc.emitSender(peer2, size, sum[:], sdone, fired)
}

// emitSender: the model's verdict on the acks that were delivered to the real sender
func (sc *c02sCase) emitSender(p *c02sPeer, size int64, mine []byte, done bool, fired string) {
	g := &sc.g
	p.mu.Lock()
	delivered := append([]byte{}, p.delivered.Bytes()...)
	var sent []string
	if g.pipeline() {
		for _, f := range p.frames {
			sent = append(sent, fmt.Sprint(len(f)))
		}
	} else {
		for _, c := range p.chunks {
			sent = append(sent, fmt.Sprint(len(c)))
		}
	}
	p.mu.Unlock()
	acks := c02tTypeAck(c02tLex(delivered, false, g.v3(), 0), g)
	// the sender may have failed before it sent everything: what it expects acknowledged is what
	// it WOULD send; for the model the frames of the clean run are used when this run is shorter
	if fired != "clean" && fired != "none" && len(sent) < len(sc.cleanSent) {
		sent = sc.cleanSent
	}
	if fired == "clean" {
		sc.cleanSent = sent
	}
	s := "-"
	if len(sent) > 0 {
		s = strings.Join(sent, ".")
	}
	sc.emits = append(sc.emits, c02sEmit{fired != "clean" && fired != "none", "send_file_verdict", c02sB(done, "1", "0"),
		[]string{fmt.Sprint(g.proto), fmt.Sprint(size), hx(mine), s, c02sAckTokens(acks)}})
	sc.cnt = append(sc.cnt, "send-outcome:"+c02sB(done, "done", "failed"))
	if done {
		// direct oracle: done only after an echoed digest equal to its own
		ok := false
		for _, a := range acks {
			if a.kind == "SUCCS" && bytes.Equal(a.raw, mine) {
				ok = true
			}
		}
		if !ok {
			sc.violate("file-script:sender-done-without-echo", "the sender counts a file as done although no echoed digest equal to its own was delivered",
				"mutation "+fired+" acks "+c02sAckTokens(acks))
		}
	}
}

func minInt64v(a, b int64) int64 {
	if a < b {
		return a
	}
	return b
}

// isCompressFixed as both ends evaluate it (sizes below the 128 KiB threshold only): the
// decision is regenerated into the model for C01; here it only selects the decoder stack
func c02sCompress(f trzsz.VerifFileCfg, size int64) (bool, bool) {
	if f.Protocol < 3 {
		return true, !f.Binary
	}
	if f.Compress == 1 {
		return true, true
	}
	if f.Compress == 2 {
		return true, false
	}
	if size < 512 {
		return true, false
	}
	return true, true
}

// what the receiver writes for the typed lines (used to forge a digest that matches the damage)
func c02sWouldWrite(g *c02tCfg, f trzsz.VerifFileCfg, size int64, typed []c02tMsg) ([]byte, bool) {
	if g.pipeline() {
		var fs [][]byte
		for _, m := range typed {
			if m.kind == "DATA" {
				if len(m.frame) == 0 {
					_, cp := c02sCompress(f, size)
					return c02tDecodeFrames(g, cp, fs)
				}
				fs = append(fs, m.frame)
			} else if m.kind != "KEEP" {
				return nil, false
			}
		}
		return nil, false
	}
	var w []byte
	for _, m := range typed {
		if int64(len(w)) >= size {
			break
		}
		if m.kind != "DATA" || !m.chunkOK {
			return nil, false
		}
		w = append(w, m.chunk...)
	}
	return w, int64(len(w)) >= size
}

func genFileScript(c *ctx) {
	n := c.pick(360, 4000)
	cases := make([]*c02sCase, n)
	protos := []int{1, 2, 3, 4}
	for i := range cases {
		sc := &c02sCase{seed: c.rng.Int63(), idx: i}
		sc.g.proto = protos[i%4]
		sc.g.binary = (i/4)%2 == 0
		sc.g.compress = (i / 8) % 3
		sc.g.maxData = 20 << 20
		if sc.g.binary {
			sc.g.pairs = builtinPairs((i/24)%2 == 1)
			t, err := trzsz.VerifParseEscapeTable(tableJSON(sc.g.pairs))
			if err != nil {
				panic(err)
			}
			sc.g.table = t
		}
		sc.fcfg = trzsz.VerifFileCfg{Protocol: sc.g.proto, Binary: sc.g.binary, Compress: sc.g.compress, Table: sc.g.table, TimeoutSec: 1}
		size := []int{0, 1, 2, 30, 511, 512, 513, 700 + c.rng.Intn(900), 1024, 1025, 2048 + c.rng.Intn(3000)}[c.rng.Intn(11)]
		if i%12 >= 5 && i%12 <= 7 && i%24 < 12 && sc.g.proto >= 2 {
			sc.sizeZero = true
			size = []int{1, 2, 30, 600, 3000}[c.rng.Intn(5)]
		}
		sc.content = fillBytes(c.rng, size, c.rng.Intn(4))
		cases[i] = sc
	}
	parallelDo(n, 32, func(i int) { cases[i].run() })
	for _, sc := range cases {
		c.count(fmt.Sprintf("proto:%d", sc.g.proto))
		c.count(fmt.Sprintf("binary:%v", sc.g.binary))
		c.count(fmt.Sprintf("compress:%d", sc.g.compress))
		for _, k := range sc.cnt {
			c.count(k)
		}
		for _, v := range sc.viols {
			c.violate(v.key, v.what, v.detail)
		}
		for _, e := range sc.emits {
			c.emit(e.nontrivial, e.fn, e.res, e.args...)
		}
	}
}
