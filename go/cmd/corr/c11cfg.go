package main

// group "cfgtimeout" (C11, "a timeout of zero or less means the user asked to wait
// indefinitely"): the REAL handshake in-process (client sendAction, server recvAction +
// sendConfig, client recvConfig over two pipes) for every timeout of a small ladder around
// zero x the other members of the CFG record (and the same two lines through the real relay
// handshake for a client behind a jump host); the timeout both ends work with afterwards,
// whether getNewTimeout arms a timer on either end and whether the record carried the member,
// vs the extracted model run on the shape regenerated from the source.
//
// Direct oracle timeout-not-honoured:<value>:<side>: an end does not work with the announced
// value, or arms a timer for a value <= 0, or arms none for a positive one.

import (
	"fmt"

	"github.com/trzsz/trzsz-go/trzsz"
)

func init() { groups["cfgtimeout"] = genCfgTimeout }

func c11CfgDesc(a trzsz.VerifCfgArgs) string {
	return fmt.Sprintf("VerifCfgHandshake{Timeout:%d Quiet:%v Overwrite:%v Binary:%v Escape:%v Directory:%v Bufsize:%d Compress:%d TmuxMode:%d PaneWidth:%d OldServer:%v}",
		a.Timeout, a.Quiet, a.Overwrite, a.Binary, a.Escape, a.Directory, a.Bufsize, a.Compress, a.TmuxMode, a.PaneWidth, a.OldServer)
}

func genCfgTimeout(c *ctx) {
	timeouts := []int{-5, -1, 0, 1, 7, 20, 100}
	if c.thorough() {
		timeouts = append(timeouts, -2147483648, -100, 2, 19, 21, 3600, 2147483647)
	}
	var all []trzsz.VerifCfgArgs
	for _, t := range timeouts {
		// the plain record, then every other member switched on its own, then random mixtures
		base := trzsz.VerifCfgArgs{Timeout: t, Bufsize: 10 << 20}
		all = append(all, base)
		for k := 0; k < 9; k++ {
			a := base
			switch k {
			case 0:
				a.Quiet = true
			case 1:
				a.Overwrite = true
			case 2:
				a.Binary = true
			case 3:
				a.Binary, a.Escape = true, true
			case 4:
				a.Directory = true
			case 5:
				a.Bufsize = 1024
			case 6:
				a.Compress = 1 + c.rng.Intn(2)
			case 7:
				a.TmuxMode, a.PaneWidth = 1, 80
			case 8:
				a.OldServer = true
			}
			all = append(all, a)
		}
		for k := 0; k < c.pick(6, 40); k++ {
			a := trzsz.VerifCfgArgs{Timeout: t, Quiet: c.rng.Intn(2) == 0, Overwrite: c.rng.Intn(2) == 0, Binary: c.rng.Intn(2) == 0,
				Escape: c.rng.Intn(2) == 0, Directory: c.rng.Intn(2) == 0, Bufsize: int64(1024 << c.rng.Intn(20)), Compress: c.rng.Intn(3),
				TmuxMode: c.rng.Intn(3), PaneWidth: int32(c.rng.Intn(3) * 60), OldServer: c.rng.Intn(4) == 0}
			all = append(all, a)
		}
	}
	res := make([]trzsz.VerifCfgResult, len(all))
	parallelDo(len(all), 16, func(i int) { res[i] = trzsz.VerifCfgHandshake(all[i]) })
	for i, a := range all {
		r := res[i]
		out := fmt.Sprintf("srv=%d;cli=%d;srvarmed=%s;cliarmed=%s;key=%s;relaycli=%d;relayarmed=%s", r.ServerTimeout, r.ClientTimeout,
			c11b(r.ServerArmed), c11b(r.ClientArmed), c11b(r.HasKey), r.RelayClientTimeout, c11b(r.RelayClientArmed))
		if r.RelayErr == "skipped" {
			out = fmt.Sprintf("srv=%d;cli=%d;srvarmed=%s;cliarmed=%s;key=%s;relay=skipped", r.ServerTimeout, r.ClientTimeout,
				c11b(r.ServerArmed), c11b(r.ClientArmed), c11b(r.HasKey))
		} else if r.RelayErr != "" {
			out += ";relayerr"
			c.violate("cfgtimeout:relay-handshake-failed", "the handshake through the relay failed", c11CfgDesc(a)+" :: "+r.RelayErr)
		}
		if r.Err != "" {
			out = "err"
			c.violate("cfgtimeout:handshake-failed", "the in-process handshake failed", c11CfgDesc(a)+" :: "+r.Err)
		}
		c.emit(a.Timeout <= 0 || a.Timeout != 20, "cfg_timeout", out, fmt.Sprint(a.Timeout), c11b(a.Quiet), c11b(a.Overwrite), c11b(a.Binary), c11b(a.Escape),
			c11b(a.Directory), fmt.Sprint(a.Bufsize), fmt.Sprint(a.Compress), fmt.Sprint(a.TmuxMode), fmt.Sprint(a.PaneWidth), c11b(a.OldServer))
		c.count(fmt.Sprintf("timeout:%d", a.Timeout))
		if r.Err != "" {
			continue
		}
		for _, e := range []struct {
			side  string
			val   int
			armed bool
		}{{"server", r.ServerTimeout, r.ServerArmed}, {"client", r.ClientTimeout, r.ClientArmed},
			{"client-behind-relay", r.RelayClientTimeout, r.RelayClientArmed}} {
			if e.side == "client-behind-relay" && r.RelayErr != "" {
				continue
			}
			if e.val != a.Timeout || e.armed != (a.Timeout > 0) {
				c.violate(fmt.Sprintf("timeout-not-honoured:%d:%s", a.Timeout, e.side),
					"after the real handshake an end does not work with the announced timeout (<= 0 means wait indefinitely: no timer may be armed)",
					fmt.Sprintf("%s => the %s works with Timeout %d, getNewTimeout() armed=%v; the CFG record has a timeout member: %v (%d)",
						c11CfgDesc(a), e.side, e.val, e.armed, r.HasKey, r.KeyValue))
			}
		}
		if r.HasKey && r.KeyValue != a.Timeout {
			c.violate(fmt.Sprintf("timeout-not-honoured:%d:record", a.Timeout), "the CFG record announces another timeout than the server was given",
				fmt.Sprintf("%s => record says %d", c11CfgDesc(a), r.KeyValue))
		}
	}
}
