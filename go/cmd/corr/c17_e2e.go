package main

// C17, group "tunnel-e2e": the REAL client (trzsz.NewTrzszFilter with SetTunnelConnector) against
// the REAL trz / tsz child processes; the harness learns id and port from the trigger line
// (`::TRZSZ:TRANSFER:R:<ver>:<13-digit id>:<port>`), holds the trigger back while scripted intruders
// talk to the child's tunnel port, lets the client connect (or refuse / be late / return a dead
// connection / reach somebody who never answers), and lets stragglers and late-comers act
// after the genuine handshake.
//
//   tunnel_e2e   per-connection observation (answered / closed unanswered / open / refused) and
//                the path the transfer took (T = tunnel: no ACT on the in-band wire; I = in-band)
//                vs  TunnelReplay.rreplay composed with Tunnel.client_decides
//
// Direct oracles: an intruder got an answer; an unauthenticated connection not closed; the
// transfer does not complete, or the destination differs from the source (intruder bytes, or
// in-band garbage after the tunnel was agreed, influenced it); no completion in-band when no
// tunnel could be established.

import (
	"bytes"
	"fmt"
	"math/rand"
	"net"
	"os"
	"path/filepath"
	"regexp"
	"strconv"
	"strings"
	"sync"
	"sync/atomic"
	"time"

	"github.com/trzsz/trzsz-go/trzsz"
)

func init() { groups["tunnel-e2e"] = genC17E2E }

var c17TriggerRe = regexp.MustCompile(`::TRZSZ:TRANSFER:[SRD]:\d+\.\d+\.\d+:(\d{13}):(\d+)`)

const (
	c17OutGenuine = iota
	c17OutRefuse
	c17OutLate
	c17OutDead
	c17OutSilentFar
	c17NOut
)

var c17OutName = []string{"genuine", "refuses", "late", "dead", "reaches-a-silent-stranger"}

type c17Conn struct {
	net.Conn
	reads  atomic.Int32
	onRead func(k int32)
}

func (w *c17Conn) Read(b []byte) (int, error) {
	n, err := w.Conn.Read(b)
	if n > 0 && w.onRead != nil {
		w.onRead(w.reads.Add(1))
	}
	return n, err
}

type c17E2ECase struct {
	seed       int64
	upload     bool
	pre        []int  // kinds of the connections made while the trigger is held back
	straggle   []bool // pre[i] only connects early and writes after the genuine handshake
	post       []int  // kinds of the connections made after the genuine handshake
	outcome    int
	desc       string
	line       *c17Line
	viol       [][3]string
	lc         *ctx
	path       string
	nontrivial bool
	stuck      bool // sendAction-stuck, or abandoned by the watchdog
	skipped    bool
}

// a transfer of this group takes about a second (the late connector 1.2 s more); runTransfer gives up
// after c17E2EDeadline, the watchdog around the whole scenario after c17E2ELimit
const c17E2EDeadline = 10 * time.Second
const c17E2ELimit = 40 * time.Second

func c17RunE2E(ec *c17E2ECase, work string, prog *c17Progress) {
	rng := rand.New(rand.NewSource(ec.seed))
	root := filepath.Join(work, fmt.Sprint(ec.seed))
	os.MkdirAll(filepath.Join(root, "src"), 0755)
	os.MkdirAll(filepath.Join(root, "dest"), 0755)
	defer os.RemoveAll(root)
	srcFile := filepath.Join(root, "src", "payload.bin")
	content := fillBytes(rng, 150000+rng.Intn(200000), rng.Intn(4))
	os.WriteFile(srcFile, content, 0644)

	lc := &ctx{rng: rng, tier: "quick", stats: map[string]int{}, seen: map[string]bool{}}
	ec.lc = lc
	sc := &c17Scenario{c: lc, rng: rng, adopted: -1}
	prog.set(sc)
	var hsDone atomic.Bool // the client's connection read the server hello
	var stragglers []*c17Peer
	var stragKinds []int
	genuine := -1 // index of the genuine client's connection among sc.peers
	var mu sync.Mutex
	triggerSeen := false
	var silentLn net.Listener
	if ec.outcome == c17OutSilentFar {
		silentLn, _ = net.Listen("tcp", "127.0.0.1:0")
		if silentLn != nil {
			defer silentLn.Close()
			go func() {
				for {
					c, err := silentLn.Accept()
					if err != nil {
						return
					}
					defer c.Close()
				}
			}()
		}
	}
	handshake := make(chan struct{}, 1) // the client read the server hello
	noHandshake := make(chan struct{})  // … or it is known that it never will
	var noHsOnce sync.Once
	giveUp := func() { noHsOnce.Do(func() { close(noHandshake) }) }
	agreed := make(chan struct{}, 1) // the server answered over the tunnel after the ACT
	postDone := make(chan struct{})

	hook := func(dir int, idx int, b []byte) e2eAction {
		if dir != dirS2C {
			return e2eAction{}
		}
		mu.Lock()
		seen := triggerSeen
		mu.Unlock()
		if seen {
			return e2eAction{}
		}
		m := c17TriggerRe.FindSubmatch(b)
		if m == nil {
			return e2eAction{}
		}
		mu.Lock()
		triggerSeen = true
		mu.Unlock()
		sc.mu.Lock()
		sc.uid = string(m[1])
		sc.port, _ = strconv.Atoi(string(m[2]))
		sc.mu.Unlock()
		prog.step("trigger seen, pre-phase")
		// pre-phase, one event at a time
		for i, k := range ec.pre {
			p := sc.connect(k)
			sc.addDesc(c17KindName[k])
			if ec.straggle[i] {
				stragglers = append(stragglers, p)
				stragKinds = append(stragKinds, k)
				continue
			}
			for _, w := range c17Script(rng, k, sc.uid, sc.port) {
				sc.write(p, w)
				if k == c17Split {
					time.Sleep(30 * time.Millisecond)
				}
			}
			if k == c17CloseNow && !p.refused {
				p.end()
				sc.addEv(c17Ev{op: 'x', conn: p.idx})
			}
		}
		return e2eAction{}
	}

	connector := func(port int) net.Conn {
		defer func() {
			go func() { // post-phase
				defer close(postDone)
				if ec.outcome == c17OutLate {
					return // the genuine connection itself is the late-comer; nothing after it
				}
				select {
				case <-handshake:
					sc.waitListenerClosed()
				case <-noHandshake:
				case <-time.After(3 * time.Second):
				}
				for i, p := range stragglers {
					for _, w := range c17Script(rng, stragKinds[i], sc.uid, sc.port) {
						sc.write(p, w)
					}
					if p.idx != sc.adopted {
						// (an ADOPTED connection is an authenticated one: what it sends is the transfer's input by design)
						sc.write(p, []byte(fmt.Sprintf("<D%d>#DATA:5\njunk\n#FAIL:eJwDAAAAAAE=\n", p.idx)))
					}
				}
				for _, k := range ec.post {
					p := sc.connect(k)
					sc.addDesc(c17KindName[k])
					for _, w := range c17Script(rng, k, sc.uid, sc.port) {
						sc.write(p, w)
					}
				}
			}()
		}()
		switch ec.outcome {
		case c17OutRefuse:
			giveUp()
			return nil
		case c17OutLate:
			time.Sleep(1200 * time.Millisecond)
		case c17OutSilentFar:
			giveUp()
			if silentLn == nil {
				return nil
			}
			conn, err := net.Dial("tcp", silentLn.Addr().String())
			if err != nil {
				return nil
			}
			return conn
		}
		// the genuine connection is one more connection in the event list
		sc.confirmAccepted()
		p := &c17Peer{idx: len(sc.peers)}
		conn, err := net.DialTimeout("tcp", "127.0.0.1:"+strconv.Itoa(port), 2*time.Second)
		sc.peers = append(sc.peers, p)
		sc.kinds = append(sc.kinds, c17Right)
		sc.addDesc("GENUINE")
		sc.addEv(c17Ev{op: 'c'})
		genuine = p.idx
		if err != nil {
			p.refused = true
			giveUp()
			return nil
		}
		p.local = conn.LocalAddr().String()
		if ec.outcome == c17OutDead {
			giveUp()
			conn.Close()
			p.selfEnd = true
			sc.addEv(c17Ev{op: 'x', conn: p.idx})
			return conn
		}
		ch, sh := trzsz.VerifGetHelloConstant(sc.uid, port)
		p.sent = []byte(ch) // what connectToTunnel is expected to write first (checked by group "tunnel")
		sc.addEv(c17Ev{op: 'w', conn: p.idx, data: []byte(ch)})
		w := &c17Conn{Conn: conn}
		w.onRead = func(k int32) {
			if k == 1 {
				hsDone.Store(true)
				p.mu.Lock()
				p.got = []byte(sh) // the filter keeps the bytes; group "tunnel" checks them exactly
				p.mu.Unlock()
				if sc.adopted == -1 {
					sc.adopted = p.idx
				}
				select {
				case handshake <- struct{}{}:
				default:
				}
			}
			if k == 2 {
				select {
				case agreed <- struct{}{}:
				default:
				}
			}
		}
		return w
	}

	cfg := e2eCfg{upload: ec.upload, timeout: 10, deadline: c17E2EDeadline, startWait: 6 * time.Second, proto: -1, quiet: true, hook: hook, connector: connector, overwrite: false}
	cfg.onStart = func(r *e2eRun) {
		// once the server has answered over the tunnel, in-band bytes must be ignored
		select {
		case <-agreed:
			r.stdin.Write([]byte("#DATA:3\nxyz\n#FAIL:eJwDAAAAAAE=\n"))
			lc.count("e2e:inband-garbage-after-agreement")
		case <-time.After(5 * time.Second):
		}
	}
	prog.step("runTransfer")
	res := runTransfer(cfg, []string{srcFile}, filepath.Join(root, "dest"))
	prog.step("transfer over, waiting for the post-phase")
	select {
	case <-postDone:
	case <-time.After(5 * time.Second):
	}
	prog.step("oracles")
	ec.desc = fmt.Sprintf("e2e upload=%v pre=%v straggle=%v outcome=%s post=%v :: %s", ec.upload, ec.pre, ec.straggle, c17OutName[ec.outcome], ec.post, sc.describe())

	// what the far ends saw (classified before the child exited would be ideal; a closed socket after
	// exit cannot be told from a close before it, so only answers and refusals are taken from here)
	time.Sleep(5 * time.Millisecond)
	sc.oraclesE2E()
	for _, v := range lc.violations {
		ec.viol = append(ec.viol, [3]string{v["key"], v["what"], v["detail"]})
	}
	// transfer outcome
	ok := !res.hung && res.clientDone && res.serverExited && (!ec.upload || res.uploadErr == nil)
	got, err := os.ReadFile(filepath.Join(root, "dest", "payload.bin"))
	same := err == nil && bytes.Equal(got, content)
	ec.path = "I"
	if !bytes.Contains(res.wire[dirC2S], []byte("#ACT:")) {
		ec.path = "T"
	}
	if !ok || !same {
		what := "the transfer did not complete with the source's bytes at the destination"
		key := "tunnel-e2e:transfer-failed:" + c17OutName[ec.outcome]
		if res.hung && res.started && !res.clientDone && ec.path == "T" && !hsDone.Load() {
			// the client recognised the trigger and never sent an ACT, neither in-band nor (no hello was read) over a tunnel
			what = "the client's sendAction never got past the wait for the tunnel: no ACT on either path before the deadline"
			key = "tunnel-e2e:sendAction-stuck:" + c17OutName[ec.outcome]
			ec.stuck = true
		} else if ec.path == "I" {
			what = "no tunnel was used and the in-band transfer did not complete with the source's bytes"
			key = "tunnel-e2e:no-fallback:" + c17OutName[ec.outcome]
		}
		ec.viol = append(ec.viol, [3]string{key, what, fmt.Sprintf("%s :: hung=%v clientDone=%v serverExited=%v code=%d uploadErr=%v same=%v tail=%q",
			ec.desc, res.hung, res.clientDone, res.serverExited, res.serverCode, res.uploadErr, same, tailStr(res.termOut+"|"+res.serverOut, 300))})
	}
	if ec.path == "T" && bytes.Contains(res.wire[dirC2S], []byte("#DATA:")) {
		ec.viol = append(ec.viol, [3]string{"tunnel-e2e:data-in-band-with-tunnel", "payload went over the terminal although the tunnel was agreed", ec.desc})
	}
	// the model line: per-connection answered/refused + path
	var obs []string
	for _, p := range sc.peers {
		o := p.obs()
		if strings.HasPrefix(o, "R") && !(p.idx == genuine && ec.outcome == c17OutLate) {
			o = "R"
		} else {
			// refused / closed / open / self-closed are not distinguishable once the child has exited;
			// whether the late genuine connection still finds the child alive is not compared either
			o = "-"
		}
		obs = append(obs, o)
	}
	g := "-"
	if genuine >= 0 {
		g = strconv.Itoa(genuine)
	}
	late := "0"
	if ec.outcome == c17OutLate || ec.outcome == c17OutSilentFar {
		late = "1"
	}
	class := "genuine"
	switch ec.outcome {
	case c17OutRefuse:
		class = "nil"
	case c17OutSilentFar:
		class = "stranger"
	case c17OutDead:
		class = "dead"
	}
	if sc.uid != "" {
		ec.line = &c17Line{true, "tunnel_e2e", strings.Join(obs, ",") + "|path=" + ec.path,
			[]string{hx([]byte(sc.uid)), strconv.Itoa(sc.port), c17EvString(sc.evs), g, class, late}}
	}
	for _, p := range sc.peers {
		p.end()
	}
}

// oraclesE2E: the subset of oracles() that does not need the server's internals
func (sc *c17Scenario) oraclesE2E() {
	_, sh := trzsz.VerifGetHelloConstant(sc.uid, sc.port)
	for _, p := range sc.peers {
		g, _ := p.state()
		auth := c17Authenticates(p.sent, sc.uid, sc.port)
		kind := c17KindName[sc.kinds[p.idx]]
		if len(g) > 0 && !auth {
			sc.c.violate("tunnel-e2e:intruder-answered:"+kind, "a connection that never presented the hello of this transfer received bytes from the server",
				fmt.Sprintf("conn=%d sent=%q received=%q :: %s", p.idx, c17Short(p.sent), c17Short(g), sc.describe()))
		}
		if len(g) > 0 && string(g) != sh {
			sc.c.violate("tunnel-e2e:answer-not-hello:"+kind, "the server wrote something other than exactly one server hello to a connection",
				fmt.Sprintf("conn=%d received=%q :: %s", p.idx, c17Short(g), sc.describe()))
		}
	}
}

func genC17E2E(c *ctx) {
	work, _ := os.MkdirTemp("", "c17_e2e_")
	defer os.RemoveAll(work)
	n := c.pick(72, 900)
	cases := make([]*c17E2ECase, n)
	intr := []int{c17Wrong, c17PrefixWrongID, c17Split, c17Extended, c17Full13, c17Flood, c17Silent, c17CloseNow, c17ServerHello}
	for i := range cases {
		ec := &c17E2ECase{seed: c.rng.Int63(), upload: i%2 == 0}
		// corpus: each connector outcome alone and with intruders; then random
		ec.outcome = i % c17NOut
		if i >= 3*c17NOut && c.rng.Intn(2) == 0 {
			ec.outcome = c17OutGenuine
		}
		if ec.outcome == c17OutLate && i >= 2*c17NOut && c.rng.Intn(2) == 0 {
			ec.outcome = c17OutGenuine // the late ones cost a second each
		}
		if i >= c17NOut {
			np := c.rng.Intn(4)
			for j := 0; j < np; j++ {
				k := intr[c.rng.Intn(len(intr))]
				st := false
				switch c.rng.Intn(6) {
				case 0: // a second genuine greeting: first (wins) or held back until after the handshake (loses)
					k = c17Right
					st = c.rng.Intn(3) != 0
				case 1:
					st = k != c17Silent && k != c17CloseNow
				}
				ec.pre = append(ec.pre, k)
				ec.straggle = append(ec.straggle, st)
			}
			for j := c.rng.Intn(3); j > 0; j-- {
				k := intr[c.rng.Intn(len(intr))]
				if c.rng.Intn(4) == 0 {
					k = c17Right
				}
				ec.post = append(ec.post, k)
			}
		}
		cases[i] = ec
	}
	parallelDo(n, 12, func(i int) {
		class := "e2e:" + c17OutName[cases[i].outcome]
		if c17StuckCount(class) >= c17StuckLimit {
			cases[i].skipped = true
			return
		}
		prog := &c17Progress{}
		ec, finished := c17Guard(c17E2ELimit, func() *c17E2ECase {
			ec := *cases[i] // the scenario works on its own copy: an abandoned one is never looked at again
			c17RunE2E(&ec, work, prog)
			return &ec
		})
		if !finished {
			ec = cases[i]
			ec.stuck = true
			ec.path = "abandoned"
			ec.viol = append(ec.viol, [3]string{"tunnel-e2e:scenario-stuck:" + c17OutName[ec.outcome], "an end-to-end scenario did not finish (watchdog)",
				fmt.Sprintf("no end within %v; e2e seed=%d upload=%v pre=%v straggle=%v outcome=%s post=%v :: %s", c17E2ELimit, ec.seed, ec.upload, ec.pre, ec.straggle, c17OutName[ec.outcome], ec.post, prog)})
		}
		if ec.stuck {
			c17StuckAdd(class)
		}
		cases[i] = ec
	})
	for _, ec := range cases {
		if ec.skipped {
			c.count("skipped-after-stuck:e2e:" + c17OutName[ec.outcome])
			continue
		}
		if ec.lc != nil {
			for k, v := range ec.lc.stats {
				c.stats[k] += v
			}
		}
		for _, v := range ec.viol {
			c.violate(v[0], v[1], v[2])
		}
		c.count("e2e:outcome:" + c17OutName[ec.outcome])
		c.count("e2e:path:" + ec.path)
		c.count(fmt.Sprintf("e2e:upload:%v", ec.upload))
		for i, k := range ec.pre {
			if ec.straggle[i] {
				c.count("e2e:straggler:" + c17KindName[k])
			} else {
				c.count("e2e:pre:" + c17KindName[k])
			}
		}
		if ec.path == "abandoned" {
			continue
		}
		if ec.line != nil {
			c.emit(true, ec.line.fn, ec.line.result, ec.line.args...)
		} else {
			c.note(false, "e2e without trigger: "+ec.desc)
			c.violate("tunnel-e2e:no-trigger", "the child never announced a transfer", ec.desc)
		}
	}
}
