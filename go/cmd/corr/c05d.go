package main

// C05, strata added for "idle transparency after EVERY way a drag-and-drop or a transfer can
// be called off or finish" (group filter-history):
//
//   - drag histories on the real filter, followed in real time: drop then a key of every class
//     within the 300 ms window (the upload is called off), drop then an ignored chunk, drop then
//     nothing with an upload command the remote shell does not know, two drops (within the
//     window / while the 3 s bookkeeping of the first is still running / one after the other),
//     a key during the 3 s, a drop while a transfer runs, a drop whose upload the server fails,
//     a drop that ends in a real upload (real trz child).  Each history ends with a probe:
//     plain text, escape sequences, near-miss triggers, zmodem- and OSC52-like fragments must
//     reach the terminal byte for byte, typed input must reach the server.  Where the history
//     contains no transfer the same event list goes to the extracted model (c05_run) as well.
//   - histories under SetAffectedByWindows(true): a finished / refused transfer, then the OLD
//     trigger line is displayed again (ids ending 00, 10, 20): it must pass through untouched
//     and must not start anything.

import (
	"bytes"
	"fmt"
	"math/rand"
	"os"
	"path/filepath"
	"strings"
	"time"

	"github.com/trzsz/trzsz-go/trzsz"
)

// feeding with a token for the model
func (x *c05F) tin(b []byte)  { x.in(b); x.toks = append(x.toks, "i"+hx(b)) }
func (x *c05F) tout(b []byte) { x.out(b); x.toks = append(x.toks, "o"+hx(b)) }
func (x *c05F) tg(i int)      { x.toks = append(x.toks, fmt.Sprintf("g%d", i)) }

// probeTok: like probe, with fixed first items (plain text, escape sequence, near-miss trigger)
// and with tokens.  Returns "" or the first chunk that did not pass through unchanged.
func (x *c05F) probeTok(rng *rand.Rand, o trzsz.TrzszOptions, n int) string {
	fixed := [][]byte{
		[]byte("plain text after the history\r\n$ "),
		[]byte("\x1b[1;32muser@host\x1b[0m:\x1b[1;34m~\x1b[0m$ \x1b[K"),
		[]byte("\x1b7\x07::TRZSZ:TRANSFER:R:1.1.6\r\n"), // no id: 23 bytes of marker text, below the detector's minimum
		[]byte("::TRZSZ:TRANSFER:X:1.1.6:0000000000100\r\n"),
		[]byte("trz\r\n"),
		[]byte("^C\r\n"),
	}
	for k := 0; k < n; k++ {
		var b []byte
		if k < len(fixed) {
			b = fixed[k]
		} else {
			switch rng.Intn(5) {
			case 0:
				b = c05Random(rng)
			case 1:
				b = []byte(c05Escapes[rng.Intn(len(c05Escapes))])
			case 2:
				nm := c05NearMisses(rng, c05Trigger(rng), 1)
				if len(nm) == 0 {
					continue
				}
				b = nm[0]
			case 3:
				b = c05Zmodemish(rng)
			case 4:
				b = c05Osc52ish(rng)
			}
		}
		if len(b) == 0 || trzsz.VerifFreshDetectorFires(b) || (o.EnableZmodem && trzsz.VerifZmodemFires(b)) ||
			bytes.Contains(b, []byte("_TRZSZ_TRACE_LOG>")) {
			continue
		}
		from := x.rec.length()
		x.tout(b)
		if got := x.rec.snapshot()[from:]; !c05Only(got, 't', b) {
			return fmt.Sprintf("server output %q arrived at the terminal as %v", b, got)
		}
		in := c05Random(rng)
		if c05PathShaped(in) {
			in[len(in)-1] = '.'
		}
		switch rng.Intn(5) {
		case 0:
			in = []byte{3}
		case 1:
			in = []byte("ls -l\r")
		}
		if files, _, _, _ := trzsz.VerifDetectDragFiles(in); files != nil {
			continue
		}
		from = x.rec.length()
		x.tin(in)
		if got := x.rec.snapshot()[from:]; !c05Only(got, 's', in) {
			return fmt.Sprintf("typed input %q arrived at the server as %v", in, got)
		}
	}
	return ""
}

// key classes typed after a drop
var c05Keys = []struct {
	name string
	b    string
}{
	{"letter", "x"}, {"enter", "\r"}, {"ctrl-c", "\x03"}, {"ctrl-u", "\x15"}, {"backspace", "\x7f"},
	{"arrow", "\x1b[A"}, {"tab", "\t"}, {"word", "ls -l\r"}, {"paste-text", "\x1b[200~echo hi\x1b[201~"},
	{"absent-path", "/no/such/file "}, {"windows-path", "C:\\Users\\x\\a.txt "}, {"utf8", "\xc3\xa4"},
}

func (x *c05F) dragCommand(hasDir bool) string {
	if hasDir {
		return "trz -d"
	}
	return "trz"
}

// drop feeds a list of existing paths: it must be swallowed
func (x *c05F) drop(rng *rand.Rand) (hasDir bool, err string) {
	list, hd := x.paths.aDrag(rng)
	from := x.rec.length()
	x.tin(list)
	if got := x.rec.snapshot()[from:]; len(got) != 0 {
		return hd, fmt.Sprintf("the dropped path list %q was not held back: %v", list, got)
	}
	return hd, ""
}

// calledOff: the upload goroutine wakes up 300 ms after the drop, finds nothing to upload and
// must leave no trace (no ctrl-C, no flag)
func (x *c05F) calledOff(from int, key []byte) string {
	time.Sleep(420 * time.Millisecond)
	x.tg(0)
	if sv := x.rec.bytesSince(from, 's'); !bytes.Equal(sv, key) {
		return fmt.Sprintf("a called-off drag upload still wrote to the server: %q (typed: %q)", sv, key)
	}
	return ""
}

// uploadRuns follows a drag upload up to the typed command: ctrl-C, the output of the next
// 200 ms is dropped (documented), the command, its echo is replaced by CR LF
func (x *c05F) uploadRuns(from int, full string) string {
	if !x.waitFor('s', []byte{3}, from, 3*time.Second) {
		return "the drag upload never sent ctrl-C"
	}
	x.tg(0)
	x.tout([]byte("^C\r\n$ "))
	if !x.waitFor('s', []byte(full+"\r"), from, 3*time.Second) {
		return "the drag upload never typed " + full
	}
	x.tg(0)
	// DIRECT ORACLE: of the echo only CR LF is shown, and output passes again from here on
	at := x.rec.length()
	x.tout([]byte(full + "\r\n"))
	if got := x.rec.snapshot()[at:]; !c05Only(got, 't', []byte("\r\n")) {
		return fmt.Sprintf("the echo of the upload command %q was shown as %v", full, got)
	}
	return ""
}

// toutMust: output that has to pass (the drag episode is past its 200 ms window)
func (x *c05F) toutMust(b []byte) string {
	at := x.rec.length()
	x.tout(b)
	if got := x.rec.snapshot()[at:]; !c05Only(got, 't', b) {
		return fmt.Sprintf("during the bookkeeping of a drag upload the server output %q arrived at the terminal as %v", b, got)
	}
	return ""
}

// the 3 s after the command, then resetDragFiles
func (x *c05F) bookkeepingEnds() {
	time.Sleep(3200 * time.Millisecond)
	x.tg(0)
}

func c05DragHistories() []c05Hist {
	var hs []c05Hist
	// drop, then a key of each class within the 300 ms window: called off
	for _, k := range c05Keys {
		k := k
		hs = append(hs, c05Hist{name: "drag:drop-then-" + k.name, drag: true, model: true,
			run: func(x *c05F, work string, rng *rand.Rand) string {
				from := x.rec.length()
				if _, e := x.drop(rng); e != "" {
					return e
				}
				time.Sleep(time.Duration([]int{0, 60, 150, 230}[rng.Intn(4)]) * time.Millisecond)
				at := x.rec.length()
				x.tin([]byte(k.b))
				if got := x.rec.snapshot()[at:]; !c05Only(got, 's', []byte(k.b)) {
					return fmt.Sprintf("the key %q typed after a drop arrived at the server as %v", k.b, got)
				}
				return x.calledOff(from, []byte(k.b))
			}})
	}
	notFound := func(x *c05F, full string) string {
		return x.toutMust([]byte("-bash: " + strings.Fields(full)[0] + ": command not found\r\n$ "))
	}
	hs = append(hs,
		// an empty bracketed paste is "ignored": it is forwarded and does NOT call the upload off
		c05Hist{name: "drag:drop-then-empty-paste", drag: true, model: true,
			run: func(x *c05F, work string, rng *rand.Rand) string {
				from := x.rec.length()
				hd, e := x.drop(rng)
				if e != "" {
					return e
				}
				x.tin([]byte("\x1b[200~\x1b[201~"))
				if e := x.uploadRuns(from, x.dragCommand(hd)); e != "" {
					return e
				}
				if e := notFound(x, x.dragCommand(hd)); e != "" {
					return e
				}
				x.bookkeepingEnds()
				return ""
			}},
		// nothing typed; the remote shell does not know the upload command
		c05Hist{name: "drag:drop-then-nothing-command-refused", drag: true, model: true,
			run: func(x *c05F, work string, rng *rand.Rand) string {
				from := x.rec.length()
				hd, e := x.drop(rng)
				if e != "" {
					return e
				}
				if e := x.uploadRuns(from, x.dragCommand(hd)); e != "" {
					return e
				}
				if e := notFound(x, x.dragCommand(hd)); e != "" {
					return e
				}
				x.tin([]byte("\r"))
				x.tout([]byte("$ "))
				x.bookkeepingEnds()
				return ""
			}},
		c05Hist{name: "drag:two-drops-within-window", drag: true, model: true,
			run: func(x *c05F, work string, rng *rand.Rand) string {
				from := x.rec.length()
				hd1, e := x.drop(rng)
				if e != "" {
					return e
				}
				time.Sleep(80 * time.Millisecond)
				hd2, e := x.drop(rng)
				if e != "" {
					return e
				}
				full := x.dragCommand(hd1 || hd2)
				if e := x.uploadRuns(from, full); e != "" {
					return e
				}
				if e := notFound(x, full); e != "" {
					return e
				}
				x.bookkeepingEnds()
				if n := bytes.Count(x.rec.bytesSince(from, 's'), []byte{3}); n != 1 {
					return fmt.Sprintf("two drops within the window sent ctrl-C %d times", n)
				}
				return ""
			}},
		// a second drop while the 3 s bookkeeping of the first upload is still running joins the
		// old list and is forgotten with it; a third drop afterwards starts a new upload
		c05Hist{name: "drag:second-drop-during-bookkeeping", drag: true, model: true,
			run: func(x *c05F, work string, rng *rand.Rand) string {
				from := x.rec.length()
				hd, e := x.drop(rng)
				if e != "" {
					return e
				}
				if e := x.uploadRuns(from, x.dragCommand(hd)); e != "" {
					return e
				}
				if e := notFound(x, x.dragCommand(hd)); e != "" {
					return e
				}
				if _, e := x.drop(rng); e != "" {
					return e
				}
				x.bookkeepingEnds()
				from = x.rec.length()
				hd, e = x.drop(rng)
				if e != "" {
					return e
				}
				if e := x.uploadRuns(from, x.dragCommand(hd)); e != "" {
					return "third drop: " + e
				}
				if e := notFound(x, x.dragCommand(hd)); e != "" {
					return e
				}
				x.bookkeepingEnds()
				return ""
			}},
		c05Hist{name: "drag:key-during-bookkeeping", drag: true, model: true,
			run: func(x *c05F, work string, rng *rand.Rand) string {
				from := x.rec.length()
				hd, e := x.drop(rng)
				if e != "" {
					return e
				}
				if e := x.uploadRuns(from, x.dragCommand(hd)); e != "" {
					return e
				}
				if e := notFound(x, x.dragCommand(hd)); e != "" {
					return e
				}
				k := c05Keys[rng.Intn(len(c05Keys))]
				x.tin([]byte(k.b))
				if e := x.toutMust([]byte("$ ")); e != "" {
					return e
				}
				x.bookkeepingEnds()
				return ""
			}},
		// ---- histories with a transfer: judged by the probes only ----
		// a drop while a transfer owns the streams is swallowed like every other key and starts nothing
		c05Hist{name: "drag:drop-while-transfer-runs", drag: true,
			run: func(x *c05F, work string, rng *rand.Rand) string {
				x.f.SetDefaultDownloadPath(work)
				if e := c05Handshake(x, 'S', "1.1.6", true); e != "" {
					return e
				}
				x.svrOut.Write(c05EncLine("CFG", c05CFG))
				if !c05WaitBusy(x, 2*time.Second) {
					return "never entered the transfer state"
				}
				from := x.rec.length()
				list, _ := x.paths.aDrag(rng)
				x.cliIn.Write(list)
				x.cliIn.Write(nil)
				time.Sleep(100 * time.Millisecond)
				x.svrOut.Write(c05EncLine("fail", "server side failure"))
				if !c05WaitIdle(x, 5*time.Second) {
					return "the transfer did not end"
				}
				time.Sleep(600 * time.Millisecond)
				if sv := x.rec.bytesSince(from, 's'); bytes.Contains(sv, []byte{3}) || bytes.Contains(sv, []byte("trz\r")) {
					return fmt.Sprintf("a drop during a transfer started a drag upload: %q", sv)
				}
				return ""
			}},
		// the upload command works, the server answers with a trigger, then fails
		c05Hist{name: "drag:drop-upload-server-fails", drag: true,
			run: func(x *c05F, work string, rng *rand.Rand) string {
				from := x.rec.length()
				hd, e := x.drop(rng)
				if e != "" {
					return e
				}
				if e := x.uploadRuns(from, x.dragCommand(hd)); e != "" {
					return e
				}
				mode := byte('R')
				if hd {
					mode = 'D'
				}
				if e := c05Handshake(x, mode, "1.1.6", true); e != "" {
					return e
				}
				x.svrOut.Write(c05EncLine("CFG", c05CFG))
				if !c05WaitBusy(x, 2*time.Second) {
					return "never entered the transfer state"
				}
				x.svrOut.Write(c05EncLine("fail", "no space left on device"))
				if !c05WaitIdle(x, 5*time.Second) {
					return "the transfer did not end"
				}
				time.Sleep(3300 * time.Millisecond)
				return ""
			}},
		// the upload command works: a real trz takes the dropped file
		c05Hist{name: "drag:drop-upload-success", drag: true,
			run: func(x *c05F, work string, rng *rand.Rand) string {
				dest := filepath.Join(work, "dropped")
				os.MkdirAll(dest, 0755)
				src := x.paths.exist[0] // a regular file
				from := x.rec.length()
				x.cliIn.Write([]byte(src + " "))
				x.cliIn.Write(nil)
				if !x.waitFor('s', []byte{3}, from, 3*time.Second) || !x.waitFor('s', []byte("trz\r"), from, 3*time.Second) {
					return "the drag upload did not type its command"
				}
				x.out([]byte("trz\r\n"))
				if e := c05RunChild(x, "trz", []string{"-q", dest}, 30*time.Second); e != "" {
					return e
				}
				a, _ := os.ReadFile(src)
				b, err := os.ReadFile(filepath.Join(dest, filepath.Base(src)))
				if err != nil || !bytes.Equal(a, b) {
					return "the dropped file did not arrive"
				}
				time.Sleep(3300 * time.Millisecond)
				return ""
			}},
	)
	return hs
}

// ---- SetAffectedByWindows(true): old triggers displayed again ----

func c05WinLine(typ, payload string) []byte {
	return append(encodeLine(typ, []byte(payload)), '!', '\n')
}

// redisplay shows a trigger line the filter has already acted on: nothing may happen
func (x *c05F) redisplay(line []byte, how int) string {
	b := line
	switch how {
	case 1:
		b = append([]byte("$ cat typescript\r\n"), line...)
	case 2:
		b = append(append([]byte(nil), line...), []byte("$ ")...)
	}
	from := x.rec.length()
	x.out(b)
	time.Sleep(250 * time.Millisecond)
	x.svrOut.Write(nil)
	got := x.rec.snapshot()[from:]
	if !c05Only(got, 't', b) {
		return fmt.Sprintf("REDISPLAY: the trigger %q of a transfer that is over, displayed again, was not passed through untouched / started something: terminal and server got %v", b, got)
	}
	return ""
}

func c05WinHistories() []c05Hist {
	var hs []c05Hist
	for _, sfx := range []string{"00", "10", "20"} {
		sfx := sfx
		// refused by the user (the chooser stand-in answers Cancel), then shown again
		hs = append(hs, c05Hist{name: "win:refused-then-redisplayed:id-" + sfx, win: true,
			run: func(x *c05F, work string, rng *rand.Rand) string {
				id := c05NextID()
				id = id[:11] + sfx
				line := []byte(fmt.Sprintf("\x1b7\x07::TRZSZ:TRANSFER:R:1.1.6:%s\r\n", id))
				from := x.rec.length()
				x.svrOut.Write(line)
				if !x.waitFor('s', []byte("#ACT:"), from, 5*time.Second) {
					return "no ACT line reached the server"
				}
				time.Sleep(200 * time.Millisecond)
				x.out([]byte("Cancelled\r\n$ "))
				for how := 0; how < 3; how++ {
					if e := x.redisplay(line, how); e != "" {
						return e
					}
				}
				return ""
			}})
		// failed on the server side, then shown again
		hs = append(hs, c05Hist{name: "win:server-fail-then-redisplayed:id-" + sfx, win: true,
			run: func(x *c05F, work string, rng *rand.Rand) string {
				x.f.SetDefaultDownloadPath(work)
				id := c05NextID()
				id = id[:11] + sfx
				line := []byte(fmt.Sprintf("\x1b7\x07::TRZSZ:TRANSFER:S:1.1.6:%s\r\n", id))
				from := x.rec.length()
				x.svrOut.Write(line)
				if !x.waitFor('s', []byte("#ACT:"), from, 5*time.Second) {
					return "no ACT line reached the server"
				}
				x.svrOut.Write(c05WinLine("CFG", strings.Replace(c05CFG, `"newline":"\n"`, `"newline":"!\n"`, 1)))
				if !c05WaitBusy(x, 2*time.Second) {
					return "never entered the transfer state"
				}
				x.svrOut.Write(c05WinLine("fail", "server side failure"))
				if !c05WaitIdle(x, 8*time.Second) {
					return "the transfer did not end"
				}
				time.Sleep(200 * time.Millisecond)
				x.out([]byte("server side failure\r\n$ "))
				for how := 0; how < 3; how++ {
					if e := x.redisplay(line, how); e != "" {
						return e
					}
				}
				return ""
			}})
	}
	// a real download (real tsz; its id ends in 00), then its trigger line is shown again
	hs = append(hs, c05Hist{name: "win:success-then-redisplayed", win: true,
		run: func(x *c05F, work string, rng *rand.Rand) string {
			src := filepath.Join(work, "src.bin")
			os.WriteFile(src, fillBytes(rng, 5000, rng.Intn(4)), 0644)
			dest := filepath.Join(work, "dl")
			os.MkdirAll(dest, 0755)
			x.f.SetDefaultDownloadPath(dest)
			if e := c05RunChild(x, "tsz", []string{"-q", src}, 30*time.Second); e != "" {
				return e
			}
			a, _ := os.ReadFile(src)
			b, _ := os.ReadFile(filepath.Join(dest, "src.bin"))
			if !bytes.Equal(a, b) {
				return "downloaded file differs"
			}
			if x.trig == nil {
				return "the harness did not see the trigger line of tsz"
			}
			i := bytes.Index(x.trig, []byte("::TRZSZ:TRANSFER:"))
			j := bytes.IndexByte(x.trig[i:], '\n')
			line := x.trig[i:]
			if j >= 0 {
				line = x.trig[i : i+j+1]
			}
			time.Sleep(200 * time.Millisecond)
			for how := 0; how < 3; how++ {
				if e := x.redisplay(line, how); e != "" {
					return e
				}
			}
			return ""
		}})
	return hs
}
