package main

// C02 unit decisions: the receiver's digest check, the sender's echoed-digest check and the
// integer acknowledgement check on scripted lines, against the model's comparisons.

import (
	"bytes"
	"fmt"

	"github.com/trzsz/trzsz-go/trzsz"
)

func init() { groups["protocol"] = genProtocolUnit }

func genProtocolUnit(c *ctx) {
	b01 := func(b bool) string {
		if b {
			return "1"
		}
		return "0"
	}
	n := c.pick(400, 5000)
	for i := 0; i < n; i++ {
		a := make([]byte, 16)
		c.rng.Read(a)
		b := append([]byte(nil), a...)
		kind := "equal"
		switch c.rng.Intn(6) {
		case 0:
		case 1: // one byte larger
			k := c.rng.Intn(16)
			if b[k] < 255 {
				b[k]++
				kind = "delivered-greater"
			}
		case 2: // one byte smaller
			k := c.rng.Intn(16)
			if b[k] > 0 {
				b[k]--
				kind = "delivered-smaller"
			}
		case 3:
			b = b[:c.rng.Intn(16)]
			kind = "shorter"
		case 4:
			b = append(b, byte(c.rng.Intn(256)))
			kind = "longer"
		case 5:
			c.rng.Read(b)
			kind = "random"
		}
		c.count("digest:" + kind)
		acc, reply := trzsz.VerifRecvFileMD5(a, b)
		c.emit(kind != "equal", "md5_accept", b01(acc), hx(a), hx(b))
		if acc && !bytes.Equal(a, b) {
			c.violate("receiver-accepts-wrong-digest:"+kind, "the receiver reports a file as saved although the delivered digest differs from the digest of what it wrote",
				fmt.Sprintf("local=%s delivered=%s reply=%q", hx(a), hx(b), reply))
		}
		sacc := trzsz.VerifSendFileMD5(a, b)
		c.emit(kind != "equal", "md5_accept", b01(sacc), hx(a), hx(b))
		if sacc && !bytes.Equal(a, b) {
			c.violate("sender-accepts-wrong-echo:"+kind, "the sender reports a file as done although the echoed digest differs from its own",
				fmt.Sprintf("mine=%s echoed=%s", hx(a), hx(b)))
		}
	}
	for i := 0; i < c.pick(200, 2000); i++ {
		e := c.rng.Int63n(1 << uint(1+c.rng.Intn(40)))
		g := e
		switch c.rng.Intn(4) {
		case 1:
			g = e + 1
		case 2:
			g = e - 1
		case 3:
			g = c.rng.Int63n(1 << 40)
		}
		acc := trzsz.VerifCheckInteger(e, fmt.Sprint(g))
		c.emit(e != g, "int_ack_accept", b01(acc), fmt.Sprint(e), fmt.Sprint(g))
		if acc && e != g {
			c.violate("integer-ack-mismatch-accepted", "an acknowledgement carrying a different number is accepted", fmt.Sprintf("expect=%d got=%d", e, g))
		}
	}
}
