package main

// C18 (pause / resume), second part: the download direction, the final-ack loop, the probing phase.
//
//   pausedown      REAL pipelineRecvData + pipelineSendAck of a real transfer (our side of a download) under
//                  real time on a 10 ms grid: DATA frames, the finish frame, pause, resume and "disk has
//                  everything" at scripted slots; every line the side writes ("#SUCC:=" keep-alive,
//                  "#SUCC:len/step", "#SUCC:step", the final "#SUCC:size") with its time is compared with
//                  the extracted model on the same schedule (reader machine + gate, then the final loop).
//   pausedowncomp  random schedules through BOTH download composition machines (ydstep from the reader
//                  machine, ystep abstract): same enabledness, yabs(concrete) = abstract after every step.
//   pauseprobe     REAL pipelineRecvAck over sequences of acknowledgements (growing / not growing, marked
//                  `pause` or not) starting in the buffer-size probing phase: which of them call
//                  bufInitDone() and when the probing phase ends, against the model; direct oracle: in the
//                  probing phase EVERY acknowledgement releases the encoder, and the goroutine never gets stuck.

import (
	"bytes"
	"fmt"
	"math/rand"
	"os"
	"path/filepath"
	"regexp"
	"sort"
	"strconv"
	"strings"
	"sync"
	"sync/atomic"
	"time"

	"github.com/trzsz/trzsz-go/trzsz"
)

func init() {
	groups["pausedown"] = genPauseDown
	groups["pausedowncomp"] = genPauseDownComp
	groups["pauseprobe"] = genPauseProbe
	groups["pausesend"] = genPauseSend
}

type c18bEv struct {
	slot int
	kind byte // A F P R V
	at   int // ms since the start at which the harness really applied it
}

type c18bScn struct {
	family  string
	horizon int
	evs     []c18bEv
	log     []string // ms:class
	outcome string
	endMs   int // when the pipeline ended in an error (-1: it did not)
}

func (s *c18bScn) sched() string {
	parts := make([]string, len(s.evs))
	for i, e := range s.evs {
		parts[i] = fmt.Sprintf("%d:%c", e.slot, e.kind)
	}
	if len(parts) == 0 {
		return "-"
	}
	return strings.Join(parts, ",")
}

const c18bSize = 1000

func c18bRun(s *c18bScn) {
	v := trzsz.VerifNewPauseTransfer(3, 1)
	start := time.Now()
	d := v.StartDownload(c18bSize)
	k := 0
	for i, e := range s.evs {
		c18SleepUntil(start, e.slot)
		s.evs[i].at = int(time.Since(start) / time.Millisecond)
		switch e.kind {
		case 'A':
			k++
			v.AddLine([]byte(fmt.Sprintf("#DATA:cGF5bG9hZC%d", k%10)))
		case 'F':
			v.AddLine([]byte("#DATA:"))
		case 'P':
			v.Pause()
		case 'R':
			v.Resume()
		case 'V':
			d.SetSaved()
		}
	}
	c18SleepUntil(start, s.horizon)
	time.Sleep(5 * time.Millisecond)
	s.outcome = d.Outcome()
	s.endMs = -1
	if end := d.EndedAt(); !end.IsZero() && s.outcome != "succ" && s.outcome != "running" {
		s.endMs = int(end.Sub(start) / time.Millisecond)
	}
	for _, w := range v.WriteLog() {
		ms := int(w.At.Sub(start) / time.Millisecond)
		if ms > s.horizon*c18Unit || (s.endMs >= 0 && ms > s.endMs) {
			continue
		}
		line := bytes.TrimRight(w.Data, "\n")
		cl := "?"
		switch {
		case bytes.Equal(line, []byte("#SUCC:=")):
			cl = "K"
		case bytes.HasPrefix(line, []byte("#SUCC:")) && bytes.Contains(line, []byte("/")):
			cl = "A"
		case bytes.HasPrefix(line, []byte("#SUCC:")):
			if n, err := strconv.Atoi(string(line[6:])); err == nil {
				if n == c18bSize {
					cl = "Z"
				} else {
					cl = "G"
				}
			}
		}
		s.log = append(s.log, fmt.Sprintf("%d:%s", ms, cl))
	}
	v.Resume()
	d.Cancel()
}

func genPauseDown(c *ctx) {
	var scns []*c18bScn
	add := func(family string, horizon int, evs ...c18bEv) {
		sort.SliceStable(evs, func(i, j int) bool { return evs[i].slot < evs[j].slot })
		scns = append(scns, &c18bScn{family: family, horizon: horizon, evs: evs})
	}
	A := func(slot int) c18bEv { return c18bEv{slot: slot, kind: 'A'} }
	F := func(slot int) c18bEv { return c18bEv{slot: slot, kind: 'F'} }
	P := func(slot int) c18bEv { return c18bEv{slot: slot, kind: 'P'} }
	R := func(slot int) c18bEv { return c18bEv{slot: slot, kind: 'R'} }
	V := func(slot int) c18bEv { return c18bEv{slot: slot, kind: 'V'} }
	// every chain of 100 ms sleeps is anchored at a slot = 0 mod 10 (frames arrive there, reads and the poll start
	// there); pauses, resumes and the disk event come at 5 mod 10, 50 ms away from every wake-up
	rep := c.pick(1, 3)
	for r := 0; r < rep; r++ {
		// no pause at all
		add("plain", 80, A(0), A(10), A(20), A(40))
		add("plain-finish", 130, A(0), A(10), F(20), V(85))
		add("plain-finish-saved-early", 60, A(0), V(5), F(20))
		// pause while the acker is idle (everything acknowledged): NO keep-alive during the pause; frames that arrive
		// are acknowledged only after the resume -- except the first, which the blocked read still returns
		for _, ln := range []int{30, 70, 90, 130, 160} {
			add("pause-idle-silent", 35+ln+60, A(0), A(10), P(25), R(25+ln))
			add("pause-idle-frames", 35+ln+80, A(0), A(10), P(25), A(40), A(50), A(60), R(25+ln), A(25+ln+35))
			add("pause-idle-late-frame", 35+ln+80, A(0), P(15), A(15+ln-15), R(15+ln), A(15+ln+25))
		}
		// the read armed before the pause expires during it (timeout 1 s): a frame after that is queued, not returned
		add("pause-read-expired", 290, A(0), P(15), A(130), R(175), A(220))
		add("pause-read-not-expired", 290, A(0), P(15), A(90), R(175), A(220))
		// two cycles, a sleep apart and more
		add("two-pauses", 260, A(0), P(15), A(30), R(65), A(80), P(95), A(110), A(120), R(175), A(200))
		add("two-pauses-close", 200, A(0), P(15), A(30), R(45), P(65), A(70), R(125), A(150))
		// the final loop: polls every 200 ms, keep-alives every 100 ms while pausing, the final ack
		add("final-poll", 150, A(0), F(10), V(95))
		add("final-pause", 260, A(0), F(10), P(35), R(135), V(195))
		add("final-pause-long", 330, A(0), F(10), P(35), R(255), V(285))
		add("final-saved-while-paused", 240, A(0), F(10), P(35), V(85), R(155))
		add("final-saved-then-pause", 120, A(0), F(10), V(45), P(65), R(95))
		add("finish-while-paused", 230, A(0), P(15), F(40), R(125), V(175))
		add("finish-queued-while-paused", 260, A(0), P(15), A(40), F(50), R(125), V(205))
		// random
		for i := 0; i < c.pick(20, 120); i++ {
			var evs []c18bEv
			slot := 0
			nfr := 1 + c.rng.Intn(5)
			fin := c.rng.Intn(2) == 0
			pausing := false
			lastR := -100
			saved := false
			finAt := -1
			for slot < 260 {
				slot += 10 * (1 + c.rng.Intn(4))
				switch r := c.rng.Intn(10); {
				case r < 4 && nfr > 0 && finAt < 0:
					nfr--
					evs = append(evs, A(slot))
				case r < 5 && nfr == 0 && fin && finAt < 0:
					finAt = slot
					evs = append(evs, F(slot))
				case r < 7 && !pausing && slot+5 > lastR+15:
					pausing = true
					evs = append(evs, P(slot+5))
				case r < 9 && pausing:
					pausing = false
					lastR = slot + 5
					evs = append(evs, R(slot+5))
				case r == 9 && finAt >= 0 && !saved && !pausing && slot > finAt+20:
					saved = true
					evs = append(evs, V(slot+5))
				}
			}
			if len(evs) == 0 || evs[0].kind != 'A' {
				evs = append([]c18bEv{A(0)}, evs...)
			}
			// a read is armed when a frame is returned or at a wake-up after a resume; a frame that arrives exactly
			// one timeout later would race with the timer: no such schedules
			arms := []int{0}
			tie := false
			for _, e := range evs {
				switch e.kind {
				case 'A', 'F':
					for _, x := range arms {
						if e.slot > x && (e.slot-x)%100 == 0 {
							tie = true
						}
					}
					arms = append(arms, e.slot)
				case 'R':
					up := (e.slot + 9) / 10 * 10
					arms = append(arms, up, up+10)
				}
			}
			if tie {
				c.count("dropped-tie-with-timer")
				continue
			}
			add("random", 300, evs...)
		}
	}
	// three runs of every schedule; the model has to explain one of them (see pausemodel)
	const attempts = 3
	alts := make([][]*c18bScn, len(scns))
	parallelDo(len(scns), len(scns), func(i int) { c18bRun(scns[i]) })
	for a := 1; a < attempts; a++ { // one wave after the other: three times as many goroutines at once would disturb each other
		wave := make([]*c18bScn, len(scns))
		for i, s := range scns {
			cp := *s
			cp.log = nil
			cp.evs = append([]c18bEv(nil), s.evs...)
			wave[i] = &cp
			alts[i] = append(alts[i], &cp)
		}
		parallelDo(len(wave), len(wave), func(i int) { c18bRun(wave[i]) })
	}
	for si, s := range scns {
		c.count("family:" + s.family)
		c.count("outcome:" + s.outcome)
		nontrivial := false
		keeps := 0
		for _, e := range s.evs {
			if e.kind == 'P' {
				nontrivial = true
			}
		}
		for _, l := range s.log {
			if strings.HasSuffix(l, ":K") {
				keeps++
			}
		}
		if keeps > 0 {
			c.count("keepalives-written")
		}
		obs := func(s *c18bScn) string {
			if len(s.log) > 0 {
				return strings.Join(s.log, ",")
			}
			return "-"
		}
		measured := obs(s)
		outcomes := fmt.Sprintf("%s:%d", s.outcome, s.endMs)
		for _, a := range alts[si] {
			measured += "|" + obs(a)
			outcomes += fmt.Sprintf("|%s:%d", a.outcome, a.endMs)
		}
		c.emit(nontrivial, "pd_down", "match", fmt.Sprint(c18Unit), "1", fmt.Sprint(s.horizon), s.sched(), measured, outcomes, fmt.Sprint(c18Tol))
		// direct oracles on the real side (the scripted families never leave a read without data for a whole
		// timeout unless a pause began in it; the random ones may, and then the timeout is the right answer)
		if s.outcome != "running" && s.outcome != "succ" && s.family != "random" {
			c.violate("pausedown:error:"+s.family, "our side of a download ended in an error under a scripted pause",
				fmt.Sprintf("%s schedule %s outcome %s log %s", s.family, s.sched(), s.outcome, measured))
		}
		// while pausing no acknowledgement ("#SUCC:len/step") is written later than 150 ms into the pause
		for i, e := range s.evs {
			if e.kind != 'P' {
				continue
			}
			end := s.horizon * c18Unit
			for _, f := range s.evs[i+1:] {
				if f.kind == 'R' {
					end = f.at
					break
				}
			}
			for _, l := range s.log {
				parts := strings.Split(l, ":")
				ms, _ := strconv.Atoi(parts[0])
				if (parts[1] == "A" || parts[1] == "G" || parts[1] == "Z") && ms > e.at+150 && ms < end-20 {
					c.violate("pausedown:ack-while-paused", "an acknowledgement was written while pausing",
						fmt.Sprintf("%s schedule %s log %s", s.family, s.sched(), measured))
				}
			}
		}
	}
}

func genPauseDownComp(c *ctx) {
	letters := []byte("cwuadkgs")
	for i := 0; i < c.pick(1500, 20000); i++ {
		T := 3 + c.rng.Intn(12)
		sl, gl := 1+c.rng.Intn(3), 1+c.rng.Intn(3)
		n := c.rng.Intn(10)
		W := []int{1, 2, 5}[c.rng.Intn(3)]
		P := c.rng.Intn(T + 6)
		ln := 100 + c.rng.Intn(500)
		ev := make([]byte, ln)
		pausy := c.rng.Intn(3)
		for j := range ev {
			r := c.rng.Intn(100)
			switch {
			case r < 14:
				ev[j] = 'T'
			case r < 14+3*pausy:
				ev[j] = 'P'
			case r < 14+6*pausy:
				ev[j] = 'R'
			default:
				ev[j] = letters[c.rng.Intn(len(letters))]
			}
		}
		slack := sl
		if gl > slack {
			slack = gl
		}
		if P+slack < T {
			c.count("short-pause-schedule")
		} else {
			c.count("long-pause-schedule")
		}
		c.emit(pausy > 0, "pd_sim", "agree", fmt.Sprint(T), fmt.Sprint(sl), fmt.Sprint(gl), fmt.Sprint(n), fmt.Sprint(W), fmt.Sprint(P), string(ev))
	}
}

func genPauseProbe(c *ctx) {
	var seqs []string
	maxLen := c.pick(4, 6)
	var rec func(prefix string)
	rec = func(prefix string) {
		seqs = append(seqs, prefix)
		if len(prefix) == maxLen {
			return
		}
		for _, ch := range "gGnN" {
			rec(prefix + string(ch))
		}
	}
	rec("")
	for i := 0; i < c.pick(150, 1500); i++ {
		ln := maxLen + 1 + c.rng.Intn(10)
		b := make([]byte, ln)
		for j := range b {
			b[j] = "gGnN"[c.rng.Intn(4)]
			if c.rng.Intn(3) != 0 && j < ln/2 {
				b[j] = "gG"[c.rng.Intn(2)] // stay in the probing phase for a while
			}
		}
		seqs = append(seqs, string(b))
	}
	type res struct {
		rel, ini []bool
		class    string
	}
	out := make([]res, len(seqs))
	parallelDo(len(seqs), 16, func(i int) {
		acks := make([]trzsz.VerifProbeAck, len(seqs[i]))
		for j, ch := range seqs[i] {
			acks[j] = trzsz.VerifProbeAck{Pause: ch == 'G' || ch == 'N', Grow: ch == 'g' || ch == 'G'}
		}
		r, in, cl := trzsz.VerifPauseProbe(acks)
		out[i] = res{r, in, cl}
	})
	bs := func(l []bool) string {
		if len(l) == 0 {
			return "-"
		}
		var b strings.Builder
		for _, x := range l {
			if x {
				b.WriteByte('1')
			} else {
				b.WriteByte('0')
			}
		}
		return b.String()
	}
	for i, sq := range seqs {
		r := out[i]
		pausedInProbe := false
		probing := true
		for j, ch := range sq {
			if probing && (ch == 'G' || ch == 'N') {
				pausedInProbe = true
			}
			// judged by what the goroutine itself reported: the probing phase was on before this acknowledgement
			wasProbing := j == 0 || (j-1 < len(r.ini) && r.ini[j-1])
			if wasProbing && j < len(r.rel) && !r.rel[j] && r.class == "ok" {
				c.violate("probe:not-released", "an acknowledgement in the buffer-size probing phase did not release the encoder (bufInitDone not called): the sender would wait for ever",
					fmt.Sprintf("acks %q (g grows, n does not, capital = marked pause): ack #%d released=%v", sq, j, r.rel))
			}
			if ch == 'n' || ch == 'N' {
				probing = false
			}
		}
		if pausedInProbe {
			c.count("pause-marked-ack-in-probing-phase")
		}
		if r.class != "ok" {
			c.count("class:" + r.class)
			c.violate("probe:"+r.class, "pipelineRecvAck did not work through a well-formed sequence of acknowledgements",
				fmt.Sprintf("acks %q: %s (released so far %v)", sq, r.class, r.rel))
			continue
		}
		sqArg := sq
		if sqArg == "" {
			sqArg = "-"
		}
		c.emit(pausedInProbe, "pp_probe", bs(r.rel)+","+bs(r.ini), sqArg)
	}
}

// ---------------------------------------------------------------------------------------------
// pausesend: the REAL pipelineSendData goroutine (wire sender of an upload) under real time over a queue of encoded
// blocks, some of them larger than the current chunk size so that they are re-split; the acknowledgement window
// is emptied one entry at a time at scripted slots (that is what lets the sender go on), pause / resume / stop and
// changes of the chunk size at scripted slots.  Every chunk and keep-alive on the wire with its time against
// the extracted model (Model/PauseSend.v); direct oracle: no file data on the wire while pausing.

type c18sEv struct {
	slot int
	kind byte // B T P R S
	arg  int
	at   int
}

type c18sScn struct {
	family  string
	proto   int
	buf     int
	blocks  []int
	horizon int
	evs     []c18sEv
	log     []string // ms:class
	acks    []int64
	outcome string
}

func (s *c18sScn) sched() string {
	parts := make([]string, len(s.evs))
	for i, e := range s.evs {
		if e.kind == 'B' {
			parts[i] = fmt.Sprintf("%d:B:%d", e.slot, e.arg)
		} else {
			parts[i] = fmt.Sprintf("%d:%c", e.slot, e.kind)
		}
	}
	if len(parts) == 0 {
		return "-"
	}
	return strings.Join(parts, ",")
}

func c18sRun(s *c18sScn) {
	v := trzsz.VerifNewPauseTransfer(s.proto, 1)
	start := time.Now()
	d := v.StartSendData(int64(s.buf), s.blocks)
	for i, e := range s.evs {
		c18SleepUntil(start, e.slot)
		s.evs[i].at = int(time.Since(start) / time.Millisecond)
		switch e.kind {
		case 'B':
			d.SetBufSize(int64(e.arg))
		case 'T':
			s.acks = append(s.acks, d.TakeAck())
		case 'P':
			v.Pause()
		case 'R':
			v.Resume()
		case 'S':
			v.Stop(false)
		}
	}
	c18SleepUntil(start, s.horizon)
	time.Sleep(5 * time.Millisecond)
	s.outcome = d.Outcome()
	lg := v.WriteLog()
	for i := 0; i < len(lg); i++ {
		w := lg[i]
		ms := int(w.At.Sub(start) / time.Millisecond)
		if ms > s.horizon*c18Unit {
			break
		}
		cl := "?"
		switch {
		case bytes.Equal(w.Data, []byte("#DATA:=\n")):
			cl = "K"
		case bytes.Equal(w.Data, []byte("#DATA:")) && i+2 < len(lg) && bytes.Equal(lg[i+2].Data, []byte("\n")):
			cl = fmt.Sprintf("S%d", len(lg[i+1].Data))
			i += 2
		case bytes.HasPrefix(w.Data, []byte("#DATA:")) && bytes.HasSuffix(w.Data, []byte("\n")):
			cl = fmt.Sprintf("W%d", len(w.Data)-7)
		}
		s.log = append(s.log, fmt.Sprintf("%d:%s", ms, cl))
	}
	v.Resume()
	d.Cancel()
}

func genPauseSend(c *ctx) {
	var scns []*c18sScn
	add := func(family string, proto, buf int, blocks []int, horizon int, evs ...c18sEv) {
		sort.SliceStable(evs, func(i, j int) bool { return evs[i].slot < evs[j].slot })
		scns = append(scns, &c18sScn{family: family, proto: proto, buf: buf, blocks: blocks, horizon: horizon, evs: evs})
	}
	B := func(slot, n int) c18sEv { return c18sEv{slot: slot, kind: 'B', arg: n} }
	T := func(slot int) c18sEv { return c18sEv{slot: slot, kind: 'T'} }
	P := func(slot int) c18sEv { return c18sEv{slot: slot, kind: 'P'} }
	R := func(slot int) c18sEv { return c18sEv{slot: slot, kind: 'R'} }
	S := func(slot int) c18sEv { return c18sEv{slot: slot, kind: 'S'} }
	rep8 := func(n, k int) []int {
		l := make([]int, k)
		for i := range l {
			l[i] = n
		}
		return l
	}
	// the sender fills the window at once (5 entries pushed, a 6th chunk written and waiting for room); from then on every
	// take (0 mod 10) lets it write one more chunk; pauses and resumes at 5 mod 10
	for _, proto := range []int{3, 4} {
		// the chunk size shrinks while blocks are queued: the 7th block is cut into four pieces; the pause begins after its first
		add("resplit-pause", proto, 10240, rep8(10240, 8), 140, B(2, 2560), T(10), P(15), T(20), R(55), T(70), T(80), T(90), T(100), T(110))
		// ... after its second piece, and a second pause inside the same block
		add("resplit-two-pauses", proto, 10240, rep8(10240, 8), 170, B(2, 2560), T(10), T(20), P(25), T(30), R(55), T(70), P(75), T(80), R(115), T(130), T(140))
		// the chunk size changes again between two pieces of one block
		add("resplit-size-changes", proto, 10240, rep8(10240, 8), 150, B(2, 2560), T(10), B(12, 5120), P(15), T(20), R(45), T(60), B(62, 1024), T(70), T(80), T(90), T(100))
		// no re-splitting: a pause between whole frames
		add("whole-pause", proto, 10240, rep8(10240, 8), 100, T(10), P(15), T(20), R(55), T(70), T(80))
		// the zero-length finish chunk waits as well
		add("finish-chunk-pause", proto, 4096, []int{4096, 4096, 4096, 4096, 4096, 4096, 100, 0}, 110, T(10), P(15), T(20), R(55), T(70), T(80), T(90), T(100))
		// stop while pausing inside a split block: nothing more, the goroutine ends
		add("resplit-stop-while-paused", proto, 10240, rep8(10240, 8), 90, B(2, 2560), T(10), P(15), T(20), S(45), T(60), T(70))
		// never resumed within the window
		add("resplit-never-resumed", proto, 10240, rep8(10240, 8), 80, B(2, 3000), T(10), P(15), T(20), T(30))
	}
	// protocol 2 has no pause handling: the data goes on (by design)
	add("proto2-no-gate", 2, 10240, rep8(10240, 8), 60, B(2, 2560), T(10), P(15), T(20), T(30), R(45), T(50))
	for i := 0; i < c.pick(12, 80); i++ {
		proto := 3 + c.rng.Intn(2)
		nb := 7 + c.rng.Intn(4)
		blocks := make([]int, nb)
		for j := range blocks {
			blocks[j] = []int{10240, 10240, 8000, 4096}[c.rng.Intn(4)]
		}
		if c.rng.Intn(2) == 0 {
			blocks[nb-1] = 0
		}
		var evs []c18sEv
		pausing := false
		lastR := -100
		slot := 0
		if c.rng.Intn(3) != 0 {
			evs = append(evs, B(2, []int{2560, 3000, 5120, 1024}[c.rng.Intn(4)]))
		}
		for slot < 160 {
			slot += 10
			switch r := c.rng.Intn(10); {
			case r < 5:
				evs = append(evs, T(slot))
			case r < 6:
				evs = append(evs, B(slot+2, []int{1024, 2560, 4096, 10240, 20480}[c.rng.Intn(5)]))
			case r < 8 && !pausing && slot+5 > lastR+15:
				pausing = true
				evs = append(evs, P(slot+5))
			case r < 10 && pausing:
				pausing = false
				lastR = slot + 5
				evs = append(evs, R(slot+5))
			}
		}
		add("random", proto, 10240, blocks, 190, evs...)
	}
	// the end-to-end re-split cases (below) run meanwhile: they spend most of their time waiting for a 3.2 s stall
	work, _ := os.MkdirTemp("", "e2e_resplit_")
	defer os.RemoveAll(work)
	e2eCases := c18rPrepare(c, work)
	e2eDone := make(chan struct{})
	go func() { defer close(e2eDone); c18rRun(e2eCases) }()
	const attempts = 3
	alts := make([][]*c18sScn, len(scns))
	parallelDo(len(scns), len(scns), func(i int) { c18sRun(scns[i]) })
	for a := 1; a < attempts; a++ {
		wave := make([]*c18sScn, len(scns))
		for i, s := range scns {
			cp := *s
			cp.log, cp.acks = nil, nil
			cp.evs = append([]c18sEv(nil), s.evs...)
			wave[i] = &cp
			alts[i] = append(alts[i], &cp)
		}
		parallelDo(len(wave), len(wave), func(i int) { c18sRun(wave[i]) })
	}
	for si, s := range scns {
		c.count("family:" + s.family)
		c.count("outcome:" + s.outcome)
		nontrivial := false
		for _, e := range s.evs {
			if e.kind == 'P' {
				nontrivial = true
			}
		}
		obs := func(s *c18sScn) (string, string) {
			m, a := "-", "-"
			if len(s.log) > 0 {
				m = strings.Join(s.log, ",")
			}
			if len(s.acks) > 0 {
				parts := make([]string, len(s.acks))
				for i, x := range s.acks {
					parts[i] = fmt.Sprint(x)
				}
				a = strings.Join(parts, ",")
			}
			return m, a
		}
		measured, acks := obs(s)
		for _, a := range alts[si] {
			m, k := obs(a)
			measured += "|" + m
			acks += "|" + k
		}
		bl := make([]string, len(s.blocks))
		split := 0
		for i, x := range s.blocks {
			bl[i] = fmt.Sprint(x)
		}
		for _, l := range s.log {
			if strings.Contains(l, ":S") {
				split++
			}
		}
		if split > 0 {
			c.count("re-split-chunks-on-the-wire")
		}
		c.emit(nontrivial, "ps_send", "match", fmt.Sprint(c18Unit), fmt.Sprint(s.proto), fmt.Sprint(s.buf), strings.Join(bl, ","),
			fmt.Sprint(s.horizon), s.sched(), measured, acks, fmt.Sprint(c18Tol))
		// direct oracle on every run: while pausing (protocol >= 3) no file data goes on the wire -- whole frame,
		// piece of a re-split block or finish chunk; in this harness a write takes no time, so not even the
		// "one chunk already past its check"
		if s.proto >= 3 {
			for _, run := range append([]*c18sScn{s}, alts[si]...) {
				c18sNoDataWhilePaused(c, run)
			}
		}
	}
	<-e2eDone
	c18rReport(c, e2eCases)
}

func c18sNoDataWhilePaused(c *ctx, s *c18sScn) {
	for i, e := range s.evs {
		if e.kind != 'P' {
			continue
		}
		end := s.horizon * c18Unit
		for _, f := range s.evs[i+1:] {
			if f.kind == 'R' {
				end = f.at
				break
			}
		}
		for _, l := range s.log {
			parts := strings.SplitN(l, ":", 2)
			ms, _ := strconv.Atoi(parts[0])
			if parts[1] != "K" && ms > e.at+5 && ms < end-1 {
				m := strings.Join(s.log, ",")
				c.violate("pausesend:data-while-paused:"+s.family, "the paused side wrote file data while pausing (a chunk behind the pause check)",
					fmt.Sprintf("pipelineSendData protocol=%d chunk size %d blocks %v schedule(slot=%dms) %s: paused at %d ms, resumed at %d ms, wire %s",
						s.proto, s.buf, s.blocks, c18Unit, s.sched(), e.at, end, m))
				return
			}
		}
	}
}

// ---------------------------------------------------------------------------------------------
// the end-to-end part of group pausesend ("e2e-pause-resplit" in DESIGN 10.37): real client (filter) uploading to a real trz child with a chunk-size limit of 10 KB.  The
// acknowledgements stall once for 3.2 s (timeout 6 s): the first late one makes pipelineRecvAck divide the chunk size
// by three, and the encoded blocks that are still queued are now cut into pieces.  Ctrl-C is typed while the
// header of the FIRST piece of such a block is being written (the write is held until the pause has registered);
// "continue" follows 0.5 s later.  Oracles: between the pause and the resume the client starts at most one more
// DATA chunk (none is expected: the piece in hand is already past its check), the transfer is not hung, ends in
// success and the trees are identical.

var c18rHeaderOnly = regexp.MustCompile(`^#DATA:[0-9]*\n?$`)

type c18rCase struct {
	cfg     e2eCfg
	src     string
	root    string
	desc    string
	bad     []string
	outcome string
	keep    int
	pieces  int
	after   int
	paused  bool
}

// c18rPrepare builds the cases (all randomness is drawn here), c18rRun runs them, c18rReport reports them.
func c18rPrepare(c *ctx, work string) []*c18rCase {
	type rc = c18rCase
	var cases []*rc
	n := 0
	for rep := 0; rep < c.pick(1, 3); rep++ {
		for _, proto := range []int{3, 4} {
			for _, binary := range []bool{false, true} {
				root := filepath.Join(work, fmt.Sprintf("r%d", n))
				n++
				os.MkdirAll(filepath.Join(root, "s"), 0755)
				os.MkdirAll(filepath.Join(root, "d"), 0755)
				src := filepath.Join(root, "s", "queued.bin")
				os.WriteFile(src, fillBytes(rand.New(rand.NewSource(c.rng.Int63())), 180000+c.rng.Intn(40000), 0), 0644)
				cfg := e2eCfg{upload: true, binary: binary, proto: proto, timeout: 6, quiet: true, bufsize: "10k", compress: "no",
					deadline: 60 * time.Second}
				cases = append(cases, &rc{cfg: cfg, src: src, root: root,
					desc: fmt.Sprintf("3.2 s ack stall, then pause at the first piece of a re-split block (timeout 6s) :: %s", describeCfg(cfg))})
			}
		}
	}
	return cases
}

func c18rRun(cases []*c18rCase) {
	parallelDo(len(cases), len(cases), func(i int) {
		p := cases[i]
		cfg := p.cfg
		var run *e2eRun
		var runMu sync.Mutex
		cfg.onStart = func(r *e2eRun) { runMu.Lock(); run = r; runMu.Unlock() }
		var acks, stalled, from, to atomic.Int64
		var once sync.Once
		var mu sync.Mutex
		var starts []int64 // unix nanos of every DATA chunk the client begins to write
		cfg.hook = func(d, i int, b []byte) e2eAction {
			now := time.Now().UnixNano()
			if d == dirS2C {
				if bytes.Contains(b, []byte("#SUCC:")) && bytes.Contains(b, []byte("/")) {
					if acks.Add(1) == 3 {
						time.Sleep(3200 * time.Millisecond) // this acknowledgement and everything behind it arrives late
						stalled.Store(1)
					}
				}
				return e2eAction{}
			}
			if bytes.HasPrefix(b, []byte("#DATA:=")) {
				p.keep++
				return e2eAction{}
			}
			if !bytes.HasPrefix(b, []byte("#DATA:")) {
				return e2eAction{}
			}
			mu.Lock()
			starts = append(starts, now)
			mu.Unlock()
			if stalled.Load() == 1 && c18rHeaderOnly.Match(b) {
				p.pieces++
				once.Do(func() {
					var r *e2eRun
					for k := 0; k < 3000 && r == nil; k++ {
						runMu.Lock()
						r = run
						runMu.Unlock()
						if r == nil {
							time.Sleep(time.Millisecond)
						}
					}
					if r == nil || !r.filter.IsTransferringFiles() {
						return
					}
					p.paused = true
					r.cliIn.Write([]byte{0x03}) // Ctrl-C: asks stop/continue, pauses the transfer
					from.Store(time.Now().UnixNano())
					time.Sleep(150 * time.Millisecond) // the pause registers while this header is held
					go func() {
						time.Sleep(500 * time.Millisecond)
						to.Store(time.Now().UnixNano())
						r.cliIn.Write([]byte{'j'})
						time.Sleep(30 * time.Millisecond)
						r.cliIn.Write([]byte{'j'}) // "Continue to transfer remaining files"
						time.Sleep(30 * time.Millisecond)
						r.cliIn.Write([]byte{'\r'})
					}()
				})
			}
			return e2eAction{}
		}
		dest := filepath.Join(p.root, "d")
		r := runTransfer(cfg, []string{p.src}, dest)
		f, t := from.Load(), to.Load()
		if t == 0 {
			t = time.Now().UnixNano()
		}
		mu.Lock()
		for _, x := range starts {
			if f != 0 && x > f && x < t {
				p.after++
			}
		}
		mu.Unlock()
		if p.after > 1 {
			p.bad = append(p.bad, fmt.Sprintf("data-while-paused: the client began %d DATA chunks between the pause and the resume (pieces of a re-split block behind the pause check)", p.after))
		}
		shown := r.serverOut + r.termOut
		names, saved := parseSaved(shown)
		switch {
		case r.hung || !r.clientDone || !r.serverExited:
			p.outcome = "hung"
			p.bad = append(p.bad, fmt.Sprintf("hang: clientDone=%v serverExited=%v tail=%q", r.clientDone, r.serverExited, tailStr(shown, 200)))
		case saved:
			p.outcome = "success"
			if len(names) != 1 {
				p.bad = append(p.bad, fmt.Sprintf("success-wrong: names %v", names))
			} else if d := sameTree(p.src, filepath.Join(dest, names[0])); len(d) > 0 {
				p.bad = append(p.bad, "success-wrong: "+strings.Join(d, ";"))
			}
		default:
			p.outcome = "error"
			p.bad = append(p.bad, fmt.Sprintf("short-pause-failed: a pause of 0.5 s after a 3.2 s stall (timeout 6 s) ended in an error; server said %q; upload result %v",
				tailStr(r.serverOut, 160), r.uploadErr))
		}
	})
}

func c18rReport(c *ctx, cases []*c18rCase) {
	for _, p := range cases {
		nontrivial := p.paused && p.pieces > 0 && p.keep > 0
		c.note(nontrivial, fmt.Sprintf("%s => %s pieces=%d keepalives=%d chunks-begun-while-paused=%d", p.desc, p.outcome, p.pieces, p.keep, p.after))
		c.count("resplit-e2e-outcome:" + p.outcome)
		if p.pieces > 0 {
			c.count("re-split-observed")
		}
		if p.paused {
			c.count("paused-inside-a-split-block")
		}
		if len(p.bad) > 0 {
			key := "pause:" + strings.SplitN(p.bad[0], ":", 2)[0] + "-resplit"
			c.violate(key, "pausing inside a re-split block violated the pause contract", p.desc+" :: "+strings.Join(p.bad, "; "))
		}
	}
}
