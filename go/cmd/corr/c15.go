package main

// C15 — archive stream: real archiveFileReader / archiveFileWriter (through
// export_verif_archive.go) on generated trees in temp dirs, against Model/Archive.v.

import (
	"bufio"
	"bytes"
	"crypto/md5"
	"encoding/hex"
	"encoding/json"
	"fmt"
	"io"
	"math/rand"
	"os"
	"path/filepath"
	"runtime"
	"runtime/debug"
	"sort"
	"strconv"
	"strings"
	"time"

	"github.com/trzsz/trzsz-go/trzsz"
)

func init() { groups["archive"] = genArchive }

type c15Node struct {
	rel  []string
	dir  bool
	data []byte
}

var c15Names = append([]string{"a", "b", "c", "d", "e", "f1", "file", "sub", "x.txt", "中文", "文件2", "ü", "naïve", "日本語のファイル", "ö-dir", "😀", "Ω", "with space", "UPPER", "z_9"}, c15OddNames...)

// c15OddNames: valid single path elements whose code points LOOK like separators, dots or NUL
// to code that inspects anything but the bytes of the UTF-8 encoding: low byte 0x2F ('/'),
// 0x5C ('\\'), 0x2E ('.'), 0x00; the same values as the high byte of the UTF-16 unit; above
// the BMP; and the ASCII characters that are special elsewhere but ordinary here
var c15OddNames = []string{
	"\u042f", "\u042f\u0431\u043b\u043e\u043a\u0438", "\u012fvair\u016bs", "\u542f\u52a8.log", "\u9999\u6e2f", "\u662f\u975e\u9898.txt",
	"\u6280\u672f\u6587\u6863", "\u8f2f", "\u015c", "\u012e", "\u0100", "\u2f00", "\u5c00", "\u2e00", "\u2f2f\u5c5c",
	"back\\slash", "...", ".hidden", "trail.", "a..b", "\U0001F42F", "\U0001002F", "\U0010FF2F", "\U0001005C\U0001002E",
}

// c15GenTree: random tree description (creation order: parents before children)
func c15GenTree(c *ctx, maxDepth, maxFan int, sizes []int) []c15Node {
	var out []c15Node
	var rec func(rel []string, depth int)
	rec = func(rel []string, depth int) {
		n := c.rng.Intn(maxFan + 1)
		perm := c.rng.Perm(len(c15Names))
		for i := 0; i < n && i < len(perm); i++ {
			r := append(append([]string(nil), rel...), c15Names[perm[i]])
			if depth < maxDepth && c.rng.Intn(3) == 0 {
				out = append(out, c15Node{rel: r, dir: true})
				if c.rng.Intn(4) != 0 { // else: empty directory
					rec(r, depth+1)
				}
			} else {
				sz := sizes[c.rng.Intn(len(sizes))]
				d := make([]byte, sz)
				for j := range d {
					switch c.rng.Intn(6) {
					case 0:
						d[j] = '\n' // payload full of the header delimiter
					case 1:
						d[j] = byte("eJx+/=AZ"[c.rng.Intn(8)])
					default:
						d[j] = byte(c.rng.Intn(256))
					}
				}
				out = append(out, c15Node{rel: r, data: d})
			}
		}
	}
	rec(nil, 1)
	return out
}

func c15Materialise(root string, nodes []c15Node) {
	if err := os.MkdirAll(root, 0755); err != nil {
		panic(err)
	}
	for _, n := range nodes {
		p := filepath.Join(append([]string{root}, n.rel...)...)
		if n.dir {
			if err := os.MkdirAll(p, 0755); err != nil {
				panic(err)
			}
		} else if err := os.WriteFile(p, n.data, 0644); err != nil {
			panic(err)
		}
	}
}

func c15Item(rel string, dir bool, data []byte) (string, string) {
	ps := hex.EncodeToString([]byte(rel))
	if dir {
		return ps, "d:" + ps
	}
	if len(data) <= 48 {
		return ps, "f:" + ps + ":" + hx(data)
	}
	sum := md5.Sum(data)
	return ps, fmt.Sprintf("f:%s:md5:%s:%d", ps, hex.EncodeToString(sum[:]), len(data))
}

func c15Canon(items map[string]string) string {
	if len(items) == 0 {
		return "-"
	}
	keys := make([]string, 0, len(items))
	for k := range items {
		keys = append(keys, k)
	}
	sort.Strings(keys)
	parts := make([]string, len(keys))
	for i, k := range keys {
		parts[i] = items[k]
	}
	return strings.Join(parts, ";")
}

func c15CanonNodes(nodes []c15Node) string {
	items := map[string]string{}
	for _, n := range nodes {
		k, v := c15Item(strings.Join(n.rel, "/"), n.dir, n.data)
		items[k] = v
	}
	return c15Canon(items)
}

func c15CanonDisk(root string) string {
	items := map[string]string{}
	filepath.WalkDir(root, func(p string, d os.DirEntry, err error) error {
		if err != nil || p == root {
			return nil
		}
		rel, _ := filepath.Rel(root, p)
		var data []byte
		if !d.IsDir() {
			data, _ = os.ReadFile(p)
		}
		k, v := c15Item(filepath.ToSlash(rel), d.IsDir(), data)
		items[k] = v
		return nil
	})
	return c15Canon(items)
}

// model table: hdrhex:pathspec:isdir:size:datahex ; ...
type c15Row struct {
	header string
	rel    []string // relative to the archive root
	dir    bool
	size   int64
	data   []byte
}

func c15Table(rows []c15Row) string {
	if len(rows) == 0 {
		return "-"
	}
	parts := make([]string, len(rows))
	for i, r := range rows {
		ps := "-"
		if len(r.rel) > 0 {
			hs := make([]string, len(r.rel))
			for j, n := range r.rel {
				hs[j] = hex.EncodeToString([]byte(n))
			}
			ps = strings.Join(hs, "/")
		}
		d := "0"
		if r.dir {
			d = "1"
		}
		parts[i] = fmt.Sprintf("%s:%s:%s:%d:%s", hex.EncodeToString([]byte(r.header)), ps, d, r.size, hx(r.data))
	}
	return strings.Join(parts, ";")
}

func c15Rows(a *trzsz.VerifArchive) []c15Row {
	var rows []c15Row
	for _, e := range a.Entries() {
		r := c15Row{header: e.Header, rel: e.RelPath[1:], dir: e.IsDir, size: e.Size}
		if !e.IsDir {
			r.data, _ = os.ReadFile(e.AbsPath)
		}
		rows = append(rows, r)
	}
	return rows
}

func c15Fds() int {
	es, err := os.ReadDir("/proc/self/fd")
	if err != nil {
		return -1
	}
	return len(es)
}

// c15Read drives the real reader to EOF or error; sample (if non-nil) runs after every Read.
func c15Read(r io.Reader, sizes []int, dflt int, sample func()) ([][]byte, string) {
	var outs [][]byte
	// the caller's buffer is ONE array reused for every Read (as pipelineReadData and any
	// plain read loop do) and scribbled over between calls: a reader that kept a reference
	// to p instead of copying would deliver the scribble
	maxSize := dflt
	for _, x := range sizes {
		if x > maxSize {
			maxSize = x
		}
	}
	backing := make([]byte, maxSize)
	for i := 0; ; i++ {
		size := dflt
		if i < len(sizes) {
			size = sizes[i]
		}
		for j := range backing {
			backing[j] = '!'
		}
		p := backing[:size]
		n, err := r.Read(p)
		if sample != nil {
			sample()
		}
		if err == io.EOF {
			return outs, "eof"
		}
		if err != nil {
			switch {
			case strings.Contains(err.Error(), "EOF but left"):
				return outs, "err:shrink"
			case strings.Contains(err.Error(), "Open ["):
				return outs, "err:open"
			}
			return outs, "err:other"
		}
		outs = append(outs, append([]byte(nil), p[:n]...))
		if i > 1<<22 {
			return outs, "runaway"
		}
	}
}

func c15ErrClass(err error) string {
	if err == nil {
		return "ok"
	}
	m := err.Error()
	for _, k := range []string{"Decode archive header error", "Invalid source file", "invalid character", "unexpected end of JSON", "json:"} {
		if strings.Contains(m, k) {
			return "hdr"
		}
	}
	if strings.Contains(m, "Close archive file error") {
		return "close"
	}
	return "create"
}

// How the segments reach the real writer.
const (
	c15Plain  = iota // each segment is its own immutable slice
	c15Reused        // every segment is copied into ONE backing array, which is scribbled over after writeAll returns
	c15Bufio         // io.CopyBuffer (one copy buffer) -> bufio.Writer (one internal buffer) -> writeAll per flush
)

type c15SegReader struct{ segs [][]byte }

func (r *c15SegReader) Read(p []byte) (int, error) {
	for len(r.segs) > 0 && len(r.segs[0]) == 0 {
		r.segs = r.segs[1:]
	}
	if len(r.segs) == 0 {
		return 0, io.EOF
	}
	n := copy(p, r.segs[0])
	r.segs[0] = r.segs[0][n:]
	return n, nil
}

// c15AllWriter is pipelineSaveData's use of the writer: one writeAll per chunk; it records
// the byte values of every chunk (a copy) and scribbles over the caller's chunk afterwards
type c15AllWriter struct {
	w      io.Writer
	seen   [][]byte
	sample func()
	err    error
}

func (a *c15AllWriter) Write(p []byte) (int, error) {
	a.seen = append(a.seen, append([]byte(nil), p...))
	err := trzsz.VerifWriteAll(a.w, p)
	for i := range p {
		p[i] = '!'
	}
	if a.sample != nil {
		a.sample()
	}
	if err != nil {
		a.err = err
		return 0, err
	}
	return len(p), nil
}

// c15WriteMode feeds segments to a real archive writer rooted in a fresh directory and
// returns class|tree and the segments (byte values) the writer was actually handed.
func c15WriteMode(c *ctx, tmp string, seq *int, rootSource string, segs [][]byte, sample func(), mode int) (res string, actual [][]byte) {
	*seq++
	dest := filepath.Join(tmp, fmt.Sprintf("dst%d", *seq))
	if err := os.Mkdir(dest, 0755); err != nil {
		panic(err)
	}
	defer os.RemoveAll(dest)
	w, name, err := trzsz.VerifNewArchiveWriter(dest, rootSource)
	if err != nil {
		return "nowriter:err|-", segs
	}
	if w == nil {
		// the receiver did not open an archive writer for this NAME record (the flag is off)
		return "nowriter|" + c15CanonDisk(filepath.Join(dest, name)), segs
	}
	class := "ok"
	seen := segs
	defer func() {
		// a real function that panics on a case is an observation, not a harness crash
		if r := recover(); r != nil {
			res, actual = "panic:"+fmt.Sprint(r)+"|"+c15CanonDisk(filepath.Join(dest, name)), seen
		}
	}()
	switch mode {
	case c15Plain:
		for _, s := range segs {
			err := trzsz.VerifWriteAll(w, s)
			if sample != nil {
				sample()
			}
			if err != nil {
				class = c15ErrClass(err)
				break
			}
		}
	case c15Reused:
		maxLen := 0
		for _, s := range segs {
			if len(s) > maxLen {
				maxLen = len(s)
			}
		}
		aw := &c15AllWriter{w: w, sample: sample}
		backing := make([]byte, maxLen)
		for _, s := range segs {
			n := copy(backing, s)
			if _, err := aw.Write(backing[:n]); err != nil {
				class = c15ErrClass(err)
				break
			}
		}
	case c15Bufio:
		aw := &c15AllWriter{w: w, sample: sample}
		bsz := []int{1, 2, 5, 16, 50, 128, 1000, 4096}[c.rng.Intn(8)]
		csz := []int{1, 3, 7, 16, 64, 100, 4096, 32768}[c.rng.Intn(8)]
		if total := len(c15Concat(segs)); total > 8192 {
			// the model appends per segment (quadratic in the number of tiny segments): keep them medium
			bsz, csz = []int{1000, 4096, 10240}[c.rng.Intn(3)], []int{700, 4096, 32768}[c.rng.Intn(3)]
		}
		bw := bufio.NewWriterSize(aw, bsz)
		cp := make([]byte, csz)
		// struct{io.Writer} / struct{io.Reader} hide ReadFrom/WriteTo so that the copy buffer is really used
		_, err := io.CopyBuffer(struct{ io.Writer }{bw}, struct{ io.Reader }{&c15SegReader{append([][]byte(nil), segs...)}}, cp)
		if err == nil {
			err = bw.Flush()
		}
		if aw.err != nil {
			class = c15ErrClass(aw.err)
		} else if err != nil {
			class = "copy:" + err.Error()
		}
		seen = aw.seen
	}
	w.Close()
	return class + "|" + c15CanonDisk(filepath.Join(dest, name)), seen
}

// c15Write: the default is the reused caller buffer (the strictest caller)
func c15Write(tmp string, seq *int, rootSource string, segs [][]byte, sample func()) string {
	res, _ := c15WriteMode(nil, tmp, seq, rootSource, segs, sample, c15Reused)
	return res
}

// c15TreeKey names a round-trip failure: if the same byte values written from immutable
// slices give the right tree, the writer depends on the caller not touching its buffer
func c15TreeKey(tmp string, seq *int, rootSource string, seen [][]byte, want string, mode int) string {
	if mode != c15Plain {
		if res, _ := c15WriteMode(nil, tmp, seq, rootSource, seen, nil, c15Plain); res == want {
			return "roundtrip-tree:reused-buffer"
		}
	}
	return "roundtrip-tree"
}

type c15Hdr struct {
	PathID  int      `json:"path_id"`
	RelPath []string `json:"path_name"`
	IsDir   bool     `json:"is_dir"`
	Archive bool     `json:"archive"`
	Size    int64    `json:"size"`
	Perm    *uint32  `json:"perm"`
}

func c15MakeHeader(root string, rel []string, dir bool, size int64) string {
	js, _ := json.Marshal(c15Hdr{RelPath: append([]string{root}, rel...), IsDir: dir, Size: size})
	return trzsz.VerifEncodeString(string(js))
}

// c15RowOfLine: what the real header decoder makes of a line (nil = rejected)
func c15RowOfLine(line string) *c15Row {
	_, rel, dir, size, ok := trzsz.VerifParseArchiveHeader(line)
	if !ok {
		return nil
	}
	return &c15Row{header: line, rel: rel[1:], dir: dir, size: size}
}

func c15Concat(cs [][]byte) []byte {
	var b []byte
	for _, c := range cs {
		b = append(b, c...)
	}
	return b
}

// entry boundaries (offsets in the stream): header start, newline position, entry end
type c15Bounds struct{ start, nl, end int }

func c15BoundsOf(rows []c15Row) []c15Bounds {
	var out []c15Bounds
	off := 0
	for _, r := range rows {
		b := c15Bounds{start: off, nl: off + len(r.header)}
		off += len(r.header) + 1
		if !r.dir {
			off += int(r.size)
		}
		b.end = off
		out = append(out, b)
	}
	return out
}

func c15CutAt(b []byte, cuts []int) [][]byte {
	sort.Ints(cuts)
	var out [][]byte
	prev := 0
	for _, x := range cuts {
		if x <= prev || x >= len(b) {
			continue
		}
		out = append(out, b[prev:x])
		prev = x
	}
	if prev < len(b) {
		out = append(out, b[prev:])
	}
	return out
}

func (c *ctx) c15CountCuts(segs [][]byte, bounds []c15Bounds) (inHeader, atBoundary bool) {
	off := 0
	for _, s := range segs[:max(0, len(segs)-1)] {
		off += len(s)
		for _, b := range bounds {
			if off > b.start && off <= b.nl {
				inHeader = true
			}
			if off == b.end || off == b.nl+1 {
				atBoundary = true
			}
		}
	}
	if inHeader {
		c.count("writer:cut-inside-header")
	}
	if atBoundary {
		c.count("writer:cut-at-boundary")
	}
	return
}

func (c *ctx) c15Sizes(n int, choices []int) []int {
	s := make([]int, n)
	for i := range s {
		s[i] = choices[c.rng.Intn(len(choices))]
	}
	return s
}

func genArchive(c *ctx) {
	tmp, err := os.MkdirTemp("", "c15_")
	if err != nil {
		panic(err)
	}
	defer os.RemoveAll(tmp)
	seq := 0
	srcSeq := 0
	newSrc := func(nodes []c15Node) string {
		srcSeq++
		root := filepath.Join(tmp, fmt.Sprintf("src%d", srcSeq), []string{"root", "根目录", "my dir"}[srcSeq%3])
		c15Materialise(root, nodes)
		return root
	}
	scan := func(root string) (*trzsz.VerifArchive, trzsz.VerifSizedReadCloser, []c15Row, string) {
		a, err := trzsz.VerifArchiveScan(root)
		if err != nil {
			panic(err)
		}
		rd, err := a.NewReader()
		if err != nil {
			panic(err)
		}
		src, err := a.RootSource()
		if err != nil {
			panic(err)
		}
		return a, rd, c15Rows(a), src
	}

	// ---- one full round trip: scan, read with (sizes, dflt), write with nWrites independent
	// segmentations; direct oracles on the implementation
	var roundTripBody func(nodes []c15Node, kind string, dflts []int, nWrites int)
	roundTrip := func(nodes []c15Node, kind string, dflts []int, nWrites int) {
		c15Case(c, kind, c15CanonNodes(nodes), func() { roundTripBody(nodes, kind, dflts, nWrites) })
	}
	roundTripBody = func(nodes []c15Node, kind string, dflts []int, nWrites int) {
		root := newSrc(nodes)
		_, rd, rows, rootSrc := scan(root)
		if len(rows) == 0 {
			rd.Close()
			return
		}
		tbl := c15Table(rows)
		key := fmt.Sprintf("%s#%d", kind, srcSeq)
		c.count("kind:" + kind)
		for _, n := range nodes {
			switch {
			case n.dir:
				c.count("tree:dir")
			case len(n.data) == 0:
				c.count("tree:empty-file")
			case len(n.data) == 1:
				c.count("tree:one-byte-file")
			}
			if len(n.rel) >= 3 {
				c.count("tree:depth>=3")
			}
			for _, r := range n.rel[len(n.rel)-1] {
				if r > 127 {
					c.count("tree:unicode-name")
					break
				}
			}
		}
		dflt := dflts[c.rng.Intn(len(dflts))]
		sizes := c.c15Sizes(c.rng.Intn(6), []int{1, 1, 2, 3, 5, 7, 13, 64, 200})
		outs, end := c15Read(rd, sizes, dflt, nil)
		announced := rd.VerifSize()
		rd.Close()
		c.emit(len(rows) > 1, "ar_read", hxs(outs)+":"+end, tbl, ints(sizes), fmt.Sprint(dflt))
		c.emit(true, "ar_size", fmt.Sprint(announced), tbl)
		stream := c15Concat(outs)
		if end != "eof" {
			c.violate("reader-error", "reader failed on an unmodified tree", fmt.Sprintf("%s table=%s end=%s", key, tbl, end))
			return
		}
		if int64(len(stream)) != announced {
			c.violate("announced-size", "announced archive size differs from the bytes produced",
				fmt.Sprintf("%s announced=%d produced=%d table=%s", key, announced, len(stream), tbl))
		}
		want := c15CanonNodes(nodes)
		bounds := c15BoundsOf(rows)
		for k := 0; k < nWrites; k++ {
			var segs [][]byte
			switch c.rng.Intn(8) {
			case 0: // exactly at entry boundaries and header ends
				var cuts []int
				for _, b := range bounds {
					if c.rng.Intn(2) == 0 {
						cuts = append(cuts, b.end)
					}
					if c.rng.Intn(2) == 0 {
						cuts = append(cuts, b.nl+1)
					}
					if c.rng.Intn(3) == 0 {
						cuts = append(cuts, b.nl)
					}
				}
				segs = c15CutAt(stream, cuts)
			case 1: // one byte at a time (short streams), else small pieces
				if len(stream) <= 4096 {
					segs = c.split(stream, 1)
				} else {
					segs = c.split(stream, 3+len(stream)/120) // the model appends per segment: keep their number in the hundreds
				}
			case 2: // the caller's own read chunks (same size both sides, as the unit test does)
				segs = outs
			default:
				segs = c.split(stream, []int{2, 5, 16, 50, 150, 1000, 40000}[c.rng.Intn(7)])
			}
			mode := c15Reused
			switch {
			case k == 0:
				mode = c15Bufio
			case c.rng.Intn(5) == 0:
				mode = c15Plain
			}
			c.count(fmt.Sprintf("writer:mode:%s", []string{"plain", "reused-buffer", "copybuffer+bufio"}[mode]))
			res, seen := c15WriteMode(c, tmp, &seq, rootSrc, segs, nil, mode)
			if strings.HasPrefix(res, "nowriter") {
				// the sender streams an archive for this root (it has entries) but the NAME record it
				// produces does not make the receiver open an archive writer: the entries are lost
				c.violate("mode-disagree:"+c15Shape(nodes), "the sender streams an archive for a root whose NAME record does not make the receiver open an archive writer",
					fmt.Sprintf("%s tree=%s entries=%d NAME=%s receiver=%s", key, want, len(rows), rootSrc, res))
				break
			}
			inH, atB := c.c15CountCuts(seen, bounds)
			c.emit(inH || atB, "aw_write", res, tbl, hxs(seen))
			if res != "ok|"+want {
				// after an error the writer saw only a prefix: re-present the rest as one more segment
				full := seen
				if rest := stream[len(c15Concat(seen)):]; len(rest) > 0 {
					full = append(append([][]byte(nil), seen...), rest)
				}
				if refused := c15RefusedNames(nodes); refused != "" {
					// the stream is fine: the writer refuses an entry because of its name
					c15ViolateCapped(c, 3, "entry-name-refused:"+refused, "the archive writer refuses an entry whose name is a valid single path element",
						fmt.Sprintf("%s tree=%s got=%s", key, c15DescNodes(nodes), res))
					break
				}
				if bad := c15UndecodableHeader(rows); bad >= 0 {
					// the stream is fine: the real decoder does not invert the real encoder on this header
					r := rows[bad]
					c.violate("header-roundtrip:"+strings.TrimPrefix(kind, "compressible-headers:"), "an entry header produced by the real encoder (marshalSourceFile + zlib + base64) does not decode to itself through the real decoder",
						fmt.Sprintf("%s: entry %d of %d, relative path of %d components / %d bytes (first component %.40q): header of %d bytes; writer result %.60s; header=%s",
							key, bad+1, len(rows), len(r.rel), len(strings.Join(r.rel, "/")), r.rel[0], len(r.header), res, r.header))
					break
				}
				c.violate(c15TreeKey(tmp, &seq, rootSrc, full, "ok|"+want, mode), "the tree written from the archive stream differs from the source tree",
					fmt.Sprintf("%s mode=%d table=%s segs=%s got=%s want=%s", key, mode, tbl, hxs(seen), res, want))
			}
		}
	}

	small := []int{0, 0, 1, 1, 2, 3, 7, 20, 64, 65, 130, 300}
	// 1. corpus: the unit test's tree, and hand-made corner trees
	corpus := [][]c15Node{
		{{rel: []string{"empty_dir"}, dir: true}, {rel: []string{"sub_folder"}, dir: true}, {rel: []string{"empty_file"}},
			{rel: []string{"sub_folder", "中文"}, dir: true},
			{rel: []string{"sub_folder", "file1"}, data: bytes.Repeat([]byte("file content in file1.\n"), 100)},
			{rel: []string{"sub_folder", "中文", "文件2"}, data: bytes.Repeat([]byte("file content in 文件2.\n"), 100)},
			{rel: []string{"sub_folder", "中文", "file3"}, data: bytes.Repeat([]byte("file content in file3.\n"), 100)}},
		{{rel: []string{"only_empty_file"}}},
		{{rel: []string{"only_empty_dir"}, dir: true}},
		{{rel: []string{"e1"}}, {rel: []string{"e2"}}, {rel: []string{"e3"}}},
		{{rel: []string{"d"}, dir: true}, {rel: []string{"d", "d"}, dir: true}, {rel: []string{"d", "d", "d"}, dir: true}, {rel: []string{"d", "d", "d", "d"}, data: []byte("\n")}},
		{{rel: []string{"nl"}, data: []byte("\n\n\n")}, {rel: []string{"one"}, data: []byte("x")}, {rel: []string{"zero"}}},
	}
	for _, nodes := range corpus {
		for i := 0; i < c.pick(2, 6); i++ {
			roundTrip(nodes, "corpus", []int{1, 2, 3, 10, 135, 136, 137, 171, 172, 173, 200, 32768}, 4)
		}
	}
	// 2. random trees, small files, several read buffers per file
	for i := 0; i < c.pick(150, 2500); i++ {
		nodes := c15GenTree(c, 1+c.rng.Intn(4), 1+c.rng.Intn(5), small)
		roundTrip(nodes, "random", []int{1, 2, 3, 7, 16, 64, 100, 32768}, 3)
	}
	// 3. files of several 32 KiB read buffers (pipelineReadData's buffer size)
	for i := 0; i < c.pick(3, 25); i++ {
		nodes := c15GenTree(c, 2, 3, []int{0, 1, 32767, 32768, 32769, 70000, 100000})
		roundTrip(nodes, "large", []int{32768, 32768, 10240}, 2)
	}

	// 4. tiny trees: exhaustive segmentations over the interesting cut positions
	tiny := [][]c15Node{
		{{rel: []string{"d"}, dir: true}, {rel: []string{"d", "a"}, data: []byte("\nb")}, {rel: []string{"e"}}, {rel: []string{"b"}, data: []byte("x")}},
		{{rel: []string{"z"}}, {rel: []string{"ed"}, dir: true}, {rel: []string{"f"}, data: []byte("abc")}},
		{{rel: []string{"中"}, data: []byte{'\n'}}, {rel: []string{"q"}, data: []byte("12")}},
	}
	for ti, nodes := range tiny {
		c15Case(c, "tiny", fmt.Sprint(ti), func() {
			root := newSrc(nodes)
			_, rd, rows, rootSrc := scan(root)
			tbl := c15Table(rows)
			outs, end := c15Read(rd, nil, 1<<16, nil)
			rd.Close()
			stream := c15Concat(outs)
			if end != "eof" {
				panic("tiny tree reader: " + end)
			}
			want := "ok|" + c15CanonNodes(nodes)
			bounds := c15BoundsOf(rows)
			var pos []int
			for _, b := range bounds {
				pos = append(pos, b.start+1, b.nl, b.nl+1)
				for x := b.nl + 2; x <= b.end; x++ {
					pos = append(pos, x)
				}
			}
			sort.Ints(pos)
			var uniq []int
			for _, x := range pos {
				if x > 0 && x < len(stream) && (len(uniq) == 0 || uniq[len(uniq)-1] != x) {
					uniq = append(uniq, x)
				}
			}
			limit := c.pick(10, 14)
			// a different window of positions for each tier/tree keeps all of them covered over time
			for len(uniq) > limit {
				i := c.rng.Intn(len(uniq))
				uniq = append(uniq[:i], uniq[i+1:]...)
			}
			check := func(segs [][]byte) {
				inH, atB := c.c15CountCuts(segs, bounds)
				res := c15Write(tmp, &seq, rootSrc, segs, nil)
				c.emit(inH || atB, "aw_write", res, tbl, hxs(segs))
				if res != want {
					c.violate(c15TreeKey(tmp, &seq, rootSrc, segs, want, c15Reused), "the tree written from the archive stream differs from the source tree",
						fmt.Sprintf("tiny#%d mode=reused-buffer table=%s segs=%s got=%s want=%s", ti, tbl, hxs(segs), res, want))
				}
			}
			for mask := 0; mask < 1<<len(uniq); mask++ {
				var cuts []int
				for i, x := range uniq {
					if mask&(1<<i) != 0 {
						cuts = append(cuts, x)
					}
				}
				check(c15CutAt(stream, cuts))
			}
			c.count("tiny:subsets-of-positions")
			for x := 1; x < len(stream); x++ { // every single cut
				check(c15CutAt(stream, []int{x}))
			}
			check(c.split(stream, 1)) // one byte at a time
			// every pair of read sizes 1..4 x dflt for the reader on the same tree
			for s1 := 1; s1 <= 4; s1++ {
				for _, dflt := range []int{1, 2, 5, 64} {
					_, rd, _, _ := scan(root)
					o, e := c15Read(rd, []int{s1, 5 - s1}, dflt, nil)
					rd.Close()
					c.emit(true, "ar_read", hxs(o)+":"+e, tbl, ints([]int{s1, 5 - s1}), fmt.Sprint(dflt))
				}
			}
		})
	}

	// 5. a source file changes length between scan and read
	for i := 0; i < c.pick(60, 800); i++ {
		c15Case(c, "length-change", fmt.Sprint(i), func() {
			nodes := c15GenTree(c, 3, 4, small)
			var files []int
			for j, n := range nodes {
				if !n.dir && len(n.data) > 0 {
					files = append(files, j)
				}
			}
			if len(files) == 0 {
				return
			}
			root := newSrc(nodes)
			a, rd, _, rootSrc := scan(root)
			victim := nodes[files[c.rng.Intn(len(files))]]
			vp := filepath.Join(append([]string{root}, victim.rel...)...)
			shrink := c.rng.Intn(3) != 0
			if shrink {
				if err := os.Truncate(vp, int64(c.rng.Intn(len(victim.data)))); err != nil {
					panic(err)
				}
			} else {
				f, _ := os.OpenFile(vp, os.O_APPEND|os.O_WRONLY, 0)
				f.Write(bytes.Repeat([]byte{'+'}, 1+c.rng.Intn(40)))
				f.Close()
			}
			rows := c15Rows(a) // data as it is now
			tbl := c15Table(rows)
			dflt := []int{1, 3, 16, 64, 32768}[c.rng.Intn(5)]
			sizes := c.c15Sizes(c.rng.Intn(4), []int{1, 2, 5, 50})
			outs, end := c15Read(rd, sizes, dflt, nil)
			rd.Close()
			c.emit(true, "ar_read", hxs(outs)+":"+end, tbl, ints(sizes), fmt.Sprint(dflt))
			if shrink {
				c.count("change:shrink")
				if end != "err:shrink" {
					c.violate("shrink-not-reported", "a source file shorter than announced was not reported as an error",
						fmt.Sprintf("table=%s sizes=%s dflt=%d end=%s", tbl, ints(sizes), dflt, end))
				}
			} else {
				c.count("change:grow")
				// only the announced prefix is sent; the destination equals the tree as scanned
				gsegs := c.split(c15Concat(outs), 40)
				res := c15Write(tmp, &seq, rootSrc, gsegs, nil)
				if want := "ok|" + c15CanonNodes(nodes); end != "eof" || res != want {
					gkey := "grow-shifts"
					if refused := c15RefusedNames(nodes); refused != "" {
						c15ViolateCapped(c, 3, "entry-name-refused:"+refused, "the archive writer refuses an entry whose name is a valid single path element",
							fmt.Sprintf("tree=%s got=%s", c15DescNodes(nodes), res))
						return
					} else if strings.HasPrefix(res, "nowriter") {
						gkey = "mode-disagree:" + c15Shape(nodes) // not about the growth: the receiver opened no archive writer
					} else if end == "eof" && c15TreeKey(tmp, &seq, rootSrc, gsegs, want, c15Reused) != "roundtrip-tree" {
						gkey = "roundtrip-tree:reused-buffer" // the reader was fine; the writer kept the caller's slice
					}
					c.violate(gkey, "a source file that grew after the scan corrupted the archive",
						fmt.Sprintf("table=%s end=%s segs=%s got=%s", tbl, end, hxs(gsegs), res))
				}
			}
		})
	}

	// 5b. every way of getting shorter, on a fixed tree: to zero / by one byte / to half, every non-empty
	// file as the victim, before the first Read or in the middle of the reading; besides the reader's
	// verdict the stream it produced is judged (announced size) and written (entries shifted?)
	shrinkTree := []c15Node{{rel: []string{"A.log"}, data: bytes.Repeat([]byte("line of a log\n"), 21)}, {rel: []string{"d"}, dir: true},
		{rel: []string{"d", "B"}, data: bytes.Repeat([]byte{'b'}, 130)}, {rel: []string{"C"}, data: bytes.Repeat([]byte("c\n"), 32)}, {rel: []string{"E"}},
		{rel: []string{"F"}, data: []byte("f")}, {rel: []string{"z-last"}, data: bytes.Repeat([]byte{'z'}, 65)}}
	for vi, victim := range shrinkTree {
		if victim.dir || len(victim.data) == 0 {
			continue
		}
		for _, kind := range []string{"to-zero", "by-one", "to-half", "mid-read"} {
			vi, victim, kind := vi, victim, kind
			c15Case(c, "shrink", fmt.Sprintf("tree=%s victim=%s (%d bytes) kind=%s (shortened between scan and read)", c15DescNodes(shrinkTree), strings.Join(victim.rel, "/"), len(victim.data), kind), func() {
				root := newSrc(shrinkTree)
				a, rd, _, rootSrc := scan(root)
				vp := filepath.Join(append([]string{root}, victim.rel...)...)
				newLen := map[string]int64{"to-zero": 0, "by-one": int64(len(victim.data) - 1), "to-half": int64(len(victim.data) / 2), "mid-read": 0}[kind]
				dflt := []int{1, 7, 512, 32768}[c.rng.Intn(4)]
				announced := rd.VerifSize()
				var outs [][]byte
				var end string
				c.count("shrink:" + kind)
				if kind == "mid-read" {
					// the unmodified stream first, to know how many reads there are; then truncate after the k-th
					ref, _ := c15Read(rd, nil, dflt, nil)
					rd.Close()
					a2, err := trzsz.VerifArchiveScan(root)
					if err != nil {
						panic(err)
					}
					rd2, err := a2.NewReader()
					if err != nil {
						panic(err)
					}
					k, n := 1+c.rng.Intn(max(1, len(ref))), 0
					outs, end = c15Read(rd2, nil, dflt, func() {
						n++
						if n == k {
							os.Truncate(vp, 0)
						}
					})
					rd2.Close()
					got := c15Concat(outs)
					switch {
					case end == "eof" && !bytes.Equal(got, c15Concat(ref)):
						c.violate("shrink-not-reported:mid-read", "a file truncated while the archive was being read: the reader ends with EOF but the stream is not the scanned tree's",
							fmt.Sprintf("tree=%s victim=%s truncated to 0 after read %d of %d (buffer %d): produced %d bytes, announced %d", c15DescNodes(shrinkTree), strings.Join(victim.rel, "/"), k, len(ref), dflt, len(got), announced))
					case end != "eof" && end != "err:shrink":
						c.violate("shrink-other-error:mid-read", "unexpected reader result", fmt.Sprintf("victim=%s end=%s", strings.Join(victim.rel, "/"), end))
					}
					return
				}
				if err := os.Truncate(vp, newLen); err != nil {
					panic(err)
				}
				rows := c15Rows(a)
				tbl := c15Table(rows)
				outs, end = c15Read(rd, nil, dflt, nil)
				rd.Close()
				c.emit(true, "ar_read", hxs(outs)+":"+end, tbl, "-", fmt.Sprint(dflt))
				detail := fmt.Sprintf("tree=%s victim=%s (entry %d) %d -> %d bytes between scan and read, buffer %d: reader ends with %s after %d bytes, announced %d",
					c15DescNodes(shrinkTree), strings.Join(victim.rel, "/"), vi, len(victim.data), newLen, dflt, end, len(c15Concat(outs)), announced)
				if end != "err:shrink" {
					c.violate("shrink-not-reported:"+kind, "a source file shorter than announced was not reported as an error", detail)
				}
				if end == "eof" {
					if int64(len(c15Concat(outs))) != announced {
						c.violate("shrink-stream-short:"+kind, "the reader reports success but produced fewer bytes than it announced", detail)
					}
					res := c15Write(tmp, &seq, rootSrc, c.split(c15Concat(outs), 50), nil)
					if want := "ok|" + c15CanonNodes(shrinkTree); res != want {
						c.violate("shrink-shifts-entries:"+kind, "the stream of a tree with a shrunk file, accepted by the reader, puts wrong bytes into wrong files on the receiving side",
							detail+fmt.Sprintf(" :: receiver got %s", res))
					}
				}
			})
		}
	}

	// 6. reader on explicit entries: directory sizes != 0, announced sizes below / above the
	// real length, zero announced for a non-empty file
	for i := 0; i < c.pick(80, 1200); i++ {
		c15Case(c, "explicit-entries", fmt.Sprint(i), func() {
			nodes := c15GenTree(c, 2, 4, []int{0, 1, 2, 5, 30, 70})
			if len(nodes) == 0 {
				return
			}
			root := newSrc(nodes)
			var es []trzsz.VerifArchiveEntry
			for _, n := range nodes {
				e := trzsz.VerifArchiveEntry{RelPath: append([]string{"r"}, n.rel...), IsDir: n.dir,
					AbsPath: filepath.Join(append([]string{root}, n.rel...)...), Size: int64(len(n.data))}
				switch c.rng.Intn(6) {
				case 0:
					if n.dir {
						e.Size = int64(c.rng.Intn(5000))
					} else {
						e.Size = int64(c.rng.Intn(len(n.data) + 3))
					}
				case 1:
					if !n.dir {
						e.Size = 0
					}
				}
				es = append(es, e)
			}
			a := trzsz.VerifArchiveFromEntries("r", 0, es)
			rd, err := a.NewReader()
			if err != nil {
				panic(err)
			}
			tbl := c15Table(c15Rows(a))
			dflt := []int{1, 2, 7, 64, 32768}[c.rng.Intn(5)]
			sizes := c.c15Sizes(c.rng.Intn(4), []int{1, 2, 3, 9})
			outs, end := c15Read(rd, sizes, dflt, nil)
			c.emit(true, "ar_read", hxs(outs)+":"+end, tbl, ints(sizes), fmt.Sprint(dflt))
			c.emit(true, "ar_size", fmt.Sprint(rd.VerifSize()), tbl)
			rd.Close()
			c.count("reader:explicit-entries:" + strings.SplitN(end, ":", 2)[0])
		})
	}

	// 7. writer on hand-made / damaged streams: junk headers, truncated streams, payload
	// shorter or longer than announced, negative sizes, directories with a size, the same
	// path twice, file/directory conflicts, an entry that is the root itself
	rootName := "r"
	rootSrcJS, _ := json.Marshal(c15Hdr{RelPath: []string{rootName}, IsDir: true, Archive: true})
	for i := 0; i < c.pick(400, 6000); i++ {
		c15Case(c, "damaged-stream", fmt.Sprint(i), func() {
			n := 1 + c.rng.Intn(5)
			var rows []c15Row
			var stream []byte
			names := []string{"a", "b", "c", "ü"}
			for j := 0; j < n; j++ {
				var rel []string
				for d := c.rng.Intn(4); d > 0; d-- {
					rel = append(rel, names[c.rng.Intn(len(names))])
				}
				dir := c.rng.Intn(3) == 0
				sz := int64(c.rng.Intn(6))
				switch c.rng.Intn(10) {
				case 0:
					sz = -int64(c.rng.Intn(4))
				case 1:
					if dir {
						sz = int64(c.rng.Intn(5000))
					}
				}
				h := c15MakeHeader(rootName, rel, dir, sz)
				if c.rng.Intn(25) == 0 {
					h = []string{"", "AAAA", "eJw=", "not base64!", h[:len(h)/2], trzsz.VerifEncodeString("{\"path_name\":[]}"), trzsz.VerifEncodeString("[1]")}[c.rng.Intn(7)]
				}
				if r := c15RowOfLine(h); r != nil {
					rows = append(rows, *r)
				} else {
					c.count("writer:junk-header")
				}
				stream = append(stream, h...)
				stream = append(stream, '\n')
				plen := int(sz)
				if dir || plen < 0 {
					plen = 0
				}
				switch c.rng.Intn(12) {
				case 0:
					plen += 1 + c.rng.Intn(3)
					c.count("writer:payload-longer")
				case 1:
					if plen > 0 {
						plen = c.rng.Intn(plen)
						c.count("writer:payload-shorter")
					}
				}
				for k := 0; k < plen; k++ {
					stream = append(stream, "xy\nz"[c.rng.Intn(4)])
				}
			}
			if c.rng.Intn(5) == 0 && len(stream) > 1 {
				stream = stream[:1+c.rng.Intn(len(stream)-1)]
				c.count("writer:truncated-stream")
			}
			segs := c.split(stream, []int{1, 3, 10, 60, 400}[c.rng.Intn(5)])
			res := c15Write(tmp, &seq, string(rootSrcJS), segs, nil)
			c.count("writer:damaged:" + strings.SplitN(res, "|", 2)[0])
			c.emit(true, "aw_write", res, c15Table(rows), hxs(segs))
		})
	}

	// 8. descriptors: 300+ entries, GC off so that finalizers cannot hide a leak
	c15Case(c, "descriptors", "flat tree of 300+ entries", func() { c15FdRun(c, tmp, &seq) })

	// 9. who decides "archive": zero-, one- and many-entry roots through the real scan, grouping,
	// NAME record, sender's and receiver's next step; whole transfers in process and through
	// the real binaries
	c15Mode(c, tmp)

	// 10. names over the whole of Unicode: the real checkFileName against valid_name on UTF-8 bytes
	c15Case(c, "names", "all BMP code points", func() { c15NamesTie(c) })

	// 12. every header the sender can produce decodes to itself: headers that compress arbitrarily well
	c15Headers(c, tmp, roundTrip)

	// 13. errors of the destination surface through the archive writer
	c15DestFaults(c, tmp, &seq)

	// 11. the archive stream as a source file: the compression decision around the 128 KiB
	// point, and whole transfers of such streams with compression auto / yes / no
	c15Stream(c, tmp)
}

// c15Case runs one case of the generator: a real function that panics or does not return
// on it is an observation about the implementation (a violation with the case), never a
// crash or a hang of the harness.
var c15HungFamilies = map[string]bool{}

func c15Case(c *ctx, kind, desc string, f func()) {
	if c15HungFamilies[kind] {
		// a case of this family did not return: its goroutine is still spinning; the family has been reported
		c.count("skipped-after-hang:" + kind)
		return
	}
	done := make(chan any, 1)
	go func() {
		defer func() { done <- recover() }()
		f()
	}()
	select {
	case r := <-done:
		if r != nil {
			if len(desc) > 4000 {
				desc = desc[:4000] + "..."
			}
			c.violate("case-panic:"+kind, "a real function panicked on this case", fmt.Sprintf("%s case=%s panic=%v", kind, desc, r))
		}
	case <-time.After(30 * time.Second):
		c15HungFamilies[kind] = true
		c.violate("case-hang:"+kind, "a real function did not return on this case", fmt.Sprintf("%s case=%s", kind, desc))
	}
}

func c15FdRun(c *ctx, tmp string, seq *int) {
	nEntries := c.pick(320, 1200)
	var nodes []c15Node
	for i := 0; i < nEntries; i++ {
		switch {
		case i%10 == 0:
			nodes = append(nodes, c15Node{rel: []string{fmt.Sprintf("dir%03d", i)}, dir: true})
		case i%10 == 1:
			nodes = append(nodes, c15Node{rel: []string{fmt.Sprintf("dir%03d", i-1), "inner"}, data: []byte("inner")})
		case i%7 == 0:
			nodes = append(nodes, c15Node{rel: []string{fmt.Sprintf("empty%03d", i)}})
		default:
			nodes = append(nodes, c15Node{rel: []string{fmt.Sprintf("f%03d", i)}, data: []byte(fmt.Sprintf("content of %d\n", i))})
		}
	}
	root := filepath.Join(tmp, "fdsrc", "root")
	c15Materialise(root, nodes)
	a, err := trzsz.VerifArchiveScan(root)
	if err != nil {
		panic(err)
	}
	// the scan itself leaves directory handles to the finalizers; collect them first
	runtime.GC()
	runtime.GC()
	old := debug.SetGCPercent(-1)
	defer debug.SetGCPercent(old)
	base := c15Fds()
	rd, err := a.NewReader()
	if err != nil {
		panic(err)
	}
	rpeak := 0
	outs, end := c15Read(rd, nil, 100, func() {
		if n := c15Fds(); n > rpeak {
			rpeak = n
		}
	})
	rd.Close()
	rafter := c15Fds()
	rootSrc, _ := a.RootSource()
	wbase := c15Fds() // the writer is judged against what was open when it started
	wpeak := 0
	fdSegs := c15CutAt(c15Concat(outs), func() []int {
		var cuts []int
		for x := 77; x < len(c15Concat(outs)); x += 77 {
			cuts = append(cuts, x)
		}
		return cuts
	}())
	res := c15Write(tmp, seq, rootSrc, fdSegs, func() {
		if n := c15Fds(); n > wpeak {
			wpeak = n
		}
	})
	wafter := c15Fds()
	detail := fmt.Sprintf("entries=%d baseline=%d reader_peak=%d after_reader_close=%d writer_peak=%d after_writer_close=%d", nEntries, base, rpeak, rafter, wpeak, wafter)
	c.count("fds:run")
	c.stats["fds:entries"] = nEntries
	c.stats["fds:reader-peak-minus-baseline"] = rpeak - base
	c.stats["fds:writer-peak-minus-baseline"] = wpeak - wbase
	c.stats["fds:left-open-after-close"] = wafter - wbase
	if want := "ok|" + c15CanonNodes(nodes); end != "eof" || res != want {
		key := "roundtrip-tree"
		if end == "eof" {
			key = c15TreeKey(tmp, seq, rootSrc, fdSegs, want, c15Reused)
		}
		c.violate(key, "large flat tree not reconstructed", detail+" end="+end)
	}
	const slack = 2
	if rpeak-base > slack {
		c.violate("reader-fd-growth", "archive reader: open descriptors grow with the entry count", detail)
	} else if rafter != base {
		c.violate("reader-fd-left-open", "archive reader: a descriptor is still open after Close", detail)
	}
	if wpeak-wbase > slack {
		c.violate("writer-fd-growth", "archive writer: open descriptors grow with the entry count (previous entry's file is not closed)", detail)
	} else if wafter != wbase {
		c.violate("writer-fd-left-open", "archive writer: a descriptor is still open after Close", detail)
	}
}

// ---------------------------------------------------------------------------------------
// who decides "archive" (Model/ArchiveMode.v)

// c15Shape names the shape of a root by the number of entries below it.
func c15Shape(nodes []c15Node) string {
	switch len(nodes) {
	case 0:
		return "zero-entry"
	case 1:
		switch {
		case nodes[0].dir:
			return "one-empty-dir"
		case len(nodes[0].data) == 0:
			return "one-empty-file"
		}
		return "one-file"
	}
	chain := true
	for i, n := range nodes {
		if len(n.rel) != i+1 || (i < len(nodes)-1 && !n.dir) {
			chain = false
		}
	}
	if chain {
		if nodes[len(nodes)-1].dir {
			return "chain-of-dirs"
		}
		return "chain-to-file"
	}
	if len(nodes) == 2 {
		return "two-entries"
	}
	return "many-entries"
}

type c15ModeSrc struct {
	name   string
	file   []byte // a plain file (nodes unused) when isFile
	isFile bool
	nodes  []c15Node // a directory root with these entries below it
}

func (m c15ModeSrc) shape() string {
	if m.isFile {
		return "plain-file"
	}
	return c15Shape(m.nodes)
}

type c15ModeCase struct {
	srcs      []c15ModeSrc
	overwrite bool
	proto     int
	dir       string
	paths     []string
	scan      []trzsz.VerifModeSrc
	steps     []trzsz.VerifModeStep
	planPanic string
	pair      trzsz.VerifPairResult
	pairDiffs []string
	failing   string
	pairPanic string
}

func (mc *c15ModeCase) shapes() string {
	var s []string
	for _, x := range mc.srcs {
		s = append(s, x.shape())
	}
	return strings.Join(s, "+")
}

func c15ModeScanArg(scan []trzsz.VerifModeSrc) string {
	if len(scan) == 0 {
		return "-"
	}
	parts := make([]string, len(scan))
	for i, e := range scan {
		hs := make([]string, len(e.RelPath))
		for j, n := range e.RelPath {
			hs[j] = hex.EncodeToString([]byte(n))
		}
		d := "0"
		if e.IsDir {
			d = "1"
		}
		parts[i] = fmt.Sprintf("%d:%s:%s:%d", e.PathID, strings.Join(hs, "/"), d, e.Size)
	}
	return strings.Join(parts, ";")
}

func c15ModeKind(s string) string {
	switch {
	case s == "archive" || s == "none" || s == "file" || s == "err" || s == "hang":
		return s
	case strings.HasPrefix(s, "err:"):
		return "err"
	case strings.HasPrefix(s, "panic"):
		return "panic"
	}
	return "?" + s
}

func c15ModePlanRes(steps []trzsz.VerifModeStep, panicked string) string {
	if panicked != "" {
		return "panic"
	}
	if len(steps) == 0 {
		return "-"
	}
	parts := make([]string, len(steps))
	for i, st := range steps {
		if st.Nil {
			parts[i] = "nil"
			continue
		}
		hs := make([]string, len(st.RelPath))
		for j, n := range st.RelPath {
			hs[j] = hex.EncodeToString([]byte(n))
		}
		b := func(x bool) string {
			if x {
				return "1"
			}
			return "0"
		}
		parts[i] = fmt.Sprintf("%d:%s:%s:%s:%d:%d:%s:%s", st.PathID, strings.Join(hs, "/"), b(st.IsDir), b(st.Archive), st.NSubs, st.Size,
			c15ModeKind(st.Sender), c15ModeKind(st.Receiver))
	}
	return strings.Join(parts, ";")
}

// c15WireNames: the NAME records the sender wrote and whether it went on with SIZE (a stream) after each
func c15WireNames(s2r []byte) (flags []bool, isDir []bool, streamed []bool, names []string) {
	var types, payloads []string
	for _, ln := range strings.Split(string(s2r), "\n") {
		ln = strings.TrimSpace(ln)
		if !strings.HasPrefix(ln, "#") {
			continue
		}
		i := strings.IndexByte(ln, ':')
		if i < 0 {
			continue
		}
		types = append(types, ln[1:i])
		payloads = append(payloads, ln[i+1:])
	}
	for i, t := range types {
		if t != "NAME" {
			continue
		}
		js, err := decodeLinePayload(payloads[i])
		if err != nil {
			continue
		}
		var h c15Hdr
		if json.Unmarshal(js, &h) != nil {
			continue
		}
		flags = append(flags, h.Archive)
		isDir = append(isDir, h.IsDir)
		streamed = append(streamed, i+1 < len(types) && types[i+1] == "SIZE")
		names = append(names, string(js))
	}
	return
}

func c15Mode(c *ctx, tmp string) {
	mk := func(rel ...string) []string { return rel }
	file := func(data string, rel ...string) c15Node { return c15Node{rel: rel, data: []byte(data)} }
	dir := func(rel ...string) c15Node { return c15Node{rel: rel, dir: true} }
	_ = mk
	fixed := map[string][]c15Node{
		"zero":           {},
		"one-file":       {file("only content\n", "only.bin")},
		"one-empty-file": {file("", "zero")},
		"one-empty-dir":  {dir("nothing-here")},
		"chain-dirs":     {dir("x"), dir("x", "y"), dir("x", "y", "z")},
		"chain-file":     {dir("x"), dir("x", "y"), file("deep", "x", "y", "f")},
		"two":            {file("a", "a"), file("", "b")},
		"dir+file":       {dir("d"), file("in d\n", "d", "f")},
	}
	fixedOrder := []string{"zero", "one-file", "one-empty-file", "one-empty-dir", "chain-dirs", "chain-file", "two", "dir+file"}
	var sets [][]c15ModeSrc
	for _, k := range fixedOrder {
		sets = append(sets, []c15ModeSrc{{name: "根 " + k, nodes: fixed[k]}})
	}
	many := func() []c15Node {
		for {
			n := c15GenTree(c, 1+c.rng.Intn(3), 2+c.rng.Intn(4), []int{0, 1, 2, 9, 70, 300})
			if len(n) >= 2 {
				return n
			}
		}
	}
	sets = append(sets, []c15ModeSrc{{name: "many", nodes: many()}})
	// roots and entries named by code points that look like separators / dots to anything but a test on UTF-8 bytes
	for i := 0; i < c.pick(6, len(c15OddNames)); i++ {
		n1 := c15OddNames[(i*5+c.rng.Intn(5))%len(c15OddNames)]
		n2 := c15OddNames[c.rng.Intn(len(c15OddNames))]
		n3 := c15OddNames[c.rng.Intn(len(c15OddNames))]
		nodes := []c15Node{dir(n2), file("odd "+n3, n2, n3)}
		if n3 != n2 {
			nodes = append(nodes, file("", n3))
		}
		sets = append(sets, []c15ModeSrc{{name: n1, nodes: nodes}})
	}
	// several roots in one transfer: one-entry and zero-entry roots between bigger ones and plain files
	for i := 0; i < c.pick(10, 150); i++ {
		k := 2 + c.rng.Intn(4)
		var set []c15ModeSrc
		for j := 0; j < k; j++ {
			nm := fmt.Sprintf("s%d", j)
			switch c.rng.Intn(8) {
			case 0, 1:
				set = append(set, c15ModeSrc{name: nm + ".dat", isFile: true, file: []byte(strings.Repeat("p", c.rng.Intn(40)))})
			case 2:
				set = append(set, c15ModeSrc{name: nm, nodes: many()})
			default:
				key := fixedOrder[c.rng.Intn(len(fixedOrder))]
				set = append(set, c15ModeSrc{name: nm + "-" + key, nodes: fixed[key]})
			}
		}
		sets = append(sets, set)
	}
	cfgs := []struct {
		ow    bool
		proto int
	}{{false, 4}, {false, 5}, {false, 3}, {false, 2}, {true, 4}}
	var cases []*c15ModeCase
	for si, set := range sets {
		for ci, cf := range cfgs {
			if si >= 9 && ci != 0 && c.rng.Intn(3) != 0 {
				continue // the multi-root sets take the archive configuration always, the others now and then
			}
			mc := &c15ModeCase{srcs: set, overwrite: cf.ow, proto: cf.proto, dir: filepath.Join(tmp, fmt.Sprintf("mode%d_%d", si, ci))}
			cases = append(cases, mc)
		}
	}
	parallelDo(len(cases), 16, func(i int) {
		mc := cases[i]
		for _, s := range mc.srcs {
			p := filepath.Join(mc.dir, "src", s.name)
			if s.isFile {
				os.MkdirAll(filepath.Dir(p), 0755)
				os.WriteFile(p, s.file, 0644)
			} else {
				c15Materialise(p, s.nodes)
			}
			mc.paths = append(mc.paths, p)
		}
		func() {
			defer func() {
				if r := recover(); r != nil {
					mc.planPanic = fmt.Sprint(r)
				}
			}()
			mc.scan, _ = trzsz.VerifModeScan(mc.paths)
			planDest := filepath.Join(mc.dir, "plan-dest")
			os.MkdirAll(planDest, 0755)
			mc.steps, mc.planPanic = trzsz.VerifModePlan(mc.paths, planDest, mc.overwrite, mc.proto)
		}()
		func() {
			defer func() {
				if r := recover(); r != nil {
					mc.pairPanic = fmt.Sprint(r)
				}
			}()
			dest := filepath.Join(mc.dir, "dest")
			os.MkdirAll(dest, 0755)
			mc.pair = trzsz.VerifModePair(mc.paths, dest, mc.overwrite, mc.proto, 2, 20*time.Second)
			r := mc.pair
			if r.Hung || r.SendErr != "" || r.RecvErr != "" {
				mc.pairDiffs = append(mc.pairDiffs, fmt.Sprintf("no-success: hung=%v sender=%q receiver=%q", r.Hung, r.SendErr, r.RecvErr))
			}
			if len(r.LocalNames) != len(mc.paths) {
				mc.pairDiffs = append(mc.pairDiffs, fmt.Sprintf("names-count: receiver saved %v for %d sources", r.LocalNames, len(mc.paths)))
			}
			bad := map[string]bool{}
			for j, p := range mc.paths {
				var d []string
				if j < len(r.LocalNames) {
					d = sameTree(p, filepath.Join(dest, r.LocalNames[j]))
				} else {
					d = sameTree(p, filepath.Join(dest, filepath.Base(p))) // a failed recvFiles returns no names; the destination was empty
				}
				if len(d) > 0 {
					if len(bad) == 0 {
						bad[mc.srcs[j].shape()] = true // the first root that did not arrive names the case; the transfer stops there
					}
					mc.pairDiffs = append(mc.pairDiffs, d...)
				}
			}
			var bl []string
			for k := range bad {
				bl = append(bl, k)
			}
			sort.Strings(bl)
			mc.failing = strings.Join(bl, "+")
			if mc.failing == "" {
				mc.failing = "no-success"
			}
		}()
		os.RemoveAll(mc.dir)
	})
	for _, mc := range cases {
		shapes := mc.shapes()
		desc := fmt.Sprintf("roots=%s overwrite=%v proto=%d scan=%s", shapes, mc.overwrite, mc.proto, c15ModeScanArg(mc.scan))
		for _, s := range mc.srcs {
			c.count("mode:root:" + s.shape())
		}
		c.count(fmt.Sprintf("mode:cfg:overwrite=%v,proto=%d", mc.overwrite, mc.proto))
		b := "0"
		if mc.overwrite {
			b = "1"
		}
		c.emit(true, "amo_plan", c15ModePlanRes(mc.steps, mc.planPanic), b, fmt.Sprint(mc.proto), c15ModeScanArg(mc.scan))
		if mc.planPanic != "" {
			c.violate("mode-panic:"+shapes, "scan / grouping / NAME record panicked or failed", desc+" :: "+mc.planPanic)
		}
		for _, st := range mc.steps {
			if st.Nil {
				continue
			}
			sk, rk := c15ModeKind(st.Sender), c15ModeKind(st.Receiver)
			if sk != rk {
				// direct oracle: after the NAME exchange both ends must expect the same thing
				rootShape := shapes
				if st.PathID >= 0 && st.PathID < len(mc.srcs) {
					rootShape = mc.srcs[st.PathID].shape()
				}
				c.violate("mode-disagree:"+rootShape, "after the NAME exchange the sender and the receiver are out of step (one streams / expects an archive, the other does not)",
					fmt.Sprintf("%s :: root=%v entries-below=%d sender=%s receiver=%s NAME=%s", desc, st.RelPath, st.NSubs, st.Sender, st.Receiver, st.Name))
			}
		}
		if mc.pairPanic != "" {
			c.violate("pair-panic:"+shapes, "sendFiles / recvFiles panicked", desc+" :: "+mc.pairPanic)
		}
		if len(mc.pairDiffs) > 0 {
			c.violate("pair-tree:"+mc.failing, "a whole in-process transfer (real sendFiles against real recvFiles) did not reproduce the source trees",
				desc+" :: "+strings.Join(mc.pairDiffs, "; "))
		}
		flags, isDir, streamed, names := c15WireNames(mc.pair.S2R)
		for j := range flags {
			if isDir[j] && flags[j] != streamed[j] {
				wshape := shapes
				if j < len(mc.srcs) && !mc.overwrite && mc.proto >= 4 {
					wshape = mc.srcs[j].shape()
				}
				c.violate("mode-disagree-wire:"+wshape, "on the wire: the NAME record's archive flag and what the sender sends next (SIZE = a stream) disagree",
					fmt.Sprintf("%s :: NAME=%s flag=%v streamed=%v", desc, names[j], flags[j], streamed[j]))
			}
		}
		c.note(true, "mode-pair "+desc)
	}

	// the same shapes through the real binaries (trz / tsz children, real client filter)
	type e2eCase struct {
		key    string
		nodes  []c15Node
		upload bool
		res    e2eResult
		diffs  []string
	}
	var ecs []*e2eCase
	for _, k := range []string{"zero", "one-file", "one-empty-dir", "chain-file"} {
		for _, up := range []bool{true, false} {
			if c.thorough() || c.rng.Intn(2) == 0 || k == "one-file" {
				ecs = append(ecs, &e2eCase{key: k, nodes: fixed[k], upload: up})
			}
		}
	}
	ecs = append(ecs, &e2eCase{key: "many", nodes: many(), upload: c.rng.Intn(2) == 0})
	parallelDo(len(ecs), 12, func(i int) {
		ec := ecs[i]
		root := filepath.Join(tmp, fmt.Sprintf("e2e%d", i))
		top := filepath.Join(root, "s", "root-"+ec.key)
		c15Materialise(top, ec.nodes)
		dest := filepath.Join(root, "dest")
		os.MkdirAll(dest, 0755)
		cfg := e2eCfg{upload: ec.upload, directory: true, proto: 4, timeout: 5, deadline: 40 * time.Second}
		func() {
			defer func() {
				if r := recover(); r != nil {
					ec.diffs = append(ec.diffs, fmt.Sprintf("panic: %v", r))
				}
			}()
			ec.res = runTransfer(cfg, []string{top}, dest)
			r := ec.res
			shown := r.serverOut
			if !ec.upload {
				shown = r.termOut + r.serverOut
			}
			names, ok := parseSaved(shown)
			if !(ok && !r.hung && r.clientDone && r.serverExited && (!ec.upload || r.uploadErr == nil)) {
				ec.diffs = append(ec.diffs, fmt.Sprintf("no-success: hung=%v clientDone=%v serverExited=%v uploadErr=%v saved=%v tail=%q",
					r.hung, r.clientDone, r.serverExited, r.uploadErr, ok, tailStr(r.termOut+"|"+r.serverOut, 200)))
				return
			}
			if len(names) != 1 {
				ec.diffs = append(ec.diffs, fmt.Sprintf("names-count: %v", names))
				return
			}
			ec.diffs = append(ec.diffs, sameTree(top, filepath.Join(dest, names[0]))...)
		}()
		os.RemoveAll(root)
	})
	for _, ec := range ecs {
		d := "download"
		if ec.upload {
			d = "upload"
		}
		c.count("mode:e2e:" + c15Shape(ec.nodes))
		c.note(true, fmt.Sprintf("mode-e2e %s %s", d, ec.key))
		if len(ec.diffs) > 0 {
			c.violate("e2e-tree:"+c15Shape(ec.nodes)+":"+d, "a directory transfer in archive mode through the real binaries did not reproduce the source tree",
				fmt.Sprintf("%s root with entries %s (protocol 4, -d, no -y) :: %s", d, c15CanonNodes(ec.nodes), strings.Join(ec.diffs, "; ")))
		}
	}
}

// ---------------------------------------------------------------------------------------
// names over the whole of Unicode (Model/ArchiveNames.v)

func c15NameOfCps(cps []int) string {
	var sb strings.Builder
	for _, cp := range cps {
		sb.WriteString(string(rune(cp))) // surrogates and values above U+10FFFF become U+FFFD, as in the model
	}
	return sb.String()
}

func c15NamesTie(c *ctx) {
	reported := 0
	batch := func(kind string, names [][]int) {
		args := make([]string, len(names))
		res := make([]byte, len(names))
		for i, cps := range names {
			if len(cps) == 0 {
				args[i] = "e"
			} else {
				ds := make([]string, len(cps))
				for j, cp := range cps {
					ds[j] = strconv.Itoa(cp)
				}
				args[i] = strings.Join(ds, ".")
			}
			name := c15NameOfCps(cps)
			ok := trzsz.VerifArchiveCheckName(name)
			res[i] = '0'
			if ok {
				res[i] = '1'
			}
			// direct oracle: a name is refused iff it is empty, ".", ".." or contains the BYTE '/'
			want := name != "" && name != "." && name != ".." && !strings.Contains(name, "/")
			if ok != want && reported < 4 {
				reported++
				var us []string
				for _, cp := range cps {
					us = append(us, fmt.Sprintf("U+%04X", cp))
				}
				c.violate("checkFileName:"+strings.Join(us, "+"), "checkFileName decides on something other than the bytes of the name's UTF-8 encoding",
					fmt.Sprintf("name %q (code points %s, bytes %x): accepted=%v, but it %s a valid single path element", name, strings.Join(us, " "), name, ok,
						map[bool]string{true: "is", false: "is not"}[want]))
			}
		}
		c.count("names:" + kind)
		c.emit(true, "anm_valid", string(res), strings.Join(args, ","))
	}
	// every BMP code point: alone, inside a name, after a dot
	for base := 0; base < 0x10000; base += 256 {
		var alone, inside, dotted [][]int
		for cp := base; cp < base+256; cp++ {
			alone = append(alone, []int{cp})
			inside = append(inside, []int{'a', cp, 'b'})
			dotted = append(dotted, []int{'.', cp})
		}
		batch("bmp-alone", alone)
		batch("bmp-inside", inside)
		batch("bmp-dotted", dotted)
	}
	// above the BMP: a regular sample, every code point whose low byte looks like '/', '\\', '.', NUL
	// in planes 1, 2 and 16, and invalid values
	var sup [][]int
	for cp := 0x10000; cp <= 0x10FFFF; cp += 0x101 {
		sup = append(sup, []int{cp})
	}
	for _, plane := range []int{0x10000, 0x20000, 0x100000} {
		for hi := 0; hi < 256; hi += 17 {
			for _, lo := range []int{0x2F, 0x5C, 0x2E, 0x00} {
				sup = append(sup, []int{plane + hi<<8 + lo}, []int{'x', plane + hi<<8 + lo})
			}
		}
	}
	sup = append(sup, []int{0x110000}, []int{0x1FFFFF}, []int{0xD800}, []int{0xDFFF, 0x2F}, []int{}, []int{'.'}, []int{'.', '.'}, []int{'.', '.', '.'},
		[]int{'/'}, []int{'a', '/', 'b'}, []int{'\\'}, []int{0}, []int{'a', 0, 'b'}, []int{0x2F00, 0x2F}, []int{0x42F, 0x42F})
	for i := 0; i < len(sup); i += 256 {
		batch("supplementary-and-corner", sup[i:min(len(sup), i+256)])
	}
	// random names of 1-6 code points drawn from the interesting values
	pool := []int{'a', '.', '/', '\\', 0, 0x2F, 0x12F, 0x42F, 0x542F, 0x2F00, 0x5C00, 0x2E00, 0x15C, 0x12E, 0x100, 0x1F42F, 0x1002F, 0xD800, 0xFFFD, 0x7F, 0x80, 0x7FF, 0x800, 0xFFFF, 0x10000, 0x10FFFF}
	for b := 0; b < c.pick(4, 60); b++ {
		var names [][]int
		for i := 0; i < 256; i++ {
			n := 1 + c.rng.Intn(6)
			cps := make([]int, n)
			for j := range cps {
				cps[j] = pool[c.rng.Intn(len(pool))]
			}
			names = append(names, cps)
		}
		batch("random", names)
	}
}

// ---------------------------------------------------------------------------------------
// the archive stream as a source file (Model/ArchiveMode.v amo_archive_compress)

func c15CompRes(comp, sent bool, errText string) string {
	b := "0"
	if comp {
		b = "1"
	}
	switch {
	case errText != "":
		return "err"
	case sent:
		return "probed:" + b
	}
	return "fixed:" + b
}

// c15TreeOfStream builds a tree whose archive stream has exactly total bytes (headers included)
func c15TreeOfStream(_ *ctx, root string, total int, rng *rand.Rand) ([]c15Node, bool) {
	nodes := []c15Node{{rel: []string{"d"}, dir: true}, {rel: []string{"d", "empty"}}, {rel: []string{"中文"}, dir: true}}
	rest := total - 600
	for i := 0; rest > 2000 && i < 3; i++ {
		n := rest / (4 - i)
		nodes = append(nodes, c15Node{rel: []string{"d", fmt.Sprintf("f%d.bin", i)}, data: fillBytes(rng, n, i)})
		rest -= n
	}
	last := len(nodes)
	nodes = append(nodes, c15Node{rel: []string{"last.dat"}, data: fillBytes(rng, max(rest, 0), 2)})
	for try := 0; try < 8; try++ {
		os.RemoveAll(root)
		c15Materialise(root, nodes)
		a, err := trzsz.VerifArchiveScan(root)
		if err != nil {
			return nil, false
		}
		rd, err := a.NewReader()
		if err != nil {
			return nil, false
		}
		got := int(rd.VerifSize())
		rd.Close()
		if got == total {
			return nodes, true
		}
		n := len(nodes[last].data) + total - got
		if n < 0 {
			return nil, false
		}
		nodes[last].data = fillBytes(rng, n, 2)
	}
	return nil, false
}

func c15Stream(c *ctx, tmp string) {
	const kib = 1024
	ctNames := []string{"auto", "yes", "no"}
	// (a) the decision itself on explicit entries: the announced size is all it may depend on
	small := filepath.Join(tmp, "stream-small")
	os.WriteFile(small, []byte("x"), 0644)
	c15Case(c, "stream-compress", "explicit entries", func() {
		targets := []int64{0, 100, 511, 512, 513, 4096, 128*kib - 1, 128 * kib, 128*kib + 1, 200 * kib, 256 * kib, 384 * kib, 600 * kib, 3 << 20}
		for _, target := range targets {
			// one file entry whose announced size makes the whole stream `target` bytes long (as near as the header allows)
			x := target - 200
			if x < 0 {
				x = 0
			}
			var a *trzsz.VerifArchive
			for try := 0; try < 6; try++ {
				a = trzsz.VerifArchiveFromEntries("r", 0, []trzsz.VerifArchiveEntry{{RelPath: []string{"r", "f"}, AbsPath: small, Size: x}})
				rd, err := a.NewReader()
				if err != nil {
					panic(err)
				}
				got := rd.VerifSize()
				rd.Close()
				if got == target || x+target-got < 0 {
					break
				}
				x += target - got
			}
			for _, proto := range []int{2, 3, 4} {
				for ct := 0; ct < 3; ct++ {
					for _, binary := range []bool{false, true} {
						comp, sent, errText, size, rd := a.VerifArchiveCompress(proto, ct, binary)
						if rd != nil {
							rd.Close()
						}
						b := "0"
						if binary {
							b = "1"
						}
						c.count("stream:decision:" + strings.SplitN(c15CompRes(comp, sent, errText), ":", 2)[0])
						c.emit(true, "amo_compress", c15CompRes(comp, sent, errText), fmt.Sprint(proto), fmt.Sprint(ct), b, fmt.Sprint(size))
						if errText != "" {
							c.violate(fmt.Sprintf("stream-compress-failed:compress-%s", ctNames[ct]), "sendCompressFlag fails on an archive stream",
								fmt.Sprintf("archive reader of announced size %d, protocol %d, compress %s, binary %v: %s", size, proto, ctNames[ct], binary, errText))
						}
					}
				}
			}
		}
	})

	// (b) real trees whose stream is 127 / 128 / 129 / 200 / 600 KiB long: the decision leaves the stream
	// untouched; whole transfers (real sendFiles vs real recvFiles) with compress auto / yes / no
	type sc struct {
		kibs     int
		ct       int
		binary   bool
		seed     int64
		nodes    []c15Node
		built    bool
		dec      string
		touched  string
		pair     trzsz.VerifPairResult
		diffs    []string
		panicked string
	}
	var cases []*sc
	for _, k := range []int{127, 128, 129, 200, 600} {
		for ct := 0; ct < 3; ct++ {
			if k == 600 && ct != 0 && !c.thorough() {
				continue
			}
			cases = append(cases, &sc{kibs: k, ct: ct, binary: c.rng.Intn(2) == 0, seed: c.rng.Int63()})
		}
	}
	parallelDo(len(cases), 8, func(i int) {
		x := cases[i]
		defer func() {
			if r := recover(); r != nil {
				x.panicked = fmt.Sprint(r)
			}
		}()
		rng := rand.New(rand.NewSource(x.seed))
		dir := filepath.Join(tmp, fmt.Sprintf("stream%d", i))
		root := filepath.Join(dir, "src", fmt.Sprintf("stream-%dKiB", x.kibs))
		x.nodes, x.built = c15TreeOfStream(nil, root, x.kibs*kib, rng)
		if !x.built {
			return
		}
		a, err := trzsz.VerifArchiveScan(root)
		if err != nil {
			panic(err)
		}
		ref, err := a.NewReader()
		if err != nil {
			panic(err)
		}
		refOuts, refEnd := c15Read(ref, nil, 32768, nil)
		ref.Close()
		comp, sent, errText, size, rd := a.VerifArchiveCompress(4, x.ct, x.binary)
		x.dec = fmt.Sprintf("%s size=%d", c15CompRes(comp, sent, errText), size)
		if rd != nil {
			outs, end := c15Read(rd, nil, 32768, nil)
			rd.Close()
			if end != refEnd || !bytes.Equal(c15Concat(outs), c15Concat(refOuts)) || int64(len(c15Concat(outs))) != size {
				x.touched = fmt.Sprintf("after the decision the reader delivers %d bytes (%s), a fresh one %d (%s), announced %d", len(c15Concat(outs)), end, len(c15Concat(refOuts)), refEnd, size)
			}
		}
		dest := filepath.Join(dir, "dest")
		os.MkdirAll(dest, 0755)
		x.pair = trzsz.VerifModePairCfg([]string{root}, dest, trzsz.VerifPairCfg{Protocol: 4, Compress: x.ct, Binary: x.binary, TimeoutSec: 3}, 40*time.Second)
		r := x.pair
		if r.Hung || r.SendErr != "" || r.RecvErr != "" {
			x.diffs = append(x.diffs, fmt.Sprintf("no-success: hung=%v sender=%q receiver=%q", r.Hung, r.SendErr, r.RecvErr))
		}
		x.diffs = append(x.diffs, sameTree(root, filepath.Join(dest, filepath.Base(root)))...)
		os.RemoveAll(dir)
	})
	for _, x := range cases {
		desc := fmt.Sprintf("archive stream of %d KiB (protocol 4, compress %s, binary %v) decision=%s tree=%s", x.kibs, ctNames[x.ct], x.binary, x.dec, c15DescNodes(x.nodes))
		c.count(fmt.Sprintf("stream:pair:%dKiB", x.kibs))
		c.note(true, "stream-pair "+desc)
		switch {
		case x.panicked != "":
			c.violate(fmt.Sprintf("stream-panic:%dKiB:compress-%s", x.kibs, ctNames[x.ct]), "a real function panicked", desc+" :: "+x.panicked)
			continue
		case !x.built:
			c.violate(fmt.Sprintf("stream-tree-not-built:%dKiB", x.kibs), "scan / reader failed on a generated tree", desc)
			continue
		}
		if strings.HasPrefix(x.dec, "err") {
			c.violate(fmt.Sprintf("stream-compress-failed:compress-%s", ctNames[x.ct]), "sendCompressFlag fails on an archive stream", desc)
		}
		if x.touched != "" {
			c.violate(fmt.Sprintf("stream-touched:%dKiB", x.kibs), "the compression decision moved or consumed the archive stream", desc+" :: "+x.touched)
		}
		if len(x.diffs) > 0 {
			c.violate(fmt.Sprintf("pair-tree:stream-%dKiB:compress-%s", x.kibs, ctNames[x.ct]),
				"a whole in-process transfer (real sendFiles against real recvFiles) of a long archive stream did not reproduce the source tree", desc+" :: "+strings.Join(x.diffs, "; "))
		}
	}

	// (c) through the real binaries
	type ec struct {
		kibs   int
		ct     string
		upload bool
		diffs  []string
		desc   string
	}
	var ecs []*ec
	for _, k := range []int{129, 200} {
		ecs = append(ecs, &ec{kibs: k, ct: "auto", upload: true}, &ec{kibs: k, ct: "auto", upload: false})
	}
	ecs = append(ecs, &ec{kibs: 127, ct: "auto", upload: c.rng.Intn(2) == 0}, &ec{kibs: 200, ct: []string{"yes", "no"}[c.rng.Intn(2)], upload: c.rng.Intn(2) == 0})
	if c.thorough() {
		ecs = append(ecs, &ec{kibs: 600, ct: "auto", upload: true}, &ec{kibs: 600, ct: "auto", upload: false})
	}
	seeds := make([]int64, len(ecs))
	for i := range seeds {
		seeds[i] = c.rng.Int63()
	}
	parallelDo(len(ecs), 8, func(i int) {
		e := ecs[i]
		defer func() {
			if r := recover(); r != nil {
				e.diffs = append(e.diffs, fmt.Sprintf("panic: %v", r))
			}
		}()
		dir := filepath.Join(tmp, fmt.Sprintf("stream-e2e%d", i))
		top := filepath.Join(dir, "s", fmt.Sprintf("stream-%dKiB", e.kibs))
		nodes, ok := c15TreeOfStream(nil, top, e.kibs*kib, rand.New(rand.NewSource(seeds[i])))
		e.desc = c15DescNodes(nodes)
		if !ok {
			e.diffs = append(e.diffs, "tree-not-built")
			return
		}
		dest := filepath.Join(dir, "dest")
		os.MkdirAll(dest, 0755)
		r := runTransfer(e2eCfg{upload: e.upload, directory: true, proto: 4, compress: e.ct, timeout: 5, deadline: 60 * time.Second}, []string{top}, dest)
		shown := r.serverOut
		if !e.upload {
			shown = r.termOut + r.serverOut
		}
		names, saved := parseSaved(shown)
		if !(saved && !r.hung && r.clientDone && r.serverExited && (!e.upload || r.uploadErr == nil)) {
			e.diffs = append(e.diffs, fmt.Sprintf("no-success: hung=%v clientDone=%v serverExited=%v uploadErr=%.200v saved=%v tail=%q",
				r.hung, r.clientDone, r.serverExited, r.uploadErr, saved, tailStr(r.termOut+"|"+r.serverOut, 200)))
		} else if len(names) != 1 {
			e.diffs = append(e.diffs, fmt.Sprintf("names-count: %v", names))
		} else {
			e.diffs = append(e.diffs, sameTree(top, filepath.Join(dest, names[0]))...)
		}
		os.RemoveAll(dir)
	})
	for _, e := range ecs {
		d := "download"
		if e.upload {
			d = "upload"
		}
		c.count(fmt.Sprintf("stream:e2e:%dKiB", e.kibs))
		c.note(true, fmt.Sprintf("stream-e2e %s %d KiB compress %s", d, e.kibs, e.ct))
		if len(e.diffs) > 0 {
			c.violate(fmt.Sprintf("e2e-tree:stream-%dKiB:compress-%s:%s", e.kibs, e.ct, d), "a directory transfer in archive mode through the real binaries did not reproduce the source tree",
				fmt.Sprintf("%s of a tree whose archive stream is %d KiB (protocol 4, -d, -c %s, no -y), entries %s :: %s", d, e.kibs, e.ct, e.desc, strings.Join(e.diffs, "; ")))
		}
	}
}

// c15DescNodes: a short description of a tree (paths, kinds, lengths)
func c15DescNodes(nodes []c15Node) string {
	var parts []string
	for _, n := range nodes {
		if n.dir {
			parts = append(parts, strings.Join(n.rel, "/")+"/")
		} else {
			parts = append(parts, fmt.Sprintf("%s(%d bytes)", strings.Join(n.rel, "/"), len(n.data)))
		}
	}
	return "[" + strings.Join(parts, " ") + "]"
}

// c15RefusedNames: the code points of the first path element of the tree that the real checkFileName refuses ("" = none)
func c15RefusedNames(nodes []c15Node) string {
	for _, n := range nodes {
		for _, el := range n.rel {
			if !trzsz.VerifArchiveCheckName(el) {
				var us []string
				for _, r := range el {
					us = append(us, fmt.Sprintf("U+%04X", r))
				}
				return strings.Join(us, "+")
			}
		}
	}
	return ""
}

var c15FamilyCount = map[string]int{}

// c15ViolateCapped reports at most n violations per key family (the part of the key before the first ':')
func c15ViolateCapped(c *ctx, n int, key, what, detail string) {
	fam := strings.SplitN(key, ":", 2)[0]
	if c15FamilyCount[fam] >= n {
		return
	}
	c15FamilyCount[fam]++
	c.violate(key, what, detail)
}

// ---------------------------------------------------------------------------------------
// the header codec: marshalSourceFile + zlib + base64  against  base64 + zlib + unmarshalSourceFile

type c15HdrShape struct {
	name  string
	comps []string // the relative path of the deepest entry; every prefix is an entry (a directory), the last a file
	disk  bool     // also built on disk and sent as a whole archive (must stay below PATH_MAX)
}

func c15HeaderShapes(c *ctx) []c15HdrShape {
	rep := func(s string, n int) string { return strings.Repeat(s, n) }
	reps := func(cs []string, n int) []string {
		var out []string
		for i := 0; i < n; i++ {
			out = append(out, cs...)
		}
		return out
	}
	rnd := func(n int) string {
		b := make([]byte, n)
		for i := range b {
			b[i] = "ABCDEFGHIJKLMNOPQRSTUVWXYZabcdefghijklmnopqrstuvwxyz0123456789"[c.rng.Intn(62)]
		}
		return string(b)
	}
	var shapes []c15HdrShape
	for _, n := range []int{1, 4, 12, 16, 24, 40} {
		// on disk up to depth 24: the abstract tree of the model compares whole paths (quartic in the depth)
		shapes = append(shapes, c15HdrShape{fmt.Sprintf("node_modules-depth-%d", n), append(reps([]string{"node_modules", "pkg"}, n), "index.js"), n <= 24})
	}
	shapes = append(shapes, c15HdrShape{"node_modules-depth-64", append(reps([]string{"node_modules", "left-pad"}, 64), "index.js"), false})
	for _, n := range []int{50, 100, 200, 255} {
		shapes = append(shapes, c15HdrShape{fmt.Sprintf("run-of-%d-dashes", n), []string{rep("-", n), rep("-", n)}, true})
	}
	shapes = append(shapes,
		c15HdrShape{"run-of-254-bytes-of-e-acute", []string{rep("\u00e9", 127), rep("\u00e9", 127)}, true},
		c15HdrShape{"run-of-255-bytes-of-cjk", []string{rep("\u6587", 85), rep("\u6587", 85)}, true},
		c15HdrShape{"same-unicode-name-20-levels", reps([]string{"\u76ee\u5f55"}, 20), true},
		c15HdrShape{"same-unicode-name-60-levels", reps([]string{"\u76ee\u5f55"}, 60), true},
		c15HdrShape{"60-components-a", reps([]string{"a"}, 60), true},
		c15HdrShape{"200-components-a", reps([]string{"a"}, 200), false},
		c15HdrShape{"1000-components-a", reps([]string{"a"}, 1000), false},
		c15HdrShape{"14-names-of-255-a", reps([]string{rep("a", 255)}, 14), true},
		c15HdrShape{"64-names-of-255-a", reps([]string{rep("a", 255)}, 64), false},
		c15HdrShape{"14-names-of-255-quotes-and-backslashes", reps([]string{rep("\"\\", 127)}, 14), true},
		c15HdrShape{"control-incompressible-14x255", func() []string {
			var o []string
			for i := 0; i < 14; i++ {
				o = append(o, rnd(255))
			}
			return o
		}(), true},
		c15HdrShape{"control-ordinary", []string{"src", "main.go"}, true})
	return shapes
}

func c15PathSpec(rel []string) string {
	if len(rel) == 0 {
		return "-"
	}
	hs := make([]string, len(rel))
	for j, n := range rel {
		hs[j] = hex.EncodeToString([]byte(n))
	}
	return strings.Join(hs, "/")
}

func c15Headers(c *ctx, tmp string, roundTrip func(nodes []c15Node, kind string, dflts []int, nWrites int)) {
	for _, sh := range c15HeaderShapes(c) {
		sh := sh
		c15Case(c, "header-roundtrip", sh.name, func() {
			// (a) the codec alone, through the real newArchiveReader (marshal + encode) and the real decoder
			var es []trzsz.VerifArchiveEntry
			for k := 1; k <= len(sh.comps); k++ {
				e := trzsz.VerifArchiveEntry{RelPath: append([]string{"r"}, sh.comps[:k]...), IsDir: k < len(sh.comps)}
				if !e.IsDir {
					e.Size = []int64{0, 1, 4096, 1 << 40}[c.rng.Intn(4)]
				}
				es = append(es, e)
			}
			a := trzsz.VerifArchiveFromEntries("r", 0, es)
			rd, err := a.NewReader()
			if err != nil {
				panic(err)
			}
			rd.Close()
			got := a.Entries()
			worst := 0.0
			firstBad := -1
			var rows []c15Row
			var parsed []string
			var want []byte
			pick := map[int]bool{0: true, len(got) / 2: true, len(got) - 1: true, len(got) - 2: true}
			for i, e := range got {
				id, rel, isDir, size, ok := trzsz.VerifParseArchiveHeader(e.Header)
				good := ok && id == 0 && isDir == e.IsDir && size == e.Size && len(rel) == len(e.RelPath) && !strings.Contains(e.Header, "\n")
				if good {
					for j := range rel {
						good = good && rel[j] == e.RelPath[j]
					}
				}
				js, _ := json.Marshal(c15Hdr{RelPath: e.RelPath, IsDir: e.IsDir, Size: e.Size})
				if r := float64(len(js)) / float64(max(1, len(e.Header))); r > worst {
					worst = r
				}
				if !good && firstBad < 0 {
					firstBad = i
				}
				if pick[i] || (!good && len(rows) < 8) {
					rows = append(rows, c15Row{header: e.Header, rel: e.RelPath[1:], dir: e.IsDir, size: e.Size})
					if ok {
						d := "0"
						if isDir {
							d = "1"
						}
						parsed = append(parsed, fmt.Sprintf("%s:%s:%d", c15PathSpec(rel[1:]), d, size))
					} else {
						parsed = append(parsed, "none")
					}
					if good {
						want = append(want, '1')
					} else {
						want = append(want, '0')
					}
				}
			}
			c.count("headers:codec")
			if worst >= 4 {
				c.count("headers:json-over-header-ratio>=4")
			}
			if worst >= 16 {
				c.count("headers:json-over-header-ratio>=16")
			}
			c.emit(true, "ahdr_ok", string(want), c15Table(rows), strings.Join(parsed, ";"))
			if firstBad >= 0 {
				e := got[firstBad]
				c.violate("header-roundtrip:"+sh.name, "an entry header produced by the real encoder (marshalSourceFile + zlib + base64) does not decode to itself through the real decoder",
					fmt.Sprintf("shape %s: entry %d of %d, relative path of %d components / %d bytes (first component %.40q), is_dir=%v size=%d: header of %d bytes, JSON/header ratio up to %.1f; header=%s",
						sh.name, firstBad+1, len(got), len(e.RelPath)-1, len(strings.Join(e.RelPath[1:], "/")), e.RelPath[1], e.IsDir, e.Size, len(e.Header), worst, e.Header))
			}
		})
		if !sh.disk {
			continue
		}
		// (b) the same tree on disk through the whole archive round trip (scan, reader, writer, model)
		var nodes []c15Node
		for k := 1; k < len(sh.comps); k++ {
			nodes = append(nodes, c15Node{rel: sh.comps[:k], dir: true})
		}
		nodes = append(nodes, c15Node{rel: sh.comps, data: []byte("leaf of " + sh.name + "\n")})
		if len(sh.comps) > 1 {
			nodes = append(nodes, c15Node{rel: append(append([]string(nil), sh.comps[:len(sh.comps)-1]...), "empty-dir"), dir: true})
		}
		c.count("headers:disk-roundtrip")
		roundTrip(nodes, "compressible-headers:"+sh.name, []int{1, 100, 32768}, 2)
	}
	// (c) whole transfers (NAME record and entry headers): real sendFiles against real recvFiles
	type pc struct {
		name  string
		root  string
		nodes []c15Node
		diffs []string
	}
	deep := func(n int) []c15Node {
		var nodes []c15Node
		var rel []string
		for i := 0; i < n; i++ {
			rel = append(append([]string(nil), rel...), "node_modules")
			nodes = append(nodes, c15Node{rel: rel, dir: true})
			rel = append(append([]string(nil), rel...), "pkg")
			nodes = append(nodes, c15Node{rel: rel, dir: true})
		}
		return append(nodes, c15Node{rel: append(append([]string(nil), rel...), "index.js"), data: []byte("module.exports = 1\n")})
	}
	pcs := []*pc{{name: "node_modules-depth-20", root: "app", nodes: deep(20)},
		{name: "root-and-entries-runs-of-255", root: strings.Repeat("=", 255), nodes: []c15Node{{rel: []string{strings.Repeat("=", 255)}, dir: true}, {rel: []string{strings.Repeat("=", 255), strings.Repeat("=", 255)}, data: []byte("x")}}},
		{name: "control-ordinary", root: "app", nodes: []c15Node{{rel: []string{"src"}, dir: true}, {rel: []string{"src", "main.go"}, data: []byte("package main\n")}}}}
	parallelDo(len(pcs), 4, func(i int) {
		p := pcs[i]
		defer func() {
			if r := recover(); r != nil {
				p.diffs = append(p.diffs, fmt.Sprintf("panic: %v", r))
			}
		}()
		dir := filepath.Join(tmp, fmt.Sprintf("hdrpair%d", i))
		root := filepath.Join(dir, "s", p.root)
		c15Materialise(root, p.nodes)
		dest := filepath.Join(dir, "d")
		os.MkdirAll(dest, 0755)
		r := trzsz.VerifModePairCfg([]string{root}, dest, trzsz.VerifPairCfg{Protocol: 4, TimeoutSec: 3}, 30*time.Second)
		if r.Hung || r.SendErr != "" || r.RecvErr != "" {
			p.diffs = append(p.diffs, fmt.Sprintf("no-success: hung=%v sender=%q receiver=%q", r.Hung, r.SendErr, r.RecvErr))
		}
		p.diffs = append(p.diffs, sameTree(root, filepath.Join(dest, p.root))...)
		os.RemoveAll(dir)
	})
	for _, p := range pcs {
		c.count("headers:pair")
		c.note(true, "headers-pair "+p.name)
		if len(p.diffs) > 0 {
			d := strings.Join(p.diffs, "; ")
			if len(d) > 1500 {
				d = d[:1500] + "..."
			}
			c.violate("pair-tree:compressible-headers:"+p.name, "a whole in-process transfer of a tree with highly compressible NAME record / entry headers did not reproduce the source tree",
				fmt.Sprintf("root %.40q with %d entries (%s) :: %s", p.root, len(p.nodes), p.name, d))
		}
	}
}

// c15UndecodableHeader: index of the first row whose real header does not decode to the row's meta (-1 = none)
func c15UndecodableHeader(rows []c15Row) int {
	for i, r := range rows {
		_, rel, isDir, size, ok := trzsz.VerifParseArchiveHeader(r.header)
		good := ok && isDir == r.dir && size == r.size && len(rel) == len(r.rel)+1
		if good {
			for j := range r.rel {
				good = good && rel[j+1] == r.rel[j]
			}
		}
		if !good {
			return i
		}
	}
	return -1
}

// ---------------------------------------------------------------------------------------
// errors of the destination surface through the archive writer (Model/Archive.v aw_write_f)

type c15FaultEntry struct {
	rel   []string
	dir   bool
	data  []byte
	fault string // "" | "full" (a link to /dev/full where the file will be created) | "isdir" (an existing directory) | "parent-file" (a file where its directory should be)
}

func c15DestFaults(c *ctx, tmp string, seq *int) {
	if _, err := os.Stat("/dev/full"); err != nil {
		c.count("dest-faults:skipped-no-dev-full")
		return
	}
	blob := func(n int, b byte) []byte { return bytes.Repeat([]byte{b}, n) }
	kinds := []struct {
		name string
		es   []c15FaultEntry
	}{
		{"control-no-fault", []c15FaultEntry{{rel: []string{"good"}, data: blob(30, 'g')}, {rel: []string{"d"}, dir: true}, {rel: []string{"d", "sub.bin"}, data: blob(3000, 's')}}},
		{"dev-full-first-entry", []c15FaultEntry{{rel: []string{"sub.bin"}, data: blob(3000, 's'), fault: "full"}, {rel: []string{"good"}, data: blob(30, 'g')}}},
		{"dev-full-after-good-entries", []c15FaultEntry{{rel: []string{"good"}, data: blob(30, 'g')}, {rel: []string{"empty"}}, {rel: []string{"d"}, dir: true},
			{rel: []string{"d", "sub.bin"}, data: blob(3000, 's'), fault: "full"}, {rel: []string{"z"}, data: blob(10, 'z')}}},
		{"dev-full-one-byte-file", []c15FaultEntry{{rel: []string{"good"}, data: blob(30, 'g')}, {rel: []string{"one"}, data: []byte("1"), fault: "full"}, {rel: []string{"z"}, data: blob(10, 'z')}}},
		{"dev-full-200000-bytes", []c15FaultEntry{{rel: []string{"d"}, dir: true}, {rel: []string{"d", "sub.bin"}, data: blob(200000, 0), fault: "full"}}},
		{"create-on-existing-directory", []c15FaultEntry{{rel: []string{"good"}, data: blob(30, 'g')}, {rel: []string{"sub.bin"}, data: blob(300, 's'), fault: "isdir"}}},
		{"create-below-a-file", []c15FaultEntry{{rel: []string{"good"}, data: blob(30, 'g')}, {rel: []string{"d", "sub.bin"}, data: blob(300, 's'), fault: "parent-file"}}},
	}
	pipelineHung := false
	for ki, k := range kinds {
		ki, k := ki, k
		c15Case(c, "dest-fault", k.name, func() {
			dir := filepath.Join(tmp, fmt.Sprintf("fault%d", ki))
			defer os.RemoveAll(dir)
			srcDir := filepath.Join(dir, "src")
			os.MkdirAll(srcDir, 0755)
			var es []trzsz.VerifArchiveEntry
			var nodes []c15Node
			var fullSpecs, faultPaths []string
			for i, e := range k.es {
				ve := trzsz.VerifArchiveEntry{RelPath: append([]string{"r"}, e.rel...), IsDir: e.dir, Size: int64(len(e.data))}
				if !e.dir {
					ve.AbsPath = filepath.Join(srcDir, fmt.Sprintf("f%d", i))
					os.WriteFile(ve.AbsPath, e.data, 0644)
				}
				es = append(es, ve)
				nodes = append(nodes, c15Node{rel: e.rel, dir: e.dir, data: e.data})
				if e.fault == "full" {
					fullSpecs = append(fullSpecs, c15PathSpec(e.rel))
				}
			}
			a := trzsz.VerifArchiveFromEntries("r", 0, es)
			rd, err := a.NewReader()
			if err != nil {
				panic(err)
			}
			outs, end := c15Read(rd, nil, 32768, nil)
			rd.Close()
			if end != "eof" {
				panic("reader: " + end)
			}
			stream := c15Concat(outs)
			rootSrc, _ := a.RootSource()
			rows := c15Rows(a)
			prepare := func(rootDir string) {
				for _, e := range k.es {
					p := filepath.Join(append([]string{rootDir}, e.rel...)...)
					switch e.fault {
					case "full":
						os.MkdirAll(filepath.Dir(p), 0755)
						os.Symlink("/dev/full", p)
						faultPaths = append(faultPaths, p)
					case "isdir":
						os.MkdirAll(p, 0755)
					case "parent-file":
						os.WriteFile(filepath.Dir(p), []byte("in the way"), 0644)
					}
				}
			}
			faulty := len(fullSpecs) > 0 || strings.HasPrefix(k.name, "create-")
			c.count("dest-faults:" + k.name)

			// (a) the writer alone: Write by Write, as writeAll would call it - but a (0, nil) ends the loop
			dest := filepath.Join(dir, "dest-a")
			os.MkdirAll(dest, 0755)
			w, name, err := trzsz.VerifNewArchiveWriter(dest, rootSrc)
			if err != nil || w == nil {
				panic(fmt.Sprintf("no archive writer: %v", err))
			}
			faultPaths = nil
			prepare(filepath.Join(dest, name))
			segs := c.split(stream, []int{1, 7, 100, 1000, 40000}[c.rng.Intn(5)])
			class, swallowed := "ok", ""
		feed:
			for si, sgm := range segs {
				for off := 0; off < len(sgm); {
					n, werr := w.Write(sgm[off:])
					if werr != nil {
						class = c15ErrClass(werr)
						if strings.Contains(werr.Error(), "no space left") {
							class = "write"
						}
						break feed
					}
					if n <= 0 {
						swallowed = fmt.Sprintf("Write(%d bytes) of segment %d at offset %d returned (%d, nil)", len(sgm)-off, si, off, n)
						class = "zero-nil"
						break feed
					}
					off += n
				}
			}
			w.Close()
			for _, p := range faultPaths {
				os.Remove(p) // the links to /dev/full must not be read back
			}
			res := class + "|" + c15CanonDisk(filepath.Join(dest, name))
			desc := fmt.Sprintf("kind=%s entries=%s (the destination of every entry marked below fails) stream of %d bytes in %d segments", k.name, c15DescNodes(nodes), len(stream), len(segs))
			if !strings.HasPrefix(k.name, "create-") {
				fs := "-"
				if len(fullSpecs) > 0 {
					fs = strings.Join(fullSpecs, ";")
				}
				c.emit(true, "aw_fail", res, c15Table(rows), fs, hxs(segs))
			}
			if swallowed != "" {
				c.violate("writer-swallows-error:"+k.name, "the archive writer answers a failing write of an entry's file with (0, nil): writeAll would call it again with the same bytes for ever",
					desc+" :: "+swallowed)
			} else if faulty && class == "ok" {
				c.violate("writer-swallows-error:"+k.name, "the destination of an entry cannot be written, yet every Write of the archive writer succeeded", desc)
			} else if strings.HasPrefix(k.name, "create-") && class != "create" {
				c.violate("writer-wrong-error:"+k.name, "an entry that cannot be created must end the stream with the creation error", desc+" :: "+res)
			} else if len(fullSpecs) > 0 && class != "write" {
				c.violate("writer-wrong-error:"+k.name, "a failing write of an entry's file must end the stream with that write error", desc+" :: "+res)
			} else if !faulty && class != "ok" {
				c.violate("writer-error-without-fault:"+k.name, "the archive writer failed on a sound destination", desc+" :: "+res)
			}

			// (b) the real receiving pipeline (recvFileDataV2) with that writer, timeout 2 s
			if pipelineHung {
				c.count("dest-faults:pipeline-skipped-after-hang")
				return
			}
			before := len(goroutinesOf("trzszTransfer).pipeline"))
			destB := filepath.Join(dir, "dest-b")
			os.MkdirAll(destB, 0755)
			faultPaths = nil
			t0 := time.Now()
			errText, hung, _ := trzsz.VerifArchiveRecvV2(destB, rootSrc, prepare, stream, 2, 12*time.Second)
			dur := time.Since(t0)
			for _, p := range faultPaths {
				os.Remove(p)
			}
			time.Sleep(300 * time.Millisecond)
			left := len(goroutinesOf("trzszTransfer).pipeline")) - before
			pdesc := fmt.Sprintf("%s :: recvFileDataV2 (timeout 2 s): hung=%v error=%q after %.1f s, pipeline goroutines left: %d", desc, hung, errText, dur.Seconds(), left)
			switch {
			case hung:
				pipelineHung = true
				c.violate("archive-write-error-hang:"+k.name, "the receiving pipeline never returns after the destination of an archive entry failed (the save stage keeps calling Write)", pdesc)
			case faulty && errText == "":
				c.violate("archive-write-error-accepted:"+k.name, "the receiver reports the file as received although an entry could not be written", pdesc)
			case !faulty && errText != "":
				c.violate("archive-pipeline-error-without-fault:"+k.name, "the receiving pipeline failed on a sound destination", pdesc)
			}
			if !hung && left > 0 {
				c.violate("archive-write-error-leak:"+k.name, "goroutines of the receiving pipeline are left after it returned", pdesc)
			}
			c.note(true, "dest-fault pipeline "+k.name)
		})
	}
}
