package main

// C10 unit check: once the user has stopped a transfer (keep / delete), every reader and
// sender entry point reports exactly that - in Unix and in Windows framing alike - because
// both ends agree on the outcome through the error TEXT ("Stopped" / "Stopped and deleted").

import (
	"fmt"

	"github.com/trzsz/trzsz-go/trzsz"
)

func init() { groups["stopline"] = genStopLine }

func genStopLine(c *ctx) {
	type cse struct {
		reader  string
		windows bool
		del     bool
		proto   int
		got     string
	}
	var cases []*cse
	for _, r := range []string{"line", "linejunk", "v2", "senddata", "gate"} {
		for _, w := range []bool{false, true} {
			for _, d := range []bool{false, true} {
				for _, p := range []int{2, 3, 4} {
					cases = append(cases, &cse{reader: r, windows: w, del: d, proto: p})
				}
			}
		}
	}
	parallelDo(len(cases), 32, func(i int) {
		x := cases[i]
		x.got = trzsz.VerifRecvAfterStop(x.reader, x.windows, x.del, x.proto)
	})
	for _, x := range cases {
		want := "Stopped"
		if x.del {
			want = "Stopped and deleted"
		}
		desc := fmt.Sprintf("stop(delete=%v) then %s windows=%v protocol=%d => %q", x.del, x.reader, x.windows, x.proto, x.got)
		c.note(true, desc)
		c.count("reader:" + x.reader)
		if x.got != want {
			c.violate(fmt.Sprintf("stop-error:%s:windows=%v:delete=%v", x.reader, x.windows, x.del),
				"after a stop the reader/sender does not report the outcome the user chose", desc+", want "+want)
		}
	}
}
