package main

import (
	"bytes"
	"crypto/sha1"
	"fmt"
	"runtime"
	"strconv"
	"strings"
	"sync"
	"sync/atomic"
	"time"

	"github.com/trzsz/trzsz-go/trzsz"
)

func init() { groups["buffer"] = c03GenBuffer }

// ---- ops ----

type c03Op struct {
	kind byte // 'L' strict line, 'J' junk-tolerant line, 'B' binary
	size int
}

func (o c03Op) String() string {
	if o.kind == 'B' {
		return "B" + strconv.Itoa(o.size)
	}
	return string(o.kind)
}

func c03OpsStr(ops []c03Op) string {
	if len(ops) == 0 {
		return "."
	}
	parts := make([]string, len(ops))
	for i, o := range ops {
		parts[i] = o.String()
	}
	return strings.Join(parts, ",")
}

func c03ChunksStr(cs [][]byte) string {
	if len(cs) == 0 {
		return "."
	}
	parts := make([]string, len(cs))
	for i, b := range cs {
		parts[i] = hx(b)
	}
	return strings.Join(parts, ",")
}

// ---- model-free reference on the flat stream (decides which timeout to use and
// serves as a second direct oracle) ----

// returns 'd' (done, data, rest), 'B' (would block), 'I' (interrupted)
func c03RefStep(o c03Op, s []byte) (byte, []byte, []byte) {
	switch o.kind {
	case 'B':
		if o.size <= 0 {
			return 'd', nil, s
		}
		if len(s) >= o.size {
			return 'd', s[:o.size], s[o.size:]
		}
		return 'B', nil, nil
	case 'L':
		i := bytes.IndexByte(s, '\n')
		if i < 0 {
			if bytes.IndexByte(s, 3) >= 0 {
				return 'I', nil, nil
			}
			return 'B', nil, nil
		}
		if bytes.IndexByte(s[:i], 3) >= 0 {
			return 'I', nil, nil
		}
		return 'd', s[:i], s[i+1:]
	default:
		var line []byte
		for {
			i := bytes.IndexByte(s, '\n')
			if i < 0 {
				if bytes.IndexByte(s, 3) >= 0 {
					return 'I', nil, nil
				}
				return 'B', nil, nil
			}
			if bytes.IndexByte(s[:i], 3) >= 0 {
				return 'I', nil, nil
			}
			line = append(line, s[:i]...)
			s = s[i+1:]
			if len(line) > 0 && line[len(line)-1] == '\r' {
				line = line[:len(line)-1]
				continue
			}
			return 'd', line, s
		}
	}
}

// ---- the real buffer ----

var c03Watchdog atomic.Int64

func init() { c03Watchdog.Store(int64(2 * time.Second)) }

type c03Real struct {
	b *trzsz.VerifBuffer
}

// read issues one read.  All chunks are queued already.  With sure = true the caller
// knows (from the flat reference) that the read completes: a watchdog timer (2 s, halved after every firing) is used
// and its firing is reported as "T".  Otherwise the timeout channel is fired by a helper
// exactly when the queue has been emptied: the reader consults the timeout only inside
// nextBuffer, i.e. when it needs a chunk that is not there, so the outcome is
// deterministic: "B" iff the read would wait for more input.
func (r *c03Real) read(o c03Op, sure bool) (string, []byte) {
	var to <-chan time.Time
	var done atomic.Bool
	var tm *time.Timer
	if sure {
		tm = time.NewTimer(time.Duration(c03Watchdog.Load()))
		to = tm.C
	} else if r.b.QueueLen() == 0 {
		ch := make(chan time.Time, 1)
		ch <- time.Time{}
		to = ch
	} else {
		ch := make(chan time.Time, 1)
		to = ch
		go func() {
			for r.b.QueueLen() > 0 && !done.Load() {
				runtime.Gosched()
			}
			ch <- time.Time{}
		}()
	}
	var data []byte
	var err error
	switch o.kind {
	case 'L':
		data, err = r.b.ReadLine(false, to)
	case 'J':
		data, err = r.b.ReadLine(true, to)
	case 'W':
		data, err = r.b.ReadLineOnWindows(to)
	default:
		data, err = r.b.ReadBinary(o.size, to)
	}
	done.Store(true)
	if tm != nil {
		tm.Stop()
	}
	switch trzsz.VerifReadErrClass(err) {
	case "ok":
		return "d", append([]byte(nil), data...)
	case "timeout":
		if sure {
			// a read that should have completed waited: shorten the watchdog so that a
			// systematically broken build is reported quickly (floor 2 ms)
			if w := c03Watchdog.Load(); w > int64(2*time.Millisecond) {
				c03Watchdog.Store(w / 2)
			}
			return "T", nil
		}
		return "B", nil
	case "interrupted":
		return "I", nil
	default:
		return "E", nil
	}
}

// drain pops until nil; afterwards the buffer is in the state of a new one
func (r *c03Real) drain() [][]byte {
	var out [][]byte
	for {
		p := r.b.PopBuffer()
		if p == nil {
			return out
		}
		out = append(out, append([]byte(nil), p...))
	}
}

// run queues all chunks, issues the ops, and returns the results up to and including the
// first Blocked (cont) or the first Blocked/Interrupted (!cont), plus what popBuffer
// hands back afterwards.  flat is the concatenation of the chunks (for the prediction).
func (r *c03Real) run(chunks [][]byte, flat []byte, ops []c03Op, cont bool) ([]string, [][]byte) {
	for _, c := range chunks {
		r.b.AddBuffer(c)
	}
	var res []string
	known := true // flat still describes the unread stream
	for _, o := range ops {
		sure := false
		if known {
			k, _, rest := c03RefStep(o, flat)
			sure = k == 'd'
			flat = rest
			if k != 'd' {
				known = false
			}
		}
		k, d := r.read(o, sure)
		if k == "d" {
			res = append(res, "d"+hx(d))
			continue
		}
		res = append(res, k)
		if k == "I" && cont {
			continue
		}
		break
	}
	return res, r.drain()
}

// c03Key keeps violation keys short for long streams
func c03Key(kind string, flat []byte, rest string) string {
	h := hx(flat)
	if len(h) > 64 {
		h = fmt.Sprintf("%s..len%d.%x", h[:32], len(flat), sha1.Sum(flat))[:80]
	}
	k := kind + ":" + h + ":" + rest
	if len(k) > 200 {
		k = k[:200]
	}
	return k
}

func c03ResStr(res []string) string {
	if len(res) == 0 {
		return "."
	}
	return strings.Join(res, ",")
}

// truncate a run_cont result list to what `run` reports
func c03Truncate(res []string) []string {
	for i, r := range res {
		if r == "I" || r == "B" {
			return res[:i+1]
		}
	}
	return res
}

// all segmentations of b into chunks, empty chunks allowed in up to `empties` places
func c03WithEmpties(cs [][]byte, mask int) [][]byte {
	var out [][]byte
	for i := 0; i <= len(cs); i++ {
		if mask&(1<<i) != 0 {
			out = append(out, []byte{})
		}
		if i < len(cs) {
			out = append(out, cs[i])
		}
	}
	return out
}

func c03CheckRef(violate func(key, what, detail string), chunks [][]byte, flat []byte, ops []c03Op, res []string) {
	// direct oracle 2: the real buffer against the model-free flat reference
	s := flat
	for i, o := range ops {
		if i >= len(res) {
			break
		}
		k, d, rest := c03RefStep(o, s)
		want := string(k)
		if k == 'd' {
			want = "d" + hx(d)
		}
		if res[i] != want {
			what := "a read on the real buffer differs from the reference parse of the flat stream"
			if k == 'd' && (res[i] == "T" || res[i] == "B") {
				what = "a complete line/block that has already arrived is not delivered (read waits)"
			}
			violate(c03Key("ref", flat, c03OpsStr(ops)+":"+c03ChunksStr(chunks)), what,
				fmt.Sprintf("stream=%s chunks=%s ops=%s op#%d real=%s reference=%s", hx(flat), c03ChunksStr(chunks), c03OpsStr(ops), i, res[i], want))
			return
		}
		if k != 'd' {
			break
		}
		s = rest
	}
}

func c03GenBuffer(c *ctx) {
	real := &c03Real{trzsz.VerifNewBuffer()}
	alphabet := []byte{'a', '\n', '\r', '#', ':', 3}
	opSet := []c03Op{{'L', 0}, {'J', 0}, {'B', 0}, {'B', 1}, {'B', 2}, {'B', 3}}

	// one case: real run (reading on after an interrupt), emitted for the model as
	// run_cont (all results + popped chunks) and as run (truncated at the first failure)
	emitCase := func(chunks [][]byte, flat []byte, ops []c03Op, res []string, pops [][]byte) {
		nontrivial := len(chunks) > 1
		cs, os := c03ChunksStr(chunks), c03OpsStr(ops)
		c.emit(nontrivial, "run_cont", c03ResStr(res)+"|"+c03ChunksStr(pops), os, cs)
		c.emit(nontrivial, "buf_run", c03ResStr(c03Truncate(res)), os, cs)
	}
	checkRef := func(chunks [][]byte, flat []byte, ops []c03Op, res []string) {
		c03CheckRef(func(k, w, d string) { c.violate(k, w, d) }, chunks, flat, ops, res)
	}
	checkSame := func(flat []byte, ops []c03Op, csA [][]byte, resA []string, csB [][]byte, resB []string) {
		// direct oracle 1: two chunkings of one stream give the same result list
		a, b := c03ResStr(c03Truncate(resA)), c03ResStr(c03Truncate(resB))
		if a != b {
			c.violate(c03Key("chunking", flat, c03OpsStr(ops)), "two chunkings of the same stream give different lines/blocks on the real buffer",
				fmt.Sprintf("stream=%s ops=%s chunksA=%s resultA=%s chunksB=%s resultB=%s", hx(flat), c03OpsStr(ops), c03ChunksStr(csA), a, c03ChunksStr(csB), b))
		}
	}

	// ---- 0. corpus: the strings of buffer_test.go ----
	corpus := []struct {
		chunks []string
		ops    []c03Op
	}{
		{[]string{"test message\n"}, []c03Op{{'L', 0}, {'L', 0}}},
		{[]string{"test ", "message\n"}, []c03Op{{'L', 0}}},
		{[]string{"test\nmessage\n"}, []c03Op{{'L', 0}, {'L', 0}}},
		{[]string{"1test message1\n", "2test message2\n"}, []c03Op{{'L', 0}, {'L', 0}}},
		{[]string{strings.Repeat("A", 100), strings.Repeat("B", 100), strings.Repeat("C", 100), "D\n"}, []c03Op{{'L', 0}}},
		{[]string{"test\nmessage\n"}, []c03Op{{'J', 0}, {'J', 0}}},
		{[]string{"test\r\n message\n"}, []c03Op{{'J', 0}}},
		{[]string{"test\r\n", " test\r\n", " test\r\n", " message\n"}, []c03Op{{'J', 0}, {'J', 0}}},
		{[]string{"test\x03message\n"}, []c03Op{{'L', 0}, {'L', 0}}},
		{[]string{"test\nmessage\x03\n"}, []c03Op{{'L', 0}, {'L', 0}}},
		{[]string{"test\nmessage\n", "message without newline", "message with newline\n"}, []c03Op{{'L', 0}}},
		{[]string{"a\x03", "b\n", "c\n"}, []c03Op{{'L', 0}, {'L', 0}}},
		{[]string{"a\x03b\n", "c\n"}, []c03Op{{'L', 0}, {'L', 0}}},
		{[]string{"ab\r\r\n\nc\n"}, []c03Op{{'J', 0}, {'J', 0}}},
		{[]string{"ab\r", "\r\n", "\n", "c\n"}, []c03Op{{'J', 0}, {'J', 0}}},
	}
	for _, e := range corpus {
		var cs [][]byte
		var flat []byte
		for _, s := range e.chunks {
			cs = append(cs, []byte(s))
			flat = append(flat, s...)
		}
		res, pops := real.run(cs, flat, e.ops, true)
		emitCase(cs, flat, e.ops, res, pops)
		checkRef(cs, flat, e.ops, res)
		c.count("kind:corpus")
	}
	{
		data := make([]byte, 300)
		for i := range data {
			data[i] = byte(i)
		}
		for _, cs := range [][][]byte{{data}, {data[:100], data[100:200]}, {data[:200]}} {
			flat := bytes.Join(cs, nil)
			ops := []c03Op{{'B', 100}, {'B', 200}, {'B', 1}}
			res, pops := real.run(cs, flat, ops, true)
			emitCase(cs, flat, ops, res, pops)
			checkRef(cs, flat, ops, res)
			c.count("kind:corpus")
		}
	}

	// ---- 1. exhaustive: every stream over the alphabet up to maxLen x every segmentation
	// x every op sequence up to depth 3 (a sequence is cut where it fails: longer
	// sequences add nothing).  EVERY (stream, segmentation, op path) is run on the real
	// buffer and compared with the single-chunk run (direct oracle 1) and with the flat
	// reference (direct oracle 2); the extracted model evaluates a deterministic sample:
	// every single-chunk case of the shorter streams, and a fraction of the rest that is
	// higher for cases with an interrupt or a delimiter at a chunk boundary.  Streams are
	// processed by parallel workers (one real buffer each) and merged in order. ----
	maxLen := c.pick(5, 7)
	fullLen := c.pick(5, 6) // up to this length: all op paths to depth 3; beyond: depth 1 or 2
	var streams [][]byte
	var enum func(stream []byte)
	enum = func(stream []byte) {
		streams = append(streams, stream)
		if len(stream) == maxLen {
			return
		}
		for _, a := range alphabet {
			enum(append(append([]byte(nil), stream...), a))
		}
	}
	enum(nil)
	type c03Line struct {
		nontrivial bool
		fn, res    string
		args       [2]string
	}
	type c03Out struct {
		lines  []c03Line
		counts map[string]int
		viol   [][3]string
	}
	thorough := c.thorough()
	doStream := func(real *c03Real, si int, stream []byte) *c03Out {
		out := &c03Out{counts: map[string]int{}}
		emitL := func(chunks [][]byte, ops []c03Op, res []string, pops [][]byte, interrupted bool) {
			nontrivial := len(chunks) > 1
			cs, os := c03ChunksStr(chunks), c03OpsStr(ops)
			out.lines = append(out.lines, c03Line{nontrivial, "run_cont", c03ResStr(res) + "|" + c03ChunksStr(pops), [2]string{os, cs}})
			if interrupted {
				out.lines = append(out.lines, c03Line{nontrivial, "buf_run", c03ResStr(c03Truncate(res)), [2]string{os, cs}})
			}
		}
		depth := 3
		if len(stream) > fullLen {
			depth = 2 - si%2 // the longest streams: depth 2 for every other stream, else 1
		}
		// op paths: DFS on the flat reference; a path is extended only after Done
		var paths [][]c03Op
		var dfs func(prefix []c03Op, s []byte)
		dfs = func(prefix []c03Op, s []byte) {
			for _, o := range opSet {
				p := append(append([]c03Op(nil), prefix...), o)
				k, _, rest := c03RefStep(o, s)
				if k == 'd' && len(p) < depth {
					dfs(p, rest)
				} else {
					paths = append(paths, p)
				}
			}
		}
		dfs(nil, stream)
		flatRes := make([]string, len(paths))
		one := [][]byte{stream}
		if len(stream) == 0 {
			one = nil
		}
		vio := func(key, what, detail string) { out.viol = append(out.viol, [3]string{key, what, detail}) }
		hasI := func(res []string) bool {
			for _, r := range res {
				if r == "I" {
					return true
				}
			}
			return false
		}
		for pi, p := range paths {
			res, pops := real.run(one, stream, p, true)
			flatRes[pi] = c03ResStr(c03Truncate(res))
			if len(stream) <= 4 || (len(stream) == 5 && ((si+pi)%4 == 0 || thorough)) || (len(stream) >= 6 && (si+pi)%16 == 0) {
				emitL(one, p, res, pops, hasI(res))
			}
			c03CheckRef(vio, one, stream, p, res)
		}
		out.counts[fmt.Sprintf("exhaustive:len=%d", len(stream))]++
		if len(stream) == 0 {
			return out
		}
		nseg := 0
		allSplits(stream, func(cs [][]byte) {
			if len(cs) == 1 {
				return
			}
			nseg++
			// does a chunk boundary separate CR from LF, or follow a Ctrl-C?
			splitsDelim := false
			off := 0
			for _, ch := range cs[:len(cs)-1] {
				off += len(ch)
				if stream[off-1] == '\r' || stream[off-1] == 3 || stream[off] == '\n' {
					splitsDelim = true
				}
			}
			for pi, p := range paths {
				if len(out.viol) > 20 {
					return
				}
				res, pops := real.run(cs, stream, p, true)
				if got := c03ResStr(c03Truncate(res)); got != flatRes[pi] {
					vio(c03Key("chunking", stream, c03OpsStr(p)), "two chunkings of the same stream give different lines/blocks on the real buffer",
						fmt.Sprintf("stream=%s ops=%s chunksA=%s resultA=%s chunksB=%s resultB=%s", hx(stream), c03OpsStr(p), c03ChunksStr(one), flatRes[pi], c03ChunksStr(cs), got))
				}
				c03CheckRef(vio, cs, stream, p, res)
				interrupted := hasI(res)
				h := si*131 + nseg*31 + pi
				mod := 16
				if interrupted || splitsDelim {
					mod = 6
				}
				if len(stream) <= 3 {
					mod = 1
				}
				if len(stream) == 6 {
					mod *= 10
				} else if len(stream) >= 7 {
					mod *= 40
				}
				if h%mod == 0 {
					emitL(cs, p, res, pops, interrupted)
					if splitsDelim {
						out.counts["exhaustive:model:delimiter-at-chunk-boundary"]++
					}
					if interrupted {
						out.counts["exhaustive:model:interrupted"]++
					}
				}
				out.counts["exhaustive:real-runs-multi-chunk"]++
			}
		})
		return out
	}
	{
		const batch = 256
		nw := runtime.NumCPU()
		if nw > 16 {
			nw = 16
		}
		reals := make([]*c03Real, nw)
		for i := range reals {
			reals[i] = &c03Real{trzsz.VerifNewBuffer()}
		}
		for start := 0; start < len(streams) && len(c.violations) < 40; start += batch {
			end := min(start+batch, len(streams))
			outs := make([]*c03Out, end-start)
			var next atomic.Int64
			var wg sync.WaitGroup
			for w := 0; w < nw; w++ {
				wg.Add(1)
				go func(r *c03Real) {
					defer wg.Done()
					for {
						i := int(next.Add(1)) - 1
						if i >= end-start {
							return
						}
						outs[i] = doStream(r, start+i, streams[start+i])
					}
				}(reals[w])
			}
			wg.Wait()
			for _, o := range outs {
				for _, l := range o.lines {
					c.emit(l.nontrivial, l.fn, l.res, l.args[0], l.args[1])
				}
				for k, v := range o.counts {
					c.stats[k] += v
				}
				for _, v := range o.viol {
					c.violate(v[0], v[1], v[2])
				}
			}
		}
	}

	// ---- 2. empty chunks anywhere (the theorem covers them; the pump never queues one) ----
	for i := 0; i < c.pick(3000, 60000); i++ {
		n := 1 + c.rng.Intn(6)
		stream := make([]byte, n)
		for j := range stream {
			stream[j] = alphabet[c.rng.Intn(len(alphabet))]
		}
		cs := c03WithEmpties(c.split(stream, 1+c.rng.Intn(3)), c.rng.Intn(1<<7))
		ops := make([]c03Op, 1+c.rng.Intn(3))
		for j := range ops {
			ops[j] = opSet[c.rng.Intn(len(opSet))]
		}
		res, pops := real.run(cs, stream, ops, true)
		emitCase(cs, stream, ops, res, pops)
		checkRef(cs, stream, ops, res)
		c.count("kind:empty-chunks")
	}

	// ---- 3. random long streams, geometric chunk sizes, two independent chunkings ----
	for i := 0; i < c.pick(60, 1500); i++ {
		total := 1 << uint(4+c.rng.Intn(13)) // 16 B .. 64 KiB
		total += c.rng.Intn(total)
		if total > 65536 {
			total = 65536
		}
		var stream []byte
		var ops []c03Op
		for len(stream) < total {
			switch c.rng.Intn(10) {
			case 0, 1, 2: // a strict line
				n := c.rng.Intn(200)
				for j := 0; j < n; j++ {
					stream = append(stream, "ab#:\r"[c.rng.Intn(5)])
				}
				stream = append(stream, '\n')
				ops = append(ops, c03Op{'L', 0})
			case 3, 4, 5: // a wrapped line read in junk mode
				for w := c.rng.Intn(5); w >= 0; w-- {
					n := c.rng.Intn(120)
					for j := 0; j < n; j++ {
						stream = append(stream, "ab#:\r"[c.rng.Intn(5)])
					}
					if w > 0 {
						stream = append(stream, '\r', '\n')
					}
				}
				stream = append(stream, 'x', '\n')
				ops = append(ops, c03Op{'J', 0})
			case 6: // anything
				n := c.rng.Intn(50)
				for j := 0; j < n; j++ {
					stream = append(stream, alphabet[c.rng.Intn(len(alphabet))])
				}
				ops = append(ops, opSet[c.rng.Intn(len(opSet))])
			default: // a binary block of arbitrary bytes (Ctrl-C and LF included)
				n := c.rng.Intn(3000)
				if c.rng.Intn(4) == 0 {
					n = c.rng.Intn(20)
				}
				for j := 0; j < n; j++ {
					stream = append(stream, byte(c.rng.Intn(256)))
				}
				ops = append(ops, c03Op{'B', n})
			}
		}
		if c.rng.Intn(3) == 0 { // ops that do not follow the layout
			for j := range ops {
				if c.rng.Intn(6) == 0 {
					ops[j] = c03Op{"LJB"[c.rng.Intn(3)], c.rng.Intn(400) - 2}
				}
			}
		}
		ops = append(ops, c03Op{'L', 0})
		mean := []int{1, 2, 5, 17, 100, 1000, 8000}[c.rng.Intn(7)]
		if len(stream)/mean > 9000 {
			mean = len(stream)/9000 + 1 // bufCh holds 10000 chunks
		}
		csA := c.split(stream, mean)
		csB := c.split(stream, 1+c.rng.Intn(3000))
		if len(csB) > 9000 {
			csB = [][]byte{stream}
		}
		resA, popsA := real.run(csA, stream, ops, true)
		resB, popsB := real.run(csB, stream, ops, true)
		emitCase(csA, stream, ops, resA, popsA)
		emitCase(csB, stream, ops, resB, popsB)
		checkSame(stream, ops, csA, resA, csB, resB)
		checkRef(csA, stream, ops, resA)
		c.count("kind:random-long")
		c.count(fmt.Sprintf("random:ops=%d0s", len(ops)/10))
	}
}
