package main

// C12, search engine "handshake": values ANNOUNCED by the peer in the handshake (CFG bufsize,
// timeout, protocol, tmux_pane_width, compress; ACT protocol, newline, ...) flow into
// allocations, loops and sleeps far from where they are parsed - the buffer growth of the
// sender only runs after a full chunk has been acknowledged, i.e. with a few hundred KB of
// uncompressed data.  A replayed transcript never gets there (the recorded peer does not
// react), so here the REAL client and the REAL server run a complete transfer of 400 KB of
// incompressible data, and one member of the CFG (server -> client) or ACT (client ->
// server) line is replaced on the wire by a hostile value.  The client runs in a child of
// the harness (`corr c12-child`, RLIMIT_AS), the server is the child's child.
//
// Oracle: no panic / fatal error text from either side, no recovered panic reported in a FAIL
// line, both sides end within the deadline, the client child stays below the RSS bound.
// (Whether the transfer succeeds is not judged: the two sides may now disagree.)

import (
	"bytes"
	"encoding/json"
	"fmt"
	"io"
	"os"
	"os/exec"
	"path/filepath"
	"sort"
	"strings"
	"sync"
	"syscall"
	"time"

	"github.com/trzsz/trzsz-go/trzsz"
)

func init() { groups["handshake"] = genHandshake }

type c12HsCase struct {
	scn         string
	upload, bin bool
	proto       int
	compress    string
	typ, key    string
	class, raw  string
	result      c12Result
}

func (h *c12HsCase) key4() string {
	role := "client"
	if h.typ == "ACT" {
		role = "server"
	}
	return fmt.Sprintf("%s-%s:%s:%s", h.typ, h.key, h.class, role)
}

// c12RewriteMember replaces / adds one member of the JSON object carried by a "#TYP:<b64z>\n" line inside b
func c12RewriteMember(b []byte, typ, key, raw string) ([]byte, bool) {
	i := bytes.Index(b, []byte("#"+typ+":"))
	if i < 0 {
		return b, false
	}
	nl := bytes.IndexByte(b[i:], '\n')
	if nl < 0 {
		return b, false
	}
	payload := strings.TrimSuffix(string(b[i+len(typ)+2:i+nl]), "!") // windows newline marker, if any
	js, err := decodeLinePayload(payload)
	if err != nil {
		return b, false
	}
	var m map[string]json.RawMessage
	if json.Unmarshal(js, &m) != nil {
		return b, false
	}
	keys := make([]string, 0, len(m)+1)
	for k := range m {
		if k != key {
			keys = append(keys, k)
		}
	}
	parts := []string{fmt.Sprintf("%q:%s", key, raw)}
	for _, k := range keys {
		parts = append(parts, fmt.Sprintf("%q:%s", k, m[k]))
	}
	doc := "{" + strings.Join(parts, ",") + "}"
	out := append([]byte(nil), b[:i]...)
	out = append(out, encodeLine(typ, []byte(doc))...)
	out = append(out, b[i+nl:]...)
	return out, true
}

func c12ChildHandshake(job *c12Job) c12Result {
	var res c12Result
	if job.ASLimit > 0 {
		lim := syscall.Rlimit{Cur: job.ASLimit, Max: job.ASLimit}
		_ = syscall.Setrlimit(syscall.RLIMIT_AS, &lim) // inherited by the server started below
	}
	var mu sync.Mutex
	applied := false
	want := dirS2C
	if job.RewriteTyp == "ACT" {
		want = dirC2S
	}
	cfg := e2eCfg{upload: job.Upload, binary: job.Binary, proto: job.Proto, compress: job.Compress, quiet: job.Quiet,
		timeout: job.TimeoutS, deadline: 25 * time.Second}
	cfg.hook = func(dir, idx int, b []byte) e2eAction {
		mu.Lock()
		defer mu.Unlock()
		if dir != want || applied {
			return e2eAction{}
		}
		nb, ok := c12RewriteMember(b, job.RewriteTyp, job.RewriteKey, job.RewriteRaw)
		if !ok {
			return e2eAction{}
		}
		applied = true
		return e2eAction{data: [][]byte{nb}}
	}
	r := runTransfer(cfg, job.Src, job.Dest)
	res.ActSeen = applied
	res.Exited = r.clientDone && r.serverExited
	res.Hung = r.hung || !res.Exited
	res.ExitCode = r.serverCode
	if m := c12CrashRe.Find([]byte(r.serverOut)); m != nil {
		res.Crashed = "server: " + string(m)
		res.StderrHead = tailStr(r.serverOut, 600)
	}
	for d := 0; d < 2; d++ {
		for _, l := range bytes.Split(r.wire[d], []byte("\n")) {
			if bytes.HasPrefix(l, []byte("#FAIL:")) || bytes.HasPrefix(l, []byte("#fail:")) {
				if msg, err := decodeLinePayload(string(l[6:])); err == nil && c12RecoveredRe.Match(msg) {
					res.Recovered = c12Tail(msg, 300)
				}
			}
		}
	}
	if !applied {
		res.Note = "the line to rewrite never crossed the wire"
	}
	res.Note += fmt.Sprintf(" uploadErr=%v tail=%q", r.uploadErr, tailStr(r.termOut+"|"+r.serverOut, 160))
	res.MaxRSSKB = c12SelfHWM()
	return res
}

func (h *c12HsCase) run(work string, id int, src []string) {
	dir := filepath.Join(work, fmt.Sprintf("h%d", id))
	dest := filepath.Join(dir, "1", "2", "3", "4", "5", "6", "7", "8", "dest")
	os.MkdirAll(dest, 0755)
	defer os.RemoveAll(dir)
	job := c12Job{Role: "handshake", Upload: h.upload, Src: src, Dest: dest, TimeoutS: 3, ASLimit: c12ASLimitBytes,
		Binary: h.bin, Proto: h.proto, Compress: h.compress, Quiet: false, RewriteTyp: h.typ, RewriteKey: h.key, RewriteRaw: h.raw}
	js, _ := json.Marshal(job)
	jobPath := filepath.Join(dir, "job.json")
	os.WriteFile(jobPath, js, 0644)
	exe, _ := os.Executable()
	cmd := exec.Command(exe, "c12-child", jobPath)
	var stdout bytes.Buffer
	stderr := &c12CapBuf{cap: 1 << 20}
	cmd.Stdout = &stdout
	cmd.Stderr = stderr
	var res c12Result
	if err := cmd.Start(); err != nil {
		res.Note = "start: " + err.Error()
		h.result = res
		return
	}
	done := make(chan struct{})
	go func() { cmd.Wait(); close(done) }()
	killed := false
	select {
	case <-done:
	case <-time.After(60 * time.Second):
		killed = true
		cmd.Process.Kill()
		<-done
	}
	if i := strings.LastIndex(stdout.String(), "C12RESULT "); i >= 0 {
		line := stdout.String()[i+10:]
		if nl := strings.IndexByte(line, '\n'); nl >= 0 {
			line = line[:nl]
		}
		_ = json.Unmarshal([]byte(line), &res)
	} else {
		// the child is the client: it is gone
		eb := stderr.Bytes()
		res.StderrHead = c12Tail(eb, 700)
		res.ExitCode = cmd.ProcessState.ExitCode()
		if m := c12CrashRe.Find(eb); m != nil {
			res.Crashed = "client: " + string(m)
		} else if killed {
			res.Hung = true
			res.Note = "client child did not finish"
		} else {
			res.Crashed = fmt.Sprintf("client child ended without a result (exit code %d)", res.ExitCode)
		}
	}
	h.result = res
}

func genHandshake(c *ctx) {
	work, _ := os.MkdirTemp("", "c12_handshake_")
	defer os.RemoveAll(work)
	sdir := filepath.Join(work, "s")
	os.MkdirAll(sdir, 0755)
	srcPath := filepath.Join(sdir, "blob.bin")
	os.WriteFile(srcPath, c12Content(400*1024, 11, false), 0644)
	src := []string{srcPath}

	ints := []c12Val{{"-1", "-1"}, {"0", "0"}, {"1", "1"}, {"-2^31", "-2147483648"}, {"-2^62", "-4611686018427387904"}, {"-2^63", "-9223372036854775808"},
		{"2^31", "2147483648"}, {"2^62", "4611686018427387904"}, {"2^63", "9223372036854775808"}, {"float", "1.5"}, {"type:str", `"7"`}, {"type:null", "null"}}
	quickInts := map[string]bool{"-1": true, "0": true, "-2^62": true, "1": true}
	type scn struct {
		name        string
		upload, bin bool
		proto       int
		compress    string
		quick       bool
	}
	var scns []scn
	for _, up := range []bool{true, false} {
		for _, proto := range []int{0, 2, 3, 4} {
			for _, bin := range []bool{false, true} {
				d := map[bool]string{true: "up", false: "dn"}[up]
				compress := ""
				if proto >= 3 {
					compress = "no" // the chunk writer directly under the file data: no zstd encoder that recovers for it
				}
				quick := up && ((proto == 2) || (proto == 4 && !bin) || (proto == 3 && bin))
				scns = append(scns, scn{fmt.Sprintf("%s-p%d-%s", d, proto, map[bool]string{false: "b64", true: "bin"}[bin]), up, bin, proto, compress, quick})
			}
		}
	}
	var cases []*c12HsCase
	add := func(s scn, typ, key string, v c12Val) {
		cases = append(cases, &c12HsCase{scn: s.name, upload: s.upload, bin: s.bin, proto: s.proto, compress: s.compress, typ: typ, key: key, class: v.class, raw: v.text})
	}
	for _, s := range scns {
		for _, v := range ints {
			if c.thorough() || (s.quick && quickInts[v.class]) || (s.upload && s.proto == 0 && (v.class == "-1" || v.class == "0")) {
				add(s, "CFG", "bufsize", v) // protocol 1 has its own growth loop (sendFileData)
			}
			if c.thorough() || (s.name == "up-p4-b64" || s.name == "dn-p4-b64") && (v.class == "0" || v.class == "-1" || v.class == "2^62") {
				add(s, "CFG", "timeout", v)
			}
			if c.thorough() || (s.name == "up-p2-b64" || s.name == "dn-p4-b64") && (v.class == "-1" || v.class == "2^31") {
				add(s, "CFG", "protocol", v)
				add(s, "ACT", "protocol", v)
			}
			if c.thorough() {
				add(s, "CFG", "compress", v)
				add(s, "CFG", "tmux_pane_width", v)
			}
		}
		if c.thorough() || s.name == "up-p4-b64" || s.name == "dn-p2-bin" {
			add(s, "CFG", "protocol", c12Val{"99", "99"})
			add(s, "ACT", "protocol", c12Val{"99", "99"})
			add(s, "CFG", "tmux_pane_width", c12Val{"5e7", "50000000"})
			add(s, "CFG", "tmux_pane_width", c12Val{"2^31-1", "2147483647"})
		}
		if c.thorough() {
			add(s, "ACT", "newline", c12Val{"empty", `""`})
			add(s, "ACT", "newline", c12Val{"X", `"X"`})
			add(s, "CFG", "newline", c12Val{"empty", `""`})
			add(s, "ACT", "binary", c12Val{"type:num", "7"})
			add(s, "CFG", "escape_chars", c12Val{"elem:str", `["a"]`})
			add(s, "CFG", "escape_chars", c12Val{"elem:wide", `[["中","î1"]]`})
		}
	}
	relayCases := c12RelayCases(c.thorough())
	parallelDo(len(relayCases), 16, func(i int) { relayCases[i].run(work, i) })
	for _, rc := range relayCases {
		r := rc.result
		c.note(true, fmt.Sprintf("relay handshake %s => crashed=%q trigger=%v passes-bytes-again=%v %s", rc.name, r.Crashed, r.ActSeen, r.ProbeOK, r.Note))
		c.count("relay-handshake")
		detail := fmt.Sprintf("relay between a scripted client and server; trigger sent, then client lines %q, server lines %q :: crashed=%q forwards-again=%v note=%s stderr=%q",
			rc.client, rc.server, r.Crashed, r.ProbeOK, r.Note, r.StderrHead)
		if len(detail) > 3000 {
			detail = detail[:3000]
		}
		switch {
		case r.Crashed != "":
			c.violate("relay-handshake-crash:"+rc.name, "a line received during the relay's handshake crashed the relay: "+r.Crashed, detail)
		case !r.ActSeen:
			c.violate("relay-handshake-setup:"+rc.name, "the relay did not forward the trigger (harness)", detail)
		case !r.ProbeOK:
			c.violate("relay-handshake-stuck:"+rc.name, "after a hostile handshake line the relay no longer passes bytes in both directions", detail)
		}
	}
	parallelDo(len(cases), 16, func(i int) { cases[i].run(work, i, src) })
	for _, h := range cases {
		r := h.result
		c.note(true, fmt.Sprintf("handshake %s %s.%s=%s => crashed=%q recovered=%v ended=%v rss=%dKB %dms", h.scn, h.typ, h.key, h.class, r.Crashed, r.Recovered != "", r.Exited, r.MaxRSSKB, r.DurMs))
		c.count("handshake:" + h.typ + "-" + h.key)
		if !r.ActSeen && r.Crashed == "" && !r.Hung {
			c.count("handshake:rewrite-not-applied")
		}
		if r.Hung {
			c.count("handshake:not-ended-by-itself")
		}
		detail := fmt.Sprintf("scenario=%s (400 KB incompressible, compress=%q) %s member %q replaced by %s :: crashed=%q recovered=%q ended=%v hung=%v peakRSS=%dKB dur=%dms note=%s stderr=%q",
			h.scn, h.compress, h.typ, h.key, h.raw, r.Crashed, r.Recovered, r.Exited, r.Hung, r.MaxRSSKB, r.DurMs, r.Note, r.StderrHead)
		switch {
		case r.Crashed != "":
			c.violate("handshake:"+h.key4(), "a value announced in the handshake crashed a process during the transfer: "+r.Crashed, detail)
		case r.MaxRSSKB > c12RSSLimitKB:
			c.violate("handshake:"+h.key4(), fmt.Sprintf("a value announced in the handshake made the client use %d MB", r.MaxRSSKB/1024), detail)
		case r.Recovered != "":
			c.violate("handshake-recovered:"+h.key4(), "a value announced in the handshake caused a panic that was recovered and reported: "+r.Recovered, detail)
		case r.Hung:
			c.violate("handshake-hang:"+h.key4(), "with a hostile value in the handshake the two sides did not end within the deadline", detail)
		}
	}
}

// ---- the acknowledgement goroutine in a child (group guards) ----

type c12EvoJob struct {
	MaxBuf int64   `json:"maxbuf"`
	Lens   []int64 `json:"lens"`
	Ms     []int64 `json:"ms"`
}

type c12EvoResult struct {
	Used      []int64 `json:"used"`
	Sizes     []int64 `json:"sizes"`
	MakePanic string  `json:"make_panic"`
	Err       string  `json:"err"`
}

// c12ChildEvo prints "C12EVO <index> <json>" per case, in order; if the process dies the parent
// knows from the last line which case was running.
func c12ChildEvo(job *c12Job) {
	lim := syscall.Rlimit{Cur: 12 << 30, Max: 12 << 30}
	_ = syscall.Setrlimit(syscall.RLIMIT_AS, &lim)
	for i, e := range job.Evo {
		var r c12EvoResult
		r.Used, r.Sizes, r.MakePanic, r.Err = trzsz.VerifBufsizeEvolution(e.MaxBuf, e.Lens, e.Ms)
		js, _ := json.Marshal(r)
		fmt.Printf("C12EVO %d %s\n", i, js)
	}
	fmt.Println("C12EVO done")
}

// c12RunEvoChild runs the cases in one child. It returns the results of the cases that completed, the
// index of the case during which the child died (-1: none) and the crash text.
func c12RunEvoChild(work string, cases []c12EvoJob) (results []c12EvoResult, crashedAt int, crashText string) {
	dir, _ := os.MkdirTemp(work, "evo")
	defer os.RemoveAll(dir)
	js, _ := json.Marshal(c12Job{Role: "bufevo", Evo: cases})
	jobPath := filepath.Join(dir, "job.json")
	os.WriteFile(jobPath, js, 0644)
	exe, _ := os.Executable()
	cmd := exec.Command(exe, "c12-child", jobPath)
	var stdout bytes.Buffer
	stderr := &c12CapBuf{cap: 1 << 20}
	cmd.Stdout = &stdout
	cmd.Stderr = stderr
	done := make(chan struct{})
	if err := cmd.Start(); err != nil {
		return nil, 0, "start: " + err.Error()
	}
	go func() { cmd.Wait(); close(done) }()
	select {
	case <-done:
	case <-time.After(10 * time.Minute):
		cmd.Process.Kill()
		<-done
	}
	finished := false
	for _, l := range strings.Split(stdout.String(), "\n") {
		if l == "C12EVO done" {
			finished = true
		}
		if !strings.HasPrefix(l, "C12EVO ") {
			continue
		}
		f := strings.SplitN(l, " ", 3)
		if len(f) == 3 {
			var r c12EvoResult
			if json.Unmarshal([]byte(f[2]), &r) == nil {
				results = append(results, r)
			}
		}
	}
	if finished {
		return results, -1, ""
	}
	eb := stderr.Bytes()
	crashText = "child ended without finishing"
	if m := c12CrashRe.Find(eb); m != nil {
		crashText = string(m)
	}
	return results, len(results), crashText + " :: " + c12Tail(eb, 500)
}

// ---- a real relay during its handshake, hostile lines from either side (group handshake) ----

type c12PipeEnd struct {
	mu sync.Mutex
	b  bytes.Buffer
}

func (p *c12PipeEnd) Write(b []byte) (int, error) {
	p.mu.Lock()
	defer p.mu.Unlock()
	if p.b.Len() < 8<<20 {
		p.b.Write(b)
	}
	return len(b), nil
}
func (p *c12PipeEnd) Close() error { return nil }
func (p *c12PipeEnd) Contains(x []byte) bool {
	p.mu.Lock()
	defer p.mu.Unlock()
	return bytes.Contains(p.b.Bytes(), x)
}

func c12ChildRelay(job *c12Job) c12Result {
	var res c12Result
	os.Unsetenv("TMUX")
	os.Unsetenv("TMUX_PANE")
	lim := syscall.Rlimit{Cur: c12ASLimitBytes, Max: c12ASLimitBytes}
	_ = syscall.Setrlimit(syscall.RLIMIT_AS, &lim)
	cliR, cliW := io.Pipe() // client -> relay
	svrR, svrW := io.Pipe() // server -> relay
	toClient, toServer := &c12PipeEnd{}, &c12PipeEnd{}
	_ = trzsz.NewTrzszRelay(cliR, toClient, toServer, svrR, trzsz.TrzszOptions{})
	id := "1727712345600"
	if job.WinServer {
		id = "1727712345610"
	}
	go svrW.Write([]byte("\x1b7\x07::TRZSZ:TRANSFER:R:1.1.8:" + id + ":0\r\n"))
	res.ActSeen = c12WaitFor(3*time.Second, func() bool { return toClient.Contains([]byte("::TRZSZ:TRANSFER:")) })
	time.Sleep(20 * time.Millisecond)
	for _, l := range job.RelayClient {
		go cliW.Write(l)
		time.Sleep(5 * time.Millisecond)
	}
	if len(job.RelayServer) > 0 {
		c12WaitFor(2*time.Second, func() bool { return toServer.Contains([]byte("#ACT:")) })
		for _, l := range job.RelayServer {
			go svrW.Write(l)
			time.Sleep(5 * time.Millisecond)
		}
	}
	// the handshake ends (confirmed or failed) and the relay passes bytes again, in both directions
	okBoth := func() bool {
		return toClient.Contains([]byte("c12-relay-probe-s2c")) && toServer.Contains([]byte("c12-relay-probe-c2s"))
	}
	deadline := time.Now().Add(4 * time.Second)
	for time.Now().Before(deadline) && !okBoth() {
		// "!\n" ends a line for the plain, the junk-tolerant and the Windows-console reader alike, so a read
		// that is still waiting for the rest of a line completes (and fails) with the first probe
		go svrW.Write([]byte("c12-relay-probe-s2c!\n"))
		go cliW.Write([]byte("c12-relay-probe-c2s!\n"))
		time.Sleep(200 * time.Millisecond)
	}
	res.ProbeOK = okBoth()
	res.Exited = res.ProbeOK
	res.Hung = !res.ProbeOK
	if toClient.Contains([]byte("#FAIL:")) {
		res.Note = "FAIL sent to the client"
	}
	res.MaxRSSKB = c12SelfHWM()
	return res
}

type c12RelayCase struct {
	name           string
	client, server [][]byte
	win            bool
	result         c12Result
}

func c12RelayCases(thorough bool) []*c12RelayCase {
	goodACT := []byte("#ACT:" + c12B64z([]byte(`{"lang":"go","version":"1.1.8","confirm":true,"newline":"\n","protocol":4,"binary":true,"support_dir":true}`)) + "\n")
	goodCFG := []byte("#CFG:" + c12B64z([]byte(`{"lang":"go","bufsize":10485760,"timeout":20,"protocol":4}`)) + "\n")
	var out []*c12RelayCase
	lines := map[string]string{
		"colon-first": ":wq\n", "colon-only": ":\n", "empty": "\n", "no-colon": "ls -l\n", "hash-only": "#\n", "type-only": "#ACT\n", "empty-payload": "#ACT:\n",
		"bad-b64": "#ACT:!!!\n", "not-zlib": "#ACT:QUJD\n", "json-array": "#ACT:" + c12B64z([]byte("[]")) + "\n", "json-types": "#ACT:" + c12B64z([]byte(`{"protocol":"x","newline":7}`)) + "\n",
		"json-deep": "#ACT:" + c12B64z([]byte(strings.Repeat("[", 20000))) + "\n", "other-type": "#CFG:" + c12B64z([]byte("{}")) + "\n", "long-1MB": strings.Repeat("A", 1<<20) + "\n",
		"colons-1000": strings.Repeat(":", 1000) + "\n", "crlf": ":wq\r\n", "bang": ":wq!\n", "ctrl-c": "\x03", "nul": "\x00:\x00\n", "fail-line": "#FAIL:" + c12B64z([]byte("boom")) + "\n",
	}
	names := make([]string, 0, len(lines))
	for k := range lines {
		names = append(names, k)
	}
	sort.Strings(names)
	for _, k := range names {
		for _, win := range []bool{false, true} {
			if !thorough && win && k != "colon-first" && k != "bang" && k != "empty" {
				continue
			}
			out = append(out, &c12RelayCase{name: fmt.Sprintf("act:%s:win=%v", k, win), client: [][]byte{[]byte(lines[k])}, win: win})
			srv := strings.Replace(lines[k], "#ACT", "#CFG", 1)
			out = append(out, &c12RelayCase{name: fmt.Sprintf("cfg:%s:win=%v", k, win), client: [][]byte{goodACT}, server: [][]byte{[]byte(srv)}, win: win})
		}
	}
	out = append(out, &c12RelayCase{name: "good", client: [][]byte{goodACT}, server: [][]byte{goodCFG}})
	out = append(out, &c12RelayCase{name: "act:colon-first-split", client: [][]byte{[]byte(":"), []byte("wq"), []byte("\n")}})
	return out
}

func (rc *c12RelayCase) run(work string, id int) {
	dir := filepath.Join(work, fmt.Sprintf("r%d", id))
	os.MkdirAll(dir, 0755)
	defer os.RemoveAll(dir)
	js, _ := json.Marshal(c12Job{Role: "relay", RelayClient: rc.client, RelayServer: rc.server, WinServer: rc.win})
	jobPath := filepath.Join(dir, "job.json")
	os.WriteFile(jobPath, js, 0644)
	exe, _ := os.Executable()
	cmd := exec.Command(exe, "c12-child", jobPath)
	var stdout bytes.Buffer
	stderr := &c12CapBuf{cap: 1 << 20}
	cmd.Stdout = &stdout
	cmd.Stderr = stderr
	var res c12Result
	if err := cmd.Start(); err != nil {
		res.Note = "start: " + err.Error()
		rc.result = res
		return
	}
	done := make(chan struct{})
	go func() { cmd.Wait(); close(done) }()
	select {
	case <-done:
	case <-time.After(30 * time.Second):
		cmd.Process.Kill()
		<-done
		res.Hung = true
	}
	if i := strings.LastIndex(stdout.String(), "C12RESULT "); i >= 0 {
		line := stdout.String()[i+10:]
		if nl := strings.IndexByte(line, '\n'); nl >= 0 {
			line = line[:nl]
		}
		_ = json.Unmarshal([]byte(line), &res)
	} else {
		eb := stderr.Bytes()
		res.StderrHead = c12Tail(eb, 700)
		if m := c12CrashRe.Find(eb); m != nil {
			res.Crashed = "relay: " + string(m)
		} else if !res.Hung {
			res.Crashed = "relay child ended without a result"
		}
	}
	rc.result = res
}
