package main

// C05 - the wrapper is transparent whenever no transfer is in progress.
//
// group "filter": the REAL trzsz.NewTrzszFilter over io.Pipes, all 16 option sets, fed
// chunk by chunk in both directions; after every chunk a zero-length write is used as a
// barrier (io.Pipe hands it to the pump's next Read, so the previous chunk has been
// processed completely).  Observables: every Write at clientOut / serverIn and every
// call of the clipboard writer (stubbed), in order.  The same event list goes to the
// extracted model (c05_run).  Direct oracle: in the idle case the writes are exactly
// the chunks.
//
// group "filter-history": probe, a real session ending in one of the ways a session can
// end, probe again (direct oracles only).
//
// group "filter-exit": the real trzsz binary around `sh -c 'exit N'`.

import (
	"bytes"
	"encoding/hex"
	"encoding/json"
	"fmt"
	"io"
	"math/rand"
	"os"
	"os/exec"
	"path/filepath"
	"regexp"
	"strings"
	"sync"
	"time"

	"github.com/trzsz/trzsz-go/trzsz"
)

func init() {
	groups["filter"] = genC05Filter
	groups["filter-history"] = genC05History
	groups["filter-exit"] = genC05Exit
}

// ---------------------------------------------------------------------------------------
// a real filter over pipes with recording writers

type c05Rec struct {
	mu    sync.Mutex
	items []string // "t<hex>" clientOut write, "s<hex>" serverIn write, "c<hex>" clipboard
	fwd   func(tag byte, b []byte)
}

func (r *c05Rec) add(tag byte, b []byte) {
	r.mu.Lock()
	r.items = append(r.items, string(tag)+hx(b))
	f := r.fwd
	r.mu.Unlock()
	if f != nil {
		f(tag, b)
	}
}

func (r *c05Rec) snapshot() []string {
	r.mu.Lock()
	defer r.mu.Unlock()
	return append([]string(nil), r.items...)
}

func (r *c05Rec) length() int {
	r.mu.Lock()
	defer r.mu.Unlock()
	return len(r.items)
}

// all bytes written with the given tag since item index from
func (r *c05Rec) bytesSince(from int, tag byte) []byte {
	r.mu.Lock()
	defer r.mu.Unlock()
	var out []byte
	for _, it := range r.items[from:] {
		if it[0] == tag && it[1:] != "-" {
			b, _ := hex.DecodeString(it[1:])
			out = append(out, b...)
		}
	}
	return out
}

type c05W struct {
	r   *c05Rec
	tag byte
}

func (w c05W) Write(p []byte) (int, error) { w.r.add(w.tag, append([]byte(nil), p...)); return len(p), nil }
func (w c05W) Close() error                { return nil }

type c05F struct {
	f      *trzsz.TrzszFilter
	cliIn  *io.PipeWriter
	svrOut *io.PipeWriter
	rec    *c05Rec
	// filled in by the history strata of c05d.go
	paths *c05Paths // what exists on disk (for drag histories)
	toks  []string  // the event list for the model, when the history is model-comparable
	trig  []byte    // the last raw chunk with a trigger that a real trz/tsz child printed
	// the chunks fed around the client's own ctrl-C, what the terminal showed of them, transfers started (c05e.go)
	winChunks, winShown [][]byte
	winActs             int
	winOK               bool
}

func c05New(o trzsz.TrzszOptions) *c05F {
	cliR, cliW := io.Pipe()
	svrR, svrW := io.Pipe()
	x := &c05F{cliIn: cliW, svrOut: svrW, rec: &c05Rec{}}
	o.TerminalColumns = 100
	x.f = trzsz.NewTrzszFilter(cliR, c05W{x.rec, 't'}, c05W{x.rec, 's'}, svrR, o)
	return x
}

// out feeds one chunk of server output and waits until the output pump is back in Read
func (x *c05F) out(b []byte) { x.svrOut.Write(b); x.svrOut.Write(nil) }

// in feeds one chunk of typed input and waits until the input pump is back in Read
func (x *c05F) in(b []byte) { x.cliIn.Write(b); x.cliIn.Write(nil) }

// close ends the input pump; the output pump of the real filter never ends (it ignores
// EOF), it stays parked in Read
func (x *c05F) close() { x.cliIn.Close() }

func (x *c05F) waitFor(tag byte, want []byte, from int, d time.Duration) bool {
	end := time.Now().Add(d)
	for time.Now().Before(end) {
		if bytes.Contains(x.rec.bytesSince(from, tag), want) {
			return true
		}
		time.Sleep(2 * time.Millisecond)
	}
	return false
}

var c05ClipMu sync.Mutex
var c05ClipRec *c05Rec

func c05InstallClipboard() {
	trzsz.VerifSetClipboardWriter(func(b []byte) {
		c05ClipMu.Lock()
		r := c05ClipRec
		c05ClipMu.Unlock()
		if r != nil {
			r.add('c', append([]byte(nil), b...))
		}
	})
}

func c05SetClip(r *c05Rec) {
	c05ClipMu.Lock()
	c05ClipRec = r
	c05ClipMu.Unlock()
}

// set when a scanner was seen to panic (see genC05Filter): live filters then run without it
var c05NoOSC52, c05NoDrag bool

func c05Mask(o trzsz.TrzszOptions) trzsz.TrzszOptions {
	if c05NoOSC52 {
		o.EnableOSC52 = false
	}
	if c05NoDrag {
		o.DetectDragFile = false
	}
	return o
}

func c05Opts(i int) trzsz.TrzszOptions {
	return trzsz.TrzszOptions{DetectDragFile: i&1 != 0, DetectTraceLog: i&2 != 0, EnableZmodem: i&4 != 0, EnableOSC52: i&8 != 0}
}

func c05Flags(o trzsz.TrzszOptions, notTrz, detectOn0 bool) string {
	b := func(v bool) string {
		if v {
			return "1"
		}
		return "0"
	}
	return b(o.DetectDragFile) + b(o.DetectTraceLog) + b(o.EnableZmodem) + b(o.EnableOSC52) + b(notTrz) + b(detectOn0)
}

// ---------------------------------------------------------------------------------------
// chunk vocabulary

func c05Trigger(rng *rand.Rand) []byte {
	mode := "SRD"[rng.Intn(3)]
	ver := []string{"1.1.6", "1.0.0", "1.1.3", "0.9.12", "10.20.30"}[rng.Intn(5)]
	id := fmt.Sprintf("%011d%s", rng.Int63n(1e11), []string{"00", "10", "20", "37"}[rng.Intn(4)])
	s := fmt.Sprintf("::TRZSZ:TRANSFER:%c:%s:%s", mode, ver, id)
	if rng.Intn(3) == 0 {
		s += fmt.Sprintf(":%d", 1024+rng.Intn(60000))
	}
	pre := []string{"", "\x1b7\x07", "$ trz\r\n\x1b7\x07", "prompt> "}[rng.Intn(4)]
	post := []string{"\r\n", "", "\r\n\x1b8", "\n"}[rng.Intn(4)]
	return []byte(pre + s + post)
}

// every single-byte truncation / deletion / corruption of a trigger line
func c05NearMisses(rng *rand.Rand, t []byte, n int) [][]byte {
	var out [][]byte
	for k := 0; k < n; k++ {
		p := rng.Intn(len(t))
		b := append([]byte(nil), t...)
		switch rng.Intn(4) {
		case 0:
			b = b[:p] // truncated
		case 1:
			b = append(b[:p:p], t[p+1:]...) // one byte deleted
		case 2:
			b[p] = byte(rng.Intn(256)) // one byte replaced
		case 3:
			b[p] ^= 1 << uint(rng.Intn(8)) // one bit flipped
		}
		if len(b) > 0 {
			out = append(out, b)
		}
	}
	return out
}

func c05AllNearMisses(t []byte) [][]byte {
	var out [][]byte
	for p := 1; p < len(t); p++ {
		out = append(out, append([]byte(nil), t[:p]...))                     // truncation
		out = append(out, append(append([]byte(nil), t[:p]...), t[p+1:]...)) // deletion
	}
	for p := 0; p < len(t); p++ {
		for _, r := range []byte{'x', '0', ':', ' ', 0} {
			if t[p] != r {
				b := append([]byte(nil), t...)
				b[p] = r
				out = append(out, b)
			}
		}
	}
	return out
}

var c05Escapes = []string{
	"\x1b[0m", "\x1b[1;32muser@host\x1b[0m:\x1b[1;34m~\x1b[0m$ ", "\x1b[2J\x1b[H", "\x1b]0;title\a", "\x1b[?2004h", "\x1b[?2004l",
	"\x1b[?25l", "\x1b[?25h", "\x1b7", "\x1b8", "\r\n", "\x1b[K", "\x1b[10;20H", "\x1bP=1s\x1b\\", "\x1b[?1049h", "\x07", "\x08 \x08",
	"ls -la\r\n", "trz\r\n", "trz -d\r\n", "^C\r\n", "\x18\x18\x18\x18", "OO\x08\x08", "cannot open ", "Saved 1 file\r\n", "#CFG:", "#fail:abc\n",
}

func c05Zmodemish(rng *rand.Rand) []byte {
	hexd := "0123456789abcdef"
	n := rng.Intn(16)
	s := []string{"**\x18B0", "**\x18B00", "**\x18B01", "*\x18B00", "**\x18B08", "**\x18A00", "rz\r**\x18B0"}[rng.Intn(7)]
	for i := 0; i < n; i++ {
		if rng.Intn(12) == 0 {
			s += string("ghXYZ \r"[rng.Intn(7)])
		} else {
			s += string(hexd[rng.Intn(16)])
		}
	}
	if rng.Intn(3) == 0 {
		s += "\r\x8a\x11"
	}
	return []byte(s)
}

func c05Osc52ish(rng *rand.Rand) []byte {
	b64 := "QUJDRA==+/abcXYZ019"
	var s string
	switch rng.Intn(8) {
	case 0:
		s = "\x1b]52;c;"
	case 1:
		s = "\x1b]52;p;"
	case 2:
		s = "\x1b]52;x;"
	case 3:
		s = "\x1b]52;"
	case 4:
		s = "\x1b]52;c"
	case 5:
		s = "\x1b]5"
	case 6:
		s = ""
	case 7:
		s = "junk\x1b]52;q;\x1b]52;c;"
	}
	n := rng.Intn(12)
	for i := 0; i < n; i++ {
		s += string(b64[rng.Intn(len(b64))])
	}
	switch rng.Intn(5) {
	case 0:
		s += "\a"
	case 1:
		s += "\x1b\\"
	case 2:
		s += "\a\x1b]52;c;QQ==\a"
	case 3:
		s += "!"
	}
	return []byte(s)
}

func c05Traceish(rng *rand.Rand) []byte {
	en, dis := "<ENABLE_TRZSZ_TRACE_LOG>", "<DISABLE_TRZSZ_TRACE_LOG>"
	m := []string{en, dis}[rng.Intn(2)]
	switch rng.Intn(8) {
	case 6:
		m = m[:len(m)-1] // the closing '>' missing
	case 7:
		m = m[:len(m)-1] + " >"
	case 0:
		m = m[:1+rng.Intn(len(m)-1)]
	case 1:
		p := rng.Intn(len(m))
		m = m[:p] + m[p+1:]
	case 2:
		m = strings.ToLower(m)
	case 3:
		m = m[1:]
	}
	return []byte([]string{"", "$ echo -e '", "\r\n"}[rng.Intn(3)] + m + []string{"", "\r\n", "x"}[rng.Intn(3)])
}

func c05Random(rng *rand.Rand) []byte {
	n := 1 + rng.Intn(40)
	b := make([]byte, n)
	alpha := []byte{0x1b, 0x18, 0x07, '*', 'B', '0', ':', 'T', 'R', 'Z', 'S', '#', '\r', '\n', ' ', '/', '\'', ']', '5', '2', ';', 'c', '<', '>'}
	for i := range b {
		if rng.Intn(3) == 0 {
			b[i] = alpha[rng.Intn(len(alpha))]
		} else {
			b[i] = byte(rng.Intn(256))
		}
	}
	return b
}

type c05Paths struct {
	root   string
	exist  []string // existing regular files and directories (absolute)
	isDir  map[string]bool
	absent []string // not draggable: missing, or not a regular file / directory
	other  []string // exist, but are neither regular files nor directories
}

func c05MakePaths(work string) *c05Paths {
	p := &c05Paths{root: filepath.Join(work, "drag"), isDir: map[string]bool{}}
	os.MkdirAll(filepath.Join(p.root, "dir one"), 0755)
	os.MkdirAll(filepath.Join(p.root, "d2"), 0755)
	for _, n := range []string{"a.txt", "b b.bin", "it's", "d2/inner"} {
		f := filepath.Join(p.root, n)
		os.WriteFile(f, []byte("x"), 0644)
		p.exist = append(p.exist, f)
	}
	for _, d := range []string{"dir one", "d2"} {
		f := filepath.Join(p.root, d)
		p.exist = append(p.exist, f)
		p.isDir[f] = true
	}
	for _, n := range []string{"nope", "a.tx", "a.txt2", "dir", "d2/none", "b"} {
		p.absent = append(p.absent, filepath.Join(p.root, n))
	}
	// exists, but is neither a regular file nor a directory: not draggable
	if fi, err := os.Stat("/dev/null"); err == nil && !fi.IsDir() && !fi.Mode().IsRegular() {
		p.other = append(p.other, "/dev/null")
		p.absent = append(p.absent, "/dev/null")
	}
	return p
}

// the os.Stat oracle handed to the model: everything that exists below root
func (p *c05Paths) table() string {
	var parts []string
	for _, f := range p.exist {
		k := "r"
		if p.isDir[f] {
			k = "d"
		}
		parts = append(parts, hx([]byte(f))+":"+k)
	}
	for _, f := range p.other {
		parts = append(parts, hx([]byte(f))+":o")
	}
	return strings.Join(parts, ",")
}

func c05Render(rng *rand.Rand, path string) string {
	if strings.ContainsAny(path, " '") || rng.Intn(3) == 0 {
		return "'" + path + "' "
	}
	return path + " "
}

// path-like typed input that must NOT be taken for a drag: at least one path is absent,
// or the list is malformed
func (p *c05Paths) notADrag(rng *rand.Rand) []byte {
	var s string
	n := 1 + rng.Intn(3)
	bad := rng.Intn(n)
	for i := 0; i < n; i++ {
		if i == bad {
			s += c05Render(rng, p.absent[rng.Intn(len(p.absent))])
		} else {
			s += c05Render(rng, p.exist[rng.Intn(len(p.exist))])
		}
	}
	switch rng.Intn(8) {
	case 0: // all exist, but no trailing space
		s = strings.TrimRight(c05Render(rng, p.exist[0])+c05Render(rng, p.exist[1]), " ")
	case 1: // all exist, garbage in front
		s = "x" + c05Render(rng, p.exist[0])
	case 2: // all exist, typed text behind
		s = c05Render(rng, p.exist[0]) + "ls "
	case 3: // unbalanced quote
		s = "'" + p.exist[0] + " "
	case 4: // quoted path not followed by a space
		s = "'" + p.exist[0] + "'x "
	case 5:
		s = "\x1b[200~" + s + "\x1b[201~"
	case 6: // windows-like
		s = "C:\\Users\\x\\a.txt "
	}
	return []byte(s)
}

func (p *c05Paths) aDrag(rng *rand.Rand) ([]byte, bool) {
	var s string
	hasDir := false
	n := 1 + rng.Intn(3)
	for i := 0; i < n; i++ {
		f := p.exist[rng.Intn(len(p.exist))]
		if strings.Contains(f, "'") {
			f = p.exist[0]
		}
		if p.isDir[f] {
			hasDir = true
		}
		s += c05Render(rng, f)
	}
	if rng.Intn(3) == 0 {
		s = "\x1b[200~" + s + "\x1b[201~"
	}
	return []byte(s), hasDir
}

// chunks starting like a path and ending in a space are only generated from the path
// vocabulary (the model's os.Stat oracle is a table of what exists below the temp root)
func c05PathShaped(b []byte) bool {
	if len(b) < 3 || b[len(b)-1] != ' ' {
		return false
	}
	return b[0] == '/' || (b[0] == '\'' && b[1] == '/')
}

var c05TraceOn = "Writing trace log to LOG"
var c05TraceOff = "Closed trace log at LOG"

type c05Case struct {
	opts      trzsz.TrzszOptions
	flags     string
	events    []string // model tokens
	genuine   int
	nearMiss  int
	traceGen  bool
	hasOsc    bool
	hasZm     bool
	hasPath   bool
}

// ---------------------------------------------------------------------------------------
// group "filter"

func genC05Filter(c *ctx) {
	work, _ := os.MkdirTemp("", "c05_")
	defer os.RemoveAll(work)
	os.Setenv("TMPDIR", work)
	c05InstallClipboard()
	paths := c05MakePaths(work)
	table := paths.table()
	logRe := regexp.MustCompile(regexp.QuoteMeta(work) + `/trzsz_\d+\.log`)
	canon := func(items []string) string {
		if len(items) == 0 {
			return "-"
		}
		out := make([]string, len(items))
		for i, it := range items {
			if it[1:] != "-" { // the temp file name of the trace log can also end up in a clipboard call
				b, _ := hex.DecodeString(it[1:])
				if logRe.Match(b) {
					b = logRe.ReplaceAll(b, []byte("LOG"))
					it = it[:1] + hx(b)
				}
			}
			out[i] = it
		}
		return strings.Join(out, ",")
	}

	// one case = one filter fed an event list; idleOnly = the harness expects pure identity
	runCase := func(o trzsz.TrzszOptions, evs []c05Ev, label string) {
		o = c05Mask(o)
		x := c05New(o)
		if o.EnableOSC52 {
			c05SetClip(x.rec)
		}
		var toks []string
		var wantT, wantS [][]byte
		identity := true
		for _, e := range evs {
			switch e.kind {
			case 'o':
				x.out(e.b)
				toks = append(toks, "o"+hx(e.b))
				wantT = append(wantT, e.b)
				if e.exception {
					identity = false
				}
			case 'i':
				x.in(e.b)
				toks = append(toks, "i"+hx(e.b))
				wantS = append(wantS, e.b)
				if e.exception {
					identity = false
				}
			}
		}
		c05SetClip(nil)
		x.close()
		items := x.rec.snapshot()
		flags := c05Flags(o, false, o.DetectDragFile)
		nontrivial := len(evs) > 1
		c.emit(nontrivial, "c05_run", canon(items), flags, "-", table, "-", hx([]byte(c05TraceOn)), hx([]byte(c05TraceOff)), strings.Join(toks, ","))
		c.count("case:" + label)
		c.count(fmt.Sprintf("opts:%s", flags[:4]))
		if identity {
			// DIRECT ORACLE: while idle the writes at the two writers are exactly the chunks
			var gotT, gotS [][]byte
			for _, it := range items {
				b, _ := hex.DecodeString(strings.TrimPrefix(it[1:], "-"))
				switch it[0] {
				case 't':
					gotT = append(gotT, b)
				case 's':
					gotS = append(gotS, b)
				}
			}
			if !bytes.Equal(bytes.Join(gotT, nil), bytes.Join(wantT, nil)) {
				c.violate("idle-output-altered:"+label, "server output was lost, duplicated, reordered or altered while no transfer was in progress",
					fmt.Sprintf("options=%+v events=%s terminal-writes=%s", o, strings.Join(toks, ","), hxs(gotT)))
			}
			if !bytes.Equal(bytes.Join(gotS, nil), bytes.Join(wantS, nil)) {
				c.violate("idle-input-altered:"+label, "typed input was lost, duplicated, reordered or altered while no transfer was in progress",
					fmt.Sprintf("options=%+v events=%s server-writes=%s", o, strings.Join(toks, ","), hxs(gotS)))
			}
		}
	}

	safeOut := func(o trzsz.TrzszOptions, b []byte) ([]byte, string) {
		// genuine triggers and genuine zmodem headers are the stated exceptions: not fed here
		if trzsz.VerifFreshDetectorFires(b) {
			return nil, "genuine-trigger"
		}
		if o.EnableZmodem && trzsz.VerifZmodemFires(b) {
			return nil, "genuine-zmodem"
		}
		return b, ""
	}
	isTraceMarker := func(b []byte) bool {
		return bytes.Contains(b, []byte("<ENABLE_TRZSZ_TRACE_LOG>")) || bytes.Contains(b, []byte("<DISABLE_TRZSZ_TRACE_LOG>"))
	}

	// a panic inside a pump goroutine of a live filter cannot be recovered and would take this
	// process (and its report) down: the scanners are therefore swept FIRST, directly and under
	// recover; if one of them panics, the option that reaches it is switched off for the live filters
	before := len(c.violations)
	// (4) scanners in isolation: drag detection and echo trimming against the model
	nScan := c.pick(1500, 20000)
	for k := 0; k < nScan; k++ {
		var b []byte
		kindOfInput := c.rng.Intn(4)
		switch kindOfInput {
		case 0:
			b, _ = paths.aDrag(c.rng)
		case 1, 2:
			b = paths.notADrag(c.rng)
		case 3:
			b = c05Random(c.rng)
			if c05PathShaped(b) {
				b[len(b)-1] = '.'
			}
		}
		var files []string
		var hasDir, ignore, win bool
		if pt := c05Catch(func() { files, hasDir, ignore, win = trzsz.VerifDetectDragFiles(b) }); pt != "" {
			c.violate("scanner-panic:drag:"+hx(b), "detectDragFiles panics on typed input (it runs in the input pump: the process dies)", fmt.Sprintf("detectDragFiles(%q): %s", b, pt))
			continue
		}
		if files != nil && kindOfInput != 0 {
			// DIRECT ORACLE: typed input that is not entirely a list of existing files/directories
			c.violate("drag-false-positive", "typed input that is not entirely a list of existing regular files / directories would be swallowed as a drag upload",
				fmt.Sprintf("detectDragFiles(%q) = %q", b, files))
		}
		res := "none"
		if files != nil {
			var fs [][]byte
			for _, f := range files {
				fs = append(fs, []byte(f))
			}
			res = "files:" + hxs(fs) + ":" + map[bool]string{true: "1", false: "0"}[hasDir]
			c.count("drag:fires")
		} else {
			c.count("drag:silent")
		}
		res += ":" + map[bool]string{true: "1", false: "0"}[ignore] + ":" + map[bool]string{true: "1", false: "0"}[win]
		c.emit(files != nil || bytes.Contains(b, []byte("\x1b[20")), "c05_drag", res, table, hx(b))
		e := []byte(c05Escapes[c.rng.Intn(len(c05Escapes))] + "trz" + c05Escapes[c.rng.Intn(len(c05Escapes))])
		if c.rng.Intn(2) == 0 {
			e = c05Random(c.rng)
		}
		var trimmed []byte
		if pt := c05Catch(func() { trimmed = trzsz.VerifTrimVT100(e) }); pt != "" {
			c.violate("scanner-panic:trimvt100:"+hx(e), "trimVT100 panics on server output (it runs in the output pump: the process dies)", fmt.Sprintf("trimVT100(%q): %s", e, pt))
			continue
		}
		c.emit(bytes.IndexByte(e, 0x1b) >= 0, "c05_trim", hx([]byte(strings.TrimRight(string(trimmed), "\r\n"))), hx(e))
	}

	// (4b) every prefix and every suffix of drag lists through detectDragFiles (index errors)
	for k := 0; k < c.pick(6, 30); k++ {
		whole, _ := paths.aDrag(c.rng)
		for cut := 0; cut <= len(whole); cut++ {
			for _, b := range [][]byte{whole[:cut], whole[cut:]} {
				if len(b) == 0 {
					continue
				}
				b := b
				var files []string
				var hasDir, ignore, win bool
				if pt := c05Catch(func() { files, hasDir, ignore, win = trzsz.VerifDetectDragFiles(b) }); pt != "" {
					c.violate("scanner-panic:drag:"+hx(b), "detectDragFiles panics on typed input (it runs in the input pump: the process dies)", fmt.Sprintf("detectDragFiles(%q): %s", b, pt))
					continue
				}
				res := "none"
				if files != nil {
					var fs [][]byte
					for _, f := range files {
						fs = append(fs, []byte(f))
					}
					res = "files:" + hxs(fs) + ":" + map[bool]string{true: "1", false: "0"}[hasDir]
				}
				res += ":" + map[bool]string{true: "1", false: "0"}[ignore] + ":" + map[bool]string{true: "1", false: "0"}[win]
				c.emit(true, "c05_drag", res, table, hx(b))
				c.count("drag:cut-sweep")
			}
		}
	}

	// (4c) OSC52: EVERY 2-chunk and 3-chunk split of complete sequences, fed to the real scanner
	// (filter.detectOSC52 called directly, under recover) and to the model
	oscSeqs := []string{
		"\x1b]52;c;QUJD\a",
		"\x1b]52;p;QUJD\x1b\\",
		"\x1b]52;x;QUJD\a",
		"\x1b]52;c;\a",
		"\x1b]52;c;\x1b\\",
		"ab\x1b]52;q;\x1b]52;c;QQ==\acd",
		"\x1b]52;c;QUJD\a\x1b]52;p;RUZH\x1b\\",
		"\x1b]52;\x1b]52;c;QQ==\a",
		"\x1b]52;c\x1b]52;p;Qg==\a",
		"\x1b]52;cc;Qg==\a\x1b]52;c;;\a",
	}
	oscCase := func(desc string, chunks [][]byte) {
		var clips [][]byte
		var pending []byte
		var has bool
		at, ptxt := -1, ""
		if pt := c05Catch(func() { clips, pending, has, at, ptxt = trzsz.VerifOSC52Scan(chunks) }); pt != "" {
			at, ptxt = 0, pt
		}
		if at >= 0 {
			c.violate("scanner-panic:osc52:"+desc, "detectOSC52 panics on server output (it runs in the output pump goroutine: the whole process dies)",
				fmt.Sprintf("chunks %s: panic on chunk %d (%q): %s", hxs(chunks), at, chunks[at], ptxt))
			c.emit(true, "c05_osc52", "panic", hxs(chunks))
			return
		}
		res := "n"
		if has {
			res = "b" + hx(pending)
		}
		c.emit(len(chunks) > 1, "c05_osc52", res+"|"+hxs(clips), hxs(chunks))
		c.count(fmt.Sprintf("osc52-sweep:%d-chunks", len(chunks)))
	}
	for si, sq := range oscSeqs {
		b := []byte(sq)
		oscCase(fmt.Sprintf("seq%d:whole", si), [][]byte{b})
		for i := 1; i < len(b); i++ {
			oscCase(fmt.Sprintf("seq%d:cut@%d", si, i), [][]byte{b[:i], b[i:]})
			for j := i + 1; j < len(b); j++ {
				oscCase(fmt.Sprintf("seq%d:cut@%d,%d", si, i, j), [][]byte{b[:i], b[i:j], b[j:]})
			}
		}
	}

	for _, v := range c.violations[before:] {
		if strings.HasPrefix(v["key"], "scanner-panic:osc52") {
			c05NoOSC52 = true
		}
		if strings.HasPrefix(v["key"], "scanner-panic:drag") || strings.HasPrefix(v["key"], "scanner-panic:trimvt100") {
			c05NoDrag = true
		}
	}

	// (1) every single-byte truncation / deletion / corruption of real trigger lines, all option sets
	nTrig := c.pick(2, 8)
	for t := 0; t < nTrig; t++ {
		line := c05Trigger(c.rng)
		all := c05AllNearMisses(line)
		// chunks of ~40 near misses per filter
		for oi := 0; oi < 16; oi++ {
			o := c05Opts(oi)
			if !c.thorough() && (oi+t)%4 != 0 {
				continue
			}
			for start := 0; start < len(all); start += 60 {
				var evs []c05Ev
				for _, b := range all[start:min(start+60, len(all))] {
					if sb, why := safeOut(o, b); sb != nil {
						evs = append(evs, c05Ev{kind: 'o', b: sb})
						c.count("near-miss:silent")
					} else {
						c.count("near-miss:" + why)
					}
				}
				if len(evs) > 0 {
					runCase(o, evs, "near-miss")
				}
			}
		}
	}

	// (2) mixed streams, both directions, all option sets
	nMixed := c.pick(700, 6000)
	for k := 0; k < nMixed; k++ {
		o := c05Opts(k % 16)
		var evs []c05Ev
		n := 4 + c.rng.Intn(30)
		var pendingSplit [][]byte
		for len(evs) < n {
			if len(pendingSplit) > 0 {
				evs = append(evs, c05Ev{kind: 'o', b: pendingSplit[0]})
				pendingSplit = pendingSplit[1:]
				continue
			}
			if c.rng.Intn(3) == 0 { // typed input
				var b []byte
				switch c.rng.Intn(6) {
				case 0, 1:
					b = paths.notADrag(c.rng)
					c.count("in:path-like-absent")
				case 2:
					b = []byte([]string{"ls\r", "\x03", "\x1b[A", "q", "\t", "\x1b[200~echo hi\x1b[201~", "\x1b[200~\x1b[201~", "/ ", "'/"}[c.rng.Intn(9)])
					c.count("in:keys")
				default:
					b = c05Random(c.rng)
					if c05PathShaped(b) {
						b[len(b)-1] = '.'
					}
					c.count("in:random")
				}
				if files, _, _, _ := trzsz.VerifDetectDragFiles(b); files != nil && o.DetectDragFile {
					c.count("in:unexpected-drag-skipped")
					continue
				}
				evs = append(evs, c05Ev{kind: 'i', b: b})
				continue
			}
			var b []byte
			exception := false
			switch c.rng.Intn(9) {
			case 0:
				b = c05Random(c.rng)
				c.count("out:random")
			case 1:
				b = []byte(c05Escapes[c.rng.Intn(len(c05Escapes))] + c05Escapes[c.rng.Intn(len(c05Escapes))])
				c.count("out:escapes")
			case 2:
				nm := c05NearMisses(c.rng, c05Trigger(c.rng), 1)
				if len(nm) == 0 {
					continue
				}
				b = nm[0]
				c.count("out:near-miss")
			case 3:
				b = c05Zmodemish(c.rng)
				c.count("out:zmodem-like")
			case 4, 5:
				// an OSC52-like sequence cut into chunks
				whole := append(c05Osc52ish(c.rng), c05Osc52ish(c.rng)...)
				if len(whole) == 0 {
					continue
				}
				pendingSplit = c.split(whole, 1+c.rng.Intn(8))
				c.count("out:osc52-like")
				continue
			case 6:
				b = c05Traceish(c.rng)
				c.count("out:trace-like")
			case 7:
				b = []byte(c05Escapes[c.rng.Intn(len(c05Escapes))])
				c.count("out:escape")
			case 8:
				// the documented exception: a genuine trace-log marker
				if o.DetectTraceLog && c.rng.Intn(4) == 0 {
					b = []byte("x" + []string{"<ENABLE_TRZSZ_TRACE_LOG>", "<DISABLE_TRZSZ_TRACE_LOG>"}[c.rng.Intn(2)] + "y\r\n")
					c.count("out:trace-marker")
				} else {
					b = c05Random(c.rng)
				}
			}
			if len(b) == 0 {
				continue
			}
			if o.DetectTraceLog && isTraceMarker(b) {
				exception = true
			}
			sb, why := safeOut(o, b)
			if sb == nil {
				c.count("out:skipped-" + why)
				continue
			}
			evs = append(evs, c05Ev{kind: 'o', b: sb, exception: exception})
		}
		runCase(o, evs, "mixed")
	}

	// (3) a long OSC52 sequence crossing the 100000-byte limit, with and without a bad byte
	if true {
		for v := 0; v < 2; v++ {
			o := c05Opts(8)
			evs := []c05Ev{{kind: 'o', b: []byte("\x1b]52;c;QUJD")}}
			blk := bytes.Repeat([]byte("QUJD"), 7000) // 28000 bytes
			for i := 0; i < 4; i++ {
				b := append([]byte(nil), blk...)
				if v == 1 && i == 3 {
					b[100] = '!'
				}
				evs = append(evs, c05Ev{kind: 'o', b: b})
			}
			evs = append(evs, c05Ev{kind: 'o', b: []byte("QQ==\a")}, c05Ev{kind: 'o', b: []byte("\x1b]52;c;QkI=\a")})
			runCase(o, evs, "osc52-limit")
		}
	}

	// (5) the documented exception on the input side: a list of EXISTING paths is swallowed
	// and starts a drag upload (ctrl-C, 200 ms during which server output is dropped, the
	// upload command, suppression of its echo).  A few, in parallel (they sleep).
	nDrag := c.pick(10, 30)
	if c05NoDrag {
		nDrag = 0
	}
	type dragOut struct {
		args   []string
		result string
		viol   string
		key    string
	}
	outs := make([]dragOut, nDrag)
	seeds := make([]int64, nDrag)
	for i := range seeds {
		seeds[i] = c.rng.Int63()
	}
	parallelDo(nDrag, nDrag, func(i int) {
		rng := rand.New(rand.NewSource(seeds[i]))
		o := trzsz.TrzszOptions{DetectDragFile: true, EnableZmodem: i%2 == 1, DetectTraceLog: i%4 >= 2}
		x := c05New(o)
		cmd := ""
		notTrz := false
		if i%3 == 1 {
			cmd = "trz -y"
			x.f.SetDragFileUploadCommand(cmd)
		} else if i%3 == 2 {
			cmd = "/usr/bin/rz -b"
			notTrz = true
			x.f.SetDragFileUploadCommand(cmd)
		}
		time.Sleep(30 * time.Millisecond) // drag detection is switched on by a goroutine
		var toks []string
		feedIn := func(b []byte) { x.in(b); toks = append(toks, "i"+hx(b)) }
		feedOut := func(b []byte) { x.out(b); toks = append(toks, "o"+hx(b)) }
		feedIn([]byte("echo before\r"))
		feedOut([]byte("before\r\n$ "))
		list, hasDir := paths.aDrag(rng)
		variant := i % 5
		feedIn(list)
		if variant == 3 {
			// the user types something else before the upload starts: the drag is abandoned
			feedIn([]byte("x"))
			time.Sleep(450 * time.Millisecond)
			toks = append(toks, "g0")
			feedIn([]byte("after\r"))
			feedOut([]byte("after\r\n"))
		} else {
			if variant == 2 {
				more, hd := paths.aDrag(rng) // a second batch joins the first
				hasDir = hasDir || hd
				feedIn(more)
			}
			from := 0
			if !x.waitFor('s', []byte{3}, from, 3*time.Second) {
				outs[i].viol = "the drag upload never sent ctrl-C"
			}
			toks = append(toks, "g0")
			feedOut([]byte("^C\r\n$ ")) // within the 200 ms after ctrl-C: dropped
			full := cmd
			if full == "" {
				full = "trz"
			}
			if hasDir && !notTrz {
				full += " -d"
			}
			if !x.waitFor('s', []byte(full+"\r"), from, 3*time.Second) {
				outs[i].viol = "the drag upload never typed the upload command " + full
			}
			toks = append(toks, "g0")
			if variant == 4 {
				// the echo of the command does NOT arrive as a chunk of its own: it is glued to what
				// follows.  That chunk is not the bare echo, so it passes, and the suppression is spent.
				// Everything the remote side sends afterwards must reach the terminal - also chunks
				// that look like the echo.
				word := strings.Fields(full)[0]
				after := [][]byte{
					[]byte(full + "\r\n-bash: " + word + ": command not found\r\n$ "),
					[]byte("$ echo " + full + "\r\n"),
					[]byte(full + "\r\n"),
					[]byte("\x1b[0m" + full + "\x1b[K\r\n"),
					[]byte(full),
					[]byte(full + "\r"),
					[]byte(full + "\n\r\n"),
					[]byte(full + " \r\n"),
					[]byte(" " + full + "\r\n"),
					[]byte(full[:len(full)-1] + "\r\n"),
					[]byte(full + "x\r\n"),
					[]byte("\x1b" + full + "\r\n"),
					[]byte("$ "),
				}
				for k, b := range after {
					if k == 2 {
						feedIn([]byte("ls\r")) // the user carries on
					}
					at := x.rec.length()
					feedOut(b)
					if got := x.rec.snapshot()[at:]; !c05Only(got, 't', b) && outs[i].viol == "" {
						outs[i].key = "idle-output-altered:after-drag"
						outs[i].viol = fmt.Sprintf("after a drag upload whose command echo arrived glued to other output (%q), the remote output %q reached the terminal as %v",
							after[0], b, got)
					}
				}
			} else if variant == 1 {
				feedOut([]byte("\x1b[?2004l\x1b[1m" + full + "\x1b[0m\r\n")) // echo, decorated
			} else {
				feedOut([]byte(full + "\r\n"))
			}
			if variant != 4 {
				feedOut([]byte(full + "\r\n")) // a second identical chunk is NOT suppressed
			}
			// DIRECT ORACLE: once ctrl-C, the command and its echo are through, output passes again
			mark := []byte(fmt.Sprintf("after-drag-%d\r\n$ ", i))
			at := x.rec.length()
			feedOut(mark)
			if got := x.rec.snapshot()[at:]; !c05Only(got, 't', mark) && outs[i].viol == "" {
				outs[i].viol = fmt.Sprintf("server output after a drag upload's command echo did not reach the terminal: fed %q, terminal got %v", mark, got)
			}
			feedIn([]byte("typed during the 3 s\r"))
		}
		x.close()
		outs[i].args = []string{c05Flags(o, notTrz, true), hx([]byte(cmd)), table, "-", hx([]byte(c05TraceOn)), hx([]byte(c05TraceOff)), strings.Join(toks, ",")}
		outs[i].result = canon(x.rec.snapshot())
	})
	for i := range outs {
		c.emit(true, "c05_run", outs[i].result, outs[i].args...)
		c.count("case:drag-exception")
		if outs[i].viol != "" {
			key := outs[i].key
			if key == "" {
				key = "drag-upload"
			}
			c.violate(key, outs[i].viol, strings.Join(outs[i].args, " "))
		}
	}
}

// c05Catch runs f in this goroutine and returns the panic text ("" = no panic)
func c05Catch(f func()) (p string) {
	defer func() {
		if r := recover(); r != nil {
			p = fmt.Sprint(r)
		}
	}()
	f()
	return ""
}

type c05Ev struct {
	kind      byte
	b         []byte
	exception bool
}

// ---------------------------------------------------------------------------------------
// group "filter-history": probe, session, probe

var c05IDMu sync.Mutex
var c05IDNext int64 = 1700000000000

func c05NextID() string {
	c05IDMu.Lock()
	defer c05IDMu.Unlock()
	c05IDNext += 100
	return fmt.Sprintf("%013d", c05IDNext)
}

// probe feeds chunks in both directions and reports the first one that does not pass
// through unchanged (exactly one write with exactly the bytes)
func (x *c05F) probe(rng *rand.Rand, o trzsz.TrzszOptions, n int) string {
	for k := 0; k < n; k++ {
		var b []byte
		switch rng.Intn(5) {
		case 0:
			b = c05Random(rng)
		case 1:
			b = []byte(c05Escapes[rng.Intn(len(c05Escapes))])
		case 2:
			nm := c05NearMisses(rng, c05Trigger(rng), 1)
			if len(nm) == 0 {
				continue
			}
			b = nm[0]
		case 3:
			b = c05Zmodemish(rng)
		case 4:
			b = c05Osc52ish(rng)
		}
		if len(b) == 0 || trzsz.VerifFreshDetectorFires(b) || (o.EnableZmodem && trzsz.VerifZmodemFires(b)) ||
			bytes.Contains(b, []byte("_TRZSZ_TRACE_LOG>")) {
			continue
		}
		from := x.rec.length()
		x.out(b)
		if got := x.rec.snapshot()[from:]; !c05Only(got, 't', b) {
			return fmt.Sprintf("server output %s arrived at the terminal as %v", hx(b), got)
		}
		in := c05Random(rng)
		if c05PathShaped(in) {
			in[len(in)-1] = '.'
		}
		if rng.Intn(4) == 0 {
			in = []byte{3}
		}
		from = x.rec.length()
		x.in(in)
		if got := x.rec.snapshot()[from:]; !c05Only(got, 's', in) {
			return fmt.Sprintf("typed input %s arrived at the server as %v", hx(in), got)
		}
	}
	return ""
}

// got consists of exactly one write with the given tag and bytes (clipboard items ignored)
func c05Only(got []string, tag byte, b []byte) bool {
	n := 0
	for _, it := range got {
		if it[0] == 'c' {
			continue
		}
		if it != string(tag)+hx(b) {
			return false
		}
		n++
	}
	return n == 1
}

func c05EncLine(typ string, payload string) []byte {
	return append(encodeLine(typ, []byte(payload)), '\n')
}

type c05Hist struct {
	name string
	run  func(x *c05F, work string, rng *rand.Rand) string // returns "" or what went wrong in the scenario itself
	// strata of c05d.go
	drag  bool // runs with drag detection on; x.paths is set
	model bool // the whole history (probes included) is also evaluated by the model (c05_run)
	win   bool // runs in the phase with SetAffectedByWindows(true)
}

func c05WaitIdle(x *c05F, d time.Duration) bool {
	end := time.Now().Add(d)
	for time.Now().Before(end) {
		if !x.f.IsTransferringFiles() {
			return true
		}
		time.Sleep(2 * time.Millisecond)
	}
	return false
}

func c05WaitBusy(x *c05F, d time.Duration) bool {
	end := time.Now().Add(d)
	for time.Now().Before(end) {
		if x.f.IsTransferringFiles() {
			return true
		}
		time.Sleep(time.Millisecond)
	}
	return false
}

// scripted server: trigger, wait for ACT, CFG
func c05Handshake(x *c05F, mode byte, ver string, wantConfirm bool) string {
	from := x.rec.length()
	x.svrOut.Write([]byte(fmt.Sprintf("\x1b7\x07::TRZSZ:TRANSFER:%c:%s:%s\r\n", mode, ver, c05NextID())))
	if !x.waitFor('s', []byte("#ACT:"), from, 5*time.Second) {
		return "no ACT line reached the server"
	}
	// decode the ACT to see confirm
	sv := x.rec.bytesSince(from, 's')
	i := bytes.Index(sv, []byte("#ACT:"))
	j := bytes.IndexByte(sv[i:], '\n')
	if j < 0 {
		time.Sleep(20 * time.Millisecond)
		sv = x.rec.bytesSince(from, 's')
		j = bytes.IndexByte(sv[i:], '\n')
	}
	if j > 0 {
		js, err := decodeLinePayload(string(bytes.TrimSuffix(sv[i+5:i+j], []byte("!"))))
		if err == nil {
			var m map[string]any
			json.Unmarshal(js, &m)
			if c, _ := m["confirm"].(bool); c != wantConfirm {
				return fmt.Sprintf("ACT confirm=%v, expected %v", c, wantConfirm)
			}
		}
	}
	return ""
}

const c05CFG = `{"lang":"go","quiet":true,"binary":false,"directory":false,"overwrite":false,"timeout":5,"newline":"\n","protocol":2,"bufsize":10240}`

func c05RunChild(x *c05F, bin string, args []string, deadline time.Duration) string {
	cmd := exec.Command(filepath.Join(e2eBinDir, bin), args...)
	var env []string
	for _, e := range os.Environ() {
		if !strings.HasPrefix(e, "TMUX") {
			env = append(env, e)
		}
	}
	cmd.Env = env
	stdin, _ := cmd.StdinPipe()
	stdout, _ := cmd.StdoutPipe()
	x.rec.mu.Lock()
	x.rec.fwd = func(tag byte, b []byte) {
		if tag == 's' {
			stdin.Write(b)
		}
	}
	x.rec.mu.Unlock()
	if err := cmd.Start(); err != nil {
		return "cannot start " + bin + ": " + err.Error()
	}
	done := make(chan struct{})
	go func() {
		buf := make([]byte, 32*1024)
		for {
			n, err := stdout.Read(buf)
			if n > 0 {
				b := append([]byte(nil), buf[:n]...)
				if bytes.Contains(b, []byte("::TRZSZ:TRANSFER:")) {
					x.trig = b
				}
				x.svrOut.Write(b)
			}
			if err != nil {
				break
			}
		}
		cmd.Wait()
		close(done)
	}()
	select {
	case <-done:
	case <-time.After(deadline):
		cmd.Process.Kill()
		<-done
		x.rec.mu.Lock()
		x.rec.fwd = nil
		x.rec.mu.Unlock()
		return bin + " did not finish"
	}
	x.rec.mu.Lock()
	x.rec.fwd = nil
	x.rec.mu.Unlock()
	x.svrOut.Write(nil)
	if cmd.ProcessState.ExitCode() != 0 {
		return fmt.Sprintf("%s exit code %d", bin, cmd.ProcessState.ExitCode())
	}
	return ""
}

func c05Histories() []c05Hist {
	return []c05Hist{
		{name: "none", run: func(x *c05F, work string, rng *rand.Rand) string { return "" }},
		{name: "success-download", run: func(x *c05F, work string, rng *rand.Rand) string {
			src := filepath.Join(work, "src.bin")
			os.WriteFile(src, fillBytes(rng, 20000, rng.Intn(4)), 0644)
			dest := filepath.Join(work, "dl")
			os.MkdirAll(dest, 0755)
			x.f.SetDefaultDownloadPath(dest)
			if e := c05RunChild(x, "tsz", []string{"-q", src}, 30*time.Second); e != "" {
				return e
			}
			a, _ := os.ReadFile(src)
			b, _ := os.ReadFile(filepath.Join(dest, "src.bin"))
			if !bytes.Equal(a, b) {
				return "downloaded file differs"
			}
			return ""
		}},
		{name: "success-upload", run: func(x *c05F, work string, rng *rand.Rand) string {
			src := filepath.Join(work, "up.bin")
			os.WriteFile(src, fillBytes(rng, 20000, rng.Intn(4)), 0644)
			dest := filepath.Join(work, "ul")
			os.MkdirAll(dest, 0755)
			ch, err := x.f.OneTimeUpload([]string{src})
			if err != nil {
				return err.Error()
			}
			if e := c05RunChild(x, "trz", []string{"-q", dest}, 30*time.Second); e != "" {
				return e
			}
			select {
			case err := <-ch:
				if err != nil {
					return "upload result: " + err.Error()
				}
			case <-time.After(5 * time.Second):
				return "no upload result"
			}
			a, _ := os.ReadFile(src)
			b, _ := os.ReadFile(filepath.Join(dest, "up.bin"))
			if !bytes.Equal(a, b) {
				return "uploaded file differs"
			}
			return ""
		}},
		{name: "server-fail", run: func(x *c05F, work string, rng *rand.Rand) string {
			x.f.SetDefaultDownloadPath(work)
			if e := c05Handshake(x, 'S', "1.1.6", true); e != "" {
				return e
			}
			x.svrOut.Write(c05EncLine("CFG", c05CFG))
			if !c05WaitBusy(x, 2*time.Second) {
				return "never entered the transfer state"
			}
			x.svrOut.Write(c05EncLine("fail", "server side failure"))
			return ""
		}},
		{name: "client-fail", run: func(x *c05F, work string, rng *rand.Rand) string {
			x.f.SetDefaultDownloadPath(work)
			if e := c05Handshake(x, 'S', "1.1.6", true); e != "" {
				return e
			}
			from := x.rec.length()
			x.svrOut.Write(c05EncLine("CFG", c05CFG))
			x.svrOut.Write([]byte("#NUM:1\n"))
			if !x.waitFor('s', []byte("#SUCC:1"), from, 3*time.Second) {
				return "NUM not acknowledged"
			}
			x.svrOut.Write(c05EncLine("NAME", "no-such-dir/sub/x.bin"))
			if !x.waitFor('s', []byte("#fail:"), from, 3*time.Second) && !x.waitFor('s', []byte("#FAIL:"), from, 10*time.Millisecond) {
				return "the client did not report its failure"
			}
			return ""
		}},
		{name: "client-fail-early", run: func(x *c05F, work string, rng *rand.Rand) string {
			x.f.SetDefaultDownloadPath(filepath.Join(work, "missing", "dir"))
			from := x.rec.length()
			x.svrOut.Write([]byte(fmt.Sprintf("::TRZSZ:TRANSFER:S:1.1.6:%s\r\n", c05NextID())))
			if !x.waitFor('s', []byte("#fail:"), from, 3*time.Second) && !x.waitFor('s', []byte("#FAIL:"), from, 10*time.Millisecond) {
				return "the client did not report its failure"
			}
			return ""
		}},
		{name: "stop-ctrl-c-old-server", run: func(x *c05F, work string, rng *rand.Rand) string {
			x.f.SetDefaultDownloadPath(work)
			if e := c05Handshake(x, 'S', "1.1.0", true); e != "" {
				return e
			}
			from := x.rec.length()
			x.svrOut.Write(c05EncLine("CFG", c05CFG))
			if !c05WaitBusy(x, 2*time.Second) {
				return "never entered the transfer state"
			}
			x.cliIn.Write([]byte{3})
			if !x.waitFor('s', []byte("#fail:"), from, 5*time.Second) {
				return "no stop message reached the server"
			}
			return ""
		}},
		{name: "stop-and-delete-api", run: func(x *c05F, work string, rng *rand.Rand) string {
			x.f.SetDefaultDownloadPath(work)
			if e := c05Handshake(x, 'S', "1.1.6", true); e != "" {
				return e
			}
			from := x.rec.length()
			x.svrOut.Write(c05EncLine("CFG", c05CFG))
			if !c05WaitBusy(x, 2*time.Second) {
				return "never entered the transfer state"
			}
			x.f.StopTransferringFiles(true)
			if !x.waitFor('s', []byte("#fail:"), from, 5*time.Second) {
				return "no stop message reached the server"
			}
			return ""
		}},
		{name: "stop-prompt", run: func(x *c05F, work string, rng *rand.Rand) string {
			x.f.SetDefaultDownloadPath(work)
			if e := c05Handshake(x, 'S', "1.1.6", true); e != "" {
				return e
			}
			from := x.rec.length()
			x.svrOut.Write(c05EncLine("CFG", c05CFG))
			if !c05WaitBusy(x, 2*time.Second) {
				return "never entered the transfer state"
			}
			x.cliIn.Write([]byte{3})
			if !x.waitFor('t', []byte("Are you sure"), from, 3*time.Second) {
				return "the stop prompt was not shown"
			}
			time.Sleep(50 * time.Millisecond)
			x.cliIn.Write([]byte("\r")) // first item: stop and keep
			if !x.waitFor('s', []byte("#fail:"), from, 5*time.Second) {
				return "no stop message reached the server"
			}
			return ""
		}},
		{name: "stop-prompt-open-server-fails", run: func(x *c05F, work string, rng *rand.Rand) string {
			// the user presses ctrl-C (the stop prompt opens) and does not answer; meanwhile the
			// server gives up.  The session ends, the prompt is still on the screen.
			x.f.SetDefaultDownloadPath(work)
			if e := c05Handshake(x, 'S', "1.1.6", true); e != "" {
				return e
			}
			from := x.rec.length()
			x.svrOut.Write(c05EncLine("CFG", c05CFG))
			if !c05WaitBusy(x, 2*time.Second) {
				return "never entered the transfer state"
			}
			x.cliIn.Write([]byte{3})
			if !x.waitFor('t', []byte("Are you sure"), from, 3*time.Second) {
				return "the stop prompt was not shown"
			}
			x.svrOut.Write(c05EncLine("fail", "server gave up"))
			return ""
		}},
		{name: "refused-upload", run: func(x *c05F, work string, rng *rand.Rand) string {
			// no files given: the chooser (zenity; here a stand-in that exits 1 = Cancel) is asked
			return c05Handshake(x, 'R', "1.1.6", false)
		}},
		{name: "refused-download", run: func(x *c05F, work string, rng *rand.Rand) string {
			return c05Handshake(x, 'S', "1.1.6", false)
		}},
		{name: "garbage-instead-of-cfg", run: func(x *c05F, work string, rng *rand.Rand) string {
			x.f.SetDefaultDownloadPath(work)
			if e := c05Handshake(x, 'S', "1.1.6", true); e != "" {
				return e
			}
			from := x.rec.length()
			rnd := bytes.ReplaceAll(bytes.ReplaceAll(c05Random(rng), []byte("\r"), []byte("r")), []byte("\n"), []byte("n"))
			g := [][]byte{[]byte("bash: trz: command not found\n"), []byte("#CFG:!!!!not-base64\n"), []byte("#XYZ:abc\n"), append(rnd, '\n')}[rng.Intn(4)]
			x.svrOut.Write(g)
			if !x.waitFor('s', []byte("#FAIL:"), from, 3*time.Second) && !x.waitFor('s', []byte("#fail:"), from, 10*time.Millisecond) {
				return "the client did not report the bad handshake"
			}
			return ""
		}},
		{name: "garbage-crlf-then-timeout", run: func(x *c05F, work string, rng *rand.Rand) string {
			// a line ending in CR LF is skipped as junk while the client waits for CFG: the session
			// ends by the 20 s receive timeout
			x.f.SetDefaultDownloadPath(work)
			if e := c05Handshake(x, 'S', "1.1.6", true); e != "" {
				return e
			}
			from := x.rec.length()
			x.svrOut.Write([]byte("bash: tsz: command not found\r\n$ "))
			if !x.waitFor('s', []byte("#fail:"), from, 25*time.Second) && !x.waitFor('s', []byte("#FAIL:"), from, 10*time.Millisecond) {
				return "the client did not give up after its receive timeout"
			}
			return ""
		}},
	}
}

func genC05History(c *ctx) {
	work, _ := os.MkdirTemp("", "c05h_")
	defer os.RemoveAll(work)
	os.Setenv("TMPDIR", work)
	// a stand-in for the file chooser that always answers "Cancel"
	fake := filepath.Join(work, "bin")
	os.MkdirAll(fake, 0755)
	os.WriteFile(filepath.Join(fake, "zenity"), []byte("#!/bin/sh\nexit 1\n"), 0755)
	os.Setenv("PATH", fake+":"+os.Getenv("PATH"))
	c05InstallClipboard()
	// the probes contain OSC52-like fragments: do not take a live pump goroutine down with them
	for _, sq := range []string{"\x1b]52;c;QQ==\a", "\x1b]52;x;Q\x1b\\"} {
		b := []byte(sq)
		for i := 1; i < len(b); i++ {
			at := -1
			if pt := c05Catch(func() { _, _, _, at, _ = trzsz.VerifOSC52Scan([][]byte{b[:i], b[i:]}) }); pt != "" || at >= 0 {
				c05NoOSC52 = true
			}
		}
	}
	hs := c05Histories()
	paths := c05MakePaths(work)
	table := paths.table()
	reps := c.pick(2, 12)
	type job struct {
		h    c05Hist
		oi   int
		seed int64
		n    int
		// results
		scen, before, after string
		opts                trzsz.TrzszOptions
		args                []string // the model line (model-comparable histories)
		result              string
		winArgs             []string // the model line of the interrupt window (c05_window)
		winRes              string
	}
	var jobs []*job
	for r := 0; r < reps; r++ {
		for hi, h := range hs {
			if h.name == "garbage-crlf-then-timeout" && r > 0 && !c.thorough() {
				continue
			}
			jobs = append(jobs, &job{h: h, oi: (hi*5 + r*7 + c.rng.Intn(16)) % 16, seed: c.rng.Int63(), n: len(jobs)})
		}
	}
	// drag-and-drop histories (c05d.go): every stratum once per repetition; the key classes
	// typed after a drop are sampled in the quick tier (4 of them + ctrl-C) and complete in thorough
	var winJobs []*job
	for r := 0; r < c.pick(1, 4); r++ {
		if c05NoDrag {
			break
		}
		dh := append(c05DragHistories(), c05WindowHistories()...)
		keep := map[int]bool{}
		for _, k := range c.rng.Perm(len(c05Keys))[:4] {
			keep[k] = true
		}
		for hi, h := range dh {
			if hi < len(c05Keys) && !c.thorough() && !keep[hi] && h.name != "drag:drop-then-ctrl-c" {
				continue
			}
			jobs = append(jobs, &job{h: h, oi: 1 | (c.rng.Intn(2) << 2), seed: c.rng.Int63(), n: len(jobs)})
		}
	}
	for r := 0; r < c.pick(1, 3); r++ {
		for _, h := range c05WinHistories() {
			winJobs = append(winJobs, &job{h: h, oi: c.rng.Intn(16) &^ 1, seed: c.rng.Int63(), n: len(jobs) + len(winJobs)})
		}
	}
	runJob := func(j *job) {
		rng := rand.New(rand.NewSource(j.seed))
		o := c05Mask(c05Opts(j.oi))
		j.opts = o
		x := c05New(o)
		x.paths = paths
		w := filepath.Join(work, fmt.Sprint("h", j.n))
		os.MkdirAll(w, 0755)
		if j.h.drag {
			time.Sleep(30 * time.Millisecond) // drag detection is switched on by a goroutine
		}
		if j.h.model {
			j.before = x.probeTok(rng, o, 8)
		} else {
			j.before = x.probe(rng, o, 12)
		}
		j.scen = j.h.run(x, w, rng)
		if !c05WaitIdle(x, 15*time.Second) {
			j.scen += " | the filter never left the transfer state"
		}
		time.Sleep(150 * time.Millisecond) // late protocol lines of the handler (fail message) are not part of the probe
		x.svrOut.Write(nil)
		if j.h.model {
			j.after = x.probeTok(rng, o, 20)
			j.args = []string{c05Flags(o, false, true), "-", table, "-", hx([]byte(c05TraceOn)), hx([]byte(c05TraceOff)), strings.Join(x.toks, ",")}
			items := x.rec.snapshot()
			j.result = "-"
			if len(items) > 0 {
				j.result = strings.Join(items, ",")
			}
		} else if j.h.drag {
			j.after = x.probeTok(rng, o, 20)
		} else {
			j.after = x.probe(rng, o, 24)
		}
		if x.winOK {
			j.winArgs = []string{"0", hxs(x.winChunks)}
			j.winRes = fmt.Sprintf("%s|%d", hxs(x.winShown), x.winActs)
		}
		x.close()
	}
	parallelDo(len(jobs), 24, func(i int) { runJob(jobs[i]) })
	// SetAffectedByWindows is process-wide: its histories run in a phase of their own
	trzsz.SetAffectedByWindows(true)
	parallelDo(len(winJobs), 16, func(i int) { runJob(winJobs[i]) })
	trzsz.SetAffectedByWindows(false)
	jobs = append(jobs, winJobs...)
	for _, j := range jobs {
		c.note(j.h.name != "none", fmt.Sprintf("history %s options=%04b seed=%d => scenario=%q before=%q after=%q", j.h.name, j.oi, j.seed, j.scen, j.before, j.after))
		c.count("history:" + j.h.name)
		if j.args != nil {
			c.emit(true, "c05_run", j.result, j.args...)
		}
		if j.winArgs != nil {
			c.emit(true, "c05_window", j.winRes, j.winArgs...)
		}
		if j.before != "" {
			c.violate("probe-before:"+j.h.name, "a fresh wrapper did not pass a probe through", fmt.Sprintf("options=%04b seed=%d: %s", j.oi, j.seed, j.before))
		}
		if j.after != "" {
			c.violate("probe-after:"+j.h.name, "after a session that ended with '"+j.h.name+"' the wrapper is not transparent again",
				fmt.Sprintf("options=%04b seed=%d: %s", j.oi, j.seed, j.after))
		}
		if j.scen == "LATE" {
			c.count("history-inconclusive:" + j.h.name)
			j.scen = ""
		}
		if strings.HasPrefix(j.scen, "WINDOW: ") {
			// DIRECT ORACLE: detection comes before the drop of the 200 ms after the client's ctrl-C
			c.violate("interrupt-window:"+strings.TrimPrefix(j.h.name, "window:"), "server output in the 200 ms after the client's own ctrl-C: a fresh trigger must start exactly one transfer and be shown disarmed, other output of the window is hidden, afterwards everything passes",
				fmt.Sprintf("options=%04b seed=%d: %s", j.oi, j.seed, strings.TrimPrefix(j.scen, "WINDOW: ")))
		} else if strings.HasPrefix(j.scen, "REDISPLAY: ") {
			// DIRECT ORACLE: an old trigger displayed again is output like any other
			c.violate("redisplayed-trigger:"+j.h.name, "a trigger of a finished transfer that is displayed again is not passed through untouched (it starts a new transfer)",
				fmt.Sprintf("options=%04b seed=%d SetAffectedByWindows(true): %s", j.oi, j.seed, strings.TrimPrefix(j.scen, "REDISPLAY: ")))
		} else if j.scen != "" {
			c.violate("history-scenario:"+j.h.name, "the scripted session '"+j.h.name+"' did not take its expected course", fmt.Sprintf("options=%04b seed=%d: %s", j.oi, j.seed, j.scen))
		}
	}
}

// ---------------------------------------------------------------------------------------
// group "filter-exit": exit status of the wrapped command

func genC05Exit(c *ctx) {
	work, _ := os.MkdirTemp("", "c05x_")
	defer os.RemoveAll(work)
	repo := os.Getenv("VERIF_REPO")
	if repo == "" {
		repo = "/repo"
	}
	bin := filepath.Join(work, "trzsz")
	b := exec.Command("go", "build", "-o", bin, "./cmd/trzsz")
	b.Dir = repo
	if out, err := b.CombinedOutput(); err != nil {
		c.violate("exit-build", "cannot build cmd/trzsz", string(out))
		return
	}
	if _, err := os.Stat("/dev/ptmx"); err != nil {
		c.note(false, "no /dev/ptmx in this sandbox: exit-status clause not exercised")
		c.count("exit:no-pty")
		return
	}
	codes := []int{0, 1, 2, 7, 42, 126, 127, 128, 200, 255}
	reps := c.pick(3, 12)
	type res struct {
		code, got int
		out       string
		flag      string
	}
	var jobs []*res
	for r := 0; r < reps; r++ {
		for _, n := range codes {
			jobs = append(jobs, &res{code: n, flag: []string{"", "-d", "-z", "-o"}[(r+n)%4]})
		}
	}
	parallelDo(len(jobs), 8, func(i int) {
		j := jobs[i]
		var args []string
		if j.flag != "" {
			args = append(args, j.flag)
		}
		args = append(args, "sh", "-c", fmt.Sprintf("echo marker-%d; sleep 0.1; exit %d", j.code, j.code))
		cmd := exec.Command(bin, args...)
		stdin, _ := cmd.StdinPipe() // kept open: EOF on stdin makes the wrapper close the pty
		var out bytes.Buffer
		cmd.Stdout = &out
		cmd.Stderr = &out
		cmd.Env = append(os.Environ(), "HOME="+work)
		err := cmd.Run()
		stdin.Close()
		j.got = cmd.ProcessState.ExitCode()
		_ = err
		j.out = out.String()
	})
	for _, j := range jobs {
		c.note(j.code != 0, fmt.Sprintf("trzsz %s sh -c 'exit %d' => %d", j.flag, j.code, j.got))
		c.count(fmt.Sprintf("exit:%d", j.code))
		if j.got != j.code {
			c.violate(fmt.Sprintf("exit-status:%d", j.code), "the wrapped command's exit status was not passed on",
				fmt.Sprintf("trzsz %s sh -c 'exit %d' returned %d; output %q", j.flag, j.code, j.got, j.out))
		}
		if !strings.Contains(j.out, fmt.Sprintf("marker-%d", j.code)) {
			c.violate("exit-output-lost-with-pause", "output of the wrapped command (100 ms before it exits) did not reach the terminal",
				fmt.Sprintf("trzsz %s sh -c 'echo marker; sleep 0.1; exit %d' printed %q", j.flag, j.code, j.out))
		}
	}
	// output written immediately before the command exits: the wrapper returns as soon as the
	// child has been reaped, without draining the output pump
	n := c.pick(48, 400)
	lost := make([]bool, n)
	parallelDo(n, 8, func(i int) {
		cmd := exec.Command(bin, "sh", "-c", "echo last-words; exit 3")
		stdin, _ := cmd.StdinPipe()
		var out bytes.Buffer
		cmd.Stdout = &out
		cmd.Env = append(os.Environ(), "HOME="+work)
		cmd.Run()
		stdin.Close()
		lost[i] = !strings.Contains(out.String(), "last-words")
	})
	nl := 0
	for _, l := range lost {
		c.note(true, "trzsz sh -c 'echo last-words; exit 3'")
		if l {
			nl++
		}
	}
	c.stats["exit:last-words-runs"] = n
	c.stats["exit:last-words-lost"] = nl
	if nl > 0 {
		c.violate("exit-output-lost", "output written by the wrapped command just before it exits never reaches the terminal (the wrapper exits without draining the pty)",
			fmt.Sprintf("trzsz sh -c 'echo last-words; exit 3': output missing in %d of %d runs", nl, n))
	}
}
