package main

// Correspondence group "names" (C07, C09): the receiver's name handling.
//
// Every case builds a real directory tree  <case>/r/sb/{dest,outside,...}, runs a
// sequence of NAME messages / archive entry headers through the real functions
// (recvFileName over the wire, createFile, unmarshalSourceFile+createDirOrFile,
// archiveFileWriter.Write, deleteCreatedFiles, getNewName) and snapshots the WHOLE
// case directory before, after every message, and after the deletion.  The snapshots
// are turned into an effect list and compared with the model's effect log, together
// with accept/reject and chosen name per message, createdFiles, the deleted list and
// the final tree.  Direct oracles: nothing outside dest changes; with overwrite off
// nothing that existed changes; names reported = names created.

import (
	"encoding/hex"
	"encoding/json"
	"fmt"
	"os"
	"path/filepath"
	"sort"
	"strconv"
	"strings"
	"time"

	"github.com/trzsz/trzsz-go/trzsz"
)

func init() { groups["names"] = genNames }

type c09Ent struct {
	dir   bool
	data  string
	mtime int64
}

type c09Snap map[string]c09Ent

func c09Snapshot(root string) c09Snap {
	s := c09Snap{}
	filepath.WalkDir(root, func(p string, d os.DirEntry, err error) error {
		if err != nil || p == root {
			return nil
		}
		rel, _ := filepath.Rel(root, p)
		info, err := os.Lstat(p)
		if err != nil {
			return nil
		}
		if info.IsDir() {
			s[rel] = c09Ent{dir: true}
		} else {
			b, _ := os.ReadFile(p)
			s[rel] = c09Ent{data: string(b), mtime: info.ModTime().UnixNano()}
		}
		return nil
	})
	return s
}

func c09HexPath(rel string) string {
	if rel == "" || rel == "." {
		return ""
	}
	parts := strings.Split(rel, "/")
	for i, p := range parts {
		parts[i] = hex.EncodeToString([]byte(p))
	}
	return strings.Join(parts, "/")
}

func (s c09Snap) listing() string {
	var ents []string
	for rel, e := range s {
		if e.dir {
			ents = append(ents, "d:"+c09HexPath(rel))
		} else {
			ents = append(ents, "f:"+c09HexPath(rel)+":"+hx([]byte(e.data)))
		}
	}
	sort.Strings(ents)
	return strings.Join(ents, ",")
}

// diff: created (absent before), touched (file in both, content or mtime changed,
// or type changed), removed
func c09Diff(a, b c09Snap) (created, touched, removed []string) {
	for rel, e := range b {
		o, ok := a[rel]
		if !ok {
			created = append(created, rel)
		} else if o.dir != e.dir || (!e.dir && (o.data != e.data || o.mtime != e.mtime)) {
			touched = append(touched, rel)
		}
	}
	for rel := range a {
		if _, ok := b[rel]; !ok {
			removed = append(removed, rel)
		}
	}
	sort.Strings(created)
	sort.Strings(touched)
	sort.Strings(removed)
	return
}

var c09Old = time.Date(2001, 2, 3, 4, 5, 6, 0, time.UTC)

// SAFETY: every case lives in a private os.MkdirTemp root, 11 directory levels above the
// destination; no generated name has more than 6 ".." components and absolute hostile names
// point inside that root, so that even on a tree WITHOUT the validation (or a mutated one)
// every effect stays inside the root.  The whole root is snapshotted.
const c09Fill = "l1/l2/l3/l4/l5/l6/l7/l8"
const c09DestRel = c09Fill + "/r/sb/dest"

// absolute hostile name, set to a path inside the private root
var c09Abs = "/nonexistent-c09/abs-x"

type c09Pre struct {
	rel  string // relative to dest
	dir  bool
	data string
}

func c09Long(n int, ch byte) string { return strings.Repeat(string(ch), n) }

// names used both for pre-existing entries and for incoming names, so that they collide
func (c *ctx) c09Pool() []string {
	return []string{"a", "b", "f.txt", "d", "x", ".bashrc", "ü中", "sp ace", "a.0", "a.1", "b.0", "...",
		"..a", "a..", "-", c09Long(254, 'L'), c09Long(255, 'M'), c09Long(253, 'K'), c09Long(251, 'J')}
}

func (c *ctx) c09Clean() string {
	p := c.c09Pool()
	if c.rng.Intn(3) > 0 {
		return p[c.rng.Intn(6)]
	}
	return p[c.rng.Intn(len(p))]
}

var c09Hostile = []string{"..", ".", "", "../evil", "../../evil", "a/../..", "a/../../evil", "\x01ABS", "/", "a/b", "..\\x",
	"x\x00y", "../outside/keep", "./a", "a/.", "a/", "/a", "//", "../dest/a", "..", "../..", "../../..", "a/../b"}

func (c *ctx) c09HostileName() string {
	switch c.rng.Intn(8) {
	case 0:
		return c09Long(256, 'Z')
	case 1:
		return c09Long(300, 'Y')
	case 2:
		b := make([]byte, 1+c.rng.Intn(5))
		alphabet := "./.a\\\x00 \xff"
		for i := range b {
			b[i] = alphabet[c.rng.Intn(len(alphabet))]
		}
		return string(b)
	}
	h := c09Hostile[c.rng.Intn(len(c09Hostile))]
	if h == "\x01ABS" {
		return c09Abs
	}
	return h
}

// random pre-state below dest
func (c *ctx) c09PreState(kind int) []c09Pre {
	var out []c09Pre
	seen := map[string]bool{}
	add := func(rel string, dir bool, data string) {
		if seen[rel] {
			return
		}
		// parents first
		if i := strings.LastIndexByte(rel, '/'); i > 0 {
			par := rel[:i]
			if !seen[par] {
				seen[par] = true
				out = append(out, c09Pre{par, true, ""})
			}
		}
		seen[rel] = true
		out = append(out, c09Pre{rel, dir, data})
	}
	pool := c.c09Pool()
	switch kind {
	case 0: // empty destination
	case 1: // full series for one name: name, name.0 .. name.999
		nm := []string{"a", "f.txt", c09Long(251, 'J')}[c.rng.Intn(3)]
		gap := -1
		if c.rng.Intn(2) == 0 {
			gap = c.rng.Intn(1000)
		}
		add(nm, c.rng.Intn(3) == 0, "old")
		for i := 0; i < 1000; i++ {
			if i == gap {
				continue
			}
			add(nm+"."+strconv.Itoa(i), false, "")
		}
	default:
		n := 1 + c.rng.Intn(7)
		for i := 0; i < n; i++ {
			nm := pool[c.rng.Intn(len(pool))]
			if c.rng.Intn(2) == 0 {
				nm = pool[c.rng.Intn(6)]
			}
			switch c.rng.Intn(5) {
			case 0, 1:
				add(nm, false, "old-"+strconv.Itoa(c.rng.Intn(100)))
			case 2:
				add(nm, true, "")
			case 3: // a directory with content: file where dir is needed / dir where file is needed one level down
				add(nm, true, "")
				sub := pool[c.rng.Intn(6)]
				add(nm+"/"+sub, c.rng.Intn(2) == 0, "oldsub")
			case 4: // series with gaps
				for k := 0; k < 4; k++ {
					if c.rng.Intn(3) > 0 {
						add(nm+"."+strconv.Itoa(k), c.rng.Intn(4) == 0, "s")
					}
				}
				add(nm, false, "base")
			}
		}
	}
	return out
}

type c09Src struct {
	PathID  any      `json:"path_id"`
	RelPath []string `json:"path_name"`
	IsDir   bool     `json:"is_dir"`
	Archive bool     `json:"archive"`
	Size    int64    `json:"size"`
	Perm    *uint32  `json:"perm,omitempty"`
}

var c09Malformed = []string{"", "{", "[]", "null", `{"path_name":"x"}`, `{"path_name":[]}`, `{}`, `{"path_id":"x","path_name":["a"]}`,
	`{"path_id":1.5,"path_name":["a"]}`, `{"path_name":null,"is_dir":true}`, `{"path_name":[1]}`, `a`, `"a"`}

// one JSON NAME record; hostile controls the chance of a bad element
func (c *ctx) c09JSON(hostile bool, entry bool, payload []byte) (string, bool) {
	if c.rng.Intn(25) == 0 {
		return c09Malformed[c.rng.Intn(len(c09Malformed))], true
	}
	n := 1 + c.rng.Intn(3)
	if c.rng.Intn(6) == 0 {
		n = 4
	}
	rel := make([]string, n)
	for i := range rel {
		rel[i] = c.c09Clean()
	}
	isHostile := false
	if hostile {
		k := 1
		if c.rng.Intn(4) == 0 {
			k = 2
		}
		for ; k > 0; k-- {
			rel[c.rng.Intn(n)] = c.c09HostileName()
		}
		if c.rng.Intn(6) == 0 { // the classic: a, .., .., evil
			rel = []string{"a", "..", "..", "evil"}
		}
		isHostile = true
	}
	s := c09Src{PathID: c.rng.Intn(3), RelPath: rel}
	switch c.rng.Intn(6) {
	case 0, 1:
		s.IsDir = true
	case 2:
		s.IsDir = true
		s.Archive = true
	case 3:
		if c.rng.Intn(4) == 0 {
			s.Archive = true // archive that is not a directory
		}
	}
	if !s.IsDir {
		s.Size = int64(len(payload))
	}
	if c.rng.Intn(4) == 0 {
		perm := uint32([]int{0644, 0755, 0, 0400, 0777}[c.rng.Intn(5)])
		s.Perm = &perm
	}
	js, _ := json.Marshal(s)
	return string(js), isHostile
}

func c09DecArg(raw string) (string, bool, bool) {
	id, rel, isDir, arch, _, ok := trzsz.VerifDecodeSourceFile(raw)
	if !ok {
		return "x", false, false
	}
	r := "!"
	if len(rel) > 0 {
		parts := make([]string, len(rel))
		for i, e := range rel {
			parts[i] = hex.EncodeToString([]byte(e))
		}
		r = strings.Join(parts, ".")
	}
	b := func(x bool) string {
		if x {
			return "1"
		}
		return "0"
	}
	return fmt.Sprintf("%d;%s;%s;%s", id, b(isDir), b(arch), r), isDir, arch
}

// probes whether the tree under test validates names (unmarshalSourceFile, createFile)
func c09Probe(work string) (bool, bool) {
	d := filepath.Join(work, "probe")
	os.MkdirAll(d, 0755)
	defer os.RemoveAll(d)
	v := trzsz.VerifNamesNew(true, true, 3)
	_, _, errU := v.RecvNameV3(d, `{"path_id":0,"path_name":["."],"is_dir":true}`, nil)
	w := trzsz.VerifNamesNew(false, false, 2)
	_, errC := w.CreateFile(d, ".", true, []byte("p"))
	return errU != nil, errC != nil
}

func c09B(x bool) string {
	if x {
		return "1"
	}
	return "0"
}

func genNames(c *ctx) {
	work, err := os.MkdirTemp("", "c09names")
	if err != nil {
		panic(err)
	}
	defer os.RemoveAll(work)
	c09Abs = filepath.Join(work, "l1", "abs-x")
	c09WorkHex = hex.EncodeToString([]byte(work))
	os.MkdirAll(filepath.Join(work, c09Fill), 0755)
	chkU, chkC := c09Probe(filepath.Join(work, c09Fill))
	os.RemoveAll(filepath.Join(work, "l1"))
	c.count(fmt.Sprintf("tree:validates-json=%v,validates-plain=%v", chkU, chkC))

	// ---- filepath.Join itself vs the model's join
	nj := c.pick(400, 4000)
	for i := 0; i < nj; i++ {
		base := []string{}
		for k := c.rng.Intn(4); k > 0; k-- {
			base = append(base, []string{"r", "sb", "dest", "a"}[c.rng.Intn(4)])
		}
		var elems []string
		for k := c.rng.Intn(5); k > 0; k-- {
			if c.rng.Intn(2) == 0 {
				elems = append(elems, c.c09HostileName())
			} else {
				elems = append(elems, []string{"a", "b", "..", ".", "", "x.y"}[c.rng.Intn(6)])
			}
		}
		got := filepath.Join(append([]string{"/" + strings.Join(base, "/")}, elems...)...)
		parts := make([]string, len(elems))
		for k, e := range elems {
			parts[k] = hex.EncodeToString([]byte(e))
		}
		ea := "!"
		if len(elems) > 0 {
			ea = strings.Join(parts, ".")
		}
		ba := c09HexPath(strings.Join(base, "/"))
		if ba == "" {
			ba = "-"
		}
		c.emit(len(elems) > 0, "names_join", c09HexPath(strings.TrimPrefix(got, "/")), ba, ea)
	}

	ncases := c.pick(1400, 14000)
	nseries := c.pick(10, 60)
	nchain := c.pick(10, 60)
	for ci := 0; ci < ncases; ci++ {
		root := work
		dest := filepath.Join(root, c09DestRel)
		os.MkdirAll(dest, 0755)
		os.MkdirAll(filepath.Join(root, c09Fill, "r/sb/outside"), 0755)
		os.WriteFile(filepath.Join(root, c09Fill, "r/sb/outside/keep"), []byte("keep"), 0644)
		os.WriteFile(filepath.Join(root, c09Fill, "r/sb/evil"), []byte("orig-evil"), 0644)
		os.WriteFile(filepath.Join(root, c09Fill, "r/evil"), []byte("orig-evil-2"), 0644)
		kind := 2
		// chain cases: ONE name (with fmt verbs in it) arrives again and again, and/or the destination
		// already holds name, name.0 .. name.(L-1): the counter of the fresh name goes far beyond 47
		// and into two and three digits
		chainName, chainLen := "", 0
		chainMsgs, seriesGap, seriesFull := 0, -1, false
		if ci < nseries {
			// series cases: name, name.0 .. name.999 are ALL there (files, some of them directories), or all
			// but one (the gap must be used); the messages ask for exactly that name: plain file, directory,
			// path list below it.  Exhaustion must fail and touch nothing.
			kind = 0
			seriesFull = true
			chainName = []string{"a", "f.txt", "%d", c09Long(251, 'J'), "d"}[ci%5]
			if ci >= 4 { // the first four series of a run are complete, the others have exactly one gap
				seriesGap = []int{0, 1, 9, 10, 99, 100, 998, 999, c.rng.Intn(1000)}[c.rng.Intn(9)]
				if ci == 4 {
					seriesGap = 999 // the last candidate is always tried in some case
				} else if ci == 5 {
					seriesGap = 0
				}
			}
			chainMsgs = 2 + c.rng.Intn(3)
			c.count("pre:full-series")
			if seriesGap >= 0 {
				c.count("pre:series-with-one-gap")
			}
			lastDir := c.rng.Intn(2) == 0
			if c.rng.Intn(3) == 0 {
				os.Mkdir(filepath.Join(dest, chainName), 0755)
			} else {
				os.WriteFile(filepath.Join(dest, chainName), []byte("series-base"), 0644)
			}
			for k := 0; k < 1000; k++ {
				if k == seriesGap {
					continue
				}
				p := filepath.Join(dest, chainName+"."+strconv.Itoa(k))
				if (k == 999 && lastDir) || (k < 999 && c.rng.Intn(50) == 0) {
					os.Mkdir(p, 0755)
				} else {
					os.WriteFile(p, []byte("s"), 0644)
				}
			}
		} else if ci < nseries+nchain {
			kind = 0
			chainName = c09ChainNames[(ci-nseries)%len(c09ChainNames)]
			chainLen = []int{0, 0, 0, 12, 47, 48, 60, 101}[c.rng.Intn(8)]
			if (ci-nseries) < 2 {
				chainLen = 0
			}
			c.count("pre:chain")
		} else if c.rng.Intn(8) == 0 {
			kind = 0
		}
		if chainLen > 0 {
			os.WriteFile(filepath.Join(dest, chainName), []byte("chain-base"), 0644)
			for k := 0; k < chainLen; k++ {
				os.WriteFile(filepath.Join(dest, chainName+"."+strconv.Itoa(k)), nil, 0644)
			}
		}
		for _, p := range c.c09PreState(kind) {
			full := filepath.Join(dest, p.rel)
			if p.dir {
				os.MkdirAll(full, 0755)
			} else {
				os.MkdirAll(filepath.Dir(full), 0755)
				os.WriteFile(full, []byte(p.data), 0644)
			}
		}
		filepath.WalkDir(root, func(p string, d os.DirEntry, err error) error {
			if err == nil && !d.IsDir() {
				os.Chtimes(p, c09Old, c09Old)
			}
			return nil
		})
		pre := c09Snapshot(root)

		overwrite := c.rng.Intn(2) == 0
		directory := c.rng.Intn(2) == 0
		v3 := c.rng.Intn(3) == 0
		del := c.rng.Intn(3) == 0
		proto := 2
		if v3 {
			proto = 3 + c.rng.Intn(2)
		}
		hostileCase := c.rng.Intn(3) == 0
		if chainName != "" {
			overwrite, hostileCase = false, false
			if v3 && !seriesFull {
				v3, proto = false, 2
			}
		}
		v := trzsz.VerifNamesNew(overwrite, directory, proto)

		nm := 1 + c.rng.Intn(6)
		if chainName != "" && chainLen == 0 {
			nm = 52 + c.rng.Intn(14)
		}
		if chainMsgs > 0 {
			nm = chainMsgs
		}
		var margs, results []string
		var reported []string
		allOK := true
		nontrivial := false
		foreign := false
		idName := map[string]string{}
		idsSeen := map[string]bool{}
		cur := pre
		for mi := 0; mi < nm; mi++ {
			payload := []byte(fmt.Sprintf("P%d-%d", ci, mi))
			hostile := hostileCase && c.rng.Intn(2) == 0
			entry := v.HasArchive() && c.rng.Intn(3) > 0 && chainName == ""
			var raw string
			jsonMode := entry || directory || v3
			if chainName != "" && jsonMode && seriesFull {
				switch c.rng.Intn(3) {
				case 0:
					raw = c07rJSON(mi, []string{chainName}, false, false, len(payload))
				case 1:
					raw = c07rJSON(mi, []string{chainName}, true, false, 0)
				default:
					raw = c07rJSON(mi, []string{chainName, "below.txt"}, false, false, len(payload))
				}
			} else if chainName != "" && jsonMode {
				raw = c07rJSON(mi, []string{chainName}, false, false, len(payload))
			} else if chainName != "" {
				raw = chainName
			} else if jsonMode {
				raw, _ = c.c09JSON(hostile, entry, payload)
			} else if hostile {
				raw = c.c09HostileName()
			} else {
				raw = c.c09Clean()
			}
			dec, isDir, _ := "x", false, false
			if jsonMode {
				dec, isDir, _ = c09DecArg(raw)
			}
			if entry && (isDir || dec == "x") {
				payload = nil
			}
			var res string
			var err error
			var local string
			key := fmt.Sprintf("ow=%v,dir=%v,v3=%v,entry=%v,name=%s", overwrite, directory, v3, entry, hx([]byte(raw)))
			if chainName != "" {
				key = fmt.Sprintf("ow=%v,dir=%v,chain=%s,existing=%d,arrival=%d", overwrite, directory, hx([]byte(chainName)), chainLen, mi+1)
				if seriesFull {
					key = fmt.Sprintf("ow=%v,dir=%v,v3=%v,series=%s,gap=%d,arrival=%d,record=%s", overwrite, directory, v3, hx([]byte(chainName)), seriesGap, mi+1, hx([]byte(raw)))
				}
			}
			switch {
			case entry:
				err = v.ArchiveEntry(raw, payload)
				res = "ok"
				c.count("msg:archive-entry")
			case v3:
				local, _, err = v.RecvNameV3(dest, raw, payload)
				res = "ok:" + hex.EncodeToString([]byte(local))
				c.count("msg:json-v3")
			case !directory && c.rng.Intn(2) == 0:
				local, err = v.CreateFile(dest, raw, true, payload)
				res = "ok:" + hex.EncodeToString([]byte(local))
				c.count("msg:plain-createFile")
			default:
				var rep string
				local, rep, _, err = v.RecvName(dest, raw, payload)
				res = "ok:" + hex.EncodeToString([]byte(local))
				if err == nil && rep != local {
					c09Violate(c, "reported:"+key, "name reported to the peer differs from the name used",
						fmt.Sprintf("%s: SUCC carried %q, local name %q", key, rep, local))
				}
				if directory {
					c.count("msg:json-wire")
				} else {
					c.count("msg:plain-wire")
				}
			}
			if err != nil {
				res = "err"
				allOK = false
				nontrivial = true
				c.count("result:reject")
			} else {
				c.count("result:accept")
				if !entry {
					reported = append(reported, local)
					if local != raw && !jsonMode {
						nontrivial = true
						c.count("result:renamed")
					}
				}
			}
			if hostile {
				c.count("msg:hostile")
			}
			k := "n"
			if entry {
				k = "e"
			}
			margs = append(margs, fmt.Sprintf("%s:%s:%s:%s", k, hx([]byte(raw)), dec, hx(payload)))
			results = append(results, res)

			// ---- direct oracles, per message
			if seriesFull && seriesGap >= 0 && mi == 0 && err != nil {
				// the series has exactly one free candidate: the first arrival must get it
				c09Violate(c, fmt.Sprintf("gap-unused:ow=%v,dir=%v,v3=%v,series=%s,gap=%d,record=%s", overwrite, directory, v3, hx([]byte(chainName)), seriesGap, hx([]byte(raw))),
					"one candidate of name, name.0 .. name.999 is free and the name is refused",
					fmt.Sprintf("series of %q complete except %q: record %q refused (%v)", chainName, chainName+"."+strconv.Itoa(seriesGap), raw, err))
			}
			// the fresh name is the requested name or name.N, N the first decimal counter whose
			// candidate is not there (C07) - whatever bytes the name consists of
			if !overwrite && err == nil && !entry {
				want := raw
				if jsonMode {
					want = ""
					if _, rel, _, _, _, ok := trzsz.VerifDecodeSourceFile(raw); ok && len(rel) > 0 {
						// only for a path id this receiver has not seen in any earlier message (a refused
						// record or an archive entry may have reserved a name for it already)
						if id := dec[:strings.IndexByte(dec, ';')]; !idsSeen[id] {
							want = rel[0]
						}
					}
				}
				if want != "" && !strings.ContainsRune(want, 0) && want != "." && want != ".." && !strings.Contains(want, "/") {
					if what := c09FreshShape(cur, want, local); what != "" {
						c09Violate(c, "fresh-shape:"+key, "the local name is not the first free one of name, name.0, name.1, ...",
							fmt.Sprintf("%s: requested %q, stored as %q: %s", key, want, local, what))
					}
				}
			}
			if jsonMode && dec != "x" {
				idsSeen[dec[:strings.IndexByte(dec, ';')]] = true
			}
			now := c09Snapshot(root)
			cr, to, rm := c09Diff(cur, now)
			for _, rel := range append(append(append([]string{}, cr...), to...), rm...) {
				if !strings.HasPrefix(rel, c09DestRel+"/") {
					c09Violate(c, "outside:"+key, "a path outside the destination was created, changed or removed",
						fmt.Sprintf("%s: %q changed (destination %q)", key, rel, c09DestRel))
				}
			}
			if !overwrite {
				for _, rel := range append(append([]string{}, to...), rm...) {
					if _, existed := pre[rel]; existed {
						c09Violate(c, "touched:"+key, "overwrite is off and a pre-existing path was changed",
							fmt.Sprintf("%s: %q existed before the transfer and was modified or removed", key, rel))
					}
				}
			}
			if err != nil && (chkU || chkC) && len(cr)+len(to)+len(rm) > 0 && c09IsHostileRaw(raw, dec, jsonMode) {
				c09Violate(c, "reject-effect:"+key, "a refused hostile name had an effect", fmt.Sprintf("%s: created %v touched %v", key, cr, to))
			}
			// one fresh name per path id: everything an accepted record does lies under the
			// name first chosen for its path id
			if !overwrite && jsonMode && err == nil && dec != "x" {
				id := dec[:strings.IndexByte(dec, ';')]
				want, known := idName[id]
				if !known && !entry {
					idName[id] = local
					want, known = local, true
				}
				if known {
					if !entry && local != want {
						c09Violate(c, "split:"+key, "two records with one path id were given different names",
							fmt.Sprintf("%s: path id %s was stored under %q before, now under %q", key, id, want, local))
					}
					for _, rel := range append(append([]string{}, cr...), to...) {
						if rel != c09DestRel+"/"+want && !strings.HasPrefix(rel, c09DestRel+"/"+want+"/") {
							c09Violate(c, "split:"+key, "a record was stored outside the name chosen for its path id",
								fmt.Sprintf("%s: path id %s belongs under %q but %q was created or changed", key, id, want, rel))
						}
					}
				}
			}
			if entry && err == nil {
				// an archive entry whose top-level name is not the archive's own: created, never reported
				for _, rel := range cr {
					rest := strings.TrimPrefix(rel, c09DestRel+"/")
					if rest != rel && !strings.Contains(rest, "/") && !c09ContainsStr(reported, rest) {
						foreign = true
						c.count("finding:archive-entry-under-unreported-top-level-name")
					}
				}
			}
			cur = now
		}
		mid := cur
		created := v.CreatedFiles()
		// names reported = top-level names created (all messages accepted)
		if allOK {
			top := map[string]bool{}
			for rel := range mid {
				if _, existed := pre[rel]; !existed && strings.HasPrefix(rel, c09DestRel+"/") {
					rest := strings.TrimPrefix(rel, c09DestRel+"/")
					if !strings.Contains(rest, "/") {
						top[rest] = true
					}
				}
			}
			rep := map[string]bool{}
			for _, r := range reported {
				rep[r] = true
			}
			key := fmt.Sprintf("ow=%v,dir=%v,v3=%v,msgs=%s", overwrite, directory, v3, strings.Join(margs, ","))
			for n := range top {
				if !rep[n] && !foreign {
					c09Violate(c, "unreported:"+key, "a top-level name was created but not reported", fmt.Sprintf("%s: %q", key, n))
				}
			}
			if !overwrite {
				for n := range rep {
					if !top[n] {
						c09Violate(c, "phantom:"+key, "a name was reported but no such new top-level entry exists", fmt.Sprintf("%s: %q", key, n))
					}
				}
			}
		}
		var deleted []string
		final := mid
		if del {
			deleted = v.DeleteCreatedFiles()
			final = c09Snapshot(root)
			_, to, rm := c09Diff(mid, final)
			key := fmt.Sprintf("delete,ow=%v,dir=%v,v3=%v,msgs=%s", overwrite, directory, v3, strings.Join(margs, ","))
			for _, rel := range append(append([]string{}, to...), rm...) {
				if !strings.HasPrefix(rel, c09DestRel+"/") {
					c09Violate(c, "outside:"+key, "deleteCreatedFiles removed or changed a path outside the destination", fmt.Sprintf("%s: %q", key, rel))
				}
				if _, existed := pre[rel]; existed && !overwrite {
					c09Violate(c, "touched:"+key, "overwrite is off and deleteCreatedFiles removed a pre-existing path", fmt.Sprintf("%s: %q", key, rel))
				}
			}
			if len(deleted) > 0 {
				nontrivial = true
				c.count("delete:removed-something")
			}
		}

		// ---- canonical observation, compared with the model
		relOf := func(abs string) string {
			rel, err := filepath.Rel(root, abs)
			if err != nil || strings.HasPrefix(rel, "..") {
				return "OUTSIDE-CASE-ROOT"
			}
			return c09HexPath(rel)
		}
		var cl, dl []string
		for _, p := range created {
			cl = append(cl, relOf(p))
		}
		for _, p := range deleted {
			dl = append(dl, relOf(p))
		}
		cr, to, _ := c09Diff(pre, mid)
		var eff []string
		for _, r := range cr {
			eff = append(eff, "c:"+c09HexPath(r))
		}
		for _, r := range to {
			eff = append(eff, "w:"+c09HexPath(r))
		}
		sort.Strings(eff)
		_, _, rm := c09Diff(mid, final)
		for i := range rm {
			rm[i] = c09HexPath(rm[i])
		}
		sort.Strings(rm)
		obs := fmt.Sprintf("R=%s|C=%s|E=%s|F=%s|D=%s|X=%s|G=%s", strings.Join(results, ","), strings.Join(cl, ";"),
			strings.Join(eff, ","), mid.listing(), strings.Join(dl, ";"), strings.Join(rm, ","), final.listing())
		flags := c09B(overwrite) + c09B(directory) + c09B(v3) + c09B(chkU) + c09B(chkC) + c09B(del)
		prearg := pre.listing()
		if seriesFull {
			nontrivial = true
		}
		if len(cr) > 0 {
			for _, r := range cr {
				if strings.Contains(filepath.Base(r), ".") && !strings.Contains(strings.Join(margs, ","), hex.EncodeToString([]byte(filepath.Base(r)))) {
					nontrivial = true
				}
			}
		}
		c.emit(nontrivial, "names_run", obs, flags, c09HexPath(c09DestRel), prearg, strings.Join(margs, ","))
		os.RemoveAll(filepath.Join(root, "l1"))
	}

	// ---- getNewName alone on series with gaps and long names
	ng := c.pick(150, 1500)
	for i := 0; i < ng; i++ {
		root := work
		dest := filepath.Join(root, c09DestRel)
		os.MkdirAll(dest, 0755)
		base := []string{"a", c09Long(252, 'q'), c09Long(253, 'q'), c09Long(254, 'q'), c09Long(255, 'q'), c09Long(256, 'q'), "x.0", "é"}[c.rng.Intn(8)]
		if c.rng.Intn(3) > 0 {
			os.WriteFile(filepath.Join(dest, base), []byte("b"), 0644)
		}
		top := c.rng.Intn(14)
		for k := 0; k < top; k++ {
			if c.rng.Intn(5) > 0 {
				p := filepath.Join(dest, base+"."+strconv.Itoa(k))
				if c.rng.Intn(4) == 0 {
					os.Mkdir(p, 0755)
				} else {
					os.WriteFile(p, nil, 0644)
				}
			}
		}
		name := base
		if c.rng.Intn(6) == 0 {
			name = c.c09HostileName()
		}
		pre := c09Snapshot(root)
		got, err := trzsz.VerifGetNewName(dest, name)
		res := "ok:" + hex.EncodeToString([]byte(got))
		if err != nil {
			res = "err"
		}
		c.emit(got != name, "names_new", res, c09HexPath(c09DestRel), pre.listing(), hx([]byte(name)))
		os.RemoveAll(filepath.Join(root, "l1"))
	}
}

// is the raw name one the validation is documented to refuse?
func c09IsHostileRaw(raw, dec string, jsonMode bool) bool {
	bad := func(s string) bool {
		return s == "" || s == "." || s == ".." || strings.Contains(s, "/")
	}
	if !jsonMode {
		return bad(raw)
	}
	_, rel, _, _, _, ok := trzsz.VerifDecodeSourceFile(raw)
	if !ok {
		return true
	}
	for _, e := range rel {
		if bad(e) {
			return true
		}
	}
	return len(rel) == 0
}

func c09ContainsStr(l []string, x string) bool {
	for _, e := range l {
		if e == x {
			return true
		}
	}
	return false
}

// Group "names07" (C07 only): the one place where the names reported to the user differ
// from the names created — an archive entry header whose path id is not the archive's
// own.  archiveFileWriter.Write drops the local name createDirOrFile chose for it.
func init() { groups["names07"] = genNames07 }

func genNames07(c *ctx) {
	root, err := os.MkdirTemp("", "c09names07")
	if err != nil {
		panic(err)
	}
	dest := filepath.Join(root, c09DestRel)
	os.MkdirAll(dest, 0755)
	defer os.RemoveAll(root)
	for _, overwrite := range []bool{false, true} {
		os.RemoveAll(dest)
		os.MkdirAll(dest, 0755)
		v := trzsz.VerifNamesNew(overwrite, true, 2)
		name := `{"path_id":0,"path_name":["d"],"is_dir":true,"archive":true}`
		entry := `{"path_id":7,"path_name":["other","x"],"is_dir":false,"archive":false,"size":1}`
		_, rep, isArch, err := v.RecvName(dest, name, nil)
		if err != nil || !isArch {
			c.count("names07:archive-record-refused")
			continue
		}
		if err := v.ArchiveEntry(entry, []byte("!")); err != nil {
			c.count("names07:foreign-entry-refused")
			continue
		}
		ents, _ := os.ReadDir(dest)
		for _, e := range ents {
			if e.Name() != rep {
				c09Violate(c, "archive-entry-foreign-top-level",
					"a top-level name was created by an archive entry but is not among the names reported to the user",
					fmt.Sprintf("overwrite=%v NAME %s (reported %q) then archive entry header %s: %q created in the destination", overwrite, name, rep, entry, e.Name()))
			}
		}
		c.count("names07:foreign-entry-accepted")
		// and the model agrees on what a later collision with that name would be renamed to
		snap := c09Snapshot(root)
		got, gerr := trzsz.VerifGetNewName(dest, "other")
		res := "ok:" + hex.EncodeToString([]byte(got))
		if gerr != nil {
			res = "err"
		}
		c.emit(true, "names_new", res, c09HexPath(c09DestRel), snap.listing(), hx([]byte("other")))
	}
}

// at most three reported inputs per oracle (the kind is the key's prefix up to ':')
var c09ViolCount = map[string]int{}

// hex of the private root, removed from keys so that they do not depend on the temp name
var c09WorkHex = "\x00"

func c09Violate(c *ctx, key, what, detail string) {
	key = strings.ReplaceAll(key, c09WorkHex, "524f4f54")
	kind := key
	if i := strings.IndexByte(key, ':'); i >= 0 {
		kind = key[:i]
	}
	if c09ViolCount[kind] >= 3 {
		c.count("violations-suppressed:" + kind)
		return
	}
	c09ViolCount[kind]++
	c.violate(key, what, detail)
}

// names with fmt verbs in them (all single path elements checkFileName accepts), plus two ordinary ones
var c09ChainNames = []string{"..%[1]c..%[1]cpc09", "a", "%d", "x%cy", "100%%", "%[1]c%[1]c", "q%sq", "%v.txt", "%5d", "..%c", "f.txt", "%[1]d.%[1]d", "%x%X%o", "..%[1]c..%[1]c..%[1]cz"}

// c09FreshShape: "" if local is want or want.N (N decimal, 0..999, no leading zero) and every
// earlier candidate is blocked (present in the snapshot of the destination, or longer than NAME_MAX)
func c09FreshShape(cur c09Snap, want, local string) string {
	blocked := func(cand string) bool {
		if len(cand) > 255 {
			return true
		}
		_, ok := cur[c09DestRel+"/"+cand]
		return ok
	}
	if local == want {
		if blocked(want) {
			return "the requested name existed and was used nevertheless"
		}
		return ""
	}
	if !strings.HasPrefix(local, want+".") {
		return "not of the form name.N"
	}
	suffix := local[len(want)+1:]
	k, err := strconv.Atoi(suffix)
	if err != nil || k < 0 || k > 999 || strconv.Itoa(k) != suffix {
		return fmt.Sprintf("the counter %q is not a decimal number 0..999", suffix)
	}
	if !blocked(want) {
		return "the requested name was free"
	}
	if blocked(local) {
		return "the chosen name existed already (an exhausted series must fail, never reuse)"
	}
	for j := 0; j < k; j++ {
		if !blocked(want + "." + strconv.Itoa(j)) {
			return fmt.Sprintf("%s.%d was free", want, j)
		}
	}
	return ""
}
