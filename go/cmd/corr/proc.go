package main

// group "proc": sanity check of the skeleton translator (go/cmd/gen/skel_*.go) and of the
// prediction of the well-formedness check.
//
//   proc_counts <net>   : goroutines, channels, defer-closed channels, range-over-channel loops
//                         and the sorted channel capacities, counted here by a plain name-based
//                         go/ast walk over the source, vs the same numbers computed by the
//                         extracted model from the generated net.
//   proc_faults <net>   : "every `return` of a stage goroutine that is not behind ctx.Done() /
//                         ctx.Err() and does not follow a result send is directly preceded by
//                         a call of cancel", the number of `defer ...cancel(nil)` and the number
//                         of error tests separated from their operation by a select, decided
//                         here by a plain go/ast walk, vs faults_cancel / the counts computed
//                         by the extracted model from the generated net.
//   proc_can_leak send  : the real sender against a peer that falls silent during the
//                         buffer-size probing phase: are pipeline goroutines still alive one
//                         second after the client returned?  vs  wf (send_net) = false.

import (
	"fmt"
	"go/ast"
	"go/parser"
	"go/token"
	"os"
	"path/filepath"
	"sort"
	"strconv"
	"strings"
	"time"

	"github.com/trzsz/trzsz-go/trzsz"
)

func init() { groups["proc"] = genProc }

func procRepoDir() string {
	if d := os.Getenv("VERIF_REPO"); d != "" {
		return filepath.Join(d, "trzsz")
	}
	return "/repo/trzsz"
}

type procSrc struct {
	funcs  map[string]*ast.FuncDecl
	byName map[string][]*ast.FuncDecl // methods and functions by bare name
	byRecv map[string][]*ast.FuncDecl // methods by receiver type
	fields map[string]int             // channel fields of the transfer object: capacity
	consts map[string]int
}

func procLoad() *procSrc {
	ps := &procSrc{funcs: map[string]*ast.FuncDecl{}, consts: map[string]int{}, byName: map[string][]*ast.FuncDecl{}, byRecv: map[string][]*ast.FuncDecl{}, fields: map[string]int{}}
	fset := token.NewFileSet()
	if f, err := parser.ParseFile(fset, filepath.Join(procRepoDir(), "transfer.go"), nil, 0); err == nil {
		ast.Inspect(f, func(n ast.Node) bool {
			if kv, ok := n.(*ast.KeyValueExpr); ok {
				if id, ok := kv.Key.(*ast.Ident); ok {
					if call, ok := kv.Value.(*ast.CallExpr); ok && len(call.Args) == 2 {
						if _, ok := call.Args[0].(*ast.ChanType); ok {
							if bl, ok := call.Args[1].(*ast.BasicLit); ok {
								v, _ := strconv.Atoi(bl.Value)
								ps.fields[id.Name] = v
							}
						}
					}
				}
			}
			return true
		})
	}
	for _, name := range []string{"pipeline.go", "append.go"} {
		f, err := parser.ParseFile(fset, filepath.Join(procRepoDir(), name), nil, 0)
		if err != nil {
			panic(err)
		}
		for _, d := range f.Decls {
			switch d := d.(type) {
			case *ast.FuncDecl:
				ps.funcs[d.Name.Name] = d
				ps.byName[d.Name.Name] = append(ps.byName[d.Name.Name], d)
				if d.Recv != nil && len(d.Recv.List) == 1 {
					t := d.Recv.List[0].Type
					if st, ok := t.(*ast.StarExpr); ok {
						t = st.X
					}
					if id, ok := t.(*ast.Ident); ok {
						ps.byRecv[id.Name] = append(ps.byRecv[id.Name], d)
					}
				}
			case *ast.GenDecl:
				for _, sp := range d.Specs {
					if vs, ok := sp.(*ast.ValueSpec); ok && d.Tok == token.CONST && len(vs.Values) == 1 {
						if bl, ok := vs.Values[0].(*ast.BasicLit); ok && bl.Kind == token.INT {
							v, _ := strconv.Atoi(bl.Value)
							ps.consts[vs.Names[0].Name] = v
						}
					}
				}
			}
		}
	}
	return ps
}

// procCount walks the main function and the pipeline* functions it calls.
func (ps *procSrc) procCount(mainFn string) string {
	fns := []*ast.FuncDecl{ps.funcs[mainFn]}
	ast.Inspect(ps.funcs[mainFn].Body, func(n ast.Node) bool {
		if call, ok := n.(*ast.CallExpr); ok {
			if sel, ok := call.Fun.(*ast.SelectorExpr); ok && strings.HasPrefix(sel.Sel.Name, "pipeline") {
				if fd := ps.funcs[sel.Sel.Name]; fd != nil {
					fns = append(fns, fd)
				}
			}
		}
		return true
	})
	gos, closes, ranges := 1, 0, 0
	var caps []int
	// channels held in fields of the transfer object, used by code reachable (by name) from here
	seen := map[*ast.FuncDecl]bool{}
	used := map[string]bool{}
	todo := append([]*ast.FuncDecl{}, fns...)
	for len(todo) > 0 {
		fd := todo[0]
		todo = todo[1:]
		if seen[fd] || fd.Body == nil {
			continue
		}
		seen[fd] = true
		self := ""
		if fd.Recv != nil && len(fd.Recv.List) == 1 && len(fd.Recv.List[0].Names) == 1 {
			self = fd.Recv.List[0].Names[0].Name
		}
		ast.Inspect(fd.Body, func(n ast.Node) bool {
			switch n := n.(type) {
			case *ast.SelectorExpr:
				if _, ok := ps.fields[n.Sel.Name]; ok {
					used[n.Sel.Name] = true
				}
			case *ast.CallExpr:
				switch fun := n.Fun.(type) {
				case *ast.Ident: // plain call; a constructor newT also brings in the methods of t
					for _, d := range ps.byName[fun.Name] {
						if d.Recv == nil {
							todo = append(todo, d)
						}
					}
					if strings.HasPrefix(fun.Name, "new") && len(fun.Name) > 3 {
						typ := strings.ToLower(fun.Name[3:4]) + fun.Name[4:]
						todo = append(todo, ps.byRecv[typ]...)
					}
				case *ast.SelectorExpr: // method call on the function's own receiver
					if id, ok := fun.X.(*ast.Ident); ok && self != "" && id.Name == self {
						todo = append(todo, ps.byName[fun.Sel.Name]...)
					}
				}
			}
			return true
		})
	}
	for f := range used {
		caps = append(caps, ps.fields[f])
	}
	for _, fd := range fns {
		ast.Inspect(fd.Body, func(n ast.Node) bool {
			switch n := n.(type) {
			case *ast.GoStmt:
				gos++
			case *ast.DeferStmt:
				if id, ok := n.Call.Fun.(*ast.Ident); ok && id.Name == "close" {
					closes++
				}
			case *ast.RangeStmt:
				if id, ok := n.X.(*ast.Ident); ok && strings.HasSuffix(id.Name, "Chan") {
					ranges++
				}
			case *ast.CallExpr:
				if id, ok := n.Fun.(*ast.Ident); ok && id.Name == "make" && len(n.Args) == 1 {
					// an unbuffered channel (capacity 0), e.g. one that is only ever closed (saveDone)
					if _, ok := n.Args[0].(*ast.ChanType); ok {
						caps = append(caps, 0)
					}
				}
				if id, ok := n.Fun.(*ast.Ident); ok && id.Name == "make" && len(n.Args) == 2 {
					if _, ok := n.Args[0].(*ast.ChanType); ok {
						switch a := n.Args[1].(type) {
						case *ast.BasicLit:
							v, _ := strconv.Atoi(a.Value)
							caps = append(caps, v)
						case *ast.Ident:
							caps = append(caps, ps.consts[a.Name])
						}
					}
				}
			}
			return true
		})
	}
	sort.Ints(caps)
	out := []int{gos, len(caps), closes, ranges}
	return ints(append(out, caps...))
}

// procStageBodies: the `go func` bodies of the pipeline* functions called by the main function,
// and the bodies of result-less pipeline* helpers those goroutines call
func (ps *procSrc) procStageBodies(mainFn string) []*ast.BlockStmt {
	var out []*ast.BlockStmt
	seen := map[string]bool{}
	var addCalls func(n ast.Node, helpers bool)
	addCalls = func(n ast.Node, helpers bool) {
		ast.Inspect(n, func(x ast.Node) bool {
			call, ok := x.(*ast.CallExpr)
			if !ok {
				return true
			}
			sel, ok := call.Fun.(*ast.SelectorExpr)
			if !ok || !strings.HasPrefix(sel.Sel.Name, "pipeline") || seen[sel.Sel.Name] {
				return true
			}
			fd := ps.funcs[sel.Sel.Name]
			if fd == nil || fd.Body == nil {
				return true
			}
			if helpers {
				if fd.Type.Results == nil || len(fd.Type.Results.List) == 0 {
					seen[sel.Sel.Name] = true
					out = append(out, fd.Body)
				}
				return true
			}
			seen[sel.Sel.Name] = true
			ast.Inspect(fd.Body, func(y ast.Node) bool {
				if g, ok := y.(*ast.GoStmt); ok {
					if lit, ok := g.Call.Fun.(*ast.FuncLit); ok {
						out = append(out, lit.Body)
						addCalls(lit.Body, true)
					}
				}
				return true
			})
			return true
		})
	}
	addCalls(ps.funcs[mainFn].Body, false)
	return out
}

func procIsCancelCall(st ast.Stmt) bool {
	es, ok := st.(*ast.ExprStmt)
	if !ok {
		return false
	}
	call, ok := es.X.(*ast.CallExpr)
	if !ok {
		return false
	}
	switch f := call.Fun.(type) {
	case *ast.Ident:
		return f.Name == "cancel"
	case *ast.SelectorExpr:
		return f.Sel.Name == "cancel"
	}
	return false
}

func procMentions(n ast.Node, name string) bool {
	found := false
	ast.Inspect(n, func(x ast.Node) bool {
		if id, ok := x.(*ast.Ident); ok && id.Name == name {
			found = true
		}
		return true
	})
	return found
}

func procIsCtx(e ast.Expr, method string) bool {
	call, ok := e.(*ast.CallExpr)
	if !ok {
		return false
	}
	sel, ok := call.Fun.(*ast.SelectorExpr)
	return ok && sel.Sel.Name == method
}

// procFaults: "returns are preceded by cancel", deferred cancel(nil) of the main function,
// error tests separated from their operation by a select
func (ps *procSrc) procFaults(mainFn string) string {
	ok := true
	waits := 0
	var walk func(list []ast.Stmt, done bool)
	walk = func(list []ast.Stmt, done bool) {
		for i, st := range list {
			switch s := st.(type) {
			case *ast.ReturnStmt:
				good := done
				if i > 0 {
					if _, isSend := list[i-1].(*ast.SendStmt); isSend || procIsCancelCall(list[i-1]) {
						good = true
					}
				}
				if !good {
					ok = false
				}
			case *ast.AssignStmt:
				// `..., err := CALL` ... select ... `if .. err ..`
				if len(s.Rhs) == 1 && len(s.Lhs) > 0 {
					if id, isId := s.Lhs[len(s.Lhs)-1].(*ast.Ident); isId && id.Name == "err" {
						if _, isCall := s.Rhs[0].(*ast.CallExpr); isCall {
							sel := false
							for _, nx := range list[i+1:] {
								if ifs, isIf := nx.(*ast.IfStmt); isIf && procMentions(ifs.Cond, "err") {
									if sel {
										waits++
									}
									break
								}
								ast.Inspect(nx, func(x ast.Node) bool {
									if _, isSel := x.(*ast.SelectStmt); isSel {
										sel = true
									}
									return true
								})
							}
						}
					}
				}
			case *ast.IfStmt:
				if be, isBin := s.Cond.(*ast.BinaryExpr); isBin && be.Op == token.NEQ && procIsCtx(be.X, "Err") && len(s.Body.List) == 1 {
					if _, isRet := s.Body.List[0].(*ast.ReturnStmt); isRet {
						continue
					}
				}
				walk(s.Body.List, done)
				switch e := s.Else.(type) {
				case *ast.BlockStmt:
					walk(e.List, done)
				case *ast.IfStmt:
					walk([]ast.Stmt{e}, done)
				}
			case *ast.ForStmt:
				walk(s.Body.List, done)
			case *ast.RangeStmt:
				walk(s.Body.List, done)
			case *ast.BlockStmt:
				walk(s.List, done)
			case *ast.SwitchStmt:
				for _, cl := range s.Body.List {
					walk(cl.(*ast.CaseClause).Body, done)
				}
			case *ast.SelectStmt:
				for _, cl := range s.Body.List {
					cc := cl.(*ast.CommClause)
					d := done
					if es, isExpr := cc.Comm.(*ast.ExprStmt); isExpr {
						if u, isU := es.X.(*ast.UnaryExpr); isU && u.Op == token.ARROW && procIsCtx(u.X, "Done") {
							d = true
						}
					}
					walk(cc.Body, d)
				}
			}
		}
	}
	for _, b := range ps.procStageBodies(mainFn) {
		walk(b.List, false)
	}
	deferCancel := 0
	for _, st := range ps.funcs[mainFn].Body.List {
		if d, isDefer := st.(*ast.DeferStmt); isDefer && procIsCancelCall(&ast.ExprStmt{X: d.Call}) {
			if len(d.Call.Args) == 1 {
				if id, isId := d.Call.Args[0].(*ast.Ident); isId && id.Name == "nil" {
					deferCancel++
				}
			}
		}
	}
	r := "0"
	if ok {
		r = "1"
	}
	return fmt.Sprintf("%s,%d,%d", r, deferCancel, waits)
}

func genProc(c *ctx) {
	ps := procLoad()
	for _, n := range [][2]string{{"send", "sendFileDataV2"}, {"recv", "recvFileDataV2"}, {"hash", "sendPrefixHash"}} {
		res := ps.procCount(n[1])
		c.count("net:" + n[0] + ":" + res)
		c.emit(true, "proc_counts", res, n[0])
		fr := ps.procFaults(n[1])
		c.count("faults:" + n[0] + ":" + fr)
		c.emit(true, "proc_faults", fr, n[0])
	}
	// the silent-peer scenario on the real sender; the peer vanishes at the 1st / 2nd DATA frame
	leaked := false
	for _, skip := range []int{0, 1} {
		dir, _ := os.MkdirTemp("", "verif_proc")
		var errText string
		var elapsed time.Duration
		var left []string
		procDone := make(chan struct{})
		go func() {
			errText, elapsed, left = trzsz.VerifSendToSilentPeer(dir, 3<<20, 2, skip, 1000)
			close(procDone)
		}()
		select {
		case <-procDone:
		case <-time.After(30 * time.Second):
			c.count(fmt.Sprintf("silent-peer:skip=%d:hung", skip))
			c.violate("silent-peer-hang", "the sender never returned although the peer fell silent (timeout 2 s, waited 30 s)",
				fmt.Sprintf("VerifSendToSilentPeer(size=3MiB, timeout=2s, peer silent from DATA frame %d)", skip+1))
			leaked = true
			continue
		}
		os.RemoveAll(dir)
		c.count(fmt.Sprintf("silent-peer:skip=%d:err=%q:left=%d", skip, errText, len(left)))
		if errText == "" {
			c.violate("silent-peer-success", "sender reported success although the peer fell silent", fmt.Sprintf("skip=%d", skip))
		}
		if elapsed.Seconds() > 2*3+2 {
			c.violate("silent-peer-slow", "sender took longer than 3 timeouts to give up", fmt.Sprintf("skip=%d elapsed=%v", skip, elapsed))
		}
		if len(left) > 0 {
			leaked = true
			c.violate("bufinit-wait-leak", "goroutines of a failed upload are still running 1 s after the client returned '"+errText+"'",
				fmt.Sprintf("VerifSendToSilentPeer(size=3MiB, timeout=2s, peer silent from DATA frame %d): left=%v", skip+1, left))
		}
	}
	r := "0"
	if leaked {
		r = "1"
	}
	c.emit(true, "proc_can_leak", r, "send")
}
