package main

// C13 — the reset guard: a reset request decided for an EARLIER state of the relay (the input
// reader saw "transferring" and an end marker, then was delayed in front of resetToStandby)
// must not tear down the NEXT transfer.  resetToStandby's CompareAndSwap(expected, standby)
// is what makes the stale request harmless.
//
//  1. c13LateResetPlain: direct scenario on the unmodified build.  The server's stdin is slow
//     (a gated writer), so the input reader blocks on its channel send with the end marker of
//     transfer 1 in hand; the server fails transfer 1 itself, triggers transfer 2, prints
//     something behind the trigger (parked); only then the gate opens and the stale reset
//     runs.  Transfer 2 must complete and both directions must conserve the bytes.
//  2. c13SchedAll (overlay build with logging, VERIF_VL=1): the MODEL is searched for the
//     interleavings in which a reset from any state breaks the invariant (Relay.rg_step with
//     ug = true: every way of delaying one thread in front of one of its operations in a
//     two-transfer history; evaluator relay_search_list, asked through the model driver), and
//     each schedule found is replayed operation by operation on the real relay through the
//     scripted scheduler of the overlay (go/cmd/overlay/vl.go), followed by the rest of the
//     history; judged by the conservation oracle and by trace validation.  With the guard in
//     place the model (ug = gen) must find nothing (case relay_search, expected "none").

import (
	"bytes"
	"fmt"
	"os"
	"os/exec"
	"path/filepath"
	"strings"
	"sync"
	"time"

	"io"

	"github.com/trzsz/trzsz-go/trzsz"
)

// set by c13_vl.go in the overlay build
var c13VlSchedule func(*trzsz.TrzszRelay, []string, time.Duration)
var c13VlSchedState func(*trzsz.TrzszRelay) (int, int, int)

// ---- the two-transfer history, in real bytes and over the model's abstract alphabet ----

type c13LateScn struct {
	name   string
	turns  string   // canonical schedule: I/O = next chunk of that side, H = worker, T = deferred unlock
	realC  [][]byte // client chunks, in order
	realS  [][]byte
	absC   [][]byte // the same chunks over the alphabet of Relay.rg_next
	absS   [][]byte
	rawC   map[string]bool
	rawS   map[string]bool
	trig   [][2]string
	nRelay int // ACT lines the relay has to write toward the server if both handshakes complete
}

// marker: 0 "#fail:", 1 "#FAIL:", 2 "#EXIT:", 3 ctrl-c ; confirm2: transfer 2 confirmed or refused
func c13LateScenario(idx, marker int, confirm2 bool) *c13LateScn {
	s := &c13LateScn{rawC: map[string]bool{}, rawS: map[string]bool{}}
	id := func(k int) string { return fmt.Sprintf("%02d%07d%02d00", idx%90+10, (idx*7919+k*104729)%10000000, k) }
	act := func(k int, confirm bool) []byte {
		b := c13Line("ACT", fmt.Sprintf(`{"verif":%d, "lang":"R%d_%d","version":"1.1.5","confirm":%v,"newline":"\n","protocol":2,"binary":true,"support_dir":true}`, k, idx, k, confirm))
		s.rawC[string(b)] = true
		return b
	}
	cfg := func(k int) []byte {
		b := c13Line("CFG", fmt.Sprintf(`{"verif":%d, "quiet":false,"binary":false,"directory":false,"overwrite":false,"timeout":%d,"newline":"\n","protocol":2,"bufsize":10485760}`, k, 21+k+10*(idx%50)))
		s.rawS[string(b)] = true
		return b
	}
	trig := func(k int) []byte {
		i := id(k)
		s.trig = append(s.trig, [2]string{i[:11] + "20:0#R", i + ":0"})
		return []byte("::TRZSZ:TRANSFER:R:1.1.5:" + i + ":0\r\n")
	}
	cm := [][]byte{[]byte("#fail:x\n"), []byte("#FAIL:x\n"), []byte("#EXIT:x\n"), {3}}[marker]
	cmAbs := [][]byte{{7, 10}, {7, 10}, {7, 10}, {7}}[marker]
	sm := [][]byte{[]byte("#FAIL:y\n"), []byte("#EXIT:y\n")}[marker%2]
	C := func(real, abs []byte) { s.realC, s.absC = append(s.realC, real), append(s.absC, abs) }
	S := func(real, abs []byte) { s.realS, s.absS = append(s.realS, real), append(s.absS, abs) }
	// transfer 1, confirmed
	S(trig(1), []byte{9})
	C(act(1, true), []byte{1, 3, 10})
	S(cfg(1), []byte{2, 10})
	C([]byte("#SUCC:a\n"), []byte{5, 10})
	S([]byte("#DATA:B\n"), []byte{6, 10})
	// both sides end it
	C(cm, cmAbs)
	S(sm, []byte{7, 11})
	// transfer 2: trigger, output behind the trigger, the client's answer
	S(trig(2), []byte{9})
	S([]byte("P0"), []byte{8})
	if confirm2 {
		C(act(2, true), []byte{1, 3, 10})
		S(cfg(2), []byte{2, 10})
		s.turns = "OIHOHTIOIO" + "OOIHOHT" + "OI"
		s.name = fmt.Sprintf("m%d-confirm", marker)
	} else {
		C(act(2, false), []byte{1, 10})
		s.turns = "OIHOHTIOIO" + "OOIHT" + "OI"
		s.name = fmt.Sprintf("m%d-refuse", marker)
	}
	s.nRelay = 2
	// afterwards
	S([]byte("AFTER\n"), []byte{6, 12})
	C([]byte("typed\n"), []byte{5, 12})
	return s
}

// the chunks of a side in the order of the canonical schedule: (side, index)
func (s *c13LateScn) order() [][2]int {
	var out [][2]int
	ni, no := 0, 0
	for _, t := range s.turns {
		switch t {
		case 'I':
			out = append(out, [2]int{0, ni})
			ni++
		case 'O':
			out = append(out, [2]int{1, no})
			no++
		}
	}
	return out
}

// ---- verdict (the conservation oracle of c13.go on this history) ----

func c13LateVerdict(s *c13LateScn, cOut, sIn *c13Sink, nc, ns int, wait time.Duration) (bool, string) {
	r := &c13Run{trig: s.trig}
	cin := bytes.Join(s.realC[:nc], nil)
	sin := bytes.Join(s.realS[:ns], nil)
	deadline := time.Now().Add(wait)
	for {
		got, k := sIn.snapshot(), c13Norm(r, cOut.snapshot())
		ok1, why1, _ := c13Align(cin, got, "ACT", s.rawC, false)
		ok2, why2, _ := c13Align(sin, k, "CFG", s.rawS, false)
		nAct := c13CountToks(got, "ACT", s.rawC)
		if ok1 && ok2 && nAct >= s.nRelay {
			return true, ""
		}
		if time.Now().After(deadline) {
			var why []string
			if !ok1 {
				why = append(why, "toward the server: "+why1)
			}
			if !ok2 {
				why = append(why, "toward the client: "+why2)
			}
			if nAct < s.nRelay {
				why = append(why, fmt.Sprintf("the relay answered %d of %d handshakes (a handshake was bypassed or torn down)", nAct, s.nRelay))
			}
			return false, strings.Join(why, "; ")
		}
		time.Sleep(2 * time.Millisecond)
	}
}

func c13LateDetail(s *c13LateScn, cOut, sIn *c13Sink, extra string) string {
	return fmt.Sprintf("client chunks %s | server chunks %s | serverIn got %s | clientOut got %s%s", hxs(s.realC), hxs(s.realS), hx(sIn.snapshot()), hx(cOut.snapshot()), extra)
}

// ---- 1. direct scenario on the unmodified build: slow server ----

type c13GateSink struct {
	c13Sink
	gmu    sync.Mutex
	closed bool
	open   chan struct{}
}

func newC13GateSink() *c13GateSink {
	return &c13GateSink{c13Sink: c13Sink{ch: make(chan struct{}, 1)}, open: make(chan struct{})}
}
func (g *c13GateSink) shut() {
	g.gmu.Lock()
	g.closed, g.open = true, make(chan struct{})
	g.gmu.Unlock()
}
func (g *c13GateSink) release() {
	g.gmu.Lock()
	if g.closed {
		g.closed = false
		close(g.open)
	}
	g.gmu.Unlock()
}
func (g *c13GateSink) Write(p []byte) (int, error) {
	g.gmu.Lock()
	closed, ch := g.closed, g.open
	g.gmu.Unlock()
	if closed {
		<-ch
	}
	return g.c13Sink.Write(p)
}

func c13LateResetPlain(c *ctx, idx, marker int, confirm2 bool, settle time.Duration) {
	s := c13LateScenario(idx, marker, confirm2)
	rid := fmt.Sprintf("late-%s-%d", s.name, idx)
	if !c13Only(rid) {
		return
	}
	c13JBegin(rid)
	defer c13JEnd(rid)
	cInR, cInW0 := io.Pipe()
	sOutR, sOutW0 := io.Pipe()
	cInW, sOutW := &c13JWriter{w: cInW0, id: rid, side: 'c'}, &c13JWriter{w: sOutW0, id: rid, side: 's'}
	cOut, gate := newC13Sink(), newC13GateSink()
	sIn := &gate.c13Sink
	_ = trzsz.NewTrzszRelay(cInR, cOut, gate, sOutR, trzsz.TrzszOptions{})
	ok := true
	waitS := func(what string, pred func([]byte) bool) {
		if ok && !sIn.waitFor(pred, 3*time.Second) {
			ok = false
			c.count("late_reset:desync:" + what)
		}
	}
	waitC := func(what string, pred func([]byte) bool) {
		if ok && !cOut.waitFor(pred, 3*time.Second) {
			ok = false
			c.count("late_reset:desync:" + what)
		}
	}
	has := func(b []byte) func([]byte) bool { return func(x []byte) bool { return bytes.Contains(x, b) } }
	// transfer 1 up to transferring
	sOutW.Write(s.realS[0])
	waitC("trigger1", has([]byte(s.trig[0][0])))
	cInW.Write(s.realC[0])
	waitS("act1", func(b []byte) bool { return c13CountToks(b, "ACT", s.rawC) >= 1 })
	sOutW.Write(s.realS[1])
	waitC("cfg1", func(b []byte) bool { return c13CountToks(b, "CFG", s.rawS) >= 1 })
	time.Sleep(settle) // the flush has changed the status
	cInW.Write(s.realC[1])
	waitS("data", has(s.realC[1]))
	sOutW.Write(s.realS[2])
	waitC("data", has(s.realS[2]))
	// the server stops reading: one chunk in the writer, ten in the channel, the input reader
	// blocks on the send of the twelfth -- the client's end marker -- having seen "transferring"
	gate.shut()
	var fill [][]byte
	for k := 0; k < 11; k++ {
		fill = append(fill, []byte(fmt.Sprintf("#SUCC:f%d\n", k)))
	}
	for _, f := range fill {
		cInW.Write(f)
	}
	cInW.Write(s.realC[2]) // returns when the reader has taken it
	time.Sleep(settle)
	// the server ends transfer 1 itself, starts transfer 2, prints behind the trigger
	sOutW.Write(s.realS[3])
	waitC("marker", has(s.realS[3]))
	time.Sleep(settle)
	sOutW.Write(s.realS[4])
	waitC("trigger2", has([]byte(s.trig[1][0])))
	sOutW.Write(s.realS[5])
	time.Sleep(settle)
	// now the server reads again: the stale reset request of the input reader is executed
	gate.release()
	waitS("drained", has(s.realC[2]))
	time.Sleep(settle)
	// the rest of the history
	nc, ns := 3, 6
	for _, o := range s.order() {
		if o[0] == 0 && o[1] >= nc {
			cInW.Write(s.realC[o[1]])
			nc++
			time.Sleep(settle)
		}
		if o[0] == 1 && o[1] >= ns {
			if confirm2 && o[1] == 6 { // the CFG of transfer 2 answers the relay's ACT
				sIn.waitFor(func(b []byte) bool { return c13CountToks(b, "ACT", s.rawC) >= 2 }, time.Second)
			}
			sOutW.Write(s.realS[o[1]])
			ns++
			time.Sleep(settle)
		}
	}
	// verdict: the filler chunks are part of the client's input
	full := *s
	full.realC = append(append(append([][]byte(nil), s.realC[:2]...), fill...), s.realC[2:]...)
	c.count("late_reset:plain_runs")
	if !ok {
		c.count("late_reset:plain_desync")
	}
	good, why := c13LateVerdict(&full, cOut, sIn, len(full.realC), len(full.realS), 2*time.Second)
	desc := fmt.Sprintf("late reset (slow server) %s #%d", s.name, idx)
	c.note(true, desc)
	if !good && (!ok || cInW.stuck || sOutW.stuck) { // the script itself lost step before the verdict: not judged
		c.count("late_reset:plain_inconclusive")
		return
	}
	if !good {
		c.violate("relay-late-reset-"+s.name, "a reset request of the input reader decided during transfer 1 (end marker seen while transferring, then blocked behind a slow server) "+
			"was executed after the trigger of transfer 2: "+why, c13LateDetail(&full, cOut, sIn, ""))
		return // the relay is stuck: leave the pipes open
	}
	cInW.Close()
	sOutW.Close()
}

// ---- 2. schedules found on the model, replayed on the real relay ----

func c13DriverPath() string {
	if p := os.Getenv("C13_DRIVER"); p != "" {
		return p
	}
	exe, err := os.Executable()
	if err != nil {
		return ""
	}
	return filepath.Join(filepath.Dir(filepath.Dir(filepath.Dir(exe))), "ocaml", "driver")
}

// evaluates one model function through the model driver; "" if the driver is not available
func c13AskModel(fn string, args ...string) string {
	drv := c13DriverPath()
	if _, err := os.Stat(drv); err != nil {
		return ""
	}
	f, err := os.CreateTemp("", "c13_ask_")
	if err != nil {
		return ""
	}
	defer os.Remove(f.Name())
	fmt.Fprintf(f, "%s\t%s\t=>\t?ask\n", fn, strings.Join(args, "\t"))
	f.Close()
	out, err := exec.Command("sh", "-c", "ulimit -s unlimited 2>/dev/null; exec \"$0\" \"$1\"", drv, f.Name()).Output()
	if err != nil {
		return ""
	}
	for _, l := range strings.Split(string(out), "\n") {
		if i := strings.LastIndex(l, "\tmodel="); i >= 0 && strings.HasPrefix(l, "MISMATCH") {
			r := l[i+7:]
			if strings.HasPrefix(r, "?") {
				return ""
			}
			return r
		}
	}
	return ""
}

// a label of the model -> the gate token of the operation it stands for ("" = no gated operation)
func c13GateOf(label string) string {
	f := strings.Split(label, ":")
	switch f[0] {
	case "IR", "IL", "IK", "IV", "IA", "IS", "OR", "OL", "OK", "OV", "OA", "OD", "OG", "OS", "HK":
		return f[0]
	case "IP", "IU":
		return "IU"
	case "OP", "OU":
		return "OU"
	case "OB":
		return "OS"
	case "OH":
		return "OT"
	case "IE", "OE":
		if len(f) > 1 && f[1] == "1" {
			return f[0][:1] + "C"
		}
		return ""
	case "HSA", "HSC", "HF1", "HF2", "HSI", "HSO":
		return "HS"
	case "HPI", "HPO":
		return "HP"
	case "HD":
		return "H*"
	case "HB": // the worker's publication of "handshaking" (late variant of the model)
		return "HT"
	case "TU":
		return "HU"
	}
	return "" // HA, HC: readLine (not gated)
}

// the schedule of theorem C13_reset_guard_needed's kind for the refuse-scenario (cut 8.3.11 of
// the search), used when the model driver cannot be asked; relay_guard_run keeps it a witness
const c13LateFallback = "OR OL OD:09:1 OH OG OS IR IL IK IV IA IP HA:3:o HSA:65:1 OR OL OK OV OA OP HC:2:o HSC:66 HK HPI HPO HD TU " +
	"IR IL IS IE:0 OR OL OB OE:0 IR IL IS OR OL OB OE:1 OR OL OD:09:1 OH OG OS OR OL OK OV OA OP IE:1"

type c13SchedJob struct {
	s      *c13LateScn
	cut    string // i.k.j of the search, "canonical", "fallback"
	kind   string // <variant searched>:<what the model says without the mechanism>
	what   string // the mechanism of the relay that schedule needs
	labels []string
}

func c13SchedReplay(j *c13SchedJob, settle time.Duration) (good bool, why, detail string, followed bool, trace []string, gotS, gotC []byte, over bool) {
	s := j.s
	var gates []string
	nI, nO := 0, 0
	for _, l := range j.labels {
		if g := c13GateOf(l); g != "" {
			gates = append(gates, g)
			if g == "IR" {
				nI++
			}
			if g == "OR" {
				nO++
			}
		}
	}
	cInR, cInW := io.Pipe()
	sOutR, sOutW := io.Pipe()
	cOut, sIn := newC13Sink(), newC13Sink()
	relay := trzsz.NewTrzszRelay(cInR, cOut, sIn, sOutR, trzsz.TrzszOptions{})
	c13VlSchedule(relay, gates, 1500*time.Millisecond)
	var wg sync.WaitGroup
	wg.Add(2)
	go func() {
		defer wg.Done()
		for _, b := range s.realC[:nI] {
			c13JWrite("sched-"+s.name+"-"+j.cut+"-"+j.kind, 'c', b)
			cInW.Write(b)
		}
	}()
	go func() {
		defer wg.Done()
		for _, b := range s.realS[:nO] {
			c13JWrite("sched-"+s.name+"-"+j.cut+"-"+j.kind, 's', b)
			sOutW.Write(b)
		}
	}()
	// the scripted part
	deadline := time.Now().Add(20 * time.Second)
	div := -1
	for {
		pos, n, d := c13VlSchedState(relay)
		div = d
		if pos >= n || time.Now().After(deadline) {
			break
		}
		time.Sleep(time.Millisecond)
	}
	wg.Wait()
	followed = div < 0
	time.Sleep(settle)
	// the rest of the history, one chunk at a time
	nc, ns := nI, nO
	for _, o := range s.order() {
		if o[0] == 0 && o[1] >= nc {
			cInW.Write(s.realC[o[1]])
			nc++
			time.Sleep(settle)
		}
		if o[0] == 1 && o[1] >= ns {
			sOutW.Write(s.realS[o[1]])
			ns++
			time.Sleep(settle)
		}
	}
	good, why = c13LateVerdict(s, cOut, sIn, len(s.realC), len(s.realS), 2*time.Second)
	last := -1
	for i := 0; i < 100; i++ {
		ev, ov := c13VlDump(relay)
		gs, gc := sIn.snapshot(), cOut.snapshot()
		if len(ev) == last && bytes.Equal(gs, gotS) && bytes.Equal(gc, gotC) {
			break
		}
		last, trace, over, gotS, gotC = len(ev), ev, ov, gs, gc
		time.Sleep(3 * time.Millisecond)
	}
	c13VlRelease(relay)
	extra := fmt.Sprintf(" | schedule (cut %s of the canonical turns %s; model variant searched and its verdict there: %s) %s", j.cut, s.turns, j.kind, strings.Join(gates, " "))
	if !followed {
		extra += fmt.Sprintf(" | schedule given up at token %d", div)
	}
	detail = c13LateDetail(s, cOut, sIn, extra)
	if good {
		cInW.Close()
		sOutW.Close()
	}
	return
}

func c13SchedAll(c *ctx, perturbed bool) {
	os.Unsetenv("TMUX")
	settle := 6 * time.Millisecond
	if perturbed {
		settle = 25 * time.Millisecond
	}
	var jobs []*c13SchedJob
	nScn := c.pick(4, 16)
	// the model variants that are searched: what the relay must NOT be (the schedules found are
	// the ones in which the corresponding mechanism of the real relay is at work)
	variants := []struct{ v, name, what string }{
		{"10", "reset", "the reset guard (resetToStandby from the expected state only)"},
		{"01", "publish", "the publication of 'handshaking' in front of the forward of the trigger"},
	}
	for k := 0; k < nScn; k++ {
		marker, confirm2 := k%4, (k/4+k)%2 == 1
		s := c13LateScenario(1000+c.rng.Intn(80)*100+k, marker, confirm2)
		c.count("sched:scenarios")
		// the model of the current source must have no bad schedule in the family
		c.emit(true, "relay_search", "none", "gen", "0", hxs(s.absC), hxs(s.absS), s.turns)
		for _, vr := range variants {
			ans := c13AskModel("relay_search_list", vr.v, "0", hxs(s.absC), hxs(s.absS), s.turns, "3")
			if ans == "" {
				c.count("sched:model_driver_unavailable")
				if !confirm2 && vr.name == "reset" {
					jobs = append(jobs, &c13SchedJob{s, "fallback", "reset:stranded", vr.what, strings.Split(c13LateFallback, " ")})
				}
				continue
			}
			parts := strings.Split(ans, "|")
			var ex, nb int
			fmt.Sscanf(parts[0], "examined=%d;bad=%d", &ex, &nb)
			c.stats["sched:model_schedules_examined"] += ex
			c.stats["sched:model_schedules_needing_"+vr.name] += nb
			for _, w := range parts[1:] {
				f := strings.SplitN(w, ";", 3)
				if len(f) != 3 {
					continue
				}
				// the same schedule of the family as the model of the CURRENT source executes it
				var labels string
				if strings.HasPrefix(f[0], "-1.") {
					labels = c13AskModel("relay_canon", "gen", "0", hxs(s.absC), hxs(s.absS), s.turns)
				} else if r := c13AskModel("relay_cut_labels", "gen", "0", hxs(s.absC), hxs(s.absS), s.turns, f[0]); r != "" {
					if g := strings.SplitN(r, ";", 2); len(g) == 2 {
						labels = g[1]
					}
				}
				if labels == "" {
					c.count("sched:model_driver_unavailable")
					continue
				}
				jobs = append(jobs, &c13SchedJob{s, f[0], vr.name + ":" + f[1], vr.what, strings.Split(labels, " ")})
			}
		}
		if can := c13AskModel("relay_canon", "gen", "0", hxs(s.absC), hxs(s.absS), s.turns); can != "" {
			jobs = append(jobs, &c13SchedJob{s, "canonical", "canonical", "nothing (the canonical schedule itself)", strings.Split(can, " ")})
		}
	}
	// the stored schedule stays a witness of the model without the guard, and no path with it
	fb := c13LateScenario(999, 0, false)
	c.emit(true, "relay_guard_run", "stranded", "10", "0", hxs(fb.absC), hxs(fb.absS), c13LateFallback)
	c.emit(true, "relay_guard_run", "ok", "00", "0", hxs(fb.absC), hxs(fb.absS), c13LateFallback)
	if len(jobs) == 0 {
		c.violate("relay-sched-inert", "no schedule to replay on the real relay (the model search returned nothing)", "")
		return
	}
	var mu sync.Mutex
	var wg sync.WaitGroup
	sem := make(chan struct{}, 8)
	for _, j := range jobs {
		wg.Add(1)
		sem <- struct{}{}
		go func(j *c13SchedJob) {
			defer wg.Done()
			defer func() { <-sem }()
			id := "sched-" + j.s.name + "-" + j.cut + "-" + j.kind
			c13JBegin(id)
			good, why, detail, followed, trace, gotS, gotC, over := c13SchedReplay(j, settle)
			c13JEnd(id)
			mu.Lock()
			defer mu.Unlock()
			c.count("sched:replays")
			c.count("sched:replay_" + j.kind)
			if followed {
				c.count("sched:followed")
			} else {
				c.count("sched:given_up")
			}
			if !good {
				c.violate("relay-sched-"+strings.SplitN(j.kind, ":", 2)[0]+"-"+j.s.name, "a schedule of the family 'one thread delayed in front of one operation' (cut "+j.cut+
					") in which the model needs "+j.what+", replayed on the real relay: "+why, detail)
				return
			}
			if over || len(trace) == 0 {
				c.violate("relay-trace-empty", "the overlay build logged no usable trace for a scheduled relay run", detail)
				return
			}
			c.count("traces_validated_against_impl")
			c.stats["trace:events"] += len(trace)
			c.emit(true, "relay_trace", "ok:"+hx(gotS)+":"+hx(gotC)+":-", "0", hxs(j.s.realC), hxs(j.s.realS), strings.Join(trace, " "))
		}(j)
	}
	wg.Wait()
	if c.stats["sched:followed"] == 0 {
		c.violate("relay-sched-inert", "the real relay followed none of the scripted schedules: the scheduler of the overlay did not work", fmt.Sprint(c.stats))
	}
}

// a pipe writer that journals what it is about to feed
type c13JWriter struct {
	w     *io.PipeWriter
	id    string
	side  byte
	stuck bool
}

// a write the relay does not take within three seconds is given up (the reader is stuck behind
// something the scenario did not foresee: the run is then not judged), so that the harness
// itself never blocks for ever
func (j *c13JWriter) Write(b []byte) (int, error) {
	c13JWrite(j.id, j.side, b)
	done := make(chan struct{})
	go func() { j.w.Write(b); close(done) }()
	select {
	case <-done:
		return len(b), nil
	case <-time.After(3 * time.Second):
		j.stuck = true
		return 0, io.ErrClosedPipe
	}
}
func (j *c13JWriter) Close() error { return j.w.Close() }
