package main

// C07, the clause "the names reported to the user are the names actually used", at the level
// where the report is made: the loop of recvFiles.
//
// Group "recvfiles": a scripted sender stream (NUM, then per entry NAME [SIZE DATA.. MD5],
// legacy protocol so that the data exchange needs no answers) is handed to the REAL recvFiles
// in a real directory tree (the deep private sandbox of the names group, c09.go).  The list it
// returns - what trz and the client print as "Saved ..." -, createdFiles and the whole tree
// are compared with the model (NamesRecv.nr_run: the loop, its localNames bookkeeping, the
// archive entry headers inside the data stream).  Sessions: plain files with repeated names;
// directory mode with several roots, roots that collide with the prior state (x.0, x.1) or
// with each other, empty directories, directory-only trees, trees whose first record is not
// the root, records of one root repeated or interleaved with another root's, archive records
// whose entries arrive in the data stream (own path id, and - rarely - a foreign one), and
// sessions that fail in the middle (refused name, malformed record).
// Direct oracle (no model): on success the reported list has no duplicates and is exactly the
// set of top-level entries of the destination that are new; on failure nothing is reported.
//
// Group "names-e2e": the real trz / tsz binary against the real client filter (e2e.go), both
// directions, protocols 1-4, overwrite on/off, sources with empty directories, directory-only
// trees, files and normal trees, destinations that already hold entries with the same names,
// and the same sources sent twice.  Oracle: the "Saved N files/directories" message that is
// SHOWN lists exactly the new top-level entries of the destination (N = their number).

import (
	"crypto/md5"
	"encoding/hex"
	"encoding/json"
	"fmt"
	"math/rand"
	"os"
	"path/filepath"
	"sort"
	"strconv"
	"strings"
	"time"

	"github.com/trzsz/trzsz-go/trzsz"
)

func init() {
	groups["recvfiles"] = genC07RecvFiles
	groups["names-e2e"] = genC07NamesE2E
}

type c07rEnt struct {
	raw     string
	payload []byte
	dec     string
}

type c07rRec struct {
	raw     string
	payload []byte
	entries []c07rEnt
	dec     string
	isDir   bool
	archive bool
	foreign bool
}

func c07rJSON(id int, rel []string, isDir, archive bool, size int) string {
	js, _ := json.Marshal(c09Src{PathID: id, RelPath: rel, IsDir: isDir, Archive: archive, Size: int64(size)})
	return string(js)
}

func (c *ctx) c07rPayload(tag string) []byte {
	n := []int{0, 1, 5, 40}[c.rng.Intn(4)]
	b := []byte(tag)
	for len(b) < n {
		b = append(b, byte('a'+c.rng.Intn(26)))
	}
	if n == 0 {
		return nil
	}
	return b[:n]
}

// the records of one root in directory mode
func (c *ctx) c07rRoot(id int, root string, shape int) []c07rRec {
	mk := func(rel []string, isDir bool, tag string) c07rRec {
		r := c07rRec{isDir: isDir}
		if !isDir {
			r.payload = c.c07rPayload(tag)
		}
		r.raw = c07rJSON(id, rel, isDir, false, len(r.payload))
		return r
	}
	subs := []string{"s1", "f", "g", "a", "x.0"}
	sub := func() string { return subs[c.rng.Intn(len(subs))] }
	switch shape {
	case 0: // a single file
		return []c07rRec{mk([]string{root}, false, "F")}
	case 1: // an empty directory
		return []c07rRec{mk([]string{root}, true, "")}
	case 2: // directories only
		s1, s2 := sub(), sub()
		return []c07rRec{mk([]string{root}, true, ""), mk([]string{root, s1}, true, ""), mk([]string{root, s1, s2}, true, "")}
	case 3: // a normal tree
		s1 := sub()
		return []c07rRec{mk([]string{root}, true, ""), mk([]string{root, "file1"}, false, "T1"), mk([]string{root, s1}, true, ""),
			mk([]string{root, s1, "file2"}, false, "T2")}
	case 4: // the root record itself never arrives: the first record is below it
		s1 := sub()
		if c.rng.Intn(2) == 0 {
			return []c07rRec{mk([]string{root, s1}, true, ""), mk([]string{root, s1, "deep"}, true, "")}
		}
		return []c07rRec{mk([]string{root, s1, "file3"}, false, "T3"), mk([]string{root, "file4"}, false, "T4")}
	default: // an archive record: the entries arrive in the data stream
		r := c07rRec{isDir: true, archive: true}
		add := func(eid int, rel []string, isDir bool, tag string) {
			e := c07rEnt{}
			if !isDir {
				e.payload = c.c07rPayload(tag)
			}
			e.raw = c07rJSON(eid, rel, isDir, false, len(e.payload))
			r.entries = append(r.entries, e)
		}
		s1 := sub()
		add(id, []string{root, "afile"}, false, "A1")
		if c.rng.Intn(2) == 0 {
			add(id, []string{root, s1}, true, "")
			add(id, []string{root, s1, "bfile"}, false, "A2")
		}
		if shape == 6 { // an entry with a path id that is not the archive's own (KNOWN_FINDINGS: archive-entry-foreign-top-level)
			add(id+100, []string{"other", "x"}, false, "A3")
			r.foreign = true
		}
		size := 0
		for _, e := range r.entries {
			size += len(c07rEntryBytes(e))
		}
		r.raw = c07rJSON(id, []string{root}, true, true, size)
		return []c07rRec{r}
	}
}

func c07rEntryBytes(e c07rEnt) []byte {
	return append(append(encodeLine("", []byte(e.raw))[2:], '\n'), e.payload...)
}

// the byte stream a protocol-1 sender produces for these records
func (c *ctx) c07rScript(recs []c07rRec, plain bool) []byte {
	var b []byte
	line := func(l []byte) { b = append(append(b, l...), '\n') }
	line([]byte(fmt.Sprintf("#NUM:%d", len(recs))))
	for _, r := range recs {
		line(encodeLine("NAME", []byte(r.raw)))
		if !plain && r.isDir && !r.archive {
			continue
		}
		data := r.payload
		if r.archive {
			data = nil
			for _, e := range r.entries {
				data = append(data, c07rEntryBytes(e)...)
			}
		}
		line([]byte(fmt.Sprintf("#SIZE:%d", len(data))))
		for rest := data; len(rest) > 0; {
			k := 1 + c.rng.Intn(60)
			if k > len(rest) {
				k = len(rest)
			}
			line(encodeLine("DATA", rest[:k]))
			rest = rest[k:]
		}
		sum := md5.Sum(data)
		line(encodeLine("MD5", sum[:]))
	}
	return b
}

func c07rRecArg(r c07rRec) string {
	var es []string
	for _, e := range r.entries {
		es = append(es, hx([]byte(e.raw))+"~"+e.dec+"~"+hx(e.payload))
	}
	ea := "-"
	if len(es) > 0 {
		ea = strings.Join(es, "+")
	}
	return hx([]byte(r.raw)) + ":" + r.dec + ":" + hx(r.payload) + ":" + ea
}

func genC07RecvFiles(c *ctx) {
	work, err := os.MkdirTemp("", "c07recvfiles")
	if err != nil {
		panic(err)
	}
	defer os.RemoveAll(work)
	c09Abs = filepath.Join(work, "l1", "abs-x")
	c09WorkHex = hex.EncodeToString([]byte(work))
	os.MkdirAll(filepath.Join(work, c09Fill), 0755)
	chkU, chkC := c09Probe(filepath.Join(work, c09Fill))
	os.RemoveAll(filepath.Join(work, "l1"))
	c.count(fmt.Sprintf("tree:validates-json=%v,validates-plain=%v", chkU, chkC))

	n := c.pick(400, 5000)
	nser := c.pick(8, 60)
	pool := c.c09Pool()[:6]
	for ci := 0; ci < n; ci++ {
		root := work
		dest := filepath.Join(root, c09DestRel)
		os.MkdirAll(dest, 0755)
		os.MkdirAll(filepath.Join(root, c09Fill, "r/sb/outside"), 0755)
		os.WriteFile(filepath.Join(root, c09Fill, "r/sb/evil"), []byte("orig-evil"), 0644)
		kind := 2
		if c.rng.Intn(4) == 0 {
			kind = 0
		}
		// series sessions: the destination holds name, name.0 .. name.999 for the first root of the
		// session - all of them (recvFiles must fail, report nothing, touch nothing) or all but one
		// (the gap is the name reported)
		forceName, seriesGap := "", -1
		if ci < nser {
			kind = 0
			forceName = pool[ci%3]
			if ci >= nser/2 {
				seriesGap = []int{0, 1, 9, 10, 99, 100, 998, 999, c.rng.Intn(1000)}[c.rng.Intn(9)]
				if ci == nser/2 {
					seriesGap = 999
				}
				c.count("pre:series-with-one-gap")
			} else {
				c.count("pre:full-series")
			}
			if c.rng.Intn(3) == 0 {
				os.Mkdir(filepath.Join(dest, forceName), 0755)
			} else {
				os.WriteFile(filepath.Join(dest, forceName), []byte("series-base"), 0644)
			}
			lastDir := c.rng.Intn(2) == 0
			for k := 0; k < 1000; k++ {
				if k == seriesGap {
					continue
				}
				if p := filepath.Join(dest, forceName+"."+strconv.Itoa(k)); k == 999 && lastDir {
					os.Mkdir(p, 0755)
				} else {
					os.WriteFile(p, []byte("s"), 0644)
				}
			}
		}
		for _, p := range c.c09PreState(kind) {
			full := filepath.Join(dest, p.rel)
			if p.dir {
				os.MkdirAll(full, 0755)
			} else {
				os.MkdirAll(filepath.Dir(full), 0755)
				os.WriteFile(full, []byte(p.data), 0644)
			}
		}
		pre := c09Snapshot(root)
		overwrite := c.rng.Intn(3) == 0 && forceName == ""
		plain := c.rng.Intn(4) == 0
		var recs []c07rRec
		desc := ""
		if plain {
			k := 1 + c.rng.Intn(5)
			for i := 0; i < k; i++ {
				r := c07rRec{raw: pool[c.rng.Intn(len(pool))], payload: c.c07rPayload("P")}
				if i == 0 && forceName != "" {
					r.raw = forceName
				}
				recs = append(recs, r)
			}
			desc = "plain"
		} else {
			k := 1 + c.rng.Intn(4)
			var perRoot [][]c07rRec
			for i := 0; i < k; i++ {
				shape := c.rng.Intn(6)
				if shape == 5 && c.rng.Intn(5) == 0 {
					shape = 6
				}
				name := pool[c.rng.Intn(len(pool))]
				if i == 0 && forceName != "" {
					name = forceName
					if shape >= 5 {
						shape = c.rng.Intn(5)
					}
				}
				id := i
				if i > 0 && c.rng.Intn(8) == 0 {
					id = i - 1 // a second source with the path id of the previous one
				}
				perRoot = append(perRoot, c.c07rRoot(id, name, shape))
				desc += fmt.Sprintf("%s#%d/%d ", name, id, shape)
				c.count(fmt.Sprintf("root-shape:%d", shape))
			}
			if c.rng.Intn(6) == 0 && len(perRoot) > 1 { // records of two roots interleaved
				a, b := perRoot[0], perRoot[1]
				var mix []c07rRec
				for len(a) > 0 || len(b) > 0 {
					if len(a) > 0 && (len(b) == 0 || c.rng.Intn(2) == 0) {
						mix, a = append(mix, a[0]), a[1:]
					} else {
						mix, b = append(mix, b[0]), b[1:]
					}
				}
				perRoot = append([][]c07rRec{mix}, perRoot[2:]...)
				desc += "interleaved "
			}
			for _, rr := range perRoot {
				recs = append(recs, rr...)
			}
			if c.rng.Intn(8) == 0 && len(recs) > 0 { // one root sent again
				recs = append(recs, recs[0])
				desc += "first-again "
			}
		}
		if c.rng.Intn(6) == 0 { // the session fails somewhere
			bad := c07rRec{raw: []string{"..", "{", `{"path_id":0,"path_name":[]}`, c09Long(256, 'Z'), `{"path_id":0,"path_name":["a",".."],"is_dir":true}`}[c.rng.Intn(5)]}
			at := c.rng.Intn(len(recs) + 1)
			recs = append(recs[:at], append([]c07rRec{bad}, recs[at:]...)...)
			desc += fmt.Sprintf("bad@%d ", at)
			c.count("session:with-refused-record")
		}
		foreign := false
		for i := range recs {
			recs[i].dec = "x"
			if !plain {
				recs[i].dec, recs[i].isDir, recs[i].archive = c09DecArg(recs[i].raw)
				for j := range recs[i].entries {
					recs[i].entries[j].dec, _, _ = c09DecArg(recs[i].entries[j].raw)
				}
			}
			foreign = foreign || recs[i].foreign
		}
		script := c.c07rScript(recs, plain)
		names, errText, created, hung := trzsz.VerifRecvFilesScript(overwrite, !plain, 1, dest, script, 2, 8*time.Second)
		post := c09Snapshot(root)

		var margs []string
		for _, r := range recs {
			margs = append(margs, c07rRecArg(r))
		}
		key := fmt.Sprintf("ow=%v,plain=%v,pre=%s,recs=%s", overwrite, plain, c07rTopLevel(pre, nil), strings.Join(margs, ","))
		if forceName != "" {
			key = fmt.Sprintf("ow=%v,plain=%v,series=%s,gap=%d,recs=%s", overwrite, plain, forceName, seriesGap, strings.Join(margs, ","))
		}
		if len(key) > 900 {
			key = key[:900]
		}
		if hung {
			c09Violate(c, "recvfiles-hung:"+key, "recvFiles did not return on a complete scripted stream", desc)
		}
		// ---- direct oracle: reported names = new top-level entries
		newTop := c07rTopLevel(post, pre)
		if errText == "" {
			c.count("session:success")
			// order: when the roots announced are pairwise unrelated names with their own path ids,
			// the k-th reported name is the k-th root (possibly renamed root.N)
			if ro := c07rRootOrder(recs, plain); ro != nil && len(ro) == len(names) {
				for j := range ro {
					if names[j] != ro[j] && !strings.HasPrefix(names[j], ro[j]+".") {
						c09Violate(c, "reported-order:"+key, "the names are not reported in the order in which their roots arrived",
							fmt.Sprintf("%s: roots arrived as %q, reported %q", desc, ro, names))
						break
					}
				}
				c.count("session:order-checked")
			}
			seen := map[string]bool{}
			for _, nm := range names {
				if seen[nm] {
					c09Violate(c, "reported-twice:"+key, "a name is reported twice", fmt.Sprintf("%s: reported %q", desc, names))
				}
				seen[nm] = true
			}
			if !overwrite && !foreign {
				got := append([]string(nil), names...)
				sort.Strings(got)
				if strings.Join(got, "\x00") != strings.Join(newTop, "\x00") {
					c09Violate(c, "reported-roots:"+key, "the names reported as saved are not the top-level names this transfer created",
						fmt.Sprintf("%s: recvFiles returned %q, new top-level entries of the destination %q", desc, names, newTop))
				}
			}
			if overwrite {
				for _, nm := range names { // every reported name exists
					if _, ok := post[c09DestRel+"/"+nm]; !ok {
						c09Violate(c, "reported-absent:"+key, "a reported name does not exist in the destination", fmt.Sprintf("%s: %q", desc, nm))
					}
				}
				for _, nt := range newTop { // every new entry is reported
					if !seen[nt] && !foreign {
						c09Violate(c, "reported-roots:"+key, "a new top-level entry is not among the names reported as saved",
							fmt.Sprintf("%s: recvFiles returned %q, new entry %q", desc, names, nt))
					}
				}
			}
			if foreign {
				c.count("finding:archive-entry-under-unreported-top-level-name")
			}
		} else {
			c.count("session:failed")
			if len(names) > 0 {
				c09Violate(c, "reported-on-failure:"+key, "recvFiles failed and still returned names", fmt.Sprintf("%s: %q, error %s", desc, names, errText))
			}
		}
		if !overwrite {
			_, to, rm := c09Diff(pre, post)
			if len(to)+len(rm) > 0 {
				c09Violate(c, "touched:"+key, "overwrite is off and a pre-existing path was changed", fmt.Sprintf("%s: %v %v", desc, to, rm))
			}
		}

		// ---- canonical observation for the model
		res := "!err"
		if errText == "" {
			hs := make([]string, len(names))
			for i, nm := range names {
				hs[i] = hex.EncodeToString([]byte(nm))
			}
			res = strings.Join(hs, ",")
		}
		var cl []string
		for _, p := range created {
			rel, e := filepath.Rel(root, p)
			if e != nil || strings.HasPrefix(rel, "..") {
				cl = append(cl, "OUTSIDE-CASE-ROOT")
			} else {
				cl = append(cl, c09HexPath(rel))
			}
		}
		obs := fmt.Sprintf("N=%s|C=%s|F=%s", res, strings.Join(cl, ";"), post.listing())
		flags := c09B(overwrite) + c09B(!plain) + c09B(chkU) + c09B(chkC)
		renamed := false
		for _, nm := range names {
			renamed = renamed || strings.Contains(nm, ".") && !strings.Contains(strings.Join(pool, " "), nm)
		}
		c.emit(errText != "" || renamed || len(names) != len(recs), "nr_run", obs, flags, c09HexPath(c09DestRel), pre.listing(), strings.Join(margs, ","))
		os.RemoveAll(filepath.Join(root, "l1"))
	}
}

// sorted top-level names of the destination in snapshot s that are absent from snapshot old (nil = all)
func c07rTopLevel(s, old c09Snap) []string {
	var out []string
	for rel := range s {
		rest := strings.TrimPrefix(rel, c09DestRel+"/")
		if rest == rel || strings.Contains(rest, "/") {
			continue
		}
		if old != nil {
			if _, ok := old[rel]; ok {
				continue
			}
		}
		out = append(out, rest)
	}
	sort.Strings(out)
	return out
}

// ------------------------------------------------------------------------------------------
// end to end

type c07eCase struct {
	cfg    e2eCfg
	desc   string
	seed   int64
	twice  bool
	viol   []string
	shown  [][]string
	nroots int
	series int // -2: none; -1: the complete series of the first source exists; k >= 0: all but name.k
}

// sources: a mix of empty directories, directory-only trees, normal trees and files
func c07eSources(rng *rand.Rand, dir string, directory bool) []string {
	names := []string{"cache", "skel", "x.txt", "tree", "empty2", "y"}
	rng.Shuffle(len(names), func(i, j int) { names[i], names[j] = names[j], names[i] })
	k := 1 + rng.Intn(4)
	var tops []string
	for _, nm := range names[:k] {
		p := filepath.Join(dir, nm)
		shape := rng.Intn(4)
		if !directory {
			shape = 0
		}
		switch shape {
		case 0:
			os.WriteFile(p, []byte("content of "+nm), 0644)
		case 1:
			os.MkdirAll(p, 0755)
		case 2:
			os.MkdirAll(filepath.Join(p, "a", "b"), 0755)
			os.MkdirAll(filepath.Join(p, "c"), 0755)
		case 3:
			os.MkdirAll(filepath.Join(p, "sub", "emptyleaf"), 0755)
			os.WriteFile(filepath.Join(p, "sub", "f.bin"), []byte("bytes of "+nm), 0644)
			os.WriteFile(filepath.Join(p, "top.txt"), nil, 0644)
		}
		tops = append(tops, p)
	}
	return tops
}

func genC07NamesE2E(c *ctx) {
	work, _ := os.MkdirTemp("", "c07names_e2e_")
	defer os.RemoveAll(work)
	nreg := c.pick(24, 240)
	n := nreg + c.pick(8, 48)
	protos := []int{0, 2, 3, 4}
	cases := make([]*c07eCase, n)
	for i := range cases {
		ec := &c07eCase{seed: c.rng.Int63(), twice: c.rng.Intn(2) == 0, series: -2}
		ec.cfg = e2eCfg{upload: i%2 == 0, proto: protos[(i/2)%4], directory: i%8 != 7, overwrite: (i/8)%3 == 2,
			binary: c.rng.Intn(2) == 0, timeout: 10, deadline: 40 * time.Second, quiet: true}
		if i >= nreg {
			// the destination holds name, name.0 .. name.999 of the FIRST source: complete (-1: the
			// transfer must fail and change nothing) or with one gap (the gap is the name shown)
			j := i - nreg
			ec.cfg.overwrite, ec.twice, ec.cfg.directory = false, false, j%3 != 2
			ec.series = -1
			if j%8 >= 6 {
				ec.series = []int{0, 9, 10, 100, 998, 999}[c.rng.Intn(6)]
			}
		}
		ec.desc = fmt.Sprintf("%s twice=%v series=%d seed=%d", describeCfg(ec.cfg), ec.twice, ec.series, ec.seed)
		cases[i] = ec
	}
	parallelDo(n, 8, func(i int) {
		ec := cases[i]
		rng := rand.New(rand.NewSource(ec.seed))
		root := filepath.Join(work, fmt.Sprint(i))
		dest := filepath.Join(root, "dest")
		src := filepath.Join(root, "src")
		os.MkdirAll(dest, 0755)
		os.MkdirAll(src, 0755)
		tops := c07eSources(rng, src, ec.cfg.directory)
		ec.nroots = len(tops)
		// prior state: some of the incoming names already exist (as a directory with content, or as a file)
		for _, t := range tops {
			// (with -y a file onto a directory or a directory onto a file is refused: keep the kinds equal)
			fi, _ := os.Stat(t)
			srcDir := fi != nil && fi.IsDir()
			switch rng.Intn(4) {
			case 0:
				if !ec.cfg.overwrite || srcDir {
					os.MkdirAll(filepath.Join(dest, filepath.Base(t)), 0755)
					os.WriteFile(filepath.Join(dest, filepath.Base(t), "old.db"), []byte("old"), 0644)
				}
			case 1:
				if !ec.cfg.overwrite || !srcDir {
					os.WriteFile(filepath.Join(dest, filepath.Base(t)), []byte("old file"), 0644)
				}
			}
		}
		if ec.series >= -1 {
			base := filepath.Base(tops[0])
			os.RemoveAll(filepath.Join(dest, base))
			os.WriteFile(filepath.Join(dest, base), []byte("series-base"), 0644)
			for k := 0; k < 1000; k++ {
				if k != ec.series {
					os.WriteFile(filepath.Join(dest, base+"."+strconv.Itoa(k)), []byte("s"), 0644)
				}
			}
		}
		rounds := 1
		if ec.twice && !ec.cfg.overwrite {
			rounds = 2
		}
		for round := 0; round < rounds; round++ {
			before, _ := snapshotTree(dest)
			topBefore := map[string]bool{}
			ents, _ := os.ReadDir(dest)
			for _, e := range ents {
				topBefore[e.Name()] = true
			}
			r := runTransfer(ec.cfg, tops, dest)
			shown := r.serverOut
			if !ec.cfg.upload {
				shown = r.termOut + r.serverOut
			}
			names, ok := parseSaved(shown)
			if ec.series == -1 {
				// exhausted: no success, nothing that existed changed
				if ok {
					ec.viol = append(ec.viol, fmt.Sprintf("name, name.0 .. name.999 of %q all exist and the transfer reports success: shown as saved %q",
						filepath.Base(tops[0]), names))
				}
				if r.hung {
					ec.viol = append(ec.viol, "hung on an exhausted series")
				}
				after, _ := snapshotTree(dest)
				for rel, e := range before {
					if a, ok := after[rel]; !ok || a != e {
						ec.viol = append(ec.viol, fmt.Sprintf("exhausted series: pre-existing %q changed", rel))
						break
					}
				}
				return
			}
			if !ok || r.hung || !r.clientDone || !r.serverExited || (ec.cfg.upload && r.uploadErr != nil) {
				ec.viol = append(ec.viol, fmt.Sprintf("no-success round %d: hung=%v clientDone=%v serverExited=%v uploadErr=%v saved=%v tail=%q",
					round, r.hung, r.clientDone, r.serverExited, r.uploadErr, ok, tailStr(r.termOut+"|"+r.serverOut, 200)))
				return
			}
			ec.shown = append(ec.shown, names)
			var newTop []string
			ents, _ = os.ReadDir(dest)
			for _, e := range ents {
				if !topBefore[e.Name()] {
					newTop = append(newTop, e.Name())
				}
			}
			sort.Strings(newTop)
			got := append([]string(nil), names...)
			sort.Strings(got)
			if !ec.cfg.overwrite {
				if strings.Join(got, "\x00") != strings.Join(newTop, "\x00") {
					ec.viol = append(ec.viol, fmt.Sprintf("round %d: shown as saved %q, new top-level entries of the destination %q", round, names, newTop))
				}
				after, _ := snapshotTree(dest)
				for rel, e := range before {
					if a, ok := after[rel]; !ok || a != e {
						ec.viol = append(ec.viol, fmt.Sprintf("round %d: pre-existing %q changed", round, rel))
					}
				}
			} else {
				seen := map[string]bool{}
				for _, nm := range names {
					seen[nm] = true
					if _, err := os.Lstat(filepath.Join(dest, nm)); err != nil {
						ec.viol = append(ec.viol, fmt.Sprintf("round %d: %q shown as saved but absent", round, nm))
					}
				}
				for _, nt := range newTop {
					if !seen[nt] {
						ec.viol = append(ec.viol, fmt.Sprintf("round %d: new entry %q not shown as saved (%q)", round, nt, names))
					}
				}
			}
			if ec.series >= 0 && len(names) > 0 && names[0] != filepath.Base(tops[0])+"."+strconv.Itoa(ec.series) {
				ec.viol = append(ec.viol, fmt.Sprintf("the only free name of the series is %s.%d, shown %q", filepath.Base(tops[0]), ec.series, names[0]))
			}
			if len(names) != len(tops) {
				ec.viol = append(ec.viol, fmt.Sprintf("round %d: %d sources, %d names shown (%q)", round, len(tops), len(names), names))
			} else {
				// the list follows the order of the sources
				for j, t := range tops {
					if b := filepath.Base(t); names[j] != b && !strings.HasPrefix(names[j], b+".") {
						ec.viol = append(ec.viol, fmt.Sprintf("round %d: sources %q, shown in another order %q", round, tops, names))
						break
					}
				}
			}
			for j, nm := range names {
				for _, other := range names[:j] {
					if other == nm {
						ec.viol = append(ec.viol, fmt.Sprintf("round %d: %q shown twice", round, nm))
					}
				}
			}
		}
		os.RemoveAll(root)
	})
	for _, ec := range cases {
		c.note(true, "names-e2e "+ec.desc+fmt.Sprintf(" => %q", ec.shown))
		c.count(fmt.Sprintf("proto:%d", ec.cfg.proto))
		c.count(fmt.Sprintf("upload:%v", ec.cfg.upload))
		c.count(fmt.Sprintf("overwrite:%v", ec.cfg.overwrite))
		if len(ec.viol) > 0 {
			kind := "saved-list"
			if strings.HasPrefix(ec.viol[0], "no-success") {
				kind = "saved-list-no-success"
			}
			c09Violate(c, kind+":"+describeCfg(ec.cfg), "the Saved message does not list exactly the top-level names the transfer created",
				ec.desc+" :: "+strings.Join(ec.viol, "; "))
		}
	}
}

// the roots of a session in order of first appearance, or nil when the positional comparison
// would be ambiguous (a root that is another root plus ".suffix", one path id for two roots, a
// foreign archive entry)
func c07rRootOrder(recs []c07rRec, plain bool) []string {
	var order []string
	idOf := map[string]int{}
	rootOf := map[int]string{}
	for _, r := range recs {
		if r.foreign {
			return nil
		}
		root, id := r.raw, -1
		if !plain {
			pid, rel, _, _, _, ok := trzsz.VerifDecodeSourceFile(r.raw)
			if !ok || len(rel) == 0 {
				return nil
			}
			root, id = rel[0], pid
			if prev, ok := rootOf[id]; ok && prev != root {
				return nil
			}
			rootOf[id] = root
			if prevID, ok := idOf[root]; ok && prevID != id {
				return nil
			}
		}
		if _, ok := idOf[root]; !ok {
			idOf[root] = id
			order = append(order, root)
		}
	}
	for _, a := range order {
		for _, b := range order {
			if a != b && strings.HasPrefix(a, b+".") {
				return nil
			}
		}
	}
	return order
}
