package main

// C18 (pause / resume), group "pausemodel": the REAL recvCheckV2 / checkStopAndPause of a real
// trzszTransfer (newTransfer, memory writer) are driven with real time by scripted schedules
// (call, line arrives, pause, resume, stop) and the observed outcome (delivered payload / timeout /
// stopped / bad line, the `pause` flag, the time of return, the number of keep-alive lines written)
// is compared with the prediction of the extracted model (Model/Pause.v rstep / sstep) for the same
// schedule.  One tick of the model = c18Unit ms; an event of slot j happens at j*c18Unit ms.
//
// Timing discipline (so that jitter cannot flip an outcome): every timer or sleep of the code starts
// at an event, so it ends at the same residue (mod the 100 ms sleep) as that event.  Events that can
// start a timer chain (call, resume, arrive) get residues at least 20 ms apart from every other event
// that comes later; the call has residue 0.  Arrivals may share a residue when they are not a multiple
// of the timeout apart (the order of a wake-up and an arriving line does not matter; a timer expiry
// and an arriving line would).

import (
	"bytes"
	"fmt"
	"sort"
	"strings"
	"sync"
	"time"

	"github.com/trzsz/trzsz-go/trzsz"
)

func init() { groups["pausemodel"] = genPauseModel }

const c18Unit = 10 // ms per model tick
const c18Tol = 80 // ms tolerance on the time of return

type c18Ev struct {
	slot int
	kind byte // C A P R S
	line []byte
	at   int // ms since the start at which the harness really applied it (a busy machine may be late)
}

type c18Scn struct {
	gate    bool
	proto   int
	timeout int // seconds
	expect  string
	horizon int
	evs     []c18Ev
	family  string
	// observed
	class   string
	pause   bool
	payload []byte
	ms      int
	keeps   int
}

func (s *c18Scn) sched() string {
	parts := make([]string, len(s.evs))
	for i, e := range s.evs {
		if e.kind == 'A' {
			parts[i] = fmt.Sprintf("%d:A:%s", e.slot, hx(e.line))
		} else {
			parts[i] = fmt.Sprintf("%d:%c", e.slot, e.kind)
		}
	}
	if len(parts) == 0 {
		return "-"
	}
	return strings.Join(parts, ",")
}

// c18Safe: no later event shares the residue (mod 10 slots) of an earlier chain-starting event,
// except arrivals of one train less than a timeout apart; nothing but the call on residue 0 and 1, 9.
func c18Safe(s *c18Scn) bool {
	tslots := s.timeout * 1000 / c18Unit
	for i, a := range s.evs {
		ra := a.slot % 10
		for j, b := range s.evs {
			if j == i {
				continue
			}
			if b.slot < a.slot || (b.slot == a.slot && j < i) {
				continue
			}
			rb := b.slot % 10
			d := (rb - ra + 10) % 10
			if d > 5 {
				d = 10 - d
			}
			starts := a.kind == 'C' || a.kind == 'R' || a.kind == 'A'
			if !starts {
				if b.slot == a.slot {
					return false
				}
				continue
			}
			if d >= 2 {
				continue
			}
			if d == 0 && a.kind == 'A' && b.kind == 'A' && (b.slot-a.slot)%tslots != 0 {
				continue
			}
			return false
		}
	}
	return true
}

func c18SleepUntil(start time.Time, slot int) {
	d := time.Until(start.Add(time.Duration(slot*c18Unit) * time.Millisecond))
	if d > 0 {
		time.Sleep(d)
	}
}

func c18Run(s *c18Scn) {
	v := trzsz.VerifNewPauseTransfer(s.proto, s.timeout)
	type res struct {
		class   string
		pause   bool
		payload []byte
		ms      int
		keeps   int
	}
	done := make(chan res, 1)
	var once sync.Once
	start := time.Now()
	for i, e := range s.evs {
		c18SleepUntil(start, e.slot)
		s.evs[i].at = int(time.Since(start) / time.Millisecond)
		switch e.kind {
		case 'C':
			once.Do(func() {
				go func() {
					if s.gate {
						cl := v.CheckStopAndPause(s.expect)
						ms := int(time.Since(start) / time.Millisecond)
						done <- res{class: cl, ms: ms, keeps: c18CountKeeps(v.Written(), s.expect)}
					} else {
						buf, p, cl := v.RecvCheckV2(s.expect)
						done <- res{cl, p, buf, int(time.Since(start) / time.Millisecond), 0}
					}
				}()
			})
		case 'A':
			v.AddLine(e.line)
		case 'P':
			v.Pause()
		case 'R':
			v.Resume()
		case 'S':
			v.Stop(false)
		}
	}
	left := time.Until(start.Add(time.Duration(s.horizon*c18Unit) * time.Millisecond))
	select {
	case r := <-done:
		s.class, s.pause, s.payload, s.ms, s.keeps = r.class, r.pause, r.payload, r.ms, r.keeps
	case <-time.After(left):
		s.class, s.ms = "none", -1
		s.keeps = c18CountKeeps(v.Written(), s.expect)
		v.Resume()
		v.Stop(false) // release the goroutine
	}
}

func c18CountKeeps(w []byte, typ string) int {
	return bytes.Count(w, []byte("#"+typ+":=\n"))
}

func genPauseModel(c *ctx) {
	var scns []*c18Scn
	good := func(i int) []byte { return []byte(fmt.Sprintf("#DATA:cGF5bG9hZC%d", i)) }
	keep := []byte("#DATA:=")
	T := 100 // slots per timeout (Timeout = 1 s)
	add := func(family string, proto int, horizon int, evs ...c18Ev) {
		sort.SliceStable(evs, func(i, j int) bool { return evs[i].slot < evs[j].slot })
		s := &c18Scn{proto: proto, timeout: 1, expect: "DATA", horizon: horizon, evs: evs, family: family}
		if !c18Safe(s) {
			c.count("dropped-unsafe-schedule:" + family)
			return
		}
		scns = append(scns, s)
	}
	addGate := func(family string, proto int, typ string, horizon int, evs ...c18Ev) {
		sort.SliceStable(evs, func(i, j int) bool { return evs[i].slot < evs[j].slot })
		s := &c18Scn{gate: true, proto: proto, timeout: 1, expect: typ, horizon: horizon, evs: evs, family: family}
		if !c18Safe(s) {
			c.count("dropped-unsafe-schedule:" + family)
			return
		}
		scns = append(scns, s)
	}
	C := func(slot int) c18Ev { return c18Ev{slot: slot, kind: 'C'} }
	A := func(slot int, l []byte) c18Ev { return c18Ev{slot: slot, kind: 'A', line: l} }
	P := func(slot int) c18Ev { return c18Ev{slot: slot, kind: 'P'} }
	R := func(slot int) c18Ev { return c18Ev{slot: slot, kind: 'R'} }
	S := func(slot int) c18Ev { return c18Ev{slot: slot, kind: 'S'} }
	protos := []int{3, 4}
	rep := c.pick(1, 3)
	for r := 0; r < rep; r++ {
		for _, pr := range protos {
			// F1 plain delivery, F2 silence
			for _, a := range []int{12, 54, 86} {
				add("plain", pr, a+30, C(0), A(a, good(a)))
			}
			add("silence", pr, T+40, C(0))
			// F3 pause during the read; line before the pause / during it / after the resume / never
			for _, pp := range []int{22, 62} {
				for _, rr := range []int{pp + 22, pp + 52, pp + 112, pp + 152} { // shorter and longer than the timeout
					rs := rr - rr%10 + 4
					for _, aa := range []int{pp - 16, pp + 14, rs + 32, rs + 82, -1} {
						if aa < 0 {
							add("pause-in-read-silent", pr, rs+2*T+60, C(0), P(pp), R(rs))
						} else {
							as := aa - aa%10 + 6
							add("pause-in-read", pr, maxInt(as, rs)+T+60, C(0), P(pp), R(rs), A(as, good(as)))
						}
					}
				}
			}
			// the line arrives after the ORIGINAL deadline but within the resumed one (newTimeout swap)
			add("swap-newtimeout", pr, 260, C(0), P(32), R(74), A(146, good(1)))
			add("swap-newtimeout", pr, 260, C(0), P(32), R(74), A(186, good(2))) // after the swapped timer too: retried read
			add("swap-newtimeout", pr, 420, C(0), P(32), R(74))
			// F4 paused before the call
			for _, rr := range []int{34, 134} {
				add("paused-before-call", pr, rr+T+60, P(2), C(10), R(rr), A(rr+42, good(rr)))
				add("paused-before-call", pr, rr+T+60, P(2), C(10), R(rr))
				add("paused-before-call", pr, rr+T+60, P(2), A(6, good(7)), C(10), R(rr))
			}
			// resume while nobody reads: the newTimeout must not be used by the next read
			add("resume-while-idle", pr, 2*T+80, P(2), R(44), C(50))
			add("resume-in-gate", pr, 2*T+80, P(2), C(10), R(44))
			// F5 keep-alive trains
			add("keepalive", pr, 330, C(0), A(52, keep), A(92, keep), A(132, keep), A(172, keep), A(212, keep), A(256, good(5)))
			add("keepalive", pr, 330, C(0), A(52, keep), A(102, keep), A(142, keep))            // then silence: timeout from the LAST keep-alive
			add("keepalive-queued", pr, 200, A(2, keep), A(4, keep), A(6, good(3)), C(20))       // queued before the call
			add("keepalive-queued", pr, 200, A(2, keep), A(4, keep), C(20))                      // only keep-alives queued
			add("keepalive-while-pausing", pr, 300, C(0), P(24), A(46, keep), R(88), A(122, good(9))) // our side pauses and the peer sends "="
			// F6 stop
			add("stop-in-read", pr, 150, C(0), S(46))
			add("stop-in-gate", pr, 150, P(2), C(10), S(46))
			add("stop-then-call", pr, 150, S(4), C(10))
			add("stop-in-pause-read", pr, 150, C(0), P(24), S(66))
			add("stop-after-timeout-in-pause", pr, 250, C(0), P(24), S(146))
			// F8 malformed lines
			add("bad-line", pr, 100, C(0), A(32, []byte("#SUCC:abc")))
			add("bad-line", pr, 100, C(0), A(32, []byte("nocolon")))
			add("bad-line", pr, 100, C(0), A(32, []byte(":x")))
			add("bad-line", pr, 100, C(0), A(32, []byte("#DATA:==")))
			add("bad-line", pr, 100, C(0), A(32, []byte("#DATA:")))
			add("bad-line", pr, 100, C(0), A(32, []byte("#DAT:=")))
			// repeated pauses
			add("double-pause", pr, 460, C(0), P(22), R(44), P(66), R(88), A(162, good(8)))
			add("double-pause", pr, 500, C(0), P(22), R(44), P(66), R(88))
			add("double-pause-no-resume", pr, 300, C(0), P(22), P(46), R(68), A(94, good(4)))
		}
		// protocol 2: no pause handling at all
		add("proto2", 2, 160, C(0), P(24), A(46, keep))
		add("proto2", 2, 160, C(0), P(24))
		add("proto2", 2, 160, P(2), C(10), A(46, good(1)))
		// random schedules
		for i := 0; i < c.pick(60, 400); i++ {
			pr := protos[c.rng.Intn(2)]
			res := c.rng.Perm(4) // residues 2,4,6,8
			var evs []c18Ev
			call := 0
			if c.rng.Intn(3) == 0 {
				call = 10 * (1 + c.rng.Intn(6))
			}
			evs = append(evs, C(call))
			slot := func(k int, lo, hi int) int { return 10*(lo+c.rng.Intn(hi-lo)) + 2 + 2*res[k] }
			last := call
			if c.rng.Intn(4) != 0 {
				p := slot(0, 0, 12)
				evs = append(evs, P(p))
				last = maxInt(last, p)
				if c.rng.Intn(5) != 0 {
					rr := slot(1, p/10+1, p/10+16)
					evs = append(evs, R(rr))
					last = maxInt(last, rr)
				}
			}
			if c.rng.Intn(3) != 0 {
				a := slot(2, 0, 30)
				l := good(i)
				if c.rng.Intn(4) == 0 {
					l = keep
				}
				evs = append(evs, A(a, l))
				last = maxInt(last, a)
			}
			if c.rng.Intn(5) == 0 {
				st := slot(3, 0, 25)
				evs = append(evs, S(st))
				last = maxInt(last, st)
			}
			add("random", pr, last+3*T+50, evs...)
		}
	}
	// the gate
	for _, pr := range []int{2, 3, 4} {
		for _, typ := range []string{"DATA", "SUCC"} {
			addGate("gate-open", pr, typ, 60, C(0))
			addGate("gate-paused", pr, typ, 200, P(2), C(10), R(64))
			addGate("gate-paused", pr, typ, 250, P(2), C(10), R(126))
			addGate("gate-paused-stop", pr, typ, 200, P(2), C(10), S(64))
			addGate("gate-stopped", pr, typ, 60, S(4), C(10))
			addGate("gate-never-resumed", pr, typ, 146, P(2), C(10))
			addGate("gate-resume-pause-again", pr, typ, 300, P(2), C(10), R(44), P(46), R(128))
		}
	}

	// every schedule is run three times: the machine may be busy and a sleep that ends a few ms late can
	// flip the order of a wake-up and the next scripted event; the model has to explain at least one of the runs
	// (a real disagreement shows in all three)
	const attempts = 3
	alts := make([][]*c18Scn, len(scns))
	parallelDo(len(scns), len(scns), func(i int) { c18Run(scns[i]) })
	for a := 1; a < attempts; a++ { // one wave after the other: three times as many goroutines at once would disturb each other
		wave := make([]*c18Scn, len(scns))
		for i, s := range scns {
			cp := *s
			cp.evs = append([]c18Ev(nil), s.evs...)
			wave[i] = &cp
			alts[i] = append(alts[i], &cp)
		}
		parallelDo(len(wave), len(wave), func(i int) { c18Run(wave[i]) })
	}

	for si, s := range scns {
		c.count("family:" + s.family)
		c.count("outcome:" + s.class)
		nontrivial := false
		for _, e := range s.evs {
			if e.kind == 'P' || e.kind == 'S' || (e.kind == 'A' && bytes.Equal(e.line, keep)) {
				nontrivial = true
			}
		}
		if s.gate {
			measured := fmt.Sprintf("%s:%d:%d", s.class, s.keeps, s.ms)
			for _, a := range alts[si] {
				measured += fmt.Sprintf("|%s:%d:%d", a.class, a.keeps, a.ms)
			}
			c.emit(nontrivial, "pm_gate", "match", fmt.Sprint(c18Unit), fmt.Sprint(s.proto), fmt.Sprint(s.horizon), s.sched(), measured, fmt.Sprint(c18Tol))
			c18GateOracles(c, s)
			continue
		}
		if s.pause {
			c.count("pause-flag-set")
		}
		obs := func(s *c18Scn) string {
			if s.class != "ok" {
				return fmt.Sprintf("%s:%s:-:%d", s.class, map[bool]string{false: "0", true: "1"}[s.pause], s.ms)
			}
			return fmt.Sprintf("%s:%s:%s:%d", s.class, map[bool]string{false: "0", true: "1"}[s.pause], hx(s.payload), s.ms)
		}
		measured := obs(s)
		for _, a := range alts[si] {
			measured += "|" + obs(a)
		}
		c.emit(nontrivial, "pm_reader", "match", fmt.Sprint(c18Unit), fmt.Sprint(s.proto), fmt.Sprint(s.timeout), hx([]byte(s.expect)),
			fmt.Sprint(s.horizon), s.sched(), measured, fmt.Sprint(c18Tol))
		c18ReaderOracles(c, s)
	}
	// the line classifier and the keep-alive line, byte level
	for _, typ := range []string{"DATA", "SUCC"} {
		v := trzsz.VerifNewPauseTransfer(3, 1)
		v.Pause()
		go func() { time.Sleep(30 * time.Millisecond); v.Resume() }()
		v.CheckStopAndPause(typ)
		w := v.Written()
		first := w
		if i := bytes.IndexByte(w, '\n'); i >= 0 {
			first = w[:i]
		}
		c.emit(true, "pm_keepalive", hx(first), hx([]byte(typ)))
		c.emit(true, "pm_classify", "keep", hx([]byte(typ)), hx(first))
	}
}

func maxInt(a, b int) int {
	if a > b {
		return a
	}
	return b
}

// direct oracles on the implementation (independent of the model)

func c18ReaderOracles(c *ctx, s *c18Scn) {
	desc := fmt.Sprintf("recvCheckV2(%s) protocol=%d timeout=%ds schedule(slot=%dms)=%s => %s pause=%v payload=%q at %d ms",
		s.expect, s.proto, s.timeout, c18Unit, s.sched(), s.class, s.pause, s.payload, s.ms)
	if s.proto < 3 {
		return
	}
	// a keep-alive never completes a read
	if s.class == "ok" && string(s.payload) == "=" {
		c.violate("keepalive-delivered:"+s.family, "a keep-alive line was returned as a payload", desc)
	}
	// no false timeout: a timeout error needs a full timeout of quiet, un-paused waiting just before it
	if s.class == "timeout" {
		tms := s.timeout * 1000
		pausing := false
		lastDisturb := -1 << 30
		for _, e := range s.evs {
			at := e.at
			if at >= s.ms {
				break
			}
			switch e.kind {
			case 'P':
				pausing = true
				lastDisturb = at
			case 'R':
				pausing = false
				lastDisturb = at
			case 'A', 'C':
				lastDisturb = at
			}
		}
		if pausing {
			c.violate("timeout-while-paused:"+s.family, "recvCheckV2 returned a timeout error while the transfer was paused", desc)
		} else if s.ms-lastDisturb < tms-c18Tol {
			c.violate("false-timeout:"+s.family, "recvCheckV2 returned a timeout error less than a timeout after the last line / pause / resume", desc)
		}
	}
	// no hang: not paused at the end and more than 3 timeouts + a sleep of quiet => must have returned
	if s.class == "none" {
		pausing, called := false, false
		last := 0
		for _, e := range s.evs {
			switch e.kind {
			case 'P':
				pausing = true
			case 'R':
				pausing = false
			case 'C':
				called = true
			}
			last = e.at
		}
		if called && !pausing && s.horizon*c18Unit-last > 3*s.timeout*1000+200 {
			c.violate("reader-hang:"+s.family, "recvCheckV2 did not return although the transfer was not paused", desc)
		}
	}
}

func c18GateOracles(c *ctx, s *c18Scn) {
	desc := fmt.Sprintf("checkStopAndPause(%s) protocol=%d schedule(slot=%dms)=%s => %s keepalives=%d at %d ms",
		s.expect, s.proto, c18Unit, s.sched(), s.class, s.keeps, s.ms)
	if s.proto < 3 {
		return
	}
	// the gate does not open while pausing; after a resume it opens within one sleep
	pausing, stopped := false, false
	lastResume := -1
	for _, e := range s.evs {
		at := e.at
		if s.class != "none" && at >= s.ms {
			break
		}
		switch e.kind {
		case 'P':
			pausing = true
		case 'R':
			pausing = false
			lastResume = at
		case 'S':
			stopped = true
		}
	}
	if s.class == "ok" && pausing {
		c.violate("gate-open-while-paused:"+s.family, "checkStopAndPause returned nil while the transfer was paused", desc)
	}
	if s.class == "ok" && lastResume >= 0 && s.ms-lastResume > 100+50 {
		c.violate("gate-slow-resume:"+s.family, "checkStopAndPause returned later than one sleep after the resume", desc)
	}
	if s.class == "none" && !pausing && !stopped {
		c.violate("gate-hang:"+s.family, "checkStopAndPause did not return although the transfer was not paused", desc)
	}
}

// group "pausecomp": differential execution of the two extracted composition machines (cstep, which
// runs the reader machine itself on both sides, and astep, the abstraction the composition theorem is
// proved for) on random schedules.  No implementation code is involved: this backs the simulation
// lemma that is not proved (C18_short_pause_completes_full).
func init() { groups["pausecomp"] = genPauseComp }

func genPauseComp(c *ctx) {
	letters := []byte("CWUra")
	for i := 0; i < c.pick(1500, 20000); i++ {
		T := 3 + c.rng.Intn(12)
		sl, gl := 1+c.rng.Intn(3), 1+c.rng.Intn(3)
		n := c.rng.Intn(14)
		W := []int{1, 2, 5}[c.rng.Intn(3)]
		short := c.rng.Intn(3) != 0
		P := c.rng.Intn(T + 6)
		slack := sl
		if gl > slack {
			slack = gl
		}
		if short {
			P = c.rng.Intn(maxInt(1, T-slack))
		}
		ln := 100 + c.rng.Intn(500)
		ev := make([]byte, ln)
		pausy := c.rng.Intn(3)
		for j := range ev {
			r := c.rng.Intn(100)
			switch {
			case r < 14:
				ev[j] = 'T'
			case r < 14+3*pausy:
				ev[j] = 'P'
			case r < 14+6*pausy:
				ev[j] = 'R'
			default:
				ev[j] = letters[c.rng.Intn(len(letters))]
			}
		}
		want := "agree:0"
		if !(P+slack < T) {
			want = "" // an error may or may not be reached
		}
		args := []string{fmt.Sprint(T), fmt.Sprint(sl), fmt.Sprint(gl), fmt.Sprint(n), fmt.Sprint(W), fmt.Sprint(P), string(ev)}
		if want == "" {
			c.count("long-pause-schedule")
			c.emit(pausy > 0, "pc_sim_any", "agree", args...)
		} else {
			c.count("short-pause-schedule")
			c.emit(pausy > 0, "pc_sim", want, args...)
		}
	}
}
