package main

// C13 — process structure of the relay group, crash reports with the input, and the scenario
// "the client answers the trigger at once".
//
// Every relay of the group runs in a CHILD process of this harness (group relay_inner): the
// plain build for the unperturbed families (C13_MODE=plain), the overlay build for the
// perturbed / traced / scheduled passes.  A relay that panics (an unrecovered panic in the
// handshake goroutine, a send on a closed channel) kills only its child.  Each child keeps a
// journal (C13_JOURNAL): "B id" when a run starts, "W id side hex" in front of every chunk it
// feeds, "E id" when the run is over.  When a child dies the parent takes the runs that were in
// flight, runs exactly those again one after the other in a fresh child (C13_ONLY, C13_SERIAL)
// and reports the run that kills the relay again with the chunks it had been fed
// (relay-inner-crash-<pass>); if none does, all runs in flight are listed.

import (
	"bytes"
	"encoding/hex"
	"encoding/json"
	"fmt"
	"io"
	"os"
	"os/exec"
	"runtime"
	"sort"
	"strings"
	"sync"
	"time"

	"github.com/trzsz/trzsz-go/trzsz"
)

// ---- journal ----

var c13J struct {
	mu   sync.Mutex
	f    *os.File
	only map[string]bool
	init bool
}

func c13JInit() {
	c13J.mu.Lock()
	defer c13J.mu.Unlock()
	if c13J.init {
		return
	}
	c13J.init = true
	if p := os.Getenv("C13_JOURNAL"); p != "" {
		c13J.f, _ = os.OpenFile(p, os.O_APPEND|os.O_CREATE|os.O_WRONLY, 0644)
	}
	if o := os.Getenv("C13_ONLY"); o != "" {
		c13J.only = map[string]bool{}
		for _, id := range strings.Split(o, ",") {
			c13J.only[id] = true
		}
	}
}

func c13JLine(s string) {
	c13JInit()
	if c13J.f == nil {
		return
	}
	c13J.mu.Lock()
	c13J.f.WriteString(s)
	c13J.mu.Unlock()
}

func c13JBegin(id string) { c13JLine("B " + id + "\n") }
func c13JEnd(id string)   { c13JLine("E " + id + "\n") }
func c13JWrite(id string, side byte, b []byte) {
	c13JLine("W " + id + " " + string(rune(side)) + " " + hex.EncodeToString(b) + "\n")
}

// c13Only: is this run selected (C13_ONLY unset = every run)
func c13Only(id string) bool {
	c13JInit()
	return c13J.only == nil || c13J.only[id]
}

func c13Serial() bool { return os.Getenv("C13_SERIAL") == "1" }

// the runs of a journal that began and did not end, with the chunks fed so far
func c13JInFlight(path string) (ids []string, fed map[string][]string) {
	fed = map[string][]string{}
	b, err := os.ReadFile(path)
	if err != nil {
		return nil, fed
	}
	open := map[string]bool{}
	for _, l := range strings.Split(string(b), "\n") {
		f := strings.Split(l, " ")
		switch {
		case len(f) == 2 && f[0] == "B":
			open[f[1]] = true
		case len(f) == 2 && f[0] == "E":
			delete(open, f[1])
		case len(f) == 4 && f[0] == "W":
			fed[f[1]] = append(fed[f[1]], f[2]+":"+f[3])
		}
	}
	for id := range open {
		ids = append(ids, id)
	}
	sort.Strings(ids)
	return ids, fed
}

// ---- one pass = one child process ----

type c13Pass struct {
	name string // plain perturbed traced sched
	exe  string
	env  []string
}

type c13ChildStats struct {
	Evaluations  int                 `json:"evaluations"`
	Nontrivial   int                 `json:"distinct_nontrivial"`
	Samples      []string            `json:"samples"`
	Distribution map[string]int      `json:"distribution"`
	Violations   []map[string]string `json:"violations"`
}

func c13PanicHead(out []byte) string {
	txt := string(out)
	i := strings.Index(txt, "panic:")
	if i < 0 {
		i = strings.Index(txt, "fatal error:")
	}
	if i < 0 {
		if len(txt) > 600 {
			txt = txt[len(txt)-600:]
		}
		return txt
	}
	txt = txt[i:]
	// the message and the stack of the panicking goroutine
	if j := strings.Index(txt, "\n\ngoroutine "); j >= 0 {
		if k := strings.Index(txt[j+2:], "\n\n"); k >= 0 {
			txt = txt[:j+2+k]
		}
	}
	if len(txt) > 1400 {
		txt = txt[:1400]
	}
	return txt
}

func c13FedText(id string, fed map[string][]string) string {
	f := fed[id]
	if len(f) > 40 {
		f = f[len(f)-40:]
	}
	return "run " + id + " had been fed (side:hex, in order) " + strings.Join(f, " ")
}

// runs the child of a pass; on a crash finds the run that kills the relay and reports it
func c13RunPass(c *ctx, p c13Pass, dir string, merge func(p c13Pass, st *c13ChildStats, cases string, vpSeed int64)) {
	cases, stats, journal := dir+"/cases_"+p.name, dir+"/stats_"+p.name, dir+"/journal_"+p.name
	vpSeed := c.rng.Int63()
	seedArg := fmt.Sprint(vpSeed % 1000000007)
	child := func(extra []string, cases, stats, journal string) ([]byte, error) {
		cmd := exec.Command(p.exe, "relay_inner", seedArg, c.tier, cases, stats)
		cmd.Dir = dir
		cmd.Env = append(append(append(os.Environ(), p.env...), extra...), fmt.Sprintf("VERIF_VP_SEED=%d", vpSeed),
			"VERIF_VP_COUNT_FILE="+dir+"/vpcount_"+p.name, "C13_JOURNAL="+journal)
		return cmd.CombinedOutput()
	}
	out, err := child(nil, cases, stats, journal)
	if err == nil {
		js, err := os.ReadFile(stats)
		if err != nil {
			panic(err)
		}
		var st c13ChildStats
		if err := json.Unmarshal(js, &st); err != nil {
			panic(err)
		}
		merge(p, &st, cases, vpSeed)
		return
	}
	head := c13PanicHead(out)
	ids, fed := c13JInFlight(journal)
	c.stats["crash:"+p.name+":runs_in_flight"] += len(ids)
	var culprit []string
	if len(ids) > 0 && len(ids) <= 200 {
		j2 := journal + "_retry"
		out2, err2 := child([]string{"C13_ONLY=" + strings.Join(ids, ","), "C13_SERIAL=1"}, cases+"_retry", stats+"_retry", j2)
		if err2 != nil {
			ids2, fed2 := c13JInFlight(j2)
			for _, id := range ids2 {
				culprit = append(culprit, c13FedText(id, fed2))
			}
			if len(ids2) > 0 {
				head = c13PanicHead(out2)
				c.count("crash:" + p.name + ":reproduced_alone")
			}
		}
	}
	if len(culprit) == 0 {
		for i, id := range ids {
			if i >= 6 {
				culprit = append(culprit, fmt.Sprintf("... and %d more runs in flight", len(ids)-6))
				break
			}
			culprit = append(culprit, c13FedText(id, fed))
		}
		if len(ids) > 0 {
			culprit = append([]string{"(the crash did not repeat when the runs in flight were run again one by one: schedule dependent)"}, culprit...)
		}
	}
	if strings.Contains(string(out)+head, "send on closed channel") && strings.Contains(string(out)+head, "flushHandshakeBuffer") {
		// the reader of a side that reached EOF has closed its channel (deferred close in wrapInput /
		// wrapOutput) while the handshake worker still flushes the parked chunks into it: a known
		// finding of its own (the session is ending: the harness closes the streams at the end of a run)
		c.violate("relay-eof-during-handshake-flush", "the relay panics (send on closed channel) when a side reaches EOF while the handshake worker flushes the parked chunks",
			head+" | pass "+p.name+" | "+strings.Join(culprit, " | ")+fmt.Sprintf(" | VERIF_VP_SEED=%d", vpSeed))
		return
	}
	c.violate("relay-inner-crash-"+p.name, "the relay died in pass '"+p.name+"' of the relay harness (unrecovered panic: the relay process on the jump host would be gone, with everything parked and every later byte): "+err.Error(),
		head+" | "+strings.Join(culprit, " | ")+fmt.Sprintf(" | VERIF_VP_SEED=%d", vpSeed))
}

// ---- the client answers the trigger at once ----
//
// The client's #ACT: answer is written from INSIDE the Write call that delivers the trigger line
// to the client: the input reader gets it while the output reader has barely returned from its
// channel send.  Whatever is started asynchronously by the output reader (the handshake worker)
// races with it; the status must already say "handshaking".  Fresh relays, GOMAXPROCS 2..16.

type c13AnswerSink struct {
	c13Sink
	amu      sync.Mutex
	want     []byte
	answered bool
	answer   func()
}

func (a *c13AnswerSink) Write(p []byte) (int, error) {
	n, err := a.c13Sink.Write(p)
	a.amu.Lock()
	fire := !a.answered && bytes.Contains(a.c13Sink.snapshot(), a.want)
	if fire {
		a.answered = true
	}
	a.amu.Unlock()
	if fire {
		a.answer()
	}
	return n, err
}

func c13EntryOne(idx int, confirm bool) (good bool, why, detail string) {
	s := &c13LateScn{rawC: map[string]bool{}, rawS: map[string]bool{}, name: "entry", nRelay: 1}
	id := fmt.Sprintf("%02d%09d00", idx%90+10, (idx*7919+13)%1000000000)
	s.trig = [][2]string{{id[:11] + "20:0#R", id + ":0"}}
	act := c13Line("ACT", fmt.Sprintf(`{"verif":1, "lang":"E%d","version":"1.1.5","confirm":%v,"newline":"\n","protocol":2,"binary":true,"support_dir":true}`, idx, confirm))
	cfg := c13Line("CFG", fmt.Sprintf(`{"verif":1, "quiet":false,"binary":false,"directory":false,"overwrite":false,"timeout":%d,"newline":"\n","protocol":2,"bufsize":10485760}`, 21+idx%50))
	s.rawC[string(act)] = true
	s.rawS[string(cfg)] = true
	rid := fmt.Sprintf("entry-%d", idx)
	c13JBegin(rid)
	defer c13JEnd(rid)
	cInR, cInW := io.Pipe()
	sOutR, sOutW := io.Pipe()
	sIn := newC13Sink()
	cOut := &c13AnswerSink{c13Sink: c13Sink{ch: make(chan struct{}, 1)}, want: []byte(s.trig[0][0])}
	var wmu sync.Mutex
	cw := func(b []byte) {
		wmu.Lock()
		s.realC = append(s.realC, b)
		wmu.Unlock()
		c13JWrite(rid, 'c', b)
		cInW.Write(b)
	}
	sw := func(b []byte) { s.realS = append(s.realS, b); c13JWrite(rid, 's', b); sOutW.Write(b) }
	ansDone := make(chan struct{})
	cOut.answer = func() { cw(act); close(ansDone) }
	_ = trzsz.NewTrzszRelay(cInR, cOut, sIn, sOutR, trzsz.TrzszOptions{})
	sw([]byte("::TRZSZ:TRANSFER:R:1.1.5:" + id + ":0\r\n"))
	// the server answers whatever ACT line it gets
	sIn.waitFor(func(b []byte) bool { return bytes.Contains(b, []byte("#ACT:")) }, time.Second)
	if confirm {
		sw(cfg)
		if cOut.waitFor(func(b []byte) bool { return c13CountToks(b, "CFG", s.rawS) >= 1 }, time.Second) {
			sw([]byte("#DATA:B\n"))
			sw([]byte("#EXIT:done\n"))
			cOut.waitFor(func(b []byte) bool { return bytes.Contains(b, []byte("#EXIT:done\n")) }, time.Second)
		}
	} else {
		sIn.waitFor(func(b []byte) bool { return c13CountToks(b, "ACT", s.rawC) >= 1 }, time.Second)
	}
	time.Sleep(2 * time.Millisecond)
	sw([]byte("AFTER\n"))
	select { // the client's later chunk follows its answer
	case <-ansDone:
	case <-time.After(time.Second):
	}
	cw([]byte("typed\n"))
	wmu.Lock()
	defer wmu.Unlock()
	good, why = c13LateVerdict(s, &cOut.c13Sink, sIn, len(s.realC), len(s.realS), 1500*time.Millisecond)
	detail = c13LateDetail(s, &cOut.c13Sink, sIn, "")
	if good {
		cInW.Close()
		sOutW.Close()
	}
	return
}

func c13EntryAll(c *ctx) {
	old := runtime.GOMAXPROCS(0)
	defer runtime.GOMAXPROCS(old)
	n := c.pick(40, 250)
	idx := 0
	for _, procs := range []int{2, 4, 8, 16} {
		runtime.GOMAXPROCS(procs)
		for i := 0; i < n; i++ {
			idx++
			if !c13Only(fmt.Sprintf("entry-%d", idx)) {
				continue
			}
			good, why, detail := c13EntryOne(idx, i%5 != 4)
			c.count("entry:runs")
			c.count(fmt.Sprintf("entry:gomaxprocs_%d", procs))
			c.note(true, fmt.Sprintf("client answers the trigger from inside Write, GOMAXPROCS=%d #%d", procs, i))
			if !good {
				c.violate("relay-entry-immediate-answer", fmt.Sprintf("the client answered the trigger at once (its ACT written from inside the Write that delivered the trigger, GOMAXPROCS=%d, fresh relay %d): %s", procs, i, why), detail)
				return
			}
		}
	}
}
