package main

// C02 no silent corruption: byte-level faults on the connection (bit flip, deletion,
// duplication, insertion, truncation of the tail) at sampled offsets of either
// direction, in every phase.  Direct oracle on the real client and the real server:
// whenever a side reports success, the destination is byte-identical to the source.

import (
	"bytes"
	"fmt"
	"math/rand"
	"os"
	"path/filepath"
	"strings"
	"sync"
	"time"
)

func init() { groups["e2e-faults"] = genFaults }

type faultSpec struct {
	dir    int
	offset int64
	kind   string // flip, delete, dup, insert, truncate
	bit    uint
}

func (f faultSpec) String() string {
	d := "c2s"
	if f.dir == dirS2C {
		d = "s2c"
	}
	return fmt.Sprintf("%s@%s+%d", f.kind, d, f.offset)
}

// faultHook applies one fault at an absolute byte offset of one direction
func faultHook(f faultSpec) e2eHook {
	var mu sync.Mutex
	var pos [2]int64
	done := false
	return func(dir, idx int, b []byte) e2eAction {
		mu.Lock()
		defer mu.Unlock()
		start := pos[dir]
		pos[dir] += int64(len(b))
		if done || dir != f.dir || f.offset < start || f.offset >= start+int64(len(b)) {
			return e2eAction{}
		}
		done = true
		k := int(f.offset - start)
		nb := append([]byte(nil), b...)
		switch f.kind {
		case "flip":
			nb[k] ^= 1 << f.bit
		case "delete":
			nb = append(nb[:k], nb[k+1:]...)
		case "dup":
			nb = append(nb[:k+1], nb[k:]...)
		case "insert":
			nb = append(nb[:k], append([]byte{byte('0' + f.bit)}, nb[k:]...)...)
		case "truncate":
			return e2eAction{data: [][]byte{nb[:k]}, silence: true}
		}
		if len(nb) == 0 {
			return e2eAction{drop: true}
		}
		return e2eAction{data: [][]byte{nb}}
	}
}

func phaseAt(wire []byte, off int64) string {
	if off >= int64(len(wire)) {
		return "end"
	}
	// the line containing the offset
	s := bytes.LastIndexByte(wire[:off], '\n') + 1
	l := wire[s:]
	if i := bytes.IndexByte(l, '#'); i >= 0 && i < 4 {
		if j := bytes.IndexByte(l[i:], ':'); j > 0 && j < 8 {
			return string(l[i+1 : i+j])
		}
	}
	if bytes.Contains(l[:minInt(len(l), 40)], []byte("TRZSZ")) {
		return "trigger"
	}
	return "payload"
}

func minInt(a, b int) int {
	if a < b {
		return a
	}
	return b
}

func genFaults(c *ctx) {
	work, _ := os.MkdirTemp("", "e2e_faults_")
	defer os.RemoveAll(work)
	type base struct {
		cfg  e2eCfg
		tops []string
		wire [2][]byte
		root string
	}
	var bases []*base
	protos := []int{0, 2, 3, 4}
	for i := 0; i < c.pick(6, 24); i++ {
		b := &base{root: filepath.Join(work, fmt.Sprintf("b%d", i))}
		b.cfg = e2eCfg{upload: i%2 == 0, binary: (i/2)%2 == 0, proto: protos[i%len(protos)], timeout: 2, quiet: true,
			overwrite: i%3 == 0, escape: i%5 == 0, deadline: 25 * time.Second, startWait: 1500 * time.Millisecond,
			// without compression a changed payload byte survives decoding: the digest check is the only guard
			compress: []string{"no", "", "no", "yes"}[(i/2)%4]}
		rng := rand.New(rand.NewSource(c.rng.Int63()))
		os.MkdirAll(filepath.Join(b.root, "s"), 0755)
		for j, n := range []int{1500 + rng.Intn(3000), rng.Intn(200)} {
			p := filepath.Join(b.root, "s", fmt.Sprintf("f%d.bin", j))
			os.WriteFile(p, fillBytes(rng, n, rng.Intn(4)), 0644)
			b.tops = append(b.tops, p)
		}
		bases = append(bases, b)
	}
	// baseline (fault-free) runs give the wire of each direction
	parallelDo(len(bases), 12, func(i int) {
		b := bases[i]
		dest := filepath.Join(b.root, "dest0")
		os.MkdirAll(dest, 0755)
		r := runTransfer(b.cfg, b.tops, dest)
		b.wire = r.wire
	})
	type fcase struct {
		b      *base
		f      faultSpec
		phase  string
		res    e2eResult
		bad    string
		succ   string
	}
	var cases []*fcase
	kinds := []string{"flip", "delete", "dup", "insert", "truncate"}
	per := c.pick(28, 400)
	for _, b := range bases {
		if len(b.wire[0]) == 0 || len(b.wire[1]) == 0 {
			c.violate("baseline-failed", "fault-free baseline transfer produced no traffic", describeCfg(b.cfg))
			continue
		}
		for k := 0; k < per; k++ {
			dir := c.rng.Intn(2)
			f := faultSpec{dir: dir, offset: int64(c.rng.Intn(len(b.wire[dir]))), kind: kinds[c.rng.Intn(len(kinds))], bit: uint(c.rng.Intn(8))}
			if k%2 == 0 {
				// half of the faults are same-length substitutions inside file data, in the direction
				// that carries it: the class of damage that only the digest comparison can catch
				f.kind = "flip"
				f.dir = dirS2C
				if b.cfg.upload {
					f.dir = dirC2S
				}
				for try := 0; try < 50; try++ {
					f.offset = int64(c.rng.Intn(len(b.wire[f.dir])))
					if ph := phaseAt(b.wire[f.dir], f.offset); ph == "DATA" || ph == "payload" {
						break
					}
				}
			}
			cases = append(cases, &fcase{b: b, f: f, phase: phaseAt(b.wire[f.dir], f.offset)})
		}
	}
	parallelDo(len(cases), 40, func(i int) {
		fc := cases[i]
		dest := filepath.Join(fc.b.root, fmt.Sprintf("d%d", i))
		os.MkdirAll(dest, 0755)
		cfg := fc.b.cfg
		cfg.hook = faultHook(fc.f)
		fc.res = runTransfer(cfg, fc.b.tops, dest)
		r := fc.res
		shown := r.serverOut
		if !cfg.upload {
			shown = r.termOut + r.serverOut
		}
		names, saved := parseSaved(shown)
		clientOK := cfg.upload && r.uploadErr == nil && r.started
		if saved || clientOK {
			fc.succ = fmt.Sprintf("saved-shown=%v client-upload-ok=%v names=%v", saved, clientOK, names)
			// success claimed: every source must be present, identical
			if saved && len(names) != len(fc.b.tops) {
				fc.bad = fmt.Sprintf("success shown with names %v for %d sources", names, len(fc.b.tops))
			} else {
				for j, top := range fc.b.tops {
					name := filepath.Base(top)
					if saved {
						name = names[j]
					}
					if d := sameTree(top, filepath.Join(dest, name)); len(d) > 0 {
						fc.bad = strings.Join(d, ";")
						break
					}
				}
			}
		}
		os.RemoveAll(dest)
	})
	for _, fc := range cases {
		c.note(fc.succ == "", fmt.Sprintf("fault %s phase=%s %s => success=%q hung=%v", fc.f, fc.phase, describeCfg(fc.b.cfg), fc.succ, fc.res.hung))
		c.count("phase:" + fc.phase)
		c.count("kind:" + fc.f.kind)
		if fc.succ != "" {
			c.count("outcome:success-identical")
		} else {
			c.count("outcome:error")
		}
		if fc.bad != "" {
			c.violate("silent-corruption:"+fc.f.kind+":"+fc.phase, "a side reported success although the destination differs from the source",
				fmt.Sprintf("fault %s (bit %d) phase=%s cfg: %s :: %s :: %s", fc.f, fc.f.bit, fc.phase, describeCfg(fc.b.cfg), fc.succ, fc.bad))
		}
	}
}
