package main

// C02 no silent corruption, end to end: faults on the connection between the real client and
// the real trz / tsz child - bit flip, deletion, duplication, insertion of one byte, truncation of
// the tail, a byte range cut out (truncation followed by late delivery), a byte range delivered
// twice, a whole protocol line dropped / duplicated / replaced by a well-formed line with another
// value (digest forged, acknowledged length changed) - one to three per run, at sampled offsets of
// either direction, in every phase, including the prefix-hash exchange (overwrite onto existing
// destinations, protocol >= 3) and archive streams (directory mode, protocol 4).
//
// Direct oracle on the real client and the real server: whenever a side reports success, the
// destination is byte-identical to the source.  Transcript-level tie (c02f.go): the model's
// receiver and sender machines, fed with what was DELIVERED, must write what the real ones
// wrote, save what they saved and end as they ended.

import (
	"bytes"
	"crypto/md5"
	"encoding/json"
	"fmt"
	"math/rand"
	"os"
	"path/filepath"
	"sort"
	"strconv"
	"strings"
	"sync"
	"time"

	"github.com/trzsz/trzsz-go/trzsz"
)

func init() { groups["e2e-faults"] = genFaults }

type faultSpec struct {
	dir    int
	offset int64 // position in the stream of dir AS SENT
	end    int64 // cut / dupr: the range is [offset, end)
	kind   string
	bit    uint
	// line faults: the nth line of dir that starts with prefix (counted over whole writes)
	prefix string
	nth    int
	repl   string // forge: the line to put in its place ("" = c02Forge)
}

func (f faultSpec) String() string {
	d := "c2s"
	if f.dir == dirS2C {
		d = "s2c"
	}
	switch f.kind {
	case "cut", "dupr":
		return fmt.Sprintf("%s@%s+%d..%d", f.kind, d, f.offset, f.end)
	case "dropline", "dupline", "forge":
		return fmt.Sprintf("%s@%s:%s#%d", f.kind, d, f.prefix, f.nth)
	}
	return fmt.Sprintf("%s@%s+%d", f.kind, d, f.offset)
}

// c02Forge: a well-formed line with another value
func c02Forge(line []byte, rng uint) []byte {
	s := strings.TrimSuffix(string(line), "\n")
	i := strings.IndexByte(s, ':')
	if i < 0 {
		return line
	}
	head, p := s[:i+1], s[i+1:]
	if k := strings.IndexByte(p, '/'); k >= 0 { // len/step
		if n, err := strconv.ParseInt(p[:k], 10, 64); err == nil {
			return []byte(fmt.Sprintf("%s%d%s\n", head, n+1, p[k:]))
		}
	}
	if n, err := strconv.ParseInt(p, 10, 64); err == nil {
		return []byte(fmt.Sprintf("%s%d\n", head, n+1))
	}
	if d, err := trzsz.VerifDecodeString(p); err == nil && len(d) > 0 {
		nd := append([]byte{}, d...)
		nd[int(rng)%len(nd)] ^= 1 << (rng % 8)
		return []byte(head + trzsz.VerifEncodeBytes(nd) + "\n")
	}
	return line
}

// c02Hook applies the faults of one run and records both directions as sent
type c02Hook struct {
	mu        sync.Mutex
	faults    []*faultSpec
	pos       [2]int64
	sent      [2]bytes.Buffer
	truncated [2]bool
	carry     map[*faultSpec][]byte
	dpos      [2]int64     // bytes delivered so far
	last      [2]time.Time // when the previous delivery of this direction happened
	stale     [2]int64     // -1, or the delivered offset behind which everything arrived after a silence
	// longer than the receive timeout: the reader had given up before it came
	lineSeen map[*faultSpec]int
	applied  map[*faultSpec]bool
}

func newC02Hook(fs []faultSpec) *c02Hook {
	h := &c02Hook{carry: map[*faultSpec][]byte{}, lineSeen: map[*faultSpec]int{}, applied: map[*faultSpec]bool{}}
	for i := range fs {
		h.faults = append(h.faults, &fs[i])
	}
	h.stale = [2]int64{-1, -1}
	return h
}

// c02StaleGap: both ends run with a receive timeout of 2 s (e2eCfg.timeout); the gaps that occur are
// far below it or above it (a timeout of the peer plus its clean-up)
const c02StaleGap = 1900 * time.Millisecond

func (h *c02Hook) hook(dir, idx int, b []byte) e2eAction {
	h.mu.Lock()
	defer h.mu.Unlock()
	act := h.apply(dir, b)
	n := int64(len(b))
	if act.drop {
		n = 0
	} else if act.data != nil {
		n = 0
		for _, d := range act.data {
			n += int64(len(d))
		}
	}
	if n > 0 {
		now := time.Now()
		if !h.last[dir].IsZero() && now.Sub(h.last[dir]) >= c02StaleGap && h.stale[dir] < 0 {
			h.stale[dir] = h.dpos[dir]
		}
		h.last[dir] = now
		h.dpos[dir] += n
	}
	return act
}

func (h *c02Hook) apply(dir int, b []byte) e2eAction {
	h.sent[dir].Write(b)
	start := h.pos[dir]
	h.pos[dir] += int64(len(b))
	stop := h.pos[dir]
	if h.truncated[dir] {
		return e2eAction{drop: true}
	}
	touched := false
	for _, f := range h.faults {
		if f.dir != dir {
			continue
		}
		switch f.kind {
		case "cut", "dupr":
			touched = touched || (f.offset < stop && f.end > start)
		case "truncate":
			touched = touched || f.offset < stop
		case "dropline", "dupline", "forge":
			touched = touched || !h.applied[f]
		case "coalesce":
			touched = true
		default:
			touched = touched || (f.offset >= start && f.offset < stop)
		}
	}
	if !touched {
		return e2eAction{}
	}
	out := make([]byte, 0, len(b)+64)
	for i := 0; i < len(b) && !h.truncated[dir]; i++ {
		a := start + int64(i)
		c := b[i]
		times := 1
		var after []byte
		for _, f := range h.faults {
			if f.dir != dir {
				continue
			}
			switch f.kind {
			case "flip":
				if a == f.offset {
					c ^= 1 << f.bit
					h.applied[f] = true
				}
			case "delete":
				if a == f.offset {
					times = 0
					h.applied[f] = true
				}
			case "dup":
				if a == f.offset {
					times++
					h.applied[f] = true
				}
			case "insert":
				if a == f.offset {
					out = append(out, byte('0'+f.bit))
					h.applied[f] = true
				}
			case "truncate":
				if a >= f.offset {
					h.truncated[dir] = true
					times = 0
					h.applied[f] = true
				}
			case "cut":
				if a >= f.offset && a < f.end {
					times = 0
					h.applied[f] = true
				}
			case "dupr":
				if a >= f.offset && a < f.end {
					h.carry[f] = append(h.carry[f], c)
					if a == f.end-1 {
						after = append(after, h.carry[f]...)
						h.applied[f] = true
					}
				}
			}
		}
		for k := 0; k < times; k++ {
			out = append(out, c)
		}
		out = append(out, after...)
	}
	// whole lines, by content
	for _, f := range h.faults {
		if f.dir != dir || h.applied[f] || (f.kind != "dropline" && f.kind != "dupline" && f.kind != "forge") {
			continue
		}
		p := 0
		for p < len(out) {
			nl := bytes.IndexByte(out[p:], '\n')
			if nl < 0 {
				break
			}
			line := out[p : p+nl+1]
			if bytes.HasPrefix(line, []byte(f.prefix)) {
				h.lineSeen[f]++
				if h.lineSeen[f] == f.nth {
					var repl []byte
					switch f.kind {
					case "dupline":
						repl = append(append([]byte{}, line...), line...)
					case "forge":
						repl = c02Forge(line, f.bit)
						if f.repl != "" {
							repl = []byte(f.repl)
						}
					}
					out = append(out[:p:p], append(repl, out[p+nl+1:]...)...)
					h.applied[f] = true
					break
				}
			}
			p += nl + 1
		}
	}
	// a transport that delivers a DATA frame together with what follows it (the finish flag): nothing is
	// changed, the two writes arrive as one
	for _, f := range h.faults {
		if f.dir != dir || f.kind != "coalesce" {
			continue
		}
		out = append(h.carry[f], out...)
		h.carry[f] = nil
		if i := bytes.LastIndex(out, []byte("#DATA:")); i >= 0 && !bytes.HasSuffix(out, []byte("#DATA:\n")) && !bytes.HasSuffix(out, []byte("#DATA:0\n")) &&
			!bytes.Contains(out[i:], []byte("#MD5:")) {
			h.carry[f] = out
			out = nil
		}
	}
	if len(out) == 0 {
		return e2eAction{drop: true}
	}
	return e2eAction{data: [][]byte{out}}
}

func phaseAt(wire []byte, off int64) string {
	if off >= int64(len(wire)) {
		return "end"
	}
	// the line containing the offset
	s := bytes.LastIndexByte(wire[:off], '\n') + 1
	l := wire[s:]
	if i := bytes.IndexByte(l, '#'); i >= 0 && i < 4 {
		if j := bytes.IndexByte(l[i:], ':'); j > 0 && j < 8 {
			return string(l[i+1 : i+j])
		}
	}
	if bytes.Contains(l[:minInt(len(l), 40)], []byte("TRZSZ")) {
		return "trigger"
	}
	return "payload"
}

func minInt(a, b int) int {
	if a < b {
		return a
	}
	return b
}

// the line boundaries of a recorded direction: [start, end) of every line that starts with '#'
func c02LineRanges(wire []byte) [][2]int64 {
	var out [][2]int64
	p := 0
	for p < len(wire) {
		nl := bytes.IndexByte(wire[p:], '\n')
		if nl < 0 {
			break
		}
		if wire[p] == '#' {
			out = append(out, [2]int64{int64(p), int64(p + nl + 1)})
		}
		p += nl + 1
	}
	return out
}

type c02Base struct {
	cfg   e2eCfg
	tops  []string
	pre   []c01tPre
	wire  [2][]byte
	root  string
	kind  string // flat, resume, archive
	rel   string // resume-matrix: the relation of the existing destination to the source
	names []string
}

func (b *c02Base) mkDest(dest string) {
	os.MkdirAll(dest, 0755)
	for _, p := range b.pre {
		full := filepath.Join(dest, p.rel)
		if p.isDir {
			os.MkdirAll(full, 0755)
		} else {
			os.MkdirAll(filepath.Dir(full), 0755)
			os.WriteFile(full, p.content, 0644)
		}
	}
}

// identical: the destination holds every source under the given names (overwrite: what the
// destination held besides is left alone)
func (b *c02Base) identical(dest string, names []string) string {
	for j, top := range b.tops {
		name := filepath.Base(top)
		if names != nil {
			name = names[j]
		}
		d := sameTree(top, filepath.Join(dest, name))
		if b.cfg.overwrite {
			var d2 []string
			for _, x := range d {
				if !strings.HasPrefix(x, "extra:") {
					d2 = append(d2, x)
				}
			}
			d = d2
		}
		if len(d) > 0 {
			return strings.Join(d, ";")
		}
	}
	return ""
}

func genFaults(c *ctx) {
	work, _ := os.MkdirTemp("", "e2e_faults_")
	defer os.RemoveAll(work)
	var bases []*c02Base
	protos := []int{0, 2, 3, 4}
	nFlat := c.pick(6, 24)
	for i := 0; i < nFlat; i++ {
		b := &c02Base{root: filepath.Join(work, fmt.Sprintf("b%d", i)), kind: "flat"}
		b.cfg = e2eCfg{upload: i%2 == 0, binary: (i/2)%2 == 0, proto: protos[i%len(protos)], timeout: 2, quiet: true,
			overwrite: i%3 == 0, escape: i%5 == 0, deadline: 25 * time.Second, startWait: 1500 * time.Millisecond,
			// without compression a changed payload byte survives decoding: the digest check is the only guard
			compress: []string{"no", "", "no", "yes"}[(i/2)%4]}
		rng := rand.New(rand.NewSource(c.rng.Int63()))
		os.MkdirAll(filepath.Join(b.root, "s"), 0755)
		for j, n := range []int{1500 + rng.Intn(3000), rng.Intn(200)} {
			p := filepath.Join(b.root, "s", fmt.Sprintf("f%d.bin", j))
			os.WriteFile(p, fillBytes(rng, n, rng.Intn(4)), 0644)
			b.tops = append(b.tops, p)
		}
		if b.cfg.overwrite && b.cfg.proto < 3 {
			// something to replace (protocol < 3 truncates; protocol >= 3 would start the resume exchange)
			b.pre = append(b.pre, c01tPre{rel: "f0.bin", content: fillBytes(rng, 1+rng.Intn(60), 2)})
		}
		bases = append(bases, b)
	}
	// overwrite onto an existing, non-empty destination, protocol >= 3: the prefix-hash exchange
	for i := 0; i < c.pick(2, 8); i++ {
		b := &c02Base{root: filepath.Join(work, fmt.Sprintf("r%d", i)), kind: "resume"}
		b.cfg = e2eCfg{upload: i%2 == 0, binary: (i/2)%2 == 0, proto: 3 + (i/2+i)%2, timeout: 2, quiet: true, overwrite: true,
			deadline: 25 * time.Second, startWait: 1500 * time.Millisecond, compress: []string{"no", "yes", ""}[i%3]}
		rng := rand.New(rand.NewSource(c.rng.Int63()))
		os.MkdirAll(filepath.Join(b.root, "s"), 0755)
		src := fillBytes(rng, 2000+rng.Intn(3000), rng.Intn(4))
		p := filepath.Join(b.root, "s", "f0.bin")
		os.WriteFile(p, src, 0644)
		b.tops = []string{p}
		old := append([]byte{}, src[:len(src)/2]...) // a proper prefix: the hashes match
		if i%3 == 1 {
			old[len(old)/2] ^= 0x55 // diverges: the hashes do not match
		} else if i%3 == 2 {
			old = append(append([]byte{}, src...), fillBytes(rng, 300, 0)...) // longer than the source
		}
		b.pre = []c01tPre{{rel: "f0.bin", content: old}}
		bases = append(bases, b)
	}
	// the same over more than one hash block (10 MiB each): destination = first block of the source, second
	// block different; faults on the answers of the hash exchange
	for i := 0; i < c.pick(1, 4); i++ {
		b := &c02Base{root: filepath.Join(work, fmt.Sprintf("rb%d", i)), kind: "resume-blocks"}
		k := int(c.rng.Int63n(8))
		b.cfg = e2eCfg{upload: k%2 == 0, binary: (k/2)%2 == 0, proto: 3 + (k/4)%2, timeout: 3, quiet: true, overwrite: true,
			deadline: 60 * time.Second, startWait: 1500 * time.Millisecond, compress: "yes"}
		rng := rand.New(rand.NewSource(c.rng.Int63()))
		os.MkdirAll(filepath.Join(b.root, "s"), 0755)
		B := int(trzsz.VerifPrefixHashStep())
		src := fillBytes(rng, 2*B+1000+rng.Intn(5000), 2)
		p := filepath.Join(b.root, "s", "f0.bin")
		os.WriteFile(p, src, 0644)
		b.tops = []string{p}
		old := append([]byte{}, src[:2*B]...)
		old[B+rng.Intn(B)] ^= 0x20
		b.pre = []c01tPre{{rel: "f0.bin", content: old}}
		bases = append(bases, b)
	}
	// the matrix of group resume-script through the real binaries: existing destination x protocol 3 / 4
	// (small files: one hash block), faults on the numbers and flags of the exchange (see below)
	for i, rel := range []string{"identical", "longer-same-prefix", "longer-diverging", "proper-prefix"} {
		for _, proto := range []int{3, 4} {
			if !c.thorough() && (i+proto)%2 == 1 && rel != "identical" {
				continue
			}
			b := &c02Base{root: filepath.Join(work, fmt.Sprintf("rm%d_%d", i, proto)), kind: "resume-matrix", rel: rel}
			b.cfg = e2eCfg{upload: (i+proto)%2 == 0, binary: i%2 == 1, proto: proto, timeout: 2, quiet: true, overwrite: true,
				deadline: 25 * time.Second, startWait: 1500 * time.Millisecond, compress: []string{"no", "yes"}[i%2]}
			rng := rand.New(rand.NewSource(c.rng.Int63()))
			os.MkdirAll(filepath.Join(b.root, "s"), 0755)
			src := fillBytes(rng, 300+rng.Intn(1500), rng.Intn(4))
			p := filepath.Join(b.root, "s", "f0.bin")
			os.WriteFile(p, src, 0644)
			b.tops = []string{p}
			var old []byte
			switch rel {
			case "identical":
				old = append([]byte{}, src...)
			case "longer-same-prefix":
				old = append(append([]byte{}, src...), fillBytes(rng, 1+rng.Intn(300), 2)...)
			case "longer-diverging":
				old = append(append([]byte{}, src...), fillBytes(rng, 1+rng.Intn(300), 2)...)
				old[rng.Intn(len(src))] ^= 0x41
			default:
				old = append([]byte{}, src[:1+rng.Intn(len(src)-1)]...)
			}
			b.pre = []c01tPre{{rel: "f0.bin", content: old}}
			bases = append(bases, b)
		}
	}
	// one small file; the SIZE message damaged to 0 and its echo damaged back: the size check of the
	// receiving pipeline (protocol >= 2) is a race between the acknowledger and the saver
	for i := 0; i < c.pick(2, 6); i++ {
		b := &c02Base{root: filepath.Join(work, fmt.Sprintf("sz%d", i)), kind: "size-race"}
		k := int(c.rng.Int63n(16))
		b.cfg = e2eCfg{upload: i%2 == 0, binary: (k/2)%2 == 0, proto: 2 + (k/4)%3, timeout: 2, quiet: true,
			deadline: 25 * time.Second, startWait: 1500 * time.Millisecond, compress: "yes"}
		rng := rand.New(rand.NewSource(c.rng.Int63()))
		os.MkdirAll(filepath.Join(b.root, "s"), 0755)
		p := filepath.Join(b.root, "s", "f0.bin")
		os.WriteFile(p, fillBytes(rng, 1+rng.Intn(3000), rng.Intn(4)), 0644)
		b.tops = []string{p}
		bases = append(bases, b)
	}
	// directory mode, protocol 4, a directory with children: the archive stream
	for i := 0; i < c.pick(2, 8); i++ {
		b := &c02Base{root: filepath.Join(work, fmt.Sprintf("a%d", i)), kind: "archive"}
		b.cfg = e2eCfg{upload: i%2 == 0, binary: (i/2)%2 == 0, proto: 4, timeout: 2, quiet: true, directory: true,
			deadline: 25 * time.Second, startWait: 1500 * time.Millisecond, compress: []string{"no", "yes"}[(i/2+i)%2]}
		rng := rand.New(rand.NewSource(c.rng.Int63()))
		d := filepath.Join(b.root, "s", "tree")
		os.MkdirAll(filepath.Join(d, "sub", "empty"), 0755)
		os.WriteFile(filepath.Join(d, "a.bin"), fillBytes(rng, 800+rng.Intn(2000), rng.Intn(4)), 0644)
		os.WriteFile(filepath.Join(d, "sub", "b.bin"), fillBytes(rng, 300+rng.Intn(900), rng.Intn(4)), 0644)
		os.WriteFile(filepath.Join(d, "sub", "zero"), nil, 0644)
		b.tops = []string{d}
		bases = append(bases, b)
	}
	// baseline (fault-free) runs give the wire of each direction
	parallelDo(len(bases), 12, func(i int) {
		b := bases[i]
		dest := filepath.Join(b.root, "dest0")
		b.mkDest(dest)
		h := newC02Hook(nil)
		cfg := b.cfg
		cfg.hook = h.hook
		r := runTransfer(cfg, b.tops, dest)
		b.wire = r.wire
		shown := r.serverOut
		if !cfg.upload {
			shown = r.termOut + r.serverOut
		}
		names, saved := parseSaved(shown)
		if saved && len(names) == len(b.tops) {
			b.names = names
		}
	})
	type fcase struct {
		b     *c02Base
		fs    []faultSpec
		phase []string
		res   e2eResult
		bad   string
		succ  string
		tie   c02fOut
		name  string // resume-matrix: the faults by name
	}
	var cases []*fcase
	kinds := []string{"flip", "delete", "dup", "insert", "truncate", "cut", "dupr", "dropline", "dupline", "forge"}
	per := c.pick(26, 150)
	for _, b := range bases {
		if len(b.wire[0]) == 0 || len(b.wire[1]) == 0 || b.names == nil {
			c.violate("baseline-failed", "fault-free baseline transfer did not succeed", describeCfg(b.cfg)+" kind="+b.kind)
			continue
		}
		if d := b.identical(filepath.Join(b.root, "dest0"), b.names); d != "" {
			c.violate("baseline-differs", "fault-free baseline transfer: destination differs from the source", describeCfg(b.cfg)+" kind="+b.kind+" :: "+d)
			continue
		}
		ddir := dirS2C
		if b.cfg.upload {
			ddir = dirC2S
		}
		lines := [2][][2]int64{c02LineRanges(b.wire[0]), c02LineRanges(b.wire[1])}
		one := func(k int) faultSpec {
			dir := c.rng.Intn(2)
			f := faultSpec{dir: dir, offset: int64(c.rng.Intn(len(b.wire[dir]))), kind: kinds[c.rng.Intn(len(kinds))], bit: uint(c.rng.Intn(8))}
			if k%2 == 0 {
				// half of the faults are same-length substitutions inside file data, in the direction
				// that carries it: the class of damage that only the digest comparison can catch
				f.kind = "flip"
				f.dir = ddir
				for try := 0; try < 50; try++ {
					f.offset = int64(c.rng.Intn(len(b.wire[f.dir])))
					if ph := phaseAt(b.wire[f.dir], f.offset); ph == "DATA" || ph == "payload" {
						break
					}
				}
			} else if b.kind == "resume" && k%4 == 1 {
				// inside the prefix-hash exchange: the HASH records and their answers
				f.dir = c.rng.Intn(2)
				for try := 0; try < 80; try++ {
					f.offset = int64(c.rng.Intn(len(b.wire[f.dir])))
					ph := phaseAt(b.wire[f.dir], f.offset)
					if ph == "HASH" || (f.dir != ddir && ph == "SUCC") {
						break
					}
				}
			}
			switch f.kind {
			case "cut", "dupr":
				// a range: half of the time whole lines
				f.end = f.offset + 1 + int64(c.rng.Intn(400))
				if ls := lines[f.dir]; len(ls) > 0 && c.rng.Intn(2) == 0 {
					i := c.rng.Intn(len(ls))
					j := i + c.rng.Intn(minInt(3, len(ls)-i))
					f.offset, f.end = ls[i][0], ls[j][1]
				}
				if f.kind == "cut" && c.rng.Intn(4) == 0 {
					// truncation followed by late garbage: everything up to a point near the end is lost
					f.end = int64(len(b.wire[f.dir])) - int64(c.rng.Intn(200))
				}
				if f.end <= f.offset {
					f.end = f.offset + 1
				}
			case "dropline", "dupline", "forge":
				f.prefix = []string{"#SUCC:", "#MD5:", "#SUCC:", "#DATA:", "#SIZE:", "#NAME:", "#HASH:"}[c.rng.Intn(7)]
				if f.kind == "forge" && f.prefix == "#NAME:" {
					// a NAME record replaced by another well-formed one is a scenario of its own (stale-name-record below)
					f.prefix = "#MD5:"
				}
				f.dir = ddir
				if f.prefix == "#SUCC:" {
					f.dir = 1 - ddir
				}
				n := bytes.Count(b.wire[f.dir], []byte("\n"+f.prefix))
				f.nth = 1 + c.rng.Intn(n+1)
				if f.kind == "dropline" {
					// as a range cut of the line's bytes when the baseline has it (robust against coalesced writes)
					cnt := 0
					for _, lr := range lines[f.dir] {
						if bytes.HasPrefix(b.wire[f.dir][lr[0]:], []byte(f.prefix)) {
							cnt++
							if cnt == f.nth {
								f.kind, f.offset, f.end = "cut", lr[0], lr[1]
								break
							}
						}
					}
				}
			}
			return f
		}
		if b.kind == "resume-matrix" {
			// a well-formed line with another value in place of the one the baseline has: the hash-phase SIZE line
			// (protocol 3: the first SIZE line of the direction that carries the file), the first HASH record,
			// the first answer (the first SUCC line whose record has a match field)
			reline := func(dir int, prefix string, pick func(payload []byte) bool, f func(payload []byte) []byte) *faultSpec {
				n := 0
				for _, lr := range lines[dir] {
					l := b.wire[dir][lr[0] : lr[1]-1]
					if !bytes.HasPrefix(l, []byte(prefix)) {
						continue
					}
					n++
					if pick(l[len(prefix):]) {
						return &faultSpec{dir: dir, kind: "forge", prefix: prefix, nth: n, repl: prefix + string(f(l[len(prefix):])) + "\n"}
					}
				}
				return nil
			}
			isAns := func(p []byte) bool {
				d, err := trzsz.VerifDecodeString(string(p))
				var raw map[string]any
				return err == nil && json.Unmarshal(d, &raw) == nil && raw["match"] != nil
			}
			ans := func(f func(a *c02rAck)) *faultSpec {
				return reline(1-ddir, "#SUCC:", isAns, func(p []byte) []byte {
					d, _ := trzsz.VerifDecodeString(string(p))
					var a c02rAck
					json.Unmarshal(d, &a)
					f(&a)
					js, _ := json.Marshal(a)
					return []byte(trzsz.VerifEncodeBytes(js))
				})
			}
			size := func(op string) *faultSpec {
				if b.cfg.proto >= 4 {
					return nil
				}
				return reline(ddir, "#SIZE:", func([]byte) bool { return true }, func(p []byte) []byte {
					n, _ := strconv.ParseInt(string(p), 10, 64)
					return []byte(fmt.Sprint(c02rNum(n, op)))
				})
			}
			hash := func(op string) *faultSpec {
				return reline(ddir, "#HASH:", func([]byte) bool { return true }, func(p []byte) []byte {
					d, _ := trzsz.VerifDecodeString(string(p))
					var h c02rHash
					json.Unmarshal(d, &h)
					h.Step = c02rNum(h.Step, op)
					js, _ := json.Marshal(h)
					return []byte(trzsz.VerifEncodeBytes(js))
				})
			}
			flip := func(a *c02rAck) { a.Match = !a.Match }
			stale := func(a *c02rAck) { a.Step, a.Match = 64, false }
			type named struct {
				name string
				fs   []*faultSpec
			}
			for _, nf := range []named{
				{"answer:match-flip", []*faultSpec{ans(flip)}},
				{"answer:stale-negative", []*faultSpec{ans(stale)}},
				{"answer:last-digit", []*faultSpec{ans(func(a *c02rAck) { a.Step = c02rNum(a.Step, "last-digit") })}},
				{"hash:digit-down", []*faultSpec{hash("digit-down")}},
				{"size:digit-up", []*faultSpec{size("digit-up")}},
				{"size:digit-append", []*faultSpec{size("digit-append")}},
				{"size:digit-down+answer:match-flip", []*faultSpec{size("digit-down"), ans(flip)}},
				{"size:zero+answer:stale-negative", []*faultSpec{size("zero"), ans(stale)}},
			} {
				var fs []faultSpec
				ok := true
				for _, f := range nf.fs {
					if f == nil {
						ok = false
						break
					}
					fs = append(fs, *f)
				}
				if ok {
					ph := make([]string, len(fs))
					for i := range ph {
						ph[i] = "resume"
					}
					cases = append(cases, &fcase{b: b, fs: fs, phase: ph, name: nf.name})
				}
			}
			continue
		}
		if b.kind == "size-race" {
			st, _ := os.Stat(b.tops[0])
			for k := 0; k < c.pick(8, 24); k++ {
				cases = append(cases, &fcase{b: b, phase: []string{"SIZE", "SUCC(size)", "SUCC(final)", "DATA"}, fs: []faultSpec{
					{dir: ddir, kind: "forge", prefix: "#SIZE:", nth: 1, repl: "#SIZE:0\n"},
					{dir: 1 - ddir, kind: "forge", prefix: "#SUCC:", nth: 3, repl: fmt.Sprintf("#SUCC:%d\n", st.Size())},
					// the final ack says "saved up to 0": the sender would wait for its own size
					{dir: 1 - ddir, kind: "forge", prefix: "#SUCC:", nth: 6, repl: fmt.Sprintf("#SUCC:%d\n", st.Size())},
					{dir: ddir, kind: "coalesce"}}})
			}
			continue
		}
		if b.kind == "resume-blocks" {
			// the answers of the hash exchange are the 3rd, 4th ... line of the answering direction
			// (after the echo of NUM and the name reply): one of them lost, doubled, or forged
			for k := 0; k < c.pick(3, 12); k++ {
				f := faultSpec{dir: 1 - ddir, kind: []string{"dropline", "dupline", "forge"}[k%3], prefix: "#SUCC:", nth: 3 + (k/3)%2, bit: uint(c.rng.Intn(8))}
				if f.kind == "dropline" {
					cnt := 0
					for _, lr := range lines[f.dir] {
						if bytes.HasPrefix(b.wire[f.dir][lr[0]:], []byte(f.prefix)) {
							cnt++
							if cnt == f.nth {
								f.kind, f.offset, f.end = "cut", lr[0], lr[1]
								break
							}
						}
					}
				}
				cases = append(cases, &fcase{b: b, fs: []faultSpec{f}, phase: []string{"SUCC(hash)"}})
			}
			continue
		}
		if b.kind == "flat" && b.cfg.proto >= 3 && !b.cfg.overwrite {
			// the NAME record of the second file lost and the (stale) record of the first delivered in its place
			var first []byte
			for _, lr := range lines[ddir] {
				if bytes.HasPrefix(b.wire[ddir][lr[0]:], []byte("#NAME:")) {
					first = b.wire[ddir][lr[0]:lr[1]]
					break
				}
			}
			if first != nil {
				cases = append(cases, &fcase{b: b, phase: []string{"NAME"}, name: "stale-name-record",
					fs: []faultSpec{{dir: ddir, kind: "forge", prefix: "#NAME:", nth: 2, repl: string(first)}}})
			}
		}
		for k := 0; k < per; k++ {
			fc := &fcase{b: b}
			nf := []int{1, 1, 1, 1, 2, 2, 2, 3}[c.rng.Intn(8)]
			for j := 0; j < nf; j++ {
				kk := k
				if j > 0 {
					kk = c.rng.Intn(1000)*2 + 1 // the further faults: anywhere
				}
				f := one(kk)
				fc.fs = append(fc.fs, f)
				fc.phase = append(fc.phase, phaseAt(b.wire[f.dir], f.offset))
			}
			cases = append(cases, fc)
		}
	}
	parallelDo(len(cases), 40, func(i int) {
		fc := cases[i]
		dest := filepath.Join(fc.b.root, fmt.Sprintf("d%d", i))
		fc.b.mkDest(dest)
		cfg := fc.b.cfg
		h := newC02Hook(fc.fs)
		cfg.hook = h.hook
		fc.res = runTransfer(cfg, fc.b.tops, dest)
		r := fc.res
		shown := r.serverOut
		if !cfg.upload {
			shown = r.termOut + r.serverOut
		}
		names, saved := parseSaved(shown)
		clientOK := cfg.upload && r.uploadErr == nil && r.started
		if saved || clientOK {
			fc.succ = fmt.Sprintf("saved-shown=%v client-upload-ok=%v names=%v", saved, clientOK, names)
			// success claimed: every source must be present, identical
			if saved && len(names) != len(fc.b.tops) {
				fc.bad = fmt.Sprintf("success shown with names %v for %d sources", names, len(fc.b.tops))
				// what is there, compared with the sources
				ents, _ := os.ReadDir(dest)
				for _, e := range ents {
					got, _ := os.ReadFile(filepath.Join(dest, e.Name()))
					is := "no source"
					for _, top := range fc.b.tops {
						if want, err := os.ReadFile(top); err == nil && bytes.Equal(want, got) {
							is = "content of " + filepath.Base(top)
						}
					}
					fc.bad += fmt.Sprintf("; destination has %s (%d bytes, %s)", e.Name(), len(got), is)
				}
			} else if saved {
				fc.bad = fc.b.identical(dest, names)
			} else {
				fc.bad = fc.b.identical(dest, fc.b.names)
			}
		}
		h.mu.Lock()
		run := &c02fRun{cfg: cfg, tops: fc.b.tops, pre: fc.b.pre, dest: dest, res: r, kind: fc.b.kind,
			sent:  [2][]byte{append([]byte{}, h.sent[0].Bytes()...), append([]byte{}, h.sent[1].Bytes()...)},
			deliv: r.wire}
		for d := 0; d < 2; d++ {
			if h.stale[d] >= 0 && h.stale[d] <= int64(len(run.deliv[d])) {
				run.deliv[d] = run.deliv[d][:h.stale[d]]
				run.staleCut = true
			}
		}
		h.mu.Unlock()
		var fss []string
		for _, f := range fc.fs {
			fss = append(fss, fmt.Sprintf("%s(bit %d)", f, f.bit))
		}
		run.desc = fmt.Sprintf("faults %s cfg: %s kind=%s", strings.Join(fss, " "), describeCfg(cfg), fc.b.kind)
		fc.tie = c02fEvaluate(run)
		if os.Getenv("C02_DEBUG") != "" && fc.b.kind == "size-race" {
			for d := 0; d < 2; d++ {
				for _, l := range bytes.Split(run.sent[d], []byte("\n")) {
					if bytes.HasPrefix(l, []byte("#FAIL:")) || bytes.HasPrefix(l, []byte("#fail:")) {
						t, _ := trzsz.VerifDecodeString(string(l[6:]))
						fmt.Fprintf(os.Stderr, "SIZERACE dir=%d fail=%q\n", d, tailStr(string(t), 160))
						if strings.Contains(string(t), "timeout") {
							fmt.Fprintf(os.Stderr, "SIZERACE-WIRE %s\n  sent0=%q\n  deliv0=%q\n  sent1=%q\n  deliv1=%q\n", describeCfg(cfg), tailStr(string(run.sent[0]), 600), tailStr(string(run.deliv[0]), 600), tailStr(string(run.sent[1]), 600), tailStr(string(run.deliv[1]), 600))
						}
					}
				}
			}
		}
		os.RemoveAll(dest)
	})
	for _, fc := range cases {
		var fss []string
		for _, f := range fc.fs {
			fss = append(fss, f.String())
		}
		sort.Strings(fss)
		c.count(fmt.Sprintf("faults-per-run:%d", len(fc.fs)))
		c.count("base:" + fc.b.kind)
		for i, f := range fc.fs {
			c.count("phase:" + fc.phase[i])
			c.count("kind:" + f.kind)
		}
		if fc.succ != "" {
			c.count("outcome:success-identical")
		} else {
			c.count("outcome:error")
		}
		key := "silent-corruption:" + fc.fs[0].kind + ":" + fc.phase[0]
		if fc.b.kind == "size-race" {
			key = "size-race:e2e"
		}
		if fc.name == "stale-name-record" {
			key = "stale-name-record"
		}
		if fc.b.kind == "resume-matrix" {
			key = fmt.Sprintf("resume-e2e:p%d:%s", fc.b.cfg.proto, fc.name)
			if fc.b.cfg.proto < 4 && strings.HasPrefix(fc.name, "size:") && strings.Contains(fc.name, "+answer:") {
				// the hash-phase SIZE line of protocol 3 AND an answer damaged
				key = "resume-e2e:p3-size-line"
			}
			c.count("resume-matrix:" + fc.b.rel + ":" + fc.name)
		}
		if fc.b.kind == "resume-blocks" {
			// one fault on an answer of the prefix-hash exchange
			key = "resume-hash-answer:" + map[string]string{"cut": "lost", "dupline": "doubled", "forge": "forged"}[fc.fs[0].kind]
		}
		desc := fmt.Sprintf("faults %s phases=%v %s kind=%s", strings.Join(fss, " "), fc.phase, describeCfg(fc.b.cfg), fc.b.kind)
		if fc.bad != "" {
			var bits []string
			for _, f := range fc.fs {
				bits = append(bits, fmt.Sprintf("%s(bit %d)", f, f.bit))
			}
			c.violate(key, "a side reported success although the destination differs from the source",
				fmt.Sprintf("faults %s phases=%v cfg: %s kind=%s :: %s :: %s", strings.Join(bits, " "), fc.phase, describeCfg(fc.b.cfg), fc.b.kind, fc.succ, fc.bad))
		}
		for _, v := range fc.tie.viols {
			c.violate(v.key, v.what, v.detail)
		}
		for _, k := range fc.tie.counts {
			c.count(k)
		}
		if fc.tie.skip != "" {
			c.count("tie-skipped:" + fc.tie.skip)
		}
		if len(fc.tie.emits) == 0 {
			c.note(fc.succ == "", desc+fmt.Sprintf(" => success=%q hung=%v", fc.succ, fc.res.hung))
		}
		for _, e := range fc.tie.emits {
			c.emit(e.nontrivial, e.fn, e.res, e.args...)
			if os.Getenv("C02_DEBUG") != "" {
				fmt.Fprintf(os.Stderr, "CASE %d %s %s\n", c.n, e.fn, desc)
			}
		}
	}
	_ = md5.Sum
}
