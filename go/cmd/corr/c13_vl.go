//go:build c13overlay

package main

// Compiled only into the overlay build of this harness (go build -overlay … -tags
// verif,c13overlay): the functions below live in the helper file that go/cmd/overlay adds to
// package trzsz (zz_vp.go), not in /repo.

import "github.com/trzsz/trzsz-go/trzsz"

func init() {
	c13VlDump = trzsz.VerifVlDump
	c13VlRelease = trzsz.VerifVlRelease
	c13VlSchedule = trzsz.VerifVlSchedule
	c13VlSchedState = trzsz.VerifVlSchedState
}
