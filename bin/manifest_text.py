ENGINES = [
    {"name": "coq", "path": "coq/", "kind_free_text": "Coq 8.16.1 development: executable Gallina models (Model/), lemmas (Proofs/), property theorems with Print Assumptions (Props/), constants regenerated from the Go source on every run (Gen/)",
     "serves_properties": []},
    {"name": "gen", "path": "go/cmd/gen", "kind_free_text": "translator: go/parser + go/ast over /repo/trzsz/*.go -> Gen/Consts.v, Gen/Skel_*.v", "serves_properties": []},
    {"name": "corr", "path": "go/cmd/corr", "kind_free_text": "correspondence harness: generates inputs, runs the real trzsz-go functions (build tag verif), writes case files; also runs direct property oracles on the implementation", "serves_properties": []},
    {"name": "driver", "path": "ocaml/", "kind_free_text": "extracted model (ExtrOcamlBasic) + OCaml driver evaluating every case line and reporting disagreements", "serves_properties": []},
]
NOTES = ("Every check is bin/check <id>: regenerate Gen/*.v from /repo, full Coq build, Print Assumptions + hygiene grep, "
         "extraction, correspondence of the extracted model against the real functions, direct oracles; see DESIGN.md.")
NOT_APPLICABLE = {}
