ENGINES = [
    {"name": "coq", "path": "coq/", "kind_free_text": "Coq 8.16.1 development: executable Gallina models (Model/), lemmas (Proofs/), property theorems with Print Assumptions (Props/), constants regenerated from the Go source on every run (Gen/)",
     "serves_properties": []},
    {"name": "gen", "path": "go/cmd/gen", "kind_free_text": "translator: go/parser + go/ast over /repo/trzsz/*.go -> Gen/Consts.v, Gen/Skel_*.v", "serves_properties": []},
    {"name": "corr", "path": "go/cmd/corr", "kind_free_text": "correspondence harness: generates inputs, runs the real trzsz-go functions (build tag verif), writes case files; also runs direct property oracles on the implementation", "serves_properties": []},
    {"name": "driver", "path": "ocaml/", "kind_free_text": "extracted model (ExtrOcamlBasic) + OCaml driver evaluating every case line and reporting disagreements", "serves_properties": []},
]
NOTES = ("Every check is bin/check <id>: regenerate Gen/*.v from /repo, full Coq build, Print Assumptions + hygiene grep, "
         "extraction, correspondence of the extracted model against the real functions, direct oracles; see DESIGN.md.")
NOT_APPLICABLE = {}
TEXT = {
    "C04": {
        "text": "Machine-checked proof over an executable model of escape.go and the escapeReader/escapeWriter of pipeline.go: round trip for every well-formed table, every payload and every destination size; streaming reader correct for every split of the escaped stream and every sequence of caller buffer sizes; no protected byte in any escaped output for clean tables; undefined pair rejected; both built-in tables (regenerated from the source on every run) are well-formed, clean and protect the bytes the property lists. The model is tied to the code by regenerated constants and by differential execution of the extracted model against the real functions.",
        "note": "Trusted: Coq kernel, gen translator, ExtrOcamlBasic extraction, OCaml driver, Go harness. Modelled not verified: JSON/ISO-8859-1 decoding of the table, zstd in front of the escaper (arbitrary function), the message framing around the escaped payload (covered under C01).",
        "technique": "Coq proof (induction over payload, chunk list and buffer sizes) + regenerated constants + extracted-model correspondence",
    },
}
