PROP = {
    "groups": ["escape", "codec", "codec-e2e"],
    "rule": "escape/unescape/streaming-reader/writer/table-parser cases: every byte value x both built-in tables, "
            "all splits of a short escaped stream, random well-formed and ill-formed tables with payloads dense in "
            "leader/source/code bytes, random splits and caller buffer sizes; non-trivial = escaping changes the "
            "length, a chunk ends in the leader byte, a non-empty table is used, or a table is parsed; distinct = distinct input line. "
            "codec group (wire around the escaper): isTrzszLetter on all 256 bytes; base64 writer/reader/encodeBytes/decodeString on every length 0..64, "
            "every split of streams up to 7 bytes, random chunkings of streams up to 64 KiB, malformed streams (bad characters, padding anywhere, "
            "truncation, CR/LF, non-canonical trailing bits, data after padding); sendDataWriter framing under a changing buffer size (all splits of an "
            "8-byte stream x 6 size sequences, random streams/sizes, exact-fit writes) read back by pipelineRecvData; pipelineSendData re-splitting; "
            "line senders; protocol-1 sendData/recvData. codec-e2e group: binary uploads of protected-byte payloads and names through the real client "
            "and the real trz (escape on/off x compress yes/no/auto x protocol 4/2/1): every byte of the recorded client->server wire is checked "
            "against the table announced in the server's CFG line, and that table must contain what the options promise whatever the server announces "
            "('~' always; with -e also CR, DLE, XON, XOFF, CAN, ESC, GS and the 8-bit forms the built-in table has: 8d 90 91 93 9d). "
            "further fixed cases: legacy protocols 1 and 2 with 16k chunks full of protected bytes (a legacy sender escapes after cutting: the escaped chunk exceeds the announced size), keys typed by the user during an upload (they must not reach the connection), a half-established tunnel (server greeting 1.3 s late: the in-band upload is escaped as without a tunnel). Direct oracle in group escape: every escape pair a table does NOT define (every undefined code x both built-in tables x sampled announced "
            "tables) must be rejected by the flat decoder for every destination size and by the streaming reader for every cut of the stream, "
            "between the leader and its code too",
    "trusted": ["modelled, not verified: JSON decoding and ISO-8859-1 encoding of the announced table (the model starts at the decoded array of strings); zstd in front of the escaper is an arbitrary byte function",
                "modelled, not verified: encoding/base64 is transcribed from its observable behaviour (alphabet, padding, non-strict decoding, CR/LF skipping) and tied by the correspondence run; zlib under base64 is an arbitrary function (its outputs are passed to the model as an oracle per case)",
                "correspondence of the STREAMING base64 decoder on malformed input is restricted to streams without '=' before their last quantum: NewDecoder decodes 4k-aligned blocks independently, so padding in mid-stream is accepted or rejected depending on read boundaries; the whole-stream decoder (DecodeString) is compared on all malformed inputs"],
    "assumptions": ["payload bytes are < 256", "chunks handed to the streaming reader are non-empty and caller buffers have length >= 1",
                    "wire-clean claim: message types are words of letters/digits, numbers are non-negative, the client's newline is \"\\n\" (regenerated from newTransfer), the table is one of the two built-in ones"],
}
TEXT = {
    "text": "Machine-checked proof over an executable model of escape.go and the escapeReader/escapeWriter of pipeline.go: round trip for every well-formed table, every payload and every destination size; streaming reader correct for every split of the escaped stream and every sequence of caller buffer sizes; no protected byte in any escaped output for clean tables; undefined pair rejected; both built-in tables (regenerated from the source on every run) are well-formed, clean and protect the bytes the property lists. The model is tied to the code by regenerated constants and by differential execution of the extracted model against the real functions.",
    "note": "Trusted: Coq kernel, gen translator, ExtrOcamlBasic extraction, OCaml driver, Go harness. Modelled not verified: JSON/ISO-8859-1 decoding of the table, zstd in front of the escaper (arbitrary function), the message framing around the escaped payload (covered under C01).",
    "technique": "Coq proof (induction over payload, chunk list and buffer sizes) + regenerated constants + extracted-model correspondence",
}
