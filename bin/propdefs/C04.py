PROP = {
    "groups": ["escape"],
    "rule": "escape/unescape/streaming-reader/writer/table-parser cases: every byte value x both built-in tables, "
            "all splits of a short escaped stream, random well-formed and ill-formed tables with payloads dense in "
            "leader/source/code bytes, random splits and caller buffer sizes; non-trivial = escaping changes the "
            "length, a chunk ends in the leader byte, a non-empty table is used, or a table is parsed; distinct = distinct input line",
    "trusted": ["modelled, not verified: JSON decoding and ISO-8859-1 encoding of the announced table (the model starts at the decoded array of strings); zstd in front of the escaper is an arbitrary byte function"],
    "assumptions": ["payload bytes are < 256", "chunks handed to the streaming reader are non-empty and caller buffers have length >= 1"],
}
TEXT = {
    "text": "Machine-checked proof over an executable model of escape.go and the escapeReader/escapeWriter of pipeline.go: round trip for every well-formed table, every payload and every destination size; streaming reader correct for every split of the escaped stream and every sequence of caller buffer sizes; no protected byte in any escaped output for clean tables; undefined pair rejected; both built-in tables (regenerated from the source on every run) are well-formed, clean and protect the bytes the property lists. The model is tied to the code by regenerated constants and by differential execution of the extracted model against the real functions.",
    "note": "Trusted: Coq kernel, gen translator, ExtrOcamlBasic extraction, OCaml driver, Go harness. Modelled not verified: JSON/ISO-8859-1 decoding of the table, zstd in front of the escaper (arbitrary function), the message framing around the escaped payload (covered under C01).",
    "technique": "Coq proof (induction over payload, chunk list and buffer sizes) + regenerated constants + extracted-model correspondence",
}
