PROP = {
    "shared_groups": "also runs the neighbouring groups whose code can break this property: noise (described under C16)",
    "groups": ["buffer", "pump", "noise"],
    "rule": "sequences of strict-line / junk-line / sized-binary reads on the real trzszBuffer with every chunk queued beforehand "
            "(the timeout fires exactly when the queue is empty, so Blocked is observed deterministically), compared with the "
            "extracted model (run, and run_cont = reading on after an interrupt plus the chunks popBuffer then returns): corpus of "
            "buffer_test.go; every stream over {a,LF,CR,#,:,Ctrl-C} up to length 5 (quick) / 7 (thorough) x every segmentation x "
            "every op sequence up to depth 3 over {strict, junk, binary 0..3} run on the real buffer against the single-chunk run "
            "and a model-free flat reference, the model evaluating all single-chunk cases, all cases with an interrupt and a "
            "deterministic sample of the others; random segmentations with empty chunks; random streams up to 64 KiB with "
            "geometric chunk sizes in two independent chunkings; non-trivial = more than one chunk; distinct = distinct input line. "
            "Group pump: the REAL input pumps (wrapTransferInput, TrzszFilter.wrapOutput during a transfer, the four relay pumps) on a "
            "scripted io.Reader that hands out sampled segmentations (zero-length reads, data with EOF, segments above the read buffer), "
            "overwrites its own array after every Read and is fully pumped before the first line is read (one stratum reads concurrently); "
            "results, popped chunks and forwarded chunks vs the extracted pump model, vs the reference parse of the delivered bytes and vs a "
            "second segmentation; a backlog stratum with MORE one-byte reads pending than the queue holds (capacity+1, +5000; reader starting when the pump waits inside addBuffer; also directly on addBuffer vs the interleaving model queue_late, oracle queue-lost-chunks); every stream up to length 4 (quick) / 5 x every segmentation x sampled op paths; non-trivial = more than one non-empty read",
    "trusted": ["Go channel bufCh is a FIFO (Go semantics); timeout/stop wake-ups of nextBuffer are outside this property (C10/C11)"],
    "assumptions": ["a read is issued with readBuf reset (as readLine/readBinary do); chunks may be empty",
                    "pump model: tunnelConnected / stopped / relay status do not change while a script is pumped"],
    "timeout": 600,
}
TEXT = {
    "text": "Machine-checked proof over an executable model of buffer.go (nextBuffer/readLine/readBinary/popBuffer with the cursor arithmetic of the code): for every sequence of strict-line, junk-tolerant-line and sized-binary reads and every two segmentations of the same byte stream (empty chunks included) the results agree up to and including the first would-block or interrupt, and equal an independently written reference parse of the flat stream; every delivered line/block accounts for exactly its bytes of the stream (conservation, with the exact CR-LF unwrapping relation for junk lines); a read that the reference completes on the bytes that have arrived never waits, and later bytes never change it; popBuffer hands back exactly the unread bytes; the goroutines that pump stdin / the tunnel connection / the server output into the buffer hand on exactly the bytes the source delivered, in non-empty chunks no longer than their read buffer, so the lines and blocks do not depend on how the source segmented its reads either; the bounded queue between pump and reader, with the producer that waits (capacity and the blocking send regenerated from the source), loses and reorders nothing under any schedule, never deadlocks, and delivers every chunk. A witness shows that the cursor after a Ctrl-C interrupt does depend on chunking, which is where the guarantee stops. Tied to the code by regenerated delimiter constants and by differential execution of the extracted model against the real trzszBuffer.",
    "note": "Trusted: Coq kernel, gen translator, ExtrOcamlBasic extraction, OCaml driver, Go harness, FIFO semantics of Go channels. Not covered here: timeout and stop wake-ups (C10/C11).",
    "technique": "Coq proof (induction over chunk list and op list) + regenerated constants + extracted-model correspondence + two-chunking differential on the implementation",
}
